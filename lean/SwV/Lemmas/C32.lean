/-
C32 — helper lemmas for the last step of the range proof: from the parsed ranges through the decision tree of
`processRange` (ignored / single / multipart / 416) to the spec's `conforms` judgement.
-/
import SwV.Model.C32
import SwV.Spec.C32
namespace SwV.Lemmas.C32
open SwV.Model.C32 SwV.Spec.C32

theorem isDigit_not_sign (c : Char) (h : isDigit c = true) : c ≠ '+' ∧ c ≠ '-' := by
  constructor <;> (intro e; subst e; revert h; decide)

/-- plain digits are read as themselves by the ParseInt model -/
theorem parseInt64_number (s : List Char) (v : Nat) (h : number s = some v) : parseInt64 s = some (v : Int) ∧ v < 2 ^ 63 := by
  unfold number at h
  cases hd : digitsVal s with
  | none => simp [hd] at h
  | some w =>
    simp only [hd] at h
    by_cases hw : w < 2 ^ 63
    · simp only [hw, if_true, Option.some.injEq] at h
      subst h
      refine ⟨?_, hw⟩
      cases s with
      | nil => simp [digitsVal] at hd
      | cons c r =>
        have hc : isDigit c = true := by
          simp only [digitsVal, digitsAcc] at hd
          by_cases hcd : isDigit c = true
          · exact hcd
          · simp [hcd] at hd
        obtain ⟨h1, h2⟩ := isDigit_not_sign c hc
        simp [parseInt64, h1, h2, posOf, hd, hw]
    · simp [hw] at h


/-- a satisfiable element denotes a non-empty range inside the representation -/
theorem satisfy_bounds (N : Nat) (sp : RSpec) (r : Nat × Nat) (h : satisfy N sp = some r) :
    r.1 < N ∧ 0 < r.2 ∧ r.1 + r.2 ≤ N := by
  cases sp with
  | fromTo a b =>
    simp only [satisfy] at h
    by_cases ha : a < N
    · simp only [ha, if_true, Option.some.injEq] at h; subst h; dsimp only; omega
    · simp [ha] at h
  | «from» a =>
    simp only [satisfy] at h
    by_cases ha : a < N
    · simp only [ha, if_true, Option.some.injEq] at h; subst h; dsimp only; omega
    · simp [ha] at h
  | suffix n =>
    simp only [satisfy] at h
    by_cases hz : n = 0 ∨ N = 0
    · simp [hz] at h
    · simp only [hz, if_false, Option.some.injEq] at h; subst h; dsimp only; omega

/-- the ranges kept by `filterMap (satisfy N)` are all inside the representation -/
theorem filterMap_bounds (N : Nat) (specs : List RSpec) :
    ∀ r ∈ specs.filterMap (satisfy N), r.1 < N ∧ 0 < r.2 ∧ r.1 + r.2 ≤ N := by
  intro r hr
  simp only [List.mem_filterMap] at hr
  obtain ⟨sp, _, hs⟩ := hr
  exact satisfy_bounds N sp r hs

/-- when every element is satisfiable nothing is filtered away -/
theorem filterMap_eq_nil_of_all_some (N : Nat) :
    ∀ specs : List RSpec, (∀ sp ∈ specs, (satisfy N sp).isSome) → specs.filterMap (satisfy N) = [] → specs = [] := by
  intro specs hsat he
  cases specs with
  | nil => rfl
  | cons sp rest =>
    have h1 := hsat sp (by simp)
    cases hs : satisfy N sp with
    | none => simp [hs] at h1
    | some r => simp [hs] at he

/-- Seek + CopyN of a positive count = the spec's `bytesOf` -/
theorem slice_eq_bytesOf (R : List Nat) (r : Nat × Nat) (h : 0 < r.2) :
    slice R (toRg r).start (toRg r).length = bytesOf R r := by
  have hh : ¬ (((r.2 : Nat) : Int) ≤ 0 ∨ ((r.1 : Nat) : Int) < 0) := by omega
  unfold slice toRg bytesOf
  rw [if_neg hh]
  simp only [Int.toNat_natCast]

theorem parts_eq (R : List Nat) : ∀ rs : List (Nat × Nat), (∀ r ∈ rs, 0 < r.2) →
    (rs.map toRg).map (fun r => (r, slice R r.start r.length)) = rs.map (fun r => (toRg r, bytesOf R r)) := by
  intro rs h
  induction rs with
  | nil => rfl
  | cons r rest ih =>
    simp only [List.map_cons]
    rw [slice_eq_bytesOf R r (h r (by simp)), ih (fun x hx => h x (by simp [hx]))]

theorem sumLen_map_toRg : ∀ rs : List (Nat × Nat), sumLen (rs.map toRg) = (((rs.map (·.2)).sum : Nat) : Int) := by
  intro rs
  induction rs with
  | nil => rfl
  | cons r rest ih =>
    simp only [sumLen, List.map_cons, List.sum_cons, toRg] at ih ⊢
    rw [ih]; omega

theorem wrap64_id (x : Int) (h0 : -(2 ^ 63) ≤ x) (h1 : x < 2 ^ 63) : wrap64 x = x := by
  unfold wrap64; omega

/-- the int64 sum can only look oversized when the true sum is oversized (N < 2^62) -/
theorem oversized_of_wrapped (N : Nat) (hN : N < 2 ^ 62) (rs : List (Nat × Nat))
    (h : sumRangesSize (rs.map toRg) > (N : Int)) : (rs.map (·.2)).sum > N := by
  unfold sumRangesSize at h
  rw [sumLen_map_toRg] at h
  by_cases hle : (rs.map (·.2)).sum ≤ N
  · rw [wrap64_id _ (by omega) (by omega)] at h
    omega
  · omega

theorem no_start_beyond (N : Nat) (rs : List (Nat × Nat)) (h : ∀ r ∈ rs, r.1 < N) :
    (rs.map toRg).any (fun r => decide (r.start > (N : Int))) = false := by
  rw [List.any_eq_false]
  intro g hg
  simp only [List.mem_map] at hg
  obtain ⟨r, hr, rfl⟩ := hg
  have := h r hr
  simp [toRg]; omega

/-! shapes of `respond` along the branches of `processRange` -/

theorem respond_nil (R : List Nat) : respond [] R = .full R := by
  simp [respond, processRange]

theorem respond_full (h : List Char) (R : List Nat) (gs : List Rg) (he : h ≠ [])
    (hp : parseRange h (R.length : Int) = some gs) (hbig : sumRangesSize gs > (R.length : Int) ∨ gs = []) :
    respond h R = .full R := by
  simp [respond, processRange, he, hp, hbig]

theorem respond_unsat (h : List Char) (R : List Nat) (he : h ≠ []) (hp : parseRange h (R.length : Int) = none) :
    respond h R = .unsat := by
  simp [respond, processRange, he, hp]

theorem respond_single (h : List Char) (R : List Nat) (g : Rg) (he : h ≠ [])
    (hp : parseRange h (R.length : Int) = some [g]) (hbig : ¬ (sumRangesSize [g] > (R.length : Int) ∨ [g] = [])) :
    respond h R = .single g (slice R g.start g.length) := by
  simp only [respond, processRange, he, hp, hbig, if_false]

theorem respond_multi (h : List Char) (R : List Nat) (g1 g2 : Rg) (gs : List Rg) (he : h ≠ [])
    (hp : parseRange h (R.length : Int) = some (g1 :: g2 :: gs))
    (hbig : ¬ (sumRangesSize (g1 :: g2 :: gs) > (R.length : Int) ∨ g1 :: g2 :: gs = []))
    (hany : (g1 :: g2 :: gs).any (fun r => decide (r.start > (R.length : Int))) = false) :
    respond h R = .multi ((g1 :: g2 :: gs).map fun r => (r, slice R r.start r.length)) := by
  simp only [respond, processRange, he, hp, hbig, if_false, hany]
  simp

theorem conforms_multi (R : List Nat) (rs : List (Nat × Nat)) (e : Expected)
    (he : e = .fullOrMulti rs ∨ e = .multi rs) :
    conforms e R (.multi (rs.map fun r => (toRg r, bytesOf R r))) = true := by
  rcases he with rfl | rfl <;> simp [conforms]

def shapeOf (rs : List (Nat × Nat)) : Expected :=
  match rs with
  | [r] => .single r
  | _ => .multi rs

theorem expected_cons (specs : List RSpec) (N : Nat) (hs0 : specs ≠ []) (rs : List (Nat × Nat)) (hrs0 : rs ≠ [])
    (hrs : specs.filterMap (satisfy N) = rs) :
    expected specs N = if (rs.map (·.2)).sum > N then .fullOrMulti rs else shapeOf rs := by
  cases rs with
  | nil => exact absurd rfl hrs0
  | cons r t => cases t <;> simp [expected, hs0, hrs, shapeOf]

/-- LAST STEP, satisfiable side: the header parses to exactly the denoted satisfiable ranges (all elements satisfiable)
    ⇒ the answer chosen by `processRange` and filled by `respond` is the expected one -/
theorem respond_conforms_of_parse (h : List Char) (R : List Nat) (specs : List RSpec) (hN : R.length < 2 ^ 62)
    (hnil : h = [] → specs = [])
    (hsat : ∀ sp ∈ specs, (satisfy R.length sp).isSome)
    (hp : parseRange h (R.length : Int) = some ((specs.filterMap (satisfy R.length)).map toRg)) :
    conforms (expected specs R.length) R (respond h R) = true := by
  have hb := filterMap_bounds R.length specs
  have hnil' := filterMap_eq_nil_of_all_some R.length specs hsat
  generalize hrs : specs.filterMap (satisfy R.length) = rs at hp hb hnil'
  by_cases he : h = []
  · have := hnil he
    subst this
    subst he
    rw [respond_nil]
    simp [expected, conforms]
  · by_cases hbig : sumRangesSize (rs.map toRg) > (R.length : Int) ∨ rs.map toRg = []
    · rw [respond_full h R _ he hp hbig]
      by_cases hs0 : specs = []
      · simp [hs0, expected, conforms]
      · have hrs0 : rs ≠ [] := fun e => hs0 (hnil' e)
        have hover : (rs.map (·.2)).sum > R.length := by
          rcases hbig with hb1 | hb2
          · exact oversized_of_wrapped R.length hN rs hb1
          · simp at hb2; exact absurd hb2 hrs0
        rw [expected_cons specs R.length hs0 rs hrs0 hrs, if_pos hover]
        simp [conforms]
    · have hs0 : specs ≠ [] := by
        intro e; subst e; simp at hrs; subst hrs; simp at hbig
      have hrs0 : rs ≠ [] := fun e => hs0 (hnil' e)
      rw [expected_cons specs R.length hs0 rs hrs0 hrs]
      cases rs with
      | nil => exact absurd rfl hrs0
      | cons r1 t =>
        cases t with
        | nil =>
          have hr := hb r1 (by simp)
          have hnot : ¬ ([r1].map (·.2)).sum > R.length := by simp; omega
          rw [if_neg hnot, respond_single h R (toRg r1) he hp hbig, slice_eq_bytesOf R r1 hr.2.1]
          simp [conforms, shapeOf]
        | cons r2 rest =>
          have hany := no_start_beyond R.length (r1 :: r2 :: rest) (fun r hr => (hb r hr).1)
          have hparts := parts_eq R (r1 :: r2 :: rest) (fun r hr => (hb r hr).2.1)
          rw [respond_multi h R (toRg r1) (toRg r2) (rest.map toRg) he hp hbig hany]
          rw [show toRg r1 :: toRg r2 :: rest.map toRg = (r1 :: r2 :: rest).map toRg from rfl, hparts]
          apply conforms_multi
          by_cases hover : ((r1 :: r2 :: rest).map (·.2)).sum > R.length
          · rw [if_pos hover]; exact Or.inl rfl
          · rw [if_neg hover]; exact Or.inr rfl  -- shapeOf (r1 :: r2 :: rest) = .multi _ by rfl


/-! ## the 416 side: an element whose first-byte-pos lies beyond the size fails the whole header -/

/-- first-byte-pos > size: the elements `parseRange` rejects (it accepts first-byte-pos = size, see the open finding) -/
def beyond (N : Nat) : RSpec → Bool
  | .fromTo a _ => decide (a > N)
  | .from a => decide (a > N)
  | .suffix _ => false

theorem beyond_unsatisfiable (N : Nat) (sp : RSpec) (h : beyond N sp = true) : satisfy N sp = none := by
  cases sp with
  | fromTo a b => simp only [beyond, decide_eq_true_eq] at h; simp only [satisfy]; rw [if_neg (by omega)]
  | «from» a => simp only [beyond, decide_eq_true_eq] at h; simp only [satisfy]; rw [if_neg (by omega)]
  | suffix n => simp [beyond] at h

theorem parseOne_beyond (ra : List Char) (N : Nat) (sp : RSpec) (hd : denoteOne ra = some sp) (hb : beyond N sp = true) :
    parseOne ra (N : Int) = none := by
  unfold denoteOne at hd
  unfold parseOne
  cases hcut : cut '-' ra with
  | none => simp [hcut] at hd
  | some se =>
    obtain ⟨s0, e0⟩ := se
    simp only [hcut] at hd ⊢
    by_cases hs0 : trimSpace s0 = []
    · simp only [hs0, if_true] at hd
      cases hn : number (trimSpace e0) with
      | none => simp [hn] at hd
      | some n => simp only [hn, Option.some.injEq] at hd; subst hd; simp [beyond] at hb
    · simp only [hs0, if_false] at hd ⊢
      cases hn : number (trimSpace s0) with
      | none => simp [hn] at hd
      | some a =>
        simp only [hn] at hd
        obtain ⟨hp, _⟩ := parseInt64_number _ _ hn
        simp only [hp]
        have hgt : a > N := by
          by_cases he0 : trimSpace e0 = []
          · simp only [he0, if_true, Option.some.injEq] at hd; subst hd
            simpa [beyond] using hb
          · simp only [he0, if_false] at hd
            cases hm : number (trimSpace e0) with
            | none => simp [hm] at hd
            | some b =>
              simp only [hm] at hd
              by_cases hab : a ≤ b
              · simp only [hab, if_true, Option.some.injEq] at hd; subst hd
                simpa [beyond] using hb
              · simp [hab] at hd
        have : ((a : Int) > (N : Int) ∨ (a : Int) < 0) := by omega
        simp only [this, if_true]

theorem parsePieces_none_of_beyond (N : Nat) :
    ∀ (ps : List (List Char)) (specs : List RSpec), denotePieces ps = some specs →
      specs.any (beyond N) = true → parsePieces ps (N : Int) = none := by
  intro ps
  induction ps with
  | nil => intro specs h hb; simp [denotePieces] at h; subst h; simp at hb
  | cons p rest ih =>
    intro specs h hb
    simp only [denotePieces] at h
    simp only [parsePieces]
    by_cases hbl : trimSpace p = []
    · simp only [hbl, if_true] at h ⊢
      exact ih specs h hb
    · simp only [hbl, if_false] at h ⊢
      cases hd : denoteOne (trimSpace p) with
      | none => simp [hd] at h
      | some sp =>
        simp only [hd] at h
        cases hr : denotePieces rest with
        | none => simp [hr] at h
        | some sps =>
          simp only [hr, Option.some.injEq] at h
          subst h
          simp only [List.any_cons, Bool.or_eq_true] at hb
          rcases hb with hb1 | hb2
          · rw [parseOne_beyond _ N sp hd hb1]
          · rw [ih sps hr hb2]
            cases parseOne (trimSpace p) (N : Int) <;> rfl

/-- header level: grammatical header with an element beyond the size ⇒ "invalid range" -/
theorem parseRange_none_of_beyond (h : List Char) (N : Nat) (specs : List RSpec)
    (hd : denote h = some specs) (hb : specs.any (beyond N) = true) : parseRange h (N : Int) = none := by
  unfold denote at hd
  unfold parseRange
  by_cases he : h = []
  · simp only [he, if_true, Option.some.injEq] at hd
    subst hd; simp at hb
  · simp only [he, if_false] at hd ⊢
    cases hp : stripBytesPrefix h with
    | none => simp [hp] at hd
    | some rest =>
      simp only [hp] at hd ⊢
      exact parsePieces_none_of_beyond N _ specs hd hb

theorem denote_nil_iff (h : List Char) (specs : List RSpec) (hd : denote h = some specs) (he : h = []) : specs = [] := by
  subst he; simp [denote] at hd; exact hd

/-- LAST STEP, 416 side: no element satisfiable and one of them beyond the size ⇒ 416, which is what is expected -/
theorem respond_conforms_unsat (h : List Char) (R : List Nat) (specs : List RSpec)
    (hd : denote h = some specs) (hb : specs.any (beyond R.length) = true)
    (hnone : ∀ sp ∈ specs, satisfy R.length sp = none) :
    conforms (expected specs R.length) R (respond h R) = true := by
  have hs0 : specs ≠ [] := by intro e; subst e; simp at hb
  have he : h ≠ [] := fun e => hs0 (denote_nil_iff h specs hd e)
  rw [respond_unsat h R he (parseRange_none_of_beyond h R.length specs hd hb)]
  have : specs.filterMap (satisfy R.length) = [] := by
    rw [List.filterMap_eq_nil_iff]; exact hnone
  simp [expected, hs0, this, conforms]

/-! ## from `conforms` to the complete judge -/

def bnd (N : Nat) (r : Nat × Nat) : Prop := r.1 < N ∧ 0 < r.2 ∧ r.1 + r.2 ≤ N

def bounded (N : Nat) : Expected → Prop
  | .single r => bnd N r
  | .multi rs => ∀ r ∈ rs, bnd N r
  | .fullOrMulti rs => ∀ r ∈ rs, bnd N r
  | _ => True

theorem expected_bounded (specs : List RSpec) (N : Nat) : bounded N (expected specs N) := by
  have hb := filterMap_bounds N specs
  unfold expected
  by_cases hs0 : specs = []
  · simp [hs0, bounded]
  · simp only [hs0, if_false]
    generalize specs.filterMap (satisfy N) = rs at hb
    by_cases hr0 : rs = []
    · simp [hr0, bounded]
    · simp only [hr0, if_false]
      by_cases hover : (rs.map (·.2)).sum > N
      · simp only [hover, if_true, bounded]; exact hb
      · simp only [hover, if_false]
        cases rs with
        | nil => exact absurd rfl hr0
        | cons r t =>
          cases t with
          | nil => simp only [bounded]; exact hb r (by simp)
          | cons r2 t2 => simp only [bounded]; exact hb

theorem okPart_of_bnd (R : List Nat) (r : Nat × Nat) (h : bnd R.length r) :
    (decide (0 ≤ (toRg r).start) && decide (0 < (toRg r).length) && decide ((toRg r).start + (toRg r).length ≤ (R.length : Int)) &&
      bytesOf R r == (R.drop (toRg r).start.toNat).take (toRg r).length.toNat) = true := by
  obtain ⟨h1, h2, h3⟩ := h
  have a1 : (0 : Int) ≤ (r.1 : Int) := by omega
  have a2 : (0 : Int) < (r.2 : Int) := by omega
  have a3 : (r.1 : Int) + (r.2 : Int) ≤ (R.length : Int) := by omega
  simp [toRg, bytesOf, a1, a3, h2]

theorem multi_ok (R : List Nat) : ∀ rs : List (Nat × Nat), (∀ r ∈ rs, bnd R.length r) →
    (rs.map fun r => (toRg r, bytesOf R r)).find? (fun p => decide (p.1.length ≤ 0)) = none ∧
    (rs.map fun r => (toRg r, bytesOf R r)).all (fun p =>
      decide (0 ≤ p.1.start) && decide (0 < p.1.length) && decide (p.1.start + p.1.length ≤ (R.length : Int)) &&
        p.2 == (R.drop p.1.start.toNat).take p.1.length.toNat) = true := by
  intro rs h
  induction rs with
  | nil => simp
  | cons r t ih =>
    have hr := h r (by simp)
    have iht := ih (fun x hx => h x (by simp [hx]))
    have hpos : ¬ ((toRg r).length ≤ 0) := by have := hr.2.1; simp [toRg]; omega
    constructor
    · simp only [List.map_cons, List.find?_cons, hpos, decide_false]; exact iht.1
    · simp only [List.map_cons, List.all_cons, Bool.and_eq_true]
      exact ⟨by simpa [Bool.and_eq_true] using okPart_of_bnd R r hr, iht.2⟩

/-- an answer that conforms to an expectation whose ranges lie inside the content passes the two absolute checks of
    the judge (no empty/negative range, bytes = what Content-Range names) -/
theorem absolute_of_conforms (R : List Nat) (e : Expected) (resp : Response) (hb : bounded R.length e)
    (hc : conforms e R resp = true) : rgNonPositive resp = none ∧ consistent R resp = true := by
  cases resp with
  | full b =>
    cases e <;> simp [conforms] at hc <;> simp [rgNonPositive, consistent, hc]
  | unsat => simp [rgNonPositive, consistent]
  | single g b =>
    cases e <;> simp [conforms] at hc
    rename_i r
    obtain ⟨hg, hbody⟩ := hc
    subst hg; subst hbody
    simp only [bounded] at hb
    have hpos : ¬ ((toRg r).length ≤ 0) := by have := hb.2.1; simp [toRg]; omega
    constructor
    · simp only [rgNonPositive, hpos, if_false]
    · simp only [consistent]; exact okPart_of_bnd R r hb
  | multi ps =>
    cases e <;> simp [conforms] at hc
    all_goals
      rename_i rs
      subst hc
      simp only [bounded] at hb
      have := multi_ok R rs hb
      constructor
      · simp only [rgNonPositive, this.1]; rfl
      · simp only [consistent]; exact this.2

/-- the complete judge passes on an answer that conforms to the expectation of a grammatical header -/
theorem rangeJudge_none_of_conforms (h : List Char) (R : List Nat) (specs : List RSpec) (resp : Response)
    (hd : denote h = some specs) (hc : conforms (expected specs R.length) R resp = true) :
    rangeJudge h R resp = none := by
  have habs := absolute_of_conforms R _ resp (expected_bounded specs R.length) hc
  cases resp with
  | full b =>
    have : (b == R) = true := by simpa [consistent] using habs.2
    simp [rangeJudge, this]
  | unsat => simp [rangeJudge, habs.1, habs.2, hd, hc]
  | single g b => simp [rangeJudge, habs.1, habs.2, hd, hc]
  | multi ps => simp [rangeJudge, habs.1, habs.2, hd, hc]

end SwV.Lemmas.C32
