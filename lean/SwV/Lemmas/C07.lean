/-
C07 — helper lemmas: byte-level facts about `readAt`/`writeAt`, the binary search loop, and
what `MarkNeedleDeleted` does to the entry it hits and to all the others.
-/
import SwV.Model.C07
namespace SwV.Lemmas.C07
open SwV.Model.C07

theorem writeAt_length (bs : List Nat) (off : Nat) (d : List Nat) (h : off + d.length ≤ bs.length) :
    (writeAt bs off d).length = bs.length := by
  unfold writeAt
  have : ¬ bs.length < off := by omega
  simp [this]; omega

theorem writeAt_getElem? (bs : List Nat) (off : Nat) (d : List Nat) (h : off + d.length ≤ bs.length) (i : Nat) :
    (writeAt bs off d)[i]? = if off ≤ i ∧ i < off + d.length then d[i - off]? else bs[i]? := by
  unfold writeAt
  have : ¬ bs.length < off := by omega
  simp only [this, if_false]
  by_cases h1 : i < off
  · have : ¬ (off ≤ i ∧ i < off + d.length) := by omega
    simp [this, List.getElem?_append, h1, List.length_take]
    omega
  · by_cases h2 : i < off + d.length
    · have : (off ≤ i ∧ i < off + d.length) := by omega
      simp [this, List.getElem?_append, List.length_take]
      have e : min off bs.length = off := by omega
      simp [e]
      split
      · omega
      · split
        · rfl
        · omega
    · have : ¬ (off ≤ i ∧ i < off + d.length) := by omega
      simp [this, List.getElem?_append, List.length_take]
      have e : min off bs.length = off := by omega
      simp [e]
      split
      · omega
      · split
        · omega
        · congr 1; omega

theorem readAt_getElem? (bs : List Nat) (p n i : Nat) :
    (readAt bs p n)[i]? = if i < n then bs[p + i]? else none := by
  unfold readAt
  simp [List.getElem?_take, List.getElem?_drop]

theorem readAt_length (bs : List Nat) (p n : Nat) (h : p + n ≤ bs.length) : (readAt bs p n).length = n := by
  unfold readAt; simp; omega

/-- a read that does not overlap an in-place write sees the old bytes -/
theorem readAt_writeAt_disjoint (bs : List Nat) (off : Nat) (d : List Nat) (p n : Nat)
    (h : off + d.length ≤ bs.length) (hd : p + n ≤ off ∨ off + d.length ≤ p) :
    readAt (writeAt bs off d) p n = readAt bs p n := by
  apply List.ext_getElem?
  intro i
  rw [readAt_getElem?, readAt_getElem?]
  by_cases hi : i < n
  · simp only [hi, if_true]
    rw [writeAt_getElem? bs off d h]
    have : ¬ (off ≤ p + i ∧ p + i < off + d.length) := by omega
    simp [this]
  · simp [hi]

/-- a read that covers an in-place write sees the write applied to the old read -/
theorem readAt_writeAt_inside (bs : List Nat) (p n c : Nat) (d : List Nat)
    (h : p + n ≤ bs.length) (hc : c + d.length ≤ n) :
    readAt (writeAt bs (p + c) d) p n = writeAt (readAt bs p n) c d := by
  have hl := readAt_length bs p n h
  apply List.ext_getElem?
  intro i
  rw [readAt_getElem?, writeAt_getElem? bs (p + c) d (by omega), writeAt_getElem? _ c d (by omega), readAt_getElem?]
  by_cases hi : i < n
  · rw [if_pos hi]
    by_cases h1 : c ≤ i ∧ i < c + d.length
    · have h2 : p + c ≤ p + i ∧ p + i < p + c + d.length := by omega
      have e : p + i - (p + c) = i - c := by omega
      rw [if_pos h1, if_pos h2, e]
    · have h2 : ¬ (p + c ≤ p + i ∧ p + i < p + c + d.length) := by omega
      rw [if_neg h1, if_neg h2, if_pos hi]
  · have h1 : ¬ (c ≤ i ∧ i < c + d.length) := by omega
    rw [if_neg hi, if_neg h1, if_neg hi]

/-- what the tombstone write does to the entry it lands in -/
theorem marked_entry (os : Nat) (e : List Nat) (hl : e.length = entryWidth os) :
    keyOf (writeAt e (8 + os) tombstone) = keyOf e ∧
    offOf os (writeAt e (8 + os) tombstone) = offOf os e ∧
    Model.C07.sizeOf os (writeAt e (8 + os) tombstone) = -1 := by
  have hw : 8 + os + tombstone.length ≤ e.length := by simp [hl, entryWidth, tombstone]
  have ht : tombstone.length = 4 := rfl
  refine ⟨?_, ?_, ?_⟩
  · unfold keyOf; congr 1
    apply List.ext_getElem?; intro i
    simp only [List.getElem?_take]
    by_cases hi : i < 8
    · simp only [hi, if_true]; rw [writeAt_getElem? e _ _ hw]
      have : ¬ (8 + os ≤ i ∧ i < 8 + os + tombstone.length) := by omega
      rw [if_neg this]
    · simp [hi]
  · unfold offOf
    have : ((writeAt e (8 + os) tombstone).drop 8).take os = (e.drop 8).take os := by
      apply List.ext_getElem?; intro i
      simp only [List.getElem?_take, List.getElem?_drop]
      by_cases hi : i < os
      · simp only [hi, if_true]; rw [writeAt_getElem? e _ _ hw]
        have : ¬ (8 + os ≤ 8 + i ∧ 8 + i < 8 + os + tombstone.length) := by omega
        rw [if_neg this]
      · simp [hi]
    rw [this]
  · unfold Model.C07.sizeOf
    have : ((writeAt e (8 + os) tombstone).drop (8 + os)).take 4 = tombstone := by
      apply List.ext_getElem?; intro i
      simp only [List.getElem?_take, List.getElem?_drop]
      by_cases hi : i < 4
      · simp only [hi, if_true]; rw [writeAt_getElem? e _ _ hw]
        have : (8 + os ≤ 8 + os + i ∧ 8 + os + i < 8 + os + tombstone.length) := by omega
        rw [if_pos this]; congr 1; omega
      · simp only [hi, if_false]
        have : tombstone.length ≤ i := by omega
        simp [List.getElem?_eq_none this]
    rw [this]; decide

/-- soundness of the search loop: a hit is an index inside [l, h) whose entry carries the key -/
theorem searchLoop_sound (os : Nat) (bs : List Nat) (key : Nat) :
    ∀ (fuel l h m : Nat), searchLoop os bs key fuel l h = some m →
      l ≤ m ∧ m < h ∧ keyOf (readAt bs (m * entryWidth os) (entryWidth os)) = key := by
  intro fuel
  induction fuel with
  | zero => intro l h m hm; simp [searchLoop] at hm
  | succ f ih =>
    intro l h m hm
    unfold searchLoop at hm
    by_cases hlh : l < h
    · simp only [hlh, if_true] at hm
      split at hm
      · rename_i hk; injection hm with hm; subst hm; exact ⟨by omega, by omega, hk⟩
      · split at hm
        · have := ih _ _ _ hm; omega
        · have := ih _ _ _ hm; exact ⟨this.1, by omega, this.2.2⟩
    · simp [hlh] at hm

/-- the loop only looks at the keys of the entries below `h` -/
theorem searchLoop_congr (os : Nat) (bs bs' : List Nat) (key : Nat) :
    ∀ (fuel l h : Nat),
      (∀ j, j < h → keyOf (readAt bs' (j * entryWidth os) (entryWidth os)) = keyOf (readAt bs (j * entryWidth os) (entryWidth os))) →
      searchLoop os bs' key fuel l h = searchLoop os bs key fuel l h := by
  intro fuel
  induction fuel with
  | zero => intro l h _; simp [searchLoop]
  | succ f ih =>
    intro l h hk
    unfold searchLoop
    by_cases hlh : l < h
    · simp only [hlh, if_true]
      have hm : (l + h) / 2 < h := by omega
      rw [hk _ hm]
      rw [ih ((l + h) / 2 + 1) h hk, ih l ((l + h) / 2) (fun j hj => hk j (by omega))]
    · simp [hlh]

/-! ### the journal file -/

/-- a write at the end of the file is an append -/
theorem writeAt_end (bs d : List Nat) : writeAt bs bs.length d = bs ++ d := by
  unfold writeAt
  simp

theorem beBytes_length (n v : Nat) : (beBytes n v).length = n := by
  induction n generalizing v with
  | zero => rfl
  | succ n ih => simp [beBytes, ih]

theorem beNat_append_one (a : List Nat) (b : Nat) : beNat (a ++ [b]) = beNat a * 256 + b := by
  unfold beNat; simp [List.foldl_append]

theorem beNat_beBytes (n v : Nat) : beNat (beBytes n v) = v % 256 ^ n := by
  induction n generalizing v with
  | zero => simp [beBytes, beNat, Nat.mod_one]
  | succ n ih =>
    rw [beBytes, beNat_append_one, ih, Nat.pow_succ, Nat.mul_comm (256 ^ n) 256, Nat.mod_mul]
    omega

theorem take_append_len (a b : List Nat) (n : Nat) (h : a.length = n) : (a ++ b).take n = a := by
  subst h; simp

theorem drop_append_len (a b : List Nat) (n : Nat) (h : a.length = n) : (a ++ b).drop n = b := by
  subst h; simp

/-- a journal made of 8-byte records of ids below 2^64 reads back as exactly those ids -/
theorem journalKeys_flatMap (ks : List Nat) (hk : ∀ k ∈ ks, k < 2 ^ 64) :
    ∀ fuel, ks.length < fuel → journalKeys fuel (ks.flatMap (beBytes 8)) = ks := by
  induction ks with
  | nil => intro fuel hf; cases fuel with
    | zero => omega
    | succ f => simp [journalKeys]
  | cons k rest ih =>
    intro fuel hf
    cases fuel with
    | zero => omega
    | succ f =>
      have hl : (beBytes 8 k).length = 8 := beBytes_length 8 k
      have ht : (beBytes 8 k ++ rest.flatMap (beBytes 8)).take 8 = beBytes 8 k := by
        exact take_append_len _ _ 8 hl
      have hd : (beBytes 8 k ++ rest.flatMap (beBytes 8)).drop 8 = rest.flatMap (beBytes 8) := by
        exact drop_append_len _ _ 8 hl
      simp only [List.flatMap_cons, journalKeys, ht, hd, hl]
      have : beNat (beBytes 8 k) = k := by
        rw [beNat_beBytes]; exact Nat.mod_eq_of_lt (hk k (by simp))
      simp [this]
      exact ih (fun x hx => hk x (by simp [hx])) f (by simp at hf; omega)

theorem ecjKeys_flatMap (ks : List Nat) (hk : ∀ k ∈ ks, k < 2 ^ 64) :
    ecjKeys (ks.flatMap (beBytes 8)) = ks := by
  unfold ecjKeys
  apply journalKeys_flatMap ks hk
  have : ∀ l : List Nat, (l.flatMap (beBytes 8)).length = 8 * l.length := by
    intro l; induction l with
    | nil => rfl
    | cons a r ih => simp [List.flatMap_cons, beBytes_length, ih]; omega
  rw [this]; omega

end SwV.Lemmas.C07
