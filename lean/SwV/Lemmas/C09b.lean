/-
C09 — honest HISTORIES: timed lists of operations (writes, overwrites, deletes, compactions, heartbeats, reloads) from
the empty volume.  The invariant `Inv` (every record the index points at is `Good`) together with "the volume's
lastModified is not ahead of the clock" is preserved by every honest step; this file is the explicit induction.
-/
import SwV.Model.C09
import SwV.Spec.C09
import SwV.Lemmas.C09
namespace SwV.Lemmas.C09
open SwV.Model.C08 SwV.Model.C09 SwV.Spec.C09

/-- operations of a history: the model's operations (a `put` on a key that is already there is an OVERWRITE: the index
    moves to the new record) plus the DELETION of a key (Store.DeleteVolumeNeedle → doDeleteRequest: a tombstone is
    appended and the needle map no longer points at a record of the key; lastModifiedTsSeconds is not touched) -/
inductive HOp where
  | op (o : Op)
  | del (key : Nat)
deriving Repr

def hstep (v : Vol) (nowNs : Nat) : HOp → Vol
  | .op o => step v nowNs o
  | .del key => if !v.alive then v else { v with needles := v.needles.filter (·.1 ≠ key) }

/-- a timed history -/
def hrun (v : Vol) : List (Nat × HOp) → Vol
  | [] => v
  | (t, o) :: r => hrun (hstep v t o) r

/-- an operation of a history as an honest server performs it at clock `nowNs`: `HonestOp`, and a reload never finds a
    .dat whose mtime lies in the future -/
def HonestH (v : Vol) (nowNs : Nat) : HOp → Prop
  | .op o => HonestOp v nowNs o ∧ ∀ mtime, o = .reload mtime → mtime ≤ nowNs / nsPerSec
  | .del _ => True

/-- clocks never run backwards and every operation is honest in the state it is applied to -/
def HonestRun (v : Vol) (last : Nat) : List (Nat × HOp) → Prop
  | [] => True
  | (t, o) :: r => last ≤ t ∧ HonestH v t o ∧ HonestRun (hstep v t o) t r

theorem step_ttl (v : Vol) (nowNs : Nat) (o : Op) : (step v nowNs o).ttl = v.ttl := by
  cases o with
  | put key t hasLM lm =>
    simp only [step]
    split
    · rfl
    · rfl
  | compact =>
    simp only [step]
    split <;> rfl
  | heartbeat =>
    simp only [step]
    split <;> rfl
  | reload mtime =>
    simp only [step]
    split <;> rfl

theorem hstep_ttl (v : Vol) (nowNs : Nat) (o : HOp) : (hstep v nowNs o).ttl = v.ttl := by
  cases o with
  | op o => exact step_ttl v nowNs o
  | del key =>
    simp only [hstep]
    split <;> rfl

/-- a deletion only removes records: the invariant is kept -/
theorem inv_delete (v : Vol) (nowNs key : Nat) (hinv : Inv v) : Inv (hstep v nowNs (.del key)) := by
  simp only [hstep]
  split
  · exact hinv
  · intro kn hkn
    exact hinv kn (List.mem_filter.1 hkn).1

/-- after an honest step at clock `t` the volume's lastModified is not ahead of `t` -/
theorem lm_hstep (v : Vol) (t : Nat) (o : HOp) (hlm : v.lm ≤ t / nsPerSec) (ho : HonestH v t o) :
    (hstep v t o).lm ≤ t / nsPerSec := by
  cases o with
  | del key =>
    simp only [hstep]
    split <;> exact hlm
  | op o =>
    cases o with
    | put key tt hasLM lm =>
      obtain ⟨⟨h1, h2, _⟩, _⟩ := ho
      subst h1 h2
      simp only [hstep, step]
      split
      · exact hlm
      · simp only [if_true]
        split <;> omega
    | compact =>
      simp only [hstep, step]
      split
      · exact hlm
      · exact Nat.le_refl _
    | heartbeat =>
      simp only [hstep, step]
      split <;> exact hlm
    | reload mtime =>
      simp only [hstep, step]
      split
      · exact hlm
      · exact ho.2 mtime rfl

theorem honestRun_prefix (pre rest : List (Nat × HOp)) : ∀ (v : Vol) (last : Nat),
    HonestRun v last (pre ++ rest) → HonestRun v last pre := by
  induction pre with
  | nil => intro v last _; trivial
  | cons x pre ih =>
    intro v last h
    obtain ⟨t, o⟩ := x
    exact ⟨h.1, h.2.1, ih _ _ h.2.2⟩

end SwV.Lemmas.C09
