/- C26 — helper lemmas for Props/C26.lean -/
import SwV.Model.C26
import SwV.Spec.C26
namespace SwV.Lemmas.C26
open SwV.Model.C26 SwV.Spec.C26

/-! ### credential lookup and verification are sound -/

theorem lookupByAccessKey_sound (cfg : Config) (ak : String) (i : Identity) (secret : String)
    (h : lookupByAccessKey cfg ak = some (i, secret)) : i ∈ cfg ∧ (ak, secret) ∈ i.creds := by
  induction cfg with
  | nil => simp [lookupByAccessKey] at h
  | cons j rest ih =>
    simp only [lookupByAccessKey] at h
    split at h
    · rename_i c hc
      simp only [Option.some.injEq, Prod.mk.injEq] at h
      obtain ⟨rfl, rfl⟩ := h
      have hm := List.mem_of_find?_eq_some hc
      have hp := List.find?_some hc
      simp only [beq_iff_eq] at hp
      refine ⟨List.mem_cons_self, ?_⟩
      have : c = (ak, c.2) := by rw [← hp]
      rw [← this]; exact hm
    · obtain ⟨h1, h2⟩ := ih h
      exact ⟨List.mem_cons_of_mem _ h1, h2⟩

/-- a verifier accepted ⇒ the request carries an intact credential of that kind made with a key pair the identity owns -/
theorem verifyCred_sound (cfg : Config) (c : Option Cred) (k : CredKind) (i : Identity)
    (h : verifyCred cfg c k = some i) :
    ∃ cr, c = some cr ∧ cr.kind = k ∧ cr.intact = true ∧ i ∈ cfg ∧ (cr.ak, cr.sk) ∈ i.creds := by
  unfold verifyCred at h
  split at h
  · simp at h
  · rename_i cr
    split at h
    · rename_i hk
      split at h
      · rename_i j secret hl
        split at h
        · rename_i hs
          simp only [Option.some.injEq] at h
          subst h
          simp only [sigOK, Bool.and_eq_true, beq_iff_eq] at hs
          obtain ⟨h1, h2⟩ := lookupByAccessKey_sound cfg cr.ak j secret hl
          exact ⟨cr, rfl, hk, hs.1, h1, by rw [hs.2]; exact h2⟩
        · simp at h
      · simp at h
    · simp at h

theorem verifyV2_sound (cfg : Config) (rq : Req) (i : Identity) (h : verifyV2 cfg rq = some i) :
    ∃ cr, rq.transport = some cr ∧ cr.intact = true ∧ i ∈ cfg ∧ (cr.ak, cr.sk) ∈ i.creds := by
  unfold verifyV2 at h
  split at h
  · obtain ⟨cr, a, _, b, c, d⟩ := verifyCred_sound _ _ _ _ h; exact ⟨cr, a, b, c, d⟩
  · obtain ⟨cr, a, _, b, c, d⟩ := verifyCred_sound _ _ _ _ h; exact ⟨cr, a, b, c, d⟩

theorem verifyV4_sound (cfg : Config) (rq : Req) (i : Identity) (h : verifyV4 cfg rq = some i) :
    ∃ cr, rq.transport = some cr ∧ cr.intact = true ∧ i ∈ cfg ∧ (cr.ak, cr.sk) ∈ i.creds := by
  unfold verifyV4 at h
  split at h
  · obtain ⟨cr, a, _, b, c, d⟩ := verifyCred_sound _ _ _ _ h; exact ⟨cr, a, b, c, d⟩
  · split at h
    · obtain ⟨cr, a, _, b, c, d⟩ := verifyCred_sound _ _ _ _ h; exact ⟨cr, a, b, c, d⟩
    · simp at h

theorem lookupAnonymous_sound (cfg : Config) (i : Identity) (h : lookupAnonymous cfg = some i) :
    i ∈ cfg ∧ (i.name == "anonymous") = true := by
  unfold lookupAnonymous at h
  exact ⟨List.mem_of_find?_eq_some h, List.find?_some (p := fun (i : Identity) => i.name == "anonymous") h⟩

/-! ### introduction rules for the spec's `authorized` -/

theorem credAuthorizes_intro (cfg : Config) (cr : Cred) (act : Option Str) (b : Str) (i : Identity)
    (hint : cr.intact = true) (hi : i ∈ cfg) (hc : (cr.ak, cr.sk) ∈ i.creds) (hp : permitted i act b = true) :
    credAuthorizes cfg cr act b = true := by
  simp only [credAuthorizes, hint, Bool.true_and, List.any_eq_true, Bool.and_eq_true]
  exact ⟨i, hi, List.contains_iff_mem.mpr hc, hp⟩

theorem authorized_of_transport (cfg : Config) (rt : Route) (rq : Req) (cr : Cred) (i : Identity)
    (ht : rq.transport = some cr) (hint : cr.intact = true) (hi : i ∈ cfg) (hc : (cr.ak, cr.sk) ∈ i.creds)
    (hp : permitted i (routeAction rt) rq.bucket = true) : authorized cfg rt rq = true := by
  simp only [authorized, ht, credAuthorizes_intro cfg cr _ _ i hint hi hc hp, Bool.true_or]

theorem authorized_of_anonymous (cfg : Config) (rt : Route) (rq : Req) (i : Identity)
    (hi : i ∈ cfg) (hn : (i.name == "anonymous") = true) (hp : permitted i (routeAction rt) rq.bucket = true) :
    authorized cfg rt rq = true := by
  have : anonymousAllowed cfg (routeAction rt) rq.bucket = true := by
    simp only [anonymousAllowed, List.any_eq_true, Bool.and_eq_true]
    exact ⟨i, hi, hn, hp⟩
  simp only [authorized, this, Bool.or_true]

/-- the two auth types whose arm in `authRequest` returns ErrNone without looking at any credential -/
theorem arm_pass_iff (t : AuthType) : armOf t = .pass ↔ t = .streamingSigned ∨ t = .postPolicy := by
  cases t <;> simp [armOf]

/-- what `authRequest` guarantees when it lets a request through -/
theorem authRequest_sound (cfg : Config) (action : Str) (rq : Req) (r : Option Identity)
    (h : authRequest cfg action rq = some r) :
    armOf (authTypeOf rq) = .pass ∨
    ∃ i, i ∈ cfg ∧ canDo i.actions action rq.bucket = true ∧
      ((∃ cr, rq.transport = some cr ∧ cr.intact = true ∧ (cr.ak, cr.sk) ∈ i.creds) ∨ (i.name == "anonymous") = true) := by
  unfold authRequest at h
  simp only at h
  split at h
  · exact Or.inl (by assumption)
  · simp at h
  · simp at h
  · right
    split at h
    · simp at h
    · rename_i i hv
      split at h
      · rename_i hc
        obtain ⟨cr, a, b, c, d⟩ := verifyV2_sound cfg rq i hv
        exact ⟨i, c, hc, Or.inl ⟨cr, a, b, d⟩⟩
      · simp at h
  · right
    split at h
    · simp at h
    · rename_i i hv
      split at h
      · rename_i hc
        obtain ⟨cr, a, b, c, d⟩ := verifyV4_sound cfg rq i hv
        exact ⟨i, c, hc, Or.inl ⟨cr, a, b, d⟩⟩
      · simp at h
  · right
    split at h
    · simp at h
    · rename_i i hv
      split at h
      · rename_i hc
        obtain ⟨a, b⟩ := lookupAnonymous_sound cfg i hv
        exact ⟨i, a, hc, Or.inr b⟩
      · simp at h

/-! ### what a request classified as POST-policy looks like -/

theorem isInfix_of_append (p q : Str) (s : Str) (h : isInfix (p ++ q) s = true) : isInfix p s = true := by
  induction s with
  | nil => simp [isInfix] at h ⊢; exact h.1
  | cons c s ih =>
    simp only [isInfix, Bool.or_eq_true] at h ⊢
    rcases h with h | h
    · left
      rw [List.isPrefixOf_iff_prefix] at h ⊢
      exact (List.prefix_append p q).trans h
    · exact Or.inr (ih h)

theorem postPolicy_type_facts (rq : Req) (h : authTypeOf rq = .postPolicy) :
    rq.method = "POST" ∧ strContains rq.ctype "multipart/form-dat" = true := by
  unfold authTypeOf at h
  repeat' split at h
  all_goals first | (simp at h) | skip
  rename_i hp
  simp only [isRequestPostPolicySignatureV4, Bool.and_eq_true, beq_iff_eq] at hp
  refine ⟨hp.2, ?_⟩
  have e : "multipart/form-data".toList = "multipart/form-dat".toList ++ ['a'] := by decide
  unfold strContains at hp ⊢
  rw [e] at hp
  exact isInfix_of_append _ _ _ hp.1

/-! ### IAM policy documents: strings.Split, wildcard matching, and what `GetActions` emits -/

theorem someSuffix_of_suffix (f : Str → Bool) (a t : Str) (h : f t = true) : someSuffix f (a ++ t) = true := by
  induction a with
  | nil => cases t <;> simp [someSuffix, h]
  | cons c a' ih => simp [someSuffix, ih]

theorem splitOn_ne_nil (c : Char) (s : Str) : splitOn c s ≠ [] := by
  induction s with
  | nil => simp [splitOn]
  | cons x xs ih =>
    simp only [splitOn]
    split
    · simp
    · split <;> simp

theorem join_splitOn (c : Char) (s : Str) : joinWith c (splitOn c s) = s := by
  induction s with
  | nil => simp [splitOn, joinWith]
  | cons x xs ih =>
    simp only [splitOn]
    split
    · rename_i hx
      cases h : splitOn c xs with
      | nil => exact absurd h (splitOn_ne_nil c xs)
      | cons a t =>
        rw [h] at ih
        simp [joinWith, ih, hx]
    · cases h : splitOn c xs with
      | nil => exact absurd h (splitOn_ne_nil c xs)
      | cons a t =>
        rw [h] at ih
        cases t with
        | nil => simp [joinWith] at ih ⊢; exact ih
        | cons b t' => simp [joinWith] at ih ⊢; exact ih

theorem splitOn_no_sep (c : Char) (s : Str) : ∀ piece ∈ splitOn c s, c ∉ piece := by
  induction s with
  | nil => simp [splitOn]
  | cons x xs ih =>
    simp only [splitOn]
    split
    · intro piece hp
      simp only [List.mem_cons] at hp
      rcases hp with rfl | hp
      · simp
      · exact ih piece hp
    · rename_i hx
      cases h : splitOn c xs with
      | nil => exact absurd h (splitOn_ne_nil c xs)
      | cons a t =>
        rw [h] at ih
        intro piece hp
        simp only [List.mem_cons] at hp
        rcases hp with rfl | hp
        · have := ih a (by simp)
          simp only [List.mem_cons, not_or]
          exact ⟨fun e => hx e.symm, this⟩
        · exact ih piece (by simp [hp])

theorem prefix_colon (u v g w : Str) (hu : ':' ∉ u) (hv : ':' ∉ v)
    (h : (u ++ ':' :: g).isPrefixOf (v ++ ':' :: w) = true) : u = v ∧ g.isPrefixOf w = true := by
  induction u generalizing v with
  | nil =>
    cases v with
    | nil => simpa using h
    | cons d v' =>
      simp only [List.nil_append, List.cons_append, List.isPrefixOf_cons_cons, Bool.and_eq_true, beq_iff_eq] at h
      simp only [List.mem_cons, not_or] at hv
      exact absurd h.1 hv.1
  | cons c u' ih =>
    simp only [List.mem_cons, not_or] at hu
    cases v with
    | nil =>
      simp only [List.nil_append, List.cons_append, List.isPrefixOf_cons_cons, Bool.and_eq_true, beq_iff_eq] at h
      exact absurd h.1.symm hu.1
    | cons d v' =>
      simp only [List.cons_append, List.isPrefixOf_cons_cons, Bool.and_eq_true, beq_iff_eq] at h
      simp only [List.mem_cons, not_or] at hv
      obtain ⟨e1, e2⟩ := ih v' hu.2 hv.2 h.2
      exact ⟨by rw [h.1, e1], e2⟩

theorem eq_colon (u v g w : Str) (hu : ':' ∉ u) (hv : ':' ∉ v)
    (h : u ++ ':' :: g = v ++ ':' :: w) : u = v ∧ g = w := by
  have h1 : (u ++ ':' :: g).isPrefixOf (v ++ ':' :: w) = true := by rw [h]; simp
  have h2 : (v ++ ':' :: w).isPrefixOf (u ++ ':' :: g) = true := by rw [h]; simp
  obtain ⟨e, _⟩ := prefix_colon u v g w hu hv h1
  subst e
  exact ⟨rfl, by simpa using h⟩

theorem globMatch_prefix_star (g s : Str) : globMatch (g ++ ['*']) (g ++ s) = true := by
  induction g with
  | nil =>
    have h := someSuffix_of_suffix (globMatch []) s [] (by simp [globMatch])
    simp only [List.append_nil] at h
    simp only [List.nil_append, globMatch, if_true]
    exact h
  | cons c g' ih =>
    simp only [List.cons_append, globMatch]
    split
    · exact someSuffix_of_suffix _ [c] _ ih
    · simp [headMatch, ih]

theorem globMatch_self (g : Str) : globMatch g g = true := by
  induction g with
  | nil => simp [globMatch]
  | cons c g' ih =>
    simp only [globMatch]
    split
    · exact someSuffix_of_suffix _ [c] _ ih
    · simp [headMatch, ih]


/-- the values `MapToStatementAction` can return -/
theorem mapTo_cases (x : Str) :
    (mapToStatementAction x = [] ) ∨ (mapToStatementAction x ≠ [] ∧ iamAction ("s3:".toList ++ x) = some (mapToStatementAction x)
      ∧ ':' ∉ mapToStatementAction x ∧ (mapToStatementAction x).getLast? ≠ some '*') := by
  unfold mapToStatementAction
  split
  · rename_i h; subst h; right; decide
  · split
    · rename_i h; subst h; right; decide
    · split
      · rename_i h; subst h; right; decide
      · split
        · rename_i h; subst h; right; decide
        · split
          · rename_i h; subst h; right; decide
          · left; rfl

/-- every element `GetActions` emits for a (resource, action) pair: a global action (resource `…:*`) or `action:bucketpattern` -/
theorem actionsOfPair_mem (res a x : Str) (h : x ∈ actionsOfPair res a) :
    ∃ region account r5 x' : Str,
      res = joinWith ':' ["arn".toList, "aws".toList, "s3".toList, region, account, r5] ∧ a = "s3:".toList ++ x' ∧ ':' ∉ r5 ∧
      ((r5 = "*".toList ∧ x = mapToStatementAction x') ∨
       (∃ bk, r5 = bk ++ "/*".toList ∧ x = mapToStatementAction x' ++ ':' :: bk)) := by
  unfold actionsOfPair at h
  split at h
  · rename_i a1 b1 c1 region account r5 hs
    split at h
    · rename_i habc
      obtain ⟨rfl, rfl, rfl⟩ := habc
      split at h
      · rename_i s x' hsa
        split at h
        · rename_i hs3
          subst hs3
          have hres : res = joinWith ':' ["arn".toList, "aws".toList, "s3".toList, region, account, r5] := by
            rw [← hs, join_splitOn]
          have ha : a = "s3".toList ++ ':' :: x' := by
            have := join_splitOn ':' a
            rw [hsa] at this
            simpa [joinWith] using this.symm
          have hr5 : ':' ∉ r5 := splitOn_no_sep ':' res r5 (by rw [hs]; simp)
          refine ⟨region, account, r5, x', hres, by simpa using ha, hr5, ?_⟩
          simp only at h
          split at h
          · rename_i hstar
            left
            exact ⟨hstar, by simpa using h⟩
          · split at h
            · rename_i bk star hsl
              split at h
              · rename_i hst
                subst hst
                right
                refine ⟨bk, ?_, by simpa using h⟩
                have := join_splitOn '/' r5
                rw [hsl] at this
                simpa [joinWith] using this.symm
              · simp at h
            · simp at h
        · simp at h
      · simp at h
    · simp at h
  · simp at h

theorem getActions_mem (p : List Stmt) (x : Str) (h : x ∈ getActions p) :
    ∃ st ∈ p, st.effect = "Allow".toList ∧ ∃ res ∈ st.resources, ∃ a ∈ st.actions, x ∈ actionsOfPair res a := by
  unfold getActions at h
  simp only [List.mem_flatMap] at h
  obtain ⟨st, hst, hx⟩ := h
  split at hx
  · rename_i he
    simp only [List.mem_flatMap] at hx
    obtain ⟨res, hres, a, ha, hxa⟩ := hx
    exact ⟨st, hst, he, res, hres, a, ha, hxa⟩
  · simp at hx

theorem exists_init_of_getLast? (l : Str) (c : Char) (h : l.getLast? = some c) : ∃ g, l = g ++ [c] := by
  induction l with
  | nil => simp at h
  | cons a t ih =>
    cases t with
    | nil => simp at h; exact ⟨[], by simp [h]⟩
    | cons b t' =>
      rw [List.getLast?_cons_cons] at h
      obtain ⟨g, hg⟩ := ih h
      exact ⟨a :: g, by rw [hg]; simp⟩

theorem getLast?_append_cons (u : Str) (c : Char) (v : Str) (hv : v ≠ []) : (u ++ c :: v).getLast? = v.getLast? := by
  induction u with
  | nil =>
    cases v with
    | nil => exact absurd rfl hv
    | cons d v' => simp [List.getLast?_cons_cons]
  | cons a u' ih =>
    cases hu : u' ++ c :: v with
    | nil => simp at hu
    | cons e r => rw [List.cons_append, hu, List.getLast?_cons_cons, ← hu, ih]

/-- one emitted element that makes `canDo` true is named by its statement -/
theorem element_named (res a x action bucket : Str) (hx : x ∈ actionsOfPair res a)
    (ha : ':' ∉ action) (hne : action ≠ [])
    (hgrant : x = adminA ∨ x = action ∨
      (bucket ≠ [] ∧ (if x.getLast? = some '*' then
          x.dropLast.isPrefixOf (action ++ ':' :: bucket) || x.dropLast.isPrefixOf (adminA ++ ':' :: bucket)
        else x == (action ++ ':' :: bucket) || x == (adminA ++ ':' :: bucket)) = true)) :
    resourceNames res bucket ∧ (iamAction a = some action ∨ iamAction a = some adminA) := by
  obtain ⟨region, account, r5, x', hres, hax, hr5, hform⟩ := actionsOfPair_mem res a x hx
  have hadm : ':' ∉ adminA := by decide
  rcases hform with ⟨hstar, hxv⟩ | ⟨bk, hbk, hxv⟩
  · -- global action: the resource is `arn:aws:s3:…:*`
    have hrn : resourceNames res bucket := ⟨region, account, r5, hres, Or.inl hstar⟩
    rcases mapTo_cases x' with h0 | ⟨hn0, hiam, hcol, hlast⟩
    · -- unknown IAM action: emitted as "", grants nothing
      rw [h0] at hxv
      subst hxv
      rcases hgrant with h | h | ⟨_, h⟩
      · exact absurd h (by decide)
      · exact absurd h.symm hne
      · simp at h
    · rw [← hax] at hiam
      rcases hgrant with h | h | ⟨_, h⟩
      · exact ⟨hrn, Or.inr (by rw [hiam, ← hxv, h])⟩
      · exact ⟨hrn, Or.inl (by rw [hiam, ← hxv, h])⟩
      · rw [← hxv] at hlast hcol
        simp only [hlast, if_false, Bool.or_eq_true, beq_iff_eq] at h
        rcases h with h | h <;> (rw [h] at hcol; simp at hcol)
  · -- bucket-scoped action `sa:bk` from resource `…:bk/*`
    have hbkc : ':' ∉ bk := by
      intro hc; apply hr5; rw [hbk]; simp [hc]
    have hxc : ':' ∈ x := by rw [hxv]; simp
    rcases hgrant with h | h | ⟨_, h⟩
    · rw [h] at hxc; exact absurd hxc hadm
    · rw [h] at hxc; exact absurd hxc ha
    · have hsa : ':' ∉ mapToStatementAction x' := by
        rcases mapTo_cases x' with h0 | ⟨_, _, hcol, _⟩
        · rw [h0]; simp
        · exact hcol
      -- in every sub-case: mapTo x' = action or Admin, and the pattern matches the bucket
      have key : ∀ tgt : Str, ':' ∉ tgt → tgt ≠ [] →
          ((x.getLast? = some '*' ∧ x.dropLast.isPrefixOf (tgt ++ ':' :: bucket) = true) ∨
           (x.getLast? ≠ some '*' ∧ x = tgt ++ ':' :: bucket)) →
          mapToStatementAction x' = tgt ∧ globMatch bk bucket = true := by
        intro tgt htc _ hcase
        rcases hcase with ⟨hl, hp⟩ | ⟨_, he⟩
        · -- wildcard: bk = g ++ "*" and g is a prefix of the bucket
          have hbne : bk ≠ [] := by
            intro hb; rw [hxv, hb] at hl; simp at hl
          have hbl : bk.getLast? = some '*' := by
            rw [hxv, getLast?_append_cons _ _ _ hbne] at hl
            exact hl
          obtain ⟨g, hg⟩ := exists_init_of_getLast? bk '*' hbl
          have hdl : x.dropLast = mapToStatementAction x' ++ ':' :: g := by
            rw [hxv, hg]
            have : mapToStatementAction x' ++ ':' :: (g ++ ['*']) = (mapToStatementAction x' ++ ':' :: g) ++ ['*'] := by simp
            rw [this, List.dropLast_concat]
          rw [hdl] at hp
          obtain ⟨e1, e2⟩ := prefix_colon _ _ _ _ hsa htc hp
          obtain ⟨rest, hrest⟩ := List.isPrefixOf_iff_prefix.mp e2
          exact ⟨e1, by rw [hg, ← hrest]; exact globMatch_prefix_star g rest⟩
        · rw [hxv] at he
          obtain ⟨e1, e2⟩ := eq_colon _ _ _ _ hsa htc he
          exact ⟨e1, by rw [e2]; exact globMatch_self bucket⟩
      have hrn : ∀ (_ : globMatch bk bucket = true), resourceNames res bucket :=
        fun hg => ⟨region, account, r5, hres, Or.inr ⟨bk, hbk, hg⟩⟩
      have hiam : ∀ tgt, tgt ≠ [] → mapToStatementAction x' = tgt → iamAction a = some tgt := by
        intro tgt htn he
        rcases mapTo_cases x' with h0 | ⟨_, hi, _, _⟩
        · rw [h0] at he; exact absurd he.symm htn
        · rw [hax, hi, he]
      by_cases hl : x.getLast? = some '*'
      · simp only [hl, if_true, Bool.or_eq_true] at h
        rcases h with h | h
        · obtain ⟨e, g⟩ := key action ha hne (Or.inl ⟨hl, h⟩)
          exact ⟨hrn g, Or.inl (hiam action hne e)⟩
        · obtain ⟨e, g⟩ := key adminA hadm (by decide) (Or.inl ⟨hl, h⟩)
          exact ⟨hrn g, Or.inr (hiam adminA (by decide) e)⟩
      · simp only [hl, if_false, Bool.or_eq_true, beq_iff_eq] at h
        rcases h with h | h
        · obtain ⟨e, g⟩ := key action ha hne (Or.inr ⟨hl, h⟩)
          exact ⟨hrn g, Or.inl (hiam action hne e)⟩
        · obtain ⟨e, g⟩ := key adminA hadm (by decide) (Or.inr ⟨hl, h⟩)
          exact ⟨hrn g, Or.inr (hiam adminA (by decide) e)⟩


end SwV.Lemmas.C26
