/- C26 — helper lemmas for Props/C26.lean -/
import SwV.Model.C26
import SwV.Spec.C26
namespace SwV.Lemmas.C26
open SwV.Model.C26 SwV.Spec.C26

/-! ### credential lookup and verification are sound -/

theorem lookupByAccessKey_sound (cfg : Config) (ak : String) (i : Identity) (secret : String)
    (h : lookupByAccessKey cfg ak = some (i, secret)) : i ∈ cfg ∧ (ak, secret) ∈ i.creds := by
  induction cfg with
  | nil => simp [lookupByAccessKey] at h
  | cons j rest ih =>
    simp only [lookupByAccessKey] at h
    split at h
    · rename_i c hc
      simp only [Option.some.injEq, Prod.mk.injEq] at h
      obtain ⟨rfl, rfl⟩ := h
      have hm := List.mem_of_find?_eq_some hc
      have hp := List.find?_some hc
      simp only [beq_iff_eq] at hp
      refine ⟨List.mem_cons_self, ?_⟩
      have : c = (ak, c.2) := by rw [← hp]
      rw [← this]; exact hm
    · obtain ⟨h1, h2⟩ := ih h
      exact ⟨List.mem_cons_of_mem _ h1, h2⟩

/-- a verifier accepted ⇒ the request carries an intact credential of that kind made with a key pair the identity owns -/
theorem verifyCred_sound (cfg : Config) (c : Option Cred) (k : CredKind) (i : Identity)
    (h : verifyCred cfg c k = some i) :
    ∃ cr, c = some cr ∧ cr.kind = k ∧ cr.intact = true ∧ i ∈ cfg ∧ (cr.ak, cr.sk) ∈ i.creds := by
  unfold verifyCred at h
  split at h
  · simp at h
  · rename_i cr
    split at h
    · rename_i hk
      split at h
      · rename_i j secret hl
        split at h
        · rename_i hs
          simp only [Option.some.injEq] at h
          subst h
          simp only [sigOK, Bool.and_eq_true, beq_iff_eq] at hs
          obtain ⟨h1, h2⟩ := lookupByAccessKey_sound cfg cr.ak j secret hl
          exact ⟨cr, rfl, hk, hs.1, h1, by rw [hs.2]; exact h2⟩
        · simp at h
      · simp at h
    · simp at h

theorem verifyV2_sound (cfg : Config) (rq : Req) (i : Identity) (h : verifyV2 cfg rq = some i) :
    ∃ cr, rq.transport = some cr ∧ cr.intact = true ∧ i ∈ cfg ∧ (cr.ak, cr.sk) ∈ i.creds := by
  unfold verifyV2 at h
  split at h
  · obtain ⟨cr, a, _, b, c, d⟩ := verifyCred_sound _ _ _ _ h; exact ⟨cr, a, b, c, d⟩
  · obtain ⟨cr, a, _, b, c, d⟩ := verifyCred_sound _ _ _ _ h; exact ⟨cr, a, b, c, d⟩

theorem verifyV4_sound (cfg : Config) (rq : Req) (i : Identity) (h : verifyV4 cfg rq = some i) :
    ∃ cr, rq.transport = some cr ∧ cr.intact = true ∧ i ∈ cfg ∧ (cr.ak, cr.sk) ∈ i.creds := by
  unfold verifyV4 at h
  split at h
  · obtain ⟨cr, a, _, b, c, d⟩ := verifyCred_sound _ _ _ _ h; exact ⟨cr, a, b, c, d⟩
  · split at h
    · obtain ⟨cr, a, _, b, c, d⟩ := verifyCred_sound _ _ _ _ h; exact ⟨cr, a, b, c, d⟩
    · simp at h

theorem lookupAnonymous_sound (cfg : Config) (i : Identity) (h : lookupAnonymous cfg = some i) :
    i ∈ cfg ∧ (i.name == "anonymous") = true := by
  unfold lookupAnonymous at h
  exact ⟨List.mem_of_find?_eq_some h, List.find?_some (p := fun (i : Identity) => i.name == "anonymous") h⟩

/-! ### introduction rules for the spec's `authorized` -/

theorem credAuthorizes_intro (cfg : Config) (cr : Cred) (act : Option Str) (b : Str) (i : Identity)
    (hint : cr.intact = true) (hi : i ∈ cfg) (hc : (cr.ak, cr.sk) ∈ i.creds) (hp : permitted i act b = true) :
    credAuthorizes cfg cr act b = true := by
  simp only [credAuthorizes, hint, Bool.true_and, List.any_eq_true, Bool.and_eq_true]
  exact ⟨i, hi, List.contains_iff_mem.mpr hc, hp⟩

theorem authorized_of_transport (cfg : Config) (rt : Route) (rq : Req) (cr : Cred) (i : Identity)
    (ht : rq.transport = some cr) (hint : cr.intact = true) (hi : i ∈ cfg) (hc : (cr.ak, cr.sk) ∈ i.creds)
    (hp : permitted i (routeAction rt) rq.bucket = true) : authorized cfg rt rq = true := by
  simp only [authorized, ht, credAuthorizes_intro cfg cr _ _ i hint hi hc hp, Bool.true_or]

theorem authorized_of_anonymous (cfg : Config) (rt : Route) (rq : Req) (i : Identity)
    (hi : i ∈ cfg) (hn : (i.name == "anonymous") = true) (hp : permitted i (routeAction rt) rq.bucket = true) :
    authorized cfg rt rq = true := by
  have : anonymousAllowed cfg (routeAction rt) rq.bucket = true := by
    simp only [anonymousAllowed, List.any_eq_true, Bool.and_eq_true]
    exact ⟨i, hi, hn, hp⟩
  simp only [authorized, this, Bool.or_true]

/-- the two auth types whose arm in `authRequest` returns ErrNone without looking at any credential -/
theorem arm_pass_iff (t : AuthType) : armOf t = .pass ↔ t = .streamingSigned ∨ t = .postPolicy := by
  cases t <;> simp [armOf]

/-- what `authRequest` guarantees when it lets a request through -/
theorem authRequest_sound (cfg : Config) (action : Str) (rq : Req) (r : Option Identity)
    (h : authRequest cfg action rq = some r) :
    armOf (authTypeOf rq) = .pass ∨
    ∃ i, i ∈ cfg ∧ canDo i.actions action rq.bucket = true ∧
      ((∃ cr, rq.transport = some cr ∧ cr.intact = true ∧ (cr.ak, cr.sk) ∈ i.creds) ∨ (i.name == "anonymous") = true) := by
  unfold authRequest at h
  simp only at h
  split at h
  · exact Or.inl (by assumption)
  · simp at h
  · simp at h
  · right
    split at h
    · simp at h
    · rename_i i hv
      split at h
      · rename_i hc
        obtain ⟨cr, a, b, c, d⟩ := verifyV2_sound cfg rq i hv
        exact ⟨i, c, hc, Or.inl ⟨cr, a, b, d⟩⟩
      · simp at h
  · right
    split at h
    · simp at h
    · rename_i i hv
      split at h
      · rename_i hc
        obtain ⟨cr, a, b, c, d⟩ := verifyV4_sound cfg rq i hv
        exact ⟨i, c, hc, Or.inl ⟨cr, a, b, d⟩⟩
      · simp at h
  · right
    split at h
    · simp at h
    · rename_i i hv
      split at h
      · rename_i hc
        obtain ⟨a, b⟩ := lookupAnonymous_sound cfg i hv
        exact ⟨i, a, hc, Or.inr b⟩
      · simp at h

end SwV.Lemmas.C26
