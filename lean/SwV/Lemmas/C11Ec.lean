/- C11 helper lemmas for the EC shard map (`Topology.ecShardMap`, modelled as `St.ecLoc`): what the
   DataNode side (`DeltaUpdateEcShards`, `UpdateEcShards`) and the topology side (`RegisterEcShards`,
   `UnRegisterEcShards`) of an EC heartbeat do to ONE shard of ONE volume, in closed form. -/
import SwV.Model.C11
import SwV.Lemmas.C12Ec
namespace SwV.Lemmas.C11Ec
open SwV.Model.C11 SwV.Lemmas.C12Ec

/-! ## shard bits -/

theorem testBit_bitsMinus (a b i : Nat) : (bitsMinus a b).testBit i = (a.testBit i && !b.testBit i) := by
  unfold bitsMinus
  induction i generalizing a b with
  | zero =>
    have h4 := @Nat.and_mod_two_eq_one a b
    have h2 : (a &&& b) ≤ a := Nat.and_le_left
    simp only [Nat.testBit_zero]
    by_cases ha : a % 2 = 1 <;> by_cases hb : b % 2 = 1
    · have : (a &&& b) % 2 = 1 := h4.mpr ⟨ha, hb⟩
      have : (a - (a &&& b)) % 2 = 0 := by omega
      simp [ha, hb, this]
    · have : (a &&& b) % 2 ≠ 1 := fun h => hb (h4.mp h).2
      have : (a - (a &&& b)) % 2 = 1 := by omega
      simp [ha, hb, this]
    · have : (a &&& b) % 2 ≠ 1 := fun h => ha (h4.mp h).1
      have : (a - (a &&& b)) % 2 ≠ 1 := by omega
      simp [ha, this]
    · have : (a &&& b) % 2 ≠ 1 := fun h => ha (h4.mp h).1
      have : (a - (a &&& b)) % 2 ≠ 1 := by omega
      simp [ha, this]
  | succ i ih =>
    have h1 : (a &&& b) / 2 = a / 2 &&& b / 2 := Nat.and_div_two
    have h2 : (a &&& b) ≤ a := Nat.and_le_left
    have h3 : a / 2 &&& b / 2 ≤ a / 2 := Nat.and_le_left
    have h4 : (a &&& b) % 2 ≤ a % 2 := by
      have := @Nat.and_mod_two_eq_one a b
      omega
    have h5 : (a - (a &&& b)) / 2 = a / 2 - (a / 2 &&& b / 2) := by omega
    rw [Nat.testBit_succ, Nat.testBit_succ, Nat.testBit_succ, h5]
    exact ih (a / 2) (b / 2)

theorem popAux_pos_of_testBit (f n i : Nat) (hi : i < f) (h : n.testBit i = true) : popAux f n > 0 := by
  induction f generalizing n i with
  | zero => omega
  | succ f ih =>
    simp only [popAux]
    cases i with
    | zero =>
      rw [Nat.testBit_zero] at h
      have : n % 2 = 1 := by simpa using h
      omega
    | succ i =>
      rw [Nat.testBit_succ] at h
      have := ih (n / 2) i (by omega) h
      omega

theorem popcount_pos_of_testBit (n i : Nat) (hi : i < 14) (h : n.testBit i = true) : popcount n > 0 :=
  popAux_pos_of_testBit 32 n i (by omega) h

theorem mem_shardIds (bits sh : Nat) : sh ∈ shardIds bits ↔ sh < 14 ∧ bits.testBit sh = true := by
  unfold shardIds
  simp [List.mem_filter, List.mem_range]

/-! ## RegisterEcShards / UnRegisterEcShards at one (volume, shard) -/

theorem mem_setLoc (l : List Nat) (s x : Nat) : x ∈ setLoc l s ↔ x ∈ l ∨ x = s := by
  unfold setLoc
  split
  · next h =>
    constructor
    · exact Or.inl
    · rintro (h' | rfl)
      · exact h'
      · simpa using h
  · simp

theorem nodup_setLoc {l : List Nat} (h : l.Nodup) (s : Nat) : (setLoc l s).Nodup := by
  unfold setLoc
  split
  · exact h
  · next hc =>
    rw [List.nodup_append]
    refine ⟨h, by simp, ?_⟩
    intro a ha b hb
    simp at hb; subst hb
    intro e; subst e
    exact hc (by simpa using ha)

/-- the fields RegisterEcShards / UnRegisterEcShards leave alone -/
def EKeep (st' st : St) : Prop :=
  st'.toCore = st.toCore ∧ st'.locs = st.locs ∧ st'.wr = st.wr ∧ st'.asMin = st.asMin ∧ st'.keys = st.keys ∧
  st'.limit = st.limit ∧ st'.ov = st.ov

theorem registerEc_spec (st : St) (vid bits s : Nat) (hn : ∀ v sh, (st.ecLoc v sh).Nodup) :
    (∀ v sh x, x ∈ (registerEc st vid bits s).ecLoc v sh ↔
      (x ∈ st.ecLoc v sh ∨ (x = s ∧ v = vid ∧ sh < 14 ∧ bits.testBit sh = true))) ∧
    (∀ v sh, ((registerEc st vid bits s).ecLoc v sh).Nodup) := by
  unfold registerEc
  have key : ∀ (L : List Nat) (st : St), (∀ v sh, (st.ecLoc v sh).Nodup) →
      (∀ v sh x, x ∈ (L.foldl (fun st sh => { st with ecLoc := upd2 st.ecLoc vid sh (setLoc (st.ecLoc vid sh) s) }) st).ecLoc v sh ↔
        (x ∈ st.ecLoc v sh ∨ (x = s ∧ v = vid ∧ sh ∈ L))) ∧
      (∀ v sh, ((L.foldl (fun st sh => { st with ecLoc := upd2 st.ecLoc vid sh (setLoc (st.ecLoc vid sh) s) }) st).ecLoc v sh).Nodup) := by
    intro L
    induction L with
    | nil => intro st hn; exact ⟨fun v sh x => by simp, hn⟩
    | cons a L ih =>
      intro st hn
      simp only [List.foldl_cons]
      have hn1 : ∀ v sh, ((({ st with ecLoc := upd2 st.ecLoc vid a (setLoc (st.ecLoc vid a) s) } : St)).ecLoc v sh).Nodup := by
        intro v sh
        show (upd2 st.ecLoc vid a (setLoc (st.ecLoc vid a) s) v sh).Nodup
        unfold upd2; split
        · exact nodup_setLoc (hn vid a) s
        · exact hn v sh
      obtain ⟨i1, i2⟩ := ih _ hn1
      refine ⟨?_, i2⟩
      intro v sh x
      rw [i1]
      show (x ∈ upd2 st.ecLoc vid a (setLoc (st.ecLoc vid a) s) v sh ∨ _) ↔ _
      unfold upd2
      by_cases e : v = vid ∧ sh = a
      · obtain ⟨rfl, rfl⟩ := e
        simp only [and_self, if_true, mem_setLoc, List.mem_cons, true_or, and_true, true_and]
        constructor
        · rintro ((h | h) | h)
          · exact Or.inl h
          · exact Or.inr h
          · exact Or.inr h.1
        · rintro (h | h)
          · exact Or.inl (Or.inl h)
          · exact Or.inl (Or.inr h)
      · simp only [e, if_false, List.mem_cons]
        constructor
        · rintro (h | ⟨h1, h2, h3⟩)
          · exact Or.inl h
          · exact Or.inr ⟨h1, h2, Or.inr h3⟩
        · rintro (h | ⟨h1, h2, h3⟩)
          · exact Or.inl h
          · rcases h3 with h3 | h3
            · exact absurd ⟨h2, h3⟩ e
            · exact Or.inr ⟨h1, h2, h3⟩
  obtain ⟨k1, k2⟩ := key (shardIds bits) st hn
  refine ⟨?_, k2⟩
  intro v sh x
  rw [k1, mem_shardIds]

theorem unregisterEc_spec (st : St) (vid bits s : Nat) (hn : ∀ v sh, (st.ecLoc v sh).Nodup) :
    (∀ v sh x, x ∈ (unregisterEc st vid bits s).ecLoc v sh ↔
      (x ∈ st.ecLoc v sh ∧ ¬ (x = s ∧ v = vid ∧ sh < 14 ∧ bits.testBit sh = true))) ∧
    (∀ v sh, ((unregisterEc st vid bits s).ecLoc v sh).Nodup) := by
  unfold unregisterEc
  have key : ∀ (L : List Nat) (st : St), (∀ v sh, (st.ecLoc v sh).Nodup) →
      (∀ v sh x, x ∈ (L.foldl (fun st sh => { st with ecLoc := upd2 st.ecLoc vid sh ((st.ecLoc vid sh).erase s) }) st).ecLoc v sh ↔
        (x ∈ st.ecLoc v sh ∧ ¬ (x = s ∧ v = vid ∧ sh ∈ L))) ∧
      (∀ v sh, ((L.foldl (fun st sh => { st with ecLoc := upd2 st.ecLoc vid sh ((st.ecLoc vid sh).erase s) }) st).ecLoc v sh).Nodup) := by
    intro L
    induction L with
    | nil => intro st hn; exact ⟨fun v sh x => by simp, hn⟩
    | cons a L ih =>
      intro st hn
      simp only [List.foldl_cons]
      have hn1 : ∀ v sh, ((({ st with ecLoc := upd2 st.ecLoc vid a ((st.ecLoc vid a).erase s) } : St)).ecLoc v sh).Nodup := by
        intro v sh
        show (upd2 st.ecLoc vid a ((st.ecLoc vid a).erase s) v sh).Nodup
        unfold upd2; split
        · exact (hn vid a).erase s
        · exact hn v sh
      obtain ⟨i1, i2⟩ := ih _ hn1
      refine ⟨?_, i2⟩
      intro v sh x
      rw [i1]
      show (x ∈ upd2 st.ecLoc vid a ((st.ecLoc vid a).erase s) v sh ∧ _) ↔ _
      unfold upd2
      by_cases e : v = vid ∧ sh = a
      · obtain ⟨rfl, rfl⟩ := e
        simp only [and_self, if_true, List.mem_cons, true_or, and_true, true_and]
        rw [List.Nodup.mem_erase_iff (hn v sh)]
        constructor
        · rintro ⟨⟨h1, h2⟩, _⟩
          exact ⟨h2, h1⟩
        · rintro ⟨h1, h2⟩
          exact ⟨⟨h2, h1⟩, fun hh => h2 hh.1⟩
      · simp only [e, if_false, List.mem_cons]
        constructor
        · rintro ⟨h1, h2⟩
          refine ⟨h1, ?_⟩
          rintro ⟨g1, g2, g3⟩
          rcases g3 with g3 | g3
          · exact e ⟨g2, g3⟩
          · exact h2 ⟨g1, g2, g3⟩
        · rintro ⟨h1, h2⟩
          exact ⟨h1, fun ⟨g1, g2, g3⟩ => h2 ⟨g1, g2, Or.inr g3⟩⟩
  obtain ⟨k1, k2⟩ := key (shardIds bits) st hn
  refine ⟨?_, k2⟩
  intro v sh x
  rw [k1, mem_shardIds]

theorem ekeep_foldl {α : Type} (f : St → α → St) (hf : ∀ st a, EKeep (f st a) st) (l : List α) (st : St) :
    EKeep (l.foldl f st) st := by
  induction l generalizing st with
  | nil => exact ⟨rfl, rfl, rfl, rfl, rfl, rfl, rfl⟩
  | cons a l ih =>
    simp only [List.foldl_cons]
    have h1 := ih (f st a)
    have h2 := hf st a
    exact ⟨h1.1.trans h2.1, h1.2.1.trans h2.2.1, h1.2.2.1.trans h2.2.2.1, h1.2.2.2.1.trans h2.2.2.2.1,
      h1.2.2.2.2.1.trans h2.2.2.2.2.1, h1.2.2.2.2.2.1.trans h2.2.2.2.2.2.1, h1.2.2.2.2.2.2.trans h2.2.2.2.2.2.2⟩

theorem ekeep_registerEc (st : St) (vid bits s : Nat) : EKeep (registerEc st vid bits s) st := by
  unfold registerEc; apply ekeep_foldl; intro _ _; exact ⟨rfl, rfl, rfl, rfl, rfl, rfl, rfl⟩
theorem ekeep_unregisterEc (st : St) (vid bits s : Nat) : EKeep (unregisterEc st vid bits s) st := by
  unfold unregisterEc; apply ekeep_foldl; intro _ _; exact ⟨rfl, rfl, rfl, rfl, rfl, rfl, rfl⟩

/-- some entry of a (vid, bits) list has shard `sh` of volume `v` -/
def HasBit (l : List (Nat × Nat)) (v sh : Nat) : Prop := ∃ p ∈ l, p.1 = v ∧ p.2.testBit sh = true

/-- registering a list of (vid, bits) for server `s` -/
theorem registerAll_spec (s : Nat) (l : List (Nat × Nat)) (st : St) (hn : ∀ v sh, (st.ecLoc v sh).Nodup) :
    (∀ v sh x, sh < 14 → (x ∈ (l.foldl (fun st e => registerEc st e.1 e.2 s) st).ecLoc v sh ↔
      (x ∈ st.ecLoc v sh ∨ (x = s ∧ HasBit l v sh)))) ∧
    (∀ v sh, ((l.foldl (fun st e => registerEc st e.1 e.2 s) st).ecLoc v sh).Nodup) := by
  induction l generalizing st with
  | nil => exact ⟨fun v sh x _ => by simp [HasBit], hn⟩
  | cons a l ih =>
    simp only [List.foldl_cons]
    obtain ⟨r1, r2⟩ := registerEc_spec st a.1 a.2 s hn
    obtain ⟨i1, i2⟩ := ih _ r2
    refine ⟨?_, i2⟩
    intro v sh x hsh
    rw [i1 v sh x hsh, r1]
    unfold HasBit
    constructor
    · rintro ((h | ⟨h1, h2, _, h4⟩) | ⟨h1, p, hp, h2⟩)
      · exact Or.inl h
      · exact Or.inr ⟨h1, a, by simp, h2.symm, h4⟩
      · exact Or.inr ⟨h1, p, by simp [hp], h2⟩
    · rintro (h | ⟨h1, p, hp, h2, h3⟩)
      · exact Or.inl (Or.inl h)
      · rcases List.mem_cons.mp hp with rfl | hp
        · exact Or.inl (Or.inr ⟨h1, h2.symm, hsh, h3⟩)
        · exact Or.inr ⟨h1, p, hp, h2, h3⟩

theorem unregisterAll_spec (s : Nat) (l : List (Nat × Nat)) (st : St) (hn : ∀ v sh, (st.ecLoc v sh).Nodup) :
    (∀ v sh x, sh < 14 → (x ∈ (l.foldl (fun st e => unregisterEc st e.1 e.2 s) st).ecLoc v sh ↔
      (x ∈ st.ecLoc v sh ∧ ¬ (x = s ∧ HasBit l v sh)))) ∧
    (∀ v sh, ((l.foldl (fun st e => unregisterEc st e.1 e.2 s) st).ecLoc v sh).Nodup) := by
  induction l generalizing st with
  | nil => exact ⟨fun v sh x _ => by simp [HasBit], hn⟩
  | cons a l ih =>
    simp only [List.foldl_cons]
    obtain ⟨r1, r2⟩ := unregisterEc_spec st a.1 a.2 s hn
    obtain ⟨i1, i2⟩ := ih _ r2
    refine ⟨?_, i2⟩
    intro v sh x hsh
    rw [i1 v sh x hsh, r1]
    unfold HasBit
    constructor
    · rintro ⟨⟨h1, h2⟩, h3⟩
      refine ⟨h1, ?_⟩
      rintro ⟨g1, p, hp, g2, g3⟩
      rcases List.mem_cons.mp hp with rfl | hp
      · exact h2 ⟨g1, g2.symm, hsh, g3⟩
      · exact h3 ⟨g1, p, hp, g2, g3⟩
    · rintro ⟨h1, h2⟩
      refine ⟨⟨h1, ?_⟩, ?_⟩
      · rintro ⟨g1, g2, _, g4⟩
        exact h2 ⟨g1, a, by simp, g2.symm, g4⟩
      · rintro ⟨g1, p, hp, g2⟩
        exact h2 ⟨g1, p, by simp [hp], g2⟩


/-! ## DeltaUpdateEcShards at one shard -/

theorem addEc_fold_spec (s : Nat) (ns : List EcInfo) (c : Core) :
    ((ns.foldl (fun c e => c.addEc s e) c).conn = c.conn ∧ (ns.foldl (fun c e => c.addEc s e) c).nVid = c.nVid ∧
     (ns.foldl (fun c e => c.addEc s e) c).vols = c.vols) ∧
    ∀ s' t vid sh, ((ns.foldl (fun c e => c.addEc s e) c).ecs s' t vid).testBit sh = true ↔
      ((c.ecs s' t vid).testBit sh = true ∨ (s' = s ∧ ∃ e ∈ ns, e.disk = t ∧ e.id = vid ∧ e.bits.testBit sh = true)) := by
  induction ns generalizing c with
  | nil => exact ⟨⟨rfl, rfl, rfl⟩, fun s' t vid sh => by simp⟩
  | cons a ns ih =>
    simp only [List.foldl_cons]
    obtain ⟨⟨i1, i2, i3⟩, i4⟩ := ih (c.addEc s a)
    refine ⟨⟨i1, i2, i3⟩, ?_⟩
    intro s' t vid sh
    rw [i4]
    have he : (c.addEc s a).ecs = upd3 c.ecs s a.disk a.id (c.ecs s a.disk a.id ||| a.bits) := rfl
    rw [he]
    unfold upd3
    by_cases e : s' = s ∧ t = a.disk ∧ vid = a.id
    · obtain ⟨rfl, rfl, rfl⟩ := e
      simp only [and_self, if_true, Nat.testBit_or, Bool.or_eq_true, List.mem_cons, true_and]
      constructor
      · rintro ((h | h) | ⟨e, he, h⟩)
        · exact Or.inl h
        · exact Or.inr ⟨a, Or.inl rfl, rfl, rfl, h⟩
        · exact Or.inr ⟨e, Or.inr he, h⟩
      · rintro (h | ⟨e, he, h1, h2, h3⟩)
        · exact Or.inl (Or.inl h)
        · rcases he with rfl | he
          · exact Or.inl (Or.inr h3)
          · exact Or.inr ⟨e, he, h1, h2, h3⟩
    · simp only [e, if_false, List.mem_cons]
      constructor
      · rintro (h | ⟨h0, e', he, h⟩)
        · exact Or.inl h
        · exact Or.inr ⟨h0, e', Or.inr he, h⟩
      · rintro (h | ⟨h0, e', he, h1, h2, h3⟩)
        · exact Or.inl h
        · rcases he with rfl | he
          · exact absurd ⟨h0, h1.symm, h2.symm⟩ e
          · exact Or.inr ⟨h0, e', he, h1, h2, h3⟩

theorem delEc_fold_spec (s : Nat) (ds : List EcInfo) (c : Core) :
    ((ds.foldl (fun c e => c.delEc s e) c).conn = c.conn ∧ (ds.foldl (fun c e => c.delEc s e) c).nVid = c.nVid ∧
     (ds.foldl (fun c e => c.delEc s e) c).vols = c.vols) ∧
    ∀ s' t vid sh, ((ds.foldl (fun c e => c.delEc s e) c).ecs s' t vid).testBit sh = true ↔
      ((c.ecs s' t vid).testBit sh = true ∧ ¬ (s' = s ∧ ∃ e ∈ ds, e.disk = t ∧ e.id = vid ∧ e.bits.testBit sh = true)) := by
  induction ds generalizing c with
  | nil => exact ⟨⟨rfl, rfl, rfl⟩, fun s' t vid sh => by simp⟩
  | cons a ds ih =>
    simp only [List.foldl_cons]
    obtain ⟨⟨i1, i2, i3⟩, i4⟩ := ih (c.delEc s a)
    have hf : (c.delEc s a).conn = c.conn ∧ (c.delEc s a).nVid = c.nVid ∧ (c.delEc s a).vols = c.vols := by
      simp only [Core.delEc]; split <;> exact ⟨rfl, rfl, rfl⟩
    -- one DeleteEcShard, bitwise (also when nothing is registered)
    have hb : ∀ s' t vid sh, ((c.delEc s a).ecs s' t vid).testBit sh = true ↔
        ((c.ecs s' t vid).testBit sh = true ∧ ¬ (s' = s ∧ a.disk = t ∧ a.id = vid ∧ a.bits.testBit sh = true)) := by
      intro s' t vid sh
      simp only [Core.delEc]
      split
      · next hz =>
        by_cases e : s' = s ∧ t = a.disk ∧ vid = a.id
        · obtain ⟨rfl, rfl, rfl⟩ := e
          rw [hz]; simp
        · constructor
          · intro h; exact ⟨h, fun ⟨g0, g1, g2, _⟩ => e ⟨g0, g1.symm, g2.symm⟩⟩
          · intro h; exact h.1
      · show (upd3 c.ecs s a.disk a.id (bitsMinus (c.ecs s a.disk a.id) a.bits) s' t vid).testBit sh = true ↔ _
        unfold upd3
        by_cases e : s' = s ∧ t = a.disk ∧ vid = a.id
        · obtain ⟨rfl, rfl, rfl⟩ := e
          simp only [and_self, if_true, testBit_bitsMinus, Bool.and_eq_true, Bool.not_eq_true', true_and]
          constructor
          · rintro ⟨h1, h2⟩; exact ⟨h1, by rw [h2]; simp⟩
          · rintro ⟨h1, h2⟩; exact ⟨h1, by simpa using h2⟩
        · simp only [e, if_false]
          constructor
          · intro h; exact ⟨h, fun ⟨g0, g1, g2, _⟩ => e ⟨g0, g1.symm, g2.symm⟩⟩
          · intro h; exact h.1
    refine ⟨⟨i1.trans hf.1, i2.trans hf.2.1, i3.trans hf.2.2⟩, ?_⟩
    intro s' t vid sh
    rw [i4, hb]
    constructor
    · rintro ⟨⟨h1, h2⟩, h3⟩
      refine ⟨h1, ?_⟩
      rintro ⟨g0, e, he, g⟩
      rcases List.mem_cons.mp he with rfl | he
      · exact h2 ⟨g0, g⟩
      · exact h3 ⟨g0, e, he, g⟩
    · rintro ⟨h1, h2⟩
      refine ⟨⟨h1, fun ⟨g0, g⟩ => h2 ⟨g0, a, by simp, g⟩⟩, ?_⟩
      rintro ⟨g0, e, he, g⟩
      exact h2 ⟨g0, e, by simp [he], g⟩

/-! ## UpdateEcShards: the two lists handed to Register/UnRegisterEcShards -/

theorem mem_ecOf (c : Core) (s : Nat) (x : Nat × Nat × Nat) :
    x ∈ c.ecOf s ↔ ∃ t vid, t < 2 ∧ vid < c.nVid + 1 ∧ c.ecs s t vid ≠ 0 ∧ x = (t, vid, c.ecs s t vid) := by
  unfold Core.ecOf
  simp only [List.mem_flatMap, List.mem_filterMap, List.mem_range]
  constructor
  · rintro ⟨t, ht, vid, hv, h⟩
    by_cases z : c.ecs s t vid = 0
    · simp [z] at h
    · simp only [z, if_false, Option.some.injEq] at h
      exact ⟨t, vid, ht, hv, z, h.symm⟩
  · rintro ⟨t, vid, ht, hv, z, rfl⟩
    exact ⟨t, ht, vid, hv, by simp [z]⟩

theorem loop1_lists (s : Nat) (actual : List EcInfo) (L : List (Nat × Nat × Nat))
    (acc : Core × List (Nat × Nat) × List (Nat × Nat)) (p : Nat × Nat) :
    (p ∈ (L.foldl (Core.ecStep1 s actual) acc).2.1 ↔
      (p ∈ acc.2.1 ∨ ∃ x ∈ L, ∃ ab, actualBits actual x.2.1 = some ab ∧ popcount (bitsMinus ab x.2.2) > 0 ∧
        p = (x.2.1, bitsMinus ab x.2.2))) ∧
    (p ∈ (L.foldl (Core.ecStep1 s actual) acc).2.2 ↔
      (p ∈ acc.2.2 ∨ ∃ x ∈ L, (actualBits actual x.2.1 = none ∧ p = (x.2.1, x.2.2)) ∨
        (∃ ab, actualBits actual x.2.1 = some ab ∧ popcount (bitsMinus x.2.2 ab) > 0 ∧ p = (x.2.1, bitsMinus x.2.2 ab)))) := by
  induction L generalizing acc with
  | nil => simp
  | cons x L ih =>
    simp only [List.foldl_cons]
    obtain ⟨i1, i2⟩ := ih (Core.ecStep1 s actual acc x)
    rw [i1, i2]
    cases h : actualBits actual x.2.1 with
    | none =>
      have e1 : (Core.ecStep1 s actual acc x).2.1 = acc.2.1 := by simp [Core.ecStep1, h]
      have e2 : (Core.ecStep1 s actual acc x).2.2 = acc.2.2 ++ [(x.2.1, x.2.2)] := by simp [Core.ecStep1, h]
      rw [e1, e2]
      constructor
      · constructor
        · rintro (g | ⟨y, hy, g⟩)
          · exact Or.inl g
          · exact Or.inr ⟨y, by simp [hy], g⟩
        · rintro (g | ⟨y, hy, ab, g1, g⟩)
          · exact Or.inl g
          · rcases List.mem_cons.mp hy with rfl | hy
            · rw [h] at g1; cases g1
            · exact Or.inr ⟨y, hy, ab, g1, g⟩
      · constructor
        · rintro (g | ⟨y, hy, g⟩)
          · rcases List.mem_append.mp g with g | g
            · exact Or.inl g
            · simp at g; exact Or.inr ⟨x, by simp, Or.inl ⟨h, g⟩⟩
          · exact Or.inr ⟨y, by simp [hy], g⟩
        · rintro (g | ⟨y, hy, g⟩)
          · exact Or.inl (List.mem_append_left _ g)
          · rcases List.mem_cons.mp hy with rfl | hy
            · rcases g with ⟨_, g⟩ | ⟨ab, g1, _⟩
              · exact Or.inl (List.mem_append_right _ (by simp [g]))
              · rw [h] at g1; cases g1
            · exact Or.inr ⟨y, hy, g⟩
    | some ab =>
      have e1 : (Core.ecStep1 s actual acc x).2.1 =
          if popcount (bitsMinus ab x.2.2) > 0 then acc.2.1 ++ [(x.2.1, bitsMinus ab x.2.2)] else acc.2.1 := by
        simp [Core.ecStep1, h]
      have e2 : (Core.ecStep1 s actual acc x).2.2 =
          if popcount (bitsMinus x.2.2 ab) > 0 then acc.2.2 ++ [(x.2.1, bitsMinus x.2.2 ab)] else acc.2.2 := by
        simp [Core.ecStep1, h]
      rw [e1, e2]
      constructor
      · constructor
        · rintro (g | ⟨y, hy, g⟩)
          · split at g
            · next hp =>
              rcases List.mem_append.mp g with g | g
              · exact Or.inl g
              · simp at g; exact Or.inr ⟨x, by simp, ab, h, hp, g⟩
            · exact Or.inl g
          · exact Or.inr ⟨y, by simp [hy], g⟩
        · rintro (g | ⟨y, hy, ab', g1, g2, g3⟩)
          · left; split
            · exact List.mem_append_left _ g
            · exact g
          · rcases List.mem_cons.mp hy with rfl | hy
            · rw [h] at g1; cases g1
              left; rw [if_pos g2]; exact List.mem_append_right _ (by simp [g3])
            · exact Or.inr ⟨y, hy, ab', g1, g2, g3⟩
      · constructor
        · rintro (g | ⟨y, hy, g⟩)
          · split at g
            · next hp =>
              rcases List.mem_append.mp g with g | g
              · exact Or.inl g
              · simp at g; exact Or.inr ⟨x, by simp, Or.inr ⟨ab, h, hp, g⟩⟩
            · exact Or.inl g
          · exact Or.inr ⟨y, by simp [hy], g⟩
        · rintro (g | ⟨y, hy, g⟩)
          · left; split
            · exact List.mem_append_left _ g
            · exact g
          · rcases List.mem_cons.mp hy with rfl | hy
            · rcases g with ⟨g1, _⟩ | ⟨ab', g1, g2, g3⟩
              · rw [h] at g1; cases g1
              · rw [h] at g1; cases g1
                left; rw [if_pos g2]; exact List.mem_append_right _ (by simp [g3])
            · exact Or.inr ⟨y, hy, g⟩

theorem loop2_list (c0 : Core) (s : Nat) (L : List EcInfo) (acc : Core × List (Nat × Nat)) (p : Nat × Nat) :
    p ∈ (L.foldl (Core.ecStep2 c0 s) acc).2 ↔
      (p ∈ acc.2 ∨ ∃ e ∈ L, c0.hasEc s e.id = false ∧ p = (e.id, e.bits)) := by
  induction L generalizing acc with
  | nil => simp
  | cons x L ih =>
    simp only [List.foldl_cons]
    rw [ih]
    by_cases hh : c0.hasEc s x.id = true
    · have e1 : (Core.ecStep2 c0 s acc x).2 = acc.2 := by simp [Core.ecStep2, hh]
      rw [e1]
      constructor
      · rintro (g | ⟨e, he, g⟩)
        · exact Or.inl g
        · exact Or.inr ⟨e, by simp [he], g⟩
      · rintro (g | ⟨e, he, g1, g2⟩)
        · exact Or.inl g
        · rcases List.mem_cons.mp he with rfl | he
          · rw [hh] at g1; cases g1
          · exact Or.inr ⟨e, he, g1, g2⟩
    · have hh' : c0.hasEc s x.id = false := by simpa using hh
      have e1 : (Core.ecStep2 c0 s acc x).2 = acc.2 ++ [(x.id, x.bits)] := by simp [Core.ecStep2, hh']
      rw [e1]
      constructor
      · rintro (g | ⟨e, he, g⟩)
        · rcases List.mem_append.mp g with g | g
          · exact Or.inl g
          · simp at g; exact Or.inr ⟨x, by simp, hh', g⟩
        · exact Or.inr ⟨e, by simp [he], g⟩
      · rintro (g | ⟨e, he, g1, g2⟩)
        · exact Or.inl (List.mem_append_left _ g)
        · rcases List.mem_cons.mp he with rfl | he
          · exact Or.inl (List.mem_append_right _ (by simp [g2]))
          · exact Or.inr ⟨e, he, g1, g2⟩


/-! ## UpdateEcShards at one shard -/

theorem eq_of_id_eq (l : List EcInfo) (hn : (l.map (·.id)).Nodup) (e e' : EcInfo) (he : e ∈ l) (he' : e' ∈ l)
    (hid : e'.id = e.id) : e' = e := by
  obtain ⟨l1, l2, rfl, h1, h2⟩ := split_of_mem_nodup l e hn he
  rcases List.mem_append.mp he' with h | h
  · exact absurd hid (h1 e' h)
  · rcases List.mem_cons.mp h with h | h
    · exact h
    · exact absurd hid (h2 e' h)

/-- the shard map of the server after UpdateEcShards -/
theorem updateEcShards_ecs (c : Core) (s : Nat) (actual : List EcInfo) :
    (((c.updateEcShards s actual).2.1.isEmpty && (c.updateEcShards s actual).2.2.isEmpty) = true →
      (c.updateEcShards s actual).1.ecs = c.ecs) ∧
    (¬ ((c.updateEcShards s actual).2.1.isEmpty && (c.updateEcShards s actual).2.2.isEmpty) = true →
      ∀ s' t vid, (c.updateEcShards s actual).1.ecs s' t vid =
        if s' = s then (actual.foldl (Core.ecStore s) { c with ecs := fun _ _ _ => 0 }).ecs s t vid else c.ecs s' t vid) := by
  obtain ⟨_, _, a3, _⟩ := loop1_track s actual (c.ecOf s) (c, [], [])
  obtain ⟨_, _, b3, _⟩ := loop2_track c s actual
    ((List.foldl (Core.ecStep1 s actual) (c, [], []) (c.ecOf s)).1, (List.foldl (Core.ecStep1 s actual) (c, [], []) (c.ecOf s)).2.1)
  simp only [] at a3 b3
  unfold Core.updateEcShards
  simp only []
  constructor
  · intro h
    rw [if_pos h, b3, a3]
  · intro h
    rw [if_neg h]
    intro s' t vid
    by_cases es : s' = s
    · subst es
      simp only [if_true]
      -- the stored value only depends on the message (the base is zero on the server)
      have gen : ∀ (l : List EcInfo) (b1 b2 : Core), (∀ t vid, b1.ecs s' t vid = b2.ecs s' t vid) →
          ∀ t vid, (l.foldl (Core.ecStore s') b1).ecs s' t vid = (l.foldl (Core.ecStore s') b2).ecs s' t vid := by
        intro l
        induction l with
        | nil => intro b1 b2 hb; exact hb
        | cons a l ih =>
          intro b1 b2 hb
          simp only [List.foldl_cons]
          apply ih
          intro t vid
          simp only [Core.ecStore, upd3]
          split
          · rfl
          · exact hb t vid
      apply gen
      intro t vid
      simp
    · rw [store_ecs_other s actual _ s' t vid (Or.inl es)]
      simp only [es, if_false]
      rw [b3, a3]

theorem updateEcShards_shard (c : Core) (s : Nat) (actual : List EcInfo) (D : Nat → Nat) (hD : ∀ vid, D vid < 2)
    (hinv : ∀ t vid, c.ecs s t vid ≠ 0 → t = D vid ∧ vid < c.nVid + 1)
    (hn : (actual.map (·.id)).Nodup) (hdisk : ∀ e ∈ actual, e.disk = D e.id) (vid sh : Nat) (hsh : sh < 14) :
    ((c.updateEcShards s actual).1.ecs s (D vid) vid).testBit sh = true ↔
      (((c.ecs s (D vid) vid).testBit sh = true ∨ HasBit (c.updateEcShards s actual).2.1 vid sh) ∧
        ¬ HasBit (c.updateEcShards s actual).2.2 vid sh) := by
  obtain ⟨u1, u2⟩ := updateEcShards_ecs c s actual
  by_cases hb : ((c.updateEcShards s actual).2.1.isEmpty && (c.updateEcShards s actual).2.2.isEmpty) = true
  · rw [u1 hb]
    simp only [Bool.and_eq_true, List.isEmpty_iff] at hb
    rw [hb.1, hb.2]
    simp [HasBit]
  · rw [u2 hb s (D vid) vid, if_pos rfl]
    -- the two lists, at this volume
    have hasEc_iff : c.hasEc s vid = false ↔ c.ecs s (D vid) vid = 0 := by
      unfold Core.hasEc
      have hd := hD vid
      have other : ∀ t, t ≠ D vid → c.ecs s t vid = 0 := by
        intro t ht
        by_cases z : c.ecs s t vid = 0
        · exact z
        · exact absurd (hinv t vid z).1 ht
      have : D vid = 0 ∨ D vid = 1 := by omega
      rcases this with h | h
      · rw [h] at other ⊢; rw [other 1 (by omega)]; simp
      · rw [h] at other ⊢; rw [other 0 (by omega)]; simp
    have newChar : HasBit (c.updateEcShards s actual).2.1 vid sh ↔
        ((c.ecs s (D vid) vid ≠ 0 ∧ ∃ ab, actualBits actual vid = some ab ∧ (bitsMinus ab (c.ecs s (D vid) vid)).testBit sh = true) ∨
         (∃ e ∈ actual, e.id = vid ∧ c.ecs s (D vid) vid = 0 ∧ e.bits.testBit sh = true)) := by
      unfold HasBit
      constructor
      · rintro ⟨p, hp, hp1, hp2⟩
        have hp' : p ∈ (actual.foldl (Core.ecStep2 c s)
            ((List.foldl (Core.ecStep1 s actual) (c, [], []) (c.ecOf s)).1, (List.foldl (Core.ecStep1 s actual) (c, [], []) (c.ecOf s)).2.1)).2 := hp
        rw [loop2_list] at hp'
        rcases hp' with g | ⟨e, he, g1, g2⟩
        · have g' := ((loop1_lists s actual (c.ecOf s) (c, [], []) p).1).mp g
          rcases g' with g' | ⟨x, hx, ab, g1, _, g3⟩
          · cases g'
          · obtain ⟨t, v, _, _, hz, rfl⟩ := (mem_ecOf c s x).mp hx
            subst g3
            simp only at hp1 hp2 g1
            subst hp1
            obtain ⟨ht, _⟩ := hinv t v hz
            subst ht
            exact Or.inl ⟨hz, ab, g1, hp2⟩
        · subst g2
          simp only at hp1 hp2
          subst hp1
          exact Or.inr ⟨e, he, rfl, hasEc_iff.mp g1, hp2⟩
      · rintro (⟨hz, ab, g1, g2⟩ | ⟨e, he, g1, g2, g3⟩)
        · refine ⟨(vid, bitsMinus ab (c.ecs s (D vid) vid)), ?_, rfl, g2⟩
          show _ ∈ (actual.foldl (Core.ecStep2 c s)
            ((List.foldl (Core.ecStep1 s actual) (c, [], []) (c.ecOf s)).1, (List.foldl (Core.ecStep1 s actual) (c, [], []) (c.ecOf s)).2.1)).2
          rw [loop2_list]
          left
          apply ((loop1_lists s actual (c.ecOf s) (c, [], []) _).1).mpr
          right
          exact ⟨(D vid, vid, c.ecs s (D vid) vid), (mem_ecOf c s _).mpr ⟨D vid, vid, hD vid, (hinv _ _ hz).2, hz, rfl⟩,
            ab, g1, popcount_pos_of_testBit _ sh hsh g2, rfl⟩
        · subst g1
          refine ⟨(e.id, e.bits), ?_, rfl, g3⟩
          show _ ∈ (actual.foldl (Core.ecStep2 c s)
            ((List.foldl (Core.ecStep1 s actual) (c, [], []) (c.ecOf s)).1, (List.foldl (Core.ecStep1 s actual) (c, [], []) (c.ecOf s)).2.1)).2
          rw [loop2_list]
          exact Or.inr ⟨e, he, hasEc_iff.mpr g2, rfl⟩
    have delChar : HasBit (c.updateEcShards s actual).2.2 vid sh ↔
        (c.ecs s (D vid) vid ≠ 0 ∧ ((actualBits actual vid = none ∧ (c.ecs s (D vid) vid).testBit sh = true) ∨
          ∃ ab, actualBits actual vid = some ab ∧ (bitsMinus (c.ecs s (D vid) vid) ab).testBit sh = true)) := by
      unfold HasBit
      constructor
      · rintro ⟨p, hp, hp1, hp2⟩
        have hp' : p ∈ (List.foldl (Core.ecStep1 s actual) (c, [], []) (c.ecOf s)).2.2 := hp
        have g' := ((loop1_lists s actual (c.ecOf s) (c, [], []) p).2).mp hp'
        rcases g' with g' | ⟨x, hx, g⟩
        · cases g'
        · obtain ⟨t, v, _, _, hz, rfl⟩ := (mem_ecOf c s x).mp hx
          rcases g with ⟨g1, g2⟩ | ⟨ab, g1, _, g3⟩
          · subst g2
            simp only at hp1 hp2 g1
            subst hp1
            obtain ⟨ht, _⟩ := hinv t v hz
            subst ht
            exact ⟨hz, Or.inl ⟨g1, hp2⟩⟩
          · subst g3
            simp only at hp1 hp2 g1
            subst hp1
            obtain ⟨ht, _⟩ := hinv t v hz
            subst ht
            exact ⟨hz, Or.inr ⟨ab, g1, hp2⟩⟩
      · rintro ⟨hz, g⟩
        have hx : (D vid, vid, c.ecs s (D vid) vid) ∈ c.ecOf s :=
          (mem_ecOf c s _).mpr ⟨D vid, vid, hD vid, (hinv _ _ hz).2, hz, rfl⟩
        rcases g with ⟨g1, g2⟩ | ⟨ab, g1, g2⟩
        · refine ⟨(vid, c.ecs s (D vid) vid), ?_, rfl, g2⟩
          show _ ∈ (List.foldl (Core.ecStep1 s actual) (c, [], []) (c.ecOf s)).2.2
          apply ((loop1_lists s actual (c.ecOf s) (c, [], []) _).2).mpr
          exact Or.inr ⟨_, hx, Or.inl ⟨g1, rfl⟩⟩
        · refine ⟨(vid, bitsMinus (c.ecs s (D vid) vid) ab), ?_, rfl, g2⟩
          show _ ∈ (List.foldl (Core.ecStep1 s actual) (c, [], []) (c.ecOf s)).2.2
          apply ((loop1_lists s actual (c.ecOf s) (c, [], []) _).2).mpr
          exact Or.inr ⟨_, hx, Or.inr ⟨ab, g1, popcount_pos_of_testBit _ sh hsh g2, rfl⟩⟩
    rw [newChar, delChar]
    by_cases hex : ∃ e ∈ actual, e.id = vid
    · obtain ⟨e, he, rfl⟩ := hex
      have hab := actualBits_of_mem actual e hn he
      have hst := store_ecs_of_mem s actual e hn he { c with ecs := fun _ _ _ => 0 } (D e.id)
      rw [hst, if_pos (hdisk e he)]
      have uniq : ∀ e' ∈ actual, e'.id = e.id → e' = e := fun e' he' hid => eq_of_id_eq actual hn e e' he he' hid
      by_cases z : c.ecs s (D e.id) e.id = 0
      · rw [z]
        simp only [Nat.zero_testBit, Bool.false_eq_true, false_or, ne_eq, not_true_eq_false, false_and, not_false_eq_true, and_true]
        constructor
        · intro h; exact ⟨e, he, rfl, trivial, h⟩
        · rintro ⟨e', he', hid, _, h⟩
          rw [uniq e' he' hid] at h; exact h
      · simp only [hab, z, ne_eq, not_false_eq_true, true_and, Option.some.injEq, exists_eq_left', reduceCtorEq, false_and, false_or,
          testBit_bitsMinus, Bool.and_eq_true, Bool.not_eq_true', and_false, exists_false, or_false]
        cases ha : (c.ecs s (D e.id) e.id).testBit sh <;> cases hb2 : e.bits.testBit sh <;> simp
    · have hno : ∀ e ∈ actual, e.id ≠ vid := fun e he h => hex ⟨e, he, h⟩
      have hab := actualBits_of_not_mem actual vid hno
      rw [store_ecs_other s actual _ s (D vid) vid (Or.inr (fun e he hh => hno e he hh.2))]
      simp only [hab, Nat.zero_testBit, Bool.false_eq_true, reduceCtorEq, false_and, exists_false, and_false, false_or, true_and, or_false,
        false_iff]
      rintro ⟨h | ⟨e, he, hid, _⟩, h2⟩
      · apply h2
        refine ⟨?_, h⟩
        intro z; rw [z] at h; simp at h
      · exact hno e he hid

end SwV.Lemmas.C11Ec
