/- C06 — kernel check of the decoding-matrix certificates, part 4 (see SwV/Lemmas/C06Certs.lean) -/
import SwV.Model.C06RS
namespace SwV.Lemmas.C06
open SwV.Model.C06
set_option maxRecDepth 100000

theorem certs_chunk_20 : ((certTable.drop (50 * 20)).take 50).all certOk = true := by decide +kernel
theorem certs_chunk_21 : ((certTable.drop (50 * 21)).take 50).all certOk = true := by decide +kernel
theorem certs_chunk_22 : ((certTable.drop (50 * 22)).take 50).all certOk = true := by decide +kernel
theorem certs_chunk_23 : ((certTable.drop (50 * 23)).take 50).all certOk = true := by decide +kernel
theorem certs_chunk_24 : ((certTable.drop (50 * 24)).take 50).all certOk = true := by decide +kernel

end SwV.Lemmas.C06
