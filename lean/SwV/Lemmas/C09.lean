/-
C09 — helper lemmas: the seconds→TTL conversion (regenerated `SwV.Gen.C09.SecondsToTTL`) read back
through the C08 model of `ReadTTL`/`Minutes`.
-/
import SwV.Model.C09
import SwV.Spec.C09
import SwV.Gen.C09
import SwV.Lemmas.C08
import SwV.Spec.C08
namespace SwV.Lemmas.C09
open SwV.Spec.C08 SwV.Model.C08 SwV.Model.C09 SwV.Spec.C09 SwV.Go SwV.Lemmas.C08


theorem wrapS32_id (x : Int) (h0 : 0 ≤ x) (h1 : x < 2147483648) : wrapS 32 x = x := by
  simp only [wrapS]; omega

theorem tdiv_nn (x K : Int) (h0 : 0 ≤ x) : tdiv x K = x / K := by
  simp only [tdiv]; exact Int.tdiv_eq_ediv_of_nonneg h0

theorem tmod_nn (x K : Int) (h0 : 0 ≤ x) : tmod x K = x % K := by
  simp only [tmod]; exact Int.tmod_eq_emod_of_nonneg h0

theorem fmtD_toList (n : Nat) : (fmtD (n : Int)).toList = natToDec n := by
  simp [fmtD, natToDec]
  show (Nat.repr n).toList = _
  simp [Nat.repr]

theorem readTTL_render (n : Nat) (hn : n ≤ 255) (uc : Char) (hu : ¬('0' ≤ uc ∧ uc ≤ '9')) (hk : toStoredByte uc ≠ 0) :
    readTTL (natToDec n ++ [uc]) = (⟨n, toStoredByte uc⟩, true) := by
  apply ttl_in_grammar
  simp only [ttlDenotation, List.getLast?_concat, List.dropLast_concat, hu, if_false, hk, parseDigits_natToDec]
  simp [hn]

/-- minutes promised by the volume TTL chosen for a filer TTL of `s` seconds -/
def volMinutes (s : Int) : Nat := minutesOfTtlString (SwV.Gen.C09.SecondsToTTL s).toList

/-- `s` is an exact multiple (count ≤ 255) of one of the six units -/
def exactUnit (s : Int) : Prop :=
  (s % 31536000 = 0 ∧ s / 31536000 < 256) ∨ (s % 2592000 = 0 ∧ s / 2592000 < 256) ∨
  (s % 604800 = 0 ∧ s / 604800 < 256) ∨ (s % 86400 = 0 ∧ s / 86400 < 256) ∨
  (s % 3600 = 0 ∧ s / 3600 < 256) ∨ (s % 60 = 0 ∧ s / 60 < 256)

theorem minutes_render (c : Int) (h0 : 0 ≤ c) (h1 : c < 256) (us : String) (uc : Char) (hus : us.toList = [uc])
    (hu : ¬('0' ≤ uc ∧ uc ≤ '9')) (hk : toStoredByte uc ≠ 0) :
    minutesOfTtlString (fmtD c ++ us).toList = ttlMinutes ⟨c.toNat, toStoredByte uc⟩ := by
  obtain ⟨n, rfl⟩ := Int.eq_ofNat_of_zero_le h0
  simp only [minutesOfTtlString, String.toList_append, fmtD_toList, hus]
  rw [readTTL_render n (by omega) uc hu hk]
  simp


macro "leaf" us:term "," uc:term "," k:term : tactic =>
  `(tactic| (rw [minutes_render _ (by omega) (by omega) $us $uc rfl (by decide) (by decide)]
             simp only [show toStoredByte $uc = $k by decide, ttlMinutes]
             omega))

theorem minutes_empty : minutesOfTtlString ("" : String).toList = 0 := by decide

set_option maxHeartbeats 1000000 in
theorem covered_iff (s : Int) (h0 : 0 < s) (h1 : s < 2147483648) : (s ≤ 60 * (volMinutes s : Int)) ↔ exactUnit s := by
  have hm : ∀ K : Int, tmod s K = s % K := fun K => tmod_nn s K (by omega)
  have hd : ∀ K : Int, tdiv s K = s / K := fun K => tdiv_nn s K (by omega)
  have w1 : wrapS 32 (s % 31536000) = s % 31536000 := by apply wrapS32_id <;> omega
  have w2 : wrapS 32 (s % 2592000) = s % 2592000 := by apply wrapS32_id <;> omega
  have w3 : wrapS 32 (s % 604800) = s % 604800 := by apply wrapS32_id <;> omega
  have w4 : wrapS 32 (s % 86400) = s % 86400 := by apply wrapS32_id <;> omega
  have w5 : wrapS 32 (s % 3600) = s % 3600 := by apply wrapS32_id <;> omega
  have v1 : wrapS 32 (s / 31536000) = s / 31536000 := by apply wrapS32_id <;> omega
  have v2 : wrapS 32 (s / 2592000) = s / 2592000 := by apply wrapS32_id <;> omega
  have v3 : wrapS 32 (s / 604800) = s / 604800 := by apply wrapS32_id <;> omega
  have v4 : wrapS 32 (s / 86400) = s / 86400 := by apply wrapS32_id <;> omega
  have v5 : wrapS 32 (s / 3600) = s / 3600 := by apply wrapS32_id <;> omega
  have v6 : wrapS 32 (s / 60) = s / 60 := by apply wrapS32_id <;> omega
  unfold volMinutes SwV.Gen.C09.SecondsToTTL exactUnit
  simp only [hm, hd, w1, w2, w3, w4, w5, v1, v2, v3, v4, v5, v6, Bool.and_eq_true, decide_eq_true_eq]
  have hs0 : ¬ s = 0 := by omega
  simp only [if_neg hs0]
  by_cases c1 : s % 31536000 = 0 ∧ s / 31536000 < 256
  · simp only [if_pos c1]
    rw [minutes_render _ (by omega) (by omega) "y" 'y' rfl (by decide) (by decide)]
    simp only [show toStoredByte 'y' = 6 by decide, ttlMinutes]
    constructor
    · intro _; exact (Or.inl) c1
    · intro _; omega
  simp only [if_neg c1]
  by_cases c2 : s % 2592000 = 0 ∧ s / 2592000 < 256
  · simp only [if_pos c2]
    rw [minutes_render _ (by omega) (by omega) "M" 'M' rfl (by decide) (by decide)]
    simp only [show toStoredByte 'M' = 5 by decide, ttlMinutes]
    constructor
    · intro _; exact (fun h => Or.inr (Or.inl h)) c2
    · intro _; omega
  simp only [if_neg c2]
  by_cases c3 : s % 604800 = 0 ∧ s / 604800 < 256
  · simp only [if_pos c3]
    rw [minutes_render _ (by omega) (by omega) "w" 'w' rfl (by decide) (by decide)]
    simp only [show toStoredByte 'w' = 4 by decide, ttlMinutes]
    constructor
    · intro _; exact (fun h => Or.inr (Or.inr (Or.inl h))) c3
    · intro _; omega
  simp only [if_neg c3]
  by_cases c4 : s % 86400 = 0 ∧ s / 86400 < 256
  · simp only [if_pos c4]
    rw [minutes_render _ (by omega) (by omega) "d" 'd' rfl (by decide) (by decide)]
    simp only [show toStoredByte 'd' = 3 by decide, ttlMinutes]
    constructor
    · intro _; exact (fun h => Or.inr (Or.inr (Or.inr (Or.inl h)))) c4
    · intro _; omega
  simp only [if_neg c4]
  by_cases c5 : s % 3600 = 0 ∧ s / 3600 < 256
  · simp only [if_pos c5]
    rw [minutes_render _ (by omega) (by omega) "h" 'h' rfl (by decide) (by decide)]
    simp only [show toStoredByte 'h' = 2 by decide, ttlMinutes]
    constructor
    · intro _; exact (fun h => Or.inr (Or.inr (Or.inr (Or.inr (Or.inl h))))) c5
    · intro _; omega
  simp only [if_neg c5]
  by_cases c6 : s / 60 < 256
  · simp only [if_pos c6]
    rw [minutes_render _ (by omega) (by omega) "m" 'm' rfl (by decide) (by decide)]
    simp only [show toStoredByte 'm' = 1 by decide, ttlMinutes]
    constructor
    · intro h; exact (fun h => Or.inr (Or.inr (Or.inr (Or.inr (Or.inr h))))) ⟨by omega, c6⟩
    · clear c1 c2 c3 c4 c5
      rintro (h|h|h|h|h|h) <;> omega
  simp only [if_neg c6]
  by_cases c7 : s / 3600 < 256
  · simp only [if_pos c7]
    rw [minutes_render _ (by omega) (by omega) "h" 'h' rfl (by decide) (by decide)]
    simp only [show toStoredByte 'h' = 2 by decide, ttlMinutes]
    have hne : s % 3600 ≠ 0 := fun h => c5 ⟨h, c7⟩
    constructor
    · intro hle; exfalso; clear c1 c2 c3 c4 c5; omega
    · rintro (h|h|h|h|h|h)
      · exact (c1 h).elim
      · exact (c2 h).elim
      · exact (c3 h).elim
      · exact (c4 h).elim
      · exact (c5 h).elim
      · exact (c6 h.2).elim
  simp only [if_neg c7]
  by_cases c8 : s / 86400 < 256
  · simp only [if_pos c8]
    rw [minutes_render _ (by omega) (by omega) "d" 'd' rfl (by decide) (by decide)]
    simp only [show toStoredByte 'd' = 3 by decide, ttlMinutes]
    have hne : s % 86400 ≠ 0 := fun h => c4 ⟨h, c8⟩
    constructor
    · intro hle; exfalso; clear c1 c2 c3 c4 c5; omega
    · rintro (h|h|h|h|h|h)
      · exact (c1 h).elim
      · exact (c2 h).elim
      · exact (c3 h).elim
      · exact (c4 h).elim
      · exact (c5 h).elim
      · exact (c6 h.2).elim
  simp only [if_neg c8]
  by_cases c9 : s / 604800 < 256
  · simp only [if_pos c9]
    rw [minutes_render _ (by omega) (by omega) "w" 'w' rfl (by decide) (by decide)]
    simp only [show toStoredByte 'w' = 4 by decide, ttlMinutes]
    have hne : s % 604800 ≠ 0 := fun h => c3 ⟨h, c9⟩
    constructor
    · intro hle; exfalso; clear c1 c2 c3 c4 c5; omega
    · rintro (h|h|h|h|h|h)
      · exact (c1 h).elim
      · exact (c2 h).elim
      · exact (c3 h).elim
      · exact (c4 h).elim
      · exact (c5 h).elim
      · exact (c6 h.2).elim
  simp only [if_neg c9]
  by_cases c10 : s / 2592000 < 256
  · simp only [if_pos c10]
    rw [minutes_render _ (by omega) (by omega) "M" 'M' rfl (by decide) (by decide)]
    simp only [show toStoredByte 'M' = 5 by decide, ttlMinutes]
    have hne : s % 2592000 ≠ 0 := fun h => c2 ⟨h, c10⟩
    constructor
    · intro hle; exfalso; clear c1 c2 c3 c4 c5; omega
    · rintro (h|h|h|h|h|h)
      · exact (c1 h).elim
      · exact (c2 h).elim
      · exact (c3 h).elim
      · exact (c4 h).elim
      · exact (c5 h).elim
      · exact (c6 h.2).elim
  simp only [if_neg c10]
  by_cases c11 : s / 31536000 < 256
  · simp only [if_pos c11]
    rw [minutes_render _ (by omega) (by omega) "y" 'y' rfl (by decide) (by decide)]
    simp only [show toStoredByte 'y' = 6 by decide, ttlMinutes]
    have hne : s % 31536000 ≠ 0 := fun h => c1 ⟨h, c11⟩
    constructor
    · intro hle; exfalso; clear c1 c2 c3 c4 c5; omega
    · rintro (h|h|h|h|h|h)
      · exact (c1 h).elim
      · exact (c2 h).elim
      · exact (c3 h).elim
      · exact (c4 h).elim
      · exact (c5 h).elim
      · exact (c6 h.2).elim
  simp only [if_neg c11]
  simp only [minutes_empty]
  constructor
  · intro hle; exfalso; omega
  · rintro (h|h|h|h|h|h)
    · exact (c1 h).elim
    · exact (c2 h).elim
    · exact (c3 h).elim
    · exact (c4 h).elim
    · exact (c5 h).elim
    · exact (c6 h.2).elim

/-! ## storage part: list plumbing and the invariant of honest histories -/

theorem two32 : (2 : Nat) ^ 32 = 4294967296 := by decide

theorem find_filter (l : List (Nat × Needle)) (p : Nat × Needle → Bool) (key : Nat) (kn : Nat × Needle)
    (h : l.find? (fun x => decide (x.1 = key)) = some kn) (hp : p kn = true) :
    (l.filter p).find? (fun x => decide (x.1 = key)) = some kn := by
  induction l with
  | nil => simp at h
  | cons a l ih =>
    by_cases hq : a.1 = key
    · have ha : a = kn := by simpa [List.find?_cons, hq] using h
      subst ha
      simp [hp, hq]
    · have hl : l.find? (fun x => decide (x.1 = key)) = some kn := by simpa [List.find?_cons, hq] using h
      by_cases hpa : p a = true
      · simp [hpa, hq, ih hl]
      · simp [hpa, ih hl]

/-- a record is "honest": its TTL (if any) is positive, not longer than the volume's, it carries LastModified,
    LastModified is the second of the append (server-stamped), the volume's lastModified is not older,
    and a record without TTL only lives on a volume without TTL -/
def Good (volTtl : TTL) (volLm : Nat) (n : Needle) : Prop :=
  (n.hasTtl = true → n.hasLM = true ∧ 0 < ttlMinutes n.ttl ∧ ttlMinutes n.ttl ≤ ttlMinutes volTtl) ∧
  n.appendNs < (n.lm + 1) * nsPerSec ∧ n.lm ≤ volLm ∧ (n.hasTtl = false → ttlMinutes volTtl = 0)

def Inv (v : Vol) : Prop := ∀ kn ∈ v.needles, Good v.ttl v.lm kn.2

theorem good_mono (vt : TTL) (a b : Nat) (n : Needle) (h : Good vt a n) (hab : a ≤ b) : Good vt b n :=
  ⟨h.1, h.2.1, Nat.le_trans h.2.2.1 hab, h.2.2.2⟩

/-- an operation as an honest server performs it at clock `nowNs` -/
def HonestOp (v : Vol) (nowNs : Nat) : Op → Prop
  | .put _ t hasLM lm => hasLM = true ∧ lm = nowNs / nsPerSec ∧
      (t = emptyTTL ∨ (0 < ttlMinutes t ∧ ttlMinutes t ≤ ttlMinutes v.ttl))
  | .compact => True
  | .heartbeat => True
  | .reload mtime => v.lm ≤ mtime

/-! ## filer side -/

/-- the chunk's volume TTL covers an entry TTL of `s` seconds (0 minutes = never expires) -/
def Covers (s : Nat) (c : Chunk) : Prop :=
  (s = 0 → ttlMinutes c.ttl = 0) ∧ (ttlMinutes c.ttl = 0 ∨ s ≤ 60 * ttlMinutes c.ttl)

/-- every chunk of the entry is covered and was written less than `δ` seconds before the entry's Crtime (or later) -/
def FGood (δ : Nat) (e : FEntry) : Prop :=
  ∀ c ∈ e.chunks, Covers e.ttlSec c ∧ e.crtime * nsPerSec < c.appendNs + δ * nsPerSec

def FInv (δ : Nat) (st : FStore) (nowNs : Nat) : Prop :=
  ∀ ke ∈ st, FGood δ ke.2 ∧ ke.2.crtime * nsPerSec ≤ nowNs

theorem ffind_some (st : FStore) (nowNs k : Nat) (o : FEntry) (h : (ffind st nowNs k).1 = some o) :
    (∃ kn ∈ st, kn.2 = o) ∧ entryVisible o nowNs = true := by
  unfold ffind flookup at h
  cases hf : st.find? (fun x => decide (x.1 = k)) with
  | none => simp [hf] at h
  | some kn =>
    simp only [hf, Option.map_some] at h
    by_cases hv : entryVisible kn.2 nowNs = true
    · simp only [hv, if_true] at h
      have : kn.2 = o := by simpa using h
      exact ⟨⟨kn, List.mem_of_find?_eq_some hf, this⟩, this ▸ hv⟩
    · simp [hv] at h

theorem ffind_store_subset (st : FStore) (nowNs k : Nat) : ∀ x ∈ (ffind st nowNs k).2, x ∈ st := by
  intro x hx
  unfold ffind at hx
  split at hx
  · exact hx
  · split at hx
    · exact hx
    · exact (List.mem_filter.1 hx).1

theorem bridge_minutes (c u : Nat) (hc : c < 256) :
    SwV.Gen.C09.TTL_Minutes c u = (ttlMinutes ⟨c, u⟩ : Nat) := by
  simp only [SwV.Gen.C09.TTL_Minutes, ttlMinutes, SwV.Go.wrapU]
  match u with
  | 0 => simp
  | 1 => simp; omega
  | 2 => simp; omega
  | 3 => simp; omega
  | 4 => simp; omega
  | 5 => simp; omega
  | 6 => simp; omega
  | n + 7 =>
    have h0 : ¬ ((n : Int) + 7 = 0) := by omega
    have h1 : ¬ ((n : Int) + 7 = 1) := by omega
    have h2 : ¬ ((n : Int) + 7 = 2) := by omega
    have h3 : ¬ ((n : Int) + 7 = 3) := by omega
    have h4 : ¬ ((n : Int) + 7 = 4) := by omega
    have h5 : ¬ ((n : Int) + 7 = 5) := by omega
    have h6 : ¬ ((n : Int) + 7 = 6) := by omega
    simp [h0, h1, h2, h3, h4, h5, h6]

end SwV.Lemmas.C09
