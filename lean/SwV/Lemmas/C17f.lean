/-
C17 lemmas, part 6: the executable content test `byteOk` (what the judges run) accepts every byte the
specification `ByteOk` allows — so a theorem stated with `ByteOk` about the model's output makes the
corresponding judge return `none` on it.
-/
import SwV.Spec.C17
namespace SwV.Lemmas.C17
open SwV.Model.C17 SwV.Spec.C17

theorem byteOk_of_ByteOk (data : Nat → Nat → Nat) (cs : List Chunk) (p b : Nat) (h : ByteOk data cs p b) :
    byteOk data cs p b = true := by
  unfold byteOk
  rcases h with ⟨c, ⟨hc, hcov, hnew⟩, hb⟩ | ⟨hno, hb⟩
  · have hmem : c ∈ cs.filter (fun c => decide (covers c p)) := List.mem_filter.2 ⟨hc, by simpa using hcov⟩
    have hne : (cs.filter (fun c => decide (covers c p))).isEmpty = false := by
      cases hf : cs.filter (fun c => decide (covers c p)) with
      | nil => rw [hf] at hmem; cases hmem
      | cons _ _ => rfl
    simp only [hne, Bool.false_eq_true, if_false]
    rw [List.any_eq_true]
    refine ⟨c, hmem, ?_⟩
    rw [Bool.and_eq_true, List.all_eq_true]
    refine ⟨fun c' hc' => ?_, by simp [hb]⟩
    have hm := List.mem_filter.1 hc'
    exact decide_eq_true (hnew c' hm.1 (by simpa using hm.2))
  · have hnil : cs.filter (fun c => decide (covers c p)) = [] :=
      List.filter_eq_nil_iff.2 (fun c hc => by simpa using hno c hc)
    simp [hnil, hb]

end SwV.Lemmas.C17
