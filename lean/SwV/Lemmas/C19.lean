/-
C19 — helper lemmas: the byte order, prefixes as convex key ranges, the store loop on a sorted
database, strictly sorted pages, the abstract refill loop, the filer layers over a directory
without expired entries, and `splitPattern`/`glob`.
-/
import SwV.Model.C19
import SwV.Spec.C19
namespace SwV.Lemmas.C19
open SwV.Model.C19 SwV.Spec.C19


/-! ### the byte order -/

theorem ltB_irrefl (a : Bytes) : ltB a a = false := by
  induction a with
  | nil => rfl
  | cons x xs ih => simp [ltB, ih]

theorem ltB_trans : ∀ (a b c : Bytes), ltB a b = true → ltB b c = true → ltB a c = true
  | [], [], _, h, _ => by simp [ltB] at h
  | [], _ :: _, [], _, h => by simp [ltB] at h
  | [], _ :: _, _ :: _, _, _ => by simp [ltB]
  | _ :: _, [], _, h, _ => by simp [ltB] at h
  | _ :: _, _ :: _, [], _, h => by simp [ltB] at h
  | x :: xs, y :: ys, z :: zs, h1, h2 => by
    simp only [ltB] at h1 h2 ⊢
    by_cases hxy : x < y
    · by_cases hyz : y < z
      · have : x < z := by omega
        simp [this]
      · by_cases hzy : z < y
        · simp [hyz, hzy] at h2
        · have : y = z := by omega
          subst this; simp [hxy]
    · by_cases hyx : y < x
      · simp [hxy, hyx] at h1
      · have : x = y := by omega
        subst this
        simp only [Nat.lt_irrefl, if_false] at h1
        by_cases hxz : x < z
        · simp [hxz]
        · by_cases hzx : z < x
          · simp [hxz, hzx] at h2
          · simp only [hxz, hzx, if_false] at h2 ⊢
            exact ltB_trans xs ys zs h1 h2

theorem ltB_asymm (a b : Bytes) (h : ltB a b = true) : ltB b a = false := by
  cases h' : ltB b a with
  | false => rfl
  | true => have := ltB_trans a b a h h'; rw [ltB_irrefl] at this; cases this

theorem ltB_total : ∀ (a b : Bytes), ltB a b = false → ltB b a = false → a = b
  | [], [], _, _ => rfl
  | [], _ :: _, h, _ => by simp [ltB] at h
  | _ :: _, [], _, h => by simp [ltB] at h
  | x :: xs, y :: ys, h1, h2 => by
    simp only [ltB] at h1 h2
    by_cases hxy : x < y
    · simp [hxy] at h1
    · by_cases hyx : y < x
      · simp [hyx] at h2
      · have : x = y := by omega
        subst this
        simp only [Nat.lt_irrefl, if_false] at h1 h2
        rw [ltB_total xs ys h1 h2]

/-- `a ≤ b ≤ c` chains: not (b < a) and b < c gives a < c -/
theorem ltB_of_le_of_lt (a b c : Bytes) (h1 : ltB b a = false) (h2 : ltB b c = true) : ltB a c = true := by
  cases h : ltB a b with
  | true => exact ltB_trans a b c h h2
  | false => rw [ltB_total a b h h1]; exact h2

theorem ltB_of_lt_of_le (a b c : Bytes) (h1 : ltB a b = true) (h2 : ltB c b = false) : ltB a c = true := by
  cases h : ltB b c with
  | true => exact ltB_trans a b c h1 h
  | false => rw [← ltB_total b c h h2]; exact h1

theorem le_trans' (a b c : Bytes) (h1 : ltB b a = false) (h2 : ltB c b = false) : ltB c a = false := by
  cases h : ltB c a with
  | false => rfl
  | true => have := ltB_of_lt_of_le c a b h h1; rw [h2] at this; cases this

theorem ltB_append_left (d a b : Bytes) : ltB (d ++ a) (d ++ b) = ltB a b := by
  induction d with
  | nil => rfl
  | cons x xs ih => simp [ltB, ih]

theorem ltB_nil (n : Bytes) : ltB [] n = true ↔ n ≠ [] := by
  cases n <;> simp [ltB]

/-! ### prefixes -/

theorem isPrefix_append_left (d p n : Bytes) : isPrefix (d ++ p) (d ++ n) = isPrefix p n := by
  induction d with
  | nil => rfl
  | cons x xs ih => simp [isPrefix, ih]

theorem isPrefix_iff (p k : Bytes) : isPrefix p k = true ↔ ∃ r, k = p ++ r := by
  induction p generalizing k with
  | nil => simp [isPrefix]
  | cons x xs ih =>
    cases k with
    | nil => simp [isPrefix]
    | cons y ys =>
      simp only [isPrefix]
      by_cases hxy : x = y
      · subst hxy; simp [ih]
      · simp only [hxy, if_false]
        constructor
        · intro h; cases h
        · rintro ⟨r, hr⟩; simp at hr; exact absurd hr.1.symm hxy

theorem isPrefix_refl (p : Bytes) : isPrefix p p = true := (isPrefix_iff p p).2 ⟨[], by simp⟩

theorem isPrefix_append (p q k : Bytes) (h : isPrefix (p ++ q) k = true) : isPrefix p k = true := by
  obtain ⟨r, hr⟩ := (isPrefix_iff _ _).1 h
  exact (isPrefix_iff _ _).2 ⟨q ++ r, by simp [hr]⟩

/-- a key with prefix `p` is not below `p` -/
theorem not_lt_of_isPrefix (p k : Bytes) (h : isPrefix p k = true) : ltB k p = false := by
  obtain ⟨r, hr⟩ := (isPrefix_iff _ _).1 h
  subst hr
  have := ltB_append_left p r []
  simp only [List.append_nil] at this
  rw [this]; cases r <;> rfl

/-- the keys with a given prefix are convex in the byte order -/
theorem isPrefix_convex : ∀ (p a b c : Bytes), isPrefix p a = true → isPrefix p c = true →
    ltB b a = false → ltB c b = false → isPrefix p b = true
  | [], _, _, _, _, _, _, _ => by simp [isPrefix]
  | x :: xs, [], _, _, h, _, _, _ => by simp [isPrefix] at h
  | x :: xs, _ :: _, _, [], _, h, _, _ => by simp [isPrefix] at h
  | x :: xs, a :: as, [], c :: cs, _, _, h, _ => by simp [ltB] at h
  | x :: xs, a :: as, b :: bs, c :: cs, ha, hc, hab, hbc => by
    simp only [isPrefix] at ha hc ⊢
    by_cases hxa : x = a
    · by_cases hxc : x = c
      · subst hxa; subst hxc
        simp only [if_true] at ha hc
        simp only [ltB] at hab hbc
        by_cases h1 : b < x
        · simp [h1] at hab
        · by_cases h2 : x < b
          · simp [h2] at hbc
          · have : x = b := by omega
            subst this
            simp only [Nat.lt_irrefl, if_false, if_true] at hab hbc ⊢
            exact isPrefix_convex xs as bs cs ha hc hab hbc
      · simp [hxc] at hc
    · simp [hxa] at ha

/-- beyond the prefix interval: `k` is at or above `p` but lacks the prefix ⇒ no later key has it -/
theorem no_prefix_after (p k k' : Bytes) (hk : ltB k p = false) (hnp : isPrefix p k = false)
    (hle : ltB k' k = false) : isPrefix p k' = false := by
  cases h : isPrefix p k' with
  | false => rfl
  | true =>
    have := isPrefix_convex p p k k' (isPrefix_refl p) h hk hle
    rw [hnp] at this; cases this



/-! ### the store loop on a sorted database -/

def SortedDb (db : Db) : Prop := db.Pairwise (fun a b => ltB a.key b.key = true)

/-- per-entry part of the loop body: skipped (empty name, exclusive start) or handed out -/
def scanSkip (nameOf : Bytes → Bytes) (start : Bytes) (incl : Bool) (e : Ent) : Option (Bytes × Bool) :=
  if nameOf e.key = [] then none
  else if nameOf e.key = start ∧ incl = false then none
  else some (nameOf e.key, e.expired)

theorem scan_eq (nameOf : Bytes → Bytes) (dp start : Bytes) (incl : Bool) (S : Db) (limit : Nat) :
    scan nameOf dp start incl S limit =
      ((S.takeWhile fun e => isPrefix dp e.key).filterMap (scanSkip nameOf start incl)).take limit := by
  induction S generalizing limit with
  | nil => simp [scan]
  | cons e rest ih =>
    unfold scan
    by_cases hp : isPrefix dp e.key = true
    · simp only [hp, if_true, List.takeWhile_cons, List.filterMap_cons]
      by_cases h1 : nameOf e.key = []
      · have hsk : scanSkip nameOf start incl e = none := by simp [scanSkip, h1]
        rw [hsk, if_pos h1]; exact ih limit
      · by_cases h2 : nameOf e.key = start ∧ incl = false
        · have hsk : scanSkip nameOf start incl e = none := by simp [scanSkip, h1, h2]
          rw [hsk, if_neg h1, if_pos h2]; exact ih limit
        · have hsk : scanSkip nameOf start incl e = some (nameOf e.key, e.expired) := by
            unfold scanSkip; rw [if_neg h1, if_neg h2]
          rw [hsk, if_neg h1, if_neg h2]
          cases limit with
          | zero => simp
          | succ l => simp only [List.take_succ_cons]; rw [ih l]
    · simp [hp]

theorem dropWhile_lt_sorted (db : Db) (hs : SortedDb db) (frm : Bytes) :
    db.dropWhile (fun e => ltB e.key frm) = db.filter (fun e => !ltB e.key frm) := by
  induction db with
  | nil => rfl
  | cons x L ih =>
    have hs' : SortedDb L := (List.pairwise_cons.1 hs).2
    have hx := (List.pairwise_cons.1 hs).1
    by_cases h : ltB x.key frm = true
    · simp only [List.dropWhile_cons, h, if_true, List.filter_cons, Bool.not_true, Bool.false_eq_true, if_false]
      exact ih hs'
    · have h' : ltB x.key frm = false := by simpa using h
      simp only [List.dropWhile_cons, h', Bool.false_eq_true, if_false, List.filter_cons, Bool.not_false, if_true]
      congr 1
      symm
      rw [List.filter_eq_self]
      intro y hy
      have hxy := hx y hy
      cases hyf : ltB y.key frm with
      | false => rfl
      | true => have := ltB_trans _ _ _ hxy hyf; rw [h'] at this; cases this

theorem takeWhile_prefix_sorted (K : Bytes) (M : Db) (hs : SortedDb M) (hge : ∀ e ∈ M, ltB e.key K = false) :
    M.takeWhile (fun e => isPrefix K e.key) = M.filter (fun e => isPrefix K e.key) := by
  induction M with
  | nil => rfl
  | cons y M' ih =>
    have hs' : SortedDb M' := (List.pairwise_cons.1 hs).2
    have hy := (List.pairwise_cons.1 hs).1
    by_cases hp : isPrefix K y.key = true
    · simp only [List.takeWhile_cons, hp, if_true, List.filter_cons]
      rw [ih hs' (fun e he => hge e (List.mem_cons_of_mem _ he))]
    · have hp' : isPrefix K y.key = false := by simpa using hp
      simp only [List.takeWhile_cons, hp', Bool.false_eq_true, if_false, List.filter_cons]
      symm
      rw [List.filter_eq_nil_iff]
      intro z hz
      have hyz := hy z hz
      have := no_prefix_after K y.key z.key (hge y (List.mem_cons_self)) hp' (ltB_asymm _ _ hyz)
      simp [this]

theorem seek_takeWhile (db : Db) (hs : SortedDb db) (frm K : Bytes) (hfrom : ltB frm K = false) :
    (seek frm db).takeWhile (fun e => isPrefix K e.key) =
      db.filter (fun e => !ltB e.key frm && isPrefix K e.key) := by
  unfold seek
  rw [dropWhile_lt_sorted db hs frm]
  rw [takeWhile_prefix_sorted K _ (List.Pairwise.sublist List.filter_sublist hs)]
  · rw [List.filter_filter]
    congr 1; funext e; rw [Bool.and_comm]
  · intro e he
    have h1 : ltB e.key frm = false := by simpa using (List.mem_filter.1 he).2
    exact le_trans' K frm e.key hfrom h1

/-- the directory's children as the store holds them: (name, expired) in key order -/
def children (nameOf : Bytes → Bytes) (dk : Bytes) (db : Db) : List (Bytes × Bool) :=
  (db.filter fun e => isPrefix dk e.key).map fun e => (nameOf e.key, e.expired)

/-- what a store listing must select: non-empty names with the prefix, from the start position on -/
def sel (start : Bytes) (incl : Bool) (pfx : Bytes) (p : Bytes × Bool) : Bool :=
  decide (p.1 ≠ []) && isPrefix pfx p.1 && afterStart start incl p.1

theorem point (nameOf : Bytes → Bytes) (dk start pfx : Bytes) (incl : Bool) (e : Ent)
    (hwf : isPrefix dk e.key = true → e.key = dk ++ nameOf e.key) (hstart : start = [] ∨ ltB start pfx = false) :
    (if (!ltB e.key (if start = [] then dk ++ pfx else dk ++ start) && isPrefix (dk ++ pfx) e.key) = true
      then scanSkip nameOf start incl e else none) =
    (if isPrefix dk e.key = true then
      (if sel start incl pfx (nameOf e.key, e.expired) = true then some (nameOf e.key, e.expired) else none) else none) := by
  by_cases hd : isPrefix dk e.key = true
  · obtain ⟨key, exp⟩ := e
    simp only at hwf hd ⊢
    have hk := hwf hd
    generalize hn : nameOf key = n at hk ⊢
    subst hk
    have hdp : isPrefix dk (dk ++ n) = true := hd
    simp only [scanSkip, sel, afterStart, hn, hdp, if_true, isPrefix_append_left]
    by_cases hs0 : start = []
    · subst hs0
      simp only [if_true, ltB_append_left]
      by_cases hpn : isPrefix pfx n = true
      · have h1 := not_lt_of_isPrefix pfx n hpn
        by_cases hn0 : n = []
        · subst hn0; simp [hpn, h1]
        · have : ltB [] n = true := (ltB_nil n).2 hn0
          simp [hpn, h1, hn0, this]
      · have hpn' : isPrefix pfx n = false := by simpa using hpn
        simp [hpn']
    · have hsp : ltB start pfx = false := by
        rcases hstart with h | h
        · exact absurd h hs0
        · exact h
      simp only [hs0, if_false, ltB_append_left]
      by_cases hpn : isPrefix pfx n = true
      · by_cases hlt : ltB n start = true
        · have h2 := ltB_asymm _ _ hlt
          have h3 : n ≠ start := by intro h; subst h; rw [ltB_irrefl] at hlt; cases hlt
          simp [hlt, h2, h3]
        · have hlt' : ltB n start = false := by simpa using hlt
          by_cases hsn : ltB start n = true
          · have h3 : n ≠ start := by intro h; subst h; rw [ltB_irrefl] at hsn; cases hsn
            have hn0 : n ≠ [] := by intro h; subst h; cases start <;> simp [ltB] at hsn
            simp [hlt', hsn, h3, hpn, hn0]
          · have hsn' : ltB start n = false := by simpa using hsn
            have h3 : n = start := ltB_total _ _ hlt' hsn'
            subst h3
            cases incl <;> simp [hlt', hpn, hs0]
      · have hpn' : isPrefix pfx n = false := by simpa using hpn
        simp [hpn']
  · have hd' : isPrefix dk e.key = false := by simpa using hd
    have : isPrefix (dk ++ pfx) e.key = false := by
      cases h : isPrefix (dk ++ pfx) e.key with
      | false => rfl
      | true => rw [isPrefix_append dk pfx e.key h] at hd'; cases hd'
    simp [this, hd']


theorem filterMap_point (nameOf : Bytes → Bytes) (dk start pfx : Bytes) (incl : Bool) (db : Db)
    (hwf : ∀ e ∈ db, isPrefix dk e.key = true → e.key = dk ++ nameOf e.key) (hstart : start = [] ∨ ltB start pfx = false) :
    (db.filter fun e => !ltB e.key (if start = [] then dk ++ pfx else dk ++ start) && isPrefix (dk ++ pfx) e.key).filterMap
        (scanSkip nameOf start incl) =
      (children nameOf dk db).filter (sel start incl pfx) := by
  unfold children
  induction db with
  | nil => rfl
  | cons e L ih =>
    have ih' := ih (fun x hx => hwf x (List.mem_cons_of_mem _ hx))
    have hp := point nameOf dk start pfx incl e (hwf e List.mem_cons_self) hstart
    simp only [List.filter_cons]
    by_cases hA : (!ltB e.key (if start = [] then dk ++ pfx else dk ++ start) && isPrefix (dk ++ pfx) e.key) = true
    · rw [if_pos hA] at hp ⊢
      by_cases hB : isPrefix dk e.key = true
      · rw [if_pos hB] at hp ⊢
        simp only [List.filterMap_cons, List.map_cons, List.filter_cons, hp]
        by_cases hS : sel start incl pfx (nameOf e.key, e.expired) = true
        · simp only [hS, if_true]; rw [ih']
        · have hS' : sel start incl pfx (nameOf e.key, e.expired) = false := by simpa using hS
          simp [hS', ih']
      · rw [if_neg hB] at hp ⊢
        simp only [List.filterMap_cons, hp]; rw [ih']
    · rw [if_neg hA] at hp ⊢
      by_cases hB : isPrefix dk e.key = true
      · rw [if_pos hB] at hp ⊢
        simp only [List.map_cons, List.filter_cons]
        by_cases hS : sel start incl pfx (nameOf e.key, e.expired) = true
        · rw [if_pos hS] at hp; cases hp
        · rw [if_neg hS]; exact ih'
      · rw [if_neg hB]; exact ih'

/-- LAYER 1: on every sorted database a store's `ListDirectoryPrefixedEntries` returns exactly the
    first `limit` children selected by (prefix, start, inclusive), in name order — provided the
    start name is empty or not before the prefix -/
theorem storeList_exact (nameOf : Bytes → Bytes) (dk : Bytes) (db : Db) (start : Bytes) (incl : Bool) (limit : Nat)
    (pfx : Bytes) (hs : SortedDb db) (hwf : ∀ e ∈ db, isPrefix dk e.key = true → e.key = dk ++ nameOf e.key)
    (hstart : start = [] ∨ ltB start pfx = false) :
    storeList nameOf dk db start incl limit pfx = ((children nameOf dk db).filter (sel start incl pfx)).take limit := by
  unfold storeList
  rw [scan_eq, seek_takeWhile db hs _ (dk ++ pfx), filterMap_point nameOf dk start pfx incl db hwf hstart]
  by_cases h0 : start = []
  · simp [h0, ltB_irrefl]
  · rcases hstart with h | h
    · exact absurd h h0
    · simp [h0, ltB_append_left, h]



/-! ### strictly sorted name lists: what lies after the last name of a page is the rest -/

def SortedBy {α : Type} (key : α → Bytes) (l : List α) : Prop := l.Pairwise (fun a b => ltB (key a) (key b) = true)

def SortedNames (l : List Bytes) : Prop := SortedBy id l

theorem filter_after_last_by {α : Type} (key : α → Bytes) (A B : List α) (l : α) (hs : SortedBy key (A ++ [l] ++ B)) :
    (A ++ [l] ++ B).filter (fun x => ltB (key l) (key x)) = B := by
  have h1 := List.pairwise_append.1 hs
  have h2 := List.pairwise_append.1 h1.1
  have hA : A.filter (fun x => ltB (key l) (key x)) = [] := by
    rw [List.filter_eq_nil_iff]
    intro a ha
    have := h2.2.2 a ha l (by simp)
    simp [ltB_asymm _ _ this]
  have hB : B.filter (fun x => ltB (key l) (key x)) = B := by
    rw [List.filter_eq_self]
    intro b hb
    exact h1.2.2 l (by simp) b hb
  simp [List.filter_append, hA, hB, ltB_irrefl]

/-- after a non-empty page `take n T` of a strictly sorted list, the items above the page's last
    item are exactly `drop n T` -/
theorem filter_after_page_by {α : Type} (key : α → Bytes) (T : List α) (n : Nat) (l : α) (hs : SortedBy key T)
    (hl : (T.take n).getLast? = some l) : T.filter (fun x => ltB (key l) (key x)) = T.drop n := by
  obtain ⟨A, hA⟩ : ∃ A, T.take n = A ++ [l] := List.getLast?_eq_some_iff.1 hl
  have hT : T = A ++ [l] ++ T.drop n := by rw [← hA, List.take_append_drop]
  have := filter_after_last_by key A (T.drop n) l (by rw [← hT]; exact hs)
  rw [← hT] at this
  exact this

theorem filter_after_page (T : List Bytes) (n : Nat) (l : Bytes) (hs : SortedNames T)
    (hl : (T.take n).getLast? = some l) : T.filter (fun x => ltB l x) = T.drop n :=
  filter_after_page_by id T n l hs hl

theorem filter_after_mono (M : List Bytes) (s l : Bytes) (hsl : ltB s l = true) :
    M.filter (fun x => ltB l x) = (M.filter (fun x => ltB s x)).filter (fun x => ltB l x) := by
  rw [List.filter_filter]
  congr 1; funext x
  cases h : ltB l x with
  | false => simp
  | true => simp [ltB_trans s l x hsl h]

/-! ### pagination on the specification -/

/-- follow the last returned name, page after page (each page is `specList` with an exclusive start) -/
def pages (sorted : List Bytes) (r : Req) : Nat → Bytes → List Bytes
  | 0, _ => []
  | fuel + 1, start =>
    let p := specList sorted { r with start := start, incl := false }
    match p.getLast? with
    | none => []
    | some l => p ++ pages sorted r fuel l

theorem matchesReq_start (r : Req) (s : Bytes) (i : Bool) : matchesReq { r with start := s, incl := i } = matchesReq r := by
  funext n; simp [matchesReq]

theorem specList_excl (sorted : List Bytes) (r : Req) (s : Bytes) :
    specList sorted { r with start := s, incl := false } = ((specAll sorted r).filter (fun x => ltB s x)).take r.limit := by
  unfold specList specAll
  rw [matchesReq_start, List.filter_filter, List.filter_filter]
  congr 2; funext x; simp [afterStart, Bool.and_comm]

theorem pages_eq (sorted : List Bytes) (r : Req) (hs : SortedNames sorted) (hlim : 0 < r.limit) :
    ∀ (fuel : Nat) (s : Bytes), ((specAll sorted r).filter (fun x => ltB s x)).length < fuel →
      pages sorted r fuel s = (specAll sorted r).filter (fun x => ltB s x) := by
  have hM : SortedNames (specAll sorted r) := List.Pairwise.sublist List.filter_sublist hs
  intro fuel
  induction fuel with
  | zero => intro s h; omega
  | succ f ih =>
    intro s hlen
    unfold pages
    simp only
    rw [specList_excl]
    generalize hT : (specAll sorted r).filter (fun x => ltB s x) = T at hlen ⊢
    have hTs : SortedNames T := by rw [← hT]; exact List.Pairwise.sublist List.filter_sublist hM
    cases hl : (T.take r.limit).getLast? with
    | none =>
      have : T.take r.limit = [] := List.getLast?_eq_none_iff.1 hl
      cases T with
      | nil => rfl
      | cons a t =>
        obtain ⟨k, hk⟩ : ∃ k, r.limit = k + 1 := ⟨r.limit - 1, by omega⟩
        rw [hk] at this; simp at this
    | some l =>
      simp only
      have hmem : l ∈ T := List.mem_of_mem_take (List.mem_of_getLast? hl)
      have hsl : ltB s l = true := by
        rw [← hT] at hmem; simpa using (List.mem_filter.1 hmem).2
      have hdrop := filter_after_page T r.limit l hTs hl
      have hnext : (specAll sorted r).filter (fun x => ltB l x) = T.drop r.limit := by
        rw [filter_after_mono _ s l hsl, hT]; exact hdrop
      have hne : T ≠ [] := by intro h; rw [h] at hmem; cases hmem
      have hlt : (T.drop r.limit).length < f := by
        have : 0 < T.length := List.length_pos_iff.mpr hne
        rw [List.length_drop]; omega
      rw [ih l (by rw [hnext]; exact hlt), hnext, List.take_append_drop]


/-! ### the refill loop ("list n, count the skipped ones, list that many more after the last name") -/

/-- abstract form of `doListValidEntries` / the loop in `StreamListDirectoryEntries` over the list `R`
    of items still ahead: take a page of `n`, keep some, refill with the number skipped -/
def refill {α : Type} (keep : α → Bool) : Nat → List α → Nat → List α
  | 0, _, _ => []
  | fuel + 1, R, n =>
    let page := R.take n
    let out := page.filter keep
    let missed := page.length - out.length
    if missed = 0 then out else out ++ refill keep fuel (R.drop n) missed

theorem filter_length_le' {α : Type} (p : α → Bool) (l : List α) : (l.filter p).length ≤ l.length :=
  List.length_filter_le p l

theorem refill_exact {α : Type} (keep : α → Bool) : ∀ (fuel : Nat) (R : List α) (n : Nat), R.length < fuel →
    refill keep fuel R n = (R.filter keep).take n := by
  intro fuel
  induction fuel with
  | zero => intro R n h; omega
  | succ f ih =>
    intro R n hlen
    unfold refill
    simp only
    have hsplit : R.filter keep = (R.take n).filter keep ++ (R.drop n).filter keep := by
      rw [← List.filter_append, List.take_append_drop]
    have hle := filter_length_le' keep (R.take n)
    have hpl : (R.take n).length = min n R.length := List.length_take
    have hA : ((R.take n).filter keep).length ≤ n := by
      have : (R.take n).length ≤ n := by rw [hpl]; omega
      omega
    have hBnil : ¬ n ≤ R.length → (R.drop n).filter keep = [] := by
      intro h; rw [List.drop_eq_nil_of_le (by omega)]; rfl
    rw [hsplit, List.take_append, List.take_of_length_le hA]
    by_cases hm : (R.take n).length - ((R.take n).filter keep).length = 0
    · rw [if_pos hm]
      by_cases hfull : n ≤ R.length
      · have : n - ((R.take n).filter keep).length = 0 := by rw [hpl] at hm hle; omega
        rw [this]; simp
      · rw [hBnil hfull]; simp
    · rw [if_neg hm]
      congr 1
      by_cases hfull : n ≤ R.length
      · have hpn : (R.take n).length = n := by rw [hpl]; omega
        have hdl : (R.drop n).length < f := by
          rw [List.length_drop]
          have : 0 < n := by omega
          omega
        rw [ih _ _ hdl, hpn]
      · rw [hBnil hfull]
        have hd : R.drop n = [] := List.drop_eq_nil_of_le (by omega)
        rw [hd]
        cases f with
        | zero => simp [refill]
        | succ f' => simp [refill]



/-! ### the filer layers over a directory without expired entries -/

theorem children_sorted (nameOf : Bytes → Bytes) (dk : Bytes) (db : Db) (hs : SortedDb db)
    (hwf : ∀ e ∈ db, isPrefix dk e.key = true → e.key = dk ++ nameOf e.key) :
    SortedBy (fun p : Bytes × Bool => p.1) (children nameOf dk db) := by
  unfold children SortedBy
  rw [List.pairwise_map]
  have h1 : (db.filter fun e => isPrefix dk e.key).Pairwise (fun a b => ltB a.key b.key = true) :=
    List.Pairwise.sublist List.filter_sublist hs
  refine List.Pairwise.imp_of_mem ?_ h1
  intro a b ha hb hab
  have ha' := List.mem_filter.1 ha
  have hb' := List.mem_filter.1 hb
  rw [hwf a ha'.1 ha'.2, hwf b hb'.1 hb'.2, ltB_append_left] at hab
  exact hab

theorem delExpired_live (dk : Bytes) (page : List (Bytes × Bool)) (db : Db) (h : ∀ p ∈ page, p.2 = false) :
    delExpired dk page db = db := by
  unfold delExpired
  induction page generalizing db with
  | nil => rfl
  | cons p ps ih =>
    simp only [List.foldl_cons, h p List.mem_cons_self, Bool.false_eq_true, if_false]
    exact ih db (fun q hq => h q (List.mem_cons_of_mem _ hq))

/-- the children a request selects -/
def selected (nameOf : Bytes → Bytes) (dk : Bytes) (db : Db) (start : Bytes) (incl : Bool) (pfx : Bytes) : List (Bytes × Bool) :=
  (children nameOf dk db).filter (sel start incl pfx)

theorem dirList_live (k : Kind) (dk : Bytes) (db : Db) (start : Bytes) (incl : Bool) (limit : Nat) (pfx : Bytes)
    (hnat : k.native = true ∨ pfx = []) (hs : SortedDb db)
    (hwf : ∀ e ∈ db, isPrefix dk e.key = true → e.key = dk ++ k.nameOf e.key)
    (hlive : ∀ p ∈ children k.nameOf dk db, p.2 = false) (hstart : start = [] ∨ ltB start pfx = false) :
    dirList k dk db start incl limit pfx =
      ((selected k.nameOf dk db start incl pfx).take limit, lastName ((selected k.nameOf dk db start incl pfx).take limit), db) := by
  unfold dirList
  rw [if_pos hnat]
  simp only
  rw [storeList_exact k.nameOf dk db start incl limit pfx hs hwf hstart]
  rw [delExpired_live]
  · rfl
  · intro p hp
    exact hlive p ((List.mem_filter.1 (List.mem_of_mem_take hp)).1)

theorem listValid_live (k : Kind) (dk : Bytes) (db : Db) (start : Bytes) (incl : Bool) (limit : Nat) (pfx : Bytes) (fuel : Nat)
    (hnat : k.native = true ∨ pfx = []) (hs : SortedDb db)
    (hwf : ∀ e ∈ db, isPrefix dk e.key = true → e.key = dk ++ k.nameOf e.key)
    (hlive : ∀ p ∈ children k.nameOf dk db, p.2 = false) (hstart : start = [] ∨ ltB start pfx = false) :
    listValid k dk pfx (fuel + 1) db start incl limit =
      (((selected k.nameOf dk db start incl pfx).take limit).map (·.1),
        lastName ((selected k.nameOf dk db start incl pfx).take limit), db) := by
  unfold listValid
  rw [dirList_live k dk db start incl limit pfx hnat hs hwf hlive hstart]
  simp only
  have hl : ∀ p ∈ (selected k.nameOf dk db start incl pfx).take limit, p.2 = false := by
    intro p hp; exact hlive p ((List.mem_filter.1 (List.mem_of_mem_take hp)).1)
  have h0 : ((selected k.nameOf dk db start incl pfx).take limit).countP (·.2) = 0 := by
    rw [List.countP_eq_zero]; intro p hp; simp [hl p hp]
  have hf : ((selected k.nameOf dk db start incl pfx).take limit).filter (fun p => !p.2) =
      (selected k.nameOf dk db start incl pfx).take limit := by
    rw [List.filter_eq_self]; intro p hp; simp [hl p hp]
  rw [if_pos h0, hf]

/-- after a page, the children selected from its last name on are the rest of the selection -/
theorem selected_after (nameOf : Bytes → Bytes) (dk : Bytes) (db : Db) (start : Bytes) (incl : Bool) (pfx : Bytes) (n : Nat)
    (l : Bytes × Bool) (hs : SortedDb db) (hwf : ∀ e ∈ db, isPrefix dk e.key = true → e.key = dk ++ nameOf e.key)
    (hl : ((selected nameOf dk db start incl pfx).take n).getLast? = some l) :
    selected nameOf dk db l.1 false pfx = (selected nameOf dk db start incl pfx).drop n := by
  have hsorted : SortedBy (fun p : Bytes × Bool => p.1) (selected nameOf dk db start incl pfx) :=
    List.Pairwise.sublist List.filter_sublist (children_sorted nameOf dk db hs hwf)
  rw [← filter_after_page_by (fun p : Bytes × Bool => p.1) _ n l hsorted hl]
  unfold selected
  rw [List.filter_filter]
  have hmem : l ∈ (children nameOf dk db).filter (sel start incl pfx) := List.mem_of_mem_take (List.mem_of_getLast? hl)
  have hsel : sel start incl pfx l = true := (List.mem_filter.1 hmem).2
  congr 1; funext x
  unfold sel afterStart at *
  cases hlx : ltB l.1 x.1 with
  | false => simp
  | true =>
    have hax : (ltB start x.1 || (incl && decide (x.1 = start))) = true := by
      simp only [Bool.and_eq_true, Bool.or_eq_true, decide_eq_true_eq] at hsel
      rcases hsel.2 with h | ⟨_, h⟩
      · simp [ltB_trans _ _ _ h hlx]
      · rw [← h]; simp [hlx]
    simp [hax]

theorem lastName_eq (page : List (Bytes × Bool)) (l : Bytes × Bool) (h : page.getLast? = some l) : lastName page = l.1 := by
  unfold lastName; rw [h]

/-- LAYER 3 (no expired entries): the missed-count loop of `StreamListDirectoryEntries` delivers the
    first `limit` selected children that pass the pattern tests -/
theorem streamLoop_live (k : Kind) (dk pfx rest excl : Bytes) (db : Db)
    (hnat : k.native = true ∨ pfx = []) (hs : SortedDb db)
    (hwf : ∀ e ∈ db, isPrefix dk e.key = true → e.key = dk ++ k.nameOf e.key)
    (hlive : ∀ p ∈ children k.nameOf dk db, p.2 = false) :
    ∀ (fuel : Nat) (start : Bytes) (incl : Bool) (limit : Nat), (start = [] ∨ ltB start pfx = false) →
      (selected k.nameOf dk db start incl pfx).length < fuel →
      (streamLoop k dk pfx rest excl fuel db start incl limit).map (·.1) =
        some (refill (passes pfx rest excl) fuel ((selected k.nameOf dk db start incl pfx).map (·.1)) limit) := by
  intro fuel
  induction fuel with
  | zero => intro _ _ _ _ h; omega
  | succ f ih =>
    intro start incl limit hstart hlen
    unfold streamLoop refill
    have hfuel : db.length + 2 = (db.length + 1) + 1 := rfl
    rw [hfuel, listValid_live k dk db start incl limit pfx _ hnat hs hwf hlive hstart]
    simp only [List.map_take]
    generalize hS : selected k.nameOf dk db start incl pfx = S at hlen ⊢
    by_cases hm : ((S.map (·.1)).take limit).length - (((S.map (·.1)).take limit).filter (passes pfx rest excl)).length = 0
    · rw [if_pos hm, if_pos hm]; rfl
    · rw [if_neg hm, if_neg hm]
      -- the page is not empty: it has a last entry
      have hne : S.take limit ≠ [] := by
        intro h; rw [← List.map_take, h] at hm; simp at hm
      obtain ⟨l, hl⟩ : ∃ l, (S.take limit).getLast? = some l := by
        cases h : (S.take limit).getLast? with
        | none => exact absurd (List.getLast?_eq_none_iff.1 h) hne
        | some l => exact ⟨l, rfl⟩
      have hlast : lastName (S.take limit) = l.1 := lastName_eq _ _ hl
      have hlmem : l ∈ S := List.mem_of_mem_take (List.mem_of_getLast? hl)
      have hlsel : sel start incl pfx l = true := by rw [← hS] at hlmem; exact (List.mem_filter.1 hlmem).2
      have hlpfx : isPrefix pfx l.1 = true := by
        unfold sel at hlsel; simp only [Bool.and_eq_true] at hlsel; exact hlsel.1.2
      have hnext : selected k.nameOf dk db l.1 false pfx = S.drop limit := by
        rw [← hS]; exact selected_after k.nameOf dk db start incl pfx limit l hs hwf (by rw [hS]; exact hl)
      have hlim : 0 < limit := by
        cases limit with
        | zero => simp at hne
        | succ _ => omega
      have hSne : S ≠ [] := by intro h; rw [h] at hlmem; cases hlmem
      have hdl : (S.drop limit).length < f := by
        have : 0 < S.length := List.length_pos_iff.mpr hSne
        rw [List.length_drop]; omega
      rw [hlast]
      have := ih l.1 false (((S.map (·.1)).take limit).length - (((S.map (·.1)).take limit).filter (passes pfx rest excl)).length)
        (Or.inr (not_lt_of_isPrefix pfx l.1 hlpfx)) (by rw [hnext]; exact hdl)
      rw [hnext, List.map_drop] at this
      cases hrec : streamLoop k dk pfx rest excl f db l.1 false
          (((S.map (·.1)).take limit).length - (((S.map (·.1)).take limit).filter (passes pfx rest excl)).length) with
      | none => rw [hrec] at this; simp at this
      | some t =>
        rw [hrec] at this
        simp only [Option.map_some, Option.some.injEq] at this
        simp only [Option.map_some, this]



/-! ### patterns: literal prefix + rest, as `splitPattern` cuts them -/

def Literal (lit : Bytes) : Prop := ∀ c ∈ lit, c ≠ 42 ∧ c ≠ 63

theorem glob_literal (lit rest : Bytes) (h : Literal lit) : ∀ n : Bytes,
    glob (lit ++ rest) n = (isPrefix lit n && glob rest (n.drop lit.length)) := by
  induction lit with
  | nil => intro n; simp [isPrefix]
  | cons c lit ih =>
    intro n
    have hc := h c List.mem_cons_self
    have ih' := ih (fun d hd => h d (List.mem_cons_of_mem _ hd))
    cases n with
    | nil => simp [glob, isPrefix, hc.1]
    | cons x n' =>
      simp only [List.cons_append, glob, hc.1, if_false, hc.2, false_or, isPrefix, List.length_cons, List.drop_succ_cons]
      rw [ih' n']
      by_cases hcx : c = x <;> simp [hcx]

theorem findIdx?_some_split (p : Nat → Bool) : ∀ (l : Bytes) (i : Nat), l.findIdx? p = some i →
    (∀ x ∈ l.take i, p x = false) ∧ ∃ y ys, l.drop i = y :: ys ∧ p y = true := by
  intro l
  induction l with
  | nil => intro i h; simp at h
  | cons a l ih =>
    intro i h
    rw [List.findIdx?_cons] at h
    by_cases ha : p a = true
    · simp only [ha, if_true, Option.some.injEq] at h
      subst h
      exact ⟨by simp, a, l, rfl, ha⟩
    · have ha' : p a = false := by simpa using ha
      simp only [ha', Bool.false_eq_true, if_false, Option.map_eq_some_iff] at h
      obtain ⟨j, hj, rfl⟩ := h
      obtain ⟨h1, y, ys, h2, h3⟩ := ih j hj
      refine ⟨?_, y, ys, by simpa using h2, h3⟩
      intro x hx
      simp only [List.take_succ_cons, List.mem_cons] at hx
      rcases hx with rfl | hx
      · exact ha'
      · exact h1 x hx

/-- patterns the filer splits correctly: a wildcard exists and no `?` precedes the first `*` -/
def GoodPattern (p : Bytes) : Prop := hasWildcard p = true ∧ questionBeforeStar p = false

theorem splitPattern_good (p : Bytes) (h : GoodPattern p) :
    (splitPattern p).1 ++ (splitPattern p).2 = p ∧ Literal (splitPattern p).1 ∧ (splitPattern p).2 ≠ [] := by
  unfold splitPattern
  cases h42 : p.findIdx? (· = 42) with
  | some i =>
    simp only
    obtain ⟨h1, y, ys, h2, _⟩ := findIdx?_some_split _ p i h42
    refine ⟨List.take_append_drop i p, ?_, by rw [h2]; simp⟩
    intro c hc
    have hq := h.2
    unfold questionBeforeStar at hq
    rw [h42] at hq
    simp only [List.any_eq_false, decide_eq_true_eq] at hq
    exact ⟨by simpa using h1 c hc, hq c hc⟩
  | none =>
    simp only
    have hno42 : ∀ x ∈ p, ¬ x = 42 := by simpa using (List.findIdx?_eq_none_iff.1 h42)
    cases h63 : p.findIdx? (· = 63) with
    | some i =>
      simp only
      obtain ⟨h1, y, ys, h2, _⟩ := findIdx?_some_split _ p i h63
      refine ⟨List.take_append_drop i p, ?_, by rw [h2]; simp⟩
      intro c hc
      exact ⟨hno42 c (List.mem_of_mem_take hc), by simpa using h1 c hc⟩
    | none =>
      have hno63 : ∀ x ∈ p, ¬ x = 63 := by simpa using (List.findIdx?_eq_none_iff.1 h63)
      have := h.1
      unfold hasWildcard at this
      simp only [List.any_eq_true, Bool.or_eq_true, decide_eq_true_eq] at this
      obtain ⟨x, hx, h' | h'⟩ := this
      · exact absurd h' (hno42 x hx)
      · exact absurd h' (hno63 x hx)

theorem splitPattern_nil : splitPattern [] = ([], []) := by decide

/-- requests inside the property's domain and outside the recorded `splitPattern` defects -/
def GoodReq (r : Req) : Prop := (r.pattern = [] ∨ (r.pfx = [] ∧ GoodPattern r.pattern))

/-- the filer's per-entry test is the specification's `matchesReq`, for names with the effective prefix -/
theorem passes_iff_matches (r : Req) (h : GoodReq r) (n : Bytes) :
    (isPrefix (effPrefix r) n && passes (effPrefix r) (splitPattern r.pattern).2 r.excl n) = matchesReq r n := by
  rcases h with h | ⟨hp, hg⟩
  · unfold effPrefix passes matchesReq
    rw [h, splitPattern_nil]
    simp only [ne_eq, not_true_eq_false, if_false, false_and, decide_true, Bool.true_or, Bool.and_true]
    by_cases he : r.excl = []
    · simp [he]
    · cases hgl : glob r.excl n <;> simp [he, hgl]
  · obtain ⟨hcat, hlit, hrest⟩ := splitPattern_good r.pattern hg
    have heff : effPrefix r = (splitPattern r.pattern).1 := by
      unfold effPrefix
      by_cases h1 : (splitPattern r.pattern).1 = []
      · simp [h1, hp]
      · simp [h1]
    have hpne : r.pattern ≠ [] := by
      intro h0; rw [h0, splitPattern_nil] at hrest; exact hrest rfl
    have hglob := glob_literal _ (splitPattern r.pattern).2 hlit n
    rw [hcat] at hglob
    unfold passes matchesReq
    rw [heff, hp, hglob]
    simp only [isPrefix, Bool.true_and, hpne, decide_false, Bool.false_or, ne_eq, hrest, not_false_eq_true, true_and]
    by_cases he : r.excl = []
    · cases h1 : isPrefix (splitPattern r.pattern).1 n <;>
        cases h2 : glob (splitPattern r.pattern).2 (List.drop (splitPattern r.pattern).1.length n) <;> simp [he]
    · cases h1 : isPrefix (splitPattern r.pattern).1 n <;>
        cases h2 : glob (splitPattern r.pattern).2 (List.drop (splitPattern r.pattern).1.length n) <;>
          cases h3 : glob r.excl n <;> simp [he]

/-! ### expired entries: the refill loop of `doListValidEntries` with deletions -/

/-- deleting the expired entries of a page = filtering their keys out -/
theorem delExpired_eq_filter (dk : Bytes) (page : List (Bytes × Bool)) (db : Db) :
    delExpired dk page db = db.filter (fun e => !(page.any fun p => p.2 && decide (e.key = dk ++ p.1))) := by
  unfold delExpired
  induction page generalizing db with
  | nil => simp only [List.foldl_nil, List.any_nil, Bool.not_false]; exact (List.filter_eq_self.2 (fun _ _ => rfl)).symm
  | cons p ps ih =>
    simp only [List.foldl_cons]
    rw [ih]
    by_cases hp : p.2 = true
    · simp only [hp, if_true, dbDel, List.filter_filter]
      apply List.filter_congr
      intro e _
      by_cases hk : e.key = dk ++ p.1 <;> simp [hp, hk]
    · have hp' : p.2 = false := by simpa using hp
      simp only [hp', Bool.false_eq_true, if_false]
      apply List.filter_congr
      intro e _
      simp [hp']

theorem delExpired_sorted (dk : Bytes) (page : List (Bytes × Bool)) (db : Db) (hs : SortedDb db) :
    SortedDb (delExpired dk page db) := by
  rw [delExpired_eq_filter]; exact List.Pairwise.sublist List.filter_sublist hs

theorem delExpired_mem (dk : Bytes) (page : List (Bytes × Bool)) (db : Db) (e : Ent) (h : e ∈ delExpired dk page db) : e ∈ db := by
  rw [delExpired_eq_filter] at h; exact (List.mem_filter.1 h).1

theorem delExpired_length_le (dk : Bytes) (page : List (Bytes × Bool)) (db : Db) : (delExpired dk page db).length ≤ db.length := by
  rw [delExpired_eq_filter]; exact List.length_filter_le _ _

/-- deleting a page's expired entries does not touch what is selected after the page's last name -/
theorem selected_after_del (nameOf : Bytes → Bytes) (dk : Bytes) (db : Db) (start : Bytes) (incl : Bool) (pfx : Bytes) (n : Nat)
    (l : Bytes × Bool) (hs : SortedDb db) (hwf : ∀ e ∈ db, isPrefix dk e.key = true → e.key = dk ++ nameOf e.key)
    (hl : ((selected nameOf dk db start incl pfx).take n).getLast? = some l) :
    selected nameOf dk (delExpired dk ((selected nameOf dk db start incl pfx).take n) db) l.1 false pfx =
      (selected nameOf dk db start incl pfx).drop n := by
  rw [← selected_after nameOf dk db start incl pfx n l hs hwf hl]
  generalize hpage : (selected nameOf dk db start incl pfx).take n = page at hl
  have hsorted : SortedBy (fun p : Bytes × Bool => p.1) page := by
    rw [← hpage]
    exact List.Pairwise.sublist (List.take_sublist _ _)
      (List.Pairwise.sublist List.filter_sublist (children_sorted nameOf dk db hs hwf))
  -- every name of the page is ≤ the last one
  have hle : ∀ p ∈ page, ltB l.1 p.1 = false := by
    obtain ⟨A, hA⟩ := List.getLast?_eq_some_iff.1 hl
    intro p hp
    rw [hA] at hp hsorted
    rcases List.mem_append.1 hp with hp | hp
    · have := (List.pairwise_append.1 hsorted).2.2 p hp l (by simp)
      exact ltB_asymm _ _ this
    · simp only [List.mem_singleton] at hp; subst hp; exact ltB_irrefl _
  unfold selected children
  rw [delExpired_eq_filter]
  simp only [List.filter_map, List.filter_filter]
  congr 1
  apply List.filter_congr
  intro e he
  simp only [Function.comp]
  by_cases hP : isPrefix dk e.key = true
  · by_cases hS : sel l.1 false pfx (nameOf e.key, e.expired) = true
    · have hlt : ltB l.1 (nameOf e.key) = true := by
        have h := hS
        unfold sel afterStart at h
        simp only [Bool.and_eq_true] at h
        simpa using h.2
      have hq : (page.any fun p => p.2 && decide (e.key = dk ++ p.1)) = false := by
        rw [List.any_eq_false]
        intro p hp hcon
        simp only [Bool.and_eq_true, decide_eq_true_eq] at hcon
        have hk := hwf e he hP
        rw [hk] at hcon
        have : nameOf e.key = p.1 := List.append_cancel_left hcon.2
        rw [this, hle p hp] at hlt; cases hlt
      simp [hq, hP, hS]
    · have hS' : sel l.1 false pfx (nameOf e.key, e.expired) = false := by simpa using hS
      simp [hS']
  · have hP' : isPrefix dk e.key = false := by simpa using hP
    simp [hP']

theorem countP_expired (page : List (Bytes × Bool)) :
    page.countP (·.2) = page.length - (page.filter fun p => !p.2).length := by
  induction page with
  | nil => rfl
  | cons p ps ih =>
    have := List.length_filter_le (fun p : Bytes × Bool => !p.2) ps
    cases hp : p.2 <;> simp [List.countP_cons, List.filter_cons, hp, ih] <;> omega

/-- LAYER 2: `doListValidEntries` over a native store, with expired entries being deleted on the way:
    the names handed on are the first `limit` LIVE selected children -/
theorem listValid_exact (k : Kind) (dk pfx : Bytes) (hnat : k.native = true ∨ pfx = []) :
    ∀ (fuel : Nat) (db : Db) (start : Bytes) (incl : Bool) (limit : Nat), SortedDb db →
      (∀ e ∈ db, isPrefix dk e.key = true → e.key = dk ++ k.nameOf e.key) → (start = [] ∨ ltB start pfx = false) →
      (selected k.nameOf dk db start incl pfx).length < fuel →
      (listValid k dk pfx fuel db start incl limit).1 =
        (refill (fun p : Bytes × Bool => !p.2) fuel (selected k.nameOf dk db start incl pfx) limit).map (·.1) := by
  intro fuel
  induction fuel with
  | zero => intro _ _ _ _ _ _ _ h; omega
  | succ f ih =>
    intro db start incl limit hs hwf hstart hlen
    unfold listValid refill dirList
    rw [if_pos hnat]
    simp only
    rw [storeList_exact k.nameOf dk db start incl limit pfx hs hwf hstart]
    have hsel : (children k.nameOf dk db).filter (sel start incl pfx) = selected k.nameOf dk db start incl pfx := rfl
    rw [hsel]
    generalize hS : selected k.nameOf dk db start incl pfx = S at hlen ⊢
    rw [countP_expired]
    by_cases hm : (S.take limit).length - ((S.take limit).filter fun p => !p.2).length = 0
    · rw [if_pos hm, if_pos hm]
    · rw [if_neg hm, if_neg hm]
      have hne : S.take limit ≠ [] := by intro h; rw [h] at hm; simp at hm
      obtain ⟨l, hl⟩ : ∃ l, (S.take limit).getLast? = some l := by
        cases h : (S.take limit).getLast? with
        | none => exact absurd (List.getLast?_eq_none_iff.1 h) hne
        | some l => exact ⟨l, rfl⟩
      have hlast : lastName (S.take limit) = l.1 := lastName_eq _ _ hl
      have hlmem : l ∈ S := List.mem_of_mem_take (List.mem_of_getLast? hl)
      have hlsel : sel start incl pfx l = true := by rw [← hS] at hlmem; exact (List.mem_filter.1 hlmem).2
      have hlpfx : isPrefix pfx l.1 = true := by
        unfold sel at hlsel; simp only [Bool.and_eq_true] at hlsel; exact hlsel.1.2
      have hnext : selected k.nameOf dk (delExpired dk (S.take limit) db) l.1 false pfx = S.drop limit := by
        rw [← hS]; exact selected_after_del k.nameOf dk db start incl pfx limit l hs hwf (by rw [hS]; exact hl)
      have hlim : 0 < limit := by
        cases limit with
        | zero => simp at hne
        | succ _ => omega
      have hSne : S ≠ [] := by intro h; rw [h] at hlmem; cases hlmem
      have hdl : (S.drop limit).length < f := by
        have : 0 < S.length := List.length_pos_iff.mpr hSne
        rw [List.length_drop]; omega
      rw [hlast]
      have := ih (delExpired dk (S.take limit) db) l.1 false
        ((S.take limit).length - ((S.take limit).filter fun p => !p.2).length)
        (delExpired_sorted dk _ db hs) (fun e he => hwf e (delExpired_mem dk _ db e he))
        (Or.inr (not_lt_of_isPrefix pfx l.1 hlpfx)) (by rw [hnext]; exact hdl)
      rw [hnext] at this
      simp only [this, List.map_append]

/-! ### the filer layers over ANY store path that lists a live directory correctly -/

/-- what the refill loops need from `doListDirectoryEntries` (directory without expired entries):
    the page is the first `limit` selected children, the database is unchanged, and listing again
    from the returned `lastFileName` (exclusive) resumes exactly after the page.
    `Ok` = the start names for which this holds (native stores: not before the prefix). -/
def DirListLive (k : Kind) (dk pfx : Bytes) (db : Db) (Ok : Bytes → Prop) : Prop :=
  ∀ (start : Bytes) (incl : Bool) (limit : Nat), Ok start →
    ∃ last, dirList k dk db start incl limit pfx = ((selected k.nameOf dk db start incl pfx).take limit, last, db) ∧
      ((selected k.nameOf dk db start incl pfx).take limit ≠ [] →
        selected k.nameOf dk db last false pfx = (selected k.nameOf dk db start incl pfx).drop limit ∧ Ok last)

theorem getLast?_of_ne_nil {α : Type} (l : List α) (h : l ≠ []) : ∃ x, l.getLast? = some x := by
  cases hl : l.getLast? with
  | none => exact absurd (List.getLast?_eq_none_iff.1 hl) h
  | some x => exact ⟨x, rfl⟩

/-- native stores (and any store when no name prefix is asked for) -/
theorem dirListLive_native (k : Kind) (dk pfx : Bytes) (db : Db) (hnat : k.native = true ∨ pfx = []) (hs : SortedDb db)
    (hwf : ∀ e ∈ db, isPrefix dk e.key = true → e.key = dk ++ k.nameOf e.key)
    (hlive : ∀ p ∈ children k.nameOf dk db, p.2 = false) :
    DirListLive k dk pfx db (fun s => s = [] ∨ ltB s pfx = false) := by
  intro start incl limit hstart
  refine ⟨_, dirList_live k dk db start incl limit pfx hnat hs hwf hlive hstart, ?_⟩
  intro hne
  obtain ⟨l, hl⟩ := getLast?_of_ne_nil _ hne
  rw [lastName_eq _ _ hl]
  refine ⟨selected_after k.nameOf dk db start incl pfx limit l hs hwf hl, Or.inr ?_⟩
  have hlmem : l ∈ selected k.nameOf dk db start incl pfx := List.mem_of_mem_take (List.mem_of_getLast? hl)
  have hlsel : sel start incl pfx l = true := (List.mem_filter.1 hlmem).2
  unfold sel at hlsel; simp only [Bool.and_eq_true] at hlsel
  exact not_lt_of_isPrefix pfx l.1 hlsel.1.2

theorem streamLoop_live' (k : Kind) (dk pfx rest excl : Bytes) (db : Db) (Ok : Bytes → Prop)
    (hdl : DirListLive k dk pfx db Ok) (hlive : ∀ p ∈ children k.nameOf dk db, p.2 = false) :
    ∀ (fuel : Nat) (start : Bytes) (incl : Bool) (limit : Nat), Ok start →
      (selected k.nameOf dk db start incl pfx).length < fuel →
      (streamLoop k dk pfx rest excl fuel db start incl limit).map (·.1) =
        some (refill (passes pfx rest excl) fuel ((selected k.nameOf dk db start incl pfx).map (·.1)) limit) := by
  intro fuel
  induction fuel with
  | zero => intro _ _ _ _ h; omega
  | succ f ih =>
    intro start incl limit hstart hlen
    obtain ⟨last, hd, hres⟩ := hdl start incl limit hstart
    unfold streamLoop refill
    have hfuel : db.length + 2 = (db.length + 1) + 1 := rfl
    rw [hfuel]
    unfold listValid
    rw [hd]
    simp only
    generalize hS : selected k.nameOf dk db start incl pfx = S at hlen hres ⊢
    have hl : ∀ p ∈ S.take limit, p.2 = false := by
      intro p hp; rw [← hS] at hp; exact hlive p (List.mem_filter.1 (List.mem_of_mem_take hp)).1
    have h0 : (S.take limit).countP (·.2) = 0 := by
      rw [List.countP_eq_zero]; intro p hp; simp [hl p hp]
    have hf : (S.take limit).filter (fun p => !p.2) = S.take limit := by
      rw [List.filter_eq_self]; intro p hp; simp [hl p hp]
    rw [if_pos h0, hf]
    simp only [List.map_take]
    by_cases hm : ((S.map (·.1)).take limit).length - (((S.map (·.1)).take limit).filter (passes pfx rest excl)).length = 0
    · rw [if_pos hm, if_pos hm]; rfl
    · rw [if_neg hm, if_neg hm]
      have hne : S.take limit ≠ [] := by
        intro h; rw [← List.map_take, h] at hm; simp at hm
      obtain ⟨hnext, hok⟩ := hres hne
      have hlim : 0 < limit := by
        cases limit with
        | zero => simp at hne
        | succ _ => omega
      have hSne : S ≠ [] := by intro h; rw [h] at hne; simp at hne
      have hdl' : (S.drop limit).length < f := by
        have : 0 < S.length := List.length_pos_iff.mpr hSne
        rw [List.length_drop]; omega
      have := ih last false (((S.map (·.1)).take limit).length - (((S.map (·.1)).take limit).filter (passes pfx rest excl)).length)
        hok (by rw [hnext]; exact hdl')
      rw [hnext, List.map_drop] at this
      cases hrec : streamLoop k dk pfx rest excl f db last false
          (((S.map (·.1)).take limit).length - (((S.map (·.1)).take limit).filter (passes pfx rest excl)).length) with
      | none => rw [hrec] at this; simp at this
      | some t =>
        rw [hrec] at this
        simp only [Option.map_some, Option.some.injEq] at this
        simp only [Option.map_some, this]

/-! ### the generic path: `prefixFilterEntries` (as fixed) over a live directory -/

theorem ltB_nil_right (s : Bytes) : ltB s [] = false := by cases s <;> rfl

theorem storeList_noprefix (nameOf : Bytes → Bytes) (dk : Bytes) (db : Db) (s : Bytes) (i : Bool) (limit : Nat) (hs : SortedDb db)
    (hwf : ∀ e ∈ db, isPrefix dk e.key = true → e.key = dk ++ nameOf e.key) :
    storeList nameOf dk db s i limit [] = (selected nameOf dk db s i []).take limit :=
  storeList_exact nameOf dk db s i limit [] hs hwf (Or.inr (ltB_nil_right s))

theorem selected_filter_prefix (nameOf : Bytes → Bytes) (dk : Bytes) (db : Db) (s : Bytes) (i : Bool) (pfx : Bytes) :
    (selected nameOf dk db s i []).filter (fun p => isPrefix pfx p.1) = selected nameOf dk db s i pfx := by
  unfold selected
  rw [List.filter_filter]
  apply List.filter_congr
  intro x _
  simp only [sel, isPrefix]
  cases decide (x.1 ≠ []) <;> cases isPrefix pfx x.1 <;> cases afterStart s i x.1 <;> rfl

theorem prefixFilterLoop_live (nameOf : Bytes → Bytes) (dk pfx : Bytes) (limit : Nat) (db : Db) (hs : SortedDb db)
    (hwf : ∀ e ∈ db, isPrefix dk e.key = true → e.key = dk ++ nameOf e.key)
    (hlive : ∀ p ∈ children nameOf dk db, p.2 = false) :
    ∀ (fuel : Nat) (s : Bytes) (i : Bool) (need : Nat) (last : Bytes), (selected nameOf dk db s i []).length < fuel →
      (0 < limit ∨ need = 0) →
      ∃ last', prefixFilterLoop nameOf dk pfx limit fuel db ((selected nameOf dk db s i []).take limit) need last =
          (((selected nameOf dk db s i []).filter fun p => isPrefix pfx p.1).take need, last', db) ∧
        ((selected nameOf dk db last false [] = selected nameOf dk db s i [] ∨
            ((selected nameOf dk db s i []).filter fun p => isPrefix pfx p.1).take need ≠ []) →
          selected nameOf dk db last' false pfx = ((selected nameOf dk db s i []).filter fun p => isPrefix pfx p.1).drop need) := by
  intro fuel
  induction fuel with
  | zero => intro _ _ _ _ h; omega
  | succ f ih =>
    intro s i need last hlen hlim
    generalize hR : selected nameOf dk db s i [] = R at hlen ⊢
    unfold prefixFilterLoop
    by_cases hbase : need = 0 ∨ R.take limit = []
    · rw [if_pos hbase]
      have hRn : need = 0 ∨ R = [] := by
        rcases hbase with h | h
        · exact Or.inl h
        · rcases hlim with h' | h'
          · right
            cases R with
            | nil => rfl
            | cons a t =>
              obtain ⟨m, hm⟩ : ∃ m, limit = m + 1 := ⟨limit - 1, by omega⟩
              rw [hm] at h; simp at h
          · exact Or.inl h'
      have hnil : (R.filter fun p => isPrefix pfx p.1).take need = [] := by
        rcases hRn with h | h
        · rw [h]; rfl
        · rw [h]; simp
      refine ⟨last, by rw [hnil], ?_⟩
      intro hinv
      rcases hinv with hinv | hinv
      · rw [← selected_filter_prefix, hinv]
        rcases hRn with h | h
        · rw [h]; rfl
        · rw [h]; simp
      · exact absurd hnil hinv
    · rw [if_neg hbase]
      have hneed : 0 < need := by
        have : ¬ need = 0 := fun h => hbase (Or.inl h)
        omega
      have hpne : R.take limit ≠ [] := fun h => hbase (Or.inr h)
      have hlim' : 0 < limit := by
        cases limit with
        | zero => simp at hpne
        | succ _ => omega
      -- no expired entries: nothing is deleted
      have hdel : delExpired dk (((R.take limit).filter fun p => isPrefix pfx p.1).take need) db = db := by
        apply delExpired_live
        intro p hp
        have h1 : p ∈ R := List.mem_of_mem_take (List.mem_filter.1 (List.mem_of_mem_take hp)).1
        rw [← hR] at h1
        exact hlive p (List.mem_filter.1 h1).1
      simp only [hdel]
      have hsplit : R.filter (fun p => isPrefix pfx p.1) =
          (R.take limit).filter (fun p => isPrefix pfx p.1) ++ (R.drop limit).filter (fun p => isPrefix pfx p.1) := by
        rw [← List.filter_append, List.take_append_drop]
      generalize hA : (R.take limit).filter (fun p => isPrefix pfx p.1) = A at hsplit ⊢
      by_cases hshort : (A.take need).length < need
      · rw [if_pos hshort]
        have hAl : A.length < need := by
          rw [List.length_take] at hshort; omega
        have hAt : A.take need = A := List.take_of_length_le (by omega)
        -- refill after the page's last name
        obtain ⟨l, hl⟩ := getLast?_of_ne_nil _ hpne
        have hlast1 : lastName (R.take limit) = l.1 := lastName_eq _ _ hl
        have hnext : selected nameOf dk db l.1 false [] = R.drop limit := by
          rw [← hR]; exact selected_after nameOf dk db s i [] limit l hs hwf (by rw [hR]; exact hl)
        have hRne : R ≠ [] := by intro h; rw [h] at hpne; simp at hpne
        have hdl : (selected nameOf dk db l.1 false []).length < f := by
          rw [hnext, List.length_drop]
          have : 0 < R.length := List.length_pos_iff.mpr hRne
          omega
        rw [hlast1, storeList_noprefix nameOf dk db l.1 false limit hs hwf]
        obtain ⟨last', heq, hres⟩ := ih l.1 false (need - (A.take need).length) l.1 hdl (Or.inl hlim')
        rw [heq]
        simp only
        rw [hnext] at hres ⊢
        refine ⟨last', ?_, ?_⟩
        · rw [hsplit, List.take_append, hAt]
        · intro _
          rw [hsplit, List.drop_append, List.drop_of_length_le (by omega), List.nil_append]
          rw [hAt] at hres
          exact hres (Or.inl rfl)
      · rw [if_neg hshort]
        have hAl : need ≤ A.length := by
          rw [List.length_take] at hshort; omega
        have htake : (R.filter fun p => isPrefix pfx p.1).take need = A.take need := by
          rw [hsplit, List.take_append_of_le_length hAl]
        refine ⟨lastName (A.take need), by rw [htake], ?_⟩
        intro _
        have hne : A.take need ≠ [] := by
          intro h
          have : (A.take need).length = 0 := by rw [h]; rfl
          rw [List.length_take] at this; omega
        obtain ⟨l, hl⟩ := getLast?_of_ne_nil _ hne
        rw [lastName_eq _ _ hl, ← hR, selected_filter_prefix]
        apply selected_after nameOf dk db s i pfx need l hs hwf
        rw [← selected_filter_prefix, hR, htake]; exact hl

/-- the generic path (stores answering `ErrUnsupportedListDirectoryPrefixed`) is a correct
    `doListDirectoryEntries` too, for every start name -/
theorem dirListLive_generic (k : Kind) (dk pfx : Bytes) (db : Db) (hgen : k.native = false) (hpfx : pfx ≠ []) (hs : SortedDb db)
    (hwf : ∀ e ∈ db, isPrefix dk e.key = true → e.key = dk ++ k.nameOf e.key)
    (hlive : ∀ p ∈ children k.nameOf dk db, p.2 = false) :
    DirListLive k dk pfx db (fun _ => True) := by
  intro start incl limit _
  unfold dirList
  have hcond : ¬ (k.native = true ∨ pfx = []) := by
    intro h; rcases h with h | h
    · rw [hgen] at h; cases h
    · exact hpfx h
  rw [if_neg hcond]
  simp only
  rw [storeList_noprefix k.nameOf dk db start incl limit hs hwf]
  have hlen : (selected k.nameOf dk db start incl []).length < db.length + 2 := by
    have h1 : (selected k.nameOf dk db start incl []).length ≤ db.length := by
      unfold selected children
      refine Nat.le_trans (List.length_filter_le _ _) ?_
      rw [List.length_map]
      exact List.length_filter_le _ _
    omega
  have hlim : 0 < limit ∨ limit = 0 := by omega
  obtain ⟨last', heq, hres⟩ := prefixFilterLoop_live k.nameOf dk pfx limit db hs hwf hlive (db.length + 2) start incl limit
    (lastName ((selected k.nameOf dk db start incl []).take limit)) hlen hlim
  rw [selected_filter_prefix] at heq hres
  refine ⟨last', heq, ?_⟩
  intro hne
  exact ⟨hres (Or.inr hne), trivial⟩

end SwV.Lemmas.C19
