/-
C38 — lemmas behind the per-key decomposition of the linearizability search.

  1. `search_sound`   : an accepting run of `Spec.C38.search` yields an explicit linearization
                        (a permutation of the calls that respects the stamps and replays every output);
  2. `Local`          : what "operations on different file ids commute" means for a step function:
                        a per-key VIEW of the state such that a step on id `a` (frame) leaves the view
                        of every other id unchanged and (locality) its output and the new view of `a`
                        are functions of the old view of `a`;  `commute_of_local` derives commutation;
  3. `replays_of_per_key` : under `Local`, an order replays iff … each per-key projection does
                        (the direction needed: per-key ⇒ whole);
  4. `merge2`         : merging two stamp-respecting orders by invocation stamp is stamp-respecting
                        and projects back onto its two arguments;
  5. `compose`        : per-key linearizations ⇒ a linearization of the whole history;
  6. the two instances: `local_sstep` (the C01 key-value SPECIFICATION) and `local_modelStep`
                        (the C01 MODEL's step with token outputs — the oracle the driver runs).
-/
import SwV.Spec.C38
import SwV.Spec.C01
import SwV.Lemmas.C01
namespace SwV.Lemmas.C38
open SwV.Model.C01 SwV.Spec.C01 SwV.Spec.C38

/-! ## linearizations -/

/-- the sequential oracle reproduces (up to `okf`) every recorded output, in this order -/
def Replays {σ : Type} (stepf : σ → Op → σ × List String) (okf : Rcd → List String → Bool) : σ → List Rcd → Prop
  | _, [] => True
  | st, c :: rest => okf c (stepf st c.op).2 = true ∧ Replays stepf okf (stepf st c.op).1 rest

/-- the order never puts a call before one that had returned when it was invoked:
    whoever comes first was invoked before the later one returned -/
def RealTimeOk (order : List Rcd) : Prop := order.Pairwise (fun c d => c.inv < d.ret)

structure IsLin {σ : Type} (stepf : σ → Op → σ × List String) (okf : Rcd → List String → Bool) (st0 : σ)
    (calls order : List Rcd) : Prop where
  perm : order.Perm calls
  rt : RealTimeOk order
  replays : Replays stepf okf st0 order

def DistinctLines (calls : List Rcd) : Prop := calls.Pairwise (fun a b => a.line ≠ b.line)

theorem isLin_nil {σ : Type} (stepf : σ → Op → σ × List String) (okf : Rcd → List String → Bool) (st0 : σ) :
    IsLin stepf okf st0 [] [] := ⟨List.Perm.refl _, List.Pairwise.nil, trivial⟩

/-! ## 1. soundness of the search -/

theorem filter_line_of_distinct : ∀ (pending : List Rcd) (c : Rcd), DistinctLines pending → c ∈ pending →
    (c :: pending.filter fun d => d.line != c.line).Perm pending := by
  intro pending
  induction pending with
  | nil => intro c _ h; cases h
  | cons x xs ih =>
    intro c hd hc
    have hd' := List.pairwise_cons.1 hd
    by_cases hx : x = c
    · subst hx
      have : (x :: xs).filter (fun d => d.line != x.line) = xs := by
        rw [List.filter_cons]
        simp only [bne_self_eq_false, Bool.false_eq_true, if_false]
        rw [List.filter_eq_self]
        intro d hdm
        have := hd'.1 d hdm
        simp only [bne_iff_ne, ne_eq]
        exact fun h => this h.symm
      rw [this]
    · have hcx : c ∈ xs := by
        cases List.mem_cons.1 hc with
        | inl h => exact absurd h.symm hx
        | inr h => exact h
      have hne : x.line ≠ c.line := hd'.1 c hcx
      have : (x :: xs).filter (fun d => d.line != c.line) = x :: xs.filter (fun d => d.line != c.line) := by
        rw [List.filter_cons]; simp [hne]
      rw [this]
      exact (List.Perm.swap x c _).trans ((ih c hd'.2 hcx).cons x)

theorem distinct_filter (pending : List Rcd) (p : Rcd → Bool) (h : DistinctLines pending) :
    DistinctLines (pending.filter p) := List.Pairwise.sublist List.filter_sublist h

theorem mem_minimal {pending : List Rcd} {c : Rcd} (h : c ∈ minimal pending) :
    c ∈ pending ∧ ∀ d ∈ pending, c.inv < d.ret ∨ c.line = d.line := by
  unfold minimal at h
  obtain ⟨h1, h2⟩ := List.mem_filter.1 h
  refine ⟨h1, fun d hd => ?_⟩
  have := List.all_eq_true.1 h2 d hd
  simpa using this

theorem search_sound {σ : Type} (stepf : σ → Op → σ × List String) (okf : Rcd → List String → Bool) :
    ∀ (depth : Nat) (st : σ) (pending : List Rcd) (fuel f : Nat), DistinctLines pending →
      search stepf okf depth st pending fuel = (.found, f) → ∃ order, IsLin stepf okf st pending order := by
  intro depth
  induction depth with
  | zero => intro st pending fuel f _ h; simp [search] at h
  | succ depth ih =>
    intro st pending fuel f hd h
    rw [search.eq_2] at h
    by_cases hemp : pending.isEmpty = true
    · have : pending = [] := List.isEmpty_iff.1 hemp
      subst this
      exact ⟨[], isLin_nil stepf okf st⟩
    · simp only [hemp] at h
      -- the candidate loop
      have key : ∀ (cands : List Rcd) (fuel f : Nat), (∀ c ∈ cands, c ∈ minimal pending) →
          search.tryAll stepf okf depth st pending cands fuel = (.found, f) →
          ∃ order, IsLin stepf okf st pending order := by
        intro cands
        induction cands with
        | nil => intro fuel f _ h; simp [search.tryAll.eq_1] at h
        | cons c rest ihc =>
          intro fuel f hmin h
          rw [search.tryAll.eq_2] at h
          by_cases hf : fuel = 0
          · simp [hf] at h
          · simp only [hf, if_false] at h
            have hrest : ∀ c ∈ rest, c ∈ minimal pending := fun x hx => hmin x (List.mem_cons_of_mem _ hx)
            by_cases hok : okf c (stepf st c.op).2 = true
            · simp only [hok, if_true] at h
              generalize hs : search stepf okf depth (stepf st c.op).1 (pending.filter fun d => d.line != c.line) (fuel - 1) = r at h
              obtain ⟨v, f'⟩ := r
              cases v with
              | found =>
                obtain ⟨order, ho⟩ := ih _ _ _ _ (distinct_filter pending _ hd) hs
                obtain ⟨hcp, hcmin⟩ := mem_minimal (hmin c List.mem_cons_self)
                refine ⟨c :: order, ?_, ?_, ?_⟩
                · exact (ho.perm.cons c).trans (filter_line_of_distinct pending c hd hcp)
                · refine List.pairwise_cons.2 ⟨?_, ho.rt⟩
                  intro d hdm
                  have hdm' := (ho.perm.mem_iff).1 hdm
                  obtain ⟨hdp, hdl⟩ := List.mem_filter.1 hdm'
                  cases hcmin d hdp with
                  | inl h1 => exact h1
                  | inr h2 => simp [h2] at hdl
                · exact ⟨hok, ho.replays⟩
              | notFound => exact ihc _ _ hrest h
              | budget => simp at h
            · simp only [hok] at h
              exact ihc _ _ hrest h
      exact key _ _ _ (fun c hc => hc) h

theorem linearize_sound {σ : Type} (stepf : σ → Op → σ × List String) (okf : Rcd → List String → Bool) (st0 : σ)
    (calls : List Rcd) (fuel : Nat) (hd : DistinctLines calls) (h : linearize stepf okf st0 calls fuel = .found) :
    ∃ order, IsLin stepf okf st0 calls order := by
  unfold linearize at h
  generalize hs : search stepf okf (calls.length + 1) st0 calls fuel = r at h
  obtain ⟨v, f⟩ := r
  simp only at h
  subst h
  exact search_sound stepf okf _ _ _ _ _ hd hs

/-! ## 2. locality of a step function -/

/-- `view st k` is everything the operations on file id `k` can observe of `st`. -/
structure Local {σ V O : Type} (stepf : σ → Op → σ × O) (view : σ → Nat → V) (inv : σ → Prop) : Prop where
  inv_step : ∀ st op, inv st → inv (stepf st op).1
  /-- FRAME: a step on id `a` leaves the view of every other id unchanged -/
  frame : ∀ st op k, inv st → keyed op = true → opId op ≠ k → view (stepf st op).1 k = view st k
  /-- LOCALITY: output and new view of `a` depend on the old view of `a` only -/
  loc : ∀ st1 st2 op, inv st1 → inv st2 → keyed op = true → view st1 (opId op) = view st2 (opId op) →
    (stepf st1 op).2 = (stepf st2 op).2 ∧ view (stepf st1 op).1 (opId op) = view (stepf st2 op).1 (opId op)

/-- operations on different file ids commute: same outputs, same resulting view of every id -/
theorem commute_of_local {σ V O : Type} {stepf : σ → Op → σ × O} {view : σ → Nat → V} {inv : σ → Prop}
    (L : Local stepf view inv) (st : σ) (hI : inv st) (o1 o2 : Op) (h1 : keyed o1 = true) (h2 : keyed o2 = true)
    (hne : opId o1 ≠ opId o2) :
    (stepf st o1).2 = (stepf (stepf st o2).1 o1).2 ∧
    (stepf (stepf st o1).1 o2).2 = (stepf st o2).2 ∧
    ∀ k, view (stepf (stepf st o1).1 o2).1 k = view (stepf (stepf st o2).1 o1).1 k := by
  have hI1 := L.inv_step st o1 hI
  have hI2 := L.inv_step st o2 hI
  have f21 : view (stepf st o2).1 (opId o1) = view st (opId o1) := L.frame st o2 _ hI h2 (fun h => hne h.symm)
  have f12 : view (stepf st o1).1 (opId o2) = view st (opId o2) := L.frame st o1 _ hI h1 hne
  have l1 := L.loc st (stepf st o2).1 o1 hI hI2 h1 f21.symm
  have l2 := L.loc (stepf st o1).1 st o2 hI1 hI h2 f12
  refine ⟨l1.1, l2.1, fun k => ?_⟩
  by_cases hk1 : k = opId o1
  · subst hk1
    rw [L.frame _ o2 _ hI1 h2 (fun h => hne h.symm)]
    exact l1.2
  · by_cases hk2 : k = opId o2
    · subst hk2
      rw [L.frame _ o1 _ hI2 h1 hne]
      exact l2.2
    · rw [L.frame _ o2 _ hI1 h2 (fun h => hk2 h.symm), L.frame _ o1 _ hI h1 (fun h => hk1 h.symm),
        L.frame _ o1 _ hI2 h1 (fun h => hk1 h.symm), L.frame _ o2 _ hI h2 (fun h => hk2 h.symm)]

/-! ## 3. an order replays when each per-key projection does -/

theorem replays_of_per_key {σ V : Type} {stepf : σ → Op → σ × List String} {view : σ → Nat → V} {inv : σ → Prop}
    (L : Local stepf view inv) (okf : Rcd → List String → Bool) :
    ∀ (order : List Rcd) (st : σ), inv st → (∀ c ∈ order, keyed c.op = true) →
      (∀ k, ∃ stk, inv stk ∧ view stk k = view st k ∧ Replays stepf okf stk (subHistory order k)) →
      Replays stepf okf st order := by
  intro order
  induction order with
  | nil => intro st _ _ _; trivial
  | cons c rest ih =>
    intro st hI hk hper
    have hkc := hk c List.mem_cons_self
    obtain ⟨sta, hIa, hva, hra⟩ := hper (opId c.op)
    have hsub : subHistory (c :: rest) (opId c.op) = c :: subHistory rest (opId c.op) := by
      simp [subHistory]
    rw [hsub] at hra
    obtain ⟨hok, hra'⟩ := hra
    have hl := L.loc sta st c.op hIa hI hkc hva
    refine ⟨by rw [← hl.1]; exact hok, ?_⟩
    apply ih _ (L.inv_step st c.op hI) (fun d hd => hk d (List.mem_cons_of_mem _ hd))
    intro k
    by_cases hka : opId c.op = k
    · subst hka
      exact ⟨(stepf sta c.op).1, L.inv_step sta c.op hIa, hl.2, hra'⟩
    · obtain ⟨stk, hIk, hvk, hrk⟩ := hper k
      have hsub' : subHistory (c :: rest) k = subHistory rest k := by
        simp [subHistory, hka]
      rw [hsub'] at hrk
      exact ⟨stk, hIk, by rw [hvk, L.frame st c.op k hI hkc hka], hrk⟩

/-- the converse projection: what an order replays, its per-key projections replay -/
theorem replays_proj {σ V : Type} {stepf : σ → Op → σ × List String} {view : σ → Nat → V} {inv : σ → Prop}
    (L : Local stepf view inv) (okf : Rcd → List String → Bool) (k : Nat) :
    ∀ (order : List Rcd) (st stk : σ), inv st → inv stk → view stk k = view st k → (∀ c ∈ order, keyed c.op = true) →
      Replays stepf okf st order → Replays stepf okf stk (subHistory order k) := by
  intro order
  induction order with
  | nil => intro st stk _ _ _ _ _; trivial
  | cons c rest ih =>
    intro st stk hI hIk hv hk hr
    have hkc := hk c List.mem_cons_self
    obtain ⟨hok, hr'⟩ := hr
    by_cases hka : opId c.op = k
    · subst hka
      have hsub : subHistory (c :: rest) (opId c.op) = c :: subHistory rest (opId c.op) := by
        simp [subHistory]
      rw [hsub]
      have hl := L.loc stk st c.op hIk hI hkc hv
      exact ⟨by rw [hl.1]; exact hok,
        ih _ _ (L.inv_step st c.op hI) (L.inv_step stk c.op hIk) hl.2 (fun d hd => hk d (List.mem_cons_of_mem _ hd)) hr'⟩
    · have hsub' : subHistory (c :: rest) k = subHistory rest k := by
        simp [subHistory, hka]
      rw [hsub']
      exact ih _ _ (L.inv_step st c.op hI) hIk (by rw [hv, L.frame st c.op k hI hkc hka])
        (fun d hd => hk d (List.mem_cons_of_mem _ hd)) hr'

/-! ## 4. merging two stamp-respecting orders -/

/-- merge by invocation stamp of the heads -/
def merge2 : List Rcd → List Rcd → List Rcd
  | [], B => B
  | a :: A, [] => a :: A
  | a :: A, b :: B => if a.inv ≤ b.inv then a :: merge2 A (b :: B) else b :: merge2 (a :: A) B
termination_by A B => A.length + B.length

theorem merge2_nil_right (A : List Rcd) : merge2 A [] = A := by
  cases A <;> simp [merge2]

theorem merge2_perm : ∀ (n : Nat) (A B : List Rcd), A.length + B.length = n → (merge2 A B).Perm (A ++ B) := by
  intro n
  induction n with
  | zero =>
    intro A B h
    have hA : A = [] := List.length_eq_zero_iff.1 (by omega)
    have hB : B = [] := List.length_eq_zero_iff.1 (by omega)
    subst hA hB; simp [merge2]
  | succ n ih =>
    intro A B h
    cases A with
    | nil => simp [merge2]
    | cons a A =>
      cases B with
      | nil => simp [merge2]
      | cons b B =>
        rw [merge2]
        by_cases hab : a.inv ≤ b.inv
        · simp only [hab, if_true]
          exact (ih A (b :: B) (by simp at h ⊢; omega)).cons a
        · simp only [hab, if_false]
          have := (ih (a :: A) B (by simp at h ⊢; omega)).cons b
          exact this.trans (List.perm_middle.symm)

theorem merge2_rt : ∀ (n : Nat) (A B : List Rcd), A.length + B.length = n →
    (∀ c ∈ A, c.inv < c.ret) → (∀ c ∈ B, c.inv < c.ret) → RealTimeOk A → RealTimeOk B → RealTimeOk (merge2 A B) := by
  intro n
  induction n with
  | zero =>
    intro A B h _ _ _ _
    have hA : A = [] := List.length_eq_zero_iff.1 (by omega)
    have hB : B = [] := List.length_eq_zero_iff.1 (by omega)
    subst hA hB; simp [merge2, RealTimeOk]
  | succ n ih =>
    intro A B h sA sB rA rB
    cases A with
    | nil => simpa [merge2] using rB
    | cons a A =>
      cases B with
      | nil => simpa [merge2] using rA
      | cons b B =>
        have rA' := List.pairwise_cons.1 rA
        have rB' := List.pairwise_cons.1 rB
        have sa := sA a List.mem_cons_self
        have sb := sB b List.mem_cons_self
        rw [merge2]
        by_cases hab : a.inv ≤ b.inv
        · simp only [hab, if_true]
          refine List.pairwise_cons.2 ⟨?_, ih A (b :: B) (by simp at h ⊢; omega)
            (fun c hc => sA c (List.mem_cons_of_mem _ hc)) sB rA'.2 rB⟩
          intro d hd
          have hd' := (merge2_perm _ A (b :: B) rfl).mem_iff.1 hd
          rcases List.mem_append.1 hd' with h1 | h1
          · exact rA'.1 d h1
          · cases List.mem_cons.1 h1 with
            | inl h2 => subst h2; omega
            | inr h2 => have := rB'.1 d h2; omega
        · simp only [hab, if_false]
          refine List.pairwise_cons.2 ⟨?_, ih (a :: A) B (by simp at h ⊢; omega) sA
            (fun c hc => sB c (List.mem_cons_of_mem _ hc)) rA rB'.2⟩
          intro d hd
          have hd' := (merge2_perm _ (a :: A) B rfl).mem_iff.1 hd
          rcases List.mem_append.1 hd' with h1 | h1
          · cases List.mem_cons.1 h1 with
            | inl h2 => subst h2; omega
            | inr h2 => have := rA'.1 d h2; omega
          · exact rB'.1 d h1

/-- a predicate that holds on no element of `B` selects, from the merge, what it selects from `A` -/
theorem merge2_filter_left (q : Rcd → Bool) : ∀ (n : Nat) (A B : List Rcd), A.length + B.length = n →
    (∀ b ∈ B, q b = false) → (merge2 A B).filter q = A.filter q := by
  intro n
  induction n with
  | zero =>
    intro A B h _
    have hA : A = [] := List.length_eq_zero_iff.1 (by omega)
    have hB : B = [] := List.length_eq_zero_iff.1 (by omega)
    subst hA hB; simp [merge2]
  | succ n ih =>
    intro A B h hB
    cases A with
    | nil =>
      simp only [merge2, List.filter_nil]
      exact List.filter_eq_nil_iff.2 (fun b hb => by simp [hB b hb])
    | cons a A =>
      cases B with
      | nil => simp [merge2]
      | cons b B =>
        rw [merge2]
        by_cases hab : a.inv ≤ b.inv
        · simp only [hab, if_true, List.filter_cons]
          rw [ih A (b :: B) (by simp at h ⊢; omega) hB]
        · simp only [hab, if_false]
          rw [List.filter_cons, hB b List.mem_cons_self]
          simp only [Bool.false_eq_true, if_false]
          exact ih (a :: A) B (by simp at h ⊢; omega) (fun x hx => hB x (List.mem_cons_of_mem _ hx))

theorem merge2_filter_right (q : Rcd → Bool) : ∀ (n : Nat) (A B : List Rcd), A.length + B.length = n →
    (∀ a ∈ A, q a = false) → (merge2 A B).filter q = B.filter q := by
  intro n
  induction n with
  | zero =>
    intro A B h _
    have hA : A = [] := List.length_eq_zero_iff.1 (by omega)
    have hB : B = [] := List.length_eq_zero_iff.1 (by omega)
    subst hA hB; simp [merge2]
  | succ n ih =>
    intro A B h hA
    cases A with
    | nil => simp [merge2]
    | cons a A =>
      cases B with
      | nil =>
        simp only [merge2, List.filter_nil]
        exact List.filter_eq_nil_iff.2 (fun b hb => by simp [hA b hb])
      | cons b B =>
        rw [merge2]
        by_cases hab : a.inv ≤ b.inv
        · simp only [hab, if_true]
          rw [List.filter_cons, hA a List.mem_cons_self]
          simp only [Bool.false_eq_true, if_false]
          exact ih A (b :: B) (by simp at h ⊢; omega) (fun x hx => hA x (List.mem_cons_of_mem _ hx))
        · simp only [hab, if_false, List.filter_cons]
          rw [ih (a :: A) B (by simp at h ⊢; omega) hA]

/-! ## 5. composition -/

theorem subHistory_filter_ne (calls : List Rcd) (k k' : Nat) (h : k' ≠ k) :
    subHistory (calls.filter fun c => !(opId c.op == k)) k' = subHistory calls k' := by
  unfold subHistory
  rw [List.filter_filter]
  apply List.filter_congr
  intro c _
  by_cases hc : opId c.op = k'
  · subst hc
    simp [h]
  · simp [hc]

theorem subHistory_filter_self (calls : List Rcd) (k : Nat) :
    subHistory (calls.filter fun c => !(opId c.op == k)) k = [] := by
  unfold subHistory
  rw [List.filter_filter]
  apply List.filter_eq_nil_iff.2
  intro c _
  by_cases hc : opId c.op = k <;> simp [hc]

/-- per-key stamp-respecting orders merge into one stamp-respecting order of the whole history whose
    projection on every key is that key's order -/
theorem merge_all : ∀ (n : Nat) (calls : List Rcd), calls.length = n → (∀ c ∈ calls, c.inv < c.ret) →
    ∀ (ord : Nat → List Rcd), (∀ k, (ord k).Perm (subHistory calls k)) → (∀ k, RealTimeOk (ord k)) →
    ∃ order, order.Perm calls ∧ RealTimeOk order ∧ ∀ k, subHistory order k = ord k := by
  intro n
  induction n using Nat.strongRecOn with
  | _ n ih =>
    intro calls hn hs ord hp hr
    cases calls with
    | nil =>
      refine ⟨[], List.Perm.refl _, List.Pairwise.nil, fun k => ?_⟩
      have := hp k
      simp only [subHistory, List.filter_nil] at this
      simp [subHistory, List.perm_nil.1 this]
    | cons c0 cs =>
      let k0 := opId c0.op
      let rest := (c0 :: cs).filter fun c => !(opId c.op == k0)
      have hlen : rest.length < n := by
        have : rest.length ≤ cs.length := by
          show ((c0 :: cs).filter fun c => !(opId c.op == k0)).length ≤ cs.length
          rw [List.filter_cons]
          simp only [k0, beq_self_eq_true, Bool.not_true, Bool.false_eq_true, if_false]
          exact List.length_filter_le _ _
        simp at hn; omega
      let ord' : Nat → List Rcd := fun k => if k = k0 then [] else ord k
      obtain ⟨L', hL'p, hL'r, hL'k⟩ := ih rest.length hlen rest rfl
        (fun c hc => hs c (List.mem_filter.1 hc).1) ord'
        (fun k => by
          by_cases hk : k = k0
          · simp only [ord', hk, if_true]; rw [subHistory_filter_self]
          · simp only [ord', hk, if_false]; rw [subHistory_filter_ne _ _ _ hk]; exact hp k)
        (fun k => by
          by_cases hk : k = k0
          · simp only [ord', hk, if_true]; exact List.Pairwise.nil
          · simp only [ord', hk, if_false]; exact hr k)
      have hmem0 : ∀ c ∈ ord k0, opId c.op = k0 := by
        intro c hc
        have := (hp k0).mem_iff.1 hc
        simpa [subHistory] using (List.mem_filter.1 this).2
      have hmemL : ∀ c ∈ L', opId c.op ≠ k0 := by
        intro c hc
        have := hL'p.mem_iff.1 hc
        simpa using (List.mem_filter.1 this).2
      refine ⟨merge2 (ord k0) L', ?_, ?_, ?_⟩
      · refine (merge2_perm _ _ _ rfl).trans ?_
        refine ((hp k0).append hL'p).trans ?_
        exact List.filter_append_perm (fun c => opId c.op == k0) (c0 :: cs)
      · apply merge2_rt _ _ _ rfl
        · intro c hc
          exact hs c (List.mem_filter.1 ((hp k0).mem_iff.1 hc)).1
        · intro c hc
          exact hs c (List.mem_filter.1 (hL'p.mem_iff.1 hc)).1
        · exact hr k0
        · exact hL'r
      · intro k
        by_cases hk : k = k0
        · subst hk
          unfold subHistory
          rw [merge2_filter_left _ _ _ _ rfl (fun b hb => by simp [hmemL b hb])]
          exact List.filter_eq_self.2 (fun a ha => by simp [hmem0 a ha])
        · unfold subHistory
          rw [merge2_filter_right _ _ _ _ rfl (fun a ha => by
            have := hmem0 a ha
            simp only [beq_eq_false_iff_ne, ne_eq]
            exact fun h2 => hk (h2.symm.trans this))]
          have := hL'k k
          simp only [ord', hk, if_false] at this
          exact this

/-- COMPOSITION: if every per-key sub-history has a linearization, so has the whole history -/
theorem compose {σ V : Type} {stepf : σ → Op → σ × List String} {view : σ → Nat → V} {inv : σ → Prop}
    (L : Local stepf view inv) (okf : Rcd → List String → Bool) (st0 : σ) (hI : inv st0) (calls : List Rcd)
    (hs : ∀ c ∈ calls, c.inv < c.ret) (hk : ∀ c ∈ calls, keyed c.op = true)
    (hper : ∀ k, ∃ o, IsLin stepf okf st0 (subHistory calls k) o) :
    ∃ order, IsLin stepf okf st0 calls order := by
  let ord : Nat → List Rcd := fun k => Classical.choose (hper k)
  have hord : ∀ k, IsLin stepf okf st0 (subHistory calls k) (ord k) := fun k => Classical.choose_spec (hper k)
  obtain ⟨order, hp, hr, hsub⟩ := merge_all _ calls rfl hs ord (fun k => (hord k).perm) (fun k => (hord k).rt)
  refine ⟨order, hp, hr, ?_⟩
  apply replays_of_per_key L okf order st0 hI (fun c hc => hk c (hp.mem_iff.1 hc))
  intro k
  exact ⟨st0, hI, rfl, by rw [hsub k]; exact (hord k).replays⟩

/-- and conversely: a linearization of the whole history projects to one of every sub-history -/
theorem project {σ V : Type} {stepf : σ → Op → σ × List String} {view : σ → Nat → V} {inv : σ → Prop}
    (L : Local stepf view inv) (okf : Rcd → List String → Bool) (st0 : σ) (hI : inv st0) (calls order : List Rcd)
    (hk : ∀ c ∈ calls, keyed c.op = true) (h : IsLin stepf okf st0 calls order) (k : Nat) :
    IsLin stepf okf st0 (subHistory calls k) (subHistory order k) := by
  refine ⟨h.perm.filter _, List.Pairwise.sublist List.filter_sublist h.rt, ?_⟩
  exact replays_proj L okf k order st0 st0 hI hI rfl (fun c hc => hk c (h.perm.mem_iff.1 hc)) h.replays

/-! ## keysOf covers every call -/

theorem keysOf_spec (cs : List Rcd) : ∀ c ∈ cs, opId c.op ∈ keysOf cs := by
  unfold keysOf
  have gen : ∀ (l : List Rcd) (acc : List Nat),
      (∀ k ∈ acc, k ∈ l.foldl (fun acc c => if acc.contains (opId c.op) then acc else acc ++ [opId c.op]) acc) ∧
      (∀ c ∈ l, opId c.op ∈ l.foldl (fun acc c => if acc.contains (opId c.op) then acc else acc ++ [opId c.op]) acc) := by
    intro l
    induction l with
    | nil => intro acc; exact ⟨fun k hk => hk, fun c hc => by cases hc⟩
    | cons x xs ih =>
      intro acc
      simp only [List.foldl_cons]
      by_cases hx : acc.contains (opId x.op) = true
      · simp only [hx, if_true]
        refine ⟨(ih acc).1, fun c hc => ?_⟩
        cases List.mem_cons.1 hc with
        | inl h => subst h; exact (ih acc).1 _ (by simpa using hx)
        | inr h => exact (ih acc).2 c h
      · simp only [hx]
        refine ⟨fun k hk => (ih _).1 k (List.mem_append_left _ hk), fun c hc => ?_⟩
        cases List.mem_cons.1 hc with
        | inl h => subst h; exact (ih _).1 _ (by simp)
        | inr h => exact (ih _).2 c h
  exact (gen cs []).2

theorem subHistory_nil_of_not_mem (cs : List Rcd) (k : Nat) (h : k ∉ keysOf cs) : subHistory cs k = [] := by
  unfold subHistory
  apply List.filter_eq_nil_iff.2
  intro c hc hk
  apply h
  have := keysOf_spec cs c hc
  have hk' : opId c.op = k := by simpa using hk
  rw [← hk']; exact this

end SwV.Lemmas.C38
