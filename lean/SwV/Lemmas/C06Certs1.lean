/- C06 — kernel check of the decoding-matrix certificates, part 1 (see SwV/Lemmas/C06Certs.lean) -/
import SwV.Model.C06RS
namespace SwV.Lemmas.C06
open SwV.Model.C06
set_option maxRecDepth 100000

theorem certs_chunk_5 : ((certTable.drop (50 * 5)).take 50).all certOk = true := by decide +kernel
theorem certs_chunk_6 : ((certTable.drop (50 * 6)).take 50).all certOk = true := by decide +kernel
theorem certs_chunk_7 : ((certTable.drop (50 * 7)).take 50).all certOk = true := by decide +kernel
theorem certs_chunk_8 : ((certTable.drop (50 * 8)).take 50).all certOk = true := by decide +kernel
theorem certs_chunk_9 : ((certTable.drop (50 * 9)).take 50).all certOk = true := by decide +kernel

end SwV.Lemmas.C06
