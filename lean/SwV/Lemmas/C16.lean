/-
C16 — helper lemmas: exact bitmap bookkeeping of `addEcVolumeShards` / `deleteEcVolumeShards`
(moved here from Props/C16.lean), the number of copies of a shard in the bookkeeping, and how
`moveMountedShardToEcNode` (dry run), a pick of `pickNEcShardsToMoveFrom` and a deduplication step change it.
-/
import SwV.Model.C16
import SwV.Spec.C16
set_option linter.unusedSimpArgs false
namespace SwV.Lemmas.C16
open SwV.Model.C16 SwV.Spec.C16

theorem hasBit_addBit (b i j : Nat) : hasBit (addBit b i) j = (hasBit b j || decide (i = j)) := by
  simp [hasBit, addBit, Nat.testBit_or, Nat.testBit_two_pow]

theorem hasBit_delBit (b i j : Nat) : hasBit (delBit b i) j = (hasBit b j && !decide (i = j)) := by
  unfold hasBit delBit
  by_cases h : b.testBit i = true
  · simp [h, Nat.testBit_xor, Nat.testBit_two_pow]
    by_cases hij : i = j
    · subst hij; simp [h]
    · simp [hij]
  · simp [h]
    by_cases hij : i = j
    · subst hij; simp at h; simp [h]
    · simp [hij]

theorem find_setFirst_same (vid : Nat) (f : Nat → Nat) (l : List (Nat × Nat)) :
    (setFirst vid f l).find? (·.1 == vid) = (l.find? (·.1 == vid)).map fun e => (e.1, f e.2) := by
  induction l with
  | nil => simp [setFirst]
  | cons e rest ih =>
    obtain ⟨v, b⟩ := e
    by_cases h : v = vid
    · subst h; simp [setFirst]
    · have h' : (v == vid) = false := by simp [h]
      simp [setFirst, h', ih]

theorem find_setFirst_other (vid vid' : Nat) (hne : vid' ≠ vid) (f : Nat → Nat) (l : List (Nat × Nat)) :
    (setFirst vid f l).find? (·.1 == vid') = l.find? (·.1 == vid') := by
  induction l with
  | nil => simp [setFirst]
  | cons e rest ih =>
    obtain ⟨v, b⟩ := e
    by_cases h : v = vid
    · subst h
      have h' : (v == vid') = false := by simp; exact fun e => hne e.symm
      simp [setFirst, List.find?, h']
    · have h' : (v == vid) = false := by simp [h]
      simp only [setFirst, h']
      by_cases h2 : (v == vid') = true
      · simp [List.find?, h2]
      · simp [List.find?, h2, ih]

theorem find_none_of_not_any (vid : Nat) (l : List (Nat × Nat)) (h : l.any (·.1 == vid) = false) :
    l.find? (·.1 == vid) = none := by
  induction l with
  | nil => rfl
  | cons e rest ih =>
    simp only [List.any_cons, Bool.or_eq_false_iff] at h
    simp [List.find?, h.1, ih h.2]

/-- `addEcVolumeShards`: the destination's bitmap of the volume gains exactly shard `s`. -/
theorem add_bits_same (n : ENode) (vid s j : Nat) :
    hasBit ((n.add vid s).bits vid) j = (hasBit (n.bits vid) j || decide (s = j)) := by
  unfold ENode.add
  by_cases he : n.hasEntry vid = true
  · have hh : n.hdd = true := by simp [ENode.hasEntry] at he; exact he.1
    simp only [he, if_true]
    simp only [ENode.bits, hh, if_true, find_setFirst_same]
    cases hf : n.shards.find? (·.1 == vid) with
    | none =>
      have hany : n.shards.any (·.1 == vid) = true := by simpa [ENode.hasEntry, hh] using he
      have hs : (n.shards.find? (·.1 == vid)).isSome = true := List.find?_isSome.mpr (List.any_eq_true.mp hany)
      rw [hf] at hs; simp at hs
    | some e => simp [hasBit_addBit]
  · have he' : n.hasEntry vid = false := by simpa using he
    simp only [he', Bool.false_eq_true, if_false]
    by_cases hh : n.hdd = true
    · have hany : n.shards.any (·.1 == vid) = false := by simpa [ENode.hasEntry, hh] using he'
      have hnone := find_none_of_not_any vid n.shards hany
      simp [ENode.bits, hh, List.find?_append, hnone, hasBit, Nat.testBit_two_pow]
    · have hh' : n.hdd = false := by simpa using hh
      simp [ENode.bits, hh', hasBit, Nat.testBit_two_pow]

/-- … and no other volume's bitmap changes. -/
theorem add_bits_other (n : ENode) (vid vid' s : Nat) (hne : vid' ≠ vid) :
    (n.add vid s).bits vid' = n.bits vid' := by
  unfold ENode.add
  have hb : ((vid == vid') = false) := by simp; exact fun e => hne e.symm
  by_cases he : n.hasEntry vid = true
  · have hh : n.hdd = true := by simp [ENode.hasEntry] at he; exact he.1
    simp [he, ENode.bits, hh, find_setFirst_other vid vid' hne]
  · have he' : n.hasEntry vid = false := by simpa using he
    simp only [he', Bool.false_eq_true, if_false]
    by_cases hh : n.hdd = true
    · simp only [ENode.bits, hh, if_true, List.find?_append]
      cases hf : n.shards.find? (·.1 == vid') <;> simp [List.find?, hb]
    · have hh' : n.hdd = false := by simpa using hh
      simp [ENode.bits, hh', List.find?, hb]

theorem find_map_del (vid s : Nat) (l : List (Nat × Nat)) (vid' : Nat) :
    (l.map fun e => if e.1 == vid then (e.1, delBit e.2 s) else e).find? (·.1 == vid')
      = (l.find? (·.1 == vid')).map fun e => if e.1 == vid then (e.1, delBit e.2 s) else e := by
  induction l with
  | nil => rfl
  | cons e rest ih =>
    simp only [List.map_cons, List.find?_cons]
    by_cases h1 : (e.1 == vid) = true
    · simp only [h1, if_true]
      by_cases h2 : (e.1 == vid') = true
      · have h1p : e.1 = vid := by simpa using h1
        simp [h2, h1]
        intro h; exact absurd h1p h
      · have h2' : (e.1 == vid') = false := by simpa using h2
        simp only [h2', ih]
    · have h1' : (e.1 == vid) = false := by simpa using h1
      simp only [h1', Bool.false_eq_true, if_false]
      by_cases h2 : (e.1 == vid') = true
      · have h1p : ¬ e.1 = vid := by simpa using h1'
        simp [h2, h1']
        intro h; exact absurd h h1p
      · have h2' : (e.1 == vid') = false := by simpa using h2
        simp only [h2', ih]

/-- `deleteEcVolumeShards`: the source's bitmap of the volume loses exactly shard `s`. -/
theorem del_bits_same (n : ENode) (vid s j : Nat) :
    hasBit ((n.del vid s).bits vid) j = (hasBit (n.bits vid) j && !decide (s = j)) := by
  unfold ENode.del
  by_cases hh : n.hdd = true
  · simp only [hh, Bool.not_true, Bool.false_eq_true, if_false, ENode.bits, if_true, find_map_del]
    cases hf : n.shards.find? (·.1 == vid) with
    | none => simp [hasBit]
    | some e =>
      have hp : e.1 = vid := by
        have := List.find?_some hf; simpa using this
      simp [hp, hasBit_delBit]
  · have hh' : n.hdd = false := by simpa using hh
    simp [hh', ENode.bits, hasBit]

theorem del_bits_other (n : ENode) (vid vid' s : Nat) (hne : vid' ≠ vid) :
    (n.del vid s).bits vid' = n.bits vid' := by
  unfold ENode.del
  by_cases hh : n.hdd = true
  · simp only [hh, Bool.not_true, Bool.false_eq_true, if_false, ENode.bits, if_true, find_map_del]
    cases hf : n.shards.find? (·.1 == vid') with
    | none => simp
    | some e =>
      have h1 : e.1 = vid' := by
        have := List.find?_some hf; simpa using this
      have h2 : ¬ e.1 = vid := by omega
      simp [h2]
  · have hh' : n.hdd = false := by simpa using hh
    simp [hh', ENode.bits]

/-! ### ceiling division -/

/-- the model's `ceilDiv` is the ceiling of a/b: the least q with a ≤ q·b (exact divisions included) -/
theorem ceilDiv_spec (a b : Nat) (hb : b > 0) : a ≤ ceilDiv a b * b ∧ ∀ q, a ≤ q * b → ceilDiv a b ≤ q := by
  unfold ceilDiv
  constructor
  · have h1 := Nat.div_add_mod (a + b - 1) b
    have h2 := Nat.mod_lt (a + b - 1) hb
    rw [Nat.mul_comm] at h1
    omega
  · intro q hq
    apply (Nat.div_le_iff_le_mul_add_pred hb).mpr
    rw [Nat.mul_comm]; omega

theorem ceilDiv_exact (q b : Nat) (hb : b > 0) : ceilDiv (q * b) b = q := by
  have h := ceilDiv_spec (q * b) b hb
  have h2 := h.2 q (Nat.le_refl _)
  have h3 : q * b ≤ ceilDiv (q * b) b * b := h.1
  have h4 : q ≤ ceilDiv (q * b) b := Nat.le_of_mul_le_mul_right h3 hb
  omega

theorem ceilDiv_inexact (q r b : Nat) (h1 : 0 < r) (h2 : r < b) : ceilDiv (q * b + r) b = q + 1 := by
  have hb : b > 0 := by omega
  have h := ceilDiv_spec (q * b + r) b hb
  have up := h.2 (q + 1) (by rw [Nat.succ_mul]; omega)
  have lo : ¬ ceilDiv (q * b + r) b ≤ q := by
    intro hle
    have : ceilDiv (q * b + r) b * b ≤ q * b := Nat.mul_le_mul_right _ hle
    omega
  omega

/-! ### copies of a shard in the bookkeeping -/

/-- how many servers hold shard `s` of volume `vid` according to the bookkeeping:
    the multiset of (vid, shard) over all nodes, as a counting function -/
def copies (st : ESt) (vid s : Nat) : Nat := (st.nodes.filter (holdsShard · vid s)).length

theorem copies_eq_holders (st : ESt) (vid s : Nat) : copies st vid s = (holders st vid s).length := rfl

theorem holds_eq (n : ENode) (vid s : Nat) : holdsShard n vid s = hasBit (n.bits vid) s := by
  unfold holdsShard
  by_cases he : n.hasEntry vid = true
  · simp [he]
  · have he' : n.hasEntry vid = false := by simpa using he
    rw [he', Bool.false_and]
    unfold ENode.bits
    by_cases hh : n.hdd = true
    · have hany : n.shards.any (·.1 == vid) = false := by simpa [ENode.hasEntry, hh] using he'
      simp [hh, find_none_of_not_any vid n.shards hany, hasBit]
    · have hh' : n.hdd = false := by simpa using hh
      simp [hh', hasBit]

theorem holds_add (n : ENode) (vid s vid' j : Nat) :
    holdsShard (n.add vid s) vid' j = (holdsShard n vid' j || (vid' == vid && j == s)) := by
  rw [holds_eq, holds_eq]
  by_cases hv : vid' = vid
  · subst hv
    rw [add_bits_same]
    by_cases hj : s = j
    · simp [hj]
    · have : ¬ j = s := fun e => hj e.symm
      simp [hj, this]
  · rw [add_bits_other n vid vid' s hv]; simp [hv]

theorem holds_del (n : ENode) (vid s vid' j : Nat) :
    holdsShard (n.del vid s) vid' j = (holdsShard n vid' j && !(vid' == vid && j == s)) := by
  rw [holds_eq, holds_eq]
  by_cases hv : vid' = vid
  · subst hv
    rw [del_bits_same]
    by_cases hj : s = j
    · simp [hj]
    · have : ¬ j = s := fun e => hj e.symm
      simp [hj, this]
  · rw [del_bits_other n vid vid' s hv]; simp [hv]

theorem add_id (n : ENode) (vid s : Nat) : (n.add vid s).id = n.id := by
  unfold ENode.add; split <;> rfl
theorem del_id (n : ENode) (vid s : Nat) : (n.del vid s).id = n.id := by
  unfold ENode.del; split <;> rfl

/-- after + lost = before + gained, for any node-wise update `g` and any predicate `h` -/
theorem countP_update (L : List ENode) (g : ENode → ENode) (h : ENode → Bool) :
    L.countP (fun n => h (g n)) + L.countP (fun n => h n && !h (g n)) = L.countP h + L.countP (fun n => !h n && h (g n)) := by
  induction L with
  | nil => rfl
  | cons a L ih =>
    simp only [List.countP_cons]
    cases h1 : h a <;> cases h2 : h (g a) <;> simp <;> omega

theorem countP_id_none (L : List ENode) (x : Nat) (q : ENode → Bool) (hx : x ∉ L.map (·.id)) :
    L.countP (fun n => n.id == x && q n) = 0 := by
  apply List.countP_eq_zero.mpr
  intro n hn
  have : ¬ n.id = x := fun e => hx (List.mem_map.mpr ⟨n, hn, e⟩)
  simp [this]

/-- with unique server ids the nodes of id `x` are the one `node?` finds -/
theorem countP_id (L : List ENode) (hu : (L.map (·.id)).Nodup) (x : Nat) (sn : ENode)
    (hf : L.find? (·.id == x) = some sn) (q : ENode → Bool) :
    L.countP (fun n => n.id == x && q n) = if q sn then 1 else 0 := by
  induction L with
  | nil => simp at hf
  | cons a L ih =>
    simp only [List.map_cons, List.nodup_cons] at hu
    rw [List.find?_cons] at hf
    rw [List.countP_cons]
    by_cases ha : a.id = x
    · have hb : (a.id == x) = true := by simpa using ha
      simp only [hb] at hf
      have : a = sn := by simpa using hf
      subst this
      rw [countP_id_none L x q (ha ▸ hu.1)]
      simp [hb]
    · have hb : (a.id == x) = false := by simpa using ha
      simp only [hb] at hf
      rw [ih hu.2 hf]
      simp [hb]

/-- the node-wise form of `moveMountedShardToEcNode` (dry run) -/
def moveNode (src dst vid s : Nat) (n : ENode) : ENode :=
  let n1 := if n.id == dst then n.add vid s else n
  if n1.id == src then n1.del vid s else n1

theorem move_nodes (st : ESt) (src dst vid s : Nat) :
    (st.move src dst vid s).nodes = st.nodes.map (moveNode src dst vid s) := by
  simp [ESt.move, ESt.upd, moveNode, List.map_map, Function.comp_def]

theorem move_ids (st : ESt) (src dst vid s : Nat) :
    (st.move src dst vid s).nodes.map (·.id) = st.nodes.map (·.id) := by
  rw [move_nodes, List.map_map]
  apply List.map_congr_left
  intro n _
  simp only [Function.comp, moveNode]
  split <;> split <;> simp [add_id, del_id]

theorem holds_moveNode (src dst vid s : Nat) (hne : src ≠ dst) (n : ENode) (vid' j : Nat) :
    holdsShard (moveNode src dst vid s n) vid' j =
      if n.id = dst then (holdsShard n vid' j || (vid' == vid && j == s))
      else if n.id = src then (holdsShard n vid' j && !(vid' == vid && j == s)) else holdsShard n vid' j := by
  unfold moveNode
  by_cases hd : n.id = dst
  · subst hd
    have hs : ¬ n.id = src := fun e => hne e.symm
    simp [add_id, hs, holds_add]
  · by_cases hs : n.id = src
    · subst hs
      simp [hd, holds_del]
    · simp [hd, hs]

/-- THE bookkeeping law of one planned move (server ids unique, both servers known, different):
    per (volume, shard) the number of holders changes by −1 if the source held the moved shard
    and by +1 if the destination lacked it; every other (volume, shard) is untouched -/
theorem copies_move (st : ESt) (src dst vid s : Nat) (sn dn : ENode)
    (hu : (st.nodes.map (·.id)).Nodup) (hs : st.node? src = some sn) (hd : st.node? dst = some dn) (hne : src ≠ dst)
    (vid' j : Nat) :
    copies (st.move src dst vid s) vid' j + (if vid' = vid ∧ j = s ∧ holdsShard sn vid s = true then 1 else 0)
      = copies st vid' j + (if vid' = vid ∧ j = s ∧ holdsShard dn vid s = false then 1 else 0) := by
  unfold copies
  rw [move_nodes, ← List.countP_eq_length_filter, ← List.countP_eq_length_filter, List.countP_map]
  show st.nodes.countP (fun n => holdsShard (moveNode src dst vid s n) vid' j) + _ = _
  have hne' : ¬ dst = src := fun e => hne e.symm
  have key := countP_update st.nodes (moveNode src dst vid s) (holdsShard · vid' j)
  have hlost : st.nodes.countP (fun n => holdsShard n vid' j && !holdsShard (moveNode src dst vid s n) vid' j)
      = st.nodes.countP (fun n => n.id == src && (holdsShard n vid' j && (vid' == vid && j == s))) := by
    apply List.countP_congr
    intro n _
    rw [holds_moveNode src dst vid s hne]
    by_cases h1 : n.id = dst
    ·       cases holdsShard n vid' j <;> simp [h1, hne']
    · by_cases h2 : n.id = src
      · cases holdsShard n vid' j <;> simp [h1, h2, hne, hne']
      · cases holdsShard n vid' j <;> simp [h1, h2]
  have hgain : st.nodes.countP (fun n => !holdsShard n vid' j && holdsShard (moveNode src dst vid s n) vid' j)
      = st.nodes.countP (fun n => n.id == dst && (!holdsShard n vid' j && (vid' == vid && j == s))) := by
    apply List.countP_congr
    intro n _
    rw [holds_moveNode src dst vid s hne]
    by_cases h1 : n.id = dst
    · cases holdsShard n vid' j <;> simp [h1, hne']
    · by_cases h2 : n.id = src
      · cases holdsShard n vid' j <;> simp [h1, h2, hne, hne']
      · cases holdsShard n vid' j <;> simp [h1, h2]
  rw [hlost, hgain, countP_id _ hu src sn hs, countP_id _ hu dst dn hd] at key
  by_cases hk : vid' = vid ∧ j = s
  · obtain ⟨rfl, rfl⟩ := hk
    cases h1 : holdsShard sn vid' j <;> cases h2 : holdsShard dn vid' j <;> simp [h1, h2] at key ⊢ <;> omega
  · have hk' : (vid' == vid && j == s) = false := by
      cases hb : (vid' == vid && j == s)
      · rfl
      · simp at hb; exact absurd hb hk
    have e1 : ¬ (vid' = vid ∧ j = s ∧ holdsShard sn vid s = true) := fun h => hk ⟨h.1, h.2.1⟩
    have e2 : ¬ (vid' = vid ∧ j = s ∧ holdsShard dn vid s = false) := fun h => hk ⟨h.1, h.2.1⟩
    simp [hk'] at key
    simp [e1, e2]
    exact key

/-! ### a pick of `pickNEcShardsToMoveFrom` (the shard is deleted from the source at once) -/

theorem upd_ids (st : ESt) (id vid s : Nat) : (st.upd id (·.del vid s)).nodes.map (·.id) = st.nodes.map (·.id) := by
  simp only [ESt.upd, List.map_map]
  apply List.map_congr_left
  intro n _
  simp only [Function.comp]
  split <;> simp [del_id]

theorem copies_pick (st : ESt) (id vid s : Nat) (sn : ENode)
    (hu : (st.nodes.map (·.id)).Nodup) (hs : st.node? id = some sn) (vid' j : Nat) :
    copies (st.upd id (·.del vid s)) vid' j + (if vid' = vid ∧ j = s ∧ holdsShard sn vid s = true then 1 else 0)
      = copies st vid' j := by
  unfold copies
  simp only [ESt.upd]
  rw [← List.countP_eq_length_filter, ← List.countP_eq_length_filter, List.countP_map]
  show st.nodes.countP (fun n => holdsShard (if n.id == id then n.del vid s else n) vid' j) + _ = _
  have key := countP_update st.nodes (fun n => if n.id == id then n.del vid s else n) (holdsShard · vid' j)
  have hlost : st.nodes.countP (fun n => holdsShard n vid' j && !holdsShard (if n.id == id then n.del vid s else n) vid' j)
      = st.nodes.countP (fun n => n.id == id && (holdsShard n vid' j && (vid' == vid && j == s))) := by
    apply List.countP_congr
    intro n _
    by_cases h1 : n.id = id
    · cases hh : holdsShard n vid' j <;> simp [h1, holds_del, hh]
    · cases hh : holdsShard n vid' j <;> simp [h1, hh]
  have hgain : st.nodes.countP (fun n => !holdsShard n vid' j && holdsShard (if n.id == id then n.del vid s else n) vid' j) = 0 := by
    apply List.countP_eq_zero.mpr
    intro n _
    by_cases h1 : n.id = id
    · cases hh : holdsShard n vid' j <;> simp [h1, holds_del, hh]
    · cases hh : holdsShard n vid' j <;> simp [h1, hh]
  rw [hlost, hgain, countP_id _ hu id sn hs] at key
  by_cases hk : vid' = vid ∧ j = s
  · obtain ⟨rfl, rfl⟩ := hk
    cases h1 : holdsShard sn vid' j <;> simp [h1] at key ⊢ <;> omega
  · have hk' : (vid' == vid && j == s) = false := by
      cases hb : (vid' == vid && j == s)
      · rfl
      · simp at hb; exact absurd hb hk
    have e1 : ¬ (vid' = vid ∧ j = s ∧ holdsShard sn vid s = true) := fun h => hk ⟨h.1, h.2.1⟩
    simp [hk'] at key
    simp [e1]
    exact key

/-! ### one deduplication step -/

theorem dedup_ids (st : ESt) (vid s keep : Nat) : (st.dedupShard vid s keep).nodes.map (·.id) = st.nodes.map (·.id) := by
  unfold ESt.dedupShard
  split
  · rfl
  · simp only [List.map_map]
    apply List.map_congr_left
    intro n _
    simp only [Function.comp]
    split <;> simp [del_id]

/-- node-wise: a deduplication step changes nothing but shard (vid, s), which only `keep` retains -/
theorem holds_dedupNode (vid s keep : Nat) (n : ENode) (vid' j : Nat) :
    holdsShard (if n.id != keep && (n.hasEntry vid && hasBit (n.bits vid) s) then n.del vid s else n) vid' j
      = (holdsShard n vid' j && (!(vid' == vid && j == s) || n.id == keep)) := by
  have hh : (n.hasEntry vid && hasBit (n.bits vid) s) = holdsShard n vid s := rfl
  rw [hh]
  by_cases hk : n.id = keep
  · simp [hk]
  · by_cases hkey : vid' = vid ∧ j = s
    · obtain ⟨rfl, rfl⟩ := hkey
      cases hb : holdsShard n vid' j <;> simp [hk, hb, holds_del]
    · have hk' : (vid' == vid && j == s) = false := by
        cases hb : (vid' == vid && j == s)
        · rfl
        · simp at hb; exact absurd hb hkey
      cases hb : holdsShard n vid s <;> simp [hk, hb, holds_del, hk']

theorem copies_dedupShard_other (st : ESt) (vid s keep vid' j : Nat) (hk : ¬ (vid' = vid ∧ j = s)) :
    copies (st.dedupShard vid s keep) vid' j = copies st vid' j := by
  unfold ESt.dedupShard
  split
  · rfl
  · unfold copies
    simp only []
    rw [← List.countP_eq_length_filter, ← List.countP_eq_length_filter, List.countP_map]
    apply List.countP_congr
    intro n _
    have hk' : (vid' == vid && j == s) = false := by
      cases hb : (vid' == vid && j == s)
      · rfl
      · simp at hb; exact absurd hb hk
    simp only [Function.comp, holds_dedupNode, hk']
    simp

/-- the deduplicated shard: present before ⇒ present exactly once after (on `keep`) -/
theorem copies_dedupShard_same (st : ESt) (vid s keep : Nat) (kn : ENode)
    (hu : (st.nodes.map (·.id)).Nodup) (hk : st.node? keep = some kn) (hh : holdsShard kn vid s = true) :
    copies (st.dedupShard vid s keep) vid s = 1 := by
  unfold ESt.dedupShard
  split
  · rename_i hle
    have hmem : kn ∈ holders st vid s := List.mem_filter.mpr ⟨List.mem_of_find?_eq_some hk, hh⟩
    have := List.length_pos_of_mem hmem
    rw [copies_eq_holders]; omega
  · unfold copies
    simp only []
    rw [← List.countP_eq_length_filter, List.countP_map]
    have : st.nodes.countP ((fun x => holdsShard x vid s) ∘ fun n =>
        if n.id != keep && (n.hasEntry vid && hasBit (n.bits vid) s) then n.del vid s else n)
        = st.nodes.countP (fun n => n.id == keep && holdsShard n vid s) := by
      apply List.countP_congr
      intro n _
      simp only [Function.comp, holds_dedupNode]
      cases holdsShard n vid s <;> simp
    rw [this, countP_id _ hu keep kn hk, hh]; rfl

theorem find_of_mem_unique (L : List ENode) (hu : (L.map (·.id)).Nodup) (k : ENode) (hk : k ∈ L) :
    L.find? (·.id == k.id) = some k := by
  induction L with
  | nil => simp at hk
  | cons a L ih =>
    simp only [List.map_cons, List.nodup_cons] at hu
    rw [List.find?_cons]
    by_cases ha : a.id = k.id
    · have hb : (a.id == k.id) = true := by simpa using ha
      simp only [hb]
      rcases List.mem_cons.mp hk with h | h
      · rw [h]
      · exact absurd (List.mem_map.mpr ⟨k, h, ha.symm⟩) hu.1
    · have hb : (a.id == k.id) = false := by simpa using ha
      simp only [hb]
      rcases List.mem_cons.mp hk with h | h
      · exact absurd (h ▸ rfl) ha
      · exact ih hu.2 h

/-- `dedupKeepOk` only accepts a holder -/
theorem keep_is_holder (st : ESt) (vid s keep : Nat) (hu : (st.nodes.map (·.id)).Nodup)
    (h : dedupKeepOk st vid s keep = true) : ∃ kn, st.node? keep = some kn ∧ holdsShard kn vid s = true := by
  unfold dedupKeepOk at h
  simp only [] at h
  cases hf : (holders st vid s).find? (·.id == keep) with
  | none => simp [hf] at h
  | some k =>
    have hm := List.mem_filter.mp (List.mem_of_find?_eq_some hf)
    have hid : k.id = keep := by
      have := List.find?_some hf; simpa using this
    refine ⟨k, ?_, hm.2⟩
    have := find_of_mem_unique st.nodes hu k hm.1
    rw [hid] at this
    exact this

/-! ### the per-rack step picks a shard the source holds and the destination lacks -/

theorem find_first_agree {α : Type} (l : List α) (P Q : α → Bool) (x : α) (h : l.find? P = some x) (hq : Q x = true)
    (hqp : ∀ y, Q y = true → P y = true) : l.find? Q = some x := by
  induction l with
  | nil => simp at h
  | cons a l ih =>
    rw [List.find?_cons] at h ⊢
    cases hp : P a with
    | true =>
      simp only [hp] at h
      have : a = x := by simpa using h
      subst this
      simp [hq]
    | false =>
      simp only [hp] at h
      have : Q a = false := by
        cases hqa : Q a
        · rfl
        · rw [hqp a hqa] at hp; exact absurd hp (by simp)
      simp only [this]
      exact ih h

theorem rackPick_guard (full empty : ENode) (vid s : Nat) (h : rackPick full empty = some (vid, s)) :
    holdsShard full vid s = true ∧ holdsShard empty vid s = false := by
  unfold rackPick at h
  by_cases hh : full.hdd = true
  · simp only [hh, Bool.not_true, Bool.false_eq_true, if_false] at h
    cases hf : full.shards.find? (fun e => !(empty.hasEntry e.1)) with
    | none => simp [hf] at h
    | some e =>
      obtain ⟨v, b⟩ := e
      simp only [hf] at h
      cases hs : shardIds b with
      | nil => simp [hs] at h
      | cons s0 rest =>
        simp only [hs, Option.some.injEq, Prod.mk.injEq] at h
        obtain ⟨rfl, rfl⟩ := h
        have hne : (!(empty.hasEntry v)) = true := by
          have := List.find?_some (p := fun e : Nat × Nat => !(empty.hasEntry e.1)) hf; simpa using this
        have hfirst : full.shards.find? (·.1 == v) = some (v, b) :=
          find_first_agree full.shards _ (·.1 == v) (v, b) hf (by simp)
            (fun y hy => by have : y.1 = v := by simpa using hy
                            rw [this]; exact hne)
        have hbit : hasBit b s0 = true := by
          have : s0 ∈ shardIds b := by rw [hs]; simp
          exact (List.mem_filter.mp this).2
        constructor
        · rw [holds_eq]; simp [ENode.bits, hh, hfirst, hbit]
        · unfold holdsShard
          have : empty.hasEntry v = false := by simpa using hne
          simp [this]
  · have hh' : full.hdd = false := by simpa using hh
    simp [hh'] at h

end SwV.Lemmas.C16
