import SwV.Model.C08
import SwV.Spec.C08
import SwV.Gen.C08
namespace SwV.Lemmas.C08
open SwV.Model.C08 SwV.Spec.C08

theorem bridge_minutes (c u : Nat) (hc : c < 256) :
    SwV.Gen.C08.TTL_Minutes c u = (ttlMinutes ⟨c, u⟩ : Nat) := by
  simp only [SwV.Gen.C08.TTL_Minutes, ttlMinutes, SwV.Go.wrapU]
  match u with
  | 0 => simp
  | 1 => simp; omega
  | 2 => simp; omega
  | 3 => simp; omega
  | 4 => simp; omega
  | 5 => simp; omega
  | 6 => simp; omega
  | n + 7 =>
    have h0 : ¬ ((n : Int) + 7 = 0) := by omega
    have h1 : ¬ ((n : Int) + 7 = 1) := by omega
    have h2 : ¬ ((n : Int) + 7 = 2) := by omega
    have h3 : ¬ ((n : Int) + 7 = 3) := by omega
    have h4 : ¬ ((n : Int) + 7 = 4) := by omega
    have h5 : ¬ ((n : Int) + 7 = 5) := by omega
    have h6 : ¬ ((n : Int) + 7 = 6) := by omega
    simp [h0, h1, h2, h3, h4, h5, h6]

end SwV.Lemmas.C08
