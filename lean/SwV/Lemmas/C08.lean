import SwV.Model.C08
import SwV.Spec.C08
import SwV.Gen.C08
namespace SwV.Lemmas.C08
open SwV.Model.C08 SwV.Spec.C08

theorem bridge_minutes (c u : Nat) (hc : c < 256) :
    SwV.Gen.C08.TTL_Minutes c u = (ttlMinutes ⟨c, u⟩ : Nat) := by
  simp only [SwV.Gen.C08.TTL_Minutes, ttlMinutes, SwV.Go.wrapU]
  match u with
  | 0 => simp
  | 1 => simp; omega
  | 2 => simp; omega
  | 3 => simp; omega
  | 4 => simp; omega
  | 5 => simp; omega
  | 6 => simp; omega
  | n + 7 =>
    have h0 : ¬ ((n : Int) + 7 = 0) := by omega
    have h1 : ¬ ((n : Int) + 7 = 1) := by omega
    have h2 : ¬ ((n : Int) + 7 = 2) := by omega
    have h3 : ¬ ((n : Int) + 7 = 3) := by omega
    have h4 : ¬ ((n : Int) + 7 = 4) := by omega
    have h5 : ¬ ((n : Int) + 7 = 5) := by omega
    have h6 : ¬ ((n : Int) + 7 = 6) := by omega
    simp [h0, h1, h2, h3, h4, h5, h6]


/-! ## Replica placement -/


theorem rp_char (c : Char) (h : 0 ≤ (c.toNat : Int) - 48 ∧ (c.toNat : Int) - 48 ≤ 2) :
    c = '0' ∨ c = '1' ∨ c = '2' := by
  have h1 : c.toNat = 48 ∨ c.toNat = 49 ∨ c.toNat = 50 := by omega
  have h2 := Char.ofNat_toNat c
  rcases h1 with h1 | h1 | h1 <;> rw [h1] at h2
  · left; exact h2.symm
  · right; left; exact h2.symm
  · right; right; exact h2.symm

theorem rp_len3_canonical (a b c : Char) (h : (rpFromString [a, b, c]).2 = true) :
    rpString (rpFromString [a, b, c]).1 = [a, b, c] ∧ rpValid (rpFromString [a, b, c]).1 := by
  by_cases ha : 0 ≤ (a.toNat : Int) - 48 ∧ (a.toNat : Int) - 48 ≤ 2
  · by_cases hb : 0 ≤ (b.toNat : Int) - 48 ∧ (b.toNat : Int) - 48 ≤ 2
    · by_cases hc : 0 ≤ (c.toNat : Int) - 48 ∧ (c.toNat : Int) - 48 ≤ 2
      · rcases rp_char a ha with rfl | rfl | rfl <;> rcases rp_char b hb with rfl | rfl | rfl <;>
          rcases rp_char c hc with rfl | rfl | rfl <;> decide
      · exfalso; simp only [rpFromString, rpFromStringAux, ha, hb, hc, and_self, if_true, if_false] at h; cases h
    · exfalso; simp only [rpFromString, rpFromStringAux, ha, hb, and_self, if_true, if_false] at h; cases h
  · exfalso; simp only [rpFromString, rpFromStringAux, ha, if_false] at h; cases h

/-! ## big-endian fields, index entries -/

theorem beBytes_length (k n : Nat) : (beBytes k n).length = k := by
  induction k with
  | zero => rfl
  | succ k ih => simp [beBytes, ih]

theorem beBytes_lt (k n : Nat) : ∀ b ∈ beBytes k n, b < 256 := by
  induction k with
  | zero => intro b hb; simp [beBytes] at hb
  | succ k ih =>
    intro b hb
    simp only [beBytes, List.mem_cons] at hb
    rcases hb with rfl | hb
    · omega
    · exact ih b hb

theorem beFold_beBytes (k n acc : Nat) :
    (beBytes k n).foldl (fun a b => a * 256 + b) acc = acc * 256 ^ k + n % 256 ^ k := by
  induction k generalizing acc with
  | zero => simp [beBytes, Nat.mod_one]
  | succ k ih =>
    simp only [beBytes, List.foldl_cons]
    rw [ih, Nat.mod_pow_succ, Nat.pow_succ, Nat.add_mul, Nat.mul_assoc, Nat.mul_comm 256 (256 ^ k),
      Nat.mul_comm (256 ^ k) (n / 256 ^ k % 256)]
    omega

theorem beValue_beBytes (k n : Nat) (h : n < 256 ^ k) : beValue (beBytes k n) = n := by
  unfold beValue
  rw [beFold_beBytes, Nat.mod_eq_of_lt h]; omega

theorem beValue_append_single (bs : List Nat) (b : Nat) : beValue (bs ++ [b]) = beValue bs * 256 + b := by
  simp [beValue, List.foldl_append]

theorem size_roundtrip (size : Int) (hs : -(2 ^ 31 : Int) ≤ size ∧ size < (2 ^ 31 : Int)) :
    u32ToSize (sizeToU32 size) = size := by
  unfold u32ToSize sizeToU32
  split <;> omega

theorem sizeToU32_lt (size : Int) : sizeToU32 size < 256 ^ 4 := by
  unfold sizeToU32; omega

theorem offsetBytes_length (offsetSize units : Nat) (hw : offsetSize = 4 ∨ offsetSize = 5) :
    (offsetBytes offsetSize units).length = offsetSize := by
  unfold offsetBytes
  rcases hw with rfl | rfl <;> simp [beBytes_length]

theorem offset_roundtrip (offsetSize units : Nat) (hw : offsetSize = 4 ∨ offsetSize = 5)
    (hu : units < 256 ^ offsetSize) : offsetOfBytes (offsetBytes offsetSize units) = units := by
  unfold offsetOfBytes offsetBytes
  rcases hw with rfl | rfl
  · have h4 : (beBytes 4 (units % 256 ^ 4)).length = 4 := beBytes_length _ _
    simp only [show ¬ (4 = 5) by decide, if_false]
    rw [List.take_of_length_le (by omega), List.drop_of_length_le (by omega)]
    rw [beValue_beBytes _ _ (Nat.mod_lt _ (by decide))]
    simp only [Nat.add_zero]
    exact Nat.mod_eq_of_lt hu
  · have h4 : (beBytes 4 (units % 256 ^ 4)).length = 4 := beBytes_length _ _
    simp only [if_true]
    rw [List.take_left' h4, List.drop_left' h4]
    rw [beValue_beBytes _ _ (Nat.mod_lt _ (by decide))]
    simp only
    have : units < 256 ^ 5 := hu
    omega

theorem idx_roundtrip (padding key actual : Nat) (size : Int) (offsetSize : Nat)
    (hw : offsetSize = 4 ∨ offsetSize = 5) (_hp : 0 < padding) (ha : actual % padding = 0)
    (hr : actual / padding < 256 ^ offsetSize) (hk : key < 2 ^ 64)
    (hs : -(2 ^ 31 : Int) ≤ size ∧ size < (2 ^ 31 : Int)) :
    idxEntryParse padding offsetSize (idxEntryBytes padding offsetSize key actual size) = (key, actual, size) := by
  unfold idxEntryParse idxEntryBytes
  have hu : toOffsetUnits padding offsetSize actual = actual / padding := by
    unfold toOffsetUnits; exact Nat.mod_eq_of_lt hr
  rw [hu]
  have hA : (beBytes 8 key).length = 8 := beBytes_length _ _
  have hO : (offsetBytes offsetSize (actual / padding)).length = offsetSize := offsetBytes_length _ _ hw
  have hAO : (beBytes 8 key ++ offsetBytes offsetSize (actual / padding)).length = 8 + offsetSize := by
    rw [List.length_append, hA, hO]
  have hS : (beBytes 4 (sizeToU32 size)).length = 4 := beBytes_length _ _
  rw [List.drop_left' hAO, List.append_assoc, List.take_left' hA, List.drop_left' hA, List.take_left' hO,
    List.take_of_length_le (by omega)]
  rw [beValue_beBytes 8 key (by simpa using hk), offset_roundtrip _ _ hw hr,
    beValue_beBytes 4 _ (sizeToU32_lt size), size_roundtrip size hs]
  have : actual / padding * padding = actual := by
    have := Nat.div_add_mod actual padding
    rw [ha, Nat.add_zero, Nat.mul_comm] at this; exact this
  rw [this]

/-! ## super block -/

theorem rp_byte_rt (rp : RP) (h : rpValid rp) : rpFromByte (rpByte rp) = (rp, true) := by
  rcases rp with ⟨d, r, s⟩
  simp only [rpValid] at h
  have hd : d = 0 ∨ d = 1 ∨ d = 2 := by omega
  have hr : r = 0 ∨ r = 1 ∨ r = 2 := by omega
  have hs : s = 0 ∨ s = 1 ∨ s = 2 := by omega
  rcases hd with rfl | rfl | rfl <;> rcases hr with rfl | rfl | rfl <;> rcases hs with rfl | rfl | rfl <;> decide

theorem sb_roundtrip (s : SuperBlock) (hv : s.version < 256) (hrp : rpValid s.rp)
    (hc : s.ttl.count < 256) (hu : s.ttl.unit < 256) (hr : s.rev < 65536) (he : s.extra.length < 65535) :
    sbRead (sbBytes s) = some { s with ttl := loadTTLFromBytes s.ttl.count s.ttl.unit } := by
  rcases s with ⟨v, rp, ⟨c, u⟩, rev, extra⟩
  simp only at hv hrp hc hu hr he
  have hrev : beValue (beBytes 2 rev) = rev := beValue_beBytes 2 rev (by simpa using hr)
  have hrl : (beBytes 2 rev).length = 2 := beBytes_length _ _
  unfold sbRead sbBytes
  simp only
  generalize hT : (if extra.isEmpty = true then [0, 0] else beBytes 2 extra.length ++ extra) = T
  have hTl : 2 ≤ T.length := by
    subst hT; split
    · simp
    · simp [beBytes_length]
  have hlen : ([v % 256, rpByte rp, c % 256, u % 256] ++ beBytes 2 rev ++ T).length = 6 + T.length := by
    simp [hrl]; omega
  rw [if_neg (by omega)]
  have e1 : ([v % 256, rpByte rp, c % 256, u % 256] ++ beBytes 2 rev ++ T).getD 1 0 = rpByte rp := by simp
  have e0 : ([v % 256, rpByte rp, c % 256, u % 256] ++ beBytes 2 rev ++ T).getD 0 0 = v := by
    simp; omega
  have e2 : ([v % 256, rpByte rp, c % 256, u % 256] ++ beBytes 2 rev ++ T).getD 2 0 = c := by
    simp; omega
  have e3 : ([v % 256, rpByte rp, c % 256, u % 256] ++ beBytes 2 rev ++ T).getD 3 0 = u := by
    simp; omega
  have d4 : (([v % 256, rpByte rp, c % 256, u % 256] ++ beBytes 2 rev ++ T).drop 4).take 2 = beBytes 2 rev := by
    rw [List.append_assoc, List.drop_left' (by rfl), List.take_left' hrl]
  have d6 : ([v % 256, rpByte rp, c % 256, u % 256] ++ beBytes 2 rev ++ T).drop 6 = T := by
    rw [List.drop_left' (by simp [hrl])]
  rw [e0, e1, e2, e3, d4, d6, hrev, rp_byte_rt rp hrp]
  simp only
  have d8 : ([v % 256, rpByte rp, c % 256, u % 256] ++ beBytes 2 rev ++ T).drop 8 = T.drop 2 := by
    rw [show 8 = 6 + 2 from rfl, ← List.drop_drop, d6]
  rw [d8, hlen]
  by_cases hE : extra.isEmpty = true
  · rw [if_pos hE] at hT
    subst hT
    have : extra = [] := by simpa using hE
    subst this
    simp [beValue]
  · rw [if_neg hE] at hT
    subst hT
    have hEl : 0 < extra.length := by
      cases extra with
      | nil => simp at hE
      | cons x xs => simp
    have h2 : (beBytes 2 extra.length).length = 2 := beBytes_length _ _
    have hv2 : beValue (beBytes 2 extra.length) = extra.length :=
      beValue_beBytes 2 _ (by have : (256:Nat) ^ 2 = 65536 := by decide
                              omega)
    rw [List.take_left' h2, List.drop_left' h2, hv2, if_neg (by omega), List.length_append, h2,
      if_neg (by omega), List.take_of_length_le (Nat.le_refl _)]

/-! ## strconv models, TTL grammar -/

def pdStep (base : Nat) (acc : Option Nat) (c : Char) : Option Nat :=
  match acc, (if base = 16 then hexVal c else digitVal c) with
  | some a, some d => some (a * base + d)
  | _, _ => none

theorem parseDigits_eq (base : Nat) (cs : List Char) :
    parseDigits base cs = if cs.isEmpty then none else cs.foldl (pdStep base) (some 0) := rfl

theorem pdFold_none (base : Nat) (cs : List Char) : cs.foldl (pdStep base) none = none := by
  induction cs with
  | nil => rfl
  | cons c cs ih => simpa [List.foldl_cons, pdStep] using ih

theorem parseDigits_cons_nondigit (c : Char) (r : List Char) (h : digitVal c = none) :
    parseDigits 10 (c :: r) = none := by
  rw [parseDigits_eq]
  simp only [List.isEmpty_cons, List.foldl_cons]
  have : pdStep 10 (some 0) c = none := by simp [pdStep, h]
  rw [this, pdFold_none]; rfl

theorem atoi_of_digits (cs : List Char) (v : Nat) (h : parseDigits 10 cs = some v) (hv : v < 2 ^ 63) :
    atoi cs = ((v : Int), true) := by
  unfold atoi
  split
  rename_i neg ds heq
  split at heq
  · rw [parseDigits_cons_nondigit _ _ (by decide)] at h; cases h
  · rw [parseDigits_cons_nondigit _ _ (by decide)] at h; cases h
  · cases heq
    rw [h]
    simp [hv]

theorem ttl_in_grammar (s : List Char) (d : TTL) (h : ttlDenotation s = some d) : readTTL s = (d, true) := by
  unfold ttlDenotation at h
  unfold readTTL
  split at h
  · rename_i hl; rw [hl]; cases h; rfl
  · rename_i last hl
    rw [hl]
    simp only at h ⊢
    generalize hp : (if '0' ≤ last ∧ last ≤ '9' then (s, 'm') else (s.dropLast, last)) = p at h ⊢
    rcases p with ⟨cs, u⟩
    simp only at h ⊢
    split at h
    · cases h
    · split at h
      · cases h
      · rename_i n hn
        split at h
        · rename_i hle
          cases h
          rw [atoi_of_digits cs n hn (by omega)]
          simp only [Prod.mk.injEq, and_true, TTL.mk.injEq]
          omega
        · cases h

/-! ## decimal / hex round trips, file ids -/

theorem digitVal_digitChar : ∀ d : Fin 10, digitVal (Nat.digitChar d.val) = some d.val := by decide

theorem hexVal_hexDigit : ∀ d : Fin 16, hexVal (hexDigit d.val) = some d.val := by decide

theorem digitChar_ne_comma : ∀ d : Fin 10, Nat.digitChar d.val ≠ ',' := by decide

theorem pdStep10_digit (a d : Nat) (hd : d < 10) : pdStep 10 (some a) (Nat.digitChar d) = some (a * 10 + d) := by
  have := digitVal_digitChar ⟨d, hd⟩
  simp only at this
  simp [pdStep, this]

theorem pdStep16_hex (a d : Nat) (hd : d < 16) : pdStep 16 (some a) (hexDigit d) = some (a * 16 + d) := by
  have := hexVal_hexDigit ⟨d, hd⟩
  simp only at this
  simp [pdStep, this]

theorem pdFold_natToDec (n : Nat) : (Nat.toDigits 10 n).foldl (pdStep 10) (some 0) = some n := by
  induction n using Nat.strongRecOn with
  | _ n ih =>
    rw [Nat.toDigits_eq_if (by decide)]
    split
    · rename_i h
      simp [pdStep10_digit 0 n h]
    · rename_i h
      rw [List.foldl_append, ih (n / 10) (by omega)]
      simp only [List.foldl_cons, List.foldl_nil]
      rw [pdStep10_digit _ _ (Nat.mod_lt _ (by decide))]
      congr 1; omega

theorem parseDigits_natToDec (n : Nat) : parseDigits 10 (natToDec n) = some n := by
  rw [parseDigits_eq, natToDec, pdFold_natToDec]
  have : Nat.toDigits 10 n ≠ [] := Nat.toDigits_ne_nil
  cases h : Nat.toDigits 10 n with
  | nil => exact absurd h this
  | cons => simp

theorem natToDec_no_comma (n : Nat) : ∀ c ∈ natToDec n, c ≠ ',' := by
  unfold natToDec
  induction n using Nat.strongRecOn with
  | _ n ih =>
    rw [Nat.toDigits_eq_if (by decide)]
    split
    · rename_i h
      intro c hc
      simp only [List.mem_singleton] at hc
      subst hc
      exact digitChar_ne_comma ⟨n, h⟩
    · intro c hc
      simp only [List.mem_append, List.mem_singleton] at hc
      rcases hc with hc | rfl
      · exact ih (n / 10) (by omega) c hc
      · exact digitChar_ne_comma ⟨n % 10, Nat.mod_lt _ (by decide)⟩

theorem natToDec_ne_nil (n : Nat) : natToDec n ≠ [] := Nat.toDigits_ne_nil

theorem pdFold_hexOfBytes (bs : List Nat) (a : Nat) (hb : ∀ b ∈ bs, b < 256) :
    (hexOfBytes bs).foldl (pdStep 16) (some a) = some (bs.foldl (fun a b => a * 256 + b) a) := by
  induction bs generalizing a with
  | nil => rfl
  | cons b bs ih =>
    have hb0 : b < 256 := hb b (by simp)
    simp only [hexOfBytes, List.flatMap_cons, List.foldl_append, List.foldl_cons, List.foldl_nil]
    rw [pdStep16_hex _ _ (by omega), pdStep16_hex _ _ (by omega)]
    have : (a * 16 + b / 16) * 16 + b % 16 = a * 256 + b := by omega
    rw [this]
    exact ih _ (fun x hx => hb x (by simp [hx]))

theorem hexOfBytes_length (bs : List Nat) : (hexOfBytes bs).length = 2 * bs.length := by
  induction bs with
  | nil => rfl
  | cons b bs ih =>
    simp only [hexOfBytes, List.flatMap_cons, List.length_append, List.length_cons, List.length_nil] at ih ⊢
    omega

theorem hexOfBytes_append (xs ys : List Nat) : hexOfBytes (xs ++ ys) = hexOfBytes xs ++ hexOfBytes ys := by
  simp [hexOfBytes, List.flatMap_append]

theorem parseDigits_hexOfBytes (bs : List Nat) (hne : bs ≠ []) (hb : ∀ b ∈ bs, b < 256) :
    parseDigits 16 (hexOfBytes bs) = some (beValue bs) := by
  rw [parseDigits_eq, pdFold_hexOfBytes bs 0 hb]
  have : (hexOfBytes bs).length = 2 * bs.length := hexOfBytes_length bs
  cases h : hexOfBytes bs with
  | nil =>
    rw [h] at this
    cases bs with
    | nil => exact absurd rfl hne
    | cons => simp at this
  | cons => simp [beValue]

theorem beValue_cons_zero (bs : List Nat) : beValue (0 :: bs) = beValue bs := by
  simp [beValue]

theorem beValue_dropLeadingZeroBytes (bs : List Nat) : beValue (dropLeadingZeroBytes bs) = beValue bs := by
  unfold dropLeadingZeroBytes
  induction bs with
  | nil => rfl
  | cons b bs ih =>
    rw [List.dropWhile_cons]
    split
    · rename_i h
      have : b = 0 := by simpa using h
      subst this
      rw [ih, beValue_cons_zero]
    · rfl

theorem dropLeadingZeroBytes_length_le (bs : List Nat) : (dropLeadingZeroBytes bs).length ≤ bs.length := by
  unfold dropLeadingZeroBytes
  induction bs with
  | nil => simp
  | cons b bs ih =>
    rw [List.dropWhile_cons]
    split
    · simp only [List.length_cons]; omega
    · exact Nat.le_refl _

theorem mem_dropLeadingZeroBytes (bs : List Nat) : ∀ b ∈ dropLeadingZeroBytes bs, b ∈ bs := by
  unfold dropLeadingZeroBytes
  induction bs with
  | nil => simp
  | cons x bs ih =>
    intro b hb
    rw [List.dropWhile_cons] at hb
    split at hb
    · exact List.mem_cons_of_mem _ (ih b hb)
    · exact hb

theorem span_loop_append_sep (p : Char → Bool) (l r acc : List Char) (x : Char) (hl : ∀ c ∈ l, p c = true)
    (hx : p x = false) : List.span.loop p (l ++ x :: r) acc = (acc.reverse ++ l, x :: r) := by
  induction l generalizing acc with
  | nil => simp [List.span.loop, hx]
  | cons c l ih =>
    have hc : p c = true := hl c (by simp)
    simp only [List.cons_append, List.span.loop, hc]
    rw [ih _ (fun d hd => hl d (by simp [hd]))]
    simp

theorem span_append_sep (p : Char → Bool) (l r : List Char) (x : Char) (hl : ∀ c ∈ l, p c = true)
    (hx : p x = false) : (l ++ x :: r).span p = (l, x :: r) := by
  unfold List.span
  rw [span_loop_append_sep p l r [] x hl hx]; rfl

theorem splitAtComma_sep (l r : List Char) (hne : l ≠ []) (hl : ∀ c ∈ l, c ≠ ',') :
    splitAtComma (l ++ [','] ++ r) = some (l, r) := by
  unfold splitAtComma
  rw [List.append_assoc, List.singleton_append,
    span_append_sep _ l r ',' (fun c hc => by simpa using hl c hc) (by simp)]
  cases l with
  | nil => exact absurd rfl hne
  | cons => rfl

theorem parseUint_of_digits (base bits : Nat) (cs : List Char) (v : Nat) (h : parseDigits base cs = some v)
    (hv : v < 2 ^ bits) : parseUint base bits cs = (v, true) := by
  unfold parseUint
  rw [h]
  simp [hv]

theorem parseNeedleIdCookie_format (key cookie : Nat) (hk : 0 < key) (hk' : key < 2 ^ 64)
    (hc : cookie < 2 ^ 32) : parseNeedleIdCookie (formatNeedleIdCookie key cookie) = some (key, cookie) := by
  unfold parseNeedleIdCookie formatNeedleIdCookie
  generalize hD : dropLeadingZeroBytes (beBytes 8 key) = D
  have hDv : beValue D = key := by
    rw [← hD, beValue_dropLeadingZeroBytes, beValue_beBytes 8 key (by simpa using hk')]
  have hDne : D ≠ [] := by
    intro h; rw [h] at hDv; simp [beValue] at hDv; omega
  have hDpos : 0 < D.length := List.length_pos_iff.mpr hDne
  have hDle : D.length ≤ 8 := by
    rw [← hD]
    have := dropLeadingZeroBytes_length_le (beBytes 8 key)
    rw [beBytes_length] at this; exact this
  have hDlt : ∀ b ∈ D, b < 256 := by
    intro b hb; rw [← hD] at hb
    exact beBytes_lt 8 key b (mem_dropLeadingZeroBytes _ b hb)
  have hCl : (beBytes 4 cookie).length = 4 := beBytes_length _ _
  have hCne : beBytes 4 cookie ≠ [] := by
    intro h; rw [h] at hCl; simp at hCl
  have hlen : (hexOfBytes (D ++ beBytes 4 cookie)).length = 2 * D.length + 8 := by
    rw [hexOfBytes_length, List.length_append, hCl]; omega
  have hDhl : (hexOfBytes D).length = 2 * D.length + 8 - 8 := by
    rw [hexOfBytes_length]; omega
  rw [hlen, if_neg (by omega), if_neg (by omega)]
  simp only
  rw [hexOfBytes_append, List.take_left' hDhl, List.drop_left' hDhl]
  rw [parseUint_of_digits 16 64 _ _ (parseDigits_hexOfBytes D hDne hDlt) (by rw [hDv]; exact hk'),
    parseUint_of_digits 16 32 _ _ (parseDigits_hexOfBytes _ hCne (beBytes_lt 4 cookie))
      (by rw [beValue_beBytes 4 cookie (by simpa using hc)]; exact hc)]
  simp only [hDv, beValue_beBytes 4 cookie (by simpa using hc)]

theorem fid_roundtrip_lemma (vid key cookie : Nat) (hk : 0 < key) (hk' : key < 2 ^ 64) (hv : vid < 2 ^ 32)
    (hc : cookie < 2 ^ 32) : parseFid (fidString ⟨vid, key, cookie⟩) = some ⟨vid, key, cookie⟩ := by
  unfold parseFid fidString
  simp only
  rw [splitAtComma_sep _ _ (natToDec_ne_nil vid) (natToDec_no_comma vid)]
  simp only
  rw [parseUint_of_digits 10 64 _ vid (parseDigits_natToDec vid) (by omega)]
  simp only
  rw [parseNeedleIdCookie_format key cookie hk hk' hc]
  simp only [Nat.mod_eq_of_lt hv]

end SwV.Lemmas.C08
