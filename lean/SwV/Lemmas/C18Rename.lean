/-
C18 — rename of a DIRECTORY with children: the model's fuel-bounded recursion (moveEntry: create the
target, move every listed child, delete the source entry) computes exactly the spec's subtree move,
whenever the target is fresh, has a parent, and is neither inside nor above the source, and the fuel
exceeds the height of the source subtree.
-/
import SwV.Model.C18
import SwV.Spec.C18
import SwV.Lemmas.C18
namespace SwV.Lemmas.C18
open SwV.Model.C18 SwV.Spec.C18

/-! ### re-rooting of reversed paths -/

theorem reroot_append (t o n : RPath) : reroot o n (t ++ o) = t ++ n := by
  simp [reroot]

theorem reroot_self (o n : RPath) : reroot o n o = n := by
  simpa using reroot_append [] o n

theorem suffix_reroot {o n p : RPath} (h : o <:+ p) : n <:+ reroot o n p := by
  rcases h with ⟨t, rfl⟩
  rw [reroot_append]
  exact List.suffix_append t n

theorem reroot_child {k : String} {o n p : RPath} (h : (k :: o) <:+ p) :
    reroot (k :: o) (k :: n) p = reroot o n p ∧ (k :: n) <:+ reroot o n p := by
  rcases h with ⟨t, rfl⟩
  have e1 : t ++ k :: o = (t ++ [k]) ++ o := by simp
  constructor
  · rw [reroot_append, e1, reroot_append]; simp
  · rw [e1, reroot_append]; exact ⟨t, by simp⟩

theorem cons_not_suffix (k : String) (l : RPath) : ¬ (k :: l) <:+ l := by
  intro h
  have := h.length_le
  simp only [List.length_cons] at this
  omega

theorem cons_suffix_cons {a b : String} {l : RPath} (h : (a :: l) <:+ (b :: l)) : a = b := by
  rcases List.suffix_cons_iff.mp h with h | h
  · cases h; rfl
  · exact absurd h (cons_not_suffix a l)

/-- two suffixes of one path are comparable: with incomparable `old`, `new` nothing lies under both -/
theorem not_under_both {old new p : RPath} (hon : ¬ old <:+ new) (hno : ¬ new <:+ old) (h1 : old <:+ p) (h2 : new <:+ p) : False := by
  rcases List.suffix_or_suffix_of_suffix h1 h2 with h | h
  · exact hon h
  · exact hno h

/-! ### listings have distinct names -/

theorem nodup_insertByName {x : String × Entry} {l : List (String × Entry)} (h : x.1 ∉ l.map (·.1))
    (nd : (l.map (·.1)).Nodup) : ((insertByName x l).map (·.1)).Nodup := by
  induction l with
  | nil => simp [insertByName]
  | cons y r ih =>
    simp only [List.map_cons, List.nodup_cons, List.mem_cons, not_or] at h nd
    simp only [insertByName]
    split
    · simp only [List.map_cons, List.nodup_cons, List.mem_cons, not_or]
      exact ⟨⟨h.1, h.2⟩, nd.1, nd.2⟩
    · simp only [List.map_cons, List.nodup_cons]
      refine ⟨?_, ih h.2 nd.2⟩
      intro hm
      rcases List.mem_map.mp hm with ⟨z, hz, hzy⟩
      rcases mem_insertByName.mp hz with rfl | hz
      · exact h.1 hzy
      · exact nd.1 (List.mem_map.mpr ⟨z, hz, hzy⟩)

theorem nodup_sortByName {l : List (String × Entry)} (nd : (l.map (·.1)).Nodup) : ((sortByName l).map (·.1)).Nodup := by
  induction l with
  | nil => simp [sortByName]
  | cons y r ih =>
    simp only [List.map_cons, List.nodup_cons] at nd
    have : sortByName (y :: r) = insertByName y (sortByName r) := rfl
    rw [this]
    refine nodup_insertByName ?_ (ih nd.2)
    intro hm
    rcases List.mem_map.mp hm with ⟨z, hz, hzy⟩
    exact nd.1 (List.mem_map.mpr ⟨z, mem_sortByName.mp hz, hzy⟩)

theorem children_names_nodup {s : St} (nd : (s.ents.map (·.1)).Nodup) (d : RPath) : ((children s d).map (·.1)).Nodup := by
  unfold children
  apply nodup_sortByName
  generalize s.ents = l at nd
  induction l with
  | nil => simp
  | cons x r ih =>
    simp only [List.map_cons, List.nodup_cons] at nd
    rw [List.filterMap_cons]
    split
    · exact ih nd.2
    · rename_i y hy
      simp only [List.map_cons, List.nodup_cons]
      refine ⟨?_, ih nd.2⟩
      intro hm
      rcases List.mem_map.mp hm with ⟨z, hz, hzy⟩
      rcases List.mem_filterMap.mp hz with ⟨w, hw, hwz⟩
      -- both x and w have the path y.1 :: d
      have px : x.1 = y.1 :: d := by
        rcases x with ⟨p, e⟩
        cases p with
        | nil => simp at hy
        | cons m par =>
          simp only at hy
          split at hy
          · rename_i hp; cases hy; rw [hp]
          · cases hy
      have pw : w.1 = z.1 :: d := by
        rcases w with ⟨p, e⟩
        cases p with
        | nil => simp at hwz
        | cons m par =>
          simp only at hwz
          split at hwz
          · rename_i hp; cases hwz; rw [hp]
          · cases hwz
      apply nd.1
      rw [px, ← hzy, ← pw]
      exact List.mem_map.mpr ⟨w, hw, rfl⟩

/-! ### the abstract subtree move -/

/-- what a move leaves at the target: the listed (stored) copy without link identity -/
def strip (e : Entry) : Entry := { e with hl := 0, cnt := 0 }

/-- `s'` is `s` with exactly the entries whose path satisfies `M` re-rooted from `old` to `new` -/
def MovedBy (M : RPath → Prop) (old new : RPath) (s s' : St) : Prop :=
  ∀ x, x ∈ s'.ents ↔ (x ∈ s.ents ∧ ¬ M x.1) ∨ (∃ y ∈ s.ents, M y.1 ∧ x = (reroot old new y.1, strip y.2))

theorem movedBy_trans {M1 M2 M3 : RPath → Prop} {old new : RPath} {s s1 s2 : St}
    (h1 : MovedBy M1 old new s s1) (h2 : MovedBy M2 old new s1 s2)
    (h3 : ∀ p, M3 p ↔ M1 p ∨ M2 p)
    (hi : ∀ y ∈ s.ents, M1 y.1 → ¬ M2 (reroot old new y.1)) : MovedBy M3 old new s s2 := by
  intro x
  rw [h2 x]
  constructor
  · rintro (⟨hx, hn2⟩ | ⟨y, hy, hm2, rfl⟩)
    · rcases (h1 x).mp hx with ⟨hx0, hn1⟩ | ⟨y, hy, hm1, rfl⟩
      · exact Or.inl ⟨hx0, fun h => ((h3 _).mp h).elim hn1 hn2⟩
      · exact Or.inr ⟨y, hy, (h3 _).mpr (Or.inl hm1), rfl⟩
    · rcases (h1 y).mp hy with ⟨hy0, hn1⟩ | ⟨z, hz, hm1, rfl⟩
      · exact Or.inr ⟨y, hy0, (h3 _).mpr (Or.inr hm2), rfl⟩
      · exact absurd hm2 (hi z hz hm1)
  · rintro (⟨hx, hn3⟩ | ⟨y, hy, hm3, rfl⟩)
    · exact Or.inl ⟨(h1 x).mpr (Or.inl ⟨hx, fun h => hn3 ((h3 _).mpr (Or.inl h))⟩), fun h => hn3 ((h3 _).mpr (Or.inr h))⟩
    · by_cases hm1 : M1 y.1
      · exact Or.inl ⟨(h1 _).mpr (Or.inr ⟨y, hy, hm1, rfl⟩), hi y hy hm1⟩
      · have hm2 : M2 y.1 := ((h3 _).mp hm3).resolve_left hm1
        exact Or.inr ⟨y, (h1 y).mpr (Or.inl ⟨hy, hm1⟩), hm2, rfl⟩

theorem movedBy_congr {M : RPath → Prop} {o n o' n' : RPath} {s s' : St}
    (hr : ∀ p, M p → reroot o n p = reroot o' n' p) (h : MovedBy M o n s s') : MovedBy M o' n' s s' := by
  intro x
  rw [h x]
  constructor
  · rintro (hl | ⟨y, hy, hm, rfl⟩)
    · exact Or.inl hl
    · exact Or.inr ⟨y, hy, hm, by rw [hr _ hm]⟩
  · rintro (hl | ⟨y, hy, hm, rfl⟩)
    · exact Or.inl hl
    · exact Or.inr ⟨y, hy, hm, by rw [hr _ hm]⟩

/-! ### auxiliary facts about find / delete -/

theorem find_of_mem {s : St} (inv : TreeInv s) {p : RPath} {e : Entry} (h : (p, e) ∈ s.ents) :
    ∃ e', find s p = some e' ∧ e'.isDir = e.isDir := by
  have hl := lookup_of_mem_nodup inv.nodup h
  unfold find
  rw [hl]
  simp only
  split
  · exact ⟨e, rfl, rfl⟩
  · rename_i hne
    have hf : e.isDir = false := by
      cases hd : e.isDir with
      | false => rfl
      | true => exact absurd (inv.dirNoLink _ h hd) hne
    split
    · rename_i r hr
      exact ⟨r, rfl, by rw [hf, inv.recFile _ (kvGet_some_mem hr)]⟩
    · exact ⟨e, rfl, rfl⟩

theorem find_dir_of_mem {s : St} (inv : TreeInv s) {p : RPath} {e : Entry} (h : (p, e) ∈ s.ents) (hd : e.isDir = true) :
    find s p = some e := by
  have hl := lookup_of_mem_nodup inv.nodup h
  have h0 := inv.dirNoLink _ h hd
  simp only at h0
  simp [find, hl, h0]

theorem find_none_of_absent {s : St} {p : RPath} (h : ∀ c, (p, c) ∉ s.ents) : find s p = none := by
  simp [find, lookup_none_of_not_mem h]

theorem deleteOne_ents' (s : St) (p : RPath) (e : Entry) : (deleteOne s p e).ents = erase p s.ents := by
  unfold deleteOne
  split <;> simp

/-- DeleteEntryMetaAndData (non-recursive, no data) of a stored path with no children: succeeds, removes exactly that entry -/
theorem deleteEntry_leaf {s : St} (inv : TreeInv s) {p : RPath} {e : Entry} (h : (p, e) ∈ s.ents) (hk : children s p = []) :
    ∃ s3, deleteEntry s p false false = (s3, Res.ok, []) ∧ ∀ x, x ∈ s3.ents ↔ x ∈ s.ents ∧ x.1 ≠ p := by
  rcases find_of_mem inv h with ⟨e', hf, _⟩
  cases p with
  | nil => exact absurd rfl (inv.parent _ h).1
  | cons m q =>
    have hdel : ∀ x, x ∈ delChildren s.ents (m :: q) ↔ x ∈ s.ents := by
      intro x
      rw [mem_delChildren]
      constructor
      · exact fun hh => hh.1
      · intro hx
        refine ⟨hx, ?_⟩
        by_cases hn : x.1 = []
        · exact Or.inl hn
        · refine Or.inr fun ht => ?_
          rcases x with ⟨x1, x2⟩
          cases x1 with
          | nil => exact hn rfl
          | cons a t =>
            simp only [List.tail_cons] at ht
            subst ht
            have : (a, x2) ∈ children s (m :: q) := mem_children.mpr hx
            rw [hk] at this
            cases this
    by_cases hd : e'.isDir = true
    · refine ⟨deleteOne { s with ents := delChildren s.ents (m :: q) } (m :: q) e', ?_, ?_⟩
      · simp [deleteEntry, hf, hd, hk, doBatch]
      · intro x
        rw [deleteOne_ents', mem_erase]
        simp only
        rw [hdel]
    · refine ⟨deleteOne s (m :: q) e', ?_, ?_⟩
      · simp [deleteEntry, hf, hd]
      · intro x
        rw [deleteOne_ents', mem_erase]

/-! ### the loop over the listed children -/

theorem move_loop_exact (rec : St → RPath → Entry → RPath → Mv) (old new : RPath) (f : Nat)
    (hon : ¬ old <:+ new) (hno : ¬ new <:+ old)
    (hrec : ∀ sa n e, TreeInv sa → (n :: old, e) ∈ sa.ents → (∀ c, (n :: new, c) ∉ sa.ents) →
       (∃ d, (new, d) ∈ sa.ents ∧ d.isDir = true) →
       (∀ x ∈ sa.ents, (n :: old) <:+ x.1 → x.1.length < (n :: old).length + f) →
       ∃ s', rec sa (n :: old) e (n :: new) = (s', Res.ok, []) ∧ TreeInv s' ∧
         MovedBy (fun p => (n :: old) <:+ p) old new sa s') :
    ∀ (items : List (String × Entry)) (sa : St), TreeInv sa → (items.map (·.1)).Nodup →
      (∀ it ∈ items, (it.1 :: old, it.2) ∈ sa.ents) → (∀ it ∈ items, ∀ c, (it.1 :: new, c) ∉ sa.ents) →
      (∃ d, (new, d) ∈ sa.ents ∧ d.isDir = true) →
      (∀ x ∈ sa.ents, old <:+ x.1 → x.1.length < old.length + (f + 1)) →
      ∃ s', items.foldl (moveStep rec old new) (sa, Res.ok, []) = (s', Res.ok, []) ∧ TreeInv s' ∧
        MovedBy (fun p => ∃ it ∈ items, (it.1 :: old) <:+ p) old new sa s' := by
  intro items
  induction items with
  | nil =>
    intro sa inv _ _ _ _ _
    refine ⟨sa, rfl, inv, ?_⟩
    intro x
    simp
  | cons it t ih =>
    intro sa inv nd h2 h3 h4 h5
    simp only [List.map_cons, List.nodup_cons] at nd
    have hb1 : ∀ x ∈ sa.ents, (it.1 :: old) <:+ x.1 → x.1.length < (it.1 :: old).length + f := by
      intro x hx hs
      have := h5 x hx ((List.suffix_cons it.1 old).trans hs)
      simp only [List.length_cons]
      omega
    rcases hrec sa it.1 it.2 inv (h2 it (by simp)) (h3 it (by simp)) h4 hb1 with ⟨s1, hr1, inv1, mv1⟩
    have hstep : moveStep rec old new (sa, Res.ok, []) it = (s1, Res.ok, []) := by
      simp [moveStep, hr1]
    simp only [List.foldl]
    rw [hstep]
    have hne : ∀ it' ∈ t, it'.1 ≠ it.1 := by
      intro it' hit' heq
      exact nd.1 (List.mem_map.mpr ⟨it', hit', heq⟩)
    -- an image of the first move lies under it.1 :: new, hence under new
    have himg : ∀ y ∈ sa.ents, (it.1 :: old) <:+ y.1 → (it.1 :: new) <:+ reroot old new y.1 :=
      fun y _ hy => (reroot_child hy).2
    have g2 : ∀ it' ∈ t, (it'.1 :: old, it'.2) ∈ s1.ents := by
      intro it' hit'
      refine (mv1 _).mpr (Or.inl ⟨h2 it' (List.mem_cons_of_mem _ hit'), ?_⟩)
      intro hs
      exact hne it' hit' (cons_suffix_cons hs).symm
    have g3 : ∀ it' ∈ t, ∀ c, (it'.1 :: new, c) ∉ s1.ents := by
      intro it' hit' c hc
      rcases (mv1 _).mp hc with ⟨hc0, _⟩ | ⟨y, hy, hm, heq⟩
      · exact h3 it' (List.mem_cons_of_mem _ hit') c hc0
      · have := himg y hy hm
        rw [← (Prod.mk.inj heq).1] at this
        exact hne it' hit' (cons_suffix_cons this).symm
    have g4 : ∃ d, (new, d) ∈ s1.ents ∧ d.isDir = true := by
      rcases h4 with ⟨d, hd, hdir⟩
      refine ⟨d, (mv1 _).mpr (Or.inl ⟨hd, ?_⟩), hdir⟩
      intro hs
      exact hon ((List.suffix_cons it.1 old).trans hs)
    have g5 : ∀ x ∈ s1.ents, old <:+ x.1 → x.1.length < old.length + (f + 1) := by
      intro x hx hs
      rcases (mv1 _).mp hx with ⟨hx0, _⟩ | ⟨y, hy, hm, rfl⟩
      · exact h5 x hx0 hs
      · exact (not_under_both hon hno hs (suffix_reroot ((List.suffix_cons it.1 old).trans hm))).elim
    rcases ih s1 inv1 nd.2 g2 g3 g4 g5 with ⟨s', hfold, inv', mv'⟩
    refine ⟨s', hfold, inv', movedBy_trans mv1 mv' ?_ ?_⟩
    · intro p
      constructor
      · rintro ⟨it', hit', hs⟩
        rcases List.mem_cons.mp hit' with rfl | hit'
        · exact Or.inl hs
        · exact Or.inr ⟨it', hit', hs⟩
      · rintro (hs | ⟨it', hit', hs⟩)
        · exact ⟨it, by simp, hs⟩
        · exact ⟨it', List.mem_cons_of_mem _ hit', hs⟩
    · rintro y hy hm ⟨it', _, hs⟩
      exact not_under_both hon hno ((List.suffix_cons it'.1 old).trans hs)
        (suffix_reroot ((List.suffix_cons it.1 old).trans hm))

/-! ### moveEntry: the fuel is sufficient, the result is the subtree move -/

theorem moveEntry_succ (f : Nat) (s : St) (old : RPath) (e : Entry) (new : RPath) :
    moveEntry (f + 1) s old e new =
      if old = new then (s, Res.ok, []) else
      match createEntry s new (strip e) false with
      | (s1, .ok, q1) =>
        match (if e.isDir then (children s1 old).foldl (moveStep (moveEntry f) old new) (s1, .ok, []) else (s1, .ok, [])) with
        | (s2, .ok, q2) =>
          match deleteEntry s2 old false false with
          | (s3, .ok, _) => (s3, .ok, q1 ++ q2)
          | (s3, _, _) => (s3, .err, q1 ++ q2)
        | (s2, r2, q2) => (s2, r2, q1 ++ q2)
      | (s1, _, q1) => (s1, .err, q1) := by
  rw [moveEntry]
  rfl

theorem moveEntry_exact (f : Nat) : ∀ (s : St) (old : RPath) (e : Entry) (new : RPath), TreeInv s →
    (old, e) ∈ s.ents → (∀ c, (new, c) ∉ s.ents) → new ≠ [] →
    (new.tail = [] ∨ ∃ d, (new.tail, d) ∈ s.ents ∧ d.isDir = true) →
    ¬ old <:+ new → ¬ new <:+ old →
    (∀ x ∈ s.ents, old <:+ x.1 → x.1.length < old.length + f) →
    ∃ s', moveEntry f s old e new = (s', Res.ok, []) ∧ TreeInv s' ∧ MovedBy (fun p => old <:+ p) old new s s' := by
  induction f with
  | zero =>
    intro s old e new _ hm _ _ _ _ _ hb
    have := hb _ hm (List.suffix_refl _)
    simp at this
  | succ f ih =>
    intro s old e new inv hm habs hnn hpar hon hno hb
    have hne : old ≠ new := fun h => hon (h ▸ List.suffix_refl _)
    have hold : old ≠ [] := (inv.parent _ hm).1
    -- createEntry: the target is fresh and its directory is there
    have hcreate : createEntry s new (strip e) false = (wInsert s new (strip e), Res.ok, []) := by
      cases new with
      | nil => exact absurd rfl hnn
      | cons n par =>
        have hens : ensureParent (strip e) par s = (s, true) := by
          cases par with
          | nil => rfl
          | cons m q =>
            rcases hpar with h | ⟨d, hd, hdir⟩
            · cases h
            · simp only [List.tail_cons] at hd
              unfold ensureParent
              rw [find_dir_of_mem inv hd hdir]
              simp [hdir]
        simp [createEntry, find_none_of_absent habs, hens]
    have inv1 : TreeInv (wInsert s new (strip e)) := by
      have := inv_createEntry (s := s) (p := new) (e := strip e) (x := false) inv (by simp [strip])
      rw [hcreate] at this
      exact this
    generalize hs1 : wInsert s new (strip e) = s1 at hcreate inv1
    have mem1 : ∀ x, x ∈ s1.ents ↔ x = (new, strip e) ∨ x ∈ s.ents := by
      intro x
      rw [← hs1, mem_wInsert]
      constructor
      · rintro (h | ⟨h, _⟩)
        · exact Or.inl h
        · exact Or.inr h
      · rintro (h | h)
        · exact Or.inl h
        · refine Or.inr ⟨h, fun hx => ?_⟩
          rcases x with ⟨x1, x2⟩
          simp only at hx
          subst hx
          exact habs x2 h
    -- the children listed after the create are the children in s
    have kid_s : ∀ k c, (k, c) ∈ children s1 old → (k :: old, c) ∈ s.ents := by
      intro k c hkc
      rcases (mem1 _).mp (mem_children.mp hkc) with h | h
      · exact absurd (by rw [← (Prod.mk.inj h).1]; exact List.suffix_cons k old) hon
      · exact h
    -- K: the paths below a listed child = the proper descendants of old
    have hK : ∀ p, (∃ it ∈ children s1 old, (it.1 :: old) <:+ p) → PD old p := by
      rintro p ⟨it, _, hs⟩
      refine ⟨(List.suffix_cons it.1 old).trans hs, fun hh => ?_⟩
      rw [hh] at hs
      exact cons_not_suffix _ _ hs
    have hK' : ∀ y ∈ s.ents, PD old y.1 → ∃ it ∈ children s1 old, (it.1 :: old) <:+ y.1 := by
      intro y hy hpd
      rcases pd_child_on_path y.1 hpd with ⟨k, hk⟩
      have : ∃ c, (k :: old, c) ∈ s.ents := by
        by_cases heq : k :: old = y.1
        · exact ⟨y.2, by rw [heq]; exact hy⟩
        · rcases ancestors_of_inv inv y.1 y.2 hy (k :: old) (by simp) hk heq with ⟨c, hc, _⟩
          exact ⟨c, hc⟩
      rcases this with ⟨c, hc⟩
      exact ⟨(k, c), mem_children.mpr ((mem1 _).mpr (Or.inr hc)), hk⟩
    have hKnew : ¬ ∃ it ∈ children s1 old, (it.1 :: old) <:+ new := fun h => hon (hK new h).1
    -- the loop
    have hloop : ∃ s2, (if e.isDir = true then (children s1 old).foldl (moveStep (moveEntry f) old new) (s1, Res.ok, [])
          else (s1, Res.ok, [])) = (s2, Res.ok, []) ∧ TreeInv s2 ∧
        MovedBy (fun p => ∃ it ∈ children s1 old, (it.1 :: old) <:+ p) old new s1 s2 := by
      by_cases hd : e.isDir = true
      · rw [if_pos hd]
        refine move_loop_exact (moveEntry f) old new f hon hno ?_ (children s1 old) s1 inv1
          (children_names_nodup inv1.nodup old) ?_ ?_ ?_ ?_
        · intro sa k c inva hmem habsk hpark hbk
          have hon' : ¬ (k :: old) <:+ (k :: new) := by
            intro h
            rcases List.suffix_cons_iff.mp h with h | h
            · cases h; exact hne rfl
            · exact hon ((List.suffix_cons k old).trans h)
          have hno' : ¬ (k :: new) <:+ (k :: old) := by
            intro h
            rcases List.suffix_cons_iff.mp h with h | h
            · cases h; exact hne rfl
            · exact hno ((List.suffix_cons k new).trans h)
          rcases ih sa (k :: old) c (k :: new) inva hmem habsk (by simp) (Or.inr (by simpa using hpark)) hon' hno' hbk
            with ⟨s', hr, inv', mv⟩
          exact ⟨s', hr, inv', movedBy_congr (fun p hp => (reroot_child hp).1) mv⟩
        · intro it hit
          exact mem_children.mp hit
        · intro it hit c hc
          rcases (mem1 _).mp hc with h | h
          · have := congrArg List.length (Prod.mk.inj h).1
            simp at this
          · rcases (inv.parent _ h).2 with h0 | ⟨d, hd0, _⟩
            · simp only [List.tail_cons] at h0
              exact hnn h0
            · simp only [List.tail_cons] at hd0
              exact habs d hd0
        · exact ⟨strip e, (mem1 _).mpr (Or.inl rfl), by simpa [strip] using hd⟩
        · intro x hx hs
          rcases (mem1 _).mp hx with h | h
          · rw [h] at hs
            exact absurd hs hon
          · have := hb x h hs
            omega
      · rw [if_neg hd]
        have hfile : e.isDir = false := by simpa using hd
        have hkids : children s1 old = [] := by
          rw [List.eq_nil_iff_forall_not_mem]
          rintro ⟨k, c⟩ hkc
          have hc := kid_s k c hkc
          rcases (inv.parent _ hc).2 with h0 | ⟨d, hd0, hdir⟩
          · simp only [List.tail_cons] at h0
            exact hold h0
          · simp only [List.tail_cons] at hd0
            rw [mem_unique inv.nodup hd0 hm, hfile] at hdir
            cases hdir
        refine ⟨s1, rfl, inv1, ?_⟩
        intro x
        simp [hkids]
    rcases hloop with ⟨s2, hloop, inv2, mv2⟩
    -- the source entry is still there, childless
    have hm2 : (old, e) ∈ s2.ents := by
      refine (mv2 _).mpr (Or.inl ⟨(mem1 _).mpr (Or.inr hm), fun h => (hK old h).2 rfl⟩)
    have hkids2 : children s2 old = [] := by
      rw [List.eq_nil_iff_forall_not_mem]
      rintro ⟨k, c⟩ hkc
      rcases (mv2 _).mp (mem_children.mp hkc) with ⟨h1, hn⟩ | ⟨y, hy, hmy, heq⟩
      · exact hn ⟨(k, c), mem_children.mpr h1, List.suffix_refl _⟩
      · have h1 : new <:+ k :: old := by
          rw [(Prod.mk.inj heq).1]
          exact suffix_reroot (hK _ hmy).1
        rcases List.suffix_cons_iff.mp h1 with h | h
        · exact hon (by rw [h]; exact List.suffix_cons k old)
        · exact hno h
    rcases deleteEntry_leaf inv2 hm2 hkids2 with ⟨s3, hdel, mem3⟩
    have hres : moveEntry (f + 1) s old e new = (s3, Res.ok, []) := by
      rw [moveEntry_succ, if_neg hne]
      simp only [hcreate, hloop, hdel, List.append_nil]
    have inv3 : TreeInv s3 := by
      have := inv_moveEntry (f + 1) s old e new inv
      rw [hres] at this
      exact this
    refine ⟨s3, hres, inv3, ?_⟩
    intro x
    rw [mem3 x, mv2 x]
    constructor
    · rintro ⟨⟨h1, hn⟩ | ⟨y, hy, hmy, rfl⟩, hxo⟩
      · rcases (mem1 _).mp h1 with h | h
        · refine Or.inr ⟨(old, e), hm, List.suffix_refl _, ?_⟩
          rw [h, reroot_self]
        · refine Or.inl ⟨h, fun hs => hn (hK' x h ⟨hs, hxo⟩)⟩
      · rcases (mem1 _).mp hy with h | h
        · rw [h] at hmy
          exact absurd hmy hKnew
        · exact Or.inr ⟨y, h, (hK _ hmy).1, rfl⟩
    · rintro (⟨h, hn⟩ | ⟨y, hy, hs, rfl⟩)
      · refine ⟨Or.inl ⟨(mem1 _).mpr (Or.inr h), fun hk => hn (hK _ hk).1⟩, fun hxo => hn (hxo ▸ List.suffix_refl _)⟩
      · by_cases hyo : y.1 = old
        · have hye : y = (old, e) := by
            rcases y with ⟨y1, y2⟩
            simp only at hyo
            subst hyo
            rw [mem_unique inv.nodup hy hm]
          subst hye
          simp only [reroot_self]
          refine ⟨Or.inl ⟨(mem1 _).mpr (Or.inl rfl), hKnew⟩, fun h => hne h.symm⟩
        · refine ⟨Or.inr ⟨y, (mem1 _).mpr (Or.inr hy), hK' y hy ⟨hs, hyo⟩, rfl⟩, fun h => ?_⟩
          simp only at h
          have := suffix_reroot (n := new) hs
          rw [h] at this
          exact hno this

/-! ### the spec's subtree move -/

/-- `specRename` with the moved entries' link identity dropped (moveSelfEntry creates the target from the LISTED copy with
    HardLinkId cleared); equal to `specRename` when the subtree holds no linked name -/
def specRenameStrip (l : List (RPath × Entry)) (src dst : RPath) : List (RPath × Entry) :=
  l.map fun x => if under src x.1 then (reroot src dst x.1, strip x.2) else x

theorem mem_specRenameStrip {l : List (RPath × Entry)} {src dst : RPath} {x : RPath × Entry} :
    x ∈ specRenameStrip l src dst ↔
      (x ∈ l ∧ ¬ src <:+ x.1) ∨ (∃ y ∈ l, src <:+ y.1 ∧ x = (reroot src dst y.1, strip y.2)) := by
  unfold specRenameStrip under
  rw [List.mem_map]
  constructor
  · rintro ⟨y, hy, rfl⟩
    by_cases hu : src <:+ y.1
    · rw [if_pos (List.isSuffixOf_iff_suffix.mpr hu)]
      exact Or.inr ⟨y, hy, hu, rfl⟩
    · have : ¬ (src.isSuffixOf y.1 = true) := fun h => hu (List.isSuffixOf_iff_suffix.mp h)
      rw [if_neg this]
      exact Or.inl ⟨hy, hu⟩
  · rintro (⟨hx, hu⟩ | ⟨y, hy, hu, rfl⟩)
    · have : ¬ (src.isSuffixOf x.1 = true) := fun h => hu (List.isSuffixOf_iff_suffix.mp h)
      exact ⟨x, hx, by rw [if_neg this]⟩
    · exact ⟨y, hy, by rw [if_pos (List.isSuffixOf_iff_suffix.mpr hu)]⟩

theorem specRenameStrip_eq_specRename {l : List (RPath × Entry)} {src dst : RPath}
    (h : ∀ x ∈ l, src <:+ x.1 → x.2.hl = 0 ∧ x.2.cnt = 0) : specRenameStrip l src dst = specRename l src dst := by
  unfold specRenameStrip specRename
  apply List.map_congr_left
  intro x hx
  by_cases hu : under src x.1 = true
  · rw [if_pos hu, if_pos hu]
    have := h x hx (List.isSuffixOf_iff_suffix.mp hu)
    rcases x with ⟨p, e⟩
    rcases e with ⟨a, b, c, d, g⟩
    simp only at this
    simp [strip, this.1, this.2]
  · rw [if_neg hu, if_neg hu]

end SwV.Lemmas.C18
