/-
C18 — the last step of moveSelfEntry ("delete old entry", `DeleteEntryMetaAndData(oldPath, isRecursive = false, …)`):
whenever a move reports success, that step removed exactly ONE stored entry — the source path — from the state
reached after the target was created and the listed children were moved. Anything still (or again) below the
source makes the move fail instead; nothing is destroyed silently.
-/
import SwV.Model.C18
import SwV.Model.C18Late
import SwV.Lemmas.C18
import SwV.Lemmas.C18Rename
namespace SwV.Lemmas.C18
open SwV.Model.C18

/-- the state of `moveEntry (f+1) s old e new` just before its final "delete old entry": the target created, the
    listed children moved -/
def beforeFinalDelete (f : Nat) (s : St) (old : RPath) (e : Entry) (new : RPath) : St :=
  match createEntry s new { e with hl := 0, cnt := 0 } false with
  | (s1, _, _) =>
    if e.isDir then ((children s1 old).foldl (moveStep (moveEntry f) old new) (s1, .ok, [])).1 else s1

/-- a successful non-recursive delete without data removes exactly the entry; a directory had no children -/
theorem deleteEntry_nonrec_ok {s s3 : St} {n : String} {par : RPath} {d : List Nat}
    (h : deleteEntry s (n :: par) false false = (s3, Res.ok, d)) :
    (∃ e', find s (n :: par) = some e' ∧ (e'.isDir = true → children s (n :: par) = [])) ∧
    ∀ x, x ∈ s3.ents ↔ x ∈ s.ents ∧ x.1 ≠ n :: par := by
  unfold deleteEntry at h
  cases hf : find s (n :: par) with
  | none => simp [hf] at h
  | some e' =>
    simp only [hf] at h
    by_cases hd : e'.isDir = true
    · cases hk : children s (n :: par) with
      | cons a t => simp [hd, hk] at h
      | nil =>
        have hdel : ∀ x, x ∈ delChildren s.ents (n :: par) ↔ x ∈ s.ents := by
          intro x
          rw [mem_delChildren]
          constructor
          · exact fun hh => hh.1
          · intro hx
            refine ⟨hx, ?_⟩
            by_cases hn : x.1 = []
            · exact Or.inl hn
            · refine Or.inr fun ht => ?_
              rcases x with ⟨x1, x2⟩
              cases x1 with
              | nil => exact hn rfl
              | cons a t =>
                simp only [List.tail_cons] at ht
                subst ht
                have : (a, x2) ∈ children s (n :: par) := mem_children.mpr hx
                rw [hk] at this
                cases this
        simp [hd, hk, doBatch] at h
        refine ⟨⟨e', rfl, fun _ => rfl⟩, ?_⟩
        intro x
        rw [← h.1, deleteOne_ents', mem_erase]
        simp only
        rw [hdel]
    · simp [hd] at h
      refine ⟨⟨e', rfl, fun hh => absurd hh hd⟩, ?_⟩
      intro x
      rw [← h.1, deleteOne_ents', mem_erase]

theorem moveEntry_ok_final_delete (f : Nat) (s : St) (n : String) (par new : RPath) (e : Entry) (s3 : St) (q : List Nat)
    (hne : n :: par ≠ new) (h : moveEntry (f + 1) s (n :: par) e new = (s3, Res.ok, q)) :
    (∃ e', find (beforeFinalDelete f s (n :: par) e new) (n :: par) = some e' ∧
      (e'.isDir = true → children (beforeFinalDelete f s (n :: par) e new) (n :: par) = [])) ∧
    ∀ x, x ∈ s3.ents ↔ x ∈ (beforeFinalDelete f s (n :: par) e new).ents ∧ x.1 ≠ n :: par := by
  unfold moveEntry at h
  simp only [hne, if_false] at h
  unfold beforeFinalDelete
  rcases hc : createEntry s new { e with hl := 0, cnt := 0 } false with ⟨s1, r1, q1⟩
  rw [hc] at h
  cases r1 with
  | ok =>
    simp only at h
    rcases hm : (if e.isDir then (children s1 (n :: par)).foldl (moveStep (moveEntry f) (n :: par) new) (s1, Res.ok, []) else (s1, Res.ok, [])) with ⟨s2, r2, q2⟩
    rw [hm] at h
    have hs2 : (if e.isDir then ((children s1 (n :: par)).foldl (moveStep (moveEntry f) (n :: par) new) (s1, Res.ok, [])).1 else s1) = s2 := by
      cases hd : e.isDir
      · simp only [hd, Bool.false_eq_true, if_false, Prod.mk.injEq] at hm ⊢
        exact hm.1
      · simp only [hd, if_true] at hm ⊢
        rw [hm]
    simp only [hs2]
    cases r2 with
    | ok =>
      simp only at h
      rcases hdl : deleteEntry s2 (n :: par) false false with ⟨s4, r4, d4⟩
      rw [hdl] at h
      cases r4 with
      | ok =>
        simp only [Prod.mk.injEq] at h
        rw [← h.1]
        exact deleteEntry_nonrec_ok hdl
      | err => simp at h
      | notfound => simp at h
      | diverge => simp at h
    | err => simp at h
    | notfound => simp at h
    | diverge => simp at h
  | err => simp at h
  | notfound => simp at h
  | diverge => simp at h

/-- the model of a rename with a concurrent create (`moveEntryL`, trace op `renamelate`) is `moveEntry` plus the hook:
    with the identity as hook it is `moveEntry` -/
theorem moveEntryL_id (trig : RPath) : ∀ f, moveEntryL trig id f = moveEntry f := by
  intro f
  induction f with
  | zero => funext s old e new; rfl
  | succ f ih =>
    funext s old e new
    simp only [moveEntryL, moveEntry, ih, id, ite_self]
    split
    · rfl
    · generalize createEntry s new { isDir := e.isDir, tag := e.tag, chunks := e.chunks, hl := 0, cnt := 0 } false = c
      rcases c with ⟨s1, r1, q1⟩
      cases r1 <;> rfl

end SwV.Lemmas.C18
