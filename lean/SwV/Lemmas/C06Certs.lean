/-
C06 — kernel check of the 1471 decoding-matrix certificates of SwV/Model/C06RS.lean (`decide +kernel` over the
COMPLETE finite family of erasure patterns losing at most 4 of 14 shards, split into 30 chunks of 50 patterns in
SwV/Lemmas/C06Certs0..5.lean so that they build in parallel): for every pattern, the ten selected generator rows
are ten rows of ten bytes and the certified matrix is a left inverse of them.
-/
import SwV.Model.C06RS
import SwV.Lemmas.C06Certs0
import SwV.Lemmas.C06Certs1
import SwV.Lemmas.C06Certs2
import SwV.Lemmas.C06Certs3
import SwV.Lemmas.C06Certs4
import SwV.Lemmas.C06Certs5
namespace SwV.Lemmas.C06
open SwV.Model.C06

theorem all_of_chunks {α : Type} (p : α → Bool) (n : Nat) : ∀ (cnt : Nat) (l : List α), l.length ≤ n * cnt →
    (∀ j, j < cnt → ((l.drop (n * j)).take n).all p = true) → l.all p = true := by
  intro cnt
  induction cnt with
  | zero =>
    intro l hl _
    have : l = [] := List.eq_nil_of_length_eq_zero (by omega)
    rw [this]; rfl
  | succ c ih =>
    intro l hl h
    have h0 := h 0 (by omega)
    simp only [Nat.mul_zero, List.drop_zero] at h0
    have hr := ih (l.drop n) (by rw [List.length_drop, Nat.mul_succ] at *; omega) (fun j hj => by
      have := h (j + 1) (by omega)
      rw [List.drop_drop]
      rw [Nat.mul_succ] at this
      rw [Nat.add_comm]; exact this)
    rw [← List.take_append_drop n l, List.all_append, h0, hr]; rfl

set_option maxRecDepth 100000 in
theorem certTable_length : certTable.length ≤ 50 * 30 := by decide +kernel

/-- every certificate is valid -/
theorem certs_ok : certTable.all certOk = true := by
  apply all_of_chunks certOk 50 30 certTable certTable_length
  intro j hj
  match j, hj with
  | 0, _ => exact certs_chunk_0
  | 1, _ => exact certs_chunk_1
  | 2, _ => exact certs_chunk_2
  | 3, _ => exact certs_chunk_3
  | 4, _ => exact certs_chunk_4
  | 5, _ => exact certs_chunk_5
  | 6, _ => exact certs_chunk_6
  | 7, _ => exact certs_chunk_7
  | 8, _ => exact certs_chunk_8
  | 9, _ => exact certs_chunk_9
  | 10, _ => exact certs_chunk_10
  | 11, _ => exact certs_chunk_11
  | 12, _ => exact certs_chunk_12
  | 13, _ => exact certs_chunk_13
  | 14, _ => exact certs_chunk_14
  | 15, _ => exact certs_chunk_15
  | 16, _ => exact certs_chunk_16
  | 17, _ => exact certs_chunk_17
  | 18, _ => exact certs_chunk_18
  | 19, _ => exact certs_chunk_19
  | 20, _ => exact certs_chunk_20
  | 21, _ => exact certs_chunk_21
  | 22, _ => exact certs_chunk_22
  | 23, _ => exact certs_chunk_23
  | 24, _ => exact certs_chunk_24
  | 25, _ => exact certs_chunk_25
  | 26, _ => exact certs_chunk_26
  | 27, _ => exact certs_chunk_27
  | 28, _ => exact certs_chunk_28
  | 29, _ => exact certs_chunk_29
  | n + 30, h => exact absurd h (by omega)

end SwV.Lemmas.C06
