/-
C03 — helper lemmas for the crash-recovery theorems (core Lean only).
-/
import SwV.Model.C03
import SwV.Spec.C03
import SwV.Lemmas.C02
namespace SwV.Lemmas.C03
open SwV.Model.C02 SwV.Model.C03 SwV.Lemmas.C02

/-! ### index entries -/

/-- entries the code can write: 64-bit key, 32-bit offset, int32 size -/
def EntryWF (e : Entry) : Prop := e.key < 2 ^ 64 ∧ e.off < 2 ^ 32 ∧ -(2 ^ 31) ≤ e.size ∧ e.size < 2 ^ 31

@[simp] theorem entryBytes_length (e : Entry) : (entryBytes e).length = 16 := by
  simp [entryBytes]

theorem parseEntry_entryBytes (e : Entry) (h : EntryWF e) (more : Bytes) : parseEntry ((entryBytes e ++ more).take 16) = e := by
  obtain ⟨hk, ho, hs1, hs2⟩ := h
  have ht : (entryBytes e ++ more).take 16 = entryBytes e := List.take_left' (entryBytes_length e)
  rw [ht]
  unfold parseEntry entryBytes
  have e1 : (be 8 e.key ++ (be 4 e.off ++ be 4 (e.size % 2 ^ 32).toNat)).drop 12 = be 4 (e.size % 2 ^ 32).toNat := by
    have : (12 : Nat) = 8 + 4 := rfl
    rw [this, ← List.drop_drop, drop_be_append, drop_be_append]
  rw [take_be_append, drop_be_append, take_be_append, e1]
  have e2 : (be 4 (e.size % 2 ^ 32).toNat).take 4 = be 4 (e.size % 2 ^ 32).toNat := by
    rw [List.take_of_length_le]; simp
  rw [e2, beNat_be_of_lt 8 _ (by omega), beNat_be_of_lt 4 _ (by omega), beNat_be_of_lt 4 _ (by omega)]
  have : toInt32 (e.size % 2 ^ 32).toNat = e.size := by
    unfold toInt32
    split <;> omega
  rw [this]

theorem idxEntries_append (idx : Bytes) (e : Entry) (h : EntryWF e) (hl : idx.length % 16 = 0) :
    idxEntries (idx ++ entryBytes e) = idxEntries idx ++ [e] := by
  unfold idxEntries
  have hk : (idx ++ entryBytes e).length / 16 = idx.length / 16 + 1 := by
    rw [List.length_append, entryBytes_length]; omega
  rw [hk, List.range_succ, List.map_append]
  congr 1
  · apply List.map_congr_left
    intro i hi
    rw [List.mem_range] at hi
    have h1 : 16 * i + 16 ≤ idx.length := by omega
    rw [List.drop_append_of_le_length (by omega), List.take_append_of_le_length (by rw [List.length_drop]; omega)]
  · simp only [List.map_cons, List.map_nil]
    have h2 : 16 * (idx.length / 16) = idx.length := by omega
    rw [h2, List.drop_left]
    have := parseEntry_entryBytes e h []
    rw [List.append_nil] at this
    rw [this]

/-! ### the integrity check on a data file that ends with (last indexed record ++ anything) -/

theorem openDat_size_ge (bytes : Bytes) : bytes.length ≤ (openDat bytes).size ∧ (openDat bytes).size < bytes.length + 8 ∧
    (openDat bytes).size % 8 = 0 := by
  unfold openDat; simp only []; omega

/-- `verifyNeedleIntegrity` on the record the entry points to, whatever follows it in the file: the record is
    accepted and everything behind it is cut off -/
theorem verifyNeedle_record (crc : Bytes → UInt32) (n : Needle) (h : WF crc n) (pre tail : Bytes) (size : Nat)
    (hoff : pre.length % 8 = 0)
    (hsz : (pre ++ (encode 3 n ++ tail)).length ≤ size) (hsz2 : size < (pre ++ (encode 3 n ++ tail)).length + 8)
    (hsz3 : size % 8 = 0) :
    verifyNeedle ⟨pre ++ (encode 3 n ++ tail), size⟩ ⟨n.id, pre.length / 8, recSize n⟩ =
      (.ok, ⟨pre ++ encode 3 n, pre.length + actualSize (recSize n) 3⟩) := by
  have hlen := encode_length crc 3 n h
  have hs := recSize_lt crc n h
  have ha := actualSize_mod8 (recSize n) 3
  have hoff8 : pre.length / 8 * 8 = pre.length := by omega
  unfold verifyNeedle
  simp only [hoff8, List.drop_left]
  have e0 : ¬ (((encode 3 n ++ tail).take 16).length < 16) := by
    simp only [List.length_take, List.length_append, hlen]; unfold actualSize; omega
  rw [parseHeader_take16, parseHeader_encode crc 3 n h tail]
  simp only [e0, if_false, ne_eq, not_true_eq_false]
  have e1 : ((recSize n : Nat) : Int).toNat = recSize n := by omega
  rw [e1]
  have e2 : ¬ ((((pre ++ (encode 3 n ++ tail)).drop (pre.length + 16 + recSize n + 4)).take 8).length < 8) := by
    simp only [List.length_take, List.length_drop, List.length_append, hlen]
    unfold actualSize bodyLength tsLen; simp only [if_true]; omega
  simp only [e2, if_false]
  have hlen2 : (pre ++ (encode 3 n ++ tail)).length = pre.length + actualSize (recSize n) 3 + tail.length := by
    simp only [List.length_append, hlen]; omega
  have etake : (pre ++ (encode 3 n ++ tail)).take (pre.length + actualSize (recSize n) 3) = pre ++ encode 3 n := by
    rw [← List.append_assoc]
    exact List.take_left' (by rw [List.length_append, hlen])
  by_cases heq : size = pre.length + actualSize (recSize n) 3
  · have ht : tail = [] := by
      have : tail.length = 0 := by omega
      exact List.eq_nil_of_length_eq_zero this
    simp only [heq, if_true, ht, List.append_nil]
  · have hgt : size > pre.length + actualSize (recSize n) 3 := by omega
    simp only [heq, if_false, hgt, if_true, etake]

/-- `doCheckAndFixVolumeData` for a put entry whose record is in the file -/
theorem checkEntry_record (crc : Bytes → UInt32) (n : Needle) (h : WF crc n) (pre tail : Bytes) (size : Nat)
    (hoff : pre.length % 8 = 0) (hpre : 8 ≤ pre.length)
    (hsz : (pre ++ (encode 3 n ++ tail)).length ≤ size) (hsz2 : size < (pre ++ (encode 3 n ++ tail)).length + 8)
    (hsz3 : size % 8 = 0) :
    checkEntry crc ⟨pre ++ (encode 3 n ++ tail), size⟩ ⟨n.id, pre.length / 8, recSize n⟩ =
      (.ok, ⟨pre ++ encode 3 n, pre.length + actualSize (recSize n) 3⟩) := by
  unfold checkEntry
  have e1 : ¬ (pre.length / 8 = 0) := by omega
  have e2 : ¬ ((recSize n : Int) < 0) := by omega
  simp only [e1, e2, if_false]
  exact verifyNeedle_record crc n h pre tail size hoff hsz hsz2 hsz3

/-- `CheckAndFixVolumeDataIntegrity`: the last index entry is a put whose record is completely in the data file;
    ANY bytes may follow it (a torn record, complete records that were not indexed yet). The check succeeds, keeps
    the whole index and cuts the data file back to the end of that record. -/
theorem checkAndFix_last_put (crc : Bytes → UInt32) (n : Needle) (h : WF crc n) (pre tail idxPre : Bytes)
    (hoff : pre.length % 8 = 0) (hpre : 8 ≤ pre.length) (hoffr : pre.length / 8 < 2 ^ 32)
    (hidx : idxPre.length % 16 = 0) :
    checkAndFix crc (openDat (pre ++ (encode 3 n ++ tail))) (idxPre ++ entryBytes ⟨n.id, pre.length / 8, recSize n⟩) =
      (⟨pre ++ encode 3 n, pre.length + actualSize (recSize n) 3⟩,
       idxPre ++ entryBytes ⟨n.id, pre.length / 8, recSize n⟩, false) := by
  have hs := recSize_lt crc n h
  have hwf : EntryWF ⟨n.id, pre.length / 8, recSize n⟩ := ⟨h.2.1, hoffr, by simp only []; omega, by simp only []; omega⟩
  have hes := idxEntries_append idxPre _ hwf hidx
  obtain ⟨o1, o2, o3⟩ := openDat_size_ge (pre ++ (encode 3 n ++ tail))
  unfold checkAndFix
  simp only [hes]
  have hne : ¬ ((idxEntries idxPre ++ [(⟨n.id, pre.length / 8, recSize n⟩ : Entry)]).length = 0) := by simp
  simp only [hne, if_false, List.reverse_append, List.reverse_cons, List.reverse_nil, List.nil_append, List.cons_append]
  have htake : ([(⟨n.id, pre.length / 8, recSize n⟩ : Entry)] ++ (idxEntries idxPre).reverse).take 10 =
      ⟨n.id, pre.length / 8, recSize n⟩ :: ((idxEntries idxPre).reverse.take 9) := by simp
  simp only [List.singleton_append] at htake ⊢
  rw [htake]
  unfold checkLoop
  have hd : openDat (pre ++ (encode 3 n ++ tail)) = ⟨pre ++ (encode 3 n ++ tail), (openDat (pre ++ (encode 3 n ++ tail))).size⟩ := rfl
  rw [hd, checkEntry_record crc n h pre tail _ hoff hpre o1 o2 o3]
  simp

/-! ### the needle map -/

theorem mget_cons (x : Nat × Nat × Int) (m : NMap) (k : Nat) :
    mget (x :: m) k = if x.1 == k then some x.2 else mget m k := by
  unfold mget; simp only [List.find?_cons]; split <;> simp_all

theorem mget_map_other (m : NMap) (k k' : Nat) (f : Nat × Nat × Int → Nat × Nat × Int) (hk : k' ≠ k)
    (hf : ∀ x, (f x).1 = x.1) (hf' : ∀ x, x.1 ≠ k → f x = x) : mget (m.map f) k' = mget m k' := by
  induction m with
  | nil => rfl
  | cons x m ih =>
    rw [List.map_cons, mget_cons, mget_cons, ih, hf]
    by_cases hx : x.1 = k'
    · have : x.1 ≠ k := by omega
      simp [hx, hf' x this]
    · simp [hx]

theorem mget_mset_other (m : NMap) (k k' off : Nat) (size : Int) (hk : k' ≠ k) :
    mget (mset m k off size) k' = mget m k' := by
  unfold mset
  split
  · apply mget_map_other m k k' _ hk
    · intro x; split <;> simp_all
    · intro x hx; simp [hx]
  · unfold mget
    rw [List.find?_append]
    cases h : m.find? (fun e => e.1 == k') with
    | some y => simp
    | none =>
      have : ¬ (k = k') := by omega
      simp [this]

theorem mget_mflip_other (m : NMap) (k k' : Nat) (hk : k' ≠ k) : mget (mflip m k) k' = mget m k' := by
  unfold mflip
  apply mget_map_other m k k' _ hk
  · intro x; split <;> rfl
  · intro x hx; simp [hx]

theorem mget_mset_same (m : NMap) (k off : Nat) (size : Int) : mget (mset m k off size) k = some (off, size) := by
  unfold mset
  split
  · rename_i hany
    induction m with
    | nil => simp at hany
    | cons x m ih =>
      rw [List.map_cons, mget_cons]
      by_cases hx : x.1 = k
      · simp [hx]
      · have hx' : (x.1 == k) = false := by simpa using hx
        simp only [hx', Bool.false_eq_true, if_false]
        apply ih
        simpa [hx'] using hany
  · rename_i hany
    unfold mget
    rw [List.find?_append]
    have : m.find? (fun e => e.1 == k) = none := by
      rw [List.find?_eq_none]; intro x hx; simp only [List.any_eq_true, not_exists, not_and] at hany; exact hany x hx
    simp [this]

theorem mget_mflip_same (m : NMap) (k : Nat) (o : Nat) (s : Int) (h : mget (mflip m k) k = some (o, s)) : ¬ (s > 0) := by
  induction m with
  | nil => simp [mflip, mget] at h
  | cons x m ih =>
    unfold mflip at h
    rw [List.map_cons, mget_cons] at h
    by_cases hx : x.1 = k
    · by_cases hp : x.2.2 > 0
      · simp [hx, hp] at h; omega
      · simp [hx, hp] at h; rw [h] at hp; exact hp
    · have : (if x.1 == k ∧ x.2.2 > 0 then (x.1, x.2.1, -x.2.2) else x).1 = x.1 := by split <;> rfl
      rw [this] at h
      have hx' : (x.1 == k) = false := by simpa using hx
      simp only [hx', Bool.false_eq_true, if_false] at h
      exact ih h

def stepC (m : NMap) (e : Entry) : NMap :=
  if e.off ≠ 0 ∧ e.size > 0 then mset m e.key e.off e.size else mflip m e.key

theorem loadCompact_eq (es : List Entry) : loadCompact es = es.foldl stepC [] := rfl

theorem foldl_stepC_other (es : List Entry) (k : Nat) (hk : ∀ x ∈ es, x.key ≠ k) (m : NMap) :
    mget (es.foldl stepC m) k = mget m k := by
  induction es generalizing m with
  | nil => rfl
  | cons e es ih =>
    rw [List.foldl_cons, ih (fun x hx => hk x (by simp [hx]))]
    have hne : k ≠ e.key := fun h => hk e (by simp) h.symm
    unfold stepC
    split
    · exact mget_mset_other m e.key k e.off e.size hne
    · exact mget_mflip_other m e.key k hne

/-- the map loaded from the index gives, for a key, the LAST entry of that key when it is a put -/
theorem mget_loadCompact_put (es1 es2 : List Entry) (e : Entry) (ho : e.off ≠ 0) (hs : e.size > 0)
    (hlast : ∀ x ∈ es2, x.key ≠ e.key) : mget (loadCompact (es1 ++ e :: es2)) e.key = some (e.off, e.size) := by
  rw [loadCompact_eq, List.foldl_append, List.foldl_cons, foldl_stepC_other es2 e.key hlast]
  unfold stepC
  simp only [ho, hs, ne_eq, not_false_eq_true, and_self, if_true]
  exact mget_mset_same _ _ _ _

/-- … and no positive size when the last entry of the key is a tombstone (or an empty blob) -/
theorem mget_loadCompact_del (es1 es2 : List Entry) (e : Entry) (hs : ¬ (e.off ≠ 0 ∧ e.size > 0))
    (hlast : ∀ x ∈ es2, x.key ≠ e.key) (o : Nat) (s : Int)
    (h : mget (loadCompact (es1 ++ e :: es2)) e.key = some (o, s)) : ¬ (s > 0) := by
  rw [loadCompact_eq, List.foldl_append, List.foldl_cons, foldl_stepC_other es2 e.key hlast] at h
  unfold stepC at h
  simp only [hs, if_false] at h
  exact mget_mflip_same _ _ o s h

/-- sizes in the loaded map are never 0 (an empty blob's entry is treated as a deletion) -/
theorem loadCompact_nonzero (es : List Entry) : ∀ x ∈ loadCompact es, x.2.2 ≠ 0 := by
  rw [loadCompact_eq]
  suffices h : ∀ (m : NMap), (∀ x ∈ m, x.2.2 ≠ 0) → ∀ x ∈ es.foldl stepC m, x.2.2 ≠ 0 from h [] (by simp)
  induction es with
  | nil => intro m hm; exact hm
  | cons e es ih =>
    intro m hm
    rw [List.foldl_cons]
    apply ih
    unfold stepC
    split
    · rename_i hc
      unfold mset
      split
      · intro x hx
        rw [List.mem_map] at hx
        obtain ⟨y, hy, rfl⟩ := hx
        split
        · simp only []; omega
        · exact hm y hy
      · intro x hx
        rw [List.mem_append] at hx
        rcases hx with hx | hx
        · exact hm x hx
        · simp at hx; subst hx; simp only []; omega
    · unfold mflip
      intro x hx
      rw [List.mem_map] at hx
      obtain ⟨y, hy, rfl⟩ := hx
      split
      · rename_i hc; simp only []; omega
      · exact hm y hy

theorem mget_mem (m : NMap) (k o : Nat) (s : Int) (h : mget m k = some (o, s)) : (k, o, s) ∈ m := by
  unfold mget at h
  cases hf : m.find? (fun e => e.1 == k) with
  | none => simp [hf] at h
  | some y =>
    simp [hf] at h
    have hmem := List.mem_of_find?_eq_some hf
    have hk := List.find?_some hf
    simp at hk
    obtain ⟨y1, y2, y3⟩ := y
    simp at h hk
    obtain ⟨rfl, rfl⟩ := h
    subst hk
    exact hmem

/-- `readNeedle` when the map has a live entry and the record decodes -/
theorem readNeedle_of_get (crc : Bytes → UInt32) (v : Vol) (k off : Nat) (size : Int) (d : Decoded)
    (hp : v.panicked = false) (hf : v.failed = false) (hg : mget v.map k = some (off, size)) (ho : off ≠ 0) (hs : size > 0)
    (hr : readData crc 3 v.dat.bytes (off * 8) size = .ok d) : readNeedle crc v k = .data d.body.data := by
  unfold readNeedle
  have e2 : ¬ (size < 0) := by omega
  have e3 : ¬ (size = 0) := by omega
  simp only [hp, hf, Bool.false_eq_true, or_self, if_false, hg, ho, e2, e3, hr]

/-- `writeNeedle` of a fresh id on a writable volume -/
theorem writeNeedle_fresh (crc : Bytes → UInt32) (v : Vol) (x : Needle)
    (hp : v.panicked = false) (hf : v.failed = false) (hro : v.readOnly = false) (hfresh : mget v.map x.id = none) :
    writeNeedle crc v x =
      ({ v with dat := appendRec v.dat (encode 3 x), map := mset v.map x.id (v.dat.size / 8) (recSize x),
                idx := v.idx ++ entryBytes ⟨x.id, v.dat.size / 8, recSize x⟩ }, .ok) := by
  unfold writeNeedle
  simp only [hp, hf, hro, hfresh, Bool.false_eq_true, or_self, if_false, Bool.not_true, if_true]

/-! ### the batched index walker visits every entry, for every entry count -/

theorem idxEntries_split (a b : Bytes) (ha : a.length % 16 = 0) : idxEntries (a ++ b) = idxEntries a ++ idxEntries b := by
  unfold idxEntries
  have hk : (a ++ b).length / 16 = a.length / 16 + b.length / 16 := by rw [List.length_append]; omega
  rw [hk, List.range_add, List.map_append, List.map_map]
  congr 1
  · apply List.map_congr_left
    intro i hi
    rw [List.mem_range] at hi
    rw [List.drop_append_of_le_length (by omega), List.take_append_of_le_length (by rw [List.length_drop]; omega)]
  · apply List.map_congr_left
    intro i _
    simp only [Function.comp]
    have h1 : 16 * (a.length / 16 + i) = a.length + 16 * i := by omega
    rw [h1, ← List.drop_drop, List.drop_left]

theorem walkFrom_all (rows : Nat) (hr : 0 < rows) (f : Bytes) :
    ∀ (fuel start : Nat) (acc : List Entry), f.length - start < fuel →
      walkFrom rows f fuel (start + ((f.drop start).take (16 * rows)).length) ((f.drop start).take (16 * rows))
        (decide (((f.drop start).take (16 * rows)).length < 16 * rows)) acc = (acc ++ idxEntries (f.drop start), false) := by
  intro fuel
  induction fuel with
  | zero => intro start acc h; omega
  | succ fuel ih =>
    intro start acc hfuel
    unfold walkFrom
    by_cases heof : ((f.drop start).take (16 * rows)).length < 16 * rows
    · -- last (short) read: it carries io.EOF, the loop body returns nil
      have hall : (f.drop start).take (16 * rows) = f.drop start := by
        apply List.take_of_length_le
        rw [List.length_take] at heof; omega
      rw [hall] at heof
      simp only [hall, heof, decide_true, or_true, if_true]
    · -- a full batch: more may follow (possibly nothing: then the next read returns 0 bytes and io.EOF)
      have hlen : ((f.drop start).take (16 * rows)).length = 16 * rows := by
        have := List.length_take_le (16 * rows) (f.drop start); omega
      have hpos : ((f.drop start).take (16 * rows)).length > 0 := by omega
      simp only [heof, decide_false, hpos, and_self, Bool.false_eq_true, or_false, if_true, if_false, readAt]
      have hle : start + 16 * rows ≤ f.length := by
        rw [List.length_take, List.length_drop] at hlen; omega
      have hnext := ih (start + 16 * rows) (acc ++ idxEntries ((f.drop start).take (16 * rows))) (by omega)
      rw [hlen]
      have hsplit : idxEntries (f.drop start) =
          idxEntries ((f.drop start).take (16 * rows)) ++ idxEntries (f.drop (start + 16 * rows)) := by
        have h1 : f.drop start = (f.drop start).take (16 * rows) ++ f.drop (start + 16 * rows) := by
          rw [← List.drop_drop, List.take_append_drop]
        rw [h1, idxEntries_split _ _ (by rw [hlen]; omega), ← h1]
      rw [hsplit, ← List.append_assoc]
      exact hnext

/-- `WalkIndexFile` visits exactly the complete entries of the index and returns no error — for EVERY file length
    and every positive batch size, in particular when the file is an exact multiple of the batch -/
theorem walkIndex_all (rows : Nat) (hr : 0 < rows) (f : Bytes) : walkIndex rows f = (idxEntries f, false) := by
  unfold walkIndex readAt
  simp only [List.drop_zero]
  by_cases h0 : (f.take (16 * rows)).length = 0 ∧ decide ((f.take (16 * rows)).length < 16 * rows) = true
  · have hf : f = [] := by
      have := h0.1
      rw [List.length_take] at this
      have : f.length = 0 := by omega
      exact List.eq_nil_of_length_eq_zero this
    rw [if_pos h0, hf]
    rfl
  · rw [if_neg h0]
    have := walkFrom_all rows hr f (f.length + 2) 0 [] (by omega)
    simp only [List.drop_zero, Nat.zero_add, List.nil_append] at this
    exact this

end SwV.Lemmas.C03
