/-
C05 — the section list (`CompactMap`) refines a map key ↦ (OffsetLower, OffsetHigher, Size):
section selection (`binarySearchCompactSection`), the map invariant, the denotation, and the
refinement theorems of `setL`, `delL`, `getL`; then the simulation of whole operation sequences
against the reference map of SwV/Spec/C05.lean.
-/
import SwV.Model.C05
import SwV.Spec.C05
import SwV.Lemmas.C05b
namespace SwV.Lemmas.C05
open SwV.Model.C05 SwV.Spec.C05

/-! ### equation lemmas -/

theorem setL_nil (batch key off hi : Nat) (size : Int) :
    setL batch key off hi size [] = ([Sec.first batch key off hi size], (0, 0, 0)) := rfl

theorem setL_cons_lt (batch key off hi : Nat) (size : Int) (s : Sec) (rest : List Sec) (h : key < s.start) :
    setL batch key off hi size (s :: rest) = (Sec.first batch key off hi size :: s :: rest, (0, 0, 0)) := by
  unfold setL; simp [h]

theorem setL_single (batch key off hi : Nat) (size : Int) (s : Sec) (h : ¬ key < s.start) :
    setL batch key off hi size [s] =
      if (s.cnt < batch ∨ key ≤ s.stop) ∧ key - s.start ≤ limit then
        ([(Sec.set batch s key off hi size).1], (Sec.set batch s key off hi size).2)
      else ([s, Sec.first batch key off hi size], (0, 0, 0)) := by
  unfold setL; simp only [h, if_false]

theorem setL_cons_cons (batch key off hi : Nat) (size : Int) (s t : Sec) (rest : List Sec) (h : ¬ key < s.start) :
    setL batch key off hi size (s :: t :: rest) =
      if t.start ≤ key then (s :: (setL batch key off hi size (t :: rest)).1, (setL batch key off hi size (t :: rest)).2)
      else if key - s.start ≤ limit then
        ((Sec.set batch s key off hi size).1 :: t :: rest, (Sec.set batch s key off hi size).2)
      else (s :: Sec.first batch key off hi size :: t :: rest, (0, 0, 0)) := by
  rw [setL]; simp only [h, if_false]

theorem delL_cons_lt (batch key : Nat) (s : Sec) (rest : List Sec) (h : key < s.start) :
    delL batch key (s :: rest) = (s :: rest, 0) := by
  unfold delL; simp [h]

theorem delL_single (batch key : Nat) (s : Sec) (h : ¬ key < s.start) :
    delL batch key [s] =
      if s.cnt < batch ∨ key ≤ s.stop then ([(Sec.delete s key).1], (Sec.delete s key).2) else ([s], 0) := by
  unfold delL; simp only [h, if_false]

theorem delL_cons_cons (batch key : Nat) (s t : Sec) (rest : List Sec) (h : ¬ key < s.start) :
    delL batch key (s :: t :: rest) =
      if t.start ≤ key then (s :: (delL batch key (t :: rest)).1, (delL batch key (t :: rest)).2)
      else ((Sec.delete s key).1 :: t :: rest, (Sec.delete s key).2) := by
  rw [delL]; simp only [h, if_false]

theorem getL_cons_lt (batch key : Nat) (s : Sec) (rest : List Sec) (h : key < s.start) :
    getL batch key (s :: rest) = none := by
  unfold getL; simp [h]

theorem getL_single (batch key : Nat) (s : Sec) (h : ¬ key < s.start) :
    getL batch key [s] = if s.cnt < batch ∨ key ≤ s.stop then Sec.get s key else none := by
  unfold getL; simp only [h, if_false]

theorem getL_cons_cons (batch key : Nat) (s t : Sec) (rest : List Sec) (h : ¬ key < s.start) :
    getL batch key (s :: t :: rest) = if t.start ≤ key then getL batch key (t :: rest) else Sec.get s key := by
  rw [getL]; simp only [h, if_false]

/-! ### section selection and the denotation -/

/-- `binarySearchCompactSection`: apply `f` to the last section whose start is ≤ k -/
def sel {α : Type} (f : Sec → Option α) (k : Nat) : List Sec → Option α
  | [] => none
  | s :: rest =>
    if k < s.start then none
    else match rest with
      | [] => f s
      | t :: _ => if t.start ≤ k then sel f k rest else f s

theorem sel_cons_lt {α : Type} (f : Sec → Option α) (k : Nat) (s : Sec) (rest : List Sec) (h : k < s.start) :
    sel f k (s :: rest) = none := by
  unfold sel; simp [h]

theorem sel_single {α : Type} (f : Sec → Option α) (k : Nat) (s : Sec) (h : ¬ k < s.start) :
    sel f k [s] = f s := by
  unfold sel; simp only [h, if_false]

theorem sel_cons_cons {α : Type} (f : Sec → Option α) (k : Nat) (s t : Sec) (rest : List Sec) (h : ¬ k < s.start) :
    sel f k (s :: t :: rest) = if t.start ≤ k then sel f k (t :: rest) else f s := by
  rw [sel]; simp only [h, if_false]

def valOf (e : Ent) : Old := (e.off, e.hi, e.size)

/-- binding of key `k` in section `s` (keys further than `SectionalNeedleIdLimit` from the start
    are never stored in it) -/
def dsec (k : Nat) (s : Sec) : Option Old :=
  if k - s.start ≤ limit then (look s (k - s.start)).map valOf else none

/-- the OVERFLOW entry of key `k` in section `s`, if any -/
def dovf (k : Nat) (s : Sec) : Option Ent :=
  if k - s.start ≤ limit then getK (k - s.start) s.ovf else none

/-- the map a CompactMap denotes -/
def denote (k : Nat) (cm : List Sec) : Option Old := sel (dsec k) k cm

/-- the overflow entry holding `k`, if it is held by an overflow list -/
def ovfAt (k : Nat) (cm : List Sec) : Option Ent := sel (dovf k) k cm

/-- `k` is within 2^32 of the start of the section that Get/Delete consult for it
    (otherwise `SectionalNeedleId(key - start)` wraps: findings CompactMap.Get/returns-entry-of-other-key,
    CompactMap.Delete/deletes-entry-of-other-key) -/
def noAlias (k : Nat) (cm : List Sec) : Bool :=
  sel (fun s => some (decide (k - s.start ≤ limit))) k cm != some false

/-- bounds of a section; `nxt` = start of the following section -/
def SecBound (s : Sec) (nxt : Option Nat) : Prop :=
  s.start ≤ s.stop ∧ s.stop ≤ s.start + limit ∧
  (∀ x, (x ∈ keys s.rvals ∨ x ∈ keys s.ovf) → s.start + x ≤ s.stop) ∧
  (∀ n, nxt = some n → s.stop < n)

/-- invariant of the section list: every section satisfies its representation invariant, all its
    keys lie in `[start, stop]`, `stop - start < 2^32`, and `stop` is below the next start -/
def MapInv (batch : Nat) : List Sec → Prop
  | [] => True
  | s :: rest => SecInv batch s ∧ SecBound s (rest.head?.map (·.start)) ∧ MapInv batch rest

theorem skeyOf_eq (s : Sec) (key : Nat) (hlim : key - s.start ≤ limit) : skeyOf s key = key - s.start := by
  unfold skeyOf; apply Nat.mod_eq_of_lt; unfold limit at hlim; omega

theorem dsec_none_of_gt_stop (s : Sec) (nxt : Option Nat) (hb : SecBound s nxt) (k : Nat)
    (hge : s.start ≤ k) (hgt : s.stop < k) : dsec k s = none ∧ dovf k s = none := by
  obtain ⟨_, _, b3, _⟩ := hb
  have h1 : k - s.start ∉ keys s.ovf := fun hx => by have := b3 _ (Or.inr hx); omega
  have h2 : k - s.start ∉ keys s.rvals := fun hx => by have := b3 _ (Or.inl hx); omega
  unfold dsec dovf
  constructor
  · split
    · rw [look_none_of_not_mem s _ h1 h2]; rfl
    · rfl
  · split
    · exact (getK_eq_none_iff _ _).mpr h1
    · rfl

/-! ### one section, in terms of real keys -/

theorem secSet_dsec (batch : Nat) (s : Sec) (nxt : Option Nat) (h : SecInv batch s) (hb : SecBound s nxt)
    (key off hi : Nat) (size : Int) (hge : s.start ≤ key) (hlim : key - s.start ≤ limit)
    (hn : ∀ n, nxt = some n → key < n) :
    SecInv batch (Sec.set batch s key off hi size).1 ∧ SecBound (Sec.set batch s key off hi size).1 nxt ∧
    (Sec.set batch s key off hi size).1.start = s.start ∧
    (∀ k, s.start ≤ k → dsec k (Sec.set batch s key off hi size).1 =
        if k = key then some (off, (match dovf key s with | some e => e.hi | none => hi), size) else dsec k s) ∧
    (Sec.set batch s key off hi size).2 = (dsec key s).getD (0, 0, 0) := by
  have hsk : skeyOf s key = key - s.start := skeyOf_eq s key hlim
  have h0 := secSet_refines batch s h key off hi size 0
  try simp only at h0
  obtain ⟨hinv, hstart, hstop, _, hkeys, _, hold⟩ := h0
  rw [hsk] at hkeys hold
  obtain ⟨b1, b2, b3, b4⟩ := hb
  refine ⟨hinv, ⟨?_, ?_, ?_, ?_⟩, hstart, ?_, ?_⟩
  · rw [hstart, hstop]; omega
  · rw [hstart, hstop]; omega
  · intro x hx; rw [hstart, hstop]
    rcases (hkeys x).mp hx with hx | hx
    · subst hx; omega
    · have := b3 x hx; omega
  · intro n hnn; rw [hstop]; have := b4 n hnn; have := hn n hnn; omega
  · intro k hk
    have hk' := (secSet_refines batch s h key off hi size (k - s.start)).2.2.2.2.2.1
    try simp only at hk'
    rw [hsk] at hk'
    unfold dsec
    rw [hstart]
    by_cases hkl : k - s.start ≤ limit
    · simp only [hkl, if_true]; rw [hk']
      by_cases hkk : k = key
      · subst hkk; simp only [if_true]
        unfold setEnt dovf; simp only [hlim, if_true]
        cases getK (k - s.start) s.ovf <;> rfl
      · have : ¬ k - s.start = key - s.start := by omega
        simp only [this, hkk, if_false]
    · have : ¬ k = key := by intro hh; subst hh; exact hkl hlim
      simp only [hkl, this, if_false]
  · rw [hold]; unfold dsec; simp only [hlim, if_true]
    cases look s (key - s.start) <;> rfl

/-- `Delete` on a stored value: a positive size is negated -/
def negV (v : Old) : Old := if v.2.2 > 0 then (v.1, v.2.1, -v.2.2) else v

theorem secDelete_dsec (batch : Nat) (s : Sec) (nxt : Option Nat) (h : SecInv batch s) (hb : SecBound s nxt)
    (key : Nat) (hge : s.start ≤ key) (hlim : key - s.start ≤ limit) :
    SecInv batch (Sec.delete s key).1 ∧ SecBound (Sec.delete s key).1 nxt ∧
    (Sec.delete s key).1.start = s.start ∧
    (∀ k, s.start ≤ k → dsec k (Sec.delete s key).1 = if k = key then (dsec key s).map negV else dsec k s) ∧
    (Sec.delete s key).2 = (match dovf key s with
      | some v => v.size
      | none => match dsec key s with
        | some v => if v.2.2 > 0 then v.2.2 else 0
        | none => 0) := by
  have hsk : skeyOf s key = key - s.start := skeyOf_eq s key hlim
  obtain ⟨f1, f2, _, f4, f5⟩ := secDelete_frame s key
  have h0 := secDelete_refines batch s h key 0
  try simp only at h0
  obtain ⟨hinv, _, hret⟩ := h0
  rw [hsk] at hret
  obtain ⟨b1, b2, b3, b4⟩ := hb
  refine ⟨hinv, ⟨?_, ?_, ?_, ?_⟩, f1, ?_, ?_⟩
  · rw [f1, f2]; exact b1
  · rw [f1, f2]; exact b2
  · intro x hx; rw [f1, f2, f4, f5] at *; exact b3 x hx
  · intro n hnn; rw [f2]; exact b4 n hnn
  · intro k hk
    have hk' := (secDelete_refines batch s h key (k - s.start)).2.1
    try simp only at hk'
    rw [hsk] at hk'
    unfold dsec
    rw [f1]
    by_cases hkl : k - s.start ≤ limit
    · simp only [hkl, hlim, if_true]; rw [hk']
      by_cases hkk : k = key
      · subst hkk; simp only [if_true]
        cases look s (k - s.start) with
        | none => rfl
        | some e =>
          simp only [Option.map, valOf, negV]
          by_cases hp : e.size > 0 <;> simp [hp]
      · have : ¬ k - s.start = key - s.start := by omega
        simp only [this, hkk, if_false]
    · have : ¬ k = key := by intro hh; subst hh; exact hkl hlim
      simp only [hkl, this, if_false]
  · rw [hret]; unfold dovf dsec look; simp only [hlim, if_true]
    cases getK (key - s.start) s.ovf with
    | some v => rfl
    | none =>
      simp only
      cases getK (key - s.start) s.rvals with
      | none => rfl
      | some e => rfl

def toNVk (key : Nat) (v : Old) : NV := ⟨key, v.1, v.2.1, v.2.2⟩

theorem secGet_dsec (batch : Nat) (s : Sec) (h : SecInv batch s) (key : Nat)
    (hge : s.start ≤ key) (hlim : key - s.start ≤ limit) :
    Sec.get s key = (dsec key s).map (toNVk key) := by
  rw [secGet_refines batch s h key, skeyOf_eq s key hlim]
  unfold dsec; simp only [hlim, if_true]
  cases hl : look s (key - s.start) with
  | none => rfl
  | some e =>
    have := look_key _ _ _ hl
    simp only [Option.map, toNV, toNVk, valOf, this]
    congr 2; omega

theorem first_props (batch key off hi : Nat) (size : Int) (nxt : Option Nat) (hn : ∀ n, nxt = some n → key < n) :
    SecInv batch (Sec.first batch key off hi size) ∧ SecBound (Sec.first batch key off hi size) nxt ∧
    (Sec.first batch key off hi size).start = key ∧
    (∀ k, key ≤ k → dsec k (Sec.first batch key off hi size) = if k = key then some (off, hi, size) else none) := by
  have hfi : SecInv batch (Sec.fresh key) := by
    refine ⟨rfl, ?_, ?_, ?_, ?_⟩
    · simp [DescSorted, keys, Sec.fresh]
    · simp [AscSorted, keys, Sec.fresh]
    · intro x hx; simp [keys, Sec.fresh] at hx
    · intro _ x hx; simp [keys, Sec.fresh] at hx
  have hfb : SecBound { Sec.fresh key with stop := key } nxt := by
    refine ⟨Nat.le_refl _, Nat.le_add_right _ _, ?_, ?_⟩
    · intro x hx; simp [keys, Sec.fresh] at hx
    · intro n hnn; exact hn n hnn
  -- `stop` of the fresh section is 0; the invariants below only need it after the first Set
  have hlim : key - (Sec.fresh key).start ≤ limit := by simp [Sec.fresh]
  have hsk : skeyOf (Sec.fresh key) key = 0 := by rw [skeyOf_eq _ _ hlim]; simp [Sec.fresh]
  have h0 := secSet_refines batch (Sec.fresh key) hfi key off hi size 0
  try simp only at h0
  obtain ⟨hinv, hstart, hstop, _, hkeys, _, _⟩ := h0
  rw [hsk] at hkeys
  have hstart' : (Sec.first batch key off hi size).start = key := hstart
  have hstop' : (Sec.first batch key off hi size).stop = key := by
    show (Sec.set batch (Sec.fresh key) key off hi size).1.stop = key
    rw [hstop]; simp [Sec.fresh]
  refine ⟨hinv, ⟨?_, ?_, ?_, ?_⟩, hstart', ?_⟩
  · rw [hstart', hstop']; exact Nat.le_refl _
  · rw [hstart', hstop']; exact Nat.le_add_right _ _
  · intro x hx; rw [hstart', hstop']
    rcases (hkeys x).mp hx with hx | hx
    · omega
    · simp [keys, Sec.fresh] at hx
  · intro n hnn; rw [hstop']; exact hn n hnn
  · intro k hk
    have hk' := (secSet_refines batch (Sec.fresh key) hfi key off hi size (k - key)).2.2.2.2.2.1
    try simp only at hk'
    rw [hsk] at hk'
    unfold dsec
    rw [hstart']
    have hk'' : look (Sec.first batch key off hi size) (k - key) =
        if k - key = 0 then some (setEnt (Sec.fresh key) 0 off hi size) else look (Sec.fresh key) (k - key) := hk'
    rw [hk'']
    by_cases hkk : k = key
    · subst hkk; simp [limit, setEnt, Sec.fresh, getK, valOf]
    · have : ¬ k - key = 0 := by omega
      simp only [this, hkk, if_false]
      have : look (Sec.fresh key) (k - key) = none := by simp [look, Sec.fresh, getK]
      rw [this]; split <;> rfl

/-! ### the section list -/

theorem head_start_cons (l : List Sec) (a : Nat) (h : l.head?.map (·.start) = some a) :
    ∃ t rest, l = t :: rest ∧ t.start = a := by
  cases l with
  | nil => simp at h
  | cons t rest => exact ⟨t, rest, rfl, by simpa using h⟩

/-- the `OffsetHigher` byte the entry of `key` has after `Set … hi`: an overwritten overflow entry
    keeps its old one -/
def hiEff (key hi : Nat) (cm : List Sec) : Nat :=
  match ovfAt key cm with
  | some e => e.hi
  | none => hi

theorem setL_refines (batch : Nat) (key off hi : Nat) (size : Int) (cm : List Sec) (h : MapInv batch cm) :
    MapInv batch (setL batch key off hi size cm).1 ∧
    (∀ s0, cm.head? = some s0 → s0.start ≤ key →
      (setL batch key off hi size cm).1.head?.map (·.start) = some s0.start) ∧
    (∀ k, denote k (setL batch key off hi size cm).1 =
      if k = key then some (off, hiEff key hi cm, size) else denote k cm) ∧
    (setL batch key off hi size cm).2 = (denote key cm).getD (0, 0, 0) := by
  induction cm with
  | nil =>
    rw [setL_nil]
    obtain ⟨f1, f2, f3, f4⟩ := first_props batch key off hi size none (by intro n hn; cases hn)
    refine ⟨⟨f1, f2, trivial⟩, (by intro s0 hs0; cases hs0), ?_, rfl⟩
    intro k
    unfold denote hiEff ovfAt
    by_cases hk : k < key
    · rw [sel_cons_lt _ _ _ _ (by rw [f3]; exact hk)]
      have : ¬ k = key := by omega
      simp [this, sel]
    · rw [sel_single _ _ _ (by rw [f3]; exact hk), f4 k (by omega)]
      simp [sel]
  | cons s rest ih =>
    obtain ⟨hsi, hsb, hrest⟩ := h
    by_cases hlt : key < s.start
    · -- a new section in front
      rw [setL_cons_lt _ _ _ _ _ _ _ hlt]
      obtain ⟨f1, f2, f3, f4⟩ := first_props batch key off hi size (some s.start)
        (by intro n hn; cases hn; exact hlt)
      refine ⟨⟨f1, f2, hsi, hsb, hrest⟩, (by intro s0 hs0 hle; simp at hs0; subst hs0; omega), ?_, ?_⟩
      · intro k
        unfold denote hiEff ovfAt
        rw [sel_cons_lt (dovf key) key s rest hlt]
        by_cases hk : k < key
        · rw [sel_cons_lt _ _ _ _ (by rw [f3]; exact hk), sel_cons_lt _ _ _ _ (by omega)]
          have : ¬ k = key := by omega
          simp [this]
        · rw [sel_cons_cons _ _ _ _ _ (by rw [f3]; exact hk)]
          by_cases hk2 : s.start ≤ k
          · have : ¬ k = key := by omega
            simp only [hk2, this, if_true, if_false]
          · simp only [hk2, if_false]
            rw [f4 k (by omega), sel_cons_lt _ _ _ _ (by omega)]
      · unfold denote; rw [sel_cons_lt _ _ _ _ hlt]; rfl
    · cases rest with
      | nil =>
        rw [setL_single _ _ _ _ _ _ hlt]
        by_cases hc : (s.cnt < batch ∨ key ≤ s.stop) ∧ key - s.start ≤ limit
        · rw [if_pos hc]
          obtain ⟨g1, g2, g3, g4, g5⟩ := secSet_dsec batch s none hsi hsb key off hi size (by omega) hc.2
            (by intro n hn; cases hn)
          refine ⟨⟨g1, g2, trivial⟩, (by intro s0 hs0 _; simp at hs0; subst hs0; simp [g3]), ?_, ?_⟩
          · intro k
            unfold denote hiEff ovfAt
            rw [sel_single (dovf key) key s hlt]
            by_cases hk : k < s.start
            · rw [sel_cons_lt _ _ _ _ (by rw [g3]; exact hk), sel_cons_lt _ _ _ _ hk]
              have : ¬ k = key := by omega
              simp [this]
            · rw [sel_single _ _ _ (by rw [g3]; exact hk), sel_single _ _ _ hk, g4 k (by omega)]
          · unfold denote; rw [sel_single _ _ _ hlt]; exact g5
        · rw [if_neg hc]
          have hstop : s.stop < key := by
            obtain ⟨b1, b2, _, _⟩ := hsb
            by_cases h1 : key - s.start ≤ limit
            · have : ¬ (s.cnt < batch ∨ key ≤ s.stop) := fun hh => hc ⟨hh, h1⟩
              omega
            · omega
          obtain ⟨f1, f2, f3, f4⟩ := first_props batch key off hi size none (by intro n hn; cases hn)
          have hsb' : SecBound s (some key) := by
            obtain ⟨b1, b2, b3, _⟩ := hsb
            exact ⟨b1, b2, b3, by intro n hn; cases hn; exact hstop⟩
          have hdn : dsec key s = none ∧ dovf key s = none := dsec_none_of_gt_stop s _ hsb key (by omega) hstop
          refine ⟨⟨hsi, by simpa [f3] using hsb', f1, f2, trivial⟩, (by intro s0 hs0 _; simp at hs0; subst hs0; simp), ?_, ?_⟩
          · intro k
            unfold denote hiEff ovfAt
            rw [sel_single (dovf key) key s hlt, hdn.2]
            by_cases hk : k < s.start
            · rw [sel_cons_lt _ _ _ _ hk, sel_cons_lt _ _ _ _ hk]
              have : ¬ k = key := by omega
              simp [this]
            · rw [sel_cons_cons _ _ _ _ _ hk, sel_single _ _ _ hk, f3]
              by_cases hk2 : key ≤ k
              · simp only [hk2, if_true]
                rw [sel_single _ _ _ (by rw [f3]; omega), f4 k hk2]
                by_cases hkk : k = key
                · simp [hkk]
                · simp only [hkk, if_false]
                  exact (dsec_none_of_gt_stop s _ hsb k (by omega) (by omega)).1.symm
              · have : ¬ k = key := by omega
                simp only [hk2, this, if_false]
          · unfold denote; rw [sel_single _ _ _ hlt, hdn.1]; rfl
      | cons t rest' =>
        rw [setL_cons_cons _ _ _ _ _ _ _ _ hlt]
        by_cases ht : t.start ≤ key
        · rw [if_pos ht]
          obtain ⟨i1, i2, i3, i4⟩ := ih hrest
          obtain ⟨t', r', hr', ht'⟩ := head_start_cons _ _ (i2 t rfl ht)
          rw [hr'] at i1 i3 ⊢
          refine ⟨⟨hsi, by simpa [ht'] using hsb, i1⟩, (by intro s0 hs0 _; simp at hs0; subst hs0; simp), ?_, ?_⟩
          · intro k
            have i3k := i3 k
            unfold denote hiEff ovfAt at i3k ⊢
            rw [sel_cons_cons (dovf key) key s t rest' hlt, if_pos ht]
            by_cases hk : k < s.start
            · rw [sel_cons_lt _ _ _ _ hk, sel_cons_lt _ _ _ _ hk]
              have : ¬ k = key := by omega
              simp [this]
            · rw [sel_cons_cons _ _ _ _ _ hk, sel_cons_cons _ _ _ _ _ hk, ht']
              by_cases hk2 : t.start ≤ k
              · simp only [hk2, if_true]; exact i3k
              · have : ¬ k = key := by omega
                simp only [hk2, this, if_false]
          · unfold denote at i4 ⊢
            rw [sel_cons_cons _ _ _ _ _ hlt, if_pos ht]; exact i4
        · rw [if_neg ht]
          have hsb0 : SecBound s (some t.start) := by simpa using hsb
          by_cases hlim : key - s.start ≤ limit
          · rw [if_pos hlim]
            obtain ⟨g1, g2, g3, g4, g5⟩ := secSet_dsec batch s (some t.start) hsi hsb0 key off hi size (by omega) hlim
              (by intro n hn; cases hn; omega)
            refine ⟨⟨g1, by simpa using g2, hrest⟩, (by intro s0 hs0 _; simp at hs0; subst hs0; simp [g3]), ?_, ?_⟩
            · intro k
              unfold denote hiEff ovfAt
              rw [sel_cons_cons (dovf key) key s t rest' hlt, if_neg ht]
              by_cases hk : k < s.start
              · rw [sel_cons_lt _ _ _ _ (by rw [g3]; exact hk), sel_cons_lt _ _ _ _ hk]
                have : ¬ k = key := by omega
                simp [this]
              · rw [sel_cons_cons _ _ _ _ _ (by rw [g3]; exact hk), sel_cons_cons _ _ _ _ _ hk]
                by_cases hk2 : t.start ≤ k
                · have : ¬ k = key := by omega
                  simp only [hk2, this, if_true, if_false]
                · simp only [hk2, if_false]; exact g4 k (by omega)
            · unfold denote; rw [sel_cons_cons _ _ _ _ _ hlt, if_neg ht]; exact g5
          · rw [if_neg hlim]
            obtain ⟨f1, f2, f3, f4⟩ := first_props batch key off hi size (some t.start)
              (by intro n hn; cases hn; omega)
            have hsb' : SecBound s (some key) := by
              obtain ⟨b1, b2, b3, _⟩ := hsb0
              exact ⟨b1, b2, b3, by intro n hn; cases hn; omega⟩
            have hdn : ∀ k, key ≤ k → dsec k s = none ∧ dovf k s = none := by
              intro k hk
              unfold dsec dovf
              have : ¬ k - s.start ≤ limit := by omega
              simp [this]
            refine ⟨⟨hsi, by simpa [f3] using hsb', f1, by simpa using f2, hrest⟩,
              (by intro s0 hs0 _; simp at hs0; subst hs0; simp), ?_, ?_⟩
            · intro k
              unfold denote hiEff ovfAt
              rw [sel_cons_cons (dovf key) key s t rest' hlt, if_neg ht, (hdn key (Nat.le_refl _)).2]
              by_cases hk : k < s.start
              · rw [sel_cons_lt _ _ _ _ hk, sel_cons_lt _ _ _ _ hk]
                have : ¬ k = key := by omega
                simp [this]
              · rw [sel_cons_cons _ _ _ _ _ hk, sel_cons_cons _ _ _ _ _ hk, f3]
                by_cases hk2 : key ≤ k
                · simp only [hk2, if_true]
                  rw [sel_cons_cons _ _ _ _ _ (by rw [f3]; omega)]
                  by_cases hk3 : t.start ≤ k
                  · have : ¬ k = key := by omega
                    simp only [hk3, this, if_true, if_false]
                  · simp only [hk3, if_false]
                    rw [f4 k hk2, (hdn k hk2).1]
                · have h1 : ¬ k = key := by omega
                  have h2 : ¬ t.start ≤ k := by omega
                  simp only [hk2, h1, h2, if_false]
            · unfold denote; rw [sel_cons_cons _ _ _ _ _ hlt, if_neg ht, (hdn key (Nat.le_refl _)).1]; rfl

theorem delL_refines (batch : Nat) (key : Nat) (cm : List Sec) (h : MapInv batch cm)
    (hna : noAlias key cm = true) :
    MapInv batch (delL batch key cm).1 ∧
    (delL batch key cm).1.head?.map (·.start) = cm.head?.map (·.start) ∧
    (∀ k, denote k (delL batch key cm).1 = if k = key then (denote key cm).map negV else denote k cm) ∧
    (delL batch key cm).2 = (match ovfAt key cm with
      | some v => v.size
      | none => match denote key cm with
        | some v => if v.2.2 > 0 then v.2.2 else 0
        | none => 0) := by
  induction cm with
  | nil =>
    refine ⟨trivial, rfl, ?_, rfl⟩
    intro k; simp [delL, denote, sel]
  | cons s rest ih =>
    obtain ⟨hsi, hsb, hrest⟩ := h
    by_cases hlt : key < s.start
    · rw [delL_cons_lt _ _ _ _ hlt]
      refine ⟨⟨hsi, hsb, hrest⟩, rfl, ?_, ?_⟩
      · intro k
        by_cases hkk : k = key
        · subst hkk; unfold denote; rw [sel_cons_lt _ _ _ _ hlt]; simp
        · simp [hkk]
      · unfold ovfAt denote; rw [sel_cons_lt _ _ _ _ hlt, sel_cons_lt _ _ _ _ hlt]
    · cases rest with
      | nil =>
        rw [delL_single _ _ _ hlt]
        by_cases hc : s.cnt < batch ∨ key ≤ s.stop
        · rw [if_pos hc]
          have hlim : key - s.start ≤ limit := by
            unfold noAlias at hna; rw [sel_single _ _ _ hlt] at hna; simpa using hna
          obtain ⟨g1, g2, g3, g4, g5⟩ := secDelete_dsec batch s none hsi hsb key (by omega) hlim
          refine ⟨⟨g1, g2, trivial⟩, (by simp [g3]), ?_, ?_⟩
          · intro k
            unfold denote
            by_cases hk : k < s.start
            · rw [sel_cons_lt _ _ _ _ (by rw [g3]; exact hk), sel_cons_lt _ _ _ _ hk]
              have : ¬ k = key := by omega
              simp [this]
            · rw [sel_single _ _ _ (by rw [g3]; exact hk), sel_single _ _ _ hk, sel_single _ _ _ hlt, g4 k (by omega)]
          · unfold ovfAt denote; rw [sel_single _ _ _ hlt, sel_single _ _ _ hlt]; exact g5
        · rw [if_neg hc]
          have hdn := dsec_none_of_gt_stop s _ hsb key (by omega) (by omega)
          refine ⟨⟨hsi, hsb, trivial⟩, rfl, ?_, ?_⟩
          · intro k
            by_cases hkk : k = key
            · subst hkk; unfold denote; rw [sel_single _ _ _ hlt, hdn.1]; simp
            · simp [hkk]
          · unfold ovfAt denote; rw [sel_single _ _ _ hlt, sel_single _ _ _ hlt, hdn.1, hdn.2]
      | cons t rest' =>
        rw [delL_cons_cons _ _ _ _ _ hlt]
        by_cases ht : t.start ≤ key
        · rw [if_pos ht]
          have hna' : noAlias key (t :: rest') = true := by
            unfold noAlias at hna ⊢; rw [sel_cons_cons _ _ _ _ _ hlt, if_pos ht] at hna; exact hna
          obtain ⟨i1, i2, i3, i4⟩ := ih hrest hna'
          obtain ⟨t', r', hr', ht'⟩ := head_start_cons _ t.start (by simpa using i2)
          rw [hr'] at i1 i3 ⊢
          refine ⟨⟨hsi, (by simpa [ht'] using hsb), i1⟩, (by simp), ?_, ?_⟩
          · intro k
            have i3k := i3 k
            unfold denote at i3k ⊢
            by_cases hk : k < s.start
            · rw [sel_cons_lt _ _ _ _ hk, sel_cons_lt _ _ _ _ hk]
              have : ¬ k = key := by omega
              simp [this]
            · rw [sel_cons_cons _ _ _ _ _ hk, sel_cons_cons _ _ _ _ _ hk, sel_cons_cons _ _ _ _ _ hlt, if_pos ht, ht']
              by_cases hk2 : t.start ≤ k
              · simp only [hk2, if_true]; exact i3k
              · have : ¬ k = key := by omega
                simp only [hk2, this, if_false]
          · unfold ovfAt denote at i4 ⊢
            simp only [sel_cons_cons _ _ _ _ _ hlt, ht, if_true]; exact i4
        · rw [if_neg ht]
          have hsb0 : SecBound s (some t.start) := by simpa using hsb
          have hlim : key - s.start ≤ limit := by
            unfold noAlias at hna; rw [sel_cons_cons _ _ _ _ _ hlt, if_neg ht] at hna; simpa using hna
          obtain ⟨g1, g2, g3, g4, g5⟩ := secDelete_dsec batch s (some t.start) hsi hsb0 key (by omega) hlim
          refine ⟨⟨g1, (by simpa using g2), hrest⟩, (by simp [g3]), ?_, ?_⟩
          · intro k
            unfold denote
            by_cases hk : k < s.start
            · rw [sel_cons_lt _ _ _ _ (by rw [g3]; exact hk), sel_cons_lt _ _ _ _ hk]
              have : ¬ k = key := by omega
              simp [this]
            · rw [sel_cons_cons _ _ _ _ _ (by rw [g3]; exact hk), sel_cons_cons _ _ _ _ _ hk,
                sel_cons_cons _ _ _ _ _ hlt, if_neg ht]
              by_cases hk2 : t.start ≤ k
              · have : ¬ k = key := by omega
                simp only [hk2, this, if_true, if_false]
              · simp only [hk2, if_false]; exact g4 k (by omega)
          · unfold ovfAt denote
            simp only [sel_cons_cons _ _ _ _ _ hlt, ht, if_false]; exact g5

theorem getL_refines (batch : Nat) (key : Nat) (cm : List Sec) (h : MapInv batch cm)
    (hna : noAlias key cm = true) :
    getL batch key cm = (denote key cm).map (toNVk key) := by
  induction cm with
  | nil => rfl
  | cons s rest ih =>
    obtain ⟨hsi, hsb, hrest⟩ := h
    unfold denote at ih ⊢
    by_cases hlt : key < s.start
    · rw [getL_cons_lt _ _ _ _ hlt, sel_cons_lt _ _ _ _ hlt]; rfl
    · cases rest with
      | nil =>
        rw [getL_single _ _ _ hlt, sel_single _ _ _ hlt]
        by_cases hc : s.cnt < batch ∨ key ≤ s.stop
        · rw [if_pos hc]
          have hlim : key - s.start ≤ limit := by
            unfold noAlias at hna; rw [sel_single _ _ _ hlt] at hna; simpa using hna
          exact secGet_dsec batch s hsi key (by omega) hlim
        · rw [if_neg hc, (dsec_none_of_gt_stop s _ hsb key (by omega) (by omega)).1]; rfl
      | cons t rest' =>
        rw [getL_cons_cons _ _ _ _ _ hlt, sel_cons_cons _ _ _ _ _ hlt]
        by_cases ht : t.start ≤ key
        · rw [if_pos ht, if_pos ht]
          have hna' : noAlias key (t :: rest') = true := by
            unfold noAlias at hna ⊢; rw [sel_cons_cons _ _ _ _ _ hlt, if_pos ht] at hna; exact hna
          exact ih hrest hna'
        · rw [if_neg ht, if_neg ht]
          have hlim : key - s.start ≤ limit := by
            unfold noAlias at hna; rw [sel_cons_cons _ _ _ _ _ hlt, if_neg ht] at hna; simpa using hna
          exact secGet_dsec batch s hsi key (by omega) hlim

/-- an entry found in an overflow list is the denoted binding -/
theorem ovfAt_denote (key : Nat) (cm : List Sec) (v : Ent) (h : ovfAt key cm = some v) :
    denote key cm = some (valOf v) := by
  unfold ovfAt at h; unfold denote
  induction cm with
  | nil => simp [sel] at h
  | cons s rest ih =>
    have hs : dovf key s = some v → dsec key s = some (valOf v) := by
      unfold dovf dsec look
      intro hh
      split at hh
      · rename_i hl; simp only [hl, if_true, hh]; rfl
      · cases hh
    by_cases hlt : key < s.start
    · rw [sel_cons_lt _ _ _ _ hlt] at h; cases h
    · cases rest with
      | nil => rw [sel_single _ _ _ hlt] at h ⊢; exact hs h
      | cons t rest' =>
        rw [sel_cons_cons _ _ _ _ _ hlt] at h ⊢
        by_cases ht : t.start ≤ key
        · rw [if_pos ht] at h ⊢; exact ih h
        · rw [if_neg ht] at h ⊢; exact hs h

end SwV.Lemmas.C05
