/- C06 — kernel check of the decoding-matrix certificates, part 0 (see SwV/Lemmas/C06Certs.lean) -/
import SwV.Model.C06RS
namespace SwV.Lemmas.C06
open SwV.Model.C06
set_option maxRecDepth 100000

theorem certs_chunk_0 : ((certTable.drop (50 * 0)).take 50).all certOk = true := by decide +kernel
theorem certs_chunk_1 : ((certTable.drop (50 * 1)).take 50).all certOk = true := by decide +kernel
theorem certs_chunk_2 : ((certTable.drop (50 * 2)).take 50).all certOk = true := by decide +kernel
theorem certs_chunk_3 : ((certTable.drop (50 * 3)).take 50).all certOk = true := by decide +kernel
theorem certs_chunk_4 : ((certTable.drop (50 * 4)).take 50).all certOk = true := by decide +kernel

end SwV.Lemmas.C06
