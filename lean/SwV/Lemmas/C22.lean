/-
C22 — helper lemmas: strictly increasing lists and windows of them; correctness of the three ways
`ReadFromBuffer` cuts a buffer (whole buffer, `locateByTs`, binary search).  Core Lean only.
-/
import SwV.Model.C22
import SwV.Spec.C22
namespace SwV.Lemmas.C22
open SwV.Model.C22 SwV.Spec.C22

/-- strictly increasing -/
abbrev Sorted (l : List Nat) : Prop := l.Pairwise (· < ·)

/-- the entries with a timestamp in the window (lo, hi] -/
def window (lo hi : Int) (l : List Nat) : List Nat :=
  l.filter (fun t => decide (lo < (t : Int) ∧ (t : Int) ≤ hi))

theorem window_append (lo hi : Int) (a b : List Nat) : window lo hi (a ++ b) = window lo hi a ++ window lo hi b := by
  simp [window, List.filter_append]

theorem window_eq_nil {lo hi : Int} {l : List Nat} (h : ∀ t ∈ l, ¬ (lo < (t : Int) ∧ (t : Int) ≤ hi)) : window lo hi l = [] := by
  simp only [window, List.filter_eq_nil_iff]; intro a ha; simpa using h a ha

theorem window_eq_self {lo hi : Int} {l : List Nat} (h : ∀ t ∈ l, lo < (t : Int) ∧ (t : Int) ≤ hi) : window lo hi l = l := by
  simp only [window, List.filter_eq_self]; intro a ha; simpa using h a ha

/-- In a strictly increasing list `A ++ (D ++ [x]) ++ C` whose `A` part is ≤ T and whose middle part is > T,
    the window (T, x] is exactly the middle part. -/
theorem window_mid (A D C : List Nat) (x : Nat) (T : Int)
    (hs : Sorted (A ++ (D ++ [x]) ++ C)) (hA : ∀ t ∈ A, (t : Int) ≤ T) (hB : ∀ t ∈ D ++ [x], T < (t : Int)) :
    window T x (A ++ (D ++ [x]) ++ C) = D ++ [x] := by
  have h1 := List.pairwise_append.mp hs
  have h2 := List.pairwise_append.mp h1.1
  have h3 := List.pairwise_append.mp h2.2.1
  rw [window_append, window_append]
  have eA : window T x A = [] := window_eq_nil (fun t ht h => by have := hA t ht; omega)
  have eC : window T x C = [] := window_eq_nil (fun t ht h => by
    have := h1.2.2 x (by simp) t ht; omega)
  have eB : window T x (D ++ [x]) = D ++ [x] := window_eq_self (fun t ht => by
    refine ⟨hB t ht, ?_⟩
    rcases List.mem_append.mp ht with hd | hx
    · have := h3.2.2 t hd x (by simp); omega
    · simp at hx; omega)
  simp [eA, eB, eC]

/-- consecutive windows of a strictly increasing list concatenate -/
theorem window_split (l : List Nat) (a b c : Int) (hab : a ≤ b) (hbc : b ≤ c) (hs : Sorted l) :
    window a b l ++ window b c l = window a c l := by
  induction l with
  | nil => simp [window]
  | cons x xs ih =>
    have hp := List.pairwise_cons.mp hs
    have ih := ih hp.2
    by_cases h1 : (x : Int) ≤ b
    · -- x can only be in the first window
      have e2 : window b c (x :: xs) = window b c xs := by
        simp only [window, List.filter_cons]; rw [if_neg]; simp; omega
      by_cases h0 : a < (x : Int)
      · have e1 : window a b (x :: xs) = x :: window a b xs := by
          simp only [window, List.filter_cons]; rw [if_pos]; simp; omega
        have e3 : window a c (x :: xs) = x :: window a c xs := by
          simp only [window, List.filter_cons]; rw [if_pos]; simp; omega
        rw [e1, e2, e3, List.cons_append, ih]
      · have e1 : window a b (x :: xs) = window a b xs := by
          simp only [window, List.filter_cons]; rw [if_neg]; simp; omega
        have e3 : window a c (x :: xs) = window a c xs := by
          simp only [window, List.filter_cons]; rw [if_neg]; simp; omega
        rw [e1, e2, e3, ih]
    · -- x > b: the first window is empty from here on
      have e1 : window a b (x :: xs) = [] := window_eq_nil (fun t ht h => by
        rcases List.mem_cons.mp ht with rfl | hx
        · omega
        · have := hp.1 t hx; omega)
      have e1' : window a b xs = [] := window_eq_nil (fun t ht h => by
        have := hp.1 t ht; omega)
      rw [e1' ] at ih
      by_cases h2 : (x : Int) ≤ c
      · have e2 : window b c (x :: xs) = x :: window b c xs := by
          simp only [window, List.filter_cons]; rw [if_pos]; simp; omega
        have e3 : window a c (x :: xs) = x :: window a c xs := by
          simp only [window, List.filter_cons]; rw [if_pos]; simp; omega
        rw [e1, e2, e3]; simp at ih; simp [ih]
      · have e2 : window b c (x :: xs) = window b c xs := by
          simp only [window, List.filter_cons]; rw [if_neg]; simp; omega
        have e3 : window a c (x :: xs) = window a c xs := by
          simp only [window, List.filter_cons]; rw [if_neg]; simp; omega
        rw [e1, e2, e3]; simpa using ih

/-- a window that starts at `t0` is a prefix of everything later than `t0` -/
theorem window_prefix (l : List Nat) (t0 T : Int) (hs : Sorted l) : window t0 T l <+: expected l t0 := by
  induction l with
  | nil => simp [window, expected]
  | cons x xs ih =>
    have hp := List.pairwise_cons.mp hs
    have ih := ih hp.2
    by_cases h0 : t0 < (x : Int)
    · have e3 : expected (x :: xs) t0 = x :: expected xs t0 := by
        simp only [expected, List.filter_cons]; rw [if_pos]; simpa using h0
      by_cases h1 : (x : Int) ≤ T
      · have e1 : window t0 T (x :: xs) = x :: window t0 T xs := by
          simp only [window, List.filter_cons]; rw [if_pos]; simp; omega
        rw [e1, e3]; exact (List.prefix_cons_inj x).mpr ih
      · have e1 : window t0 T (x :: xs) = [] := window_eq_nil (fun t ht h => by
          rcases List.mem_cons.mp ht with rfl | hx
          · omega
          · have := hp.1 t hx; omega)
        rw [e1]; exact List.nil_prefix
    · have e3 : expected (x :: xs) t0 = expected xs t0 := by
        simp only [expected, List.filter_cons]; rw [if_neg]; simpa using h0
      have e1 : window t0 T (x :: xs) = window t0 T xs := by
        simp only [window, List.filter_cons]; rw [if_neg]; simp; omega
      rw [e1, e3]; exact ih

/-- `locateByTs` on a strictly increasing buffer: everything it returns is later than T -/
theorem locate_gt (l : List Nat) (T : Int) (hs : Sorted l) : ∀ t ∈ locate l T, T < (t : Int) := by
  induction l with
  | nil => simp [locate]
  | cons x xs ih =>
    have hp := List.pairwise_cons.mp hs
    intro t ht
    by_cases h : (x : Int) ≤ T
    · have : locate (x :: xs) T = locate xs T := by simp [locate, h]
      rw [this] at ht; exact ih hp.2 t ht
    · have : locate (x :: xs) T = x :: xs := by simp [locate, h]
      rw [this] at ht
      rcases List.mem_cons.mp ht with rfl | hx
      · omega
      · have := hp.1 t hx; omega

/-- what `locateByTs` skips is not later than T -/
theorem locate_skipped (l : List Nat) (T : Int) :
    ∃ A, l = A ++ locate l T ∧ ∀ t ∈ A, (t : Int) ≤ T := by
  refine ⟨l.takeWhile (fun t => decide ((t : Int) ≤ T)), ?_, ?_⟩
  · simp [locate, List.takeWhile_append_dropWhile]
  · intro t ht
    induction l with
    | nil => simp at ht
    | cons x xs ih =>
      by_cases h : (x : Int) ≤ T
      · simp only [List.takeWhile_cons, h, decide_true, if_true] at ht
        rcases List.mem_cons.mp ht with rfl | hx
        · exact h
        · exact ih hx
      · simp [List.takeWhile_cons, h] at ht


/-- in a strictly increasing list, everything before a position with a later-than-T value... -/
theorem split_gt (l : List Nat) (T : Int) (hs : Sorted l) :
    ∃ A, l = A ++ l.filter (fun (t : Nat) => decide (T < (t : Int))) ∧ ∀ t ∈ A, (t : Int) ≤ T := by
  induction l with
  | nil => exact ⟨[], by simp, by simp⟩
  | cons x xs ih =>
    have hp := List.pairwise_cons.mp hs
    by_cases h : T < (x : Int)
    · refine ⟨[], ?_, by simp⟩
      have : (x :: xs).filter (fun (t : Nat) => decide (T < (t : Int))) = x :: xs := by
        rw [List.filter_eq_self]; intro a ha
        rcases List.mem_cons.mp ha with rfl | hx
        · simpa using h
        · have := hp.1 a hx; simp; omega
      simp [this]
    · obtain ⟨A, hA, hle⟩ := ih hp.2
      refine ⟨x :: A, ?_, ?_⟩
      · simp only [List.filter_cons]; rw [if_neg (by simpa using h)]; simp; exact hA
      · intro t ht
        rcases List.mem_cons.mp ht with rfl | hx
        · omega
        · exact hle t hx

theorem take_le (ts : List Nat) (hs : Sorted ts) :
    ∀ mid, 0 < mid → mid ≤ ts.length → ∀ t ∈ ts.take mid, t ≤ ts.getD (mid - 1) 0 := by
  induction ts with
  | nil => intro mid h0 h1; simp at h1; omega
  | cons x xs ih =>
    have hp := List.pairwise_cons.mp hs
    intro mid h0 h1 t ht
    obtain ⟨m, rfl⟩ : ∃ m, mid = m + 1 := ⟨mid - 1, by omega⟩
    simp only [List.take_succ_cons] at ht
    simp only [Nat.add_sub_cancel]
    cases m with
    | zero => simp at ht; simp [ht]
    | succ k =>
      simp only [List.getD_cons_succ]
      have hk : k < xs.length := by simp at h1; omega
      have hmem : xs.getD k 0 ∈ xs := by
        rw [List.getD_eq_getElem?_getD, List.getElem?_eq_getElem hk]; simp
      rcases List.mem_cons.mp ht with rfl | hx
      · have := hp.1 _ hmem; omega
      · have := ih hp.2 (k + 1) (by omega) (by simp at h1; omega) t hx
        simpa using this

theorem drop_ge (ts : List Nat) (hs : Sorted ts) :
    ∀ mid, ∀ t ∈ ts.drop mid, ts.getD mid 0 ≤ t := by
  induction ts with
  | nil => intro mid t ht; simp at ht
  | cons x xs ih =>
    have hp := List.pairwise_cons.mp hs
    intro mid t ht
    cases mid with
    | zero =>
      simp at ht
      rcases ht with rfl | hx
      · simp
      · have := hp.1 t hx; simp; omega
    | succ m =>
      simp only [List.drop_succ_cons] at ht
      simp only [List.getD_cons_succ]
      exact ih hp.2 m t ht

theorem bsearch_some (ts : List Nat) (T : Int) : ∀ f l h mid, bsearch ts T f l h = some mid →
    ¬ ((ts.getD mid 0 : Nat) : Int) ≤ T ∧ (0 < mid → ((ts.getD (mid - 1) 0 : Nat) : Int) ≤ T) := by
  intro f
  induction f with
  | zero => intro l h mid hh; simp [bsearch] at hh
  | succ f ih =>
    intro l h mid hh
    simp only [bsearch] at hh
    by_cases hlh : l ≤ h
    · simp only [hlh, if_true] at hh
      by_cases ht : ((ts.getD ((l + h) / 2) 0 : Nat) : Int) ≤ T
      · simp only [ht, if_true] at hh; exact ih _ _ _ hh
      · simp only [ht, if_false] at hh
        by_cases hp : ((if (l + h) / 2 > 0 then ts.getD ((l + h) / 2 - 1) 0 else 0 : Nat) : Int) ≤ T
        · simp only [hp, if_true] at hh
          injection hh with e
          subst e
          refine ⟨ht, fun hpos => ?_⟩
          simpa [hpos] using hp
        · simp only [hp, if_false] at hh; exact ih _ _ _ hh
    · simp only [hlh, if_false] at hh; cases hh

/-- the binary search cuts a strictly increasing buffer at T (partial correctness: `none` = nothing returned) -/
theorem bsearch_cut (ts : List Nat) (T : Int) (hs : Sorted ts) (f l h mid : Nat)
    (hb : bsearch ts T f l h = some mid) (hne : ts.drop mid ≠ []) :
    (∀ t ∈ ts.take mid, (t : Int) ≤ T) ∧ (∀ t ∈ ts.drop mid, T < (t : Int)) := by
  obtain ⟨h1, h2⟩ := bsearch_some ts T f l h mid hb
  have hlt : mid < ts.length := by
    apply Nat.lt_of_not_le
    intro hc
    exact hne (List.drop_eq_nil_of_le hc)
  constructor
  · intro t ht
    by_cases h0 : 0 < mid
    · have := take_le ts hs mid h0 (by omega) t ht
      have := h2 h0
      omega
    · have : mid = 0 := by omega
      subst this; simp at ht
  · intro t ht
    have := drop_ge ts hs mid t ht
    omega

-- ---------------------------------------------------------------- invariants of the log buffer

structure BufWF (b : Buf) : Prop where
  range : ∀ t ∈ b.ents, b.start ≤ (t : Int) ∧ (t : Int) ≤ b.stop
  hasStop : b.ents ≠ [] → ∃ x ∈ b.ents, b.stop ≤ (x : Int)
  hasStart : b.ents ≠ [] → ∃ x ∈ b.ents, (x : Int) ≤ b.start

def flat (bs : List Buf) : List Nat := bs.flatMap (·.ents)
def qflat (q : List Flush) : List Nat := q.flatMap (·.ents)

/-- every entry up to `x` is readable on disk -/
def Covers (lb : LB) (x : Int) : Prop :=
  (∃ y ∈ lb.disk, x ≤ (y : Int)) ∧ ∀ t ∈ lb.log, (t : Int) ≤ x → t ∈ lb.disk

structure LInv (lb : LB) : Prop where
  sorted : Sorted lb.log
  bound : ∀ t ∈ lb.log, 0 < t ∧ t ≤ lb.lastTs
  seg : lb.log = lb.dropped ++ flat lb.prev ++ lb.cur.ents
  curWF : BufWF lb.cur
  curPos : lb.cur.pos = 0 ↔ lb.cur.ents = []
  prevWF : ∀ b ∈ lb.prev, BufWF b
  dseg : lb.log = lb.disk ++ qflat lb.queue ++ lb.cur.ents
  qWF : ∀ f ∈ lb.queue, ∃ x ∈ f.ents, f.stop ≤ (x : Int)
  infl : ∀ f, lb.inflight = some f → Covers lb f.stop
  flushed : lb.lastFlush = zeroT ∨ Covers lb lb.lastFlush
  prevNe : lb.prev ≠ []

/-- The condition under which a memory read at position `T` cannot lose anything: either the read is
    redirected to the disk (a completed flush covers T), or no recycled entry is later than T.
    Its negation is the open finding: a sealed buffer was recycled before its flush was acknowledged
    and the reader still needs it. -/
def ReadSafe (lb : LB) (T : Int) : Prop :=
  (lb.lastFlush ≠ zeroT ∧ lb.lastFlush > T) ∨ ∀ t ∈ lb.dropped, (t : Int) ≤ T


theorem sorted_mid {A B C : List Nat} (hs : Sorted (A ++ B ++ C)) : Sorted B :=
  (List.pairwise_append.mp (List.pairwise_append.mp hs).1).2.1

theorem flat_cons (b : Buf) (rest : List Buf) : flat (b :: rest) = b.ents ++ flat rest := by
  simp [flat, List.flatMap_cons]

/-- the scan over the sealed buffers returns the next run of entries after T, provided nothing
    later than T precedes the scanned buffers -/
theorem scanPrev_spec (T : Int) (cur : List Nat) (hcur : ∀ t ∈ cur, T < (t : Int)) :
    ∀ (bs : List Buf) (pre : List Nat), (∀ t ∈ pre, (t : Int) ≤ T) → (∀ b ∈ bs, BufWF b) →
      Sorted (pre ++ flat bs ++ cur) →
      ∃ A C, pre ++ flat bs ++ cur = A ++ scanPrev bs T cur ++ C ∧ (∀ t ∈ A, (t : Int) ≤ T) ∧
        (∀ t ∈ scanPrev bs T cur, T < (t : Int)) := by
  intro bs
  induction bs with
  | nil =>
    intro pre hpre _ _
    exact ⟨pre, [], by simp [flat, scanPrev], hpre, by simpa [scanPrev] using hcur⟩
  | cons b rest ih =>
    intro pre hpre hwf hs
    have hb := hwf b (by simp)
    rw [flat_cons] at hs ⊢
    simp only [scanPrev]
    by_cases h1 : b.start > T
    · rw [if_pos h1]
      refine ⟨pre, flat rest ++ cur, by simp [List.append_assoc], hpre, ?_⟩
      intro t ht
      have := (hb.range t ht).1
      omega
    · rw [if_neg h1]
      by_cases h2 : b.stop > T
      · have hc : (¬ b.start > T) ∧ b.stop > T := ⟨h1, h2⟩
        rw [if_pos hc]
        obtain ⟨A, hA, hle⟩ := locate_skipped b.ents T
        have hsb : Sorted b.ents := by
          have h' : Sorted (pre ++ b.ents ++ (flat rest ++ cur)) := by simpa [List.append_assoc] using hs
          exact sorted_mid h'
        refine ⟨pre ++ A, flat rest ++ cur, ?_, ?_, locate_gt b.ents T hsb⟩
        · have : pre ++ A ++ locate b.ents T = pre ++ b.ents := by rw [List.append_assoc, ← hA]
          rw [this]; simp [List.append_assoc]
        · intro t ht
          rcases List.mem_append.mp ht with h | h
          · exact hpre t h
          · exact hle t h
      · have hc : ¬ ((¬ b.start > T) ∧ b.stop > T) := fun h => h2 h.2
        rw [if_neg hc]
        have hpre' : ∀ t ∈ pre ++ b.ents, (t : Int) ≤ T := by
          intro t ht
          rcases List.mem_append.mp ht with h | h
          · exact hpre t h
          · have := (hb.range t h).2; omega
        have hs' : Sorted (pre ++ b.ents ++ flat rest ++ cur) := by simpa [List.append_assoc] using hs
        obtain ⟨A, C, e, hA, hB⟩ := ih (pre ++ b.ents) hpre' (fun b' hb' => hwf b' (by simp [hb'])) hs'
        exact ⟨A, C, by rw [← e]; simp [List.append_assoc], hA, hB⟩

/-- `ReadFromBuffer`: whenever it hands out a buffer under `ReadSafe`, that buffer is the run of log
    entries that immediately follows T. -/
theorem readFrom_spec (lb : LB) (T : Int) (l : List Nat) (hi : LInv lb) (hsafe : ReadSafe lb T)
    (hr : readFrom lb T = .buf l) :
    ∃ A C, lb.log = A ++ l ++ C ∧ (∀ t ∈ A, (t : Int) ≤ T) ∧ (∀ t ∈ l, T < (t : Int)) := by
  unfold readFrom at hr
  by_cases c1 : lb.lastFlush ≠ zeroT ∧ lb.lastFlush > T
  · rw [if_pos c1] at hr; cases hr
  · have hdrop : ∀ t ∈ lb.dropped, (t : Int) ≤ T := by
      rcases hsafe with h | h
      · exact absurd h c1
      · exact h
    rw [if_neg c1] at hr
    by_cases c2 : T = lb.cur.stop
    · rw [if_pos c2] at hr; cases hr
    · rw [if_neg c2] at hr
      by_cases c3 : T > lb.cur.stop
      · rw [if_pos c3] at hr; cases hr
      · rw [if_neg c3] at hr
        by_cases c4 : T < lb.cur.start
        · rw [if_pos c4] at hr
          injection hr with e
          subst e
          have hcur : ∀ t ∈ lb.cur.ents, T < (t : Int) := by
            intro t ht; have := (hi.curWF.range t ht).1; omega
          have hs : Sorted (lb.dropped ++ flat lb.prev ++ lb.cur.ents) := by rw [← hi.seg]; exact hi.sorted
          obtain ⟨A, C, e, hA, hB⟩ := scanPrev_spec T lb.cur.ents hcur lb.prev lb.dropped hdrop hi.prevWF hs
          exact ⟨A, C, by rw [hi.seg, e], hA, hB⟩
        · rw [if_neg c4] at hr
          by_cases c5 : lb.cur.ents = []
          · rw [if_pos c5] at hr; cases hr
          · rw [if_neg c5] at hr
            split at hr
            · rename_i mid hb
              injection hr with e
              subst e
              by_cases hne : lb.cur.ents.drop mid = []
              · rw [hne]
                exact ⟨[], lb.log, by simp, by simp, by simp⟩
              · have hs : Sorted ((lb.dropped ++ flat lb.prev) ++ lb.cur.ents ++ []) := by
                  simpa [← hi.seg] using hi.sorted
                have hsc : Sorted lb.cur.ents := sorted_mid hs
                obtain ⟨h1, h2⟩ := bsearch_cut lb.cur.ents T hsc _ _ _ mid hb hne
                refine ⟨lb.dropped ++ flat lb.prev ++ lb.cur.ents.take mid, [], ?_, ?_, h2⟩
                · rw [hi.seg]; simp [List.append_assoc]
                · intro t ht
                  rcases List.mem_append.mp ht with h | h
                  · -- an entry of an older buffer is earlier than the current buffer's first entry ≤ start ≤ T
                    obtain ⟨x, hx, hxs⟩ := hi.curWF.hasStart c5
                    have hlt := (List.pairwise_append.mp (List.pairwise_append.mp hs).1).2.2 t h x hx
                    omega
                  · exact h1 t h
            · cases hr


-- ---------------------------------------------------------------- the steps preserve the invariant

theorem flat_append (a b : List Buf) : flat (a ++ b) = flat a ++ flat b := by simp [flat]
theorem qflat_append (a b : List Flush) : qflat (a ++ b) = qflat a ++ qflat b := by simp [qflat]

theorem flat_replicate_nil (n : Nat) (b : Buf) (h : b.ents = []) : flat (List.replicate n b) = [] := by
  induction n with
  | zero => simp [flat]
  | succ k ih => rw [List.replicate_succ, flat_cons, h, ih]; rfl

theorem LInv_init (cfg : Cfg) (h : 0 < cfg.prevCount) : LInv (init cfg) where
  sorted := by simp [init]
  bound := by simp [init]
  seg := by simp [init, flat_replicate_nil]
  curWF := ⟨by simp [init], by simp [init], by simp [init]⟩
  curPos := by simp [init]
  prevWF := by
    intro b hb
    have := (List.mem_replicate.mp hb).2
    subst this
    exact ⟨by simp, by simp, by simp⟩
  dseg := by simp [init, qflat]
  qWF := by simp [init]
  infl := by simp [init]
  flushed := Or.inl rfl
  prevNe := by
    intro hc
    have : (init cfg).prev.length = cfg.prevCount := by simp [init]
    rw [hc] at this; simp at this; omega

theorem copyToFlush_log (s : LB) : (copyToFlush s).log = s.log ∧ (copyToFlush s).lastTs = s.lastTs
    ∧ (copyToFlush s).disk = s.disk ∧ (copyToFlush s).inflight = s.inflight ∧ (copyToFlush s).lastFlush = s.lastFlush := by
  unfold copyToFlush
  split
  · split <;> simp
  · simp

theorem LInv_copyToFlush (s : LB) (hi : LInv s) : LInv (copyToFlush s) := by
  unfold copyToFlush
  by_cases hp : s.cur.pos > 0
  · rw [if_pos hp]
    have hne : s.cur.ents ≠ [] := fun h => by have := hi.curPos.mpr h; omega
    cases hprev : s.prev with
    | nil => exact absurd hprev hi.prevNe
    | cons old rest =>
      simp only
      refine { sorted := hi.sorted, bound := hi.bound, seg := ?_, curWF := ⟨by simp, by simp, by simp⟩, curPos := by simp,
               prevWF := ?_, dseg := ?_, qWF := ?_, infl := hi.infl, flushed := hi.flushed, prevNe := by simp }
      · have := hi.seg
        rw [hprev, flat_cons] at this
        simp only [flat_append]
        rw [this]; simp [flat, List.append_assoc]
      · intro b hb
        rcases List.mem_append.mp hb with h | h
        · exact hi.prevWF b (by rw [hprev]; simp [h])
        · simp at h; subst h; exact hi.curWF
      · have := hi.dseg
        simp only [qflat_append]
        rw [this]; simp [qflat, List.append_assoc]
      · intro f hf
        rcases List.mem_append.mp hf with h | h
        · exact hi.qWF f h
        · simp at h; subst h; exact hi.curWF.hasStop hne
  · rw [if_neg hp]; exact hi

theorem copyToFlush_cur_empty (s : LB) (hi : LInv s) : (copyToFlush s).cur.ents = [] ∨ (copyToFlush s = s ∧ s.cur.pos > 0 ∧ False) ∨ ((copyToFlush s).cur.ents = []) := by
  left
  unfold copyToFlush
  by_cases hp : s.cur.pos > 0
  · rw [if_pos hp]
    cases hprev : s.prev with
    | nil => exact absurd hprev hi.prevNe
    | cons old rest => simp
  · rw [if_neg hp]; exact hi.curPos.mp (by omega)

/-- bumping `lastTsNs` and stamping the start time of an empty buffer -/
theorem LInv_stamp (s : LB) (ts : Nat) (hi : LInv s) (hgt : s.lastTs < ts) : LInv (stamp s ts) := by
  unfold stamp
  by_cases hp : s.cur.pos = 0
  · have he := hi.curPos.mp hp
    rw [if_pos hp]
    exact { sorted := hi.sorted, bound := fun t ht => by have := hi.bound t ht; dsimp only; omega, seg := hi.seg,
            curWF := ⟨by simp [he], by simp [he], by simp [he]⟩, curPos := hi.curPos, prevWF := hi.prevWF, dseg := hi.dseg,
            qWF := hi.qWF, infl := hi.infl, flushed := hi.flushed, prevNe := hi.prevNe }
  · rw [if_neg hp]
    exact { sorted := hi.sorted, bound := fun t ht => by have := hi.bound t ht; dsimp only; omega, seg := hi.seg,
            curWF := hi.curWF, curPos := hi.curPos, prevWF := hi.prevWF, dseg := hi.dseg,
            qWF := hi.qWF, infl := hi.infl, flushed := hi.flushed, prevNe := hi.prevNe }

theorem stamp_facts (s : LB) (ts : Nat) (hi : LInv s) :
    (stamp s ts).log = s.log ∧ (stamp s ts).lastTs = ts ∧ ((stamp s ts).cur.ents = [] → (stamp s ts).cur.start = ts) := by
  unfold stamp
  refine ⟨rfl, rfl, ?_⟩
  by_cases hp : s.cur.pos = 0
  · rw [if_pos hp]; intro _; rfl
  · rw [if_neg hp]; intro he; exact absurd (hi.curPos.mpr he) hp

theorem LInv_rotate (s : LB) (ts size : Nat) (hi : LInv s) : LInv (rotate s ts size) := by
  unfold rotate
  have h2 := LInv_copyToFlush s hi
  have he : (copyToFlush s).cur.ents = [] := by
    rcases copyToFlush_cur_empty s hi with h | h | h
    · exact h
    · exact absurd h.2.2 id
    · exact h
  exact { sorted := h2.sorted, bound := h2.bound, seg := h2.seg,
          curWF := ⟨by simp [he], by simp [he], by simp [he]⟩, curPos := h2.curPos, prevWF := h2.prevWF, dseg := h2.dseg,
          qWF := h2.qWF, infl := h2.infl, flushed := h2.flushed, prevNe := h2.prevNe }

theorem rotate_facts (s : LB) (ts size : Nat) :
    (rotate s ts size).log = s.log ∧ (rotate s ts size).lastTs = s.lastTs ∧ (rotate s ts size).cur.start = ts := by
  have := copyToFlush_log s
  unfold rotate
  exact ⟨this.1, this.2.1, rfl⟩

theorem disk_sub_log (s : LB) (hi : LInv s) : ∀ t ∈ s.disk, t ∈ s.log := by
  intro t ht; rw [hi.dseg]; simp [ht]

theorem cur_sub_log (s : LB) (hi : LInv s) : ∀ t ∈ s.cur.ents, t ∈ s.log := by
  intro t ht; rw [hi.seg]; simp [ht]

/-- writing one entry with a timestamp later than everything logged so far -/
theorem LInv_put (s : LB) (ts k : Nat) (hi : LInv s) (hlt : ∀ t ∈ s.log, t < ts) (hts : s.lastTs = ts) (hpos : 0 < ts)
    (hstart : s.cur.ents = [] → s.cur.start = ts) : LInv (put s ts k) := by
  have hcov : ∀ x, Covers s x → Covers (put s ts k) x := by
    intro x ⟨⟨y, hy, hxy⟩, hc⟩
    refine ⟨⟨y, hy, hxy⟩, ?_⟩
    intro t ht hle
    rcases List.mem_append.mp ht with h | h
    · exact hc t h hle
    · simp at h; subst h
      have := hlt y (disk_sub_log s hi y hy)
      omega
  refine { sorted := ?_, bound := ?_, seg := ?_, curWF := ⟨?_, ?_, ?_⟩, curPos := ?_, prevWF := hi.prevWF, dseg := ?_,
           qWF := hi.qWF, infl := fun f hf => hcov _ (hi.infl f hf), flushed := ?_, prevNe := hi.prevNe }
  · exact List.pairwise_append.mpr ⟨hi.sorted, by simp, fun a ha b hb => by simp at hb; subst hb; exact hlt a ha⟩
  · intro t ht
    show 0 < t ∧ t ≤ s.lastTs
    rcases List.mem_append.mp ht with h | h
    · exact hi.bound t h
    · simp at h; subst h; omega
  · show s.log ++ [ts] = s.dropped ++ flat s.prev ++ (s.cur.ents ++ [ts])
    rw [hi.seg]; simp [List.append_assoc]
  · intro t ht
    show s.cur.start ≤ (t : Int) ∧ (t : Int) ≤ (ts : Int)
    rcases List.mem_append.mp ht with h | h
    · have h1 := (hi.curWF.range t h).1
      have h2 := hlt t (cur_sub_log s hi t h)
      exact ⟨h1, by omega⟩
    · simp at h; subst h
      refine ⟨?_, by omega⟩
      by_cases he : s.cur.ents = []
      · rw [hstart he]; omega
      · obtain ⟨x, hx, _⟩ := hi.curWF.hasStop he
        have h1 := (hi.curWF.range x hx).1
        have h2 := hlt x (cur_sub_log s hi x hx)
        omega
  · intro _; exact ⟨ts, by simp [put], by simp [put]⟩
  · intro _
    show ∃ x ∈ s.cur.ents ++ [ts], (x : Int) ≤ s.cur.start
    by_cases he : s.cur.ents = []
    · exact ⟨ts, by simp, by rw [hstart he]; omega⟩
    · obtain ⟨x, hx, hle⟩ := hi.curWF.hasStart he
      exact ⟨x, by simp [hx], hle⟩
  · show s.cur.pos + k + 4 = 0 ↔ s.cur.ents ++ [ts] = []
    constructor
    · intro h; omega
    · intro h; simp at h
  · show s.log ++ [ts] = s.disk ++ qflat s.queue ++ (s.cur.ents ++ [ts])
    rw [hi.dseg]; simp [List.append_assoc]
  · rcases hi.flushed with h | h
    · exact Or.inl h
    · exact Or.inr (hcov _ h)

theorem fixTs_gt (s : LB) (ets : Nat) : s.lastTs < fixTs s ets := by
  unfold fixTs; split <;> omega

theorem LInv_add (s : LB) (ets dlen : Nat) (hi : LInv s) : LInv (add s ets dlen) := by
  unfold add
  simp only
  have hgt := fixTs_gt s ets
  generalize fixTs s ets = ts at hgt ⊢
  have h1 := LInv_stamp s ts hi hgt
  have hf := stamp_facts s ts hi
  have hlt : ∀ t ∈ s.log, t < ts := fun t ht => by have := hi.bound t ht; omega
  split
  · have hr := rotate_facts (stamp s ts) ts (entrySize s.cfg.hash ts dlen)
    refine LInv_put _ ts _ (LInv_rotate _ _ _ h1) ?_ ?_ (by omega) ?_
    · rw [hr.1, hf.1]; exact hlt
    · rw [hr.2.1, hf.2.1]
    · intro _; rw [hr.2.2]
  · exact LInv_put _ ts _ h1 (by rw [hf.1]; exact hlt) hf.2.1 (by omega) hf.2.2

theorem add_log (s : LB) (ets dlen : Nat) :
    (add s ets dlen).log = s.log ++ [fixTs s ets] ∧ (add s ets dlen).lastTs = fixTs s ets := by
  unfold add
  simp only
  split
  · have hr := rotate_facts (stamp s (fixTs s ets)) (fixTs s ets) (entrySize s.cfg.hash (fixTs s ets) dlen)
    refine ⟨?_, ?_⟩
    · simp only [put]; rw [hr.1]; rfl
    · simp only [put]; rw [hr.2.1]; rfl
  · exact ⟨rfl, rfl⟩

theorem LInv_fwrite (s : LB) (hi : LInv s) : LInv (fwrite s) := by
  unfold fwrite
  split
  · rename_i f q hinf hq
    have hfw := hi.qWF f (by rw [hq]; simp)
    have hd : s.log = (s.disk ++ f.ents) ++ qflat q ++ s.cur.ents := by
      have := hi.dseg; rw [hq] at this; rw [this]; simp [qflat, List.append_assoc]
    have hcov : ∀ x, Covers s x → Covers { s with queue := q, inflight := some f, disk := s.disk ++ f.ents } x := by
      intro x ⟨⟨y, hy, hxy⟩, hc⟩
      exact ⟨⟨y, by simp [hy], hxy⟩, fun t ht hle => by simp [hc t ht hle]⟩
    refine { sorted := hi.sorted, bound := hi.bound, seg := hi.seg, curWF := hi.curWF, curPos := hi.curPos, prevWF := hi.prevWF,
             dseg := hd, qWF := fun g hg => hi.qWF g (by rw [hq]; simp [hg]), infl := ?_, flushed := ?_, prevNe := hi.prevNe }
    · intro g hg
      simp at hg; subst hg
      obtain ⟨x, hx, hle⟩ := hfw
      refine ⟨⟨x, by simp [hx], hle⟩, ?_⟩
      intro t ht hts
      simp only at ht ⊢
      rw [hd] at ht
      rcases List.mem_append.mp ht with h | h
      · rcases List.mem_append.mp h with h | h
        · exact h
        · -- t is in a later buffer, hence later than x
          have hs : Sorted (s.disk ++ f.ents ++ qflat q ++ s.cur.ents) := by rw [← hd]; exact hi.sorted
          have := (List.pairwise_append.mp (List.pairwise_append.mp hs).1).2.2 x (by simp [hx]) t h
          omega
      · have hs : Sorted (s.disk ++ f.ents ++ qflat q ++ s.cur.ents) := by rw [← hd]; exact hi.sorted
        have := (List.pairwise_append.mp hs).2.2 x (by simp [hx]) t h
        omega
    · rcases hi.flushed with h | h
      · exact Or.inl h
      · exact Or.inr (hcov _ h)
  · exact hi

theorem LInv_fack (s : LB) (hi : LInv s) : LInv (fack s) := by
  unfold fack
  split
  · rename_i f hf
    exact { sorted := hi.sorted, bound := hi.bound, seg := hi.seg, curWF := hi.curWF, curPos := hi.curPos, prevWF := hi.prevWF,
            dseg := hi.dseg, qWF := hi.qWF, infl := by simp, flushed := Or.inr (hi.infl f hf), prevNe := hi.prevNe }
  · exact hi

end SwV.Lemmas.C22
