/- C37 — helper lemmas: the binary search, the shape of a never-compacted source volume, the scan of
   the received records. -/
import SwV.Lemmas.C04
import SwV.Model.C37
import SwV.Spec.C37
namespace SwV.Lemmas.C37
open SwV.Model.C01 SwV.Model.C04 SwV.Model.C37 SwV.Lemmas.C04

/-! ## BinarySearchByAppendAtNs -/

/-- on a monotone array the Go loop returns the first position whose value exceeds `since` -/
theorem bsearch_spec (ns : Nat → Nat) (since n : Nat) (hmono : ∀ i j, i ≤ j → j < n → ns i ≤ ns j) :
    ∀ fuel l h, l ≤ h → h ≤ n → h - l ≤ fuel →
      (∀ i, i < l → ns i ≤ since) → (∀ i, h ≤ i → i < n → since < ns i) →
      (∀ i, i < bsearch ns since fuel l h → ns i ≤ since) ∧
      (∀ i, bsearch ns since fuel l h ≤ i → i < n → since < ns i) ∧ bsearch ns since fuel l h ≤ n := by
  intro fuel
  induction fuel with
  | zero =>
    intro l h hlh hhn hf hlo hhi
    have : l = h := by omega
    subst this
    simp only [bsearch]
    exact ⟨hlo, hhi, hhn⟩
  | succ f ih =>
    intro l h hlh hhn hf hlo hhi
    unfold bsearch
    by_cases hlt : l < h
    · simp only [hlt, if_true]
      have hm1 : l ≤ (l + h) / 2 := by omega
      have hm2 : (l + h) / 2 < h := by omega
      by_cases hc : ns ((l + h) / 2) ≤ since
      · simp only [hc, if_true]
        apply ih _ _ (by omega) hhn (by omega)
        · intro i hi; exact Nat.le_trans (hmono i ((l + h) / 2) (by omega) (by omega)) hc
        · exact hhi
      · simp only [hc, if_false]
        apply ih _ _ hm1 (by omega) (by omega) hlo
        · intro i hi hin; have := hmono ((l + h) / 2) i hi hin; omega
    · simp only [hlt, if_false]
      have : l = h := by omega
      subst this
      exact ⟨hlo, hhi, hhn⟩

/-! ## a source volume that was never compacted -/

structure SrcOK (s : CVol) : Prop where
  ilen : s.ilog.length = s.v.log.length
  alen : s.ats.length = s.v.log.length
  ioff : ∀ (i : Nat) (e : IEnt), s.ilog[i]? = some e → e.off = i + 1
  ient : ∀ (i : Nat) (e : IEnt) (r : Rec), s.ilog[i]? = some e → s.v.log[i]? = some r →
           e.key = r.id ∧ ((0 < r.size ∧ e.size = r.size) ∨ (r.size = 0 ∧ (e.size = -1 ∨ e.size = 0)))
  mono : s.ats.Pairwise (· < ·)
  pos  : ∀ a ∈ s.ats, 0 < a

theorem srcok_append {s s' : CVol} (hok : SrcOK s) (x : Rec) (t : Nat) (ent : IEnt)
    (hl : s'.v.log = s.v.log ++ [x]) (ha : s'.ats = s.ats ++ [t]) (hil : s'.ilog = s.ilog ++ [ent])
    (ho : ent.off = s.v.log.length + 1) (hk : ent.key = x.id)
    (hsz : (0 < x.size ∧ ent.size = x.size) ∨ (x.size = 0 ∧ (ent.size = -1 ∨ ent.size = 0)))
    (hlt : ∀ a ∈ s.ats, a < t) (ht : 0 < t) : SrcOK s' := by
  refine ⟨by rw [hil, hl]; simp [hok.ilen], by rw [ha, hl]; simp [hok.alen], ?_, ?_, ?_, ?_⟩
  · intro i e he
    rw [hil] at he
    by_cases hi : i < s.ilog.length
    · rw [List.getElem?_append_left hi] at he; exact hok.ioff i e he
    · rw [List.getElem?_append_right (by omega)] at he
      have hi0 : i - s.ilog.length = 0 := by
        by_cases h0 : i - s.ilog.length = 0
        · exact h0
        · have : ([ent] : List IEnt)[i - s.ilog.length]? = none := by
            apply List.getElem?_eq_none; simp; omega
          rw [this] at he; cases he
      rw [hi0] at he; simp at he; subst he
      rw [ho, ← hok.ilen]; omega
  · intro i e r he hr
    rw [hil] at he; rw [hl] at hr
    by_cases hi : i < s.ilog.length
    · rw [List.getElem?_append_left hi] at he
      rw [List.getElem?_append_left (by rw [← hok.ilen]; exact hi)] at hr
      exact hok.ient i e r he hr
    · rw [List.getElem?_append_right (by omega)] at he
      rw [List.getElem?_append_right (by rw [← hok.ilen]; omega)] at hr
      have hi0 : i - s.ilog.length = 0 := by
        by_cases h0 : i - s.ilog.length = 0
        · exact h0
        · have : ([ent] : List IEnt)[i - s.ilog.length]? = none := by
            apply List.getElem?_eq_none; simp; omega
          rw [this] at he; cases he
      rw [← hok.ilen, hi0] at hr
      rw [hi0] at he
      simp at he hr; subst he; subst hr
      exact ⟨hk, hsz⟩
  · rw [ha]
    refine List.pairwise_append.2 ⟨hok.mono, List.pairwise_singleton _ _, ?_⟩
    intro a ha' b hb
    simp at hb; subst hb; exact hlt a ha'
  · intro a ha'
    rw [ha] at ha'
    rcases List.mem_append.1 ha' with h | h
    · exact hok.pos a h
    · simp at h; subst h; exact ht

theorem srcok_step {s0 s : CVol} {ext : List Rec} {exta : List Nat} {suf : List IEnt} (hs : Suf s0 s ext exta suf)
    (hok : SrcOK s) (t : Nat) (op : Op) (hlt : ∀ a ∈ s.ats, a < t) (ht : 0 < t) :
    SrcOK (opStep s t op).1 ∧ ∀ a ∈ (opStep s t op).1.ats, a ≤ t := by
  have heff := step_eff s.v op
  unfold opStep
  cases heff with
  | same h1 h2 =>
    simp only [h1, if_true]
    exact ⟨⟨by simpa [h1] using hok.ilen, by simpa [h1] using hok.alen, hok.ioff, by simpa [h1] using hok.ient, hok.mono, hok.pos⟩,
      fun a ha => Nat.le_of_lt (hlt a ha)⟩
  | put x h1 hid hw h2 h3 =>
    have hne : ¬ (step s.v op).1.log.length = s.v.log.length := by rw [h1]; simp
    simp only [hne, if_false]
    obtain ⟨id, ck, c, rfl⟩ := hw
    have hida : idxAppend (step s.v (Op.write id ck c)).1 (s.v.log.length + 1) (Op.write id ck c)
        = [⟨id, s.v.log.length + 1, x.size⟩] := by
      simp only [idxAppend, h2, SwV.Spec.C01.opId, setIdx_same]; simp
    rw [hida]
    refine ⟨srcok_append hok x t ⟨id, s.v.log.length + 1, x.size⟩ h1 rfl rfl rfl (by simpa [SwV.Spec.C01.opId] using hid.symm) ?_ hlt ht, ?_⟩
    · by_cases hp : 0 < x.size
      · exact Or.inl ⟨hp, rfl⟩
      · exact Or.inr ⟨by omega, Or.inr (by simp; omega)⟩
    · intro a ha
      rcases List.mem_append.1 ha with h | h
      · exact Nat.le_of_lt (hlt a h)
      · simp at h; omega
  | noput x h1 h2 e h3 h4 =>
    have := hs.bound _ e h3
    omega
  | del x e h1 hd h3 h4 h2 hx hxs =>
    have hne : ¬ (step s.v op).1.log.length = s.v.log.length := by rw [h1]; simp
    simp only [hne, if_false]
    have hida : idxAppend (step s.v op).1 (s.v.log.length + 1) op = [⟨SwV.Spec.C01.opId op, s.v.log.length + 1, -1⟩] := by
      rcases hd with ⟨id, ck, rfl⟩ | ⟨id, ck, rfl⟩ <;> simp [idxAppend, SwV.Spec.C01.opId]
    rw [hida]
    refine ⟨srcok_append hok x t ⟨SwV.Spec.C01.opId op, s.v.log.length + 1, -1⟩ h1 rfl rfl rfl hx.symm
      (Or.inr ⟨hxs, Or.inl rfl⟩) hlt ht, ?_⟩
    intro a ha
    rcases List.mem_append.1 ha with h | h
    · exact Nat.le_of_lt (hlt a h)
    · simp at h; omega

/-- timestamps strictly increasing, all above `lo` -/
def Incr : Nat → List (Nat × Op) → Prop
  | _, [] => True
  | lo, (t, _) :: rest => lo < t ∧ Incr t rest

theorem srcok_run {s0 s : CVol} {ext : List Rec} {exta : List Nat} {suf : List IEnt} (hs : Suf s0 s ext exta suf)
    (hok : SrcOK s) (lo : Nat) (ops : List (Nat × Op)) (hlo : ∀ a ∈ s.ats, a ≤ lo) (hinc : Incr lo ops) :
    SrcOK (runOps s ops) := by
  induction ops generalizing s ext exta suf lo with
  | nil => exact hok
  | cons o ops ih =>
    obtain ⟨t, op⟩ := o
    obtain ⟨h1, h2⟩ := hinc
    obtain ⟨e1, e2, e3, hs'⟩ := suf_step hs t op
    have := srcok_step hs hok t op (fun a ha => Nat.lt_of_le_of_lt (hlo a ha) h1) (by omega)
    exact ih hs' this.1 t this.2 h2

theorem srcok_init (kind : Kind) (ttl : Nat × Nat) : SrcOK (CVol.init kind ttl) :=
  ⟨rfl, rfl, fun i e h => by simp [CVol.init] at h, fun i e r h => by simp [CVol.init] at h,
   by simp [CVol.init], fun a h => by simp [CVol.init] at h⟩

end SwV.Lemmas.C37
