/-
C05 — helper lemmas about the ordered-scan primitives of the section model: on strictly sorted
lists the early-exit scans (`findDesc`, `findAsc`) are plain key lookups, and the update
primitives change the binding of exactly one key while keeping the list sorted.
-/
import SwV.Model.C05
namespace SwV.Lemmas.C05
open SwV.Model.C05

/-- plain lookup by key -/
def getK (k : Nat) (l : List Ent) : Option Ent := l.find? (fun e => e.key == k)

def keys (l : List Ent) : List Nat := l.map (·.key)
def DescSorted (l : List Ent) : Prop := (keys l).Pairwise (· > ·)
def AscSorted (l : List Ent) : Prop := (keys l).Pairwise (· < ·)

theorem getK_none_of_lt (k : Nat) (l : List Ent) (h : ∀ x ∈ keys l, x < k) : getK k l = none := by
  unfold getK
  rw [List.find?_eq_none]
  intro e he
  have := h e.key (List.mem_map_of_mem he)
  simp; omega

theorem getK_none_of_gt (k : Nat) (l : List Ent) (h : ∀ x ∈ keys l, x > k) : getK k l = none := by
  unfold getK
  rw [List.find?_eq_none]
  intro e he
  have := h e.key (List.mem_map_of_mem he)
  simp; omega

theorem getK_cons (k : Nat) (e : Ent) (l : List Ent) :
    getK k (e :: l) = if e.key = k then some e else getK k l := by
  unfold getK
  by_cases h : e.key = k <;> simp [List.find?_cons, h]

theorem findDesc_eq (k : Nat) (l : List Ent) (h : DescSorted l) : findDesc k l = getK k l := by
  induction l with
  | nil => rfl
  | cons e rest ih =>
    have hs : DescSorted rest := (List.pairwise_cons.mp h).2
    have hlt : ∀ x ∈ keys rest, e.key > x := (List.pairwise_cons.mp h).1
    rw [getK_cons]; unfold findDesc
    by_cases h1 : e.key = k
    · simp [h1]
    · simp only [h1, if_false]
      by_cases h2 : e.key < k
      · simp only [h2, if_true]
        exact (getK_none_of_lt k rest (fun x hx => by have := hlt x hx; omega)).symm
      · simp only [h2, if_false]; exact ih hs

theorem findAsc_eq (k : Nat) (l : List Ent) (h : AscSorted l) : findAsc k l = getK k l := by
  induction l with
  | nil => rfl
  | cons e rest ih =>
    have hs : AscSorted rest := (List.pairwise_cons.mp h).2
    have hlt : ∀ x ∈ keys rest, e.key < x := (List.pairwise_cons.mp h).1
    rw [getK_cons]; unfold findAsc
    by_cases h1 : e.key = k
    · simp [h1]
    · simp only [h1, if_false]
      by_cases h2 : e.key > k
      · simp only [h2, if_true]
        exact (getK_none_of_gt k rest (fun x hx => by have := hlt x hx; omega)).symm
      · simp only [h2, if_false]; exact ih hs

/-- `updDesc` keeps the keys when the update keeps the key -/
theorem keys_updDesc (k : Nat) (f : Ent → Ent) (hf : ∀ e, (f e).key = e.key) (l : List Ent) :
    keys (updDesc k f l) = keys l := by
  induction l with
  | nil => rfl
  | cons e rest ih =>
    unfold updDesc
    by_cases h1 : e.key = k
    · simp [h1, keys, hf]
    · by_cases h2 : e.key < k
      · simp [h1, h2]
      · simp only [h1, h2, if_false]; simp only [keys, List.map_cons] at ih ⊢; rw [ih]

theorem getK_updDesc (k k' : Nat) (f : Ent → Ent) (hf : ∀ e, (f e).key = e.key) (l : List Ent) (h : DescSorted l) :
    getK k' (updDesc k f l) = if k' = k then (getK k l).map f else getK k' l := by
  induction l with
  | nil => simp [updDesc, getK]
  | cons e rest ih =>
    have hs : DescSorted rest := (List.pairwise_cons.mp h).2
    have hlt : ∀ x ∈ keys rest, e.key > x := (List.pairwise_cons.mp h).1
    unfold updDesc
    by_cases h1 : e.key = k
    · simp only [h1, if_true]
      rw [getK_cons, getK_cons, getK_cons, hf, h1]
      by_cases hk : k' = k
      · simp [hk]
      · have : ¬ k = k' := fun x => hk x.symm
        simp [hk, this]
    · simp only [h1, if_false]
      by_cases h2 : e.key < k
      · simp only [h2, if_true]
        by_cases hk : k' = k
        · subst hk
          simp only [if_true]
          rw [getK_cons]; simp only [h1, if_false]
          rw [getK_none_of_lt k' rest (fun x hx => by have := hlt x hx; omega)]; rfl
        · simp [hk]
      · simp only [h2, if_false]
        rw [getK_cons, ih hs, getK_cons, getK_cons]
        by_cases h3 : e.key = k'
        · have : ¬ k' = k := by omega
          simp [h3, this]
        · simp [h3, h1]

/-- the in-window insertion binds exactly the new key -/
theorem getK_insertDesc (n : Ent) (k' : Nat) (l : List Ent) :
    getK k' (insertDesc n l) = if k' = n.key then some n else getK k' l := by
  induction l with
  | nil =>
    simp only [insertDesc, getK_cons]
    by_cases hk : k' = n.key
    · simp [hk]
    · have : ¬ n.key = k' := fun x => hk x.symm
      simp [hk, this, getK]
  | cons e rest ih =>
    unfold insertDesc
    by_cases h1 : e.key > n.key
    · simp only [h1, if_true]
      rw [getK_cons, ih, getK_cons]
      by_cases h3 : e.key = k'
      · have : ¬ k' = n.key := by omega
        simp [h3, this]
      · simp [h3]
    · simp only [h1, if_false]
      rw [getK_cons]
      by_cases hk : k' = n.key
      · simp [hk]
      · have : ¬ n.key = k' := fun x => hk x.symm
        simp [hk, this]

theorem keys_insertDesc_perm (n : Ent) (l : List Ent) : ∀ x, x ∈ keys (insertDesc n l) ↔ x = n.key ∨ x ∈ keys l := by
  induction l with
  | nil => intro x; simp [insertDesc, keys]
  | cons e rest ih =>
    intro x
    unfold insertDesc
    by_cases h1 : e.key > n.key
    · simp only [h1, if_true, keys, List.map_cons, List.mem_cons]
      have := ih x; simp only [keys] at this; rw [this]
      constructor <;> (intro h; rcases h with h | h | h <;> simp [h])
    · simp [h1, keys]

theorem descSorted_insertDesc (n : Ent) (l : List Ent) (h : DescSorted l) (hn : n.key ∉ keys l) :
    DescSorted (insertDesc n l) := by
  induction l with
  | nil => simp [insertDesc, DescSorted, keys]
  | cons e rest ih =>
    have hs : DescSorted rest := (List.pairwise_cons.mp h).2
    have hlt : ∀ x ∈ keys rest, e.key > x := (List.pairwise_cons.mp h).1
    have hne : n.key ≠ e.key := by intro x; apply hn; simp [keys, x]
    have hnr : n.key ∉ keys rest := by intro x; apply hn; simp only [keys, List.map_cons, List.mem_cons]; right; exact x
    unfold insertDesc
    by_cases h1 : e.key > n.key
    · simp only [h1, if_true]
      unfold DescSorted; simp only [keys, List.map_cons]
      apply List.pairwise_cons.mpr
      refine ⟨?_, ih hs hnr⟩
      intro x hx
      rcases (keys_insertDesc_perm n rest x).mp hx with hx | hx
      · omega
      · exact hlt x hx
    · simp only [h1, if_false]
      unfold DescSorted; simp only [keys, List.map_cons]
      apply List.pairwise_cons.mpr
      refine ⟨?_, h⟩
      intro x hx
      simp only [List.mem_cons] at hx
      rcases hx with hx | hx
      · omega
      · have := hlt x hx; omega

/-- `setOverflowEntry`: binds exactly the new key; an overwritten entry keeps its old `hi` -/
theorem getK_setAsc (n : Ent) (k' : Nat) (l : List Ent) (h : AscSorted l) :
    getK k' (setAsc n l) =
      if k' = n.key then some (match getK n.key l with
        | some e => { e with off := n.off, size := n.size }
        | none => n)
      else getK k' l := by
  induction l with
  | nil =>
    simp only [setAsc, getK_cons]
    by_cases hk : k' = n.key
    · simp [hk, getK]
    · have : ¬ n.key = k' := fun x => hk x.symm
      simp [hk, this, getK]
  | cons e rest ih =>
    have hs : AscSorted rest := (List.pairwise_cons.mp h).2
    have hlt : ∀ x ∈ keys rest, e.key < x := (List.pairwise_cons.mp h).1
    unfold setAsc
    by_cases h1 : e.key = n.key
    · simp only [h1, if_true]
      rw [getK_cons, getK_cons, getK_cons]
      by_cases hk : k' = n.key
      · simp [hk, h1]
      · have : ¬ n.key = k' := fun x => hk x.symm
        simp [hk, this, h1]
    · simp only [h1, if_false]
      by_cases h2 : e.key > n.key
      · simp only [h2, if_true]
        rw [getK_cons, getK_cons (n.key)]
        simp only [h1, if_false]
        rw [getK_none_of_gt n.key rest (fun x hx => by have := hlt x hx; omega)]
        by_cases hk : k' = n.key
        · simp [hk]
        · have : ¬ n.key = k' := fun x => hk x.symm
          simp [hk, this]
      · simp only [h2, if_false]
        rw [getK_cons, ih hs, getK_cons, getK_cons]
        simp only [h1, if_false]
        by_cases h3 : e.key = k'
        · have : ¬ k' = n.key := by omega
          simp [h3, this]
        · simp [h3]

theorem getK_delAsc (k k' : Nat) (l : List Ent) (h : AscSorted l) :
    getK k' (delAsc k l) =
      if k' = k then (getK k l).map (fun e => if e.size > 0 then { e with size := -e.size } else e)
      else getK k' l := by
  induction l with
  | nil => simp [delAsc, getK]
  | cons e rest ih =>
    have hs : AscSorted rest := (List.pairwise_cons.mp h).2
    have hlt : ∀ x ∈ keys rest, e.key < x := (List.pairwise_cons.mp h).1
    unfold delAsc
    by_cases h1 : e.key = k
    · subst h1
      rw [if_pos rfl, getK_cons, getK_cons, getK_cons, if_pos rfl]
      have hk2 : (if e.size > 0 then { e with size := -e.size } else e).key = e.key := by split <;> rfl
      rw [hk2]
      by_cases hk : k' = e.key
      · simp [hk]
      · have : ¬ e.key = k' := fun x => hk x.symm
        simp [hk, this]
    · simp only [h1, if_false]
      by_cases h2 : e.key > k
      · simp only [h2, if_true]
        by_cases hk : k' = k
        · subst hk
          simp only [if_true]
          rw [getK_cons]; simp only [h1, if_false]
          rw [getK_none_of_gt k' rest (fun x hx => by have := hlt x hx; omega)]; rfl
        · simp [hk]
      · simp only [h2, if_false]
        rw [getK_cons, ih hs, getK_cons, getK_cons]
        by_cases h3 : e.key = k'
        · have : ¬ k' = k := by omega
          simp [h3, this]
        · simp [h3, h1]

/-! ### further primitives used by `section_set_refines` -/

theorem getK_eq_none_iff (k : Nat) (l : List Ent) : getK k l = none ↔ k ∉ keys l := by
  unfold getK keys
  rw [List.find?_eq_none]
  simp

theorem keys_delAsc (k : Nat) (l : List Ent) : keys (delAsc k l) = keys l := by
  induction l with
  | nil => rfl
  | cons e rest ih =>
    unfold delAsc
    by_cases h1 : e.key = k
    · simp only [h1, if_true, keys, List.map_cons]; rw [← h1]; congr 1; split <;> simp [h1]
    · by_cases h2 : e.key > k
      · simp [h1, h2]
      · simp only [h1, h2, if_false]; simp only [keys, List.map_cons] at ih ⊢; rw [ih]

theorem mem_keys_setAsc (n : Ent) (l : List Ent) (x : Nat) :
    x ∈ keys (setAsc n l) ↔ x = n.key ∨ x ∈ keys l := by
  induction l with
  | nil => simp [setAsc, keys]
  | cons e rest ih =>
    unfold setAsc
    by_cases h1 : e.key = n.key
    · simp only [h1, if_true, keys, List.map_cons, List.mem_cons]
      constructor
      · intro h; rcases h with h | h
        · left; exact h
        · right; right; exact h
      · intro h; rcases h with h | h | h
        · left; exact h
        · left; exact h
        · right; exact h
    · by_cases h2 : e.key > n.key
      · simp [h1, h2, keys]
      · simp only [h1, h2, if_false, keys, List.map_cons, List.mem_cons]
        simp only [keys] at ih; rw [ih]
        constructor <;> (intro h; rcases h with h | h | h <;> simp [h])

theorem ascSorted_setAsc (n : Ent) (l : List Ent) (h : AscSorted l) : AscSorted (setAsc n l) := by
  induction l with
  | nil => simp [setAsc, AscSorted, keys]
  | cons e rest ih =>
    have hs : AscSorted rest := (List.pairwise_cons.mp h).2
    have hlt : ∀ x ∈ keys rest, e.key < x := (List.pairwise_cons.mp h).1
    unfold setAsc
    by_cases h1 : e.key = n.key
    · rw [if_pos h1]
      exact h
    · by_cases h2 : e.key > n.key
      · simp only [h1, h2, if_true, if_false]
        unfold AscSorted; simp only [keys, List.map_cons]
        apply List.pairwise_cons.mpr
        refine ⟨?_, h⟩
        intro x hx
        simp only [List.mem_cons] at hx
        rcases hx with hx | hx
        · omega
        · have := hlt x hx; omega
      · simp only [h1, h2, if_false]
        unfold AscSorted; simp only [keys, List.map_cons]
        apply List.pairwise_cons.mpr
        refine ⟨?_, ih hs⟩
        intro x hx
        rcases (mem_keys_setAsc n rest x).mp hx with hx | hx
        · omega
        · exact hlt x hx

theorem length_insertDesc (n : Ent) (l : List Ent) : (insertDesc n l).length = l.length + 1 := by
  induction l with
  | nil => rfl
  | cons e rest ih =>
    unfold insertDesc
    split
    · simp [ih]
    · simp

theorem length_updDesc (k : Nat) (f : Ent → Ent) (l : List Ent) : (updDesc k f l).length = l.length := by
  induction l with
  | nil => rfl
  | cons e rest ih =>
    unfold updDesc
    split
    · simp
    · split
      · rfl
      · simp [ih]

/-- the first `m` keys after an in-window insertion are the new key or among the first `m` old keys -/
theorem mem_take_insertDesc (n : Ent) (l : List Ent) (m x : Nat)
    (hx : x ∈ (keys (insertDesc n l)).take m) : x = n.key ∨ x ∈ (keys l).take m := by
  induction l generalizing m with
  | nil =>
    simp only [insertDesc, keys, List.map_cons, List.map_nil] at hx
    left
    have := List.mem_of_mem_take hx
    simpa using this
  | cons e rest ih =>
    unfold insertDesc at hx
    by_cases h1 : e.key > n.key
    · simp only [h1, if_true, keys, List.map_cons] at hx
      cases m with
      | zero => simp at hx
      | succ m =>
        simp only [List.take_succ_cons, List.mem_cons] at hx
        rcases hx with hx | hx
        · right; simp [keys, hx]
        · rcases ih m hx with h | h
          · left; exact h
          · right; simp only [keys, List.map_cons, List.take_succ_cons, List.mem_cons]; right; exact h
    · simp only [h1, if_false, keys, List.map_cons] at hx
      cases m with
      | zero => simp at hx
      | succ m =>
        simp only [List.take_succ_cons, List.mem_cons] at hx
        rcases hx with hx | hx
        · left; exact hx
        · right
          have hsub : (List.take m (e.key :: List.map (·.key) rest)) ⊆ (List.take (m+1) (e.key :: List.map (·.key) rest)) :=
            (List.take_subset_take_left _ (Nat.le_succ m))
          exact hsub hx

theorem getD_eq_get (L : List Nat) (m : Nat) (hm : m < L.length) : L.getD m 0 = L[m] := by
  rw [List.getD_eq_getElem?_getD, List.getElem?_eq_getElem hm]; rfl

/-- in a strictly descending list every one of the first `m+1` elements is ≥ the one at index `m` -/
theorem desc_take_ge (L : List Nat) (h : L.Pairwise (· > ·)) (m : Nat) (hm : m < L.length) :
    ∀ y ∈ L.take (m + 1), L.getD m 0 ≤ y := by
  induction L generalizing m with
  | nil => simp at hm
  | cons a L ih =>
    have hs := (List.pairwise_cons.mp h).2
    have hlt := (List.pairwise_cons.mp h).1
    intro y hy
    cases m with
    | zero => simp at hy; simp [hy]
    | succ m =>
      simp only [List.length_cons] at hm
      have hm' : m < L.length := by omega
      simp only [List.take_succ_cons, List.mem_cons] at hy
      simp only [List.getD_cons_succ]
      rcases hy with hy | hy
      · subst hy
        have hmem : L.getD m 0 ∈ L := by
          rw [getD_eq_get _ _ hm']; exact List.getElem_mem _
        have := hlt _ hmem; omega
      · exact ih hs m hm' y hy

theorem getD_mem_take (L : List Nat) (m : Nat) (hm : m < L.length) : L.getD m 0 ∈ L.take (m+1) := by
  rw [getD_eq_get _ _ hm]
  rw [List.mem_take_iff_getElem]
  exact ⟨m, by omega, rfl⟩

theorem keys_getD (l : List Ent) (i : Nat) : (l.getD i default).key = (keys l).getD i 0 := by
  induction l generalizing i with
  | nil => rfl
  | cons e rest ih =>
    cases i with
    | zero => rfl
    | succ i => simp only [List.getD_cons_succ, keys, List.map_cons]; exact ih i

end SwV.Lemmas.C05
