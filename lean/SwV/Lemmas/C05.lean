/-
C05 — helper lemmas about the ordered-scan primitives of the section model: on strictly sorted
lists the early-exit scans (`findDesc`, `findAsc`) are plain key lookups, and the update
primitives change the binding of exactly one key while keeping the list sorted.
-/
import SwV.Model.C05
namespace SwV.Lemmas.C05
open SwV.Model.C05

/-- plain lookup by key -/
def getK (k : Nat) (l : List Ent) : Option Ent := l.find? (fun e => e.key == k)

def keys (l : List Ent) : List Nat := l.map (·.key)
def DescSorted (l : List Ent) : Prop := (keys l).Pairwise (· > ·)
def AscSorted (l : List Ent) : Prop := (keys l).Pairwise (· < ·)

theorem getK_none_of_lt (k : Nat) (l : List Ent) (h : ∀ x ∈ keys l, x < k) : getK k l = none := by
  unfold getK
  rw [List.find?_eq_none]
  intro e he
  have := h e.key (List.mem_map_of_mem he)
  simp; omega

theorem getK_none_of_gt (k : Nat) (l : List Ent) (h : ∀ x ∈ keys l, x > k) : getK k l = none := by
  unfold getK
  rw [List.find?_eq_none]
  intro e he
  have := h e.key (List.mem_map_of_mem he)
  simp; omega

theorem getK_cons (k : Nat) (e : Ent) (l : List Ent) :
    getK k (e :: l) = if e.key = k then some e else getK k l := by
  unfold getK
  by_cases h : e.key = k <;> simp [List.find?_cons, h]

theorem findDesc_eq (k : Nat) (l : List Ent) (h : DescSorted l) : findDesc k l = getK k l := by
  induction l with
  | nil => rfl
  | cons e rest ih =>
    have hs : DescSorted rest := (List.pairwise_cons.mp h).2
    have hlt : ∀ x ∈ keys rest, e.key > x := (List.pairwise_cons.mp h).1
    rw [getK_cons]; unfold findDesc
    by_cases h1 : e.key = k
    · simp [h1]
    · simp only [h1, if_false]
      by_cases h2 : e.key < k
      · simp only [h2, if_true]
        exact (getK_none_of_lt k rest (fun x hx => by have := hlt x hx; omega)).symm
      · simp only [h2, if_false]; exact ih hs

theorem findAsc_eq (k : Nat) (l : List Ent) (h : AscSorted l) : findAsc k l = getK k l := by
  induction l with
  | nil => rfl
  | cons e rest ih =>
    have hs : AscSorted rest := (List.pairwise_cons.mp h).2
    have hlt : ∀ x ∈ keys rest, e.key < x := (List.pairwise_cons.mp h).1
    rw [getK_cons]; unfold findAsc
    by_cases h1 : e.key = k
    · simp [h1]
    · simp only [h1, if_false]
      by_cases h2 : e.key > k
      · simp only [h2, if_true]
        exact (getK_none_of_gt k rest (fun x hx => by have := hlt x hx; omega)).symm
      · simp only [h2, if_false]; exact ih hs

/-- `updDesc` keeps the keys when the update keeps the key -/
theorem keys_updDesc (k : Nat) (f : Ent → Ent) (hf : ∀ e, (f e).key = e.key) (l : List Ent) :
    keys (updDesc k f l) = keys l := by
  induction l with
  | nil => rfl
  | cons e rest ih =>
    unfold updDesc
    by_cases h1 : e.key = k
    · simp [h1, keys, hf]
    · by_cases h2 : e.key < k
      · simp [h1, h2]
      · simp only [h1, h2, if_false]; simp only [keys, List.map_cons] at ih ⊢; rw [ih]

theorem getK_updDesc (k k' : Nat) (f : Ent → Ent) (hf : ∀ e, (f e).key = e.key) (l : List Ent) (h : DescSorted l) :
    getK k' (updDesc k f l) = if k' = k then (getK k l).map f else getK k' l := by
  induction l with
  | nil => simp [updDesc, getK]
  | cons e rest ih =>
    have hs : DescSorted rest := (List.pairwise_cons.mp h).2
    have hlt : ∀ x ∈ keys rest, e.key > x := (List.pairwise_cons.mp h).1
    unfold updDesc
    by_cases h1 : e.key = k
    · simp only [h1, if_true]
      rw [getK_cons, getK_cons, getK_cons, hf, h1]
      by_cases hk : k' = k
      · simp [hk]
      · have : ¬ k = k' := fun x => hk x.symm
        simp [hk, this]
    · simp only [h1, if_false]
      by_cases h2 : e.key < k
      · simp only [h2, if_true]
        by_cases hk : k' = k
        · subst hk
          simp only [if_true]
          rw [getK_cons]; simp only [h1, if_false]
          rw [getK_none_of_lt k' rest (fun x hx => by have := hlt x hx; omega)]; rfl
        · simp [hk]
      · simp only [h2, if_false]
        rw [getK_cons, ih hs, getK_cons, getK_cons]
        by_cases h3 : e.key = k'
        · have : ¬ k' = k := by omega
          simp [h3, this]
        · simp [h3, h1]

/-- the in-window insertion binds exactly the new key -/
theorem getK_insertDesc (n : Ent) (k' : Nat) (l : List Ent) :
    getK k' (insertDesc n l) = if k' = n.key then some n else getK k' l := by
  induction l with
  | nil =>
    simp only [insertDesc, getK_cons]
    by_cases hk : k' = n.key
    · simp [hk]
    · have : ¬ n.key = k' := fun x => hk x.symm
      simp [hk, this, getK]
  | cons e rest ih =>
    unfold insertDesc
    by_cases h1 : e.key > n.key
    · simp only [h1, if_true]
      rw [getK_cons, ih, getK_cons]
      by_cases h3 : e.key = k'
      · have : ¬ k' = n.key := by omega
        simp [h3, this]
      · simp [h3]
    · simp only [h1, if_false]
      rw [getK_cons]
      by_cases hk : k' = n.key
      · simp [hk]
      · have : ¬ n.key = k' := fun x => hk x.symm
        simp [hk, this]

theorem keys_insertDesc_perm (n : Ent) (l : List Ent) : ∀ x, x ∈ keys (insertDesc n l) ↔ x = n.key ∨ x ∈ keys l := by
  induction l with
  | nil => intro x; simp [insertDesc, keys]
  | cons e rest ih =>
    intro x
    unfold insertDesc
    by_cases h1 : e.key > n.key
    · simp only [h1, if_true, keys, List.map_cons, List.mem_cons]
      have := ih x; simp only [keys] at this; rw [this]
      constructor <;> (intro h; rcases h with h | h | h <;> simp [h])
    · simp [h1, keys]

theorem descSorted_insertDesc (n : Ent) (l : List Ent) (h : DescSorted l) (hn : n.key ∉ keys l) :
    DescSorted (insertDesc n l) := by
  induction l with
  | nil => simp [insertDesc, DescSorted, keys]
  | cons e rest ih =>
    have hs : DescSorted rest := (List.pairwise_cons.mp h).2
    have hlt : ∀ x ∈ keys rest, e.key > x := (List.pairwise_cons.mp h).1
    have hne : n.key ≠ e.key := by intro x; apply hn; simp [keys, x]
    have hnr : n.key ∉ keys rest := by intro x; apply hn; simp only [keys, List.map_cons, List.mem_cons]; right; exact x
    unfold insertDesc
    by_cases h1 : e.key > n.key
    · simp only [h1, if_true]
      unfold DescSorted; simp only [keys, List.map_cons]
      apply List.pairwise_cons.mpr
      refine ⟨?_, ih hs hnr⟩
      intro x hx
      rcases (keys_insertDesc_perm n rest x).mp hx with hx | hx
      · omega
      · exact hlt x hx
    · simp only [h1, if_false]
      unfold DescSorted; simp only [keys, List.map_cons]
      apply List.pairwise_cons.mpr
      refine ⟨?_, h⟩
      intro x hx
      simp only [List.mem_cons] at hx
      rcases hx with hx | hx
      · omega
      · have := hlt x hx; omega

/-- `setOverflowEntry`: binds exactly the new key; an overwritten entry keeps its old `hi` -/
theorem getK_setAsc (n : Ent) (k' : Nat) (l : List Ent) (h : AscSorted l) :
    getK k' (setAsc n l) =
      if k' = n.key then some (match getK n.key l with
        | some e => { e with off := n.off, size := n.size }
        | none => n)
      else getK k' l := by
  induction l with
  | nil =>
    simp only [setAsc, getK_cons]
    by_cases hk : k' = n.key
    · simp [hk, getK]
    · have : ¬ n.key = k' := fun x => hk x.symm
      simp [hk, this, getK]
  | cons e rest ih =>
    have hs : AscSorted rest := (List.pairwise_cons.mp h).2
    have hlt : ∀ x ∈ keys rest, e.key < x := (List.pairwise_cons.mp h).1
    unfold setAsc
    by_cases h1 : e.key = n.key
    · simp only [h1, if_true]
      rw [getK_cons, getK_cons, getK_cons]
      by_cases hk : k' = n.key
      · simp [hk, h1]
      · have : ¬ n.key = k' := fun x => hk x.symm
        simp [hk, this, h1]
    · simp only [h1, if_false]
      by_cases h2 : e.key > n.key
      · simp only [h2, if_true]
        rw [getK_cons, getK_cons (n.key)]
        simp only [h1, if_false]
        rw [getK_none_of_gt n.key rest (fun x hx => by have := hlt x hx; omega)]
        by_cases hk : k' = n.key
        · simp [hk]
        · have : ¬ n.key = k' := fun x => hk x.symm
          simp [hk, this]
      · simp only [h2, if_false]
        rw [getK_cons, ih hs, getK_cons, getK_cons]
        simp only [h1, if_false]
        by_cases h3 : e.key = k'
        · have : ¬ k' = n.key := by omega
          simp [h3, this]
        · simp [h3]

theorem getK_delAsc (k k' : Nat) (l : List Ent) (h : AscSorted l) :
    getK k' (delAsc k l) =
      if k' = k then (getK k l).map (fun e => if e.size > 0 then { e with size := -e.size } else e)
      else getK k' l := by
  induction l with
  | nil => simp [delAsc, getK]
  | cons e rest ih =>
    have hs : AscSorted rest := (List.pairwise_cons.mp h).2
    have hlt : ∀ x ∈ keys rest, e.key < x := (List.pairwise_cons.mp h).1
    unfold delAsc
    by_cases h1 : e.key = k
    · subst h1
      rw [if_pos rfl, getK_cons, getK_cons, getK_cons, if_pos rfl]
      have hk2 : (if e.size > 0 then { e with size := -e.size } else e).key = e.key := by split <;> rfl
      rw [hk2]
      by_cases hk : k' = e.key
      · simp [hk]
      · have : ¬ e.key = k' := fun x => hk x.symm
        simp [hk, this]
    · simp only [h1, if_false]
      by_cases h2 : e.key > k
      · simp only [h2, if_true]
        by_cases hk : k' = k
        · subst hk
          simp only [if_true]
          rw [getK_cons]; simp only [h1, if_false]
          rw [getK_none_of_gt k' rest (fun x hx => by have := hlt x hx; omega)]; rfl
        · simp [hk]
      · simp only [h2, if_false]
        rw [getK_cons, ih hs, getK_cons, getK_cons]
        by_cases h3 : e.key = k'
        · have : ¬ k' = k := by omega
          simp [h3, this]
        · simp [h3, h1]

end SwV.Lemmas.C05
