/-
C31 — helper lemmas: the provenance invariant of the chunk cache model.

`Ok h c`: every byte string the cache `c` holds was stored (is in the history `h`) —
in memory under the same file id, on disk under SOME file id with the entry's needle key.
-/
import SwV.Model.C31
import SwV.Model.C31Dat
import SwV.Spec.C31

namespace SwV.Lemmas.C31
open SwV.Model.C31 SwV.Spec.C31

def EntryOk (h : History) (e : Entry) : Prop := ∃ g : Fid, g.key = e.key ∧ (g, e.data) ∈ h
def VolOk (h : History) (v : Vol) : Prop := ∀ e ∈ v.entries, EntryOk h e
def LayerOk (h : History) (l : Layer) : Prop := ∀ v ∈ l.vols, VolOk h v
def MemOk (h : History) (m : List (Fid × Bytes)) : Prop := ∀ p ∈ m, p ∈ h
def Ok (h : History) (c : Cache) : Prop :=
  MemOk h c.mem ∧ LayerOk h c.l0 ∧ LayerOk h c.l1 ∧ LayerOk h c.l2

/-- `d` is held by the cache where a lookup of `f` can find it -/
def FromCache (c : Cache) (f : Fid) (d : Bytes) : Prop :=
  (f, d) ∈ c.mem ∨ ∃ l, (l = c.l0 ∨ l = c.l1 ∨ l = c.l2) ∧ ∃ v ∈ l.vols, ∃ e ∈ v.entries, e.key = f.key ∧ e.data = d

/-! ### monotonicity in the history -/

theorem EntryOk.mono {h h' : History} (hs : ∀ p ∈ h, p ∈ h') {e : Entry} : EntryOk h e → EntryOk h' e
  | ⟨g, hk, hm⟩ => ⟨g, hk, hs _ hm⟩

theorem LayerOk.mono {h h' : History} (hs : ∀ p ∈ h, p ∈ h') {l : Layer} (hl : LayerOk h l) : LayerOk h' l :=
  fun v hv e he => (hl v hv e he).mono hs

theorem Ok.mono {h h' : History} (hs : ∀ p ∈ h, p ∈ h') {c : Cache} : Ok h c → Ok h' c
  | ⟨hm, h0, h1, h2⟩ => ⟨fun p hp => hs p (hm p hp), h0.mono hs, h1.mono hs, h2.mono hs⟩

/-! ### volumes -/

theorem Vol.get_some {v : Vol} {key : Nat} {e : Entry} (hg : v.get key = some e) : e ∈ v.entries ∧ e.key = key := by
  unfold Vol.get at hg
  refine ⟨List.mem_of_find?_eq_some hg, ?_⟩
  have := List.find?_some hg
  simpa using this

theorem VolOk.write {h : History} {v : Vol} (hv : VolOk h v) {f : Fid} {d : Bytes} (hm : (f, d) ∈ h) :
    VolOk h (v.write f.key d) := by
  intro e he
  simp only [Vol.write, List.mem_cons, List.mem_filter] at he
  rcases he with rfl | ⟨he, _⟩
  · exact ⟨f, rfl, hm⟩
  · exact hv e he

theorem VolOk.reopen {h : History} {v : Vol} (hv : VolOk h v) (fresh : Bool) : VolOk h (v.reopen fresh) := by
  intro e he
  unfold Vol.reopen at he
  split at he
  · exact hv e he
  · exact hv e (List.mem_filter.mp he).1

/-! ### layers -/

theorem LayerOk.rotated {h : History} {l : Layer} (hl : LayerOk h l) : ∀ v ∈ l.rotated, VolOk h v := by
  intro v hv
  unfold Layer.rotated at hv
  split at hv
  · cases hv
  · rcases List.mem_cons.mp hv with rfl | hv
    · intro e he; cases he
    · exact hl v (List.dropLast_subset _ hv)

theorem LayerOk.set {h : History} {l : Layer} (hl : LayerOk h l) {f : Fid} {d : Bytes} (hm : (f, d) ∈ h) :
    LayerOk h (l.set f.key d) := by
  unfold Layer.set
  cases hvols : l.vols with
  | nil => exact hl
  | cons v0 rest =>
    simp only []
    generalize hvs : (if v0.fileSize + d.length > l.limit then l.rotated else v0 :: rest) = vols
    have hall : ∀ v ∈ vols, VolOk h v := by
      rw [← hvs]
      split
      · exact hl.rotated
      · rw [← hvols]; exact hl
    cases vols with
    | nil => exact hl
    | cons w ws =>
      intro v hv
      simp only [List.mem_cons] at hv
      rcases hv with rfl | hv
      · exact (hall w (List.mem_cons_self ..)).write hm
      · exact hall v (List.mem_cons_of_mem _ hv)

theorem LayerOk.restart {h : History} {l : Layer} (hl : LayerOk h l) (o : LayerOracle) : LayerOk h (l.restart o) := by
  intro v hv
  simp only [Layer.restart, List.mem_filterMap, Option.map_eq_some_iff] at hv
  rcases hv with ⟨i, _, w, hw, rfl⟩
  exact (hl w (List.mem_of_find?_eq_some hw)).reopen _

theorem mkLayer_ok (h : History) (ds segs : Nat) : LayerOk h (mkLayer ds segs) := by
  intro v hv e he
  simp only [mkLayer, List.mem_reverse, List.mem_map] at hv
  rcases hv with ⟨i, _, rfl⟩
  cases he

/-! ### the cache -/

theorem newCache_ok (h : History) (u d : Nat) : Ok h (newCache u d) :=
  ⟨fun _ hp => (by cases hp), mkLayer_ok h _ _, mkLayer_ok h _ _, mkLayer_ok h _ _⟩

theorem Ok.set {h : History} {c : Cache} (hc : Ok h c) {f : Fid} {d : Bytes} (hm : (f, d) ∈ h) : Ok h (c.set f d) := by
  rcases hc with ⟨hmem, h0, h1, h2⟩
  have hmem' : MemOk h (memSet c.mem f d) := by
    intro p hp
    simp only [memSet, List.mem_cons, List.mem_filter] at hp
    rcases hp with rfl | ⟨hp, _⟩
    · exact hm
    · exact hmem p hp
  unfold Cache.set
  by_cases hl0 : d.length ≤ c.lim0
  · simp only [hl0, if_true]
    exact ⟨hmem', h0.set hm, h1, h2⟩
  · simp only [hl0, if_false]
    split
    · exact ⟨hmem, h0, h1.set hm, h2⟩
    · exact ⟨hmem, h0, h1, h2.set hm⟩

theorem Ok.evict {h : History} {c : Cache} (hc : Ok h c) (fs : List Fid) : Ok h (c.evict fs) :=
  ⟨fun p hp => hc.1 p (List.mem_filter.mp hp).1, hc.2.1, hc.2.2.1, hc.2.2.2⟩

theorem Ok.restart {h : History} {c : Cache} (hc : Ok h c) (o0 o1 o2 : LayerOracle) : Ok h (c.restart o0 o1 o2) :=
  ⟨fun _ hp => (by cases hp), hc.2.1.restart o0, hc.2.2.1.restart o1, hc.2.2.2.restart o2⟩

/-- the invariant along any operation sequence, with the history growing by its stores -/
theorem Ok.run {ops : List Op} : ∀ {h : History} {c : Cache}, Ok h c → Ok (h ++ stores ops) (c.run ops) := by
  induction ops with
  | nil => intro h c hc; simpa [Cache.run, stores] using hc
  | cons op ops ih =>
    intro h c hc
    cases op with
    | store f d =>
      have hc' : Ok (h ++ [(f, d)]) (c.set f d) :=
        (hc.mono (fun p hp => List.mem_append_left _ hp)).set (List.mem_append_right _ (List.mem_singleton.mpr rfl))
      have := ih hc'
      simpa [Cache.run, Cache.step, stores, List.append_assoc] using this
    | lookup f m => simpa [Cache.run, Cache.step, stores] using ih hc
    | slice f off len => simpa [Cache.run, Cache.step, stores] using ih hc
    | restart o0 o1 o2 => simpa [Cache.run, Cache.step, stores] using ih (hc.restart o0 o1 o2)
    | evict fs => simpa [Cache.run, Cache.step, stores] using ih (hc.evict fs)

/-! ### where answers come from -/

theorem memGet_some {m : List (Fid × Bytes)} {f : Fid} {d : Bytes} (hg : memGet m f = some d) : (f, d) ∈ m := by
  simp only [memGet, Option.map_eq_some_iff] at hg
  rcases hg with ⟨p, hp, rfl⟩
  have h1 := List.find?_some hp
  have h2 := List.mem_of_find?_eq_some hp
  have : p.1 = f := by simpa using h1
  rw [← this]; exact h2

theorem getVols_cases (vs : List Vol) (key : Nat) :
    getVols vs key = [] ∨ ∃ v ∈ vs, ∃ e ∈ v.entries, e.key = key ∧ e.data = getVols vs key := by
  induction vs with
  | nil => left; rfl
  | cons v vs ih =>
    have lift : (getVols vs key = [] ∨ ∃ v ∈ vs, ∃ e ∈ v.entries, e.key = key ∧ e.data = getVols vs key) →
        (getVols vs key = [] ∨ ∃ w ∈ v :: vs, ∃ e ∈ w.entries, e.key = key ∧ e.data = getVols vs key) := by
      rintro (h | ⟨w, hw, r⟩)
      · exact Or.inl h
      · exact Or.inr ⟨w, List.mem_cons_of_mem _ hw, r⟩
    unfold getVols
    split
    · rename_i e hg
      split
      · exact Or.inr ⟨v, List.mem_cons_self .., e, (Vol.get_some hg).1, (Vol.get_some hg).2, rfl⟩
      · exact lift ih
    · exact lift ih

theorem sliceVols_cases (vs : List Vol) (key off len : Nat) :
    sliceVols vs key off len = [] ∨
    ∃ v ∈ vs, ∃ e ∈ v.entries, e.key = key ∧ sliceVols vs key off len = (e.data.drop off).take len := by
  induction vs with
  | nil => left; rfl
  | cons v vs ih =>
    have lift : (sliceVols vs key off len = [] ∨ ∃ v ∈ vs, ∃ e ∈ v.entries, e.key = key ∧ sliceVols vs key off len = (e.data.drop off).take len) →
        (sliceVols vs key off len = [] ∨ ∃ w ∈ v :: vs, ∃ e ∈ w.entries, e.key = key ∧ sliceVols vs key off len = (e.data.drop off).take len) := by
      rintro (h | ⟨w, hw, r⟩)
      · exact Or.inl h
      · exact Or.inr ⟨w, List.mem_cons_of_mem _ hw, r⟩
    unfold sliceVols
    split
    · rename_i e hg
      split
      · exact lift ih
      · split
        · exact Or.inr ⟨v, List.mem_cons_self .., e, (Vol.get_some hg).1, (Vol.get_some hg).2, rfl⟩
        · exact lift ih
    · exact lift ih

theorem sliceVols_length_le (vs : List Vol) (key off len : Nat) : (sliceVols vs key off len).length ≤ len := by
  rcases sliceVols_cases vs key off len with h | ⟨_, _, e, _, _, h⟩
  · simp [h]
  · rw [h]; simp only [List.length_take]; omega

theorem memSlice_length_le (m : List (Fid × Bytes)) (f : Fid) (off len : Nat) : (memSlice m f off len).length ≤ len := by
  unfold memSlice
  split
  · simp
  · split
    · simp
    · simp only [List.length_take]; omega

/-- a `GetChunk` answer is nothing or a byte string the cache holds for this id / this key -/
theorem get_cases (c : Cache) (f : Fid) (m : Nat) : c.get f m = [] ∨ FromCache c f (c.get f m) := by
  have hl (l : Layer) (hl : l = c.l0 ∨ l = c.l1 ∨ l = c.l2) :
      getVols l.vols f.key = [] ∨ FromCache c f (getVols l.vols f.key) := by
    rcases getVols_cases l.vols f.key with h | ⟨v, hv, e, he, hk, hd⟩
    · exact Or.inl h
    · exact Or.inr (Or.inr ⟨l, hl, v, hv, e, he, hk, hd⟩)
  unfold Cache.get
  simp only []
  split
  · cases hm : memGet c.mem f with
    | none => left; rfl
    | some d => right; left; simpa using memGet_some hm
  · split
    · exact hl c.l0 (Or.inl rfl)
    · split
      · exact hl c.l1 (Or.inr (Or.inl rfl))
      · split
        · exact hl c.l2 (Or.inr (Or.inr rfl))
        · left; rfl

/-- a `GetChunkSlice` answer is nothing or the window [off, off+len) of a byte string the cache holds -/
theorem getSlice_cases (c : Cache) (f : Fid) (off len : Nat) :
    c.getSlice f off len = [] ∨ ∃ d, FromCache c f d ∧ c.getSlice f off len = (d.drop off).take len := by
  have hl (l : Layer) (hl : l = c.l0 ∨ l = c.l1 ∨ l = c.l2) :
      sliceVols l.vols f.key off len = [] ∨
      ∃ d, FromCache c f d ∧ sliceVols l.vols f.key off len = (d.drop off).take len := by
    rcases sliceVols_cases l.vols f.key off len with h | ⟨v, hv, e, he, hk, hd⟩
    · exact Or.inl h
    · exact Or.inr ⟨e.data, Or.inr ⟨l, hl, v, hv, e, he, hk, rfl⟩, hd⟩
  unfold Cache.getSlice
  simp only []
  split
  · unfold memSlice
    cases hm : memGet c.mem f with
    | none => left; rfl
    | some d =>
      simp only []
      split
      · left; rfl
      · right; exact ⟨d, Or.inl (memGet_some hm), rfl⟩
  · split
    · exact hl c.l0 (Or.inl rfl)
    · split
      · exact hl c.l1 (Or.inr (Or.inl rfl))
      · split
        · exact hl c.l2 (Or.inr (Or.inr rfl))
        · left; rfl

/-- under the invariant, what a lookup of `f` can find was stored for `f` — provided no other id shares `f`'s key -/
theorem Ok.fromCache {h : History} {c : Cache} (hc : Ok h c) {f : Fid} (hown : KeyOwned h f) {d : Bytes}
    (hf : FromCache c f d) : (f, d) ∈ h := by
  rcases hf with hm | ⟨l, hl, v, hv, e, he, hk, rfl⟩
  · exact hc.1 _ hm
  · have hlo : LayerOk h l := by
      rcases hl with rfl | rfl | rfl
      · exact hc.2.1
      · exact hc.2.2.1
      · exact hc.2.2.2
    rcases hlo v hv e he with ⟨g, hgk, hgm⟩
    have : g = f := hown g e.data hgm (hgk.trans hk)
    rw [← this]; exact hgm

/-! ### the data file -/

theorem padded_ge (n : Nat) : n ≤ padded n := by unfold padded; split <;> omega

/-- appending to the data file does not change what an entry inside the file reads -/
theorem read_append (v : BVol) (x : Bytes) (e : Nat × Nat × Nat) (he : e.2.1 + e.2.2 ≤ v.dat.length) :
    (({ v with dat := v.dat ++ x } : BVol).read e) = v.read e := by
  simp only [BVol.read]
  rw [List.drop_append_of_le_length (by omega)]
  rw [List.take_append_of_le_length (by simp only [List.length_drop]; omega)]

end SwV.Lemmas.C31
