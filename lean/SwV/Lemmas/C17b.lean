/-
C17 lemmas, part 2: the overlay of a sorted chunk list names a NEWEST covering chunk;
ResolveChunkManifest keeps exactly the chunks that matter for the window; the view list
denotes the overlay inside the window; the read loop delivers the bytes the views denote.
-/
import SwV.Lemmas.C17
namespace SwV.Lemmas.C17
open SwV.Model.C17 SwV.Spec.C17

/-! ### last covering chunk = newest covering chunk of a sorted list -/

/-- the last chunk of the list covering p -/
def lastCov : List Chunk → Nat → Option Chunk
  | [], _ => none
  | c :: cs, p =>
    match lastCov cs p with
    | some r => some r
    | none => if c.off ≤ p ∧ p < c.stop then some c else none

theorem lastCov_cons_some {c : Chunk} {cs : List Chunk} {p : Nat} {r : Chunk} (h : lastCov cs p = some r) :
    lastCov (c :: cs) p = some r := by simp [lastCov, h]

theorem lastCov_cons_none {c : Chunk} {cs : List Chunk} {p : Nat} (h : lastCov cs p = none) :
    lastCov (c :: cs) p = if c.off ≤ p ∧ p < c.stop then some c else none := by simp [lastCov, h]

theorem foldl_stepSpec (cs : List Chunk) (f : Nat → Option Shown) (p : Nat) :
    (cs.foldl (fun f c => stepSpec c f) f) p =
      match lastCov cs p with
      | some c => some (shows c p)
      | none => f p := by
  induction cs generalizing f with
  | nil => rfl
  | cons c cs ih =>
    simp only [List.foldl_cons, ih, lastCov]
    cases lastCov cs p with
    | some r => rfl
    | none =>
      simp only [stepSpec]
      split <;> rfl

theorem specOf_eq (cs : List Chunk) (p : Nat) :
    specOf cs p = (lastCov cs p).map (fun c => shows c p) := by
  unfold specOf; rw [foldl_stepSpec]; cases lastCov cs p <;> rfl

theorem lastCov_mem {cs : List Chunk} {p : Nat} {c : Chunk} (h : lastCov cs p = some c) :
    c ∈ cs ∧ covers c p := by
  induction cs with
  | nil => simp [lastCov] at h
  | cons d cs ih =>
    cases h' : lastCov cs p with
    | some r =>
      rw [lastCov_cons_some h'] at h; simp only [Option.some.injEq] at h; subst h
      exact ⟨List.mem_cons_of_mem _ (ih h').1, (ih h').2⟩
    | none =>
      rw [lastCov_cons_none h'] at h
      split at h
      · rename_i hc; simp only [Option.some.injEq] at h; subst h
        exact ⟨List.mem_cons_self, hc⟩
      · cases h

theorem lastCov_none {cs : List Chunk} {p : Nat} (h : lastCov cs p = none) :
    ∀ c ∈ cs, ¬ covers c p := by
  induction cs with
  | nil => simp
  | cons d cs ih =>
    cases h' : lastCov cs p with
    | some r => rw [lastCov_cons_some h'] at h; cases h
    | none =>
      rw [lastCov_cons_none h'] at h
      split at h
      · cases h
      · rename_i hc
        intro c hc'
        rcases List.mem_cons.1 hc' with rfl | hc'
        · exact fun hcov => hc hcov
        · exact ih h' c hc'

theorem keyLe_refl (c : Chunk) : keyLe c c := Or.inr ⟨rfl, Nat.le_refl _⟩

theorem chunkLe_iff (a b : Chunk) : chunkLe a b = true ↔ keyLe a b := by
  unfold chunkLe chunkLess keyLe
  by_cases h : b.mtime = a.mtime
  · simp [h]
  · have h' : ¬ a.mtime = b.mtime := fun e => h e.symm
    simp [h, h']; omega

theorem chunkLe_trans (a b c : Chunk) (h1 : chunkLe a b = true) (h2 : chunkLe b c = true) : chunkLe a c = true := by
  rw [chunkLe_iff] at *; unfold keyLe at *; omega

theorem chunkLe_total (a b : Chunk) : (chunkLe a b || chunkLe b a) = true := by
  rw [Bool.or_eq_true, chunkLe_iff, chunkLe_iff]; unfold keyLe; omega

/-- a chunk order the reader may end up with: sorted by the comparator -/
def SortedBy (cs : List Chunk) : Prop := cs.Pairwise keyLe

theorem sortChunks_sorted (cs : List Chunk) : SortedBy (sortChunks cs) := by
  have := List.pairwise_mergeSort (le := chunkLe) chunkLe_trans chunkLe_total cs
  exact this.imp (fun h => (chunkLe_iff _ _).1 h)

theorem sortChunks_perm (cs : List Chunk) : (sortChunks cs).Perm cs := List.mergeSort_perm cs chunkLe

theorem lastCov_newest {cs : List Chunk} (hs : SortedBy cs) {p : Nat} {c : Chunk}
    (h : lastCov cs p = some c) : Newest cs p c := by
  induction cs with
  | nil => simp [lastCov] at h
  | cons d cs ih =>
    have hs' := List.pairwise_cons.1 hs
    cases h' : lastCov cs p with
    | some r =>
      rw [lastCov_cons_some h'] at h; simp only [Option.some.injEq] at h; subst h
      obtain ⟨hm, hc, hn⟩ := ih hs'.2 h'
      refine ⟨List.mem_cons_of_mem _ hm, hc, ?_⟩
      intro c' hc' hcov
      rcases List.mem_cons.1 hc' with rfl | hc'
      · exact hs'.1 _ hm
      · exact hn c' hc' hcov
    | none =>
      rw [lastCov_cons_none h'] at h
      split at h
      · rename_i hc; simp only [Option.some.injEq] at h; subst h
        refine ⟨List.mem_cons_self, hc, ?_⟩
        intro c' hc' hcov
        rcases List.mem_cons.1 hc' with rfl | hc'
        · exact keyLe_refl _
        · exact absurd hcov (lastCov_none h' c' hc')
      · cases h

theorem Newest.perm {cs cs' : List Chunk} (hp : cs.Perm cs') {p : Nat} {c : Chunk} (h : Newest cs p c) :
    Newest cs' p c :=
  ⟨hp.mem_iff.1 h.1, h.2.1, fun c' hc' => h.2.2 c' (hp.mem_iff.2 hc')⟩

/-! ### ResolveChunkManifest -/

theorem not_outside {off size lo hi p : Nat} (h1 : off ≤ p) (h2 : p < off + size) (h3 : lo ≤ p) (h4 : p < hi) :
    outside off size lo hi = false := by
  unfold outside; simp only [ge_iff_le, decide_eq_false_iff_not]; omega

theorem outside_false_pos {off size lo hi : Nat} (h : outside off size lo hi = false) : 0 < size := by
  unfold outside at h; simp only [ge_iff_le, decide_eq_false_iff_not] at h; omega

/-- what survives the filter is a positive-size data chunk of the tree -/
theorem resolveList_sub (lo hi : Nat) : ∀ (ns : List Node) (c : Chunk),
    c ∈ resolveList lo hi ns → c ∈ flatten ns ∧ 0 < c.size
  | [], c, h => by simp [resolveList] at h
  | .data d :: ns, c, h => by
    simp only [resolveList, resolveNode, List.mem_append] at h
    rcases h with h | h
    · split at h
      · simp at h
      · rename_i ho
        simp only [List.mem_singleton] at h; subst h
        exact ⟨by simp [flatten], outside_false_pos (by simpa using ho)⟩
    · have := resolveList_sub lo hi ns c h
      exact ⟨by simp [flatten, this.1], this.2⟩
  | .manifest off size fid ch :: ns, c, h => by
    simp only [resolveList, resolveNode, List.mem_append] at h
    rcases h with h | h
    · split at h
      · simp at h
      · have := resolveList_sub lo hi ch c h
        exact ⟨by simp [flatten, this.1], this.2⟩
    · have := resolveList_sub lo hi ns c h
      exact ⟨by simp [flatten, this.1], this.2⟩

/-- nothing that covers a byte of the window is filtered out (manifest extents contain their chunks) -/
theorem resolveList_complete (lo hi p : Nat) (hlo : lo ≤ p) (hhi : p < hi) : ∀ (ns : List Node) (c : Chunk),
    wellFormed ns = true → c ∈ flatten ns → covers c p → c ∈ resolveList lo hi ns
  | [], c, _, h, _ => by simp [flatten] at h
  | .data d :: ns, c, hw, h, hc => by
    simp only [flatten, List.mem_cons] at h
    simp only [resolveList, resolveNode, List.mem_append]
    rcases h with rfl | h
    · left
      rw [not_outside hc.1 hc.2 hlo hhi]; simp
    · right; exact resolveList_complete lo hi p hlo hhi ns c (by simpa [wellFormed] using hw) h hc
  | .manifest off size fid ch :: ns, c, hw, h, hc => by
    simp only [wellFormed, Bool.and_eq_true, List.all_eq_true, decide_eq_true_eq] at hw
    simp only [flatten, List.mem_append] at h
    simp only [resolveList, resolveNode, List.mem_append]
    rcases h with h | h
    · left
      have hx := hw.1.1 c h
      have : outside off size lo hi = false := not_outside (p := p) (by have := hc.1; omega) (by have := hc.2; omega) hlo hhi
      rw [this]; simp only [Bool.false_eq_true, if_false]
      exact resolveList_complete lo hi p hlo hhi ch c hw.1.2 h hc
    · right; exact resolveList_complete lo hi p hlo hhi ns c hw.2 h hc

/-! ### views -/

def vcov (w : View) (p : Nat) : Prop := w.logic ≤ p ∧ p < w.logic + w.size

instance (w : View) (p : Nat) : Decidable (vcov w p) := by unfold vcov; infer_instance

/-- the byte a view list denotes at p -/
def viewByte (data : Nat → Nat → Nat) (ws : List View) (p : Nat) : Nat :=
  match ws.find? (fun w => decide (vcov w p)) with
  | some w => data w.fid (w.off + (p - w.logic))
  | none => 0

abbrev VSorted (ws : List View) : Prop := ws.Pairwise (fun a b => a.logic + a.size ≤ b.logic)

theorem viewOf_some {offset stop : Nat} {v : Vis} {w : View} (h : viewOf offset stop v = some w) :
    w.fid = v.fid ∧ w.csize = v.csize ∧ w.logic = max offset v.start ∧ w.logic + w.size = min stop v.stop ∧
    0 < w.size ∧ w.off = w.logic - v.start + v.coff := by
  unfold viewOf at h
  simp only at h
  split at h
  · simp only [Option.some.injEq] at h; subst h; simp; omega
  · cases h

theorem views_sorted {vs : List Vis} {f : Nat → Option Shown} (h : VInv vs f) (offset size : Nat) :
    VSorted (viewsOfVisibles vs offset size) := by
  unfold viewsOfVisibles
  refine List.Pairwise.filterMap _ ?_ h.sorted
  intro a a' hR b hb b' hb'
  have h1 := viewOf_some hb
  have h2 := viewOf_some hb'
  show b.logic + b.size ≤ b'.logic
  have : a.stop ≤ a'.start := hR
  omega

theorem views_window {vs : List Vis} (offset size : Nat) {w : View} (hw : w ∈ viewsOfVisibles vs offset size) :
    0 < w.size ∧ offset ≤ w.logic ∧ w.logic + w.size ≤ viewStop offset size ∧ ∃ v ∈ vs, w.logic + w.size ≤ v.stop := by
  unfold viewsOfVisibles at hw
  obtain ⟨v, hv, hvw⟩ := List.mem_filterMap.1 hw
  have := viewOf_some hvw
  refine ⟨this.2.2.2.2.1, by omega, by omega, v, hv, by omega⟩

/-- inside the window a view shows exactly what the overlay says -/
theorem views_sem_some {vs : List Vis} {f : Nat → Option Shown} (h : VInv vs f) (offset size p : Nat)
    {w : View} (hw : w ∈ viewsOfVisibles vs offset size) (hc : vcov w p) :
    ∃ mt, f p = some (w.fid, mt, w.csize, w.off + (p - w.logic)) := by
  unfold viewsOfVisibles at hw
  obtain ⟨v, hv, hvw⟩ := List.mem_filterMap.1 hw
  have hx := viewOf_some hvw
  have hcv : cov v p := by unfold cov; unfold vcov at hc; omega
  have := (h.sem p (val v p)).1 ⟨v, hv, hcv, rfl⟩
  refine ⟨v.mtime, ?_⟩
  rw [this]; unfold val
  have e : w.off + (p - w.logic) = v.coff + (p - v.start) := by unfold vcov at hc; unfold cov at hcv; omega
  rw [hx.1, hx.2.1, e]

theorem views_sem_none {vs : List Vis} {f : Nat → Option Shown} (h : VInv vs f) (offset size p : Nat)
    (hlo : offset ≤ p) (hhi : p < viewStop offset size)
    (hn : ∀ w ∈ viewsOfVisibles vs offset size, ¬ vcov w p) : f p = none := by
  cases hf : f p with
  | none => rfl
  | some r =>
    exfalso
    obtain ⟨v, hv, hcv, _⟩ := (h.sem p r).2 hf
    unfold cov at hcv
    have hpos : max offset v.start < min (viewStop offset size) v.stop := by omega
    let w : View := { fid := v.fid, off := max offset v.start - v.start + v.coff, size := min (viewStop offset size) v.stop - max offset v.start, logic := max offset v.start, csize := v.csize }
    have hw : viewOf offset (viewStop offset size) v = some w := by
      unfold viewOf; simp only [hpos, if_true]; rfl
    refine hn w (List.mem_filterMap.2 ⟨v, hv, hw⟩) ?_
    show max offset v.start ≤ p ∧ p < max offset v.start + (min (viewStop offset size) v.stop - max offset v.start)
    omega

/-! ### the read loop -/

/-- progress of the reader from s to s' by k bytes that agree with g; F bounds the positions delivered -/
def Adv (g : Nat → Nat) (F : Nat) (s s' : RS) (k : Nat) : Prop :=
  s'.acc = s.acc ++ (List.range' s.pos k).map g ∧ (k = 0 ∨ s.pos + k ≤ F) ∧
  ((s'.rem = 0 ∧ k = s.rem) ∨ (0 < s'.rem ∧ s'.pos = s.pos + k ∧ s'.pos + s'.rem = s.pos + s.rem))

theorem Adv.refl (g : Nat → Nat) (F : Nat) (s : RS) : Adv g F s s 0 := by
  refine ⟨by simp, Or.inl rfl, ?_⟩
  by_cases h : s.rem = 0
  · exact Or.inl ⟨h, h.symm⟩
  · exact Or.inr ⟨by omega, rfl, rfl⟩

theorem Adv.trans {g : Nat → Nat} {F : Nat} {s s1 s2 : RS} {k1 k2 : Nat}
    (h1 : Adv g F s s1 k1) (hr : 0 < s1.rem) (h2 : Adv g F s1 s2 k2) : Adv g F s s2 (k1 + k2) := by
  obtain ⟨a1, b1, c1⟩ := h1
  obtain ⟨a2, b2, c2⟩ := h2
  rcases c1 with ⟨c1, _⟩ | ⟨_, hp1, he1⟩
  · omega
  refine ⟨?_, ?_, ?_⟩
  · rw [a2, a1, hp1, List.append_assoc, ← List.map_append, List.range'_append_1]
  · rcases b2 with b2 | b2
    · subst b2; simpa using b1
    · right; omega
  · rcases c2 with ⟨c2, c2'⟩ | ⟨c2, c2', c2''⟩
    · left; exact ⟨c2, by omega⟩
    · right; exact ⟨c2, by omega, by omega⟩

theorem Adv.congr {g g' : Nat → Nat} {F : Nat} {s s' : RS} {k : Nat} (h : Adv g F s s' k)
    (hg : ∀ p, s.pos ≤ p → g p = g' p) : Adv g' F s s' k := by
  refine ⟨?_, h.2.1, h.2.2⟩
  rw [h.1]; congr 1
  apply List.map_congr_left
  intro p hp; exact hg p (List.mem_range'_1.1 hp).1

theorem map_range'_shift (f g : Nat → Nat) (a b : Nat) : ∀ n, (∀ i, i < n → f (a + i) = g (b + i)) →
    (List.range' a n).map f = (List.range' b n).map g
  | 0, _ => rfl
  | n + 1, h => by
    rw [List.range'_succ, List.range'_succ, List.map_cons, List.map_cons]
    have h0 := h 0 (by omega)
    simp only [Nat.add_zero] at h0
    rw [h0, map_range'_shift f g (a + 1) (b + 1) n (fun i hi => by have := h (i + 1) (by omega); simpa [Nat.add_assoc, Nat.add_comm 1 i] using this)]

theorem map_const_range' : ∀ (n a : Nat), (List.range' a n).map (fun _ => (0 : Nat)) = List.replicate n 0
  | 0, _ => rfl
  | n + 1, a => by rw [List.range'_succ, List.map_cons, map_const_range' n (a + 1), List.replicate_succ]

theorem gapStep_adv (g : Nat → Nat) (F : Nat) (w : View) (s : RS) (hr : 0 < s.rem)
    (hg0 : ∀ p, p < w.logic → g p = 0) (hF : w.logic ≤ F) :
    ∃ k, Adv g F s (gapStep w s) k ∧ (0 < (gapStep w s).rem → w.logic ≤ (gapStep w s).pos) := by
  unfold gapStep
  by_cases h : s.pos < w.logic
  · simp only [h, if_true]
    have hz : (List.range' s.pos (min (w.logic - s.pos) s.rem)).map g = List.replicate (min (w.logic - s.pos) s.rem) 0 := by
      rw [← map_const_range' _ s.pos]
      apply List.map_congr_left
      intro p hp
      have := List.mem_range'_1.1 hp
      exact hg0 p (by omega)
    refine ⟨min (w.logic - s.pos) s.rem, ⟨?_, ?_, ?_⟩, fun _ => Nat.le_refl _⟩
    · show s.acc ++ List.replicate (min (w.logic - s.pos) s.rem) 0 = s.acc ++ (List.range' s.pos (min (w.logic - s.pos) s.rem)).map g
      rw [hz]
    · right; omega
    · show (s.rem - (w.logic - s.pos) = 0 ∧ min (w.logic - s.pos) s.rem = s.rem) ∨
        (0 < s.rem - (w.logic - s.pos) ∧ w.logic = s.pos + min (w.logic - s.pos) s.rem ∧ w.logic + (s.rem - (w.logic - s.pos)) = s.pos + s.rem)
      by_cases h2 : s.rem ≤ w.logic - s.pos
      · left; omega
      · right; omega
  · simp only [h, if_false]
    exact ⟨0, Adv.refl g F s, fun _ => by omega⟩

theorem copyStep_adv (data : Nat → Nat → Nat) (g : Nat → Nat) (F : Nat) (w : View) (s : RS) (hr : 0 < s.rem)
    (hpos : w.logic ≤ s.pos)
    (hg1 : ∀ p, vcov w p → g p = data w.fid (w.off + (p - w.logic))) (hF : w.logic + w.size ≤ F) :
    ∃ k, Adv g F s (copyStep data w s) k ∧ (0 < (copyStep data w s).rem → w.logic + w.size ≤ (copyStep data w s).pos) := by
  unfold copyStep
  simp only [ge_iff_le, Nat.max_eq_right hpos]
  generalize hm : min (w.logic + w.size) (s.pos + s.rem) = m
  have hm1 : m ≤ w.logic + w.size := by omega
  have hm2 : m ≤ s.pos + s.rem := by omega
  have hm3 : m = w.logic + w.size ∨ m = s.pos + s.rem := by omega
  by_cases h : m ≤ s.pos
  · simp only [h, if_true]
    exact ⟨0, Adv.refl g F s, fun _ => by omega⟩
  · simp only [h, if_false]
    refine ⟨m - s.pos, ⟨?_, ?_, ?_⟩, ?_⟩
    · show s.acc ++ (List.range' (s.pos - w.logic + w.off) (m - s.pos)).map (data w.fid) = s.acc ++ (List.range' s.pos (m - s.pos)).map g
      congr 1
      apply map_range'_shift
      intro i hi
      rw [hg1 (s.pos + i) (by unfold vcov; omega)]
      congr 1; omega
    · right; omega
    · show (s.rem - (m - s.pos) = 0 ∧ m - s.pos = s.rem) ∨
        (0 < s.rem - (m - s.pos) ∧ s.pos + (m - s.pos) = s.pos + (m - s.pos) ∧ s.pos + (m - s.pos) + (s.rem - (m - s.pos)) = s.pos + s.rem)
      by_cases h2 : s.pos + s.rem ≤ w.logic + w.size
      · left; omega
      · right; omega
    · show 0 < s.rem - (m - s.pos) → w.logic + w.size ≤ s.pos + (m - s.pos)
      intro hr'; omega

theorem readLoop_rem0 (data : Nat → Nat → Nat) (ws : List View) (s : RS) (h : s.rem = 0) : readLoop data ws s = s := by
  cases ws with
  | nil => rfl
  | cons w ws => simp [readLoop, h]

theorem viewByte_before (data : Nat → Nat → Nat) {ws : List View} {p : Nat} (h : ∀ w ∈ ws, ¬ vcov w p) :
    viewByte data ws p = 0 := by
  unfold viewByte
  have : ws.find? (fun w => decide (vcov w p)) = none := by
    rw [List.find?_eq_none]; intro x hx; simpa using h x hx
  rw [this]

theorem viewByte_head (data : Nat → Nat → Nat) (w : View) (ws : List View) {p : Nat} (h : vcov w p) :
    viewByte data (w :: ws) p = data w.fid (w.off + (p - w.logic)) := by
  unfold viewByte; simp [List.find?_cons, h]

theorem viewByte_tail (data : Nat → Nat → Nat) (w : View) (ws : List View) {p : Nat} (h : ¬ vcov w p) :
    viewByte data (w :: ws) p = viewByte data ws p := by
  unfold viewByte; simp [List.find?_cons, h]

/-- the loop delivers, position by position, the bytes the (sorted) view list denotes -/
theorem readLoop_spec (data : Nat → Nat → Nat) (F : Nat) : ∀ (ws : List View) (s : RS), VSorted ws →
    (∀ w ∈ ws, w.logic + w.size ≤ F) →
    ∃ k, Adv (viewByte data ws) F s (readLoop data ws s) k ∧
      (0 < (readLoop data ws s).rem → ∀ w ∈ ws, w.logic + w.size ≤ (readLoop data ws s).pos)
  | [], s, _, _ => ⟨0, Adv.refl _ F s, fun _ w hw => by simp at hw⟩
  | w :: ws, s, hs, hF => by
    have hs' := List.pairwise_cons.1 hs
    by_cases hr : s.rem = 0
    · rw [readLoop_rem0 _ _ _ hr]
      exact ⟨0, Adv.refl _ F s, fun h => by omega⟩
    have hr' : 0 < s.rem := by omega
    have hwF := hF w List.mem_cons_self
    -- the bytes before w are zeros, the bytes of w are w's
    have hg0 : ∀ p, p < w.logic → viewByte data (w :: ws) p = 0 := by
      intro p hp
      apply viewByte_before
      intro x hx
      rcases List.mem_cons.1 hx with rfl | hx
      · unfold vcov; omega
      · have := hs'.1 x hx; unfold vcov; omega
    obtain ⟨k1, a1, p1⟩ := gapStep_adv (viewByte data (w :: ws)) F w s hr' hg0 (by omega)
    have hloop : readLoop data (w :: ws) s =
        if (gapStep w s).rem = 0 then gapStep w s else readLoop data ws (copyStep data w (gapStep w s)) := by
      simp [readLoop, hr]
    rw [hloop]
    by_cases hr1 : (gapStep w s).rem = 0
    · simp only [hr1, if_true]
      exact ⟨k1, a1, fun h => by omega⟩
    simp only [hr1, if_false]
    have hr1' : 0 < (gapStep w s).rem := by omega
    obtain ⟨k2, a2, p2⟩ := copyStep_adv data (viewByte data (w :: ws)) F w (gapStep w s) hr1' (p1 hr1')
      (fun p hp => viewByte_head data w ws hp) hwF
    by_cases hr2 : (copyStep data w (gapStep w s)).rem = 0
    · rw [readLoop_rem0 _ _ _ hr2]
      exact ⟨k1 + k2, a1.trans hr1' a2, fun h => by omega⟩
    have hr2' : 0 < (copyStep data w (gapStep w s)).rem := by omega
    obtain ⟨k3, a3, p3⟩ := readLoop_spec data F ws (copyStep data w (gapStep w s)) hs'.2
      (fun x hx => hF x (List.mem_cons_of_mem _ hx))
    have a3' : Adv (viewByte data (w :: ws)) F (copyStep data w (gapStep w s)) (readLoop data ws (copyStep data w (gapStep w s))) k3 := by
      apply a3.congr
      intro p hp
      symm; apply viewByte_tail
      have := p2 hr2'
      unfold vcov; omega
    refine ⟨k1 + k2 + k3, (a1.trans hr1' a2).trans hr2' a3', ?_⟩
    intro h x hx
    rcases List.mem_cons.1 hx with rfl | hx
    · have h3 := a3.2.2
      have := p2 hr2'
      rcases h3 with ⟨h3, _⟩ | ⟨_, h3, _⟩ <;> omega
    · exact p3 h x hx

end SwV.Lemmas.C17
