/- C35 — helper lemmas: list facts about the backing-array operations. -/
import SwV.Model.C35
import SwV.Spec.C35

namespace SwV.Lemmas.C35
open SwV.Model.C35 SwV.Spec.C35

def WF (c : Cell) : Prop := c.len ≤ c.arr.length
def UrlsNodup (l : List Loc) : Prop := (l.map (·.url)).Nodup

theorem view_length (c : Cell) (h : WF c) : c.view.length = c.len := by
  simp only [Cell.view, List.length_take]; exact Nat.min_eq_left h

theorem take_set_succ {α : Type} (l : List α) (n : Nat) (x : α) (h : n < l.length) :
    (l.set n x).take (n + 1) = l.take n ++ [x] := by
  induction l generalizing n with
  | nil => simp at h
  | cons y ys ih =>
    cases n with
    | zero => simp
    | succ n => simp only [List.set_cons_succ, List.take_succ_cons, List.cons_append]; rw [ih]; simpa using h

theorem take_set_of_le {α : Type} (l : List α) (n m : Nat) (x : α) (h : m ≤ n) :
    (l.set n x).take m = l.take m := by
  induction l generalizing n m with
  | nil => simp
  | cons y ys ih =>
    cases m with
    | zero => simp
    | succ m =>
      cases n with
      | zero => omega
      | succ n => simp only [List.set_cons_succ, List.take_succ_cons]; rw [ih]; omega

theorem hasUrl_iff (l : List Loc) (u : String) : hasUrl l u = true ↔ u ∈ l.map (·.url) := by
  simp only [hasUrl, List.any_eq_true, List.mem_map, beq_iff_eq]

/-- what the slice shows after `addLocation` -/
theorem view_add (c : Cell) (loc : Loc) (h : WF c) :
    (c.add loc).1.view = if hasUrl c.view loc.url then c.view else c.view ++ [loc] := by
  unfold Cell.add
  by_cases hu : hasUrl c.view loc.url = true
  · simp [hu]
  · simp only [hu, Bool.false_eq_true, if_false]
    by_cases hl : c.len < c.arr.length
    · simp only [hl, if_true, Cell.view]
      exact take_set_succ _ _ _ hl
    · simp only [hl, if_false]
      have hlen := view_length c h
      show List.take (c.len + 1) (c.view ++ [loc] ++ _) = _
      rw [List.take_append_of_le_length (by simp [hlen])]
      rw [List.take_of_length_le (by simp [hlen])]

theorem wf_add (c : Cell) (loc : Loc) (h : WF c) : WF (c.add loc).1 := by
  unfold Cell.add WF at *
  by_cases hu : hasUrl c.view loc.url = true
  · simpa [hu] using h
  · simp only [hu, Bool.false_eq_true, if_false]
    by_cases hl : c.len < c.arr.length
    · simp only [hl, if_true, List.length_set]; omega
    · simp only [hl, if_false, List.length_append, List.length_replicate, List.length_cons, List.length_nil]
      have := view_length c h
      omega

/-- what the slice shows after `deleteLocation`: the first entry with that url is erased -/
theorem view_del (c : Cell) (u : String) (h : WF c) :
    (c.del u).1.view = c.view.eraseIdx (c.view.findIdx (fun x => x.url == u)) := by
  unfold Cell.del
  simp only
  have hlen := view_length c h
  by_cases hi : c.view.findIdx (fun x => x.url == u) < c.len
  · simp only [hi, if_true]
    show List.take (c.len - 1) (c.view.eraseIdx _) = _
    rw [List.take_of_length_le]
    rw [List.length_eraseIdx, hlen]; simp [hi]
  · simp only [hi, if_false]
    rw [List.eraseIdx_of_length_le (by omega)]

/-- the fresh array of `deleteLocation` has no spare capacity -/
theorem wf_del (c : Cell) (u : String) (h : WF c) : WF (c.del u).1 := by
  unfold Cell.del WF at *
  simp only
  have hlen := view_length c h
  by_cases hi : c.view.findIdx (fun x => x.url == u) < c.len
  · simp only [hi, if_true, List.length_eraseIdx, hlen]; simp
  · simpa [hi] using h

/-- `deleteLocation` re-allocates exactly when it removes something -/
theorem del_realloc (c : Cell) (u : String) :
    (c.del u).2 = decide (c.view.findIdx (fun x => x.url == u) < c.len) := by
  unfold Cell.del
  simp only
  by_cases hi : c.view.findIdx (fun x => x.url == u) < c.len <;> simp [hi]

theorem del_noop (c : Cell) (u : String) (h : (c.del u).2 = false) : (c.del u).1 = c := by
  unfold Cell.del at *
  simp only at *
  by_cases hi : c.view.findIdx (fun x => x.url == u) < c.len
  · simp [hi] at h
  · simp [hi]

/-- what the slice shows after the PRE-REPAIR in-place delete -/
theorem view_delInPlace (c : Cell) (u : String) (h : WF c) :
    (c.delInPlace u).view = c.view.eraseIdx (c.view.findIdx (fun x => x.url == u)) := by
  unfold Cell.delInPlace
  simp only
  by_cases hi : c.view.findIdx (fun x => x.url == u) < c.len
  · simp only [hi, if_true]
    generalize hidx : c.view.findIdx (fun x => x.url == u) = i at hi
    unfold WF at h
    simp only [Cell.view]
    have hA : (c.arr.take i).length = i := by simp; omega
    have hB : ((c.arr.drop (i + 1)).take (c.len - 1 - i)).length = c.len - 1 - i := by simp; omega
    rw [List.take_append_of_le_length (by simp; omega)]
    rw [List.take_of_length_le (by simp; omega)]
    rw [List.eraseIdx_eq_take_drop_succ, List.take_take, List.drop_take]
    have e1 : min i c.len = i := by omega
    have e2 : c.len - (i + 1) = c.len - 1 - i := by omega
    rw [e1, e2]
  · simp only [hi, if_false]
    have := view_length c h
    rw [List.eraseIdx_of_length_le (by omega)]

theorem filter_ne_self (l : List Loc) (u : String) (h : u ∉ l.map (·.url)) :
    l.filter (fun x => x.url != u) = l := by
  rw [List.filter_eq_self]
  intro x hx
  simp only [bne_iff_ne, ne_eq]
  intro e
  exact h (List.mem_map.mpr ⟨x, hx, e⟩)

/-- with distinct urls, erasing the first match is removing the url from the set -/
theorem eraseIdx_findIdx_eq_filter (l : List Loc) (u : String) (h : UrlsNodup l) :
    l.eraseIdx (l.findIdx (fun x => x.url == u)) = l.filter (fun x => x.url != u) := by
  induction l with
  | nil => simp
  | cons x xs ih =>
    unfold UrlsNodup at h
    simp only [List.map_cons, List.nodup_cons] at h
    rw [List.findIdx_cons]
    by_cases hx : x.url = u
    · subst hx
      simp only [beq_self_eq_true, cond_true, List.eraseIdx_zero, List.tail_cons]
      rw [List.filter_cons]
      simp [filter_ne_self xs x.url h.1]
    · have hb : (x.url == u) = false := by simpa using hx
      simp only [hb, cond_false, List.eraseIdx_cons_succ, List.filter_cons]
      simp [hx, ih h.2]

theorem nodup_filter (l : List Loc) (u : String) (h : UrlsNodup l) : UrlsNodup (l.filter (fun x => x.url != u)) :=
  (List.filter_sublist.map _).nodup h

theorem nodup_append_new (l : List Loc) (loc : Loc) (h : UrlsNodup l) (hn : hasUrl l loc.url = false) :
    UrlsNodup (l ++ [loc]) := by
  unfold UrlsNodup at *
  rw [List.map_append, List.nodup_append]
  refine ⟨h, by simp, ?_⟩
  intro a ha b hb
  simp at hb
  subst hb
  intro e; subst e
  have := (hasUrl_iff l loc.url).mpr ha
  simp [hn] at this

/-- the loop of LookupVolumeServerUrl, for any starting accumulator -/
theorem orderUrls_acc (dc : String) (l : List Loc) (acc : List String) :
    l.foldl (fun acc loc => if dc == "" || loc.dc == "" || dc != loc.dc then acc ++ [loc.url] else loc.url :: acc) acc
      = ((l.filter (sameDc dc)).reverse.map (·.url)) ++ acc ++ ((l.filter (fun x => !sameDc dc x)).map (·.url)) := by
  induction l generalizing acc with
  | nil => simp
  | cons x xs ih =>
    simp only [List.foldl_cons, ih, List.filter_cons, sameDc]
    by_cases hx : (dc == "" || x.dc == "" || dc != x.dc) = true
    · simp [hx]
    · simp [hx]

end SwV.Lemmas.C35
