/-
C17 lemmas, part 4: the read loop with a fetch oracle.  Without an error it is the fault-free loop;
it reports an error exactly when one of the file ids the fault-free loop fetches is not fetchable;
every view that covers a position of the rest of the window is fetched.
-/
import SwV.Lemmas.C17b
namespace SwV.Lemmas.C17
open SwV.Model.C17 SwV.Spec.C17

theorem readLoopF_ok (ok : Nat → Bool) (data : Nat → Nat → Nat) : ∀ (vs : List View) (s : RS),
    (readLoopF ok data vs s).2 = false → (readLoopF ok data vs s).1 = readLoop data vs s
  | [], s, _ => by simp [readLoopF, readLoop]
  | v :: vs, s, h => by
    simp only [readLoopF] at h ⊢
    simp only [readLoop]
    by_cases h0 : s.rem = 0
    · simp [h0]
    · simp only [h0, if_false] at h ⊢
      by_cases h1 : (gapStep v s).rem = 0
      · simp [h1]
      · simp only [h1, if_false] at h ⊢
        by_cases h2 : (needs v (gapStep v s) && !ok v.fid) = true
        · simp [h2] at h
        · simp only [h2] at h ⊢
          exact readLoopF_ok ok data vs _ h

theorem readLoopF_err_iff (ok : Nat → Bool) (data : Nat → Nat → Nat) : ∀ (vs : List View) (s : RS),
    (readLoopF ok data vs s).2 = false ↔ ∀ f ∈ usedFids data vs s, ok f = true
  | [], s => by simp [readLoopF, usedFids]
  | v :: vs, s => by
    simp only [readLoopF, usedFids]
    by_cases h0 : s.rem = 0
    · simp [h0]
    · simp only [h0, if_false]
      by_cases h1 : (gapStep v s).rem = 0
      · simp [h1]
      · simp only [h1, if_false]
        have ih := readLoopF_err_iff ok data vs (copyStep data v (gapStep v s))
        by_cases hn : needs v (gapStep v s) = true
        · by_cases hk : ok v.fid = true
          · simp only [hn, hk, Bool.not_true, Bool.and_false, Bool.false_eq_true, if_false, if_true, List.cons_append, List.nil_append, List.mem_cons]
            rw [ih]
            constructor
            · intro h f hf; rcases hf with rfl | hf
              · exact hk
              · exact h f hf
            · intro h f hf; exact h f (Or.inr hf)
          · have hk' : ok v.fid = false := by simpa using hk
            simp only [hn, hk', Bool.not_false, Bool.and_true, if_true, List.cons_append, List.nil_append, List.mem_cons]
            constructor
            · intro h; cases h
            · intro h; have := h v.fid (Or.inl rfl); rw [hk'] at this; cases this
        · have hn' : needs v (gapStep v s) = false := by simpa using hn
          simp only [hn', Bool.false_and, Bool.false_eq_true, if_false, List.nil_append]
          exact ih

theorem gapStep_facts (v : View) (s : RS) (p : Nat) (hv : v.logic ≤ p) (h1 : s.pos ≤ p) (h2 : p < s.pos + s.rem) :
    (gapStep v s).pos ≤ p ∧ p < (gapStep v s).pos + (gapStep v s).rem ∧ v.logic ≤ (gapStep v s).pos := by
  unfold gapStep
  split
  · dsimp only; omega
  · omega

theorem copyStep_facts (data : Nat → Nat → Nat) (v : View) (s : RS) (p : Nat) (hv : v.logic + v.size ≤ p)
    (h0 : v.logic ≤ s.pos) (h1 : s.pos ≤ p) (h2 : p < s.pos + s.rem) :
    (copyStep data v s).pos ≤ p ∧ p < (copyStep data v s).pos + (copyStep data v s).rem := by
  unfold copyStep
  simp only [ge_iff_le, Nat.max_eq_right h0]
  have hm : min (v.logic + v.size) (s.pos + s.rem) = v.logic + v.size := by omega
  rw [hm]
  split
  · omega
  · dsimp only; omega

/-- a view that covers a position of the rest of the window is fetched by the fault-free loop -/
theorem usedFids_of_cov (data : Nat → Nat → Nat) : ∀ (ws : List View) (s : RS), VSorted ws →
    ∀ w ∈ ws, ∀ p, vcov w p → s.pos ≤ p → p < s.pos + s.rem → w.fid ∈ usedFids data ws s
  | [], _, _, w, hw, _, _, _, _ => by simp at hw
  | v :: vs, s, hs, w, hw, p, hc, h1, h2 => by
    have hs' := List.pairwise_cons.1 hs
    have h0 : ¬ s.rem = 0 := by omega
    have hvp : v.logic ≤ p := by
      rcases List.mem_cons.1 hw with rfl | hw'
      · exact hc.1
      · have := hs'.1 w hw'; have := hc.1; omega
    obtain ⟨g1, g2, g3⟩ := gapStep_facts v s p hvp h1 h2
    have hr1 : ¬ (gapStep v s).rem = 0 := by omega
    simp only [usedFids, h0, hr1, if_false, List.mem_append]
    rcases List.mem_cons.1 hw with rfl | hw'
    · left
      have hn : needs w (gapStep w s) = true := by
        unfold needs; unfold vcov at hc
        simp only [decide_eq_true_eq]; omega
      simp [hn]
    · right
      have hle := hs'.1 w hw'
      have hcl := hc.1
      obtain ⟨c1, c2⟩ := copyStep_facts data v (gapStep v s) p (by omega) g3 g1 g2
      exact usedFids_of_cov data vs _ hs'.2 w hw' p hc c1 c2

end SwV.Lemmas.C17
