/-
C06 — from the kernel-checked certificates to the MDS property of the concrete Reed–Solomon code:
every erasure pattern losing at most 4 of 14 shards has a decoding matrix (a left inverse of the ten selected
generator rows), any ten surviving bytes of a codeword column determine the data, and the model decoder
(`gfRecon` with the certified matrix) returns the whole codeword.
-/
import SwV.Model.C06
import SwV.Model.C06RS
import SwV.Spec.C06
import SwV.Lemmas.C06
import SwV.Lemmas.C06RS
import SwV.Lemmas.C06Certs
namespace SwV.Lemmas.C06
open SwV.Model.C06 SwV.Spec.C06

/-! ### the enumeration of erasure patterns is complete -/

theorem mem_masksUpTo : ∀ (n l : Nat) (mask : List Bool), mask.length = n →
    (mask.filter (· == false)).length ≤ l → mask ∈ masksUpTo n l := by
  intro n
  induction n with
  | zero =>
    intro l mask hn _
    have : mask = [] := List.eq_nil_of_length_eq_zero hn
    cases l <;> simp [masksUpTo, this]
  | succ n ih =>
    intro l mask hn hl
    cases mask with
    | nil => simp at hn
    | cons b m =>
      have hm : m.length = n := by simpa using hn
      cases b with
      | true =>
        have hl' : (m.filter (· == false)).length ≤ l := by simpa using hl
        cases l with
        | zero => simp only [masksUpTo]; exact List.mem_map.mpr ⟨m, ih 0 m hm hl', rfl⟩
        | succ l =>
          simp only [masksUpTo]
          exact List.mem_append_left _ (List.mem_map.mpr ⟨m, ih (l + 1) m hm hl', rfl⟩)
      | false =>
        have hl' : (m.filter (· == false)).length + 1 ≤ l := by simpa using hl
        cases l with
        | zero => omega
        | succ l =>
          simp only [masksUpTo]
          exact List.mem_append_right _ (List.mem_map.mpr ⟨m, ih l m hm (by omega), rfl⟩)

theorem exists_zip_of_mem {α β : Type} (a : α) : ∀ (l1 : List α) (l2 : List β), a ∈ l1 → l1.length ≤ l2.length →
    ∃ b, (a, b) ∈ l1.zip l2 := by
  intro l1
  induction l1 with
  | nil => intro l2 h; simp at h
  | cons x l1 ih =>
    intro l2 h hl
    cases l2 with
    | nil => simp at hl
    | cons y l2 =>
      rcases List.mem_cons.mp h with rfl | h'
      · exact ⟨y, by simp⟩
      · obtain ⟨b, hb⟩ := ih l2 h' (by simpa using hl)
        exact ⟨b, by simp [hb]⟩

set_option maxRecDepth 100000 in
theorem masks_certs_length : (masksUpTo 14 4).length ≤ rsCerts.length := by decide +kernel

/-- every pattern losing at most 4 of 14 shards has a certified decoding matrix -/
theorem certDM_spec (mask : List Bool) (hm : mask.length = 14) (hl : (mask.filter (· == false)).length ≤ 4) :
    ∃ c, certDM mask = some (firstPresent 10 mask, unpackInv c) ∧ checkCert mask c = true := by
  have hmem := mem_masksUpTo 14 4 mask hm hl
  obtain ⟨c0, hc0⟩ := exists_zip_of_mem mask _ rsCerts hmem masks_certs_length
  have hall := List.all_eq_true.mp certs_ok
  unfold certDM
  cases hf : certTable.find? (fun mc => mc.1 == mask) with
  | none =>
    have := List.find?_eq_none.mp hf (mask, c0) hc0
    simp at this
  | some mc =>
    have h1 := List.find?_some hf
    have h2 := List.mem_of_find?_eq_some hf
    have h3 : mc.1 = mask := by simpa using h1
    refine ⟨mc.2, by simp, ?_⟩
    have := hall mc h2
    unfold certOk at this
    rw [h3] at this; exact this

/-! ### what a valid certificate says -/

theorem unpackInv_bytes (c : Nat) : ∀ row ∈ unpackInv c, IsBytes row := by
  intro row hr
  obtain ⟨r, _, rfl⟩ := List.mem_map.mp hr
  intro x hx
  obtain ⟨j, _, rfl⟩ := List.mem_map.mp hx
  exact Nat.mod_lt _ (by decide)

theorem checkCert_spec (mask : List Bool) (c : Nat) (h : checkCert mask c = true) :
    (selectedRows mask).length = 10 ∧ (∀ r ∈ selectedRows mask, r.length = 10 ∧ IsBytes r) ∧
    (unpackInv c).map (fun row => vecMat 10 row (selectedRows mask)) = (List.range 10).map (identityRow 10) := by
  unfold checkCert at h
  simp only [Bool.and_eq_true, beq_iff_eq, List.all_eq_true, decide_eq_true_eq] at h
  refine ⟨h.1.1, ?_, h.2⟩
  intro r hr
  exact ⟨(h.1.2 r hr).1, fun x hx => (h.1.2 r hr).2 x hx⟩

/-! ### the generator matrix -/

theorem identity10 : (List.range 10).map (identityRow 10) =
    [[1,0,0,0,0,0,0,0,0,0],[0,1,0,0,0,0,0,0,0,0],[0,0,1,0,0,0,0,0,0,0],[0,0,0,1,0,0,0,0,0,0],[0,0,0,0,1,0,0,0,0,0],
     [0,0,0,0,0,1,0,0,0,0],[0,0,0,0,0,0,1,0,0,0],[0,0,0,0,0,0,0,1,0,0],[0,0,0,0,0,0,0,0,1,0],[0,0,0,0,0,0,0,0,0,1]] := by
  decide

theorem matVec_identity10 (d : List Nat) (hd : d.length = 10) (hb : IsBytes d) :
    matVec ((List.range 10).map (identityRow 10)) d = d := by
  match d, hd with
  | [d0, d1, d2, d3, d4, d5, d6, d7, d8, d9], _ =>
    have h : ∀ x ∈ [d0, d1, d2, d3, d4, d5, d6, d7, d8, d9], gfMul 1 x = x := fun x hx => gfMul_one_left x (hb x hx)
    simp only [List.mem_cons, List.not_mem_nil, or_false, forall_eq_or_imp, forall_eq] at h
    obtain ⟨h0, h1, h2, h3, h4, h5, h6, h7, h8, h9⟩ := h
    rw [identity10]
    simp only [matVec, List.map_cons, List.map_nil, gfDot_cons, gfDot_nil_left, gfMul_zero_left, h0, h1, h2, h3, h4, h5,
      h6, h7, h8, h9, Nat.xor_zero, Nat.zero_xor]

theorem matVec_append (A B : List (List Nat)) (d : List Nat) : matVec (A ++ B) d = matVec A d ++ matVec B d := by
  simp [matVec]

theorem matVec_generator (d : List Nat) (hd : d.length = 10) (hb : IsBytes d) :
    matVec (generator 10 rsParity) d = d ++ matVec rsParity d := by
  unfold generator
  rw [matVec_append, matVec_identity10 d hd hb]

theorem getD_matVec (M : List (List Nat)) (d : List Nat) (i : Nat) :
    (matVec M d).getD i 0 = gfDot (M.getD i []) d := by
  unfold matVec
  rw [List.getD_eq_getElem?_getD, List.getD_eq_getElem?_getD, List.getElem?_map]
  cases M[i]? <;> simp

/-! ### erased columns -/

def eraseCol (cw : List Nat) (mask : List Bool) : List (Option Nat) :=
  (cw.zip mask).map fun xb => if xb.2 then some xb.1 else none

theorem eraseCol_getD : ∀ (cw : List Nat) (mask : List Bool), cw.length = mask.length → ∀ i,
    (eraseCol cw mask).getD i none = if mask.getD i false then some (cw.getD i 0) else none := by
  intro cw
  induction cw with
  | nil => intro mask h i; cases mask <;> simp_all [eraseCol]
  | cons x cw ih =>
    intro mask h i
    cases mask with
    | nil => simp at h
    | cons b m =>
      cases i with
      | zero => cases b <;> simp [eraseCol]
      | succ i =>
        have := ih m (by simpa using h) i
        simpa [eraseCol] using this

theorem eraseCol_isSome : ∀ (cw : List Nat) (mask : List Bool), cw.length = mask.length →
    (eraseCol cw mask).map Option.isSome = mask := by
  intro cw
  induction cw with
  | nil => intro mask h; cases mask <;> simp_all [eraseCol]
  | cons x cw ih =>
    intro mask h
    cases mask with
    | nil => simp at h
    | cons b m =>
      have := ih m (by simpa using h)
      cases b <;> simpa [eraseCol] using this

theorem eraseCol_length (cw : List Nat) (mask : List Bool) (h : cw.length = mask.length) :
    (eraseCol cw mask).length = cw.length := by
  simp [eraseCol, h]

theorem fill_erased (cw : List Nat) (mask : List Bool) (h : cw.length = mask.length) :
    ((List.range (eraseCol cw mask).length).map fun i =>
      match (eraseCol cw mask).getD i none with
      | some x => x
      | none => cw.getD i 0) = cw := by
  rw [eraseCol_length cw mask h]
  apply List.ext_getElem
  · simp
  · intro i h1 h2
    simp only [List.getElem_map, List.getElem_range]
    rw [eraseCol_getD cw mask h i]
    have : cw.getD i 0 = cw[i] := by
      rw [List.getD_eq_getElem?_getD, List.getElem?_eq_getElem h2]; rfl
    split <;> (rename_i heq; split at heq <;> simp_all)

theorem mem_firstPresent (k : Nat) (mask : List Bool) (i : Nat) (h : i ∈ firstPresent k mask) :
    mask.getD i false = true := by
  unfold firstPresent at h
  have := List.mem_of_mem_take h
  exact (List.mem_filter.mp this).2

/-! ### the decoder returns the codeword -/

theorem gfRecon_codeword (d : List Nat) (hd : d.length = 10) (hb : IsBytes d) (mask : List Bool)
    (hm : mask.length = 14) (c : Nat) (hc : checkCert mask c = true) :
    gfRecon 10 rsParity (some (firstPresent 10 mask, unpackInv c)) (eraseCol (d ++ matVec rsParity d) mask)
      = some (d ++ matVec rsParity d) := by
  obtain ⟨hg1, hg2, hg3⟩ := checkCert_spec mask c hc
  have hcwlen : (d ++ matVec rsParity d).length = mask.length := by
    rw [List.length_append, hd, hm]; simp [matVec, rsParity]
  have hgen := matVec_generator d hd hb
  unfold gfRecon
  simp only [Option.some.injEq]
  -- the surviving bytes at the selected positions are the selected rows applied to the data
  have hv : (firstPresent 10 mask).map (fun i => ((eraseCol (d ++ matVec rsParity d) mask).getD i none).getD 0)
      = matVec (selectedRows mask) d := by
    unfold selectedRows
    rw [show matVec ((firstPresent 10 mask).map fun i => (generator 10 rsParity).getD i []) d
        = (firstPresent 10 mask).map (fun i => gfDot ((generator 10 rsParity).getD i []) d) from by simp [matVec]]
    apply List.map_congr_left
    intro i hi
    rw [eraseCol_getD _ _ hcwlen, mem_firstPresent 10 mask i hi]
    simp only [if_true, Option.getD_some]
    rw [← hgen, getD_matVec]
  rw [hv]
  -- inverse · (rows · data) = data
  have hdata : matVec (unpackInv c) (matVec (selectedRows mask) d) = d := by
    have e1 : matVec (unpackInv c) (matVec (selectedRows mask) d)
        = ((unpackInv c).map (fun row => vecMat 10 row (selectedRows mask))).map (fun r => gfDot r d) := by
      unfold matVec
      rw [List.map_map]
      apply List.map_congr_left
      intro row hrow
      exact gfDot_matVec 10 d hb row (selectedRows mask) (unpackInv_bytes c row hrow) hg2
    rw [e1, hg3]
    exact matVec_identity10 d hd hb
  rw [hdata]
  exact fill_erased _ mask hcwlen

/-! ### MDS of the concrete codec, on bytes -/

/-- `MDS` of the Spec restricted to columns of BYTES (the model keeps bytes as `Nat`; GF(2^8) arithmetic is only
    meaningful below 256) -/
def MDSBytes (cd : Codec) (k m : Nat) : Prop :=
  ∀ (data : List Nat) (mask : List Bool), data.length = k → IsBytes data → (cd.parity data).length = m →
    mask.length = k + m → (mask.filter (· == false)).length ≤ m →
    cd.recon (((data ++ cd.parity data).zip mask).map fun xb => if xb.2 then some xb.1 else none)
      = some (data ++ cd.parity data)

theorem rsCodec_mdsBytes : MDSBytes rsCodec 10 4 := by
  intro data mask hd hb _ hm hl
  obtain ⟨c, hc1, hc2⟩ := certDM_spec mask hm hl
  have hlen : (data ++ matVec rsParity data).length = mask.length := by
    rw [List.length_append, hd, hm]; simp [matVec, rsParity]
  show gfRecon 10 rsParity (certDM ((eraseCol (data ++ matVec rsParity data) mask).map Option.isSome))
      (eraseCol (data ++ matVec rsParity data) mask) = some (data ++ matVec rsParity data)
  rw [eraseCol_isSome _ _ hlen, hc1]
  exact gfRecon_codeword data hd hb mask hm c hc2

/-- column `p` is a codeword of BYTES -/
def IsByteCodewordAt (cd : Codec) (k m : Nat) (shards : List (List Nat)) (p : Nat) : Prop :=
  ∃ data, data.length = k ∧ IsBytes data ∧ (cd.parity data).length = m ∧ columnAt shards p = data ++ cd.parity data

theorem reconChunk_codewords_bytes (cd : Codec) (k m : Nat) (hmds : MDSBytes cd k m)
    (shards : List (List Nat)) (mask : List Bool)
    (hmask : mask.length = k + m) (hlost : (mask.filter (· == false)).length ≤ m) :
    ∀ cnt start, (∀ p, start ≤ p → p < start + cnt → IsByteCodewordAt cd k m shards p) →
      reconChunk cd (eraseShards shards mask) start cnt
        = some ((List.range cnt).map fun t => columnAt shards (start + t)) := by
  intro cnt
  induction cnt with
  | zero => intro start _; simp [reconChunk]
  | succ c ih =>
    intro start hcw
    obtain ⟨data, hd, hb, hp, hcol⟩ := hcw start (Nat.le_refl _) (by omega)
    have hrec := hmds data mask hd hb hp hmask hlost
    have hrest := ih (start + 1) (fun p h1 h2 => hcw p (by omega) (by omega))
    unfold reconChunk
    rw [optColumn_erase, hcol, hrec, hrest]
    simp only [Option.some.injEq]
    rw [List.range_succ_eq_map, List.map_cons, List.map_map, ← hcol]
    simp only [Nat.add_zero, List.cons.injEq, true_and]
    apply List.map_congr_left
    intro t _
    simp only [Function.comp]
    congr 1; omega

/-- any ten surviving bytes of a codeword column determine the data (hence the whole column) -/
theorem rs_determines_data (d d' : List Nat) (hd : d.length = 10) (hd' : d'.length = 10) (hb : IsBytes d) (hb' : IsBytes d')
    (mask : List Bool) (hm : mask.length = 14) (hl : (mask.filter (· == false)).length ≤ 4)
    (hagree : ∀ i, mask.getD i false = true →
      (d ++ matVec rsParity d).getD i 0 = (d' ++ matVec rsParity d').getD i 0) : d = d' := by
  have hlen : (d ++ matVec rsParity d).length = mask.length := by
    rw [List.length_append, hd, hm]; simp [matVec, rsParity]
  have hlen' : (d' ++ matVec rsParity d').length = mask.length := by
    rw [List.length_append, hd', hm]; simp [matVec, rsParity]
  have h1 : rsCodec.recon (eraseCol (d ++ matVec rsParity d) mask) = some (d ++ matVec rsParity d) :=
    rsCodec_mdsBytes d mask hd hb (by simp [rsCodec, matVec, rsParity]) hm hl
  have h2 : rsCodec.recon (eraseCol (d' ++ matVec rsParity d') mask) = some (d' ++ matVec rsParity d') :=
    rsCodec_mdsBytes d' mask hd' hb' (by simp [rsCodec, matVec, rsParity]) hm hl
  have he : eraseCol (d ++ matVec rsParity d) mask = eraseCol (d' ++ matVec rsParity d') mask := by
    apply List.ext_getElem
    · rw [eraseCol_length _ _ hlen, eraseCol_length _ _ hlen', hlen, hlen']
    · intro i h1 h2
      have e1 := eraseCol_getD _ _ hlen i
      have e2 := eraseCol_getD _ _ hlen' i
      rw [List.getD_eq_getElem?_getD, List.getElem?_eq_getElem h1] at e1
      rw [List.getD_eq_getElem?_getD, List.getElem?_eq_getElem h2] at e2
      simp only [Option.getD_some] at e1 e2
      rw [e1, e2]
      split
      · rename_i hmi; rw [hagree i hmi]
      · rfl
  have : some (d ++ matVec rsParity d) = some (d' ++ matVec rsParity d') := by
    rw [← h1, ← h2, he]
  injection this with this
  exact (List.append_inj this (by rw [hd, hd'])).1

end SwV.Lemmas.C06
