/-
C27 — the depth-first key stream of a depth-≤2 tree (`allKeys`) lists no key twice, and every continuation
point (`Cursor`) stands for a suffix of it. Used by the theorem that the model passes the start-after judge
(`resumeJudge`: no item twice, last page in time).
-/
import SwV.Model.C27
import SwV.Spec.C27
import SwV.Lemmas.C19
import SwV.Lemmas.C27b
namespace SwV.Lemmas.C27
open SwV.Model.C19 (Bytes ltB isPrefix)
open SwV.Model.C27 SwV.Spec.C27 SwV.Lemmas.C19

/-- the first segment of a key -/
def headSeg (k : Bytes) : Bytes :=
  match cutFirstSlash k with
  | some (d, _) => d
  | none => k

theorem sorted_keys_nodup {S : List Ent} (h : SortedDb S) : (S.map (·.key)).Nodup := by
  unfold SortedDb at h
  rw [List.nodup_iff_pairwise_ne, List.pairwise_map]
  refine List.Pairwise.imp ?_ h
  intro a b hab heq
  rw [heq, ltB_irrefl] at hab
  cases hab

/-- every key listed for a top-level entry starts with that entry's name -/
theorem headSeg_entryKeys (ks : List (List Bytes)) (h : Tree2 ks) (e : Ent) (he : e ∈ children ks []) :
    ∀ k ∈ entryKeys ks e, headSeg k = e.key := by
  intro k hk
  have hn := (h.names e he).2
  unfold entryKeys at hk
  cases hexp : e.expired with
  | false =>
    simp only [hexp, Bool.false_eq_true, if_false, List.mem_singleton] at hk
    subst hk
    simp only [headSeg, hn]
  | true =>
    simp only [hexp, if_true, List.mem_map] at hk
    obtain ⟨c, _, rfl⟩ := hk
    simp only [headSeg, cut_dir_marker e.key c.key hn]

theorem entryKeys_nodup (ks : List (List Bytes)) (h : Tree2 ks) (e : Ent) (he : e ∈ children ks []) :
    (entryKeys ks e).Nodup := by
  unfold entryKeys
  cases hexp : e.expired with
  | false => simp
  | true =>
    simp only [if_true]
    have hs := (h.sub e he hexp).2.1.sorted
    unfold SortedDb at hs
    rw [List.nodup_iff_pairwise_ne, List.pairwise_map]
    refine List.Pairwise.imp ?_ hs
    intro a b hab heq
    have : a.key = b.key := List.append_cancel_left heq
    rw [this, ltB_irrefl] at hab
    cases hab

theorem streamOf_nodup (ks : List (List Bytes)) (h : Tree2 ks) : ∀ (L : List Ent), L.Sublist (children ks []) →
    (streamOf ks L).Nodup := by
  intro L hL
  unfold streamOf
  rw [List.nodup_iff_pairwise_ne, List.pairwise_flatMap]
  refine ⟨fun e he => entryKeys_nodup ks h e (hL.subset he), ?_⟩
  have hp : L.Pairwise (fun a b => ltB a.key b.key = true) := List.Pairwise.sublist hL h.sorted
  have hmem : L.Pairwise (fun a b => a ∈ L ∧ b ∈ L ∧ ltB a.key b.key = true) := by
    rw [List.pairwise_iff_forall_sublist] at hp ⊢
    intro a b hab
    exact ⟨(hab.subset (List.mem_cons_self)), (hab.subset (List.mem_cons_of_mem _ List.mem_cons_self)), hp hab⟩
  refine List.Pairwise.imp ?_ hmem
  intro a b ⟨ha, hb, hab⟩ k hka k' hkb hkk
  subst hkk
  have h1 := headSeg_entryKeys ks h a (hL.subset ha) k hka
  have h2 := headSeg_entryKeys ks h b (hL.subset hb) k hkb
  rw [h1] at h2
  rw [h2, ltB_irrefl] at hab
  cases hab

/-- no key twice in the depth-first stream -/
theorem allKeys_nodup (ks : List (List Bytes)) (h : Tree2 ks) : (allKeys ks).Nodup :=
  streamOf_nodup ks h _ (List.Sublist.refl _)

theorem streamOf_append (ks : List (List Bytes)) (A B : List Ent) : streamOf ks (A ++ B) = streamOf ks A ++ streamOf ks B := by
  simp [streamOf, List.flatMap_append]

theorem streamOf_cons (ks : List (List Bytes)) (e : Ent) (B : List Ent) : streamOf ks (e :: B) = entryKeys ks e ++ streamOf ks B := by
  simp [streamOf]

/-- what is left after a continuation point is a suffix of the whole stream -/
theorem cursor_suffix (ks : List (List Bytes)) (m : Bytes) (Z : List Bytes) (hc : Cursor ks m Z) : Z <:+ allKeys ks := by
  cases hc with
  | start => exact List.suffix_refl _
  | file T1 e T2 hT hexp =>
    unfold allKeys
    rw [hT, streamOf_append, streamOf_cons]
    exact ⟨streamOf ks T1 ++ entryKeys ks e, by simp⟩
  | dir T1 d T2 S1 x S2 hT hexp hS =>
    unfold allKeys
    rw [hT, streamOf_append, streamOf_cons]
    simp only [entryKeys, hexp, if_true, hS, List.map_append, List.map_cons]
    exact ⟨streamOf ks T1 ++ (S1.map fun c => d.key ++ [slash] ++ c.key) ++ [d.key ++ [slash] ++ x.key], by simp⟩

theorem cursor_nodup (ks : List (List Bytes)) (h : Tree2 ks) (m : Bytes) (Z : List Bytes) (hc : Cursor ks m Z) : Z.Nodup :=
  List.Nodup.sublist (cursor_suffix ks m Z hc).sublist (allKeys_nodup ks h)

theorem cursor_length_le (ks : List (List Bytes)) (m : Bytes) (Z : List Bytes) (hc : Cursor ks m Z) :
    Z.length ≤ (allKeys ks).length := (cursor_suffix ks m Z hc).length_le

theorem noRepeat_of_nodup : ∀ (l : List Bytes), l.Nodup → noRepeat l = true
  | [], _ => rfl
  | x :: r, h => by
    rw [List.nodup_cons] at h
    simp only [noRepeat, Bool.and_eq_true, Bool.not_eq_true', noRepeat_of_nodup r h.2, and_true]
    cases hc : r.contains x with
    | false => rfl
    | true => exact absurd (List.contains_iff_mem.mp hc) h.1

end SwV.Lemmas.C27
