/- C12 helper lemmas: counter algebra, bounded sums under point updates, frame lemmas (layout-side
   functions do not touch the DataNode/Disk side `Core`). -/
import SwV.Model.C11
import SwV.Spec.C12
namespace SwV.Lemmas.C12
open SwV.Model.C11 SwV.Spec.C12

theorem Counts.ext' {a b : Counts} (h1 : a.vol = b.vol) (h2 : a.rem = b.rem) (h3 : a.ec = b.ec) (h4 : a.max = b.max) : a = b := by
  cases a; cases b; simp_all

@[simp] theorem add_zero (a : Counts) : a.add {} = a := by
  apply Counts.ext' <;> simp [Counts.add]
@[simp] theorem zero_add (a : Counts) : Counts.add {} a = a := by
  apply Counts.ext' <;> simp [Counts.add]
theorem add_assoc (a b c : Counts) : (a.add b).add c = a.add (b.add c) := by
  apply Counts.ext' <;> simp [Counts.add] <;> omega
theorem add_right_comm (a b c : Counts) : (a.add b).add c = (a.add c).add b := by
  apply Counts.ext' <;> simp [Counts.add] <;> omega
@[simp] theorem add_neg (a : Counts) : a.add a.neg = {} := by
  apply Counts.ext' <;> simp [Counts.add, Counts.neg] <;> omega

/-! ## bounded sums -/

theorem sumC_congr {n : Nat} {f g : Nat → Counts} (h : ∀ i, i < n → f i = g i) : sumC n f = sumC n g := by
  induction n with
  | zero => rfl
  | succ n ih =>
    simp only [sumC]
    rw [ih (fun i hi => h i (by omega)), h n (by omega)]

/-- one term of the sum grows by `d` -/
theorem sumC_upd {n s : Nat} {f g : Nat → Counts} {d : Counts} (hs : s < n)
    (hne : ∀ i, i ≠ s → g i = f i) (hs' : g s = (f s).add d) : sumC n g = (sumC n f).add d := by
  induction n with
  | zero => omega
  | succ n ih =>
    simp only [sumC]
    by_cases h : s = n
    · subst h
      rw [sumC_congr (f := g) (g := f) (fun i hi => hne i (by omega)), hs', add_assoc]
    · rw [ih (by omega), hne n (fun e => h e.symm), add_right_comm]

theorem sumI_congr {n : Nat} {f g : Nat → Int} (h : ∀ i, i < n → f i = g i) : sumI n f = sumI n g := by
  induction n with
  | zero => rfl
  | succ n ih =>
    simp only [sumI]
    rw [ih (fun i hi => h i (by omega)), h n (by omega)]

theorem sumI_upd {n s : Nat} {f g : Nat → Int} {d : Int} (hs : s < n)
    (hne : ∀ i, i ≠ s → g i = f i) (hs' : g s = f s + d) : sumI n g = sumI n f + d := by
  induction n with
  | zero => omega
  | succ n ih =>
    simp only [sumI]
    by_cases h : s = n
    · subst h
      rw [sumI_congr (f := g) (g := f) (fun i hi => hne i (by omega)), hs']; omega
    · rw [ih (by omega), hne n (fun e => h e.symm)]; omega

theorem sumI_zero {n : Nat} {f : Nat → Int} (h : ∀ i, i < n → f i = 0) : sumI n f = 0 := by
  induction n with
  | zero => rfl
  | succ n ih => simp only [sumI]; rw [ih (fun i hi => h i (by omega)), h n (by omega)]; rfl

/-! ## UpAdjustDiskUsageDelta keeps the sums -/

theorem sum_nodeUp (c : Core) (N s t : Nat) (d : Counts) (p : Nat → Prop) [DecidablePred p]
    (hc : c.conn s = true) (hs : s < N) (t' : Nat) :
    sumC N (fun i => if p i then live (c.nodeUp s t d) i ((c.nodeUp s t d).cNode i t') else {}) =
      if p s ∧ t' = t then (sumC N (fun i => if p i then live c i (c.cNode i t') else {})).add d
      else sumC N (fun i => if p i then live c i (c.cNode i t') else {}) := by
  by_cases h : p s ∧ t' = t
  · rw [if_pos h]
    obtain ⟨hp, rfl⟩ := h
    apply sumC_upd hs
    · intro i hi
      simp [Core.nodeUp, upd2, live, hi]
    · simp [Core.nodeUp, upd2, live, hp, hc]
  · rw [if_neg h]
    apply sumC_congr
    intro i _
    by_cases hi : i = s
    · subst hi
      by_cases hp : p i
      · have ht : t' ≠ t := fun e => h ⟨hp, e⟩
        simp [Core.nodeUp, upd2, live, ht]
      · simp [hp]
    · simp [Core.nodeUp, upd2, live, hi]

theorem sums_nodeUp {c : Core} {N s t : Nat} {d : Counts} (h : Sums c N) (hc : c.conn s = true) (hs : s < N) :
    Sums (c.nodeUp s t d) N := by
  constructor
  · intro dc r t' ht
    have := sum_nodeUp c N s t d (fun i => c.dcOf i = dc ∧ c.rackOf i = r) hc hs t'
    show (c.nodeUp s t d).cRack dc r t' = sumC N (fun i => if c.dcOf i = dc ∧ c.rackOf i = r then live (c.nodeUp s t d) i ((c.nodeUp s t d).cNode i t') else {})
    rw [this, ← h.rack dc r t' ht]
    by_cases h1 : (c.dcOf s = dc ∧ c.rackOf s = r) ∧ t' = t
    · obtain ⟨⟨rfl, rfl⟩, rfl⟩ := h1
      simp [Core.nodeUp, upd3]
    · rw [if_neg h1]
      have : ¬ (dc = c.dcOf s ∧ r = c.rackOf s ∧ t' = t) := fun ⟨a, b, e⟩ => h1 ⟨⟨a.symm, b.symm⟩, e⟩
      simp [Core.nodeUp, upd3, this]
  · intro dc t' ht
    have := sum_nodeUp c N s t d (fun i => c.dcOf i = dc) hc hs t'
    show (c.nodeUp s t d).cDc dc t' = sumC N (fun i => if c.dcOf i = dc then live (c.nodeUp s t d) i ((c.nodeUp s t d).cNode i t') else {})
    rw [this, ← h.dc dc t' ht]
    by_cases h1 : c.dcOf s = dc ∧ t' = t
    · obtain ⟨rfl, rfl⟩ := h1
      simp [Core.nodeUp, upd2]
    · rw [if_neg h1]
      have : ¬ (dc = c.dcOf s ∧ t' = t) := fun ⟨a, e⟩ => h1 ⟨a.symm, e⟩
      simp [Core.nodeUp, upd2, this]
  · intro t' ht
    have := sum_nodeUp c N s t d (fun _ => True) hc hs t'
    simp only [if_true, true_and] at this
    show (c.nodeUp s t d).cTopo t' = sumC N (fun i => live (c.nodeUp s t d) i ((c.nodeUp s t d).cNode i t'))
    rw [this, ← h.topo t' ht]
    by_cases h1 : t' = t
    · subst h1; simp [Core.nodeUp, upd1]
    · simp [Core.nodeUp, upd1, h1]

/-- the sums do not look at the disks, the registered volumes or the shards -/
theorem sums_of_eq {c c' : Core} {N : Nat} (h : Sums c N)
    (h1 : c'.conn = c.conn) (h2 : c'.dcOf = c.dcOf) (h3 : c'.rackOf = c.rackOf) (h4 : c'.cNode = c.cNode)
    (h5 : c'.cRack = c.cRack) (h6 : c'.cDc = c.cDc) (h7 : c'.cTopo = c.cTopo) : Sums c' N := by
  constructor
  · intro dc r t ht; simp only [live, h1, h2, h3, h4, h5]; exact h.rack dc r t ht
  · intro dc t ht; simp only [live, h1, h2, h4, h6]; exact h.dc dc t ht
  · intro t ht; simp only [live, h1, h4, h7]; exact h.topo t ht

theorem hier_upAdj {c : Core} {N s t : Nat} {d : Counts} (h : HierOk c N) (hc : c.conn s = true) (hs : s < N) :
    HierOk (c.upAdj s t d) N := by
  constructor
  · intro s' t' hc'
    have := h.node s' t' hc'
    by_cases e : s' = s ∧ t' = t
    · obtain ⟨rfl, rfl⟩ := e; simp [Core.upAdj, Core.nodeUp, upd2, this]
    · simp [Core.upAdj, Core.nodeUp, upd2, e, this]
  · unfold Core.upAdj
    exact sums_nodeUp (c := { c with cDisk := upd2 c.cDisk s t ((c.cDisk s t).add d) })
      (sums_of_eq h.sums rfl rfl rfl rfl rfl rfl rfl) hc hs

end SwV.Lemmas.C12
