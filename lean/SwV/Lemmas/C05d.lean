/-
C05 — simulation of whole operation sequences on the CompactMap model against the reference map
of SwV/Spec/C05.lean, under a decidable admissibility predicate that excludes exactly the
recorded findings.
-/
import SwV.Model.C05
import SwV.Spec.C05
import SwV.Lemmas.C05c
namespace SwV.Lemmas.C05
open SwV.Model.C05 SwV.Spec.C05

/-- a stored value as the reference sees it: (full offset, size) -/
def absV (v : Old) : Nat × Int := (fullOff v.1 v.2.1, v.2.2)

/-- abstraction relation: the denoted map, read through `absV`, is the reference map -/
def Abs (cm : List Sec) (r : Ref) : Prop := ∀ k, (denote k cm).map absV = r.get k

/-- operations on a CompactMap -/
inductive Op where
  | set (key off hi : Nat) (size : Int)
  | del (key : Nat)
  | get (key : Nat)
deriving DecidableEq, Repr

/-- the operation does not hit a recorded finding in state `cm`:
    * `set` does not overwrite an OVERFLOW entry whose `OffsetHigher` differs from the new one
      (CompactSection.setOverflowEntry/stale-offset-high-byte; never the case with 4-byte offsets);
    * `del`/`get` address a key within 2^32 of the start of the section consulted for it
      (CompactMap.Get/returns-entry-of-other-key, CompactMap.Delete/deletes-entry-of-other-key). -/
def opOk (cm : List Sec) : Op → Bool
  | .set key _ hi _ => (match ovfAt key cm with | some e => decide (e.hi = hi) | none => true)
  | .del key => noAlias key cm
  | .get key => noAlias key cm

def applyL (batch : Nat) (cm : List Sec) : Op → List Sec
  | .set key off hi size => (setL batch key off hi size cm).1
  | .del key => (delL batch key cm).1
  | .get _ => cm

def applyR (r : Ref) : Op → Ref
  | .set key off hi size => (r.set key (fullOff off hi) size).1
  | .del key => (r.delete key).1
  | .get _ => r

def execL (batch : Nat) (cm : List Sec) (ops : List Op) : List Sec := ops.foldl (applyL batch) cm
def execR (r : Ref) (ops : List Op) : Ref := ops.foldl applyR r

/-- every operation of the sequence is admissible in the model state it is applied to -/
def admFrom (batch : Nat) : List Sec → List Op → Bool
  | _, [] => true
  | cm, op :: ops => opOk cm op && admFrom batch (applyL batch cm op) ops

/-- what the implementation's result must be, given the reference:
    * `Set` returns the previous binding ((0,0) when there was none);
    * `Delete` returns the removed size, 0 when nothing live was removed — or, for what it is
      (finding CompactSection.Delete/negative-size-on-repeated-delete), the stored NEGATIVE size of an
      already deleted entry;
    * `Get` returns the binding under the requested key. -/
def resOk (batch : Nat) (cm : List Sec) (r : Ref) : Op → Prop
  | .set key off hi size =>
    (fullOff (setL batch key off hi size cm).2.1 (setL batch key off hi size cm).2.2.1,
      (setL batch key off hi size cm).2.2.2) = (r.set key (fullOff off hi) size).2
  | .del key =>
    (delL batch key cm).2 = (r.delete key).2 ∨
    ((delL batch key cm).2 < 0 ∧ (r.delete key).2 = 0 ∧ ∃ o, r.get key = some (o, (delL batch key cm).2))
  | .get key =>
    (getL batch key cm).map (fun v => (v.key, fullOff v.off v.hi, v.size)) =
      (r.get key).map (fun p => (key, p.1, p.2))

theorem ref_get_cons (r : Ref) (k o : Nat) (s : Int) (k' : Nat) :
    Ref.get ((k, o, s) :: r) k' = if k' = k then some (o, s) else Ref.get r k' := by
  unfold Ref.get
  rw [List.find?_cons]
  by_cases h : k' = k
  · subst h; simp
  · have : ¬ (k == k') = true := by simp; exact fun x => h x.symm
    simp [h, this]

theorem ref_delete_none (r : Ref) (k : Nat) (h : r.get k = none) : r.delete k = (r, 0) := by
  unfold Ref.delete; rw [h]

theorem ref_delete_some (r : Ref) (k o : Nat) (s : Int) (h : r.get k = some (o, s)) :
    r.delete k = if s > 0 then ((k, o, -s) :: r, s) else (r, 0) := by
  unfold Ref.delete; simp only [h]

theorem abs_nil : Abs [] [] := by intro k; simp [denote, sel, Ref.get]

/-- one step of the simulation -/
theorem step_sim (batch : Nat) (cm : List Sec) (r : Ref) (op : Op)
    (hinv : MapInv batch cm) (habs : Abs cm r) (hok : opOk cm op = true) :
    MapInv batch (applyL batch cm op) ∧ Abs (applyL batch cm op) (applyR r op) ∧ resOk batch cm r op := by
  cases op with
  | set key off hi size =>
    obtain ⟨i1, _, i3, i4⟩ := setL_refines batch key off hi size cm hinv
    have hhi : hiEff key hi cm = hi := by
      have hok' : (match ovfAt key cm with | some e => decide (e.hi = hi) | none => true) = true := hok
      unfold hiEff
      cases ho : ovfAt key cm with
      | none => rfl
      | some e => rw [ho] at hok'; simpa using hok'
    refine ⟨i1, ?_, ?_⟩
    · intro k
      show (denote k (setL batch key off hi size cm).1).map absV = Ref.get ((key, fullOff off hi, size) :: r) k
      rw [i3 k, ref_get_cons, hhi]
      by_cases hk : k = key
      · simp [hk, absV]
      · simp only [hk, if_false]; exact habs k
    · show (fullOff (setL batch key off hi size cm).2.1 (setL batch key off hi size cm).2.2.1,
          (setL batch key off hi size cm).2.2.2) = ((r.get key).getD (0, 0))
      rw [i4, ← habs key]
      cases denote key cm with
      | none => simp [fullOff]
      | some v => rfl
  | del key =>
    have hna : noAlias key cm = true := hok
    obtain ⟨i1, _, i3, i4⟩ := delL_refines batch key cm hinv hna
    have hk := habs key
    cases hd : denote key cm with
    | none =>
      rw [hd] at hk
      have hrn : r.get key = none := hk.symm
      have hov : ovfAt key cm = none := by
        cases ho : ovfAt key cm with
        | none => rfl
        | some v => have := ovfAt_denote key cm v ho; rw [hd] at this; cases this
      refine ⟨i1, ?_, ?_⟩
      · intro k
        show (denote k (delL batch key cm).1).map absV = Ref.get (r.delete key).1 k
        rw [i3 k, ref_delete_none r key hrn, hd]
        by_cases hkk : k = key
        · subst hkk; simp [hrn]
        · simp only [hkk, if_false]; exact habs k
      · left
        show (delL batch key cm).2 = (r.delete key).2
        rw [i4, hov, hd, ref_delete_none r key hrn]
    | some v =>
      rw [hd] at hk
      have hrs : r.get key = some (fullOff v.1 v.2.1, v.2.2) := hk.symm
      refine ⟨i1, ?_, ?_⟩
      · intro k
        show (denote k (delL batch key cm).1).map absV = Ref.get (r.delete key).1 k
        rw [i3 k, ref_delete_some r key _ _ hrs, hd]
        by_cases hp : v.2.2 > 0
        · simp only [hp, if_true]
          rw [ref_get_cons]
          by_cases hkk : k = key
          · simp [hkk, negV, hp, absV]
          · simp only [hkk, if_false]; exact habs k
        · simp only [hp, if_false]
          by_cases hkk : k = key
          · subst hkk; simp [negV, hp, hrs, absV]
          · simp only [hkk, if_false]; exact habs k
      · show (delL batch key cm).2 = (r.delete key).2 ∨
          ((delL batch key cm).2 < 0 ∧ (r.delete key).2 = 0 ∧ ∃ o, r.get key = some (o, (delL batch key cm).2))
        rw [i4, ref_delete_some r key _ _ hrs, hd]
        cases ho : ovfAt key cm with
        | none =>
          left; simp only
          by_cases hp : v.2.2 > 0 <;> simp [hp]
        | some e =>
          have hde := ovfAt_denote key cm e ho
          rw [hd] at hde
          have hve : v = valOf e := by cases hde; rfl
          have hsz : v.2.2 = e.size := by rw [hve]; rfl
          simp only
          rw [hsz]
          by_cases hp : e.size > 0
          · left; simp [hp]
          · simp only [hp, if_false]
            by_cases hz : e.size = 0
            · left; exact hz
            · right
              refine ⟨by omega, trivial, fullOff v.1 v.2.1, ?_⟩
              rw [hrs, hsz]
  | get key =>
    have hna : noAlias key cm = true := hok
    refine ⟨hinv, habs, ?_⟩
    show (getL batch key cm).map (fun v => (v.key, fullOff v.off v.hi, v.size)) =
      (r.get key).map (fun p => (key, p.1, p.2))
    rw [getL_refines batch key cm hinv hna, ← habs key]
    cases denote key cm <;> rfl

theorem run_sim (batch : Nat) : ∀ (ops : List Op) (cm : List Sec) (r : Ref),
    MapInv batch cm → Abs cm r → admFrom batch cm ops = true →
    MapInv batch (execL batch cm ops) ∧ Abs (execL batch cm ops) (execR r ops) := by
  intro ops
  induction ops with
  | nil => intro cm r h1 h2 _; exact ⟨h1, h2⟩
  | cons op ops ih =>
    intro cm r h1 h2 h3
    simp only [admFrom, Bool.and_eq_true] at h3
    obtain ⟨s1, s2, _⟩ := step_sim batch cm r op h1 h2 h3.1
    exact ih _ _ s1 s2 h3.2

theorem admFrom_append (batch : Nat) : ∀ (a b : List Op) (cm : List Sec),
    admFrom batch cm (a ++ b) = (admFrom batch cm a && admFrom batch (execL batch cm a) b) := by
  intro a
  induction a with
  | nil => intro b cm; simp [admFrom, execL]
  | cons op a ih =>
    intro b cm
    simp only [List.cons_append, admFrom, ih, execL, List.foldl_cons, Bool.and_assoc]

/-- every prefix of an admissible sequence is admissible -/
theorem admFrom_prefix (batch : Nat) (a b : List Op) (h : admFrom batch [] (a ++ b) = true) :
    admFrom batch [] a = true := by
  rw [admFrom_append, Bool.and_eq_true] at h; exact h.1

/-- the operation following an admissible prefix: states related before and after, result as the
    reference prescribes -/
theorem run_results (batch : Nat) (pre : List Op) (op : Op) (h : admFrom batch [] (pre ++ [op]) = true) :
    Abs (execL batch [] pre) (execR [] pre) ∧
    resOk batch (execL batch [] pre) (execR [] pre) op ∧
    Abs (applyL batch (execL batch [] pre) op) (applyR (execR [] pre) op) := by
  rw [admFrom_append, Bool.and_eq_true] at h
  obtain ⟨h1, h2⟩ := h
  obtain ⟨m1, m2⟩ := run_sim batch pre [] [] trivial abs_nil h1
  simp only [admFrom, Bool.and_true] at h2
  obtain ⟨_, s2, s3⟩ := step_sim batch _ _ op m1 m2 h2
  exact ⟨m2, s3, s2⟩

/-! ### the judges of the specification accept every result (up to the known negative-size class) -/

/-- the Spec's judges, applied to the model's result of `op` in state `cm` with reference `r`,
    accept (Delete: or report the known negative-size class) -/
def judgesAccept (batch : Nat) (cm : List Sec) (r : Ref) : Op → Prop
  | .set key off hi size =>
    setJudge (r.get key) (fullOff (setL batch key off hi size cm).2.1 (setL batch key off hi size cm).2.2.1)
      (setL batch key off hi size cm).2.2.2 = none
  | .del key =>
    delJudge (r.get key) (delL batch key cm).2 = none ∨
    delJudge (r.get key) (delL batch key cm).2 = some "CompactSection.Delete/negative-size-on-repeated-delete"
  | .get key =>
    getJudge key (r.get key) ((getL batch key cm).map (fun v => (v.key, fullOff v.off v.hi, v.size))) = none

theorem judges_accept (batch : Nat) (cm : List Sec) (r : Ref) (op : Op) (h : resOk batch cm r op) :
    judgesAccept batch cm r op := by
  cases op with
  | set key off hi size =>
    simp only [judgesAccept]
    have h' : (fullOff (setL batch key off hi size cm).2.1 (setL batch key off hi size cm).2.2.1,
      (setL batch key off hi size cm).2.2.2) = (r.get key).getD (0, 0) := h
    unfold setJudge
    rw [← h']
    simp
  | del key =>
    simp only [judgesAccept]
    have h' : (delL batch key cm).2 = (r.delete key).2 ∨
      ((delL batch key cm).2 < 0 ∧ (r.delete key).2 = 0 ∧ ∃ o, r.get key = some (o, (delL batch key cm).2)) := h
    unfold delJudge
    cases hg : r.get key with
    | none =>
      rw [ref_delete_none r key hg, hg] at h'
      rcases h' with h' | ⟨_, _, o, ho⟩
      · left; simp [h']
      · cases ho
    | some p =>
      obtain ⟨o, s⟩ := p
      rw [ref_delete_some r key o s hg] at h'
      by_cases hp : s > 0
      · simp only [hp, if_true] at h' ⊢
        rcases h' with h' | ⟨h1, h2, _⟩
        · left; simp [h']
        · omega
      · simp only [hp, if_false] at h' ⊢
        rcases h' with h' | ⟨h1, _, _⟩
        · left; simp [h']
        · right
          have : ¬ (delL batch key cm).2 = 0 := by omega
          simp [this, h1]
  | get key =>
    simp only [judgesAccept]
    have h' : (getL batch key cm).map (fun v => (v.key, fullOff v.off v.hi, v.size)) =
      (r.get key).map (fun p => (key, p.1, p.2)) := h
    rw [h']
    unfold getJudge
    cases r.get key with
    | none => rfl
    | some p => obtain ⟨o, s⟩ := p; simp

end SwV.Lemmas.C05
