/-
Line-protocol driver runtime shared by every engine (core Lean only, so the
drivers link as `lean_exe`).

Trace line format written by the Go harness (one operation per line):

    <op> <arg> <arg> ... => <out> <out> ...

Tokens contain no spaces (strings travel as hex, see `hexDecode`).  A line that
starts with `#` is a comment.  The engine's handler recomputes the outputs with
the model and runs the property's judge over the IMPLEMENTATION's outputs; it
returns the lines to print:

    DIFF <lineno> <op> ...       model and implementation disagree
    SPECFAIL <lineno> <class> .. the judge (executable form of the Lean spec) fails on the implementation's output
    COV <key>                    coverage counter (aggregated, printed as `STAT <key> <n>` at the end)
-/
namespace SwV.Drv

def hexDigit (n : Nat) : Char :=
  if n < 10 then Char.ofNat (48 + n) else Char.ofNat (87 + n)

def hexVal (c : Char) : Option Nat :=
  if '0' ≤ c ∧ c ≤ '9' then some (c.toNat - 48)
  else if 'a' ≤ c ∧ c ≤ 'f' then some (c.toNat - 87)
  else if 'A' ≤ c ∧ c ≤ 'F' then some (c.toNat - 55)
  else none

/-- bytes → lowercase hex; the empty list travels as `-`. -/
def hexEncode (bs : List UInt8) : String :=
  if bs.isEmpty then "-" else
  String.ofList (bs.flatMap fun b => [hexDigit (b.toNat / 16), hexDigit (b.toNat % 16)])

def hexDecodeAux : List Char → List UInt8 → Option (List UInt8)
  | [], acc => some acc.reverse
  | [_], _ => none
  | a :: b :: rest, acc =>
    match hexVal a, hexVal b with
    | some x, some y => hexDecodeAux rest (UInt8.ofNat (x * 16 + y) :: acc)
    | _, _ => none

def hexDecode (s : String) : Option (List UInt8) :=
  if s == "-" then some [] else hexDecodeAux s.toList []

/-- hex of the UTF-8 bytes of a string token -/
def strOfHex (s : String) : Option String :=
  (hexDecode s).map fun bs => String.ofList (bs.map fun b => Char.ofNat b.toNat)

def hexOfStr (s : String) : String :=
  hexEncode (s.toList.map fun c => UInt8.ofNat c.toNat)

def words (s : String) : List String :=
  (s.splitOn " ").filter (· ≠ "")

structure Line where
  op   : String
  args : List String
  outs : List String
deriving Repr

def parseLine (raw : String) : Option Line :=
  let s := raw.trimAscii.toString
  if s.isEmpty || s.startsWith "#" then none else
  match s.splitOn " => " with
  | [l, r] =>
    match words l with
    | op :: args => some { op := op, args := args, outs := words r }
    | [] => none
  | [l] =>
    -- a line with no outputs (`op args =>` trimmed, or no arrow at all)
    let l' := if l.endsWith " =>" then (l.dropEnd 3).toString else l
    match words l' with
    | op :: args => some { op := op, args := args, outs := [] }
    | [] => none
  | _ => none

/-- An engine: a state, and a handler from (state, line number, parsed line) to
    (new state, lines to print). -/
structure Engine (σ : Type) where
  init : σ
  step : σ → Nat → Line → σ × List String
  /-- lines printed after the last input line (e.g. end-of-trace judges) -/
  finish : σ → List String := fun _ => []

def bumpCov (cov : List (String × Nat)) (k : String) : List (String × Nat) :=
  match cov with
  | [] => [(k, 1)]
  | (k', n) :: rest => if k' == k then (k', n + 1) :: rest else (k', n) :: bumpCov rest k

/-- key of a problem line: `DIFF` or `SPECFAIL <class>` -/
def problemKey (m : String) : String :=
  match words m with
  | "SPECFAIL" :: _ :: cls :: _ => "SPECFAIL " ++ cls
  | k :: _ => k
  | [] => "?"

partial def loop {σ : Type} (e : Engine σ) (h : IO.FS.Stream) (out : IO.FS.Stream)
    (st : σ) (n : Nat) (cov : List (String × Nat)) (bad : List (String × Nat)) : IO (σ × Nat × List (String × Nat) × List (String × Nat)) := do
  let raw ← h.getLine
  if raw.isEmpty then return (st, n, cov, bad)
  let n := n + 1
  match parseLine raw with
  | none => loop e h out st n cov bad
  | some ln =>
    let (st', msgs) := e.step st n ln
    let mut cov := cov
    let mut bad := bad
    for m in msgs do
      if m.startsWith "COV " then
        cov := bumpCov cov (m.drop 4).toString
      else
        -- print the first 20 problem lines of each kind/class, count the rest
        let k := problemKey m
        let seen := (bad.lookup k).getD 0
        if seen < 20 then out.putStrLn m
        bad := bumpCov bad k
    loop e h out st' n cov bad

def run {σ : Type} (e : Engine σ) : IO Unit := do
  let stdin ← IO.getStdin
  let stdout ← IO.getStdout
  let (st, n, cov, bad) ← loop e stdin stdout e.init 0 [] []
  let mut bad := bad
  for m in e.finish st do
    if m.startsWith "COV " then pure () else
      stdout.putStrLn m
      bad := bumpCov bad (problemKey m)
  for (k, c) in cov do
    stdout.putStrLn s!"STAT {k} {c}"
  for (k, c) in bad do
    stdout.putStrLn s!"COUNT {k} {c}"
  stdout.putStrLn s!"DONE lines={n}"

/-- helper for handlers: compare model outputs with implementation outputs -/
def diff (n : Nat) (ln : Line) (model : List String) : List String :=
  if model == ln.outs then []
  else [s!"DIFF {n} {ln.op} {String.intercalate " " ln.args} model=[{String.intercalate " " model}] impl=[{String.intercalate " " ln.outs}]"]

def specfail (n : Nat) (cls : String) (detail : String) : String :=
  s!"SPECFAIL {n} {cls} {detail}"

end SwV.Drv

namespace SwV.Drv

def tokNat (s : String) : Nat := s.toNat?.getD 0
def tokInt (s : String) : Int := s.toInt?.getD 0
/-- hex token → chars (one per byte) -/
def tokChars (s : String) : List Char :=
  ((hexDecode s).getD []).map fun b => Char.ofNat b.toNat
def tokBytes (s : String) : List Nat :=
  ((hexDecode s).getD []).map (·.toNat)
def hexOfChars (cs : List Char) : String := hexEncode (cs.map fun c => UInt8.ofNat c.toNat)
def hexOfNats (bs : List Nat) : String := hexEncode (bs.map UInt8.ofNat)
def okErr (b : Bool) : String := if b then "ok" else "err"

end SwV.Drv
