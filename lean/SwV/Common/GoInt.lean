/-
Runtime for definitions produced by the Go→Lean mini translator (`/verif/extract`).
Go's fixed-width integers are represented as `Int` values kept inside their range
by an explicit `wrap` after every operation that can leave it.  Go's `/` and `%`
truncate toward zero (`Int.tdiv`/`Int.tmod`); `>>` on signed values is an
arithmetic shift (floor division by a power of two).
Core Lean only.
-/
namespace SwV.Go

/-- reduce into `[0, 2^bits)` -/
def wrapU (bits : Nat) (x : Int) : Int := x % (2 ^ bits : Int)

/-- reduce into `[-2^(bits-1), 2^(bits-1))` -/
def wrapS (bits : Nat) (x : Int) : Int :=
  (x + (2 ^ (bits - 1) : Int)) % (2 ^ bits : Int) - (2 ^ (bits - 1) : Int)

def tdiv (a b : Int) : Int := Int.tdiv a b
def tmod (a b : Int) : Int := Int.tmod a b
def shl (a n : Int) : Int := a * (2 ^ n.toNat : Int)
def shr (a n : Int) : Int := a / (2 ^ n.toNat : Int)

/-- bitwise operators on a `bits`-wide two's complement view; result is the unsigned view -/
def bitop (f : Nat → Nat → Nat) (bits : Nat) (a b : Int) : Int :=
  Int.ofNat (f (wrapU bits a).toNat (wrapU bits b).toNat)

def band (bits : Nat) (a b : Int) : Int := bitop Nat.land bits a b
def bor  (bits : Nat) (a b : Int) : Int := bitop Nat.lor bits a b
def bxor (bits : Nat) (a b : Int) : Int := bitop Nat.xor bits a b
def bandnot (bits : Nat) (a b : Int) : Int :=
  bitop (fun x y => Nat.land x (2 ^ bits - 1 - y)) bits a b

/-- `%d` -/
def fmtD (x : Int) : String := toString x

/-- `%0Nd` (Go pads after the sign) -/
def fmtPad (n : Nat) (x : Int) : String :=
  let digits := toString x.natAbs
  let sign := if x < 0 then "-" else ""
  let w := n - sign.length
  sign ++ String.ofList (List.replicate (w - digits.length) '0') ++ digits

end SwV.Go
