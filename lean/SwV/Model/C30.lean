/-
C30 model: the mount's write buffering as the Go code implements it (core Lean only).

  Node, LList, subList, addToTail, addInterval, removeLargest, totalSize, readDataAt
        = IntervalNode / IntervalLinkedList / ContinuousIntervals        (weed/filesys/dirty_page_interval.go)
        = WrittenIntervalNode / … / WrittenContinuousIntervals           (weed/filesys/dirty_pages_temp_interval.go)
  memAddPage, saveLargest, saveAll          = ContinuousDirtyPages.AddPage / saveExistingLargestPageToStorage / FlushData
  tmpAddPage, tmpFlush                      = TempFileDirtyPages.AddPage / FlushData (saveExistingPagesToStorage)
  write, truncate, flush                    = FileHandle.Write, File.Setattr (size), FileHandle.doFlush
  resolve                                   = a fresh reader over (entry chunks, FileSize attribute): C17's viewFromChunks + readAt

The two buffers run the SAME interval algorithm over different nodes; one `Node` serves both: the in-memory
node carries its bytes (`data`, `tmp` unused), the temp-file node carries the offset of its bytes in the temp
file (`tmp`, `data` unused); `tk` (temp kind) selects the two places where they differ (addNodeToTail merges
temp-adjacent nodes; bytes come from the temp file).  The chunk saver is an OUTPUT stream: every
saveToStorage appends a chunk (offset, bytes, next mtime) to the entry; mtimes are taken synchronously in
call order (`time.Now().UnixNano()` before the goroutine starts), so call order = mtime order.

Not modelled (excluded from generation, see prop.json): a zero-length write at an offset where a zero-length
list already stands — AddInterval then lists the same object twice and links it to itself (cyclic list,
ReadData never returns).  The kernel does not forward zero-length writes.
-/
import SwV.Model.C17
namespace SwV.Model.C30

structure Node where
  off  : Nat
  size : Nat
  tmp  : Nat
  data : List Nat
deriving Repr, DecidableEq, Inhabited

/-- an IntervalLinkedList: Head … Tail (never empty in the code) -/
abbrev LList := List Node

def headOff (l : LList) : Nat := match l with | [] => 0 | n :: _ => n.off
def tailStop (l : LList) : Nat := match l.getLast? with | none => 0 | some t => t.off + t.size
/-- list.Size() = Tail.Offset + Tail.Size - Head.Offset -/
def lsize (l : LList) : Nat := tailStop l - headOff l

/-- the part of a node inside [lo, hi): Data[a:b] resp. TempOffset + a -/
def sliceNode (lo hi : Nat) (t : Node) : Option Node :=
  let s := max lo t.off
  let e := min hi (t.off + t.size)
  if s < e then some { off := s, size := e - s, tmp := t.tmp + (s - t.off), data := (t.data.drop (s - t.off)).take (e - s) }
  else none

def subList (l : LList) (lo hi : Nat) : LList := l.filterMap (sliceNode lo hi)

/-- addNodeToTail: the temp-file list merges a node that continues the tail in the temp file -/
def addToTail (tk : Bool) (l : LList) (n : Node) : LList :=
  match l.getLast? with
  | some t => if tk ∧ t.tmp + t.size = n.tmp then l.dropLast ++ [{ t with size := t.size + n.size }] else l ++ [n]
  | none => l ++ [n]

/-- what the first loop of AddInterval keeps of one list -/
def keepParts (n : Node) (l : LList) : List LList :=
  let stop := n.off + n.size
  (if tailStop l ≤ n.off then [l] else []) ++
  (if stop ≤ headOff l then [l] else []) ++
  (if headOff l < n.off ∧ n.off < tailStop l then [subList l (headOff l) n.off] else []) ++
  (if headOff l < stop ∧ stop < tailStop l then [subList l stop (tailStop l)] else [])

/-- removeList: drops the LAST list whose Offset() equals the target's -/
def removeByOffset (lists : List LList) (o : Nat) : List LList :=
  match ((List.range lists.length).filter fun k => headOff (lists.getD k []) == o).getLast? with
  | some k => lists.eraseIdx k
  | none => lists

def addGeneral (tk : Bool) (lists : List LList) (n : Node) : List LList :=
  let stop := n.off + n.size
  let nl := lists.flatMap (keepParts n)
  let ni := nl.findIdx? (fun l => headOff l == stop)
  let pi := nl.findIdx? (fun l => headOff l + lsize l == n.off)
  match pi, ni with
  | some p, some q => removeByOffset (nl.set p (addToTail tk (nl.getD p []) n ++ nl.getD q [])) stop
  | some p, none => nl.set p (addToTail tk (nl.getD p []) n)
  | none, some q => nl.set q (n :: nl.getD q [])
  | none, none => nl ++ [[n]]

/-- ContinuousIntervals.AddInterval / WrittenContinuousIntervals.AddInterval -/
def addInterval (tk : Bool) (lists : List LList) (n : Node) : List LList :=
  match lists with
  | [l] => if tailStop l = n.off then [addToTail tk l n] else addGeneral tk lists n
  | _ => addGeneral tk lists n

def totalSize (lists : List LList) : Nat := (lists.map lsize).sum

/-- index of the list RemoveLargestIntervalLinkedList takes: the LAST one of maximal size, none if that size is 0 -/
def largestIdx (lists : List LList) : Option Nat :=
  let r := (List.range lists.length).foldl (fun (acc : Nat × Option Nat) k =>
    if acc.1 ≤ lsize (lists.getD k []) then (lsize (lists.getD k []), some k) else acc) (0, none)
  if r.1 = 0 then none else r.2

def removeLargest (lists : List LList) : Option (LList × List LList) :=
  match largestIdx lists with
  | none => none
  | some k => some (lists.getD k [], lists.eraseIdx k)

/-- bytes of a node: its Data, or its section of the temp file -/
def nodeBytes (tk : Bool) (temp : List Nat) (t : Node) : List Nat :=
  if tk then (temp.drop t.tmp).take t.size else t.data

def listBytes (tk : Bool) (temp : List Nat) (l : LList) : List Nat := l.flatMap (nodeBytes tk temp)

def writeAt (buf : List (Option Nat)) (pos : Nat) (bs : List Nat) : List (Option Nat) :=
  buf.take pos ++ (bs.map some).take (buf.length - pos) ++ buf.drop (pos + bs.length)

/-- IntervalLinkedList.ReadData(buf[start-base:], start, stop) -/
def readList (tk : Bool) (temp : List Nat) (l : LList) (start stop base : Nat) (buf : List (Option Nat)) : List (Option Nat) :=
  l.foldl (fun b t =>
    let ns := max start t.off
    let ne := min stop (t.off + t.size)
    if ns < ne then writeAt b (ns - base) (((nodeBytes tk temp t).drop (ns - t.off)).take (ne - ns)) else b) buf

/-- ReadDataAt(data, startOffset): (maxStop, buffer; none = untouched) -/
def readDataAt (tk : Bool) (temp : List Nat) (lists : List LList) (off len : Nat) : Nat × List (Option Nat) :=
  lists.foldl (fun (acc : Nat × List (Option Nat)) l =>
    let start := max off (headOff l)
    let stop := min (off + len) (headOff l + lsize l)
    if start < stop then (max acc.1 stop, readList tk temp l start stop off acc.2) else acc) (0, List.replicate len none)

/-! ### the dirty-page buffers and the open file -/

structure SChunk where
  off  : Nat
  size : Nat          -- FileChunk.Size (Setattr may cut it below the blob length)
  mt   : Nat          -- rank of the mtime
  data : List Nat     -- the uploaded blob
deriving Repr, DecidableEq, Inhabited

structure St where
  tk        : Bool := false
  limit     : Nat := 1
  lists     : List LList := []
  temp      : List Nat := []
  hasTemp   : Bool := false
  fileSize  : Nat := 0           -- entry.Attributes.FileSize
  chunks    : List SChunk := []  -- entry.Chunks in mtime order
  nextMt    : Nat := 0
  dirtyMeta : Bool := false
deriving Repr

/-- saveToStorage(reader, offset, size): io.LimitReader(reader, size) — a negative size reads nothing -/
def saveChunk (st : St) (bytes : List Nat) (off : Nat) (size : Int) : St :=
  let d := bytes.take size.toNat
  { st with chunks := st.chunks ++ [{ off := off, size := d.length, mt := st.nextMt, data := d }], nextMt := st.nextMt + 1 }

/-- saveExistingLargestPageToStorage: the list is REMOVED first; chunkSize = min(Size, FileSize − Offset);
    0 ⇒ nothing saved and `false` (the removed list is gone) -/
def saveLargest (st : St) : St × Bool :=
  match removeLargest st.lists with
  | none => (st, false)
  | some (l, rest) =>
    let st' := { st with lists := rest }
    let chunkSize : Int := min (lsize l : Int) ((st.fileSize : Int) - (headOff l : Int))
    if chunkSize = 0 then (st', false)
    else (saveChunk st' (listBytes st.tk st.temp l) (headOff l) chunkSize, true)

/-- saveExistingPagesToStorage: `for saveExistingLargestPageToStorage() {}` -/
def saveAll : Nat → St → St
  | 0, st => st
  | fuel + 1, st =>
    let (st', more) := saveLargest st
    if more then saveAll fuel st' else st'

/-- ContinuousDirtyPages.AddPage -/
def memAddPage (st : St) (off : Nat) (data : List Nat) : St :=
  let st1 := if data.length > st.limit then saveChunk (saveAll (st.lists.length + 1) st) data off data.length else st
  let st2 := { st1 with lists := addInterval false st1.lists { off := off, size := data.length, tmp := 0, data := data } }
  if totalSize st2.lists ≥ st2.limit then (saveLargest st2).1 else st2

/-- TempFileDirtyPages.AddPage: append to the temp file, remember where -/
def tmpAddPage (st : St) (off : Nat) (data : List Nat) : St :=
  let st1 := if st.hasTemp then st else { st with hasTemp := true, temp := [] }
  { st1 with temp := st1.temp ++ data,
             lists := addInterval true st1.lists { off := off, size := data.length, tmp := st1.temp.length, data := [] } }

/-- bytes of list l inside [start, stop): WrittenIntervalLinkedList.ToReader(start, stop) -/
def sectionBytes (temp : List Nat) (l : LList) (start stop : Nat) : List Nat :=
  l.flatMap fun t =>
    let s := max t.off start
    let e := min (t.off + t.size) stop
    if s < e then (temp.drop (s - t.off + t.tmp)).take (e - s) else []

/-- the page loop of TempFileDirtyPages.saveExistingPagesToStorage for one list -/
def tmpSaveList (l : LList) : Nat → Nat → St → St
  | 0, _, st => st
  | fuel + 1, up, st =>
    let listStop := headOff l + lsize l
    if up < listStop then
      let start := max (headOff l) up
      let stop := min listStop (up + st.limit)
      let st' := if start < stop then saveChunk st (sectionBytes st.temp l start stop) start ((stop : Int) - (start : Int)) else st
      tmpSaveList l fuel (up + st.limit) st'
    else st

/-- TempFileDirtyPages.FlushData -/
def tmpFlush (st : St) : St :=
  let st1 := st.lists.foldl (fun s l => tmpSaveList l ((headOff l + lsize l) / (max s.limit 1) + 2) 0 s) st
  if st1.hasTemp then { st1 with lists := [], hasTemp := false, temp := [] } else st1

/-- FileHandle.Write: FileSize = max(offset+len, FileSize); AddPage -/
def write (st : St) (off : Nat) (data : List Nat) : St :=
  let st1 := { st with fileSize := max (off + data.length) st.fileSize, dirtyMeta := true }
  if st.tk then tmpAddPage st1 off data else memAddPage st1 off data

def extent (cs : List SChunk) : Nat := cs.foldl (fun m c => max m (c.off + c.size)) 0

/-- File.Setattr with the size bit: below the current size only the chunks that CROSS the new size are kept
    (cut); chunks that end at or below it are not put back into the list.  The dirty pages are not touched. -/
def truncate (st : St) (size : Nat) : St :=
  let chunks := if size < max (extent st.chunks) st.fileSize then
      st.chunks.filterMap fun c =>
        if c.off + c.size > size then (if size > c.off then some { c with size := size - c.off } else none) else none
    else st.chunks
  { st with chunks := chunks, fileSize := size, dirtyMeta := true }

def toC17 (cs : List SChunk) : List SwV.Model.C17.Chunk :=
  cs.map fun c => { off := c.off, size := c.size, mtime := (c.mt : Int), fid := c.mt, key := c.mt }

/-- FileHandle.doFlush: FlushData, then (dirty metadata) CompactFileChunks and the entry goes to the filer.
    Returns the state and the chunk list sent (none: nothing sent). -/
def flush (st : St) : St × Option (List SChunk) :=
  let st1 := if st.tk then tmpFlush st else saveAll (st.lists.length + 1) st
  if st1.dirtyMeta then
    let keep := (SwV.Model.C17.compact (toC17 st1.chunks)).1.map (·.fid)
    let cs := st1.chunks.filter fun c => keep.contains c.mt
    ({ st1 with chunks := cs, dirtyMeta := false }, some cs)
  else (st1, none)

def dataOf (cs : List SChunk) (fid i : Nat) : Nat :=
  match cs.find? (fun c => c.mt == fid) with
  | some c => c.data.getD i 0
  | none => 0

/-- what a fresh reader gets for the whole file: FileSize(entry) = max(chunk extent, attribute) bytes -/
def resolve (st : St) : List Nat :=
  let total := max (extent st.chunks) st.fileSize
  if total = 0 then [] else
  let views := SwV.Model.C17.viewFromChunks ((toC17 st.chunks).map SwV.Model.C17.Node.data) 0 SwV.Model.C17.maxInt64
  SwV.Model.C17.readAcc (dataOf st.chunks) views total total 0

end SwV.Model.C30
