/-
C18 / C20 / C21 — executable model of the filer namespace mechanism (core Lean only).

Mirrors, branch by branch, the Go code of seaweedfs 2.59:
  weed/filer/filer.go                    CreateEntry, ensureParentDirecotryEntry, UpdateEntry, FindEntry
  weed/filer/filer_delete_entry.go       DeleteEntryMetaAndData, doBatchDeleteFolderMetaAndData, doDeleteEntryMetaAndData, maybeDeleteHardLinks
  weed/filer/filer_deletion.go           deleteChunksIfNotNew, DeleteChunks (sink "q"), DirectDeleteChunks (sink "d")
  weed/filer/filerstore_wrapper.go       InsertEntry/UpdateEntry/FindEntry/DeleteOneEntry of FilerStoreWrapper
  weed/filer/filerstore_hardlink.go      handleUpdateToHardLinks, setHardLink, maybeReadHardLink, DeleteHardLink
  weed/server/filer_grpc_server_rename.go AtomicRenameEntry, moveEntry, moveFolderSubEntries, moveSelfEntry
  weed/filesys/dir_link.go, dir.go       the client protocol for link / unlink (ops `link`, `unlink`, `write`)
over the leveldb2 store (no transactions: a failed rename keeps what it already did; listings
do NOT overlay the hard-link record, FindEntry does).

Paths are REVERSED component lists: /a/b/c = ["c","b","a"], the root is []. So the parent is
`tail`, the name is `head`, and "q is under p" is `p <:+ q`.
-/
namespace SwV.Model.C18

abbrev RPath := List String

structure Entry where
  isDir  : Bool
  tag    : Nat          -- stands for the attributes (Attr.Uid)
  chunks : List Nat     -- file ids of the chunks, in order
  hl     : Nat          -- HardLinkId; 0 = none
  cnt    : Int          -- HardLinkCounter
deriving DecidableEq, Repr, Inhabited

/-- the store: path ↦ stored entry (what leveldb holds under the path), and the KV records of link identities -/
structure St where
  ents : List (RPath × Entry) := []
  kv   : List (Nat × Entry) := []
deriving Repr

inductive Res | ok | err | notfound | diverge
deriving DecidableEq, Repr, Inhabited

/-! ### the store shim: association lists, first match wins, `put` replaces -/

def lookup (p : RPath) : List (RPath × Entry) → Option Entry
  | [] => none
  | x :: r => if x.1 = p then some x.2 else lookup p r

def erase (p : RPath) (l : List (RPath × Entry)) : List (RPath × Entry) :=
  l.filter fun x => decide (x.1 ≠ p)

def put (l : List (RPath × Entry)) (p : RPath) (e : Entry) : List (RPath × Entry) :=
  (p, e) :: erase p l

/-- leveldb2 DeleteFolderChildren: the DIRECT children of d only -/
def delChildren (l : List (RPath × Entry)) (d : RPath) : List (RPath × Entry) :=
  l.filter fun x => match x.1 with
    | [] => true
    | _ :: par => decide (par ≠ d)

def kvGet (s : St) (k : Nat) : Option Entry :=
  (s.kv.find? fun x => x.1 == k).map (·.2)

def kvDel (s : St) (k : Nat) : St :=
  { s with kv := s.kv.filter fun x => x.1 != k }

def kvPut (s : St) (k : Nat) (r : Entry) : St :=
  { s with kv := (k, r) :: s.kv.filter fun x => x.1 != k }

def insertByName (x : String × Entry) : List (String × Entry) → List (String × Entry)
  | [] => [x]
  | y :: r => if x.1 < y.1 then x :: y :: r else y :: insertByName x r

def sortByName (l : List (String × Entry)) : List (String × Entry) := l.foldr insertByName []

/-- ListDirectoryEntries of directory d: (name, STORED entry) in name order; no hard-link overlay (leveldb2 lists natively) -/
def children (s : St) (d : RPath) : List (String × Entry) :=
  sortByName (s.ents.filterMap fun x => match x.1 with
    | [] => none
    | n :: par => if par = d then some (n, x.2) else none)

/-! ### FilerStoreWrapper -/

/-- DeleteHardLink: decrement the record's counter; drop the record at ≤ 0; a missing record is fine -/
def deleteHardLink (s : St) (k : Nat) : St :=
  match kvGet s k with
  | none => s
  | some r => if r.cnt - 1 ≤ 0 then kvDel s k else kvPut s k { r with cnt := r.cnt - 1 }

/-- handleUpdateToHardLinks: setHardLink (record := the whole new entry), then release the link
    identity the path held before if it was a different one -/
def handleUpdateToHardLinks (s : St) (p : RPath) (e : Entry) : St :=
  if e.hl = 0 then s else
  let s1 := kvPut s e.hl e
  match lookup p s1.ents with
  | some ex => if ex.hl ≠ 0 ∧ ex.hl ≠ e.hl then deleteHardLink s1 ex.hl else s1
  | none => s1

/-- FilerStoreWrapper.InsertEntry = UpdateEntry (leveldb2 UpdateEntry is InsertEntry) -/
def wInsert (s : St) (p : RPath) (e : Entry) : St :=
  let s1 := handleUpdateToHardLinks s p e
  { s1 with ents := put s1.ents p e }

/-- Filer.FindEntry below the root: stored entry, overlaid by the link record when there is one (maybeReadHardLink;
    a missing record leaves the stored copy) -/
def find (s : St) (p : RPath) : Option Entry :=
  match lookup p s.ents with
  | none => none
  | some e => if e.hl = 0 then some e else
    match kvGet s e.hl with
    | some r => some r
    | none => some e

/-- FilerStoreWrapper.DeleteOneEntry(existingEntry) -/
def deleteOne (s : St) (p : RPath) (e : Entry) : St :=
  let s1 := if e.hl ≠ 0 then deleteHardLink s e.hl else s
  { s1 with ents := erase p s1.ents }

/-! ### Filer.CreateEntry / UpdateEntry -/

def mkdirEntry (e : Entry) : Entry := { isDir := true, tag := e.tag, chunks := [], hl := 0, cnt := 0 }

/-- ensureParentDirecotryEntry for the directory path given (reversed); `e` is the entry being created -/
def ensureParent (e : Entry) : RPath → St → St × Bool
  | [], s => (s, true)
  | n :: q, s =>
    match find s (n :: q) with
    | some d => (s, d.isDir)
    | none =>
      match ensureParent e q s with
      | (s1, true) => (wInsert s1 (n :: q) (mkdirEntry e), true)
      | (s1, false) => (s1, false)

/-- deleteChunksIfNotNew: chunks of the old version that the new version does not list -/
def notNew (old new : Entry) : List Nat := old.chunks.filter fun c => !new.chunks.contains c

/-- Filer.CreateEntry; third component = file ids handed to DeleteChunks -/
def createEntry (s : St) (p : RPath) (e : Entry) (oexcl : Bool) : St × Res × List Nat :=
  match p with
  | [] => (s, .ok, [])
  | n :: par =>
    match find s (n :: par) with
    | none =>
      match ensureParent e par s with
      | (s1, true) => (wInsert s1 (n :: par) e, .ok, [])
      | (s1, false) => (s1, .err, [])
    | some old =>
      if oexcl then (s, .err, [])
      else if old.isDir != e.isDir then (s, .err, [])
      else (wInsert s (n :: par) e, .ok, notNew old e)

/-- FindEntry + Filer.UpdateEntry (the gRPC UpdateEntry handler's store part) -/
def updateEntry (s : St) (p : RPath) (e : Entry) : St × Res :=
  match find s p with
  | none => (s, .notfound)
  | some old => if old.isDir != e.isDir then (s, .err) else (wInsert s p e, .ok)

/-! ### Filer.DeleteEntryMetaAndData -/

abbrev Batch := St × List Nat × List Nat   -- state, chunks, hard-link ids

def batchStep (rec : St → RPath → Option Batch) (d : RPath) (acc : Option Batch) (sub : String × Entry) : Option Batch :=
  match acc with
  | none => none
  | some (s, cs, hs) =>
    if sub.2.isDir then
      match rec s (sub.1 :: d) with
      | none => none
      | some (s', cs', hs') => some (s', cs ++ cs', hs ++ hs')
    else if sub.2.hl ≠ 0 then some (s, cs, hs ++ [sub.2.hl])
    else some (s, cs ++ sub.2.chunks, hs)

/-- doBatchDeleteFolderMetaAndData with isRecursive = true (fuel = nesting depth; `none` = out of fuel) -/
def doBatch : Nat → St → RPath → Option Batch
  | 0, _, _ => none
  | f + 1, s, d =>
    match (children s d).foldl (batchStep (doBatch f) d) (some (s, [], [])) with
    | none => none
    | some (s', cs, hs) => some ({ s' with ents := delChildren s'.ents d }, cs, hs)

def maxLen (l : List (RPath × Entry)) : Nat := l.foldl (fun m x => max m x.1.length) 0

/-- third component = file ids handed to DirectDeleteChunks -/
def deleteEntry (s : St) (p : RPath) (recursive delChunks : Bool) : St × Res × List Nat :=
  match p with
  | [] => (s, .ok, [])
  | n :: par =>
    match find s (n :: par) with
    | none => (s, .notfound, [])
    | some e =>
      let r : Option Batch :=
        if e.isDir then
          if !recursive && !(children s (n :: par)).isEmpty then none
          else doBatch (maxLen s.ents + 1) s (n :: par)
        else some (s, [], [])
      match r with
      | none => (s, .err, [])
      | some (s1, dcs, hs) =>
        let s2 := deleteOne s1 (n :: par) e
        if delChunks then (hs.foldl deleteHardLink s2, .ok, e.chunks ++ dcs)
        else (s2, .ok, [])

/-! ### AtomicRenameEntry -/

abbrev Mv := St × Res × List Nat

/-- one child inside moveFolderSubEntries: stop at the first failure -/
def moveStep (rec : St → RPath → Entry → RPath → Mv) (old new : RPath) (acc : Mv) (item : String × Entry) : Mv :=
  match acc with
  | (sa, .ok, qa) =>
    match rec sa (item.1 :: old) item.2 (item.1 :: new) with
    | (sb, rb, qb) => (sb, rb, qa ++ qb)
  | other => other

/-- moveEntry (moveSelfEntry + moveFolderSubEntries); fuel = nesting depth, exhausted ⇒ `diverge` -/
def moveEntry : Nat → St → RPath → Entry → RPath → Mv
  | 0, s, _, _, _ => (s, .diverge, [])
  | f + 1, s, old, e, new =>
    if old = new then (s, .ok, []) else
    match createEntry s new { e with hl := 0, cnt := 0 } false with
    | (s1, .ok, q1) =>
      match (if e.isDir then (children s1 old).foldl (moveStep (moveEntry f) old new) (s1, .ok, []) else (s1, .ok, [])) with
      | (s2, .ok, q2) =>
        match deleteEntry s2 old false false with
        | (s3, .ok, _) => (s3, .ok, q1 ++ q2)
        | (s3, _, _) => (s3, .err, q1 ++ q2)
      | (s2, r2, q2) => (s2, r2, q1 ++ q2)
    | (s1, _, q1) => (s1, .err, q1)

def renameFuel : Nat := 64

def renameEntry (s : St) (src dst : RPath) : Mv :=
  match find s src with
  | none => (s, .err, [])
  | some e => moveEntry renameFuel s src e dst

/-! ### the client protocol for hard links (weed/filesys/dir_link.go) -/

/-- the checks the kernel's VFS makes before the file system's Link is called: new name absent, its directory present -/
def linkTargetOk (s : St) (dst : RPath) : Bool :=
  (find s dst).isNone && (match dst with
    | [] => false
    | [_] => true
    | _ :: par => ((find s par).map (·.isDir)).getD false)

/-- Dir.Link: a plain file gets the new identity with counter 1; then the counter is incremented -/
def linked (o : Entry) (hl : Nat) : Entry :=
  if o.hl = 0 then { o with hl := hl, cnt := 2 } else { o with cnt := o.cnt + 1 }

/-- UpdateEntry(old name) then CreateEntry(new name), both with the linked entry -/
def linkOp (s : St) (src dst : RPath) (hl : Nat) : St × Res × List Nat :=
  match find s src with
  | none => (s, .notfound, [])
  | some o =>
    if o.isDir || !linkTargetOk s dst then (s, .err, [])
    else createEntry (wInsert s src (linked o hl)) dst (linked o hl) false

/-! ### operations of the trace -/

inductive Op
  | create (p : RPath) (e : Entry) (oexcl : Bool)
  | update (p : RPath) (e : Entry)
  | write (p : RPath) (tag : Nat) (chunks : List Nat)
  | link (src dst : RPath) (hl : Nat)
  | delete (p : RPath) (recursive ignoreErr delChunks : Bool)
  | unlink (p : RPath)
  | rename (src dst : RPath)
deriving Repr

structure Out where
  res : Res
  q : List Nat := []    -- DeleteChunks
  d : List Nat := []    -- DirectDeleteChunks
deriving Repr

def step (s : St) : Op → St × Out
  | .create p e x => match createEntry s p e x with | (s', r, q) => (s', { res := r, q := q })
  | .update p e => match updateEntry s p e with | (s', r) => (s', { res := r })
  | .write p tag chunks =>
    let e : Entry := match find s p with
      | some o => { isDir := false, tag := tag, chunks := chunks, hl := o.hl, cnt := o.cnt }
      | none => { isDir := false, tag := tag, chunks := chunks, hl := 0, cnt := 0 }
    match createEntry s p e false with | (s', r, q) => (s', { res := r, q := q })
  | .link src dst hl => match linkOp s src dst hl with | (s', r, q) => (s', { res := r, q := q })
  | .delete p r _ dc => match deleteEntry s p r dc with | (s', r, d) => (s', { res := r, d := d })
  | .unlink p =>
    match find s p with
    | none => (s, { res := .notfound })
    | some o => match deleteEntry s p false (decide (o.cnt ≤ 1)) with | (s', r, d) => (s', { res := r, d := d })
  | .rename src dst => match renameEntry s src dst with | (s', r, q) => (s', { res := r, q := q })

def run (s : St) (ops : List Op) : St := ops.foldl (fun s op => (step s op).1) s

end SwV.Model.C18
