/-
C29 — executable model of the path computations between an S3 request and the filer (seaweedfs 2.59):

  * the router hands the handler the percent-DECODED path (`mux` with `SkipClean(true)`: nothing is cleaned);
  * `pathToBucketAndObject` (copy sources), `genUploadsFolder`, `FullPath.DirAndName`;
  * every filer entry point resolves `directory + "/" + name` with `util.JoinPath` = `filepath.Clean`
    (`clean`): empty and "." segments vanish, ".." removes the segment before it — this is where a
    request leaves its bucket;
  * per route, the filer paths a request addresses (`addressed`), and whether they stay below
    `/buckets/<bucket>` (`contained`).
-/
import SwV.Model.C19
namespace SwV.Model.C29
open SwV.Model.C19 (Bytes)

def slash : Nat := 47
def dot : Bytes := [46]
def dotdot : Bytes := [46, 46]
def uploads : Bytes := [46, 117, 112, 108, 111, 97, 100, 115]
def buckets : Bytes := [98, 117, 99, 107, 101, 116, 115]

def splitSlash : Bytes → List Bytes
  | [] => [[]]
  | c :: cs =>
    match splitSlash cs with
    | [] => [[c]]
    | s :: rest => if c = slash then [] :: s :: rest else (c :: s) :: rest

def normal (s : Bytes) : Bool := s ≠ [] && s ≠ dot && s ≠ dotdot

/-- `filepath.Clean` of an absolute path, on segments; `acc` is the stack of kept segments (reversed) -/
def cleanAux : List Bytes → List Bytes → List Bytes
  | acc, [] => acc.reverse
  | acc, s :: rest =>
    if s = [] ∨ s = dot then cleanAux acc rest
    else if s = dotdot then cleanAux acc.tail rest      -- "/.." = "/"
    else cleanAux (s :: acc) rest

def clean (segs : List Bytes) : List Bytes := cleanAux [] segs

def joinSegs : List Bytes → Bytes
  | [] => []
  | s :: rest => [slash] ++ s ++ joinSegs rest

/-- the path string of cleaned segments ("/" for the root) -/
def pathString (segs : List Bytes) : Bytes := if segs.isEmpty then [slash] else joinSegs segs

/-- `util.JoinPath(dir, name)` for an absolute `dir` -/
def joinPath (dir name : Bytes) : Bytes := pathString (clean (splitSlash dir ++ splitSlash name))

def cutFirstSlash : Bytes → Option (Bytes × Bytes)
  | [] => none
  | c :: cs =>
    if c = slash then some ([], cs)
    else match cutFirstSlash cs with
      | some (a, b) => some (c :: a, b)
      | none => none

/-- `pathToBucketAndObject` -/
def pathToBucketAndObject (p : Bytes) : Bytes × Bytes :=
  let p := if p.head? = some slash then p.drop 1 else p
  match cutFirstSlash p with
  | some (b, o) => (b, [slash] ++ o)
  | none => (p, [slash])

/-- `FullPath.DirAndName` -/
def dirAndName (p : Bytes) : Bytes × Bytes :=
  let name := (p.reverse.takeWhile (· ≠ slash)).reverse
  let dir := p.take (p.length - name.length)
  if dir = [slash] then (dir, name)
  else if dir.length < 1 then ([slash], [])
  else (dir.dropLast, name)

def genUploadsFolder (bucket : Bytes) : Bytes := [slash] ++ buckets ++ [slash] ++ bucket ++ [slash] ++ uploads

def hexVal (c : Nat) : Option Nat :=
  if 48 ≤ c ∧ c ≤ 57 then some (c - 48) else if 97 ≤ c ∧ c ≤ 102 then some (c - 87) else if 65 ≤ c ∧ c ≤ 70 then some (c - 55) else none

/-- percent-decoding of a request path / `url.QueryUnescape` (without '+'); fuel = length -/
def pctDecodeF : Nat → Bytes → Bytes
  | 0, _ => []
  | f + 1, 37 :: a :: b :: rest =>
    match hexVal a, hexVal b with
    | some x, some y => (x * 16 + y) :: pctDecodeF f rest
    | _, _ => 37 :: pctDecodeF f (a :: b :: rest)
  | f + 1, c :: rest => c :: pctDecodeF f rest
  | _ + 1, [] => []

def pctDecode (l : Bytes) : Bytes := pctDecodeF l.length l

def isPrefixOf (base p : List Bytes) : Bool := base.length ≤ p.length && p.take base.length == base

/-- the filer paths (cleaned segments) one request to `bucket` addresses, per route -/
def addressed (bucket : Bytes) (route : String) (key uid : Bytes) (names : List Bytes) : List (List Bytes) :=
  let base := [buckets, bucket]
  let obj := clean (base ++ splitSlash (pctDecode key))
  let up := clean (base ++ [uploads] ++ splitSlash uid)
  match route with
  | "bdel" => names.map fun n => clean (base ++ splitSlash n)
  | "mppart" | "mpcopy" | "mplist" | "mpabort" => [up]
  | "mpdone" => [up, obj]
  | "list" => []
  | _ => [obj]

def contained (bucket : Bytes) (ps : List (List Bytes)) : Bool := ps.all (isPrefixOf [buckets, bucket])

end SwV.Model.C29
