/-
C33 — client-side compression and encryption: executable model (core Lean only).

Mirrors the DECISIONS of
  weed/operation/upload_content.go   doUploadData / upload_content (what is gzipped, what is encrypted,
                                     which headers are sent, what the UploadResult reports)
  weed/util/compression.go           IsCompressableFileType, IsGzippedContent, DecompressData (dispatch only)
  weed/storage/needle/needle_parse_upload.go + needle.go   what the volume server stores (payload, compressed flag, name, mime)
  weed/server/volume_server_handlers_read.go               which representation a GET returns
  weed/util/http_util.go             ReadUrlAsStream / readEncryptedUrl / Get
gzip and AES-GCM are ABSTRACT: a `Codec` supplies gzip/gunzip/enc/dec; the theorems assume only
that they are inverse pairs and that gzip output starts with the gzip magic.  The stdlib sniffers
(http.DetectContentType, mime.TypeByExtension, the "first 128 bytes compress below 90%" test)
are inputs of the model, so the theorems hold for every possible outcome of them.
-/
namespace SwV.Model.C33

abbrev Bytes := List Nat

structure Codec where
  gzip : Bytes → Bytes
  /-- `ungzipData` on input that starts with the magic; `none` = error -/
  gunzip : Bytes → Option Bytes
  enc : Bytes → Bytes
  dec : Bytes → Option Bytes

/-- `util.IsGzippedContent` -/
def isGz (b : Bytes) : Bool :=
  match b with
  | a :: c :: _ => a == 31 && c == 139
  | _ => false

/-- `util.DecompressData`: (returned bytes, err == nil). Not gzip-looking: the input comes back with
    UnsupportedCompression. -/
def decompress (c : Codec) (x : Bytes) : Bytes × Bool :=
  if isGz x then
    match c.gunzip x with
    | some y => (y, true)
    | none => ([], false)
  else (x, false)

def str (s : String) : List Char := s.toList

/-- `util.IsCompressableFileType(ext, mtype)`: (shouldBeCompressed, iAmSure) -/
def isCompressable (ext mtype : List Char) : Bool × Bool :=
  if (str "text/").isPrefixOf mtype then (true, true) else
  if ext = str ".svg" ∨ ext = str ".bmp" ∨ ext = str ".wav" then (true, true) else
  if (str "image/").isPrefixOf mtype then (false, true) else
  if [".zip", ".rar", ".gz", ".bz2", ".xz", ".zst", ".br"].any (fun e => ext == str e) then (false, true) else
  if [".pdf", ".txt", ".html", ".htm", ".css", ".js", ".json"].any (fun e => ext == str e) then (true, true) else
  if [".php", ".java", ".go", ".rb", ".c", ".cpp", ".h", ".hpp"].any (fun e => ext == str e) then (true, true) else
  if [".png", ".jpg", ".jpeg"].any (fun e => ext == str e) then (false, true) else
  let app :=
    if (str "application/").isPrefixOf mtype then
      if (str "zstd").isSuffixOf mtype then some (false, true)
      else if (str "xml").isSuffixOf mtype then some (true, true)
      else if (str "script").isSuffixOf mtype then some (true, true)
      else if (str "vnd.rar").isSuffixOf mtype then some (false, true)
      else none
    else none
  match app with
  | some r => r
  | none =>
    if (str "audio/").isPrefixOf mtype then
      let rest := mtype.drop 6
      if rest = str "wave" ∨ rest = str "wav" ∨ rest = str "x-wav" ∨ rest = str "x-pn-wav" then (true, true) else (false, false)
    else (false, false)

structure UpIn where
  name : List Char            -- no '/' (filepath.Base = identity, "" ↦ ".")
  mime : List Char
  cipher : Bool
  inputCompressed : Bool
  data : Bytes
  -- oracles (stdlib)
  detected : List Char        -- http.DetectContentType(data)
  extMime : List Char         -- mime.TypeByExtension(lower(filepath.Ext(name)))
  gz128 : Bool                -- gzip(data[0:128]) is below 90%

structure Stored where
  data : Bytes
  compressed : Bool
  name : List Char
  mime : List Char
deriving DecidableEq, Repr

structure UpOut where
  size : Nat
  gzip : Bool
  hasKey : Bool
  name : List Char
  mime : List Char
  stored : Stored
deriving DecidableEq, Repr

def octet : List Char := str "application/octet-stream"

/-- the part of doUploadData before the upload: (mtype, shouldGzipNow) -/
def decide1 (i : UpIn) : List Char × Bool :=
  if i.inputCompressed then (i.mime, false) else
  let mtype := if i.mime = [] then (if i.detected = octet then [] else i.detected) else i.mime
  let base := if i.name = [] then ['.'] else i.name
  let (sbc, sure) := isCompressable base mtype
  if sure && sbc then (mtype, true)
  else if !sure && mtype = [] && i.data.length > 16 * 1024 then (mtype, i.gz128)
  else (mtype, false)

/-- `strings.LastIndex(name, ".") > 0` -/
def dotIndexPositive (name : List Char) : Bool :=
  match name with
  | [] => false
  | _ :: rest => rest.contains '.'

/-- volume server side (ParseUpload/parseMultipart + CreateNeedleFromRequest): what is stored for a
    multipart POST with this file name, Content-Type and Content-Encoding -/
def serverStore (body : Bytes) (name : List Char) (contentType extMime : List Char) (gz : Bool) : Stored :=
  let srvExtMime := if dotIndexPositive name then extMime else []
  let mimeType := if contentType ≠ [] ∧ contentType ≠ octet ∧ srvExtMime ≠ contentType then contentType else []
  -- an empty blob is written without flags, name and mime (C01: needle version 2/3 body is omitted when DataSize = 0);
  -- name/mime below are the request needle's values, which the upload answer reports
  { data := body, compressed := gz && !body.isEmpty,
    name := if name.length < 256 then name else [],
    mime := if mimeType.length < 256 then mimeType else [] }

def upload (c : Codec) (i : UpIn) : UpOut :=
  let (mtype, shouldGzipNow) := decide1 i
  let gzNow := shouldGzipNow && !i.cipher
  let sent := if gzNow then c.gzip i.data else i.data
  let contentIsGzipped := i.inputCompressed || gzNow
  let (clearData, clearLen) :=
    if gzNow then (i.data, i.data.length)
    else if i.inputCompressed then
      let (u, ok) := decompress c i.data
      (u, if ok then u.length else i.data.length)
    else (i.data, i.data.length)
  if i.cipher then
    { size := clearLen, gzip := false, hasKey := true, name := i.name, mime := mtype,
      stored := serverStore (c.enc clearData) [] [] [] false }
  else
    let ct := if mtype = [] then i.extMime else mtype
    let st := serverStore sent i.name ct i.extMime contentIsGzipped
    { size := clearLen, gzip := contentIsGzipped, hasKey := false, name := st.name, mime := st.mime, stored := st }

/-- GetOrHeadHandler: (bytes, Content-Encoding: gzip?) -/
def serverGet (c : Codec) (st : Stored) (acceptGzip : Bool) : Bytes × Bool :=
  if st.compressed then
    if acceptGzip && isGz st.data then (st.data, true) else ((decompress c st.data).1, false)
  else (st.data, false)

inductive Fetch where
  | full
  | range (off size : Nat)
deriving Repr

/-- `util.ReadUrlAsStream(url, cipherKey, isContentGzipped, isFullChunk, offset, size, fn)`: the bytes handed to `fn`;
    `none` = error -/
def fetch (c : Codec) (o : UpOut) (f : Fetch) : Option Bytes :=
  if o.hasKey then
    -- readEncryptedUrl: util.Get (Accept-Encoding: gzip, decodes a gzip answer), Decrypt, maybe DecompressData
    let (rep, gz) := serverGet c o.stored true
    match (if gz then c.gunzip rep else some rep) with
    | none => none
    | some body =>
      match c.dec body with
      | none => none
      | some clear =>
        let clear := if o.gzip then (decompress c clear).1 else clear
        match f with
        | .full => some clear
        | .range off size => if clear.length < off + size then none else some ((clear.drop off).take size)
  else
    match f with
    | .full =>
      let (rep, gz) := serverGet c o.stored true
      if gz then c.gunzip rep else some rep
    | .range off size =>
      -- Range: bytes=off-(off+size-1), no Accept-Encoding (range semantics: C32; after the parseRange `fix:` commits a
      -- first-byte-pos AT the end is unsatisfiable too: 416)
      let (rep, _) := serverGet c o.stored false
      if size = 0 ∨ off ≥ rep.length then none else some ((rep.drop off).take size)

end SwV.Model.C33
