/-
C06 — executable model of the erasure-coding mechanism (core Lean only).

Parametric in the number of data shards `k`, the large block length `L`, the small block
length `S`, the encoder's buffer size and the two loop-guard operators (`>` / `>=`), which
the Props file derives from the REGENERATED source facts (SwV/Gen/C06.lean).

  encodeDatFile / encodeData / encodeDataOneBatch   → `encRows`, `rowBlock`, `dataShard`, `encode`
  LocateData / locateOffset / ToShardIdAndOffset    → `locateData`, `locateOffset`, `toShardIdAndOffset`
  LocateEcShardNeedle + readEcShardIntervals        → `ecRead` (dat size := k * shard length)
  WriteDatFile                                      → `decodeSegs`, `decode`
  rebuildEcFiles                                    → `rebuild`
Reed–Solomon is a parameter (`Codec`); `gfCodec` is the concrete GF(2^8) instance built from the
parity matrix the harness recovers from the library (used by the driver only).
-/
namespace SwV.Model.C06

/-! ### bytes and files -/

/-- `ReadAt` into a zeroed buffer of `len` bytes at offset `a`: the bytes that exist, then zeros -/
def slicePad (D : List Nat) (a len : Nat) : List Nat :=
  let got := (D.drop a).take len
  got ++ List.replicate (len - got.length) 0

/-- `ReadAt`/`CopyN` of exactly `len` bytes at `a`; `none` = short read (io.EOF) -/
def readExact (F : List Nat) (a len : Nat) : Option (List Nat) :=
  if a + len ≤ F.length then some ((F.drop a).take len) else none

/-- a Go loop guard `rem > bound` (strict) or `rem >= bound` -/
def guardHolds (strict : Bool) (rem bound : Nat) : Bool :=
  if strict then decide (bound < rem) else decide (bound ≤ rem)

/-! ### encoder -/

structure EncCfg where
  k : Nat            -- DataShardsCount
  L : Nat            -- large block size
  S : Nat            -- small block size
  buf : Nat          -- buffer size (production 256KiB)
  strict : Bool      -- operator of the large-row loop guard: `>` = true
deriving Repr

/-- first loop of encodeDatFile: rows of large blocks; returns the row start offsets and the
    remaining / processed sizes on exit -/
def encLargeLoop (c : EncCfg) : Nat → Nat → Nat → List Nat × Nat × Nat
  | 0, rem, p => ([], rem, p)
  | fuel + 1, rem, p =>
    if guardHolds c.strict rem (c.L * c.k) then
      let r := encLargeLoop c fuel (rem - c.L * c.k) (p + c.L * c.k)
      (p :: r.1, r.2.1, r.2.2)
    else ([], rem, p)

/-- second loop: rows of small blocks while `remainingSize > 0` -/
def encSmallLoop (c : EncCfg) : Nat → Nat → Nat → List Nat
  | 0, _, _ => []
  | fuel + 1, rem, p =>
    if 0 < rem then p :: encSmallLoop c fuel (rem - c.S * c.k) (p + c.S * c.k) else []

/-- all rows `(startOffset, blockSize)` in the order the encoder emits them -/
def encRows (c : EncCfg) (n : Nat) : List (Nat × Nat) :=
  let r := encLargeLoop c n n 0
  r.1.map (fun p => (p, c.L)) ++ (encSmallLoop c r.2.1 r.2.1 r.2.2).map (fun p => (p, c.S))

/-- encodeData for shard `i`: `B / buf` batches, batch `b` reads `buf` bytes at
    `start + b*buf + B*i` (zero filled past the end of the file) -/
def rowBlock (D : List Nat) (start B buf i : Nat) : List Nat :=
  (List.range (B / buf)).flatMap fun b => slicePad D (start + b * buf + B * i) buf

def dataShard (c : EncCfg) (D : List Nat) (i : Nat) : List Nat :=
  (encRows c D.length).flatMap fun r => rowBlock D r.1 r.2 c.buf i

/-- Reed–Solomon as a parameter: bytewise (column) encoder and decoder -/
structure Codec where
  /-- k data bytes ↦ m parity bytes -/
  parity : List Nat → List Nat
  /-- a column with erasures ↦ the full column, `none` = too few shards -/
  recon : List (Option Nat) → Option (List Nat)

/-- the first `len` columns of a list of shards (missing bytes read as 0) -/
def columnsOf : Nat → List (List Nat) → List (List Nat)
  | 0, _ => []
  | len + 1, shards => shards.map (fun s => s.headD 0) :: columnsOf len (shards.map List.tail)

/-- the m parity shards: Encode works column by column -/
def parityShards (cd : Codec) (m : Nat) (ds : List (List Nat)) (len : Nat) : List (List Nat) :=
  let pcols := (columnsOf len ds).map cd.parity
  (List.range m).map fun j => pcols.map fun pc => pc.getD j 0

/-- the k data shards followed by the m parity shards -/
def encode (c : EncCfg) (cd : Codec) (m : Nat) (D : List Nat) : List (List Nat) :=
  let ds := (List.range c.k).map (dataShard c D)
  ds ++ parityShards cd m ds (ds.headD []).length

/-! ### locator -/

structure Interval where
  blockIndex : Nat
  inner : Nat
  size : Nat
  isLarge : Bool
  largeRows : Nat
deriving Repr, DecidableEq

def locateOffset (k L S datSize off : Nat) : Nat × Bool × Nat :=
  let largeRowSize := L * k
  let nLargeBlockRows := datSize / (L * k)
  if off < nLargeBlockRows * largeRowSize then (off / L, true, off % L)
  else
    let o := off - nLargeBlockRows * largeRowSize
    (o / S, false, o % S)

/-- the `for size > 0` loop of LocateData -/
def locateLoop (k L S nRows : Nat) : Nat → Nat → Nat → Bool → Nat → List Interval
  | 0, _, _, _, _ => []
  | fuel + 1, size, bi, isL, inner =>
    if size = 0 then [] else
    let blockRemaining := if isL then L - inner else S - inner
    if size ≤ blockRemaining then [⟨bi, inner, size, isL, nRows⟩]
    else
      let bi1 := bi + 1
      let sw := isL && bi1 == nRows * k
      ⟨bi, inner, blockRemaining, isL, nRows⟩ ::
        locateLoop k L S nRows fuel (size - blockRemaining) (if sw then 0 else bi1) (if sw then false else isL) 0

def locateData (k L S datSize off size : Nat) : List Interval :=
  let st := locateOffset k L S datSize off
  let nLargeBlockRows := (datSize + k * S) / (L * k)
  locateLoop k L S nLargeBlockRows size size st.1 st.2.1 st.2.2

def toShardIdAndOffset (k L S : Nat) (iv : Interval) : Nat × Nat :=
  let rowIndex := iv.blockIndex / k
  let ecFileOffset :=
    if iv.isLarge then iv.inner + rowIndex * L
    else iv.inner + (iv.largeRows * L + rowIndex * S)
  (iv.blockIndex % k, ecFileOffset)

/-- readOneEcShardInterval over local shards -/
def readInterval (k L S : Nat) (shards : List (List Nat)) (iv : Interval) : Option (List Nat) :=
  let so := toShardIdAndOffset k L S iv
  readExact (shards.getD so.1 []) so.2 iv.size

/-- readEcShardIntervals: concatenation, first error wins -/
def readIntervals (k L S : Nat) (shards : List (List Nat)) : List Interval → Option (List Nat)
  | [] => some []
  | iv :: rest =>
    match readInterval k L S shards iv with
    | none => none
    | some d =>
      match readIntervals k L S shards rest with
      | none => none
      | some ds => some (d ++ ds)

/-- the EC read path: the dat size handed to LocateData is `k * (size of the first shard)` -/
def ecRead (k L S : Nat) (shards : List (List Nat)) (off size : Nat) : Option (List Nat) :=
  let shardSize := (shards.headD []).length
  readIntervals k L S shards (locateData k L S (k * shardSize) off size)

/-! ### decoder (WriteDatFile) -/

/-- one pass over the k shards copying `min rem S` bytes from each at cursor `pos` -/
def decSmallRow (S pos : Nat) : Nat → Nat → Nat → List (Nat × Nat × Nat) × Nat
  | 0, _, rem => ([], rem)
  | cnt + 1, i, rem =>
    let toRead := min rem S
    let r := decSmallRow S pos cnt (i + 1) (rem - toRead)
    (if toRead = 0 then r.1 else (i, pos, toRead) :: r.1, r.2)

def decSmallLoop (k S : Nat) : Nat → Nat → Nat → List (Nat × Nat × Nat)
  | 0, _, _ => []
  | fuel + 1, pos, rem =>
    if 0 < rem then
      let r := decSmallRow S pos k 0 rem
      r.1 ++ decSmallLoop k S fuel (pos + S) r.2
    else []

def decLargeLoop (k L : Nat) (strict : Bool) : Nat → Nat → Nat → List (Nat × Nat × Nat) × Nat × Nat
  | 0, pos, rem => ([], pos, rem)
  | fuel + 1, pos, rem =>
    if guardHolds strict rem (k * L) then
      let r := decLargeLoop k L strict fuel (pos + L) (rem - k * L)
      ((List.range k).map (fun i => (i, pos, L)) ++ r.1, r.2.1, r.2.2)
    else ([], pos, rem)

/-- the copy plan of WriteDatFile: `(shard, offset, length)` runs in output order -/
def decodeSegs (k L S : Nat) (strict : Bool) (n : Nat) : List (Nat × Nat × Nat) :=
  let r := decLargeLoop k L strict n 0 n
  r.1 ++ decSmallLoop k S r.2.2 r.2.1 r.2.2

def readSegs (shards : List (List Nat)) : List (Nat × Nat × Nat) → Option (List Nat)
  | [] => some []
  | (i, o, l) :: rest =>
    match readExact (shards.getD i []) o l with
    | none => none
    | some d =>
      match readSegs shards rest with
      | none => none
      | some ds => some (d ++ ds)

def decode (k L S : Nat) (strict : Bool) (shards : List (List Nat)) (n : Nat) : Option (List Nat) :=
  readSegs shards (decodeSegs k L S strict n)

/-! ### rebuilder (rebuildEcFiles) -/

inductive ReadRes where
  | stop                 -- a present shard returned 0 bytes: `return nil`
  | err                  -- "ec shard size expected %d actual %d"
  | ok (ibds : Nat)
deriving Repr, DecidableEq

/-- the read phase of one iteration: present shards in order -/
def rebuildReads (C start : Nat) : List (Option (List Nat)) → Nat → ReadRes
  | [], ibds => .ok ibds
  | none :: rest, ibds => rebuildReads C start rest ibds
  | some sh :: rest, ibds =>
    let n := min C (sh.length - start)
    if n = 0 then .stop else
    let ibds' := if ibds = 0 then n else ibds
    if ibds' ≠ n then .err else rebuildReads C start rest ibds'

def optColumn (present : List (Option (List Nat))) (p : Nat) : List (Option Nat) :=
  present.map fun o => o.map fun s => s.getD p 0

/-- columns `start .. start+cnt` reconstructed; `none` = Reconstruct failed -/
def reconChunk (cd : Codec) (present : List (Option (List Nat))) (start : Nat) : Nat → Option (List (List Nat))
  | 0 => some []
  | cnt + 1 =>
    match cd.recon (optColumn present start), reconChunk cd present (start + 1) cnt with
    | some col, some rest => some (col :: rest)
    | _, _ => none

/-- transpose a list of columns (each of width w) into w rows -/
def rowsOfColumns (w : Nat) (cols : List (List Nat)) : List (List Nat) :=
  (List.range w).map fun i => cols.map fun c => c.getD i 0

/-- the main loop; `acc` = regenerated content of all shards so far -/
def rebuildLoop (cd : Codec) (C : Nat) (present : List (Option (List Nat))) :
    Nat → Nat → Nat → List (List Nat) → Option (List (List Nat))
  | 0, _, _, acc => some acc
  | fuel + 1, start, ibds, acc =>
    match rebuildReads C start present ibds with
    | .stop => some acc
    | .err => none
    | .ok ibds' =>
      -- Reconstruct works on whole buffers; only the first `ibds'` bytes are written
      match reconChunk cd present start (if ibds' = 0 then 1 else ibds') with
      | none => none
      | some cols =>
        let rows := rowsOfColumns present.length (cols.take ibds')
        rebuildLoop cd C present fuel (start + ibds') ibds' ((acc.zip rows).map fun ar => ar.1 ++ ar.2)

/-- regenerated shards (all positions; the caller keeps the lost ones) -/
def rebuild (cd : Codec) (C : Nat) (present : List (Option (List Nat))) : Option (List (List Nat)) :=
  let maxLen := present.foldl (fun a o => max a (o.map List.length |>.getD 0)) 0
  rebuildLoop cd C present (maxLen + 1) 0 0 (present.map fun _ => [])

/-! ### the rebuilder's chunk loop at LENGTH level

For shards far above the chunk size `C` (the driver cannot hold megabytes as lists) the loop is followed
on the shard LENGTHS only: `lens[i] = some len` for a present shard file, `none` for a lost one.  The byte
content of every chunk is `reconChunk`'s (theorems `ec_rebuild*`); what the loop adds is which chunks
are read, reconstructed and written, and when it stops or fails. -/

/-- `rebuildReads` on lengths -/
def rebuildReadsLen (C start : Nat) : List (Option Nat) → Nat → ReadRes
  | [], ibds => .ok ibds
  | none :: rest, ibds => rebuildReadsLen C start rest ibds
  | some len :: rest, ibds =>
    let n := min C (len - start)
    if n = 0 then .stop else
    let ibds' := if ibds = 0 then n else ibds
    if ibds' ≠ n then .err else rebuildReadsLen C start rest ibds'

/-- the main loop on lengths: number of bytes written to every regenerated shard, `none` = error
    (size mismatch between chunks, or Reconstruct with fewer than `k` shards present) -/
def rebuildLenLoop (k C : Nat) (lens : List (Option Nat)) : Nat → Nat → Nat → Option Nat
  | 0, start, _ => some start
  | fuel + 1, start, ibds =>
    match rebuildReadsLen C start lens ibds with
    | .stop => some start
    | .err => none
    | .ok ibds' =>
      if (lens.filter Option.isSome).length < k then none
      else rebuildLenLoop k C lens fuel (start + ibds') ibds'

def rebuildLen (k C : Nat) (lens : List (Option Nat)) : Option Nat :=
  let maxLen := lens.foldl (fun a o => max a (o.getD 0)) 0
  rebuildLenLoop k C lens (maxLen + 1) 0 0

/-! ### concrete GF(2^8) codec (polynomial 0x11D), for the driver -/

def gfMulAux : Nat → Nat → Nat → Nat → Nat
  | 0, _, _, acc => acc
  | fuel + 1, a, b, acc =>
    let acc' := if b % 2 = 1 then acc ^^^ a else acc
    let a2 := a * 2
    let a' := if a2 ≥ 256 then a2 ^^^ 0x11D else a2
    gfMulAux fuel a' (b / 2) acc'

def gfMul (a b : Nat) : Nat := gfMulAux 8 a b 0

def gfPow (a : Nat) : Nat → Nat
  | 0 => 1
  | n + 1 => gfMul a (gfPow a n)

def gfInv (a : Nat) : Nat := gfPow a 254

def gfDot (row col : List Nat) : Nat :=
  (row.zip col).foldl (fun acc xy => acc ^^^ gfMul xy.1 xy.2) 0

def matVec (mat : List (List Nat)) (v : List Nat) : List Nat := mat.map fun r => gfDot r v

def identityRow (k i : Nat) : List Nat := (List.range k).map fun j => if j = i then 1 else 0

/-- Gauss–Jordan on an augmented matrix `[A | I]`; returns `A⁻¹` or none if singular -/
def gaussStep (k : Nat) (rows : List (List Nat)) (c : Nat) : Option (List (List Nat)) :=
  -- find a pivot row at or below c
  match (List.range k).find? (fun r => c ≤ r ∧ (rows.getD r []).getD c 0 ≠ 0) with
  | none => none
  | some pr =>
    let rowC := rows.getD c []
    let rowP := rows.getD pr []
    let rows1 := (List.range k).map fun r => if r = c then rowP else if r = pr then rowC else rows.getD r []
    let piv := (rows1.getD c []).getD c 0
    let inv := gfInv piv
    let prow := (rows1.getD c []).map (gfMul inv)
    some <| (List.range k).map fun r =>
      if r = c then prow else
        let row := rows1.getD r []
        let f := row.getD c 0
        (row.zip prow).map fun xy => xy.1 ^^^ gfMul f xy.2

def gaussAll (k : Nat) : Nat → Nat → List (List Nat) → Option (List (List Nat))
  | 0, _, rows => some rows
  | fuel + 1, c, rows =>
    match gaussStep k rows c with
    | none => none
    | some rows' => gaussAll k fuel (c + 1) rows'

def matInverse (k : Nat) (a : List (List Nat)) : Option (List (List Nat)) :=
  let aug := (List.range k).map fun r => a.getD r [] ++ identityRow k r
  (gaussAll k k 0 aug).map fun rows => rows.map fun r => r.drop k

/-- generator matrix `[I ; M]` -/
def generator (k : Nat) (mat : List (List Nat)) : List (List Nat) :=
  (List.range k).map (identityRow k) ++ mat

/-- decoding matrix for an erasure pattern: inverse of the first k present generator rows
    (what reedsolomon.Reconstruct does); depends only on the pattern, so the driver caches it -/
def decodeMatrix (k : Nat) (mat : List (List Nat)) (presentMask : List Bool) : Option (List Nat × List (List Nat)) :=
  let idx := ((List.range presentMask.length).filter fun i => presentMask.getD i false).take k
  if idx.length < k then none else
  (matInverse k (idx.map fun i => (generator k mat).getD i [])).map fun inv => (idx, inv)

def gfRecon (k : Nat) (mat : List (List Nat)) (dm : Option (List Nat × List (List Nat))) (col : List (Option Nat)) : Option (List Nat) :=
  match dm with
  | none => none
  | some (idx, inv) =>
    let v := idx.map fun i => (col.getD i none).getD 0
    let data := matVec inv v
    let full := data ++ matVec mat data
    some <| (List.range col.length).map fun i => match col.getD i none with
      | some x => x
      | none => full.getD i 0

def gfCodec (k : Nat) (mat : List (List Nat)) (dm : Option (List Nat × List (List Nat))) : Codec :=
  { parity := matVec mat, recon := gfRecon k mat dm }

end SwV.Model.C06
