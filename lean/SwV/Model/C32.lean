/-
C32 — volume server range requests: executable model (core Lean only).

Mirrors, function by function:
  weed/server/volume_server_handlers_helper.go  parseRange / sumRangesSize / httpRange.contentRange
                                                (after the `fix:` commits: a signed suffix length is invalid, a range
                                                that selects no byte is skipped, 416 only when none is left)
  weed/server/common.go                         processRangeRequest (decision tree; after the
                                                `fix:` commit an ignored range request serves the whole content)
  weed/server/volume_server_handlers_read.go    GetOrHeadHandler's choice of representation
                                                (stored gzip bytes vs decompressed) and writeResponseContent
Strings are `List Char`, one char per byte (ASCII headers: `strings.TrimSpace` would also trim
U+0085/U+00A0). Multipart framing is the stdlib's: a multipart response is the list of its
parts (content range + bytes).  Numbers are Go `int64`: `Int` with an explicit `wrap64`
where the Go code can overflow (suffix ranges with a negative number, the sum of lengths).
-/
namespace SwV.Model.C32

/-! ## strconv.ParseInt(s, 10, 64) -/

def isDigit (c : Char) : Bool := decide ('0' ≤ c) && decide (c ≤ '9')

def digitsAcc : List Char → Nat → Option Nat
  | [], acc => some acc
  | c :: cs, acc => if isDigit c then digitsAcc cs (acc * 10 + (c.toNat - 48)) else none

/-- value of a non-empty all-digit string -/
def digitsVal : List Char → Option Nat
  | [] => none
  | c :: cs => digitsAcc (c :: cs) 0

def posOf (ds : List Char) : Option Int :=
  match digitsVal ds with
  | none => none
  | some v => if v < 2 ^ 63 then some (v : Int) else none

def negOf (ds : List Char) : Option Int :=
  match digitsVal ds with
  | none => none
  | some v => if v ≤ 2 ^ 63 then some (-(v : Int)) else none

/-- optional sign, decimal digits, no underscores; `none` = syntax or range error -/
def parseInt64 : List Char → Option Int
  | [] => none
  | c :: r => if c = '+' then posOf r else if c = '-' then negOf r else posOf (c :: r)

def wrap64 (x : Int) : Int := (x + 2 ^ 63) % 2 ^ 64 - 2 ^ 63

/-! ## strings helpers -/

def isSpace (c : Char) : Bool :=
  c == ' ' || c == '\t' || c == '\n' || c == '\r' || c.toNat == 11 || c.toNat == 12

def trimSpace (s : List Char) : List Char :=
  ((s.dropWhile isSpace).reverse.dropWhile isSpace).reverse

/-- `strings.Split(s, sep)` for a one-character separator -/
def splitOn (sep : Char) : List Char → List (List Char)
  | [] => [[]]
  | c :: cs =>
    match splitOn sep cs with
    | [] => [[]]
    | p :: ps => if c = sep then [] :: p :: ps else (c :: p) :: ps

/-- split at the first `sep` (`strings.Index` + slicing) -/
def cut (sep : Char) : List Char → Option (List Char × List Char)
  | [] => none
  | c :: cs =>
    if c = sep then some ([], cs)
    else match cut sep cs with
      | none => none
      | some (a, b) => some (c :: a, b)

def bytesEq : List Char := "bytes=".toList

def stripBytesPrefix (s : List Char) : Option (List Char) :=
  if bytesEq.isPrefixOf s then some (s.drop bytesEq.length) else none

/-- `strings.Contains(s, sub)` -/
def containsSub (sub : List Char) : List Char → Bool
  | [] => sub.isEmpty
  | c :: cs => sub.isPrefixOf (c :: cs) || containsSub sub cs

/-! ## parseRange -/

structure Rg where
  start : Int
  length : Int
deriving DecidableEq, Repr

/-- what one list element contributes: an error for the whole header, nothing (the range does not overlap the
    content: `noOverlap = true; continue`), or a range -/
inductive Elem where
  | invalid
  | noOverlap
  | range (r : Rg)
deriving DecidableEq, Repr

/-- `end == "" || end[0] == '-'` -/
def emptyOrSigned : List Char → Bool
  | [] => true
  | c :: _ => c == '-'

/-- one trimmed, non-empty element of the list -/
def parseOne (ra : List Char) (size : Int) : Elem :=
  match cut '-' ra with
  | none => .invalid
  | some (s0, e0) =>
    let start := trimSpace s0
    let end_ := trimSpace e0
    if start = [] then
      if emptyOrSigned end_ then .invalid else
      match parseInt64 end_ with
      | none => .invalid
      | some i =>
        if i < 0 then .invalid else
        let i := if i > size then size else i
        if i = 0 then .noOverlap else
        let st := wrap64 (size - i)
        .range ⟨st, wrap64 (size - st)⟩
    else
      match parseInt64 start with
      | none => .invalid
      | some i =>
        if i < 0 then .invalid else
        if i ≥ size then .noOverlap else
        if end_ = [] then .range ⟨i, size - i⟩ else
        match parseInt64 end_ with
        | none => .invalid
        | some j =>
          if i > j then .invalid else
          let j := if j ≥ size then size - 1 else j
          .range ⟨i, j - i + 1⟩

/-- the loop: (ranges, noOverlap); `none` = "invalid range" -/
def parsePieces : List (List Char) → Int → Option (List Rg × Bool)
  | [], _ => some ([], false)
  | p :: ps, size =>
    let ra := trimSpace p
    if ra = [] then parsePieces ps size else
    match parseOne ra size with
    | .invalid => none
    | .noOverlap =>
      match parsePieces ps size with
      | none => none
      | some (rs, _) => some (rs, true)
    | .range r =>
      match parsePieces ps size with
      | none => none
      | some (rs, no) => some (r :: rs, no)

/-- `parseRange` before its last test: the ranges and the `noOverlap` flag -/
def parseRangeD (s : List Char) (size : Int) : Option (List Rg × Bool) :=
  if s = [] then some ([], false) else
  match stripBytesPrefix s with
  | none => none
  | some rest => parsePieces (splitOn ',' rest) size

/-- `parseRange(s, size)`: `none` = an error ("invalid range", or errNoOverlap when ranges were skipped and none is left) -/
def parseRange (s : List Char) (size : Int) : Option (List Rg) :=
  match parseRangeD s size with
  | none => none
  | some (rs, no) => if no ∧ rs = [] then none else some rs

def sumLen (rs : List Rg) : Int := (rs.map (·.length)).sum

/-- `sumRangesSize` (int64 arithmetic) -/
def sumRangesSize (rs : List Rg) : Int := wrap64 (sumLen rs)

/-! ## processRangeRequest -/

/-- the decision: which kind of answer -/
inductive Decision where
  | full                      -- 200, Content-Length = totalSize, the whole content
  | unsat                     -- 416
  | single (r : Rg)           -- 206, Content-Range, Content-Length = r.length
  | multi (rs : List Rg)      -- 206 multipart/byteranges
deriving DecidableEq, Repr

def processRange (h : List Char) (size : Int) : Decision :=
  if h = [] then .full else
  match parseRange h size with
  | none => .unsat
  | some rs =>
    if sumRangesSize rs > size ∨ rs = [] then .full else
    match rs with
    | [r] => .single r
    | _ => if rs.any (fun r => decide (r.start > size)) then .unsat else .multi rs

/-- what `writeFn(w, offset, size)` copies: Seek + io.CopyN (a non-positive count copies nothing) -/
def slice (R : List Nat) (start len : Int) : List Nat :=
  if len ≤ 0 ∨ start < 0 then [] else (R.drop start.toNat).take len.toNat

/-- the answer with its bodies -/
inductive Response where
  | full (body : List Nat)
  | unsat
  | single (r : Rg) (body : List Nat)
  | multi (parts : List (Rg × List Nat))
deriving DecidableEq, Repr

def respond (h : List Char) (R : List Nat) : Response :=
  match processRange h R.length with
  | .full => .full R
  | .unsat => .unsat
  | .single r => .single r (slice R r.start r.length)
  | .multi rs => .multi (rs.map fun r => (r, slice R r.start r.length))

def contentRange (r : Rg) (size : Int) : String :=
  s!"bytes {r.start}-{wrap64 (r.start + r.length - 1)}/{size}"

/-! ## GetOrHeadHandler: which bytes are the representation -/

structure Blob where
  compressed : Bool         -- needle flag
  plain : List Nat          -- what DecompressData(stored) yields (= stored when it is not gzip)
  stored : List Nat
deriving Repr

def isGzMagic (bs : List Nat) : Bool :=
  match bs with
  | a :: b :: _ => a == 31 && b == 139
  | _ => false

def gzipWord : List Char := "gzip".toList

/-- ASCII `strings.ToLower` -/
def lowerAscii (c : Char) : Char := if 'A' ≤ c ∧ c ≤ 'Z' then Char.ofNat (c.toNat + 32) else c

/-- `strings.HasPrefix(p, "q=0") && strings.Trim(p[3:], "0.") == ""` on the trimmed, lower-cased parameter -/
def paramRefuses (p : List Char) : Bool :=
  match (trimSpace p).map lowerAscii with
  | 'q' :: '=' :: '0' :: rest => rest.all fun c => c == '0' || c == '.'
  | _ => false

/-- one element of Accept-Encoding: coding gzip / x-gzip and no parameter q=0 -/
def elemListsGzip (e : List Char) : Bool :=
  match splitOn ';' e with
  | [] => false
  | coding :: params =>
    let c := (trimSpace coding).map lowerAscii
    (c == gzipWord || c == "x-gzip".toList) && !(params.any paramRefuses)

/-- `acceptsGzip(r.Header.Get("Accept-Encoding"))` (after the `fix:` commit: element-wise, not a substring test) -/
def acceptsGzip (ae : List Char) : Bool := (splitOn ',' ae).any elemListsGzip

/-- (bytes served, Content-Encoding: gzip?) -/
def represent (b : Blob) (acceptEncoding : List Char) : List Nat × Bool :=
  if b.compressed then
    if acceptsGzip acceptEncoding && isGzMagic b.stored then (b.stored, true)
    else (b.plain, false)
  else (b.stored, false)

end SwV.Model.C32
