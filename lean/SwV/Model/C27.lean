/-
C27 — executable model of the S3 object listing of seaweedfs 2.59
(weed/s3api/s3api_objects_list_handlers.go):

  * a bucket = a finite set of object keys (`/`-separated byte strings); a directory of the filer
    = the sorted distinct next segments of the keys below it (`children`);
  * the filer listing as the primitive (`listPrim`: leveldb2 `ListDirectoryPrefixedEntries` as
    C19 models it — seek to the start name (or the prefix), stop at the first name without the
    prefix, skip the start name, limit);
  * `listFilerEntries` (split of the prefix into directory + name prefix) and the recursion
    `doListFilerEntries` (marker splitting at the first `/`, `.uploads` skip, request limit
    `maxKeys+1`, truncation when an entry arrives with the budget used up, next marker,
    common prefixes for delimiter `/`, recursion into directories for delimiter ""),
  * a client that paginates (`walk`): continue from NextMarker / NextContinuationToken, or from
    the last key of the page.

Bytes, `ltB` (byte order) and `isPrefix` are those of the C19 model. Directories are never
empty in this model (a directory exists because a key lies below it); `isDirectoryAllEmpty`
therefore answers "empty" only when its literally built directory string names nothing
(`looksEmpty`) — and then DELETES the (non-empty) directory through a cleaned path.
-/
import SwV.Model.C19
namespace SwV.Model.C27
open SwV.Model.C19 (Bytes ltB isPrefix)

def slash : Nat := 47
def uploadsName : Bytes := [46, 117, 112, 108, 111, 97, 100, 115]   -- ".uploads"

/-- strings.Split(s, "/") -/
def splitSlash : Bytes → List Bytes
  | [] => [[]]
  | c :: cs =>
    match splitSlash cs with
    | [] => [[c]]          -- unreachable
    | s :: rest => if c = slash then [] :: s :: rest else (c :: s) :: rest

/-- cut at the first '/': (before, after); none when there is no '/' -/
def cutFirstSlash : Bytes → Option (Bytes × Bytes)
  | [] => none
  | c :: cs =>
    if c = slash then some ([], cs)
    else match cutFirstSlash cs with
      | some (a, b) => some (c :: a, b)
      | none => none

/-- filepath.Split: (up to and including the last '/', rest) -/
def splitLastSlash (s : Bytes) : Bytes × Bytes :=
  let r := (s.reverse.takeWhile (· ≠ slash)).reverse
  (s.take (s.length - r.length), r)

/-- A directory entry. The record of the C19 model is reused so that C19's sorted-list lemmas apply
    verbatim: `key` = the entry NAME, `expired` = the IS-DIRECTORY flag (nothing expires here). -/
abbrev Ent := SwV.Model.C19.Ent

def insertEnt (e : Ent) : List Ent → List Ent
  | [] => [e]
  | x :: xs =>
    if ltB e.key x.key then e :: x :: xs
    else if e.key = x.key then { x with expired := x.expired || e.expired } :: xs
    else x :: insertEnt e xs

/-- `stripDir dir key` = the segments of `key` below the directory `dir` -/
def stripDir : List Bytes → List Bytes → Option (List Bytes)
  | [], k => some k
  | _ :: _, [] => none
  | d :: ds, s :: ks => if d = s then stripDir ds ks else none

/-- entries of a directory (segments) in a bucket holding the keys `ks` (each a segment list), sorted by name -/
def children (ks : List (List Bytes)) (dir : List Bytes) : List Ent :=
  ks.foldr (fun k acc =>
    match stripDir dir k with
    | some (s :: rest) => insertEnt ⟨s, !rest.isEmpty⟩ acc
    | _ => acc) []

/-- the filer's store listing (leveldb2), exclusive start -/
def listPrim (es : List Ent) (pfx start : Bytes) (limit : Nat) : List Ent :=
  let frm := es.dropWhile fun e => ltB e.key (if start = [] then pfx else start)
  ((frm.takeWhile fun e => isPrefix pfx e.key).filter fun e => decide (e.key ≠ start)).take limit

/-- The directory string handed to the filer, relative to the bucket directory ("" or "/seg/seg…").
    The filer strips ONE trailing "/" and looks the string up literally: an empty segment names no directory. -/
def dirSegments (r : Bytes) : Option (List Bytes) :=
  let r1 := if r.getLast? = some slash then r.dropLast else r
  match r1 with
  | [] => some []
  | c :: rest =>
    if c = slash then
      let segs := splitSlash rest
      if segs.any (· = []) then none else some segs
    else none

def dirEntries (ks : List (List Bytes)) (r : Bytes) : List Ent :=
  match dirSegments r with
  | some d => children ks d
  | none => []

/-- result of one `doListFilerEntries` call -/
structure Res where
  counter : Nat := 0
  trunc : Bool := false
  next : Bytes := []
  keys : List Bytes := []       -- Contents, emission order
  pfxs : List Bytes := []       -- CommonPrefixes, emission order
  deleted : List (List Bytes) := []   -- directories removed by `isDirectoryAllEmpty` (segments)
deriving Repr, DecidableEq

/-- `fmt.Sprintf("%s/%s", dir, name)[len(bucketPrefix):]` -/
def keyOf (r name : Bytes) : Bytes := (r ++ [slash] ++ name).drop 1

/-- `isDirectoryAllEmpty(parentDir = bucket ++ r, name)`: the directory string `r/name` is looked up
    literally; in this model (no empty directories) it lists nothing exactly when the string names no
    directory (an empty segment in `r`). It is then deleted through `util.JoinPath`, which cleans the path. -/
def looksEmpty (ks : List (List Bytes)) (r name : Bytes) : Bool :=
  (dirEntries ks (r ++ [slash] ++ name)).isEmpty

def cleanSegs (s : Bytes) : List Bytes := (splitSlash s).filter (· ≠ [])

def removeDirs (ks : List (List Bytes)) (ds : List (List Bytes)) : List (List Bytes) :=
  ks.filter fun k => !(ds.any fun d => (stripDir d k).isSome)

/-- the `for { stream.Recv() … }` loop; `sub r' budget` = recursive call with prefix "" and marker "" -/
def recvLoop (ks : List (List Bytes)) (sub : Bytes → Nat → Res) (delimSlash : Bool) (r : Bytes) (maxKeys : Nat) : List Ent → Res → Res
  | [], st => st
  | e :: rest, st =>
    if st.counter ≥ maxKeys then { st with trunc := true }
    else
      let st := { st with next := e.key }
      if e.expired then
        if e.key = uploadsName then recvLoop ks sub delimSlash r maxKeys rest st
        else if !delimSlash then
          let s := sub (r ++ [slash] ++ e.key) (maxKeys - st.counter)
          let st := { st with counter := st.counter + s.counter, next := e.key ++ [slash] ++ s.next,
                              keys := st.keys ++ s.keys, pfxs := st.pfxs ++ s.pfxs, deleted := st.deleted ++ s.deleted }
          if s.trunc then { st with trunc := true } else recvLoop ks sub delimSlash r maxKeys rest st
        else if looksEmpty ks r e.key then
          recvLoop ks sub delimSlash r maxKeys rest { st with deleted := st.deleted ++ [cleanSegs (r ++ [slash] ++ e.key)] }
        else
          recvLoop ks sub delimSlash r maxKeys rest
            { st with counter := st.counter + 1, pfxs := st.pfxs ++ [keyOf r e.key ++ [slash]] }
      else
        recvLoop ks sub delimSlash r maxKeys rest { st with counter := st.counter + 1, keys := st.keys ++ [keyOf r e.key] }

/-- `doListFilerEntries(dir = bucket ++ r, prefix, maxKeys, marker, delimiter)` -/
def doList (ks : List (List Bytes)) (delimSlash : Bool) : Nat → Bytes → Bytes → Nat → Bytes → Res
  | 0, _, _, _, _ => {}
  | fuel + 1, r, pfx, maxKeys, marker =>
    if pfx = [slash] ∧ delimSlash then {}
    else if maxKeys = 0 then {}
    else
      let sub := fun r' budget => doList ks delimSlash fuel r' [] budget []
      match cutFirstSlash marker with
      | some (subDir, subMarker) =>
        let s := doList ks delimSlash fuel (r ++ [slash] ++ subDir) [] maxKeys subMarker
        let maxKeys' := maxKeys - s.counter
        let st : Res := { counter := 0, trunc := s.trunc, next := subDir ++ [slash] ++ s.next, keys := s.keys, pfxs := s.pfxs, deleted := s.deleted }
        let ks2 := removeDirs ks s.deleted     -- the sub-listing may have deleted directories before this level is listed
        recvLoop ks2 sub delimSlash r maxKeys' (listPrim (dirEntries ks2 r) pfx subDir (maxKeys' + 1)) st
      | none =>
        recvLoop ks sub delimSlash r maxKeys (listPrim (dirEntries ks r) pfx marker (maxKeys + 1)) {}

def fuel0 : Nat := 12

/-- `listFilerEntries(bucket, originalPrefix, maxKeys, marker, delimiter)` -/
def listFiler (ks : List (List Bytes)) (origPrefix : Bytes) (maxKeys : Nat) (marker : Bytes) (delimSlash : Bool) : Res :=
  let (d, p) := splitLastSlash origPrefix
  let d := if d.head? = some slash then d.drop 1 else d
  let rd := [slash] ++ d
  let rd := if rd.getLast? = some slash then rd.dropLast else rd
  let res := doList ks delimSlash fuel0 rd p maxKeys marker
  if res.trunc then res else { res with next := [] }

/-- one page as the client sees it -/
structure Page where
  trunc : Bool
  next : Bytes
  keys : List Bytes
  pfxs : List Bytes
deriving Repr, DecidableEq

def pageOf (r : Res) : Page := ⟨r.trunc, r.next, r.keys, r.pfxs⟩

/-- a paginating client: `contNext` = continue from NextMarker/NextContinuationToken, else from the last key.
    Returns the pages and the bucket contents afterwards (a listing may delete directories, see `looksEmpty`). -/
def walk (origPrefix : Bytes) (maxKeys : Nat) (delimSlash contNext : Bool) : Nat → List (List Bytes) → Bytes → List Page × List (List Bytes)
  | 0, ks, _ => ([], ks)
  | steps + 1, ks, marker =>
    let r := listFiler ks origPrefix maxKeys marker delimSlash
    let p := pageOf r
    let ks' := removeDirs ks r.deleted
    if !p.trunc then ([p], ks')
    else if contNext then
      let (ps, kf) := walk origPrefix maxKeys delimSlash contNext steps ks' p.next
      (p :: ps, kf)
    else match p.keys.getLast? with
      | none => ([p], ks')
      | some k =>
        let (ps, kf) := walk origPrefix maxKeys delimSlash contNext steps ks' k
        (p :: ps, kf)

end SwV.Model.C27
