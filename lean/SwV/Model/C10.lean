/-
C10 — placement of new volumes: executable model (core Lean only).

Mirrors weed/topology/volume_growth.go `findEmptySlotsForOneVolume` (with its three filter closures)
and weed/topology/node.go `AvailableSpaceFor`, `PickNodesByWeight`, `ReserveOneVolume`.
All randomness of the real code — Go's map iteration order of `children` and every
`rand.Int63n` draw — is an explicit CHOICE ORACLE (`List Nat`, consumed left to right, 0 when
exhausted); the theorems quantify over all oracles.  The weighted selection zeroes the weight of a
picked candidate in Go; here the picked candidate is removed from the list, which selects exactly
the same candidate for every draw (a zero weight has an empty interval).
Rack / data-center / topology counters are the sums of the children's (UpAdjustDiskUsageDelta).
-/
namespace SwV.Model.C10

structure Cnt where
  max : Int := 0
  vol : Int := 0
  rem : Int := 0
  ec : Int := 0
deriving DecidableEq, Repr, Inhabited

def Cnt.add (a b : Cnt) : Cnt := ⟨a.max + b.max, a.vol + b.vol, a.rem + b.rem, a.ec + b.ec⟩

/-- NodeImpl.AvailableSpaceFor on one disk type's counters -/
def availC (c : Cnt) : Int :=
  let f := c.max + c.rem - c.vol
  if c.ec > 0 then f - c.ec / 10 - 1 else f

structure DN where
  id : Nat
  hdd : Cnt := {}
  ssd : Cnt := {}
deriving DecidableEq, Repr, Inhabited

structure Rack where
  id : Nat
  nodes : List DN
deriving DecidableEq, Repr, Inhabited

structure DC where
  id : Nat
  racks : List Rack
deriving DecidableEq, Repr, Inhabited

abbrev Tree := List DC

def DN.cnt (n : DN) (t : Nat) : Cnt := if t = 0 then n.hdd else n.ssd
def Rack.cnt (r : Rack) (t : Nat) : Cnt := r.nodes.foldl (fun a n => a.add (n.cnt t)) {}
def DC.cnt (d : DC) (t : Nat) : Cnt := d.racks.foldl (fun a r => a.add (r.cnt t)) {}
def treeCnt (tr : Tree) (t : Nat) : Cnt := tr.foldl (fun a d => a.add (d.cnt t)) {}

def DN.avail (n : DN) (t : Nat) : Int := availC (n.cnt t)
def Rack.avail (r : Rack) (t : Nat) : Int := availC (r.cnt t)
def DC.avail (d : DC) (t : Nat) : Int := availC (d.cnt t)

/-! ## oracle -/

abbrev Oracle := List Nat
def next (o : Oracle) : Nat × Oracle :=
  match o with
  | [] => (0, [])
  | x :: r => (x, r)

/-- Go map iteration order: an oracle-chosen permutation -/
def permute {α : Type} : Nat → List α → Oracle → List α × Oracle
  | 0, _, o => ([], o)
  | f + 1, xs, o =>
    match xs with
    | [] => ([], o)
    | x :: rest =>
      let d := next o
      let i := d.1 % (rest.length + 1)
      match (x :: rest)[i]? with
      | none => ([], d.2)
      | some y =>
        let r := permute f ((x :: rest).take i ++ (x :: rest).drop (i + 1)) d.2
        (y :: r.1, r.2)

/-- the interval scan of PickNodesByWeight: (before, chosen, after) -/
def scan {α : Type} : List (α × Int) → Int → Option (List (α × Int) × (α × Int) × List (α × Int))
  | [], _ => none
  | (c, w) :: rest, r =>
    if r < w then some ([], (c, w), rest)
    else match scan rest (r - w) with
      | none => none
      | some (b, x, a) => some ((c, w) :: b, x, a)

def totalW {α : Type} (l : List (α × Int)) : Int := l.foldl (fun a x => a + x.2) 0

/-- "pick nodes randomly by weights": the weighted shuffle -/
def sortW {α : Type} : Nat → List (α × Int) → Oracle → List α × Oracle
  | 0, _, o => ([], o)
  | f + 1, cands, o =>
    if cands.isEmpty then ([], o) else
    let d := next o
    match scan cands ((d.1 : Int) % totalW cands) with
    | none => ([], d.2)
    | some (b, x, a) =>
      let r := sortW f (b ++ a) d.2
      (x.1 :: r.1, r.2)

/-- first element passing the filter: (before, it, after) -/
def splitFirst {α : Type} (p : α → Bool) : List α → Option (List α × α × List α)
  | [] => none
  | x :: rest =>
    if p x then some ([], x, rest)
    else match splitFirst p rest with
      | none => none
      | some (b, y, a) => some (x :: b, y, a)

inductive Stage where
  | few | nomatch | reserve
deriving DecidableEq, Repr

/-- NodeImpl.PickNodesByWeight -/
def pickNodes {α : Type} (children : List α) (av : α → Int) (n : Nat) (p : α → Bool) (o : Oracle) :
    Except Stage (α × List α) × Oracle :=
  let pm := permute children.length children o
  let cands := (pm.1.filter fun c => av c > 0).map fun c => (c, av c)
  if cands.length < n then (.error .few, pm.2) else
  let s := sortW cands.length cands pm.2
  match splitFirst p s.1 with
  | none => (.error .nomatch, s.2)
  | some (pre, x, suf) =>
    let k := pre.length
    let rest := if k ≥ n - 1 then s.1.take (n - 1) else pre ++ suf.take (n - 1 - k)
    (.ok (x, rest), s.2)

/-- a data node in the tree: (dc id, rack id, node id) -/
abbrev Path := Nat × Nat × Nat

/-- Rack.ReserveOneVolume: the loop over the rack's data nodes -/
def reserveLoopN (t : Nat) : List DN → Int → Option DN
  | [], _ => none
  | n :: rest, r =>
    let free := n.avail t
    if free ≤ 0 then reserveLoopN t rest r
    else if r ≥ free then reserveLoopN t rest (r - free)
    else some n

def reserveRack (t : Nat) (rk : Rack) (r : Int) (o : Oracle) : Option DN × Oracle :=
  let pm := permute rk.nodes.length rk.nodes o
  (reserveLoopN t pm.1 r, pm.2)

/-- DataCenter.ReserveOneVolume: the loop over the racks; a rack whose own search fails is skipped with the same r -/
def reserveLoopR (t : Nat) : List Rack → Int → Oracle → Option (Rack × DN) × Oracle
  | [], _, o => (none, o)
  | rk :: rest, r, o =>
    let free := rk.avail t
    if free ≤ 0 then reserveLoopR t rest r o
    else if r ≥ free then reserveLoopR t rest (r - free) o
    else
      let x := reserveRack t rk r o
      match x.1 with
      | some n => (some (rk, n), x.2)
      | none => reserveLoopR t rest r x.2

def reserveDC (t : Nat) (d : DC) (r : Int) (o : Oracle) : Option (Rack × DN) × Oracle :=
  let pm := permute d.racks.length d.racks o
  reserveLoopR t pm.1 r pm.2

structure Opt where
  x : Nat          -- other data centers
  y : Nat          -- other racks
  z : Nat          -- other servers in the main rack
  disk : Nat
  dc : Option Nat := none
  rack : Option Nat := none
  node : Option Nat := none
deriving Repr

def nodesWithSlot (t : Nat) (rk : Rack) : Nat := (rk.nodes.filter fun n => n.avail t ≥ 1).length

def dcFilter (op : Opt) (d : DC) : Bool :=
  (match op.dc with | some i => d.id == i | none => true)
  && decide (d.racks.length ≥ op.y + 1)
  && decide (d.avail op.disk ≥ (op.y + op.z + 1 : Nat))
  && decide ((d.racks.filter fun rk => nodesWithSlot op.disk rk ≥ op.z + 1).length ≥ op.y + 1)

def rackFilter (op : Opt) (rk : Rack) : Bool :=
  (match op.rack with | some i => rk.id == i | none => true)
  && decide (rk.avail op.disk ≥ (op.z + 1 : Nat))
  && decide (rk.nodes.length ≥ op.z + 1)
  && decide (nodesWithSlot op.disk rk ≥ op.z + 1)

def nodeFilter (op : Opt) (n : DN) : Bool :=
  (match op.node with | some i => n.id == i | none => true) && decide (n.avail op.disk ≥ 1)

inductive Result where
  | ok (servers : List Path)
  | err (stage : Stage) (partial_ : List Path)
deriving DecidableEq, Repr

/-- the reservations in the other racks of the main data center -/
def reserveRacks (t : Nat) (dcId : Nat) : List Rack → Oracle → List Path → (Option (List Path)) × List Path × Oracle
  | [], o, acc => (some acc, acc, o)
  | rk :: rest, o, acc =>
    let d := next o
    let x := reserveRack t rk ((d.1 : Int) % rk.avail t) d.2
    match x.1 with
    | some n => reserveRacks t dcId rest x.2 (acc ++ [(dcId, rk.id, n.id)])
    | none => (none, acc, x.2)

def reserveDCs (t : Nat) : List DC → Oracle → List Path → (Option (List Path)) × List Path × Oracle
  | [], o, acc => (some acc, acc, o)
  | dc :: rest, o, acc =>
    let d := next o
    let x := reserveDC t dc ((d.1 : Int) % dc.avail t) d.2
    match x.1 with
    | some (rk, n) => reserveDCs t rest x.2 (acc ++ [(dc.id, rk.id, n.id)])
    | none => (none, acc, x.2)

/-- VolumeGrowth.findEmptySlotsForOneVolume -/
def findEmptySlots (tr : Tree) (op : Opt) (o : Oracle) : Result :=
  match pickNodes tr (fun d => d.avail op.disk) (op.x + 1) (dcFilter op) o with
  | (.error s, _) => .err s []
  | (.ok (mainDC, otherDCs), o1) =>
    match pickNodes mainDC.racks (fun r => r.avail op.disk) (op.y + 1) (rackFilter op) o1 with
    | (.error s, _) => .err s []
    | (.ok (mainRack, otherRacks), o2) =>
      match pickNodes mainRack.nodes (fun n => n.avail op.disk) (op.z + 1) (nodeFilter op) o2 with
      | (.error s, _) => .err s []
      | (.ok (mainSrv, otherSrvs), o3) =>
        let base : List Path := (mainDC.id, mainRack.id, mainSrv.id) :: otherSrvs.map fun n => (mainDC.id, mainRack.id, n.id)
        match reserveRacks op.disk mainDC.id otherRacks o3 base with
        | (none, part, _) => .err .reserve part
        | (some acc, _, o4) =>
          match reserveDCs op.disk otherDCs o4 acc with
          | (none, part, _) => .err .reserve part
          | (some acc2, _, _) => .ok acc2

end SwV.Model.C10
