/-
C20, HTTP write handlers — executable model of the save path of the filer's PUT / PUT ?op=append
(core Lean only). Mirrors, branch by branch, seaweedfs 2.59:

  weed/server/filer_server_handlers_write_upload.go     uploadReaderToChunks (how many chunks a body becomes; the inline case)
  weed/server/filer_server_handlers_write_autochunk.go  doPutAutoChunk, saveMetaData (path fix, append onto the existing
                                                        entry, CreateEntry, the cleanup `fs.filer.DeleteChunks(fileChunks)`
                                                        when the save fails)
  weed/filer/filer.go                                   CreateEntry / UpdateEntry over a store that refuses every write

(bodies are delivered completely and every chunk upload succeeds: the error exit of uploadReaderToChunks — since
/repo c68165d2 it hands the chunks uploaded so far to DeleteChunks and the request never reaches saveMetaData — is
the subject of C25, not generated here)

on top of the namespace model `SwV.Model.C18` (createEntry, find). Chunk ids: the master hands out unused ids; the
harness numbers the chunks a request uploads `next, next+1, …` in offset order. An entry with inline content has
`tag ≥ inlineTag` (tag = Attr.Uid + inlineTag; the uids used are < inlineTag).
-/
import SwV.Model.C18
namespace SwV.Model.C20Http
open SwV.Model.C18

def inlineTag : Nat := 100
def firstChunk : Nat := 1000

/-- one request: PUT path (append = `?op=append`) -/
structure Req where
  append : Bool
  path : RPath
  uid : Nat        -- OS_UID, the owner the handler gives a new entry
  limit : Nat      -- FilerOption.SaveToFilerLimit
  chunkSize : Nat
  len : Nat        -- Content-Length; the body delivers all of it
  down : Bool      -- the metadata store refuses every write during this request
deriving Repr

/-- uploadReaderToChunks: (content kept inline?, number of chunks uploaded). The first piece read is
    `min len chunkSize` bytes long; it stays inline when the request is not an append and the piece is shorter than
    SaveToFilerLimit; otherwise the body is cut into pieces of chunkSize, one uploaded chunk each. -/
def upload (r : Req) : Bool × Nat :=
  if r.len = 0 ∨ r.chunkSize = 0 then (false, 0)
  else if !r.append && decide (min r.len r.chunkSize < r.limit) then (true, 0)
  else (false, (r.len + r.chunkSize - 1) / r.chunkSize)

/-- the file ids of the chunks this request uploads (`fileChunks` of saveMetaData), in offset order -/
def newIds (next : Nat) (r : Req) : List Nat := List.range' next (upload r).2

/-- saveMetaData "fix the path": PUT /x onto an existing directory /x saves /x/<base name> -/
def targetPath (s : St) (p : RPath) : RPath :=
  match p with
  | [] => []
  | n :: par =>
    match find s (n :: par) with
    | some d => if d.isDir then n :: n :: par else n :: par
    | none => n :: par

/-- how far the request got -/
inductive Stage
  | refused      -- "append to small file is not supported yet": returns before the save
  | saveFailed   -- Filer.CreateEntry returned an error
  | saved
deriving DecidableEq, Repr

structure Out where
  res : Res
  q : List Nat          -- file ids handed to Filer.DeleteChunks, in order
  uploaded : Nat        -- chunks uploaded
  stage : Stage
deriving Repr

/-- the entry saveMetaData hands to CreateEntry (without its inline content); `none` = the refused append onto
    inline content -/
def entryToSave (s : St) (next : Nat) (r : Req) : Option Entry :=
  let existing := if r.append then find s (targetPath s r.path) else none
  match existing with
  | some ex =>
    if ex.tag ≥ inlineTag then none
    else some { ex with chunks := ex.chunks ++ newIds next r }      -- mergedChunks = append(entry.Chunks, fileChunks...)
  | none =>
    some { isDir := false, tag := r.uid, chunks := newIds next r, hl := 0, cnt := 0 }

/-- does the entry handed to CreateEntry carry inline content? (a new entry of a request whose upload stayed inline) -/
def savesInline (s : St) (r : Req) : Bool :=
  (upload r).1 && (if r.append then find s (targetPath s r.path) else none).isNone

/-- the stored entry shows its inline content as `tag + inlineTag`; the directories CreateEntry makes on the way take
    the owner of the entry, not its content -/
def markInline (s : St) (p : RPath) : St :=
  match lookup p s.ents with
  | some e => { s with ents := put s.ents p { e with tag := e.tag + inlineTag } }
  | none => s

/-- Filer.CreateEntry while the store refuses every write: the root is answered before the store is touched;
    everything else ends in a failed InsertEntry / UpdateEntry / KvPut (or in the type check before it) -/
def createEntryDown (s : St) (p : RPath) : St × Res × List Nat :=
  match p with
  | [] => (s, .ok, [])
  | _ :: _ => (s, .err, [])

/-- the request after the upload: saveMetaData -/
def save (s : St) (next : Nat) (r : Req) : St × Out :=
  let k := (upload r).2
  match entryToSave s next r with
  | none => (s, { res := .err, q := [], uploaded := k, stage := .refused })
  | some e =>
    match (if r.down then createEntryDown s (targetPath s r.path) else createEntry s (targetPath s r.path) e false) with
    | (s', .ok, q) =>
      ((if savesInline s r then markInline s' (targetPath s r.path) else s'), { res := .ok, q := q, uploaded := k, stage := .saved })
    -- `if dbErr := fs.filer.CreateEntry(...); dbErr != nil { fs.filer.DeleteChunks(fileChunks) ...`
    | (s', _, q) => (s', { res := .err, q := q ++ newIds next r, uploaded := k, stage := .saveFailed })

/-- driver state: the namespace and the number of the next uploaded chunk -/
structure HSt where
  st : St := {}
  next : Nat := firstChunk
deriving Repr

def hstep (h : HSt) (r : Req) : HSt × Out :=
  match save h.st h.next r with
  | (s', o) => ({ st := s', next := h.next + o.uploaded }, o)

end SwV.Model.C20Http
