/-
C39 — model of weed/filesys/fscache.go: the mount's cache path ↦ fs.Node.

The Go structure is a tree of `FsNode{parent, node, name, children map[string]*FsNode}`;
a node whose `node` field is nil is a placeholder created by `ensureChild` on the way to a
deeper path.  The model keeps the same tree: a node is a pair (value, children) and the
children are a forest (first-child / next-sibling form, so that the type is a plain
inductive); `child / setChild / delChild` are the three map operations Go performs on
`children`, all tree operations are recursions along the path exactly like the loops in
the Go code.  Values are node identities (`Nat`).

Core Lean only.
-/
namespace SwV.Model.C39

abbrev Name := String
abbrev Path := List Name

inductive Forest where
  | nil : Forest
  | cons (name : Name) (val : Option Nat) (kids : Forest) (rest : Forest) : Forest
deriving Repr

/-- an `FsNode`: its `node` field and its `children` -/
abbrev Node := Option Nat × Forest

/-- `&FsNode{node: nil, children: nil}` -/
def emptyNode : Node := (none, .nil)

/-- `children[name]` -/
def Forest.child : Forest → Name → Option Node
  | .nil, _ => none
  | .cons n v k r, x => if n = x then some (v, k) else r.child x

/-- `children[name] = c` -/
def Forest.setChild : Forest → Name → Node → Forest
  | .nil, x, c => .cons x c.1 c.2 .nil
  | .cons n v k r, x, c => if n = x then .cons x c.1 c.2 r else .cons n v k (r.setChild x c)

/-- `delete(children, name)` -/
def Forest.delChild : Forest → Name → Forest
  | .nil, _ => .nil
  | .cons n v k r, x => if n = x then r.delChild x else .cons n v k (r.delChild x)

/-- the descent `for _, p := range path.Split() { t = t.findChild(p) }` -/
def sub : Node → Path → Option Node
  | t, [] => some t
  | t, x :: p =>
    match t.2.child x with
    | none => none
    | some c => sub c p

/-- `GetFsNode`: the `node` field at the end of the descent (nil for placeholders / absent paths) -/
def get (t : Node) (p : Path) : Option Nat := (sub t p).bind (·.1)

/-- `doSetFsNode`: `ensureChild` along the path, then `t.node = node` (children are kept) -/
def setNode : Node → Path → Nat → Node
  | t, [], v => (some v, t.2)
  | t, x :: p, v => (t.1, t.2.setChild x (setNode ((t.2.child x).getD emptyNode) p v))

/-- `EnsureFsNode`: return the cached node if there is one, else store the generated one -/
def ensureNode (t : Node) (p : Path) (v : Nat) : Node × Nat :=
  match get t p with
  | some w => (t, w)
  | none => (setNode t p v, v)

/-- `DeleteFsNode`: find the node, `disconnectChild` it from its parent, `deleteSelf`
    (for the root: `deleteSelf` only — node and children become nil) -/
def remove : Node → Path → Node
  | _, [] => emptyNode
  | t, x :: p =>
    match p with
    | [] => (t.1, t.2.delChild x)
    | _ :: _ =>
      match t.2.child x with
      | none => t
      | some c => (t.1, t.2.setChild x (remove c p))

/-- the second half of `Move`: `ensureChild` along the new path, drop whatever subtree is at
    its end (`disconnectChild(target); target.deleteSelf()`) and connect `s` there under the
    target's name -/
def putSub : Node → Path → Node → Node
  | _, [], s => s
  | t, x :: p, s => (t.1, t.2.setChild x (putSub ((t.2.child x).getD emptyNode) p s))

inductive MoveResult where
  | ok | absent | invalid
deriving DecidableEq, Repr

/-- `Move(oldPath, newPath)`; the root is never moved and nothing is moved onto the root
    (a FUSE rename always names an entry inside a directory): `invalid` -/
def move (t : Node) (old new : Path) : Node × MoveResult :=
  if old = [] ∨ new = [] then (t, .invalid) else
  match sub t old with
  | none => (t, .absent)
  | some s => (putSub (remove t old) new s, .ok)

inductive Op where
  | set (p : Path) (v : Nat)
  | ensure (p : Path) (v : Nat)
  | del (p : Path)
  | move (old new : Path)
deriving Repr

def applyOp (t : Node) : Op → Node
  | .set p v => setNode t p v
  | .ensure p v => (ensureNode t p v).1
  | .del p => remove t p
  | .move o n => (move t o n).1

def run (ops : List Op) : Node := ops.foldl applyOp emptyNode

end SwV.Model.C39
