/-
C15 — model of the volume planners of weed/shell (volume.balance, volumeServer.evacuate,
volume.fix.replication): the pure predicates `isGoodMove`, `satisfyReplicaPlacement`,
`adjustAfterMove`, the capacity functions, and the selection guards of
`balanceSelectedVolume` / `attemptToMoveOneVolume` / `moveAwayOneNormalVolume` /
`fixOneUnderReplicatedVolume`.

The planners sort with `sort.Slice` (ties unspecified) and iterate Go maps, so the guards
are modelled as RELATIONS: `…StepOk st step` says "some resolution of the ties makes the
code plan exactly this step", `…StopOk` says "some resolution makes it plan nothing more".
Core Lean only.
-/
namespace SwV.Model.C15

/-- a volume server: data center, rack (scoped by the data center), server id -/
structure Loc where
  dc : Nat
  rack : Nat
  id : Nat
deriving DecidableEq, Repr

/-- replica placement xyz: x other data centers, y other racks, z other servers of the same rack -/
structure RP where
  x : Nat
  y : Nat
  z : Nat
deriving DecidableEq, Repr

/-- `NewReplicaPlacementFromByte` (`%03d` then digit by digit) -/
def rpOfByte (b : Nat) : RP := ⟨b / 100, b / 10 % 10, b % 10⟩
def RP.copies (r : RP) : Nat := r.x + r.y + r.z + 1

/-- `location.Rack()` = "dc rack" -/
def rackKey (l : Loc) : Nat × Nat := (l.dc, l.rack)

/-- keys of a Go map filled from a list -/
def distinct {α : Type} [DecidableEq α] : List α → List α
  | [] => []
  | a :: l => if a ∈ distinct l then distinct l else a :: distinct l

def cnt {α : Type} [DecidableEq α] (a : α) (l : List α) : Nat := (l.filter (· = a)).length

/-- `isGoodMove`: the move src → dst of one replica out of `reps`. -/
def isGoodMove (rp : RP) (reps : List Loc) (src dst : Loc) : Bool :=
  if reps.any (fun r => r.id == dst.id && r.rack == dst.rack && r.dc == dst.dc) then false else
  let after := dst :: reps.filter (fun r => r.id != src.id)
  let dcs := distinct (after.map (·.dc))
  let racks := distinct (after.map rackKey)
  dcs.length == rp.x + 1 && racks.length == rp.y + rp.x + 1 &&
    racks.all (fun k => cnt k (after.map rackKey) == rp.z + 1)

/-- `adjustAfterMove` on the replica list: the first replica at `src` now sits at `dst`. -/
def adjustReps : List Loc → Loc → Loc → List Loc
  | [], _, _ => []
  | r :: rest, src, dst => if r = src then dst :: rest else r :: adjustReps rest src dst

def maxOf (l : List Nat) : Nat := l.foldl max 0

/-- `satisfyReplicaPlacement`; `findTopKeys` returns ALL keys with the maximal count, so the
    map order does not matter. -/
def satisfyRP (rp : RP) (reps : List Loc) (loc : Loc) : Bool :=
  if reps.any (· == loc) then false else
  let dcCount (d : Nat) := cnt d (reps.map (·.dc))
  if dcCount loc.dc == 0 then
    decide ((distinct (reps.map (·.dc))).length < rp.x + 1)
  else if dcCount loc.dc != maxOf (reps.map (fun r => dcCount r.dc)) then false
  else
    let inDc := reps.filter (fun r => r.dc == loc.dc)
    let rackCount (k : Nat) := cnt k (inDc.map (·.rack))
    if rackCount loc.rack == 0 then
      decide ((distinct (inDc.map (·.rack))).length < rp.y + 1)
    else if rackCount loc.rack != maxOf (inDc.map (fun r => rackCount r.rack)) then false
    else decide (rackCount loc.rack < rp.z + 1)

/-! ### topology snapshot -/

structure Vol where
  vid : Nat
  size : Nat
  rp : Nat
  ro : Bool
  coll : Nat
  mtime : Nat
deriving DecidableEq, Repr

structure Disk where
  dt : Nat        -- 0 = hdd (""), 1 = ssd
  max : Nat
  vols : List Vol
deriving Repr

structure Server where
  loc : Loc
  disks : List Disk
deriving Repr

abbrev Topo := List Server

def Server.disk? (s : Server) (dt : Nat) : Option Disk := s.disks.find? (·.dt == dt)
/-- `capacityByMaxVolumeCount` -/
def capMax (s : Server) (dt : Nat) : Nat := match s.disk? dt with | some d => d.max | none => 0
/-- `capacityByFreeVolumeCount` (MaxVolumeCount − VolumeCount as a signed number) -/
def capFree (s : Server) (dt : Nat) : Int :=
  match s.disk? dt with | some d => (d.max : Int) - d.vols.length | none => 0
/-- all volumes of a server with their disk type -/
def Server.allVols (s : Server) : List (Nat × Vol) := s.disks.flatMap fun d => d.vols.map fun v => (d.dt, v)
def Server.holds (s : Server) (vid : Nat) : Bool := s.allVols.any (·.2.vid == vid)

/-- `collectVolumeReplicaLocations`: the servers holding `vid`, in topology order -/
def repsOf (t : Topo) (vid : Nat) : List Loc := (t.filter (·.holds vid)).map (·.loc)

/-! ### volume.balance -/

/-- `Node` of command_volume_balance.go during one phase -/
structure PNode where
  loc : Loc
  cap : Nat
  sel : List Vol
deriving Repr

abbrev RepMap := List (Nat × List Loc)
def RepMap.get (m : RepMap) (vid : Nat) : List Loc := (m.lookup vid).getD []
def RepMap.set (m : RepMap) (vid : Nat) (l : List Loc) : RepMap :=
  match m with
  | [] => [(vid, l)]
  | (k, v) :: rest => if k == vid then (k, l) :: rest else (k, v) :: RepMap.set rest vid l

/-- the guard of `maybeMoveOneVolume` -/
def movable (reps : RepMap) (v : Vol) (src dst : PNode) : Bool :=
  (v.rp == 0 || isGoodMove (rpOfByte v.rp) (reps.get v.vid) src.loc dst.loc) &&
  !(dst.sel.any (·.vid == v.vid))

/-- localVolumeRatio a < localVolumeRatio b (float division of small ints = exact) -/
def ratioLt (a b : PNode) : Bool := decide (a.sel.length * b.cap < b.sel.length * a.cap)

structure Phase where
  ro : Bool            -- read-only phase: candidates sorted by id, else by size
  s : Nat              -- selectedVolumeCount
  m : Nat              -- volumeMaxCount
  nodes : List PNode   -- nodesWithCapacity
  reps : RepMap

def Phase.fullOk (p : Phase) (n : PNode) : Bool := decide (n.sel.length * p.m > p.s * n.cap)
def Phase.nextOk (p : Phase) (n : PNode) : Bool := decide ((n.sel.length + 1) * p.m ≤ p.s * n.cap)
def Phase.keyLt (p : Phase) (a b : Vol) : Bool := if p.ro then decide (a.vid < b.vid) else decide (a.size < b.size)
def Phase.isMax (p : Phase) (src : PNode) : Bool := p.nodes.all fun n => !ratioLt src n
def Phase.canAccept (p : Phase) (src n : PNode) : Bool := src.sel.any fun c => movable p.reps c src n

/-- some tie resolution makes `balanceSelectedVolume` plan the move of `vid` from `s` to `d` next -/
def Phase.stepOk (p : Phase) (vid s d : Nat) : Bool :=
  match p.nodes.find? (·.loc.id == s), p.nodes.find? (·.loc.id == d) with
  | some src, some dst =>
    match src.sel.find? (·.vid == vid) with
    | none => false
    | some v =>
      p.isMax src && p.fullOk src && s != d && p.nextOk dst &&
      (p.nodes.all fun n => n.loc.id == s || !ratioLt n dst || (p.nextOk n && !p.canAccept src n)) &&
      movable p.reps v src dst &&
      (src.sel.all fun c => !p.keyLt c v || !movable p.reps c src dst)
  | _, _ => false

/-- some tie resolution makes the loop of `balanceSelectedVolume` end here -/
def Phase.stopOk (p : Phase) : Bool :=
  p.nodes.any fun src =>
    p.isMax src &&
    (!p.fullOk src ||
      let others := p.nodes.filter (·.loc.id != src.loc.id)
      let quiet (n : PNode) : Bool := !(p.nextOk n && p.canAccept src n)
      others.all quiet ||
      others.any fun b => !p.nextOk b && others.all fun n => !ratioLt n b || quiet n)

/-- `adjustAfterMove` -/
def Phase.apply (p : Phase) (vid s d : Nat) : Phase :=
  match p.nodes.find? (·.loc.id == s), p.nodes.find? (·.loc.id == d) with
  | some src, some dst =>
    match src.sel.find? (·.vid == vid) with
    | none => p
    | some v =>
      { p with
        nodes := p.nodes.map fun n =>
          if n.loc.id == s then { n with sel := n.sel.filter (·.vid != vid) }
          else if n.loc.id == d then { n with sel := n.sel ++ [v] } else n
        reps := p.reps.set vid (adjustReps (p.reps.get vid) src.loc dst.loc) }
  | _, _ => p

def Phase.selectedAt (p : Phase) (vid s : Nat) : Bool :=
  match p.nodes.find? (·.loc.id == s) with
  | some src => src.sel.any (·.vid == vid)
  | none => false

/-- consume the steps of one phase; error text on a step the model cannot plan -/
def Phase.run : Phase → List (Nat × Nat × Nat) → Except String (RepMap × List (Nat × Nat × Nat) × Nat)
  | p, [] => if p.stopOk then .ok (p.reps, [], 0) else .error "stops-although-a-move-is-due"
  | p, (vid, s, d) :: rest =>
    if p.selectedAt vid s then
      if p.stepOk vid s d then
        match (p.apply vid s d).run rest with
        | .ok (r, rem, k) => .ok (r, rem, k + 1)
        | .error e => .error e
      else .error s!"step-not-planned-by-model {vid}:{s}:{d}"
    else if p.stopOk then .ok (p.reps, (vid, s, d) :: rest, 0) else .error "phase-ends-although-a-move-is-due"

structure BalArgs where
  dt : Nat
  coll : Option Nat     -- none = ALL_COLLECTIONS
  dc : Option Nat
  limit : Nat

def selectFor (a : BalArgs) (ro : Bool) (s : Server) : List Vol :=
  (s.allVols.filter fun (dt, v) =>
    (match a.coll with | none => true | some c => v.coll == c) && dt == a.dt &&
    (if ro then (v.ro || decide (v.size ≥ a.limit)) else (!v.ro && decide (v.size < a.limit)))).map (·.2)

def mkPhase (a : BalArgs) (ro : Bool) (t : Topo) (reps : RepMap) : Phase :=
  let nodes := (t.filter fun s => match a.dc with | none => true | some d => s.loc.dc == d).map fun s =>
    ({ loc := s.loc, cap := capMax s a.dt, sel := selectFor a ro s } : PNode)
  { ro := ro, s := (nodes.map (·.sel.length)).sum, m := (nodes.map (·.cap)).sum,
    nodes := nodes.filter (·.cap > 0), reps := reps }

def allVids (t : Topo) : List Nat := distinct (t.flatMap fun s => s.allVols.map (·.2.vid))
def initReps (t : Topo) : RepMap := (allVids t).map fun vid => (vid, repsOf t vid)

/-- whole `balanceVolumeServersByDiskType`: expected status and admissibility of the printed plan -/
def balanceCheck (a : BalArgs) (t : Topo) (status : String) (steps : List (Nat × Nat × Nat)) : Except String (Nat × Nat) :=
  let p1 := mkPhase a false t (initReps t)
  if p1.nodes.isEmpty then
    (if status == "panic" && steps.isEmpty then .ok (0, 0) else .error "expected-panic-no-node-with-capacity")
  else if status != "ok" then .error "expected-ok" else
  match p1.run steps with
  | .error e => .error ("writable:" ++ e)
  | .ok (reps, rest, k1) =>
    match (mkPhase a true t reps).run rest with
    | .error e => .error ("readonly:" ++ e)
    | .ok (_, [], k2) => .ok (k1, k2)
    | .ok (_, _ :: _, _) => .error "readonly:steps-left-over"

/-! ### volumeServer.evacuate (normal volumes) -/

/-- localVolumeRatio with capacityByFreeVolumeCount: selected / free as a float -/
inductive Ratio where
  | nan | inf | fin (a : Int) (b : Int)   -- b ≠ 0

def evacRatio (sel : Nat) (free : Int) : Ratio :=
  if free = 0 then (if sel = 0 then .nan else .inf) else .fin sel free

def Ratio.gt : Ratio → Ratio → Bool
  | .inf, .fin _ _ => true
  | .fin a b, .fin c d => decide ((a * d - c * b) * (b * d) > 0)
  | .fin _ _, .inf => false
  | _, _ => false

def evacSel (n : Server) (dt : Nat) : List Vol := (n.allVols.filter (·.1 == dt)).map (·.2)

def evacMovable (t : Topo) (this : Server) (dt : Nat) (v : Vol) (n : Server) : Bool :=
  (v.rp == 0 || isGoodMove (rpOfByte v.rp) (repsOf t v.vid) this.loc n.loc) &&
  !((evacSel n dt).any (·.vid == v.vid))

/-- admissibility of the outcome for one volume of the evacuated server: `some d` = moved to d -/
def evacOk (t : Topo) (this : Server) (dt : Nat) (v : Vol) (dst : Option Nat) : Bool :=
  let others := t.filter (·.loc.id != this.loc.id)
  let ratio (n : Server) := evacRatio (evacSel n dt).length (capFree n dt)
  match dst with
  | none => others.all fun n => !evacMovable t this dt v n
  | some d =>
    match others.find? (·.loc.id == d) with
    | none => false
    | some dn =>
      evacMovable t this dt v dn &&
      ((others.any fun n => match ratio n with | .nan => true | _ => false) ||
       others.all fun n => !(ratio n).gt (ratio dn) || !evacMovable t this dt v n)

def evacCheck (t : Topo) (id : Nat) (status : String) (outs : List (Nat × Option Nat)) : Except String Nat :=
  match t.find? (·.loc.id == id) with
  | none => if status == "err" then .ok 0 else .error "expected-err-unknown-server"
  | some this =>
    if status != "ok" then .error "expected-ok" else
    let vols := this.allVols
    if (outs.map (·.1)) != (vols.map (·.2.vid)).mergeSort then .error "volume-list-differs" else
    match outs.find? fun (vid, d) =>
      match vols.find? (·.2.vid == vid) with
      | none => true
      | some (dt, v) => !evacOk t this dt v d with
    | some (vid, _) => .error s!"outcome-not-planned-by-model {vid}"
    | none => .ok (outs.filter (·.2.isSome)).length

/-! ### volume.fix.replication -n -/

structure Replica where
  loc : Loc
  dt : Nat
  vol : Vol

def replicasOf (t : Topo) (vid : Nat) : List Replica :=
  t.flatMap fun s => (s.allVols.filter (·.2.vid == vid)).map fun (dt, v) => ⟨s.loc, dt, v⟩

inductive FixTok where
  | copy (vid src dst : Nat) | fail (vid : Nat) | del (vid node : Nat)

/-- `pickOneReplicaToCopyFrom` -/
def pickSource : List Replica → Option Replica
  | [] => none
  | r :: rest => some (rest.foldl (fun best x => if x.vol.mtime > best.vol.mtime then x else best) r)

def underVids (t : Topo) : List Nat := (allVids t).filter fun vid =>
  match replicasOf t vid with | [] => false | r :: rest => decide ((rpOfByte r.vol.rp).copies > (r :: rest).length)
def overVids (t : Topo) : List Nat := (allVids t).filter fun vid =>
  match replicasOf t vid with | [] => false | r :: rest => decide ((rpOfByte r.vol.rp).copies < (r :: rest).length)

/-- the guard of `fixOneUnderReplicatedVolume` -/
def fixCand (_t : Topo) (rp : RP) (dt : Nat) (locs : List Loc) (n : Server) : Bool :=
  decide (capFree n dt > 0) && satisfyRP rp locs n.loc

def fixTokOk (t : Topo) : FixTok → Bool
  | .del vid node =>
    let rs := replicasOf t vid
    match rs.find? (·.loc.id == node) with
    | none => false
    | some r => (overVids t).contains vid &&
        rs.all fun q => !(decide (q.vol.mtime < r.vol.mtime) || (q.vol.mtime == r.vol.mtime && decide (q.vol.size < r.vol.size)))
  | .fail vid =>
    match pickSource (replicasOf t vid) with
    | none => false
    | some src => t.all fun n => !fixCand t (rpOfByte src.vol.rp) src.dt ((replicasOf t vid).map (·.loc)) n
  | .copy vid s d =>
    match pickSource (replicasOf t vid), t.find? (·.loc.id == d) with
    | some src, some dn =>
      let locs := (replicasOf t vid).map (·.loc)
      src.loc.id == s && fixCand t (rpOfByte src.vol.rp) src.dt locs dn &&
      t.all fun n => !(decide (capFree n src.dt > capFree dn src.dt) && fixCand t (rpOfByte src.vol.rp) src.dt locs n)
    | _, _ => false

def FixTok.vid : FixTok → Nat
  | .copy v _ _ => v | .fail v => v | .del v _ => v

def fixCheck (t : Topo) (status : String) (toks : List FixTok) : Except String String :=
  if status != "ok" then .error "expected-ok" else
  if !(overVids t).isEmpty then
    match toks with
    | [.del v n] => if fixTokOk t (.del v n) then .ok "over" else .error "delete-not-planned-by-model"
    | _ => .error "expected-one-delete"
  else
    if toks.map (·.vid) != (underVids t).mergeSort then .error "under-replicated-list-differs" else
    match toks.find? fun k => match k with | .del _ _ => true | k => !fixTokOk t k with
    | some k => .error s!"outcome-not-planned-by-model {k.vid}"
    | none => .ok "under"

end SwV.Model.C15
