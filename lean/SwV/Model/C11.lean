/-
C11 / C12 — master topology: executable model (core Lean only), shared by both properties.

Mirrors, function by function (Go maps become total functions, Go slices become lists):
  weed/topology/node.go          UpAdjustDiskUsageDelta, LinkChildNode, UnlinkChildNode
  weed/topology/rack.go          GetOrCreateDataNode (link node, then one Disk per reported type)
  weed/topology/data_node.go     AdjustMaxVolumeCounts, UpdateVolumes, DeltaUpdateVolumes, GetVolumesById
  weed/topology/disk.go          doAddOrUpdateVolume
  weed/topology/data_node_ec.go  UpdateEcShards, DeltaUpdateEcShards;  disk_ec.go AddOrUpdateEcShard, DeleteEcShard
  weed/topology/topology.go      Sync/IncrementalSyncDataNodeRegistration, Register/UnRegisterVolumeLayout, Lookup
  weed/topology/topology_ec.go   Sync/IncrementalSyncDataNodeEcShards, Register/UnRegisterEcShards
  weed/topology/volume_layout.go RegisterVolume, UnRegisterVolume, ensureCorrectWritables, SetVolumeUnavailable,
                                 SetVolumeCapacityFull, enoughCopies, isAllWritable
  weed/topology/topology_event_handling.go  UnRegisterDataNode, SetVolumeCapacityFull (refresh round)

Servers are numbered (data node id "s<i>:8080"), disk types 0 = hdd (""), 1 = ssd, volume ids
1..nVid (`nVid` bounds the loops that stand for Go's `range` over a map; the results do not
depend on the iteration order).  `activeVolumeCount` is not part of either property and is not
modelled.  A disconnected server's DataNode object is garbage in the real master (a reconnect
creates a new one), so `conn` starts the server from an empty record.
-/
namespace SwV.Model.C11

structure Counts where
  vol : Int := 0
  rem : Int := 0
  ec  : Int := 0
  max : Int := 0
deriving DecidableEq, Repr, Inhabited

namespace Counts
def add (a b : Counts) : Counts := ⟨a.vol + b.vol, a.rem + b.rem, a.ec + b.ec, a.max + b.max⟩
def neg (a : Counts) : Counts := ⟨-a.vol, -a.rem, -a.ec, -a.max⟩
def isZero (a : Counts) : Bool := a.vol == 0 && a.rem == 0 && a.ec == 0 && a.max == 0
end Counts

/-- a volume layout is keyed by collection, replica placement byte, ttl (uint32), disk type -/
structure Key where
  coll : Nat
  rp : Nat
  ttl : Nat
  disk : Nat
deriving DecidableEq, Repr, Inhabited

/-- the fields of storage.VolumeInfo the master acts on -/
structure VInfo where
  id : Nat
  size : Nat
  ro : Bool
  remote : Bool
  key : Key
deriving DecidableEq, Repr, Inhabited

structure EcInfo where
  id : Nat
  coll : Nat
  disk : Nat
  bits : Nat
deriving DecidableEq, Repr, Inhabited

def upd1 {α : Type} (f : Nat → α) (a : Nat) (v : α) : Nat → α := fun x => if x = a then v else f x
def upd2 {α : Type} (f : Nat → Nat → α) (a b : Nat) (v : α) : Nat → Nat → α :=
  fun x y => if x = a ∧ y = b then v else f x y
def upd3 {α : Type} (f : Nat → Nat → Nat → α) (a b c : Nat) (v : α) : Nat → Nat → Nat → α :=
  fun x y z => if x = a ∧ y = b ∧ z = c then v else f x y z
def updK {α : Type} (f : Key → α) (k : Key) (v : α) : Key → α := fun x => if x = k then v else f x
def updK2 {α : Type} (f : Key → Nat → α) (k : Key) (a : Nat) (v : α) : Key → Nat → α :=
  fun x y => if x = k ∧ y = a then v else f x y

/-- the DataNode/Disk side of the master state: what the servers registered and all counters -/
structure Core where
  nVid : Nat := 0
  conn : Nat → Bool := fun _ => false
  dcOf : Nat → Nat := fun _ => 0
  rackOf : Nat → Nat := fun _ => 0
  /-- server, disk type, vid ↦ registered volume -/
  vols : Nat → Nat → Nat → Option VInfo := fun _ _ _ => none
  /-- server, disk type, vid ↦ registered EC shard bits (0 = none) -/
  ecs : Nat → Nat → Nat → Nat := fun _ _ _ => 0
  cDisk : Nat → Nat → Counts := fun _ _ => {}
  cNode : Nat → Nat → Counts := fun _ _ => {}
  cRack : Nat → Nat → Nat → Counts := fun _ _ _ => {}
  cDc : Nat → Nat → Counts := fun _ _ => {}
  cTopo : Nat → Counts := fun _ => {}

/-- the whole master state: Core + volume layouts + EC shard map -/
structure St extends Core where
  limit : Nat := 0
  asMin : Bool := false
  /-- layout, vid ↦ location list (data nodes in slice order) -/
  locs : Key → Nat → Option (List Nat) := fun _ _ => none
  /-- layout ↦ writables slice -/
  wr : Key → List Nat := fun _ => []
  /-- layout, vid ↦ oversizedVolumes copy list -/
  ov : Key → Nat → List Nat := fun _ _ => []
  /-- vid, shard id ↦ data nodes holding the shard -/
  ecLoc : Nat → Nat → List Nat := fun _ _ => []
  /-- layouts ever created (GetVolumeLayout), for enumeration only -/
  keys : List Key := []

/-! ## counters (Core level: NodeImpl / DataNode / Disk) -/

namespace Core

/-- NodeImpl.UpAdjustDiskUsageDelta started at the data node `s` -/
def nodeUp (c : Core) (s t : Nat) (d : Counts) : Core :=
  { c with
    cNode := upd2 c.cNode s t ((c.cNode s t).add d)
    cRack := upd3 c.cRack (c.dcOf s) (c.rackOf s) t ((c.cRack (c.dcOf s) (c.rackOf s) t).add d)
    cDc := upd2 c.cDc (c.dcOf s) t ((c.cDc (c.dcOf s) t).add d)
    cTopo := upd1 c.cTopo t ((c.cTopo t).add d) }

/-- UpAdjustDiskUsageDelta started at disk `t` of server `s` -/
def upAdj (c : Core) (s t : Nat) (d : Counts) : Core :=
  nodeUp { c with cDisk := upd2 c.cDisk s t ((c.cDisk s t).add d) } s t d

/-- first heartbeat of a stream: GetOrCreateDataCenter/Rack/DataNode (link the node, then one Disk per reported type) -/
def connect (c : Core) (s dc rack maxH maxS : Nat) : Core :=
  if c.conn s then c else
  let c1 : Core := { c with
    conn := upd1 c.conn s true
    dcOf := upd1 c.dcOf s dc
    rackOf := upd1 c.rackOf s rack
    vols := fun x => if x = s then fun _ _ => none else c.vols x
    ecs := fun x => if x = s then fun _ _ => 0 else c.ecs x
    cDisk := fun x => if x = s then fun _ => {} else c.cDisk x
    cNode := fun x => if x = s then fun _ => {} else c.cNode x }
  let c2 := upAdj c1 s 0 { max := maxH }
  if maxS > 0 then upAdj c2 s 1 { max := maxS } else c2

/-- DataNode.AdjustMaxVolumeCounts (one delta per disk type) -/
def adjustMax1 (c : Core) (s t m : Nat) : Core :=
  if m = 0 then c
  else if (c.cNode s t).max = (m : Int) then c
  else upAdj c s t { max := (m : Int) - (c.cNode s t).max }

def adjustMax (c : Core) (s maxH maxS : Nat) : Core :=
  if c.conn s then adjustMax1 (adjustMax1 c s 0 maxH) s 1 maxS else c

def b2i (b : Bool) : Int := if b then 1 else 0

/-- Disk.doAddOrUpdateVolume: (state, isNew, isChangedRO) -/
def addOrUpdate (c : Core) (s : Nat) (v : VInfo) : Core × Bool × Bool :=
  let t := v.key.disk
  match c.vols s t v.id with
  | none =>
    (upAdj { c with vols := upd3 c.vols s t v.id (some v) } s t { vol := 1, rem := b2i v.remote }, true, false)
  | some old =>
    let c1 := if old.remote != v.remote then upAdj c s t { rem := b2i v.remote - b2i old.remote } else c
    ({ c1 with vols := upd3 c1.vols s t v.id (some v) }, false, old.ro != v.ro)

/-- `delete(disk.volumes, vid)` + the decrement UpdateVolumes / DeltaUpdateVolumes apply -/
def delVol (c : Core) (s t vid : Nat) (remote : Bool) : Core :=
  upAdj { c with vols := upd3 c.vols s t vid none } s t { vol := -1, rem := - b2i remote }

/-- UpdateVolumes, first loop, on disk `t` (vids below `n`): registered volumes that the
    heartbeat does not list are deleted; returns them -/
def sweepGone (c : Core) (s : Nat) (actual : List VInfo) (t : Nat) : Nat → Core × List VInfo
  | 0 => (c, [])
  | n + 1 =>
    let r := sweepGone c s actual t n
    match r.1.vols s t n with
    | some v => if actual.any (fun a => a.id == n) then r else (delVol r.1 s t n v.remote, r.2 ++ [v])
    | none => r

/-- UpdateVolumes, second loop: (state, new volumes, changed read-only) -/
def addAll (c : Core) (s : Nat) : List VInfo → Core × List VInfo × List VInfo
  | [] => (c, [], [])
  | v :: vs =>
    let r := addOrUpdate c s v
    let q := addAll r.1 s vs
    (q.1, if r.2.1 then v :: q.2.1 else q.2.1, if r.2.2 then v :: q.2.2 else q.2.2)

/-- DataNode.UpdateVolumes: (state, new, deleted, changedRO) -/
def updateVolumes (c : Core) (s : Nat) (actual : List VInfo) : Core × List VInfo × List VInfo × List VInfo :=
  let g0 := sweepGone c s actual 0 (c.nVid + 1)
  let g1 := sweepGone g0.1 s actual 1 (c.nVid + 1)
  let a := addAll g1.1 s actual
  (a.1, a.2.1, g0.2 ++ g1.2, a.2.2)

/-- DeltaUpdateVolumes, one deletion message `v` (a short message: id + layout key): only a volume
    registered on the message's disk is deleted, and the decrement takes the remote flag of the
    REGISTERED volume; a message for a volume that is not registered changes nothing
    (repaired in /repo by bf7edee2 and fb6f0331; before, every message decremented and the remote
    flag came from the message) -/
def delReg (c : Core) (s : Nat) (v : VInfo) : Core :=
  match c.vols s v.key.disk v.id with
  | some old => delVol c s v.key.disk v.id old.remote
  | none => c

/-- DataNode.DeltaUpdateVolumes -/
def deltaUpdateVolumes (c : Core) (s : Nat) (news dels : List VInfo) : Core :=
  let c := dels.foldl (fun c v => delReg c s v) c
  news.foldl (fun c v => (addOrUpdate c s v).1) c

/-- DataNode.GetVolumesById -/
def volOf (c : Core) (s vid : Nat) : Option VInfo :=
  match c.vols s 0 vid with
  | some v => some v
  | none => c.vols s 1 vid

/-- the volumes registered on server `s` (all disks) -/
def volumesOf (c : Core) (s : Nat) : List VInfo :=
  (List.range 2).flatMap fun t => (List.range (c.nVid + 1)).filterMap fun vid => c.vols s t vid

/-- UnRegisterDataNode, counter part: the node's usages are subtracted from the node and everything above; unlink -/
def disconnect (c : Core) (s : Nat) : Core :=
  let c := nodeUp c s 0 (c.cNode s 0).neg
  let c := nodeUp c s 1 (c.cNode s 1).neg
  { c with conn := upd1 c.conn s false }

end Core

open Core (b2i)

def volOf (st : St) (s vid : Nat) : Option VInfo := st.toCore.volOf s vid
def volumesOf (st : St) (s : Nat) : List VInfo := st.toCore.volumesOf s

/-! ## layouts -/

def copyCount (rp : Nat) : Nat := rp / 100 + (rp % 100) / 10 + rp % 10 + 1

def locList (st : St) (k : Key) (vid : Nat) : List Nat := (st.locs k vid).getD []

def enoughCopies (st : St) (k : Key) (vid : Nat) : Bool :=
  let n := (locList st k vid).length
  n == copyCount k.rp || (st.asMin && n > copyCount k.rp)

def isAllWritable (st : St) (k : Key) (vid : Nat) : Bool :=
  (locList st k vid).all fun dn =>
    match volOf st dn vid with
    | some v => !v.ro
    | none => true

def removeWritable (st : St) (k : Key) (vid : Nat) : St :=
  { st with wr := updK st.wr k ((st.wr k).erase vid) }

def setWritable (st : St) (k : Key) (vid : Nat) : St :=
  if (st.wr k).contains vid then st else { st with wr := updK st.wr k (st.wr k ++ [vid]) }

def ensureWritables (st : St) (k : Key) (vid : Nat) : St :=
  if enoughCopies st k vid && isAllWritable st k vid then
    (if (st.ov k vid).isEmpty then setWritable st k vid else st)
  else removeWritable st k vid

def touchKey (st : St) (k : Key) : St :=
  if st.keys.contains k then st else { st with keys := st.keys ++ [k] }

/-- VolumeLocationList.Set -/
def setLoc (l : List Nat) (s : Nat) : List Nat := if l.contains s then l else l ++ [s]

/-- VolumeLayout.RegisterVolume -/
def registerVolume (st0 : St) (v : VInfo) (s : Nat) : St :=
  let k := v.key
  let st := touchKey st0 k
  let l := setLoc (locList st k v.id) s
  -- the loop over the location list stops at the first read-only or unknown replica, removing the vid from writables
  let bad := l.any fun dn => match st.toCore.volOf dn v.id with | some x => x.ro | none => true
  let o := st.ov k v.id
  { st with
    locs := updK2 st.locs k v.id (some l)
    wr := if bad then updK st.wr k ((st.wr k).erase v.id) else st.wr
    -- deferred rememberOversizedVolume
    ov := updK2 st.ov k v.id (if v.size ≥ st.limit then setLoc o s else o.erase s) }

/-- Topology.RegisterVolumeLayout = VolumeLayout.RegisterVolume; EnsureCorrectWritables -/
def registerLayout (st : St) (v : VInfo) (s : Nat) : St :=
  ensureWritables (registerVolume st v s) v.key v.id

/-- Topology.UnRegisterVolumeLayout -/
def unregisterLayout (st : St) (v : VInfo) (s : Nat) : St :=
  let k := v.key
  let st := touchKey st k
  match st.locs k v.id with
  | none => st
  | some l =>
    if l.contains s then
      let l' := l.erase s
      let st1 : St := { st with locs := updK2 st.locs k v.id (some l'), ov := updK2 st.ov k v.id ((st.ov k v.id).erase s) }
      let st2 := ensureWritables st1 k v.id
      if l'.isEmpty then { st2 with locs := updK2 st2.locs k v.id none } else st2
    else st

/-- VolumeLayout.SetVolumeUnavailable -/
def setUnavailable (st : St) (v : VInfo) (s : Nat) : St :=
  let k := v.key
  let st := touchKey st k
  match st.locs k v.id with
  | none => st
  | some l =>
    if l.contains s then
      let l' := l.erase s
      let st : St := { st with locs := updK2 st.locs k v.id (some l'), ov := updK2 st.ov k v.id ((st.ov k v.id).erase s) }
      if l'.length < copyCount k.rp then removeWritable st k v.id else st
    else st

/-! ## volume heartbeats (Topology level) -/

/-- Topology.SyncDataNodeRegistration (full volume heartbeat) -/
def syncFull (st : St) (s : Nat) (actual : List VInfo) : St :=
  if !st.conn s then st else
  let r := st.toCore.updateVolumes s actual
  let st : St := { st with toCore := r.1 }
  let st := r.2.1.foldl (fun st v => registerLayout st v s) st
  let st := r.2.2.1.foldl (fun st v => unregisterLayout st v s) st
  r.2.2.2.foldl (fun st v => ensureWritables (touchKey st v.key) v.key v.id) st

/-- Topology.IncrementalSyncDataNodeRegistration -/
def syncInc (st : St) (s : Nat) (news dels : List VInfo) : St :=
  if !st.conn s then st else
  let st : St := { st with toCore := st.toCore.deltaUpdateVolumes s news dels }
  let st := news.foldl (fun st v => registerLayout st v s) st
  dels.foldl (fun st v => unregisterLayout st v s) st

/-! ## EC shards -/

def popAux : Nat → Nat → Nat
  | 0, _ => 0
  | f + 1, n => n % 2 + popAux f (n / 2)
/-- ShardBits.ShardIdCount -/
def popcount (n : Nat) : Nat := popAux 32 n
/-- ShardBits.Minus -/
def bitsMinus (a b : Nat) : Nat := a - (a &&& b)
def shardIds (bits : Nat) : List Nat := (List.range 14).filter fun i => bits.testBit i

/-- the entry of the actual-shards map (last message for a vid wins) -/
def actualBits (actual : List EcInfo) (vid : Nat) : Option Nat :=
  actual.foldl (fun acc e => if e.id = vid then some e.bits else acc) none

namespace Core

def hasEc (c : Core) (s vid : Nat) : Bool := c.ecs s 0 vid != 0 || c.ecs s 1 vid != 0

/-- the EC volumes registered on `s`: (disk type, vid, bits) -/
def ecOf (c : Core) (s : Nat) : List (Nat × Nat × Nat) :=
  (List.range 2).flatMap fun t => (List.range (c.nVid + 1)).filterMap fun vid =>
    if c.ecs s t vid = 0 then none else some (t, vid, c.ecs s t vid)

/-- UpdateEcShards, loop 1 body: one registered EC volume against the message (one delta per EC volume) -/
def ecStep1 (s : Nat) (actual : List EcInfo) (acc : Core × List (Nat × Nat) × List (Nat × Nat)) (e : Nat × Nat × Nat) :
    Core × List (Nat × Nat) × List (Nat × Nat) :=
  match actualBits actual e.2.1 with
  | none => (upAdj acc.1 s e.1 { ec := - (popcount e.2.2 : Int) }, acc.2.1, acc.2.2 ++ [(e.2.1, e.2.2)])
  | some ab =>
    let a := bitsMinus ab e.2.2
    let d := bitsMinus e.2.2 ab
    (upAdj acc.1 s e.1 { ec := (popcount a : Int) - (popcount d : Int) },
     if popcount a > 0 then acc.2.1 ++ [(e.2.1, a)] else acc.2.1,
     if popcount d > 0 then acc.2.2 ++ [(e.2.1, d)] else acc.2.2)

/-- UpdateEcShards, loop 2 body: an EC volume of the message that was not registered before (`c0` = state at entry) -/
def ecStep2 (c0 : Core) (s : Nat) (acc : Core × List (Nat × Nat)) (e : EcInfo) : Core × List (Nat × Nat) :=
  if c0.hasEc s e.id then acc
  else (upAdj acc.1 s e.disk { ec := (popcount e.bits : Int) }, acc.2 ++ [(e.id, e.bits)])

/-- doUpdateEcShards, one entry -/
def ecStore (s : Nat) (c : Core) (e : EcInfo) : Core := { c with ecs := upd3 c.ecs s e.disk e.id e.bits }

/-- DataNode.UpdateEcShards: (state, new shards, deleted shards) as (vid, bits) lists -/
def updateEcShards (c0 : Core) (s : Nat) (actual : List EcInfo) : Core × List (Nat × Nat) × List (Nat × Nat) :=
  let r1 := (c0.ecOf s).foldl (ecStep1 s actual) (c0, [], [])
  let r2 := actual.foldl (ecStep2 c0 s) (r1.1, r1.2.1)
  -- doUpdateEcShards: only when something changed
  let c : Core :=
    if r2.2.isEmpty && r1.2.2.isEmpty then r2.1
    else actual.foldl (ecStore s) { r2.1 with ecs := fun x => if x = s then fun _ _ => 0 else r2.1.ecs x }
  (c, r2.2, r1.2.2)

/-- Disk.AddOrUpdateEcShard -/
def addEc (c : Core) (s : Nat) (e : EcInfo) : Core :=
  let old := c.ecs s e.disk e.id
  let new := old ||| e.bits
  upAdj { c with ecs := upd3 c.ecs s e.disk e.id new } s e.disk { ec := (popcount new : Int) - (popcount old : Int) }

/-- Disk.DeleteEcShard -/
def delEc (c : Core) (s : Nat) (e : EcInfo) : Core :=
  let old := c.ecs s e.disk e.id
  if old = 0 then c else
  let new := bitsMinus old e.bits
  upAdj { c with ecs := upd3 c.ecs s e.disk e.id new } s e.disk { ec := (popcount new : Int) - (popcount old : Int) }

/-- DataNode.DeltaUpdateEcShards -/
def deltaUpdateEcShards (c : Core) (s : Nat) (news dels : List EcInfo) : Core :=
  let c := news.foldl (fun c e => addEc c s e) c
  dels.foldl (fun c e => delEc c s e) c

end Core

def registerEc (st : St) (vid bits s : Nat) : St :=
  (shardIds bits).foldl (fun st sh => { st with ecLoc := upd2 st.ecLoc vid sh (setLoc (st.ecLoc vid sh) s) }) st
def unregisterEc (st : St) (vid bits s : Nat) : St :=
  (shardIds bits).foldl (fun st sh => { st with ecLoc := upd2 st.ecLoc vid sh ((st.ecLoc vid sh).erase s) }) st

/-- Topology.SyncDataNodeEcShards (full EC heartbeat) -/
def syncEcFull (st : St) (s : Nat) (actual : List EcInfo) : St :=
  if !st.conn s then st else
  let r := st.toCore.updateEcShards s actual
  let st : St := { st with toCore := r.1 }
  let st := r.2.1.foldl (fun st e => registerEc st e.1 e.2 s) st
  r.2.2.foldl (fun st e => unregisterEc st e.1 e.2 s) st

/-- Topology.IncrementalSyncDataNodeEcShards -/
def syncEcInc (st : St) (s : Nat) (news dels : List EcInfo) : St :=
  if !st.conn s then st else
  let st : St := { st with toCore := st.toCore.deltaUpdateEcShards s news dels }
  let st := news.foldl (fun st e => registerEc st e.id e.bits s) st
  dels.foldl (fun st e => unregisterEc st e.id e.bits s) st

/-! ## connect, max counts, disconnect, refresh -/

def conn (st : St) (s dc rack maxH maxS : Nat) : St := { st with toCore := st.toCore.connect s dc rack maxH maxS }

def adjustMax (st : St) (s maxH maxS : Nat) : St := { st with toCore := st.toCore.adjustMax s maxH maxS }

/-- Topology.UnRegisterDataNode -/
def disc (st : St) (s : Nat) : St :=
  if !st.conn s then st else
  let st := (volumesOf st s).foldl (fun st v => setUnavailable st v s) st
  { st with toCore := st.toCore.disconnect s }

/-- the refresh round: every registered volume at or over the limit goes through SetVolumeCapacityFull -/
def refresh (st : St) (nSrv : Nat) : St :=
  (List.range nSrv).foldl (fun st s =>
    if st.conn s then
      (volumesOf st s).foldl (fun st v => if v.size ≥ st.limit then removeWritable (touchKey st v.key) v.key v.id else st) st
    else st) st

/-! ## operations -/

inductive Op where
  | conn (s dc rack maxH maxS : Nat)
  | max (s maxH maxS : Nat)
  | full (s : Nat) (vols : List VInfo)
  | inc (s : Nat) (news dels : List VInfo)
  | ecfull (s : Nat) (ecs : List EcInfo)
  | ecinc (s : Nat) (news dels : List EcInfo)
  | disc (s : Nat)
  | refresh
deriving Repr

def maxSrv : Nat := 6

def step (st : St) : Op → St
  | .conn s dc rack h ssd => conn st s dc rack h ssd
  | .max s h ssd => adjustMax st s h ssd
  | .full s vs => syncFull st s vs
  | .inc s ns ds => syncInc st s ns ds
  | .ecfull s es => syncEcFull st s es
  | .ecinc s ns ds => syncEcInc st s ns ds
  | .disc s => disc st s
  | .refresh => refresh st maxSrv

def init (limit : Nat) (asMin : Bool) (nVid : Nat) : St := { limit := limit, asMin := asMin, nVid := nVid }

def run (st : St) (ops : List Op) : St := ops.foldl step st

/-- Topology.Lookup("", vid): the first layout that knows the vid answers (even with an empty
    list); otherwise the EC shard map -/
def lookup (st : St) (vid : Nat) : List Nat :=
  match st.keys.findSome? fun k => st.locs k vid with
  | some l => l
  | none => (List.range 14).flatMap fun sh => st.ecLoc vid sh

end SwV.Model.C11
