/-
C11 / C12 — master topology: executable model (core Lean only), shared by both properties.

Mirrors, function by function (Go maps become total functions, Go slices become lists):
  weed/topology/node.go          UpAdjustDiskUsageDelta, LinkChildNode, UnlinkChildNode
  weed/topology/rack.go          GetOrCreateDataNode (link node, then one Disk per reported type)
  weed/topology/data_node.go     AdjustMaxVolumeCounts, UpdateVolumes, DeltaUpdateVolumes, GetVolumesById
  weed/topology/disk.go          doAddOrUpdateVolume
  weed/topology/data_node_ec.go  UpdateEcShards, DeltaUpdateEcShards;  disk_ec.go AddOrUpdateEcShard, DeleteEcShard
  weed/topology/topology.go      Sync/IncrementalSyncDataNodeRegistration, Register/UnRegisterVolumeLayout, Lookup
  weed/topology/topology_ec.go   Sync/IncrementalSyncDataNodeEcShards, Register/UnRegisterEcShards
  weed/topology/volume_layout.go RegisterVolume, UnRegisterVolume, ensureCorrectWritables, SetVolumeUnavailable,
                                 SetVolumeCapacityFull, enoughCopies, isAllWritable
  weed/topology/topology_event_handling.go  UnRegisterDataNode, SetVolumeCapacityFull (refresh round)

Servers are numbered (data node id "s<i>:8080"), disk types 0 = hdd (""), 1 = ssd, volume ids
1..nVid (`nVid` bounds the loops that stand for Go's `range` over a map; the results do not
depend on the iteration order).  `activeVolumeCount` is not part of either property and is not
modelled.  A disconnected server's DataNode object is garbage in the real master (a reconnect
creates a new one), so `conn` starts the server from an empty record.
-/
namespace SwV.Model.C11

structure Counts where
  vol : Int := 0
  rem : Int := 0
  ec  : Int := 0
  max : Int := 0
deriving DecidableEq, Repr, Inhabited

namespace Counts
def add (a b : Counts) : Counts := ⟨a.vol + b.vol, a.rem + b.rem, a.ec + b.ec, a.max + b.max⟩
def neg (a : Counts) : Counts := ⟨-a.vol, -a.rem, -a.ec, -a.max⟩
def isZero (a : Counts) : Bool := a.vol == 0 && a.rem == 0 && a.ec == 0 && a.max == 0
end Counts

/-- a volume layout is keyed by collection, replica placement byte, ttl (uint32), disk type -/
structure Key where
  coll : Nat
  rp : Nat
  ttl : Nat
  disk : Nat
deriving DecidableEq, Repr, Inhabited

/-- the fields of storage.VolumeInfo the master acts on -/
structure VInfo where
  id : Nat
  size : Nat
  ro : Bool
  remote : Bool
  key : Key
deriving DecidableEq, Repr, Inhabited

structure EcInfo where
  id : Nat
  coll : Nat
  disk : Nat
  bits : Nat
deriving DecidableEq, Repr, Inhabited

def upd1 {α : Type} (f : Nat → α) (a : Nat) (v : α) : Nat → α := fun x => if x = a then v else f x
def upd2 {α : Type} (f : Nat → Nat → α) (a b : Nat) (v : α) : Nat → Nat → α :=
  fun x y => if x = a ∧ y = b then v else f x y
def upd3 {α : Type} (f : Nat → Nat → Nat → α) (a b c : Nat) (v : α) : Nat → Nat → Nat → α :=
  fun x y z => if x = a ∧ y = b ∧ z = c then v else f x y z
def updK {α : Type} (f : Key → α) (k : Key) (v : α) : Key → α := fun x => if x = k then v else f x
def updK2 {α : Type} (f : Key → Nat → α) (k : Key) (a : Nat) (v : α) : Key → Nat → α :=
  fun x y => if x = k ∧ y = a then v else f x y

structure St where
  limit : Nat := 0
  asMin : Bool := false
  nVid : Nat := 0
  conn : Nat → Bool := fun _ => false
  dcOf : Nat → Nat := fun _ => 0
  rackOf : Nat → Nat := fun _ => 0
  /-- server, disk type, vid ↦ registered volume -/
  vols : Nat → Nat → Nat → Option VInfo := fun _ _ _ => none
  /-- server, disk type, vid ↦ registered EC shard bits (0 = none) -/
  ecs : Nat → Nat → Nat → Nat := fun _ _ _ => 0
  cDisk : Nat → Nat → Counts := fun _ _ => {}
  cNode : Nat → Nat → Counts := fun _ _ => {}
  cRack : Nat → Nat → Nat → Counts := fun _ _ _ => {}
  cDc : Nat → Nat → Counts := fun _ _ => {}
  cTopo : Nat → Counts := fun _ => {}
  /-- layout, vid ↦ location list (data nodes in slice order) -/
  locs : Key → Nat → Option (List Nat) := fun _ _ => none
  /-- layout ↦ writables slice -/
  wr : Key → List Nat := fun _ => []
  /-- layout, vid ↦ oversizedVolumes copy list -/
  ov : Key → Nat → List Nat := fun _ _ => []
  /-- vid, shard id ↦ data nodes holding the shard -/
  ecLoc : Nat → Nat → List Nat := fun _ _ => []
  /-- layouts ever created (GetVolumeLayout), for enumeration only -/
  keys : List Key := []

/-! ## counters -/

/-- NodeImpl.UpAdjustDiskUsageDelta started at the data node `s` -/
def nodeUp (st : St) (s t : Nat) (d : Counts) : St :=
  { st with
    cNode := upd2 st.cNode s t ((st.cNode s t).add d)
    cRack := upd3 st.cRack (st.dcOf s) (st.rackOf s) t ((st.cRack (st.dcOf s) (st.rackOf s) t).add d)
    cDc := upd2 st.cDc (st.dcOf s) t ((st.cDc (st.dcOf s) t).add d)
    cTopo := upd1 st.cTopo t ((st.cTopo t).add d) }

/-- UpAdjustDiskUsageDelta started at disk `t` of server `s` -/
def upAdj (st : St) (s t : Nat) (d : Counts) : St :=
  nodeUp { st with cDisk := upd2 st.cDisk s t ((st.cDisk s t).add d) } s t d

/-- first heartbeat of a stream: GetOrCreateDataCenter/Rack/DataNode -/
def conn (st : St) (s dc rack maxH maxS : Nat) : St :=
  if st.conn s then st else
  let st1 : St := { st with
    conn := upd1 st.conn s true
    dcOf := upd1 st.dcOf s dc
    rackOf := upd1 st.rackOf s rack
    vols := fun x => if x = s then fun _ _ => none else st.vols x
    ecs := fun x => if x = s then fun _ _ => 0 else st.ecs x
    cDisk := fun x => if x = s then fun _ => {} else st.cDisk x
    cNode := fun x => if x = s then fun _ => {} else st.cNode x }
  let st2 := upAdj st1 s 0 { max := maxH }
  if maxS > 0 then upAdj st2 s 1 { max := maxS } else st2

/-- DataNode.AdjustMaxVolumeCounts (one delta per disk type) -/
def adjustMax1 (st : St) (s t m : Nat) : St :=
  if m = 0 then st
  else if (st.cNode s t).max = (m : Int) then st
  else upAdj st s t { max := (m : Int) - (st.cNode s t).max }

def adjustMax (st : St) (s maxH maxS : Nat) : St :=
  if st.conn s then adjustMax1 (adjustMax1 st s 0 maxH) s 1 maxS else st

/-! ## layouts -/

def copyCount (rp : Nat) : Nat := rp / 100 + (rp % 100) / 10 + rp % 10 + 1

/-- DataNode.GetVolumesById -/
def volOf (st : St) (s vid : Nat) : Option VInfo :=
  match st.vols s 0 vid with
  | some v => some v
  | none => st.vols s 1 vid

def locList (st : St) (k : Key) (vid : Nat) : List Nat := (st.locs k vid).getD []

def enoughCopies (st : St) (k : Key) (vid : Nat) : Bool :=
  let n := (locList st k vid).length
  n == copyCount k.rp || (st.asMin && n > copyCount k.rp)

def isAllWritable (st : St) (k : Key) (vid : Nat) : Bool :=
  (locList st k vid).all fun dn =>
    match volOf st dn vid with
    | some v => !v.ro
    | none => true

def removeWritable (st : St) (k : Key) (vid : Nat) : St :=
  { st with wr := updK st.wr k ((st.wr k).erase vid) }

def setWritable (st : St) (k : Key) (vid : Nat) : St :=
  if (st.wr k).contains vid then st else { st with wr := updK st.wr k (st.wr k ++ [vid]) }

def ensureWritables (st : St) (k : Key) (vid : Nat) : St :=
  if enoughCopies st k vid && isAllWritable st k vid then
    (if (st.ov k vid).isEmpty then setWritable st k vid else st)
  else removeWritable st k vid

def touchKey (st : St) (k : Key) : St :=
  if st.keys.contains k then st else { st with keys := st.keys ++ [k] }

/-- VolumeLocationList.Set -/
def setLoc (l : List Nat) (s : Nat) : List Nat := if l.contains s then l else l ++ [s]

/-- Topology.RegisterVolumeLayout = VolumeLayout.RegisterVolume; EnsureCorrectWritables -/
def registerLayout (st : St) (v : VInfo) (s : Nat) : St :=
  let k := v.key
  let st := touchKey st k
  let l := setLoc (locList st k v.id) s
  let st : St := { st with locs := updK2 st.locs k v.id (some l) }
  -- the loop over the location list stops at the first read-only or unknown replica, removing the vid from writables
  let bad := l.any fun dn => match volOf st dn v.id with | some x => x.ro | none => true
  let st := if bad then removeWritable st k v.id else st
  -- deferred rememberOversizedVolume
  let o := st.ov k v.id
  let st : St := { st with ov := updK2 st.ov k v.id (if v.size ≥ st.limit then setLoc o s else o.erase s) }
  ensureWritables st k v.id

/-- Topology.UnRegisterVolumeLayout -/
def unregisterLayout (st : St) (v : VInfo) (s : Nat) : St :=
  let k := v.key
  let st := touchKey st k
  match st.locs k v.id with
  | none => st
  | some l =>
    if l.contains s then
      let l' := l.erase s
      let st : St := { st with locs := updK2 st.locs k v.id (some l'), ov := updK2 st.ov k v.id ((st.ov k v.id).erase s) }
      let st := ensureWritables st k v.id
      if l'.isEmpty then { st with locs := updK2 st.locs k v.id none } else st
    else st

/-- VolumeLayout.SetVolumeUnavailable -/
def setUnavailable (st : St) (v : VInfo) (s : Nat) : St :=
  let k := v.key
  let st := touchKey st k
  match st.locs k v.id with
  | none => st
  | some l =>
    if l.contains s then
      let l' := l.erase s
      let st : St := { st with locs := updK2 st.locs k v.id (some l'), ov := updK2 st.ov k v.id ((st.ov k v.id).erase s) }
      if l'.length < copyCount k.rp then removeWritable st k v.id else st
    else st

/-! ## volumes of a data node -/

def b2i (b : Bool) : Int := if b then 1 else 0

/-- Disk.doAddOrUpdateVolume: (state, isNew, isChangedRO) -/
def addOrUpdate (st : St) (s : Nat) (v : VInfo) : St × Bool × Bool :=
  let t := v.key.disk
  match st.vols s t v.id with
  | none =>
    (upAdj { st with vols := upd3 st.vols s t v.id (some v) } s t { vol := 1, rem := b2i v.remote }, true, false)
  | some old =>
    let st1 := if old.remote != v.remote then upAdj st s t { rem := b2i v.remote - b2i old.remote } else st
    ({ st1 with vols := upd3 st1.vols s t v.id (some v) }, false, old.ro != v.ro)

/-- the volumes registered on server `s` (all disks) -/
def volumesOf (st : St) (s : Nat) : List VInfo :=
  (List.range 2).flatMap fun t => (List.range (st.nVid + 1)).filterMap fun vid => st.vols s t vid

/-- DataNode.UpdateVolumes: (state, new, deleted, changedRO) -/
def updateVolumes (st : St) (s : Nat) (actual : List VInfo) : St × List VInfo × List VInfo × List VInfo :=
  let gone := (volumesOf st s).filter fun v => !(actual.any fun a => a.id == v.id)
  let st1 := gone.foldl (fun st v =>
    upAdj { st with vols := upd3 st.vols s v.key.disk v.id none } s v.key.disk { vol := -1, rem := - b2i v.remote }) st
  let r := actual.foldl (fun (acc : St × List VInfo × List VInfo) v =>
    let (st', isNew, chg) := addOrUpdate acc.1 s v
    (st', if isNew then acc.2.1 ++ [v] else acc.2.1, if chg then acc.2.2 ++ [v] else acc.2.2)) (st1, [], [])
  (r.1, r.2.1, gone, r.2.2)

/-- Topology.SyncDataNodeRegistration (full volume heartbeat) -/
def syncFull (st : St) (s : Nat) (actual : List VInfo) : St :=
  if !st.conn s then st else
  let (st, news, gone, chg) := updateVolumes st s actual
  let st := news.foldl (fun st v => registerLayout st v s) st
  let st := gone.foldl (fun st v => unregisterLayout st v s) st
  chg.foldl (fun st v => ensureWritables (touchKey st v.key) v.key v.id) st

/-- DataNode.DeltaUpdateVolumes: a deletion decrements whether or not the volume is registered,
    and uses the (short) message's remote flag -/
def deltaUpdateVolumes (st : St) (s : Nat) (news dels : List VInfo) : St :=
  let st := dels.foldl (fun st v =>
    upAdj { st with vols := upd3 st.vols s v.key.disk v.id none } s v.key.disk { vol := -1, rem := - b2i v.remote }) st
  news.foldl (fun st v => (addOrUpdate st s v).1) st

/-- Topology.IncrementalSyncDataNodeRegistration -/
def syncInc (st : St) (s : Nat) (news dels : List VInfo) : St :=
  if !st.conn s then st else
  let st := deltaUpdateVolumes st s news dels
  let st := news.foldl (fun st v => registerLayout st v s) st
  dels.foldl (fun st v => unregisterLayout st v s) st

/-! ## EC shards -/

def popAux : Nat → Nat → Nat
  | 0, _ => 0
  | f + 1, n => n % 2 + popAux f (n / 2)
/-- ShardBits.ShardIdCount -/
def popcount (n : Nat) : Nat := popAux 32 n
/-- ShardBits.Minus -/
def bitsMinus (a b : Nat) : Nat := a - (a &&& b)
def shardIds (bits : Nat) : List Nat := (List.range 14).filter fun i => bits.testBit i

def registerEc (st : St) (vid bits s : Nat) : St :=
  (shardIds bits).foldl (fun st sh => { st with ecLoc := upd2 st.ecLoc vid sh (setLoc (st.ecLoc vid sh) s) }) st
def unregisterEc (st : St) (vid bits s : Nat) : St :=
  (shardIds bits).foldl (fun st sh => { st with ecLoc := upd2 st.ecLoc vid sh ((st.ecLoc vid sh).erase s) }) st

/-- the EC volumes registered on `s`: (disk type, vid, bits) -/
def ecOf (st : St) (s : Nat) : List (Nat × Nat × Nat) :=
  (List.range 2).flatMap fun t => (List.range (st.nVid + 1)).filterMap fun vid =>
    if st.ecs s t vid = 0 then none else some (t, vid, st.ecs s t vid)

def hasEc (st : St) (s vid : Nat) : Bool := st.ecs s 0 vid != 0 || st.ecs s 1 vid != 0

/-- the entry of the actual-shards map (last message for a vid wins) -/
def actualBits (actual : List EcInfo) (vid : Nat) : Option Nat :=
  actual.foldl (fun acc e => if e.id = vid then some e.bits else acc) none

/-- DataNode.UpdateEcShards + Topology.SyncDataNodeEcShards (full EC heartbeat) -/
def syncEcFull (st0 : St) (s : Nat) (actual : List EcInfo) : St :=
  if !st0.conn s then st0 else
  -- loop 1: registered EC volumes against the message
  let r1 := (ecOf st0 s).foldl (fun (acc : St × List (Nat × Nat) × List (Nat × Nat)) e =>
    let (t, vid, bits) := e
    match actualBits actual vid with
    | none => (upAdj acc.1 s t { ec := - (popcount bits : Int) }, acc.2.1, acc.2.2 ++ [(vid, bits)])
    | some ab =>
      let a := bitsMinus ab bits
      let d := bitsMinus bits ab
      (upAdj acc.1 s t { ec := (popcount a : Int) - (popcount d : Int) },
       if popcount a > 0 then acc.2.1 ++ [(vid, a)] else acc.2.1,
       if popcount d > 0 then acc.2.2 ++ [(vid, d)] else acc.2.2)) (st0, [], [])
  -- loop 2: EC volumes not registered before
  let r2 := actual.foldl (fun (acc : St × List (Nat × Nat)) e =>
    if hasEc st0 s e.id then acc
    else (upAdj acc.1 s e.disk { ec := (popcount e.bits : Int) }, acc.2 ++ [(e.id, e.bits)])) (r1.1, r1.2.1)
  let st := r2.1
  let news := r2.2
  let dels := r1.2.2
  let st : St :=
    if news.isEmpty && dels.isEmpty then st else
    let cleared : St := { st with ecs := fun x => if x = s then fun _ _ => 0 else st.ecs x }
    actual.foldl (fun st e => { st with ecs := upd3 st.ecs s e.disk e.id e.bits }) cleared
  let st := news.foldl (fun st e => registerEc st e.1 e.2 s) st
  dels.foldl (fun st e => unregisterEc st e.1 e.2 s) st

/-- Disk.AddOrUpdateEcShard -/
def addEc (st : St) (s : Nat) (e : EcInfo) : St :=
  let old := st.ecs s e.disk e.id
  let new := old ||| e.bits
  upAdj { st with ecs := upd3 st.ecs s e.disk e.id new } s e.disk { ec := (popcount new : Int) - (popcount old : Int) }

/-- Disk.DeleteEcShard -/
def delEc (st : St) (s : Nat) (e : EcInfo) : St :=
  let old := st.ecs s e.disk e.id
  if old = 0 then st else
  let new := bitsMinus old e.bits
  upAdj { st with ecs := upd3 st.ecs s e.disk e.id new } s e.disk { ec := (popcount new : Int) - (popcount old : Int) }

/-- Topology.IncrementalSyncDataNodeEcShards -/
def syncEcInc (st : St) (s : Nat) (news dels : List EcInfo) : St :=
  if !st.conn s then st else
  let st := news.foldl (fun st e => addEc st s e) st
  let st := dels.foldl (fun st e => delEc st s e) st
  let st := news.foldl (fun st e => registerEc st e.id e.bits s) st
  dels.foldl (fun st e => unregisterEc st e.id e.bits s) st

/-! ## disconnect, refresh -/

/-- Topology.UnRegisterDataNode -/
def disc (st : St) (s : Nat) : St :=
  if !st.conn s then st else
  let st := (volumesOf st s).foldl (fun st v => setUnavailable st v s) st
  let st := nodeUp st s 0 (st.cNode s 0).neg
  let st := nodeUp st s 1 (st.cNode s 1).neg
  { st with conn := upd1 st.conn s false }

/-- the refresh round: every registered volume at or over the limit goes through SetVolumeCapacityFull -/
def refresh (st : St) (nSrv : Nat) : St :=
  (List.range nSrv).foldl (fun st s =>
    if st.conn s then
      (volumesOf st s).foldl (fun st v => if v.size ≥ st.limit then removeWritable (touchKey st v.key) v.key v.id else st) st
    else st) st

/-! ## operations -/

inductive Op where
  | conn (s dc rack maxH maxS : Nat)
  | max (s maxH maxS : Nat)
  | full (s : Nat) (vols : List VInfo)
  | inc (s : Nat) (news dels : List VInfo)
  | ecfull (s : Nat) (ecs : List EcInfo)
  | ecinc (s : Nat) (news dels : List EcInfo)
  | disc (s : Nat)
  | refresh
deriving Repr

def maxSrv : Nat := 6

def step (st : St) : Op → St
  | .conn s dc rack h ssd => conn st s dc rack h ssd
  | .max s h ssd => adjustMax st s h ssd
  | .full s vs => syncFull st s vs
  | .inc s ns ds => syncInc st s ns ds
  | .ecfull s es => syncEcFull st s es
  | .ecinc s ns ds => syncEcInc st s ns ds
  | .disc s => disc st s
  | .refresh => refresh st maxSrv

def init (limit : Nat) (asMin : Bool) (nVid : Nat) : St := { limit := limit, asMin := asMin, nVid := nVid }

def run (st : St) (ops : List Op) : St := ops.foldl step st

/-- Topology.Lookup("", vid): the first layout that knows the vid answers (even with an empty
    list); otherwise the EC shard map -/
def lookup (st : St) (vid : Nat) : List Nat :=
  match st.keys.findSome? fun k => st.locs k vid with
  | some l => l
  | none => (List.range 14).flatMap fun sh => st.ecLoc vid sh

end SwV.Model.C11
