/-
C16 — model of the ec.balance planner (weed/shell/command_ec_balance.go, command_ec_common.go)
on its in-memory bookkeeping: shard bitmaps per server (`EcShardInfos` of the hdd disk),
`freeEcSlot`, the per-rack free counters, `moveMountedShardToEcNode` in dry-run mode,
`pickNEcShardsToMoveFrom`, and the guards of the across-racks / within-racks / per-rack
balancing steps.  Go map order and `sort.Slice` ties are modelled relationally: the printed
events of the implementation are replayed, every event must pass the model's guard
(`…Ok`), and the bookkeeping after the phase must be the model's.
Core Lean only.
-/
namespace SwV.Model.C16

/-! ### shard bitmaps (`erasure_coding.ShardBits`) -/
def hasBit (b i : Nat) : Bool := b.testBit i
/-- `AddShardId`: b | (1 << i) -/
def addBit (b i : Nat) : Nat := b ||| 2 ^ i
/-- `RemoveShardId`: b &^ (1 << i) -/
def delBit (b i : Nat) : Nat := if b.testBit i then b ^^^ 2 ^ i else b
/-- `ShardIds()`: ids below TotalShardsCount = 14 -/
def shardIds (b : Nat) : List Nat := (List.range 14).filter (hasBit b)
/-- `ShardIdCount()` (bitmaps are below 2^14 in every snapshot we build) -/
def popc (b : Nat) : Nat := (shardIds b).length

def ceilDiv (a b : Nat) : Nat := (a + b - 1) / b

structure ENode where
  id : Nat
  rack : Nat
  free : Int                      -- freeEcSlot
  hdd : Bool                      -- DiskInfos[""] exists
  shards : List (Nat × Nat)       -- (vid, EcIndexBits) in EcShardInfos order
deriving DecidableEq, Repr

structure ESt where
  nodes : List ENode              -- allEcNodes order
  rackFree : List (Nat × Int)     -- EcRack.freeEcSlot
deriving DecidableEq, Repr

/-- `countFreeShardSlots`: (max − active)·10 − shards -/
def freeSlots (hdd : Bool) (max active : Nat) (shards : List (Nat × Nat)) : Int :=
  if hdd then ((max : Int) - active) * 10 - ((shards.map fun s => popc s.2).sum : Nat) else 0

/-- `findEcVolumeShards` -/
def ENode.bits (n : ENode) (vid : Nat) : Nat :=
  if n.hdd then match n.shards.find? (·.1 == vid) with | some s => s.2 | none => 0 else 0
def ENode.hasEntry (n : ENode) (vid : Nat) : Bool := n.hdd && n.shards.any (·.1 == vid)
def ENode.total (n : ENode) : Nat := if n.hdd then (n.shards.map fun s => popc s.2).sum else 0

def setFirst (vid : Nat) (f : Nat → Nat) : List (Nat × Nat) → List (Nat × Nat)
  | [] => []
  | (v, b) :: rest => if v == vid then (v, f b) :: rest else (v, b) :: setFirst vid f rest

/-- `addEcVolumeShards` with one shard id -/
def ENode.add (n : ENode) (vid s : Nat) : ENode :=
  if n.hasEntry vid then
    let old := n.bits vid
    { n with shards := setFirst vid (addBit · s) n.shards, free := n.free - ((popc (addBit old s) : Int) - popc old) }
  else { n with hdd := true, shards := (if n.hdd then n.shards else []) ++ [(vid, 2 ^ s)], free := n.free - 1 }

/-- `deleteEcVolumeShards` with one shard id (every entry of the volume, no break) -/
def ENode.del (n : ENode) (vid s : Nat) : ENode :=
  if !n.hdd then n else
  { n with shards := n.shards.map fun e => if e.1 == vid then (e.1, delBit e.2 s) else e,
           free := n.free + (((n.shards.filter (·.1 == vid)).map fun e => popc e.2 - popc (delBit e.2 s)).sum : Nat) }

def ESt.node? (st : ESt) (id : Nat) : Option ENode := st.nodes.find? (·.id == id)
def ESt.upd (st : ESt) (id : Nat) (f : ENode → ENode) : ESt :=
  { st with nodes := st.nodes.map fun n => if n.id == id then f n else n }

/-- `moveMountedShardToEcNode`, applyBalancing = false -/
def ESt.move (st : ESt) (src dst vid s : Nat) : ESt :=
  (st.upd dst (·.add vid s)).upd src (·.del vid s)

def ESt.racks (st : ESt) : List Nat := st.rackFree.map (·.1)
def ESt.rackFreeOf (st : ESt) (r : Nat) : Int := (st.rackFree.lookup r).getD 0
def ESt.bumpRack (st : ESt) (r : Nat) (d : Int) : ESt :=
  { st with rackFree := st.rackFree.map fun (k, v) => if k == r then (k, v + d) else (k, v) }
def ESt.inRack (st : ESt) (r : Nat) : List ENode := st.nodes.filter (·.rack == r)
/-- shards of `vid` in rack `r` according to the bitmaps -/
def ESt.rackCount (st : ESt) (vid r : Nat) : Nat := ((st.inRack r).map fun n => popc (n.bits vid)).sum

/-! ### duplicates (dry run prints only) -/
def holders (st : ESt) (vid s : Nat) : List ENode := st.nodes.filter fun n => n.hasEntry vid && hasBit (n.bits vid) s

/-- expected `(shard, copies)` notices of `doDeduplicateEcShards` -/
def dedupExpected (st : ESt) (vid : Nat) : List (Nat × Nat) :=
  (List.range 14).filterMap fun s => let h := holders st vid s; if h.length > 1 then some (s, h.length) else none
def dedupKeepOk (st : ESt) (vid s keep : Nat) : Bool :=
  let h := holders st vid s
  match h.find? (·.id == keep) with
  | some k => h.all fun n => decide (k.free ≤ n.free)
  | none => false

/-- `doDeduplicateEcShards` with applyBalancing = true, for one shard id: every holder except `keep`
    (`ecNodes[0]` after `sortEcNodesByFreeslotsAscending`, see `dedupKeepOk`) runs `deleteEcVolumeShards`.
    The dry run only prints, so this branch is outside the differential check; it mirrors the three lines
    of the loop body and is what the dedup theorems of Props/C16.lean are about. -/
def ESt.dedupShard (st : ESt) (vid s keep : Nat) : ESt :=
  if (holders st vid s).length ≤ 1 then st else
  { st with nodes := st.nodes.map fun n =>
      if n.id != keep && (n.hasEntry vid && hasBit (n.bits vid) s) then n.del vid s else n }

/-- the loop over the shard ids: `(shard, keep)` pairs in the order processed; `none` if a `keep` is not
    a holder with the fewest free slots at its turn -/
def dedupRun (vid : Nat) : ESt → List (Nat × Nat) → Option ESt
  | st, [] => some st
  | st, (s, keep) :: rest =>
    if (holders st vid s).length ≤ 1 then dedupRun vid st rest
    else if dedupKeepOk st vid s keep then dedupRun vid (st.dedupShard vid s keep) rest else none

/-! ### across racks -/

/-- insertion into a list sorted by count descending, after the equal ones (stable sort) -/
def insDesc (x : Nat × Nat) : List (Nat × Nat) → List (Nat × Nat)
  | [] => [x]
  | y :: rest => if x.2 > y.2 then x :: y :: rest else y :: insDesc x rest
def sortDesc (l : List (Nat × Nat)) : List (Nat × Nat) := l.foldl (fun acc x => insDesc x acc) []

/-- the second loop of `ensureSortedEcNodes`: the decremented candidate sinks below strictly larger ones -/
def sinkAux (a : Nat × Nat) : List (Nat × Nat) → List (Nat × Nat)
  | [] => [a]
  | b :: rest => if b.2 > a.2 then b :: sinkAux a rest else a :: b :: rest
def sink : List (Nat × Nat) → List (Nat × Nat)
  | a :: rest => sinkAux a rest
  | [] => []

/-- one round of `pickNEcShardsToMoveFrom`: first candidate with live bits gives its lowest shard -/
def pickOne (st : ESt) (vid : Nat) : List (Nat × Nat) → Option (Nat × Nat × List (Nat × Nat))
  | [] => none
  | (id, c) :: rest =>
    match st.node? id with
    | some n =>
      if n.bits vid > 0 then
        match shardIds (n.bits vid) with
        | s :: _ => some (s, id, sink ((id, c - 1) :: rest))
        | [] => some (14, id, (id, c) :: rest)   -- bits only above shard 13: nothing picked
      else (pickOne st vid rest).map fun (s, i, r) => (s, i, (id, c) :: r)
    | none => none

/-- `pickNEcShardsToMoveFrom`: the picks in order, and the bookkeeping after the deletions -/
def pickN (st : ESt) (vid : Nat) (cands : List (Nat × Nat)) : Nat → List (Nat × Nat) × ESt
  | 0 => ([], st)
  | k + 1 =>
    match pickOne st vid cands with
    | none => ([], st)
    | some (s, id, cands') =>
      if s == 14 then pickN st vid cands' k else
      let (ps, st') := pickN (st.upd id (·.del vid s)) vid cands' k
      ((s, id) :: ps, st')

/-- later picks of the same shard id overwrite earlier ones (Go map) -/
def lastOwners (ps : List (Nat × Nat)) : List (Nat × Nat) :=
  ps.foldl (fun acc p => (acc.filter (·.1 != p.1)) ++ [p]) []

structure Across where
  vid : Nat
  avg : Nat
  counts : List (Nat × Int)        -- rackToShardCount (planner counters)
  todo : List (Nat × List Nat)     -- shard ↦ possible owners (one per over-full rack)
  st : ESt

def Across.count (a : Across) (r : Nat) : Int := (a.counts.lookup r).getD 0
def Across.bump (a : Across) (r : Nat) (d : Int) : Across :=
  { a with counts := if a.counts.any (·.1 == r) then a.counts.map fun (k, v) => if k == r then (k, v + d) else (k, v)
                     else a.counts ++ [(r, d)] }

/-- start of `doBalanceEcShardsAcrossRacks`: counters, picks (deleted from the bitmaps at once) -/
def acrossStart (st : ESt) (vid : Nat) : Across :=
  let avg := ceilDiv 14 st.racks.length
  let locs := st.nodes.filter (·.hasEntry vid)
  let rks := st.racks.filter fun r => locs.any (·.rack == r)
  let counts : List (Nat × Int) := rks.map fun r => (r, ((locs.filter (·.rack == r)).map fun n => popc (n.bits vid)).sum)
  let (todo, st') := rks.foldl (fun (acc : List (Nat × List Nat) × ESt) r =>
      let c := ((locs.filter (·.rack == r)).map fun n => popc (n.bits vid)).sum
      if c > avg then
        let cands := sortDesc (((locs.filter (·.rack == r)).map fun n => (n.id, popc (n.bits vid))).filter (·.2 > 0))
        let (ps, s') := pickN acc.2 vid cands (c - avg)
        let merged := (lastOwners ps).foldl (fun (t : List (Nat × List Nat)) (p : Nat × Nat) =>
          if t.any (·.1 == p.1) then t.map fun (k, o) => if k == p.1 then (k, o ++ [p.2]) else (k, o) else t ++ [(p.1, [p.2])]) acc.1
        (merged, s')
      else acc) (([] : List (Nat × List Nat)), st)
  { vid := vid, avg := avg, counts := counts, todo := todo, st := st' }

/-- `pickOneRack` may return rack r -/
def Across.eligible (a : Across) (r : Nat) : Bool := decide (a.count r < a.avg) && decide (a.st.rackFreeOf r > 0)

/-- the guard of `pickOneEcNodeAndMoveOneShard` for destination `d` among `cands` -/
def destOk (cands : List ENode) (avg : Nat) (vid src : Nat) (d : ENode) : Bool :=
  let qual (n : ENode) : Bool := n.id != src && decide (n.free > 0) && decide (popc (n.bits vid) < avg)
  qual d && cands.all fun n => !(decide (n.free > d.free) && qual n)

def Across.owns (a : Across) (s node : Nat) : Bool := a.todo.any fun (k, o) => k == s && o.contains node
def Across.done (a : Across) (s : Nat) : Across := { a with todo := a.todo.filter (·.1 != s) }

/-- "can not find a destination rack" -/
def Across.noRackOk (a : Across) (s node : Nat) : Bool := a.owns s node && a.st.racks.all fun r => !a.eligible r

def Across.moveOk (a : Across) (src s dst : Nat) : Bool :=
  match a.st.node? dst with
  | some d => a.owns s src && a.eligible d.rack && destOk (a.st.inRack d.rack) a.avg a.vid src d
  | none => false

def Across.applyMove (a : Across) (src s dst : Nat) : Across :=
  match a.st.node? src, a.st.node? dst with
  | some sn, some d =>
    let a1 := ((a.bump d.rack 1).bump sn.rack (-1)).done s
    { a1 with st := ((a.st.move src dst a.vid s).bumpRack d.rack (-1)).bumpRack sn.rack 1 }
  | _, _ => a

/-! ### within racks -/

def ESt.hddIn (st : ESt) (r : Nat) : List ENode := (st.inRack r).filter (·.hdd)
/-- averageShardsPerEcNode of `balanceEcShardsWithinRacks` for (vid, rack) -/
def withinAvg (st : ESt) (vid r : Nat) : Nat := ceilDiv (st.rackCount vid r) (st.hddIn r).length

def withinMoveOk (st : ESt) (avg vid src s dst : Nat) : Bool :=
  match st.node? src, st.node? dst with
  | some sn, some d => d.rack == sn.rack && d.hdd && hasBit (sn.bits vid) s && destOk (st.hddIn sn.rack) avg vid src d
  | _, _ => false

/-- an announced shard stays: no server of the rack qualifies -/
def withinStayOk (st : ESt) (avg vid src : Nat) : Bool :=
  match st.node? src with
  | some sn => (st.hddIn sn.rack).all fun n => !(n.id != src && decide (n.free > 0) && decide (popc (n.bits vid) < avg))
  | none => false

/-! ### per-rack balancing (`doBalanceEcRack`) -/

def rackAvg (st : ESt) (r : Nat) : Nat := ceilDiv (((st.inRack r).map (·.total)).sum) (st.inRack r).length

/-- first EcShardInfo of `full` whose volume `empty` has no entry for, and its lowest shard -/
def rackPick (full empty : ENode) : Option (Nat × Nat) :=
  if !full.hdd then none else
  match full.shards.find? fun e => !(empty.hasEntry e.1) with
  | some (vid, b) => match shardIds b with | s :: _ => some (vid, s) | [] => none
  | none => none

def rackMoveDue (st : ESt) (empty full : ENode) : Option (Nat × Nat) :=
  let avg := rackAvg st full.rack
  if full.total > avg && empty.total + 1 ≤ avg then rackPick full empty else none

def rackPairOk (st : ESt) (empty full : ENode) : Bool :=
  let ns := st.inRack full.rack
  empty.rack == full.rack && empty.id != full.id && ns.length > 1 &&
  ns.all fun n => decide (n.free ≤ empty.free) && decide (full.free ≤ n.free)

def rackMoveOk (st : ESt) (src vid s dst : Nat) : Bool :=
  match st.node? src, st.node? dst with
  | some f, some e => rackPairOk st e f && rackMoveDue st e f == some (vid, s)
  | _, _ => false

/-- some tie resolution ends the loop of every rack -/
def rackStopOk (st : ESt) : Bool :=
  st.racks.all fun r =>
    let ns := st.inRack r
    ns.length ≤ 1 || ns.any fun e => ns.any fun f => rackPairOk st e f && (rackMoveDue st e f).isNone

end SwV.Model.C16
