/-
C28 — executable model of S3 objects and multipart uploads (seaweedfs 2.59):

  * object contents are symbolic: a list of segments of the harness' byte streams
    (`stream seed`), so reads are compared by length and an order-sensitive checksum;
  * `PutObjectPartHandler` / `CopyObjectPartHandler` store part n as the filer entry
    `fmt.Sprintf("%04d.part", n)` below `.uploads/<id>` (`partName`), refused above `globalMaxPartID`;
  * `completeMultipartUpload` lists that directory (NAME order = byte order of the store, `ltB`)
    and concatenates the chunks of the `.part` entries, accumulating offsets (`complete`, `layout`);
    the filer cuts every uploaded stream into chunks of `chunkSize` (1 MiB in the harness);
  * range reads (`bytes=a-b`, clipped at the end, 416 from the end on), copy, single delete
    (the filer deletes recursively) and batch delete (non-recursive, names cleaned by `util.JoinPath`).
-/
import SwV.Model.C19
namespace SwV.Model.C28
open SwV.Model.C19 (Bytes ltB)

/-! ### part naming -/

def digit (d : Nat) : Nat := 48 + d

/-- `%04d`: at least four decimal digits, zero padded -/
def pad4 (n : Nat) : Bytes :=
  if n < 10000 then [digit (n / 1000), digit (n / 100 % 10), digit (n / 10 % 10), digit (n % 10)]
  else (Nat.toDigits 10 n).map Char.toNat

def partSuffix : Bytes := [46, 112, 97, 114, 116]   -- ".part"

def partName (n : Nat) : Bytes := pad4 n ++ partSuffix

/-- the limit checked by the handlers (`partID > globalMaxPartID` is refused); tied to the source by a bridge theorem -/
def maxPartID : Nat := 100000

/-! ### symbolic contents -/

structure Seg where
  seed : Nat
  off : Nat
  len : Nat
deriving Repr, DecidableEq

def streamByte (seed i : Nat) : Nat := (seed * 31 + i * 7 + (i / 256) * 13 + (i / 65536) * 101) % 256

def cks (acc b : Nat) : Nat := (acc * 257 + b + 1) % 1000000007

def segFold (seed : Nat) : Nat → Nat → Nat → Nat
  | 0, _, acc => acc
  | n + 1, i, acc => segFold seed n (i + 1) (cks acc (streamByte seed i))

def checksum (segs : List Seg) : Nat := segs.foldl (fun acc s => segFold s.seed s.len s.off acc) 0

def size (segs : List Seg) : Nat := (segs.map (·.len)).sum

/-- bytes [a, a+n) of a content -/
def slice : List Seg → Nat → Nat → List Seg
  | [], _, _ => []
  | s :: rest, a, n =>
    if n = 0 then []
    else if a ≥ s.len then slice rest (a - s.len) n
    else
      let take := min n (s.len - a)
      ⟨s.seed, s.off + a, take⟩ :: slice rest 0 (n - take)

/-! ### multipart -/

structure Part where
  no : Nat
  data : List Seg
deriving Repr, DecidableEq

/-- parts as the filer directory lists them: ordered by entry NAME -/
def insertByName (p : Part) : List Part → List Part
  | [] => [p]
  | x :: xs =>
    if ltB (partName p.no) (partName x.no) then p :: x :: xs
    else if partName p.no = partName x.no then p :: xs      -- re-upload overwrites
    else x :: insertByName p xs

/-- parts in ascending part NUMBER (what the property demands) -/
def insertByNo (p : Part) : List Part → List Part
  | [] => [p]
  | x :: xs =>
    if p.no < x.no then p :: x :: xs
    else if p.no = x.no then p :: xs
    else x :: insertByNo p xs

def concatParts (ps : List Part) : List Seg := ps.flatMap (·.data)

def chunkSize : Nat := 1048576

/-- chunk sizes of one uploaded stream of length n -/
def chunksOf : Nat → Nat → List Nat
  | 0, _ => []
  | fuel + 1, n => if n = 0 then [] else if n ≤ chunkSize then [n] else chunkSize :: chunksOf fuel (n - chunkSize)

/-- `offset += chunk.Size` over the parts' chunks in listing order -/
def layoutFrom : Nat → List Nat → List (Nat × Nat)
  | _, [] => []
  | off, c :: cs => (off, c) :: layoutFrom (off + c) cs

def layout (ps : List Part) : List (Nat × Nat) :=
  layoutFrom 0 (ps.flatMap fun p => chunksOf 64 (size p.data))

/-! ### namespace -/

def slash : Nat := 47

def splitSlash : Bytes → List Bytes
  | [] => [[]]
  | c :: cs =>
    match splitSlash cs with
    | [] => [[c]]
    | s :: rest => if c = slash then [] :: s :: rest else (c :: s) :: rest

/-- segments of a name after `filepath.Join` cleaning (no "." / ".." in this property's inputs) -/
def cleanSegs (s : Bytes) : List Bytes := (splitSlash s).filter (· ≠ [])

structure Obj where
  key : List Bytes
  data : List Seg
deriving Repr, DecidableEq

structure Upload where
  name : String
  key : Bytes
  parts : List Part       -- kept in NAME order
deriving Repr

structure St where
  objs : List Obj := []
  ups : List Upload := []
deriving Repr

def isUnder (dir k : List Bytes) : Bool := dir.length ≤ k.length && k.take dir.length == dir

def putObj (st : St) (k : List Bytes) (d : List Seg) : St :=
  { st with objs := ⟨k, d⟩ :: st.objs.filter fun o => o.key ≠ k }

def findObj (st : St) (k : List Bytes) : Option Obj := st.objs.find? fun o => o.key == k

/-- Where the filer stores a PUT / copy destination `k` (`saveMetaData`):
    * some object is a proper ancestor of `k` ("… is a file", 409 → the gateway answers 500): refused;
    * `k` names an existing directory: the data is stored INSIDE it, as `k/<last segment of k>`;
    * otherwise at `k`. -/
def putTarget (st : St) (k : List Bytes) : Option (List Bytes) :=
  if st.objs.any (fun o => o.key.length < k.length && isUnder o.key k) then none
  else if st.objs.any (fun o => k.length < o.key.length && isUnder k o.key) then
    match k.getLast? with
    | some l => some (k ++ [l])
    | none => none
  else some k

/-- `mkFile` of a completed upload goes through gRPC CreateEntry: both conflicts are refused -/
def completeAllowed (st : St) (k : List Bytes) : Bool :=
  !(st.objs.any fun o => (o.key.length < k.length && isUnder o.key k) || (k.length < o.key.length && isUnder k o.key))

/-- single DELETE: the filer deletes the entry and everything below it -/
def delRecursive (st : St) (k : List Bytes) : St :=
  if k = [] then st else { st with objs := st.objs.filter fun o => !isUnder k o.key }

/-- batch delete of one name: non-recursive delete of the cleaned path -/
def delExact (st : St) (k : List Bytes) : St :=
  { st with objs := st.objs.filter fun o => o.key ≠ k }

/-- the empty-folder purge after a batch delete (`doDeleteEmptyDirectories`): the parent "directory" of every
    deleted (or absent) name is deleted non-recursively, then its parent, … — a parent that is an OBJECT is
    deleted too; a non-empty directory stops the walk -/
def purgeUp : Nat → St → List Bytes → St
  | 0, st, _ => st
  | fuel + 1, st, anc =>
    if anc = [] then st
    else if (findObj st anc).isSome then purgeUp fuel (delExact st anc) anc.dropLast
    else if st.objs.any (fun o => isUnder anc o.key) then st
    else purgeUp fuel st anc.dropLast

/-- batch delete of one name, with the purge that follows it -/
def delBatchName (st : St) (k : List Bytes) : St := purgeUp 16 (delExact st k) k.dropLast

/-! ### copy -/

/-- what `CopyObjectHandler` streams into the destination: it GETs the source URL from the filer
    (`util.DownloadFile`, which reports transport errors only) and hands the response BODY to `putToFiler`
    without looking at the response status. -/
inductive CopyBody where
  | bytes (d : List Seg)   -- an existing object: its bytes
  | empty404               -- no such entry: the filer answers 404 with an empty body, which is stored as a 0-byte object
  | listingPage            -- the source names a directory: the filer's directory listing page is stored (bytes not modelled)
deriving Repr, DecidableEq

def copyBody (st : St) (src : List Bytes) : CopyBody :=
  match findObj st src with
  | some ob => .bytes ob.data
  | none => if st.objs.any (fun o => src.length < o.key.length && isUnder src o.key) then .listingPage else .empty404

/-- marker segment standing for bytes the model does not predict (the filer's listing page) -/
def opaqueSeg : Seg := ⟨4294967295, 0, 0⟩

def isOpaque (d : List Seg) : Bool := d.any (· == opaqueSeg)

def CopyBody.data : CopyBody → List Seg
  | .bytes d => d
  | .empty404 => []
  | .listingPage => [opaqueSeg]

/-- CopyObject src → dst as the code does it: `none` = refused by the filer (destination below an object),
    otherwise the new state and the key the data was stored under (see `putTarget`) -/
def copyObj (st : St) (src dst : List Bytes) : Option (St × List Bytes) :=
  match putTarget st dst with
  | none => none
  | some t => some (putObj st t (copyBody st src).data, t)

end SwV.Model.C28
