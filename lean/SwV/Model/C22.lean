/-
C22 — model of weed/util/log_buffer (log_buffer.go, sealed_buffer.go, log_read.go) and of the
subscribe loop of weed/server/filer_grpc_server_sub_meta.go over it, as atomic steps.

Times are `Int` nanoseconds relative to the Unix epoch; Go's zero `time.Time{}` (year 1) is the
constant `zeroT`, which is smaller than every `time.Unix(0, int64)`.  A buffer is the list of the
timestamps of its entries plus the number of bytes used (`pos`) and the length of its byte slice
(`cap`): the payload bytes never influence the mechanism, only the marshalled size does
(`entrySize`).  Entry identity = timestamp (`AddToBuffer` makes timestamps strictly increasing).

The fields `log` (every appended timestamp, in order) and `dropped` (the entries whose sealed
buffer has been recycled) are GHOST fields: no mechanism function reads them.

Core Lean only.
-/
namespace SwV.Model.C22

/-- `time.Time{}` -/
def zeroT : Int := -62135596800000000000

/-- length of a protobuf varint (64-bit values: at most 10 bytes, hence the fuel) -/
def varintLen : Nat → Nat → Nat
  | 0, _ => 1
  | f + 1, n => if n < 128 then 1 else 1 + varintLen f (n / 128)

/-- `len(proto.Marshal(&filer_pb.LogEntry{TsNs: ts, PartitionKeyHash: hash, Data: data}))`
    (proto3: zero values are omitted; a negative int32 travels as a 10-byte varint) -/
def entrySize (hash : Int) (ts dlen : Nat) : Nat :=
  (if ts = 0 then 0 else 1 + varintLen 10 ts)
  + (if hash = 0 then 0 else if hash < 0 then 11 else 1 + varintLen 10 hash.toNat)
  + (if dlen = 0 then 0 else 1 + varintLen 10 dlen + dlen)

/-- the current buffer (`buf/pos/startTime/stopTime`) or one `MemBuffer` -/
structure Buf where
  ents : List Nat := []
  pos : Nat := 0
  cap : Nat := 0
  start : Int := zeroT
  stop : Int := zeroT
deriving Repr, DecidableEq

/-- `dataToFlush` -/
structure Flush where
  start : Int
  stop : Int
  ents : List Nat
deriving Repr, DecidableEq

structure Cfg where
  hash : Int        -- util.HashToInt32(partitionKey)
  bufSize : Nat     -- BufferSize
  prevCount : Nat   -- PreviousBufferCount
  interval : Int    -- flushInterval in ns
deriving Repr, DecidableEq

structure LB where
  cfg : Cfg
  cur : Buf
  prev : List Buf                 -- prevBuffers.buffers, oldest first
  lastTs : Nat := 0               -- lastTsNs
  lastFlush : Int := zeroT        -- lastFlushTime
  queue : List Flush := []        -- flushChan (the nil items are invisible: loopFlush skips them)
  inflight : Option Flush := none -- flushFn has made this one readable on disk and has not returned yet
  disk : List Nat := []           -- persisted entries, in flush order
  log : List Nat := []            -- ghost
  dropped : List Nat := []        -- ghost
deriving Repr, DecidableEq

def init (cfg : Cfg) : LB :=
  { cfg := cfg, cur := { cap := cfg.bufSize }, prev := List.replicate cfg.prevCount { cap := cfg.bufSize } }

/-- `copyToFlush` + `SealedBuffers.SealBuffer` (after the fix: the byte slice of the OLDEST sealed
    buffer becomes the new current buffer). -/
def copyToFlush (s : LB) : LB :=
  if s.cur.pos > 0 then
    match s.prev with
    | [] => s
    | old :: rest =>
      { s with queue := s.queue ++ [⟨s.cur.start, s.cur.stop, s.cur.ents⟩]
               prev := rest ++ [s.cur]
               cur := { ents := [], pos := 0, cap := old.cap, start := 0, stop := 0 }
               dropped := s.dropped ++ old.ents }
  else s

/-- "this is unlikely to happen, but just in case": `if m.lastTsNs >= eventTsNs { eventTsNs = m.lastTsNs + 1 }` -/
def fixTs (s : LB) (ets : Nat) : Nat := if s.lastTs ≥ ets then s.lastTs + 1 else ets

/-- `m.lastTsNs = eventTsNs` and `if m.pos == 0 { m.startTime = ts }` -/
def stamp (s : LB) (ts : Nat) : LB :=
  { s with lastTs := ts, cur := if s.cur.pos = 0 then { s.cur with start := ts } else s.cur }

/-- `m.startTime.Add(m.flushInterval).Before(ts) || len(m.buf)-m.pos < size+4` -/
def needRotate (s : LB) (ts size : Nat) : Bool :=
  decide (s.cur.start + s.cfg.interval < ts ∨ s.cur.cap - s.cur.pos < size + 4)

/-- `m.flushChan <- m.copyToFlush(); m.startTime = ts; if len(m.buf) < size+4 { m.buf = make([]byte, 2*size+4) }` -/
def rotate (s : LB) (ts size : Nat) : LB :=
  let s' := copyToFlush s
  { s' with cur := { s'.cur with start := ts, cap := if s'.cur.cap < size + 4 then 2 * size + 4 else s'.cur.cap } }

/-- `m.stopTime = ts`, append to `idx`, copy the size-prefixed entry, `m.pos += size + 4` -/
def put (s : LB) (ts size : Nat) : LB :=
  { s with cur := { s.cur with stop := ts, ents := s.cur.ents ++ [ts], pos := s.cur.pos + size + 4 }
           log := s.log ++ [ts] }

/-- `AddToBuffer(partitionKey, data, eventTsNs)` with `eventTsNs ≠ 0`, `len(data) = dlen` -/
def add (s : LB) (ets dlen : Nat) : LB :=
  let ts := fixTs s ets
  let size := entrySize s.cfg.hash ts dlen
  let s1 := stamp s ts
  let s2 := if needRotate s1 ts size then rotate s1 ts size else s1
  put s2 ts size

/-- one iteration of `loopInterval` -/
def sealNow (s : LB) : LB := copyToFlush s

/-- `loopFlush` takes the next item and `flushFn` makes it readable on disk -/
def fwrite (s : LB) : LB :=
  match s.inflight, s.queue with
  | none, f :: q => { s with queue := q, inflight := some f, disk := s.disk ++ f.ents }
  | _, _ => s

/-- `flushFn` returns: `m.lastFlushTime = d.stopTime` -/
def fack (s : LB) : LB :=
  match s.inflight with
  | some f => { s with inflight := none, lastFlush := f.stop }
  | none => s

inductive RR where
  | resume            -- ResumeFromDiskError
  | nil               -- (nil, nil)
  | buf (l : List Nat)
deriving Repr, DecidableEq

/-- `MemBuffer.locateByTs`: linear scan to the first entry with `t > lastReadTs` -/
def locate (ents : List Nat) (T : Int) : List Nat := ents.dropWhile (fun t => decide ((t : Int) ≤ T))

/-- the loop over `m.prevBuffers.buffers` in `ReadFromBuffer`, falling through to the whole current buffer -/
def scanPrev : List Buf → Int → List Nat → List Nat
  | [], _, cur => cur
  | b :: rest, T, cur =>
    if b.start > T then b.ents
    else if ¬ (b.start > T) ∧ b.stop > T then locate b.ents T
    else scanPrev rest T cur

/-- the binary search of `ReadFromBuffer` over `m.idx` (index of the first entry to return) -/
def bsearch (ts : List Nat) (T : Int) : Nat → Nat → Nat → Option Nat
  | 0, _, _ => none
  | f + 1, l, h =>
    if l ≤ h then
      let mid := (l + h) / 2
      let t := ts.getD mid 0
      if (t : Int) ≤ T then bsearch ts T f (mid + 1) h
      else
        let prevT := if mid > 0 then ts.getD (mid - 1) 0 else 0
        if (prevT : Int) ≤ T then some mid else bsearch ts T f l mid
    else none

/-- `ReadFromBuffer(lastReadTime)` -/
def readFrom (s : LB) (T : Int) : RR :=
  if s.lastFlush ≠ zeroT ∧ s.lastFlush > T then .resume
  else if T = s.cur.stop then .nil
  else if T > s.cur.stop then .nil
  else if T < s.cur.start then .buf (scanPrev s.prev T s.cur.ents)
  else if s.cur.ents = [] then .nil
  else
    match bsearch s.cur.ents T (2 * s.cur.ents.length + 2) 0 (s.cur.ents.length - 1) with
    | some mid => .buf (s.cur.ents.drop mid)
    | none => .nil   -- "FIXME: this could be that the buffer has been flushed already"

/-- a subscriber: the loop of `SubscribeLocalMetadata` cut at its blocking points -/
structure Rd where
  t0 : Int              -- req.SinceNs
  T : Int               -- lastReadTime
  onDisk : Bool := true -- the next step is `ReadPersistedLogBuffer`
  lastResume : Bool := false  -- readInMemoryLogErr == ResumeFromDiskError
  got : List Nat := []  -- everything handed to eachLogEntryFn so far
deriving Repr, DecidableEq

def lastOr (l : List Nat) (T : Int) : Int :=
  match l.getLast? with
  | some x => x
  | none => T

/-- `ReadPersistedLogBuffer` / `ReadEachLogEntry`: every persisted entry with `TsNs > ns` -/
def diskRead (s : LB) (T : Int) : List Nat := s.disk.filter (fun t => decide (T < (t : Int)))

/-- `LoopProcessLogData` until it would block (`waitForDataFn`) or returns ResumeFromDiskError -/
def memLoop (s : LB) : Nat → Rd → Rd
  | 0, r => { r with lastResume := false }
  | f + 1, r =>
    match readFrom s r.T with
    | .resume => { r with lastResume := true, onDisk := true }
    | .nil => { r with lastResume := false }
    | .buf l => memLoop s f { r with T := lastOr l r.T, got := r.got ++ l }

def memFuel (s : LB) : Nat := s.prev.length + 3

def rstep (s : LB) (r : Rd) : Rd :=
  if r.onDisk then
    let l := diskRead s r.T
    if l ≠ [] then { r with T := lastOr l r.T, onDisk := false, got := r.got ++ l }
    else if r.lastResume then r
    else { r with onDisk := false }
  else memLoop s (memFuel s) r

structure Sys where
  lb : LB
  rds : List Rd := []
deriving Repr, DecidableEq

inductive Op where
  | add (ts dlen : Nat)
  | sealNow
  | fwrite
  | fack
  | newReader (T : Int)
  | rstep (i : Nat)
deriving Repr, DecidableEq

def modifyAt (f : Rd → Rd) : List Rd → Nat → List Rd
  | [], _ => []
  | r :: rs, 0 => f r :: rs
  | r :: rs, i + 1 => r :: modifyAt f rs i

def step (s : Sys) : Op → Sys
  | .add ts dlen => { s with lb := add s.lb ts dlen }
  | .sealNow => { s with lb := sealNow s.lb }
  | .fwrite => { s with lb := fwrite s.lb }
  | .fack => { s with lb := fack s.lb }
  | .newReader T => { s with rds := s.rds ++ [{ t0 := T, T := T }] }
  | .rstep i => { s with rds := modifyAt (rstep s.lb) s.rds i }

def run (s : Sys) : List Op → Sys
  | [] => s
  | o :: os => run (step s o) os

end SwV.Model.C22
