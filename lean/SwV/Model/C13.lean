/-
C13 model: the sequencers of weed/sequence and Topology.NextVolumeId as ATOMIC-STEP machines.

* MemorySequencer (memory_sequencer.go): `NextFileId` and `SetMax` hold the mutex, so each call is
  one atomic step over a uint64 counter (wrap-around arithmetic mod 2^64, as in Go).
* EtcdSequencer (etcd_sequencer.go): an operation (`NextFileId`, `SetMax`, the constructor) is a
  sequence of atomic key/value steps against etcd (Get / Set-if-prev / Create), interleaved in any
  order with the steps of other instances (old and new leader) and subject to injected failures.
  The program counter `Pc` says which key/value call the instance issues next.
* Topology.NextVolumeId (topology.go, cluster_commands.go): read max; raft Do; apply.
Core Lean only.
-/
namespace SwV.Model.C13

def W : Nat := 2 ^ 64

/-! ## memory sequencer -/

structure Mem where
  counter : Nat
deriving Repr, DecidableEq

def Mem.new : Mem := ⟨1⟩

/-- `ret := m.counter; m.counter += count` -/
def Mem.next (m : Mem) (count : Nat) : Nat × Mem := (m.counter, ⟨(m.counter + count) % W⟩)

/-- `if m.counter <= seenValue { m.counter = seenValue + 1 }` -/
def Mem.setMax (m : Mem) (seen : Nat) : Mem :=
  if m.counter ≤ seen then ⟨(seen + 1) % W⟩ else m

/-! ## etcd sequencer -/

def DefaultEtcdSteps : Nat := 500

/-- which caller runs the `setMaxSequenceToEtcd` loop -/
inductive Ctx where
  | setMax   -- EtcdSequencer.SetMax
  | new      -- the constructor
deriving Repr, DecidableEq

inductive Pc where
  | idle
  | bGet (count req : Nat)            -- batchGetSequenceFromEtcd: about to Get
  | bSet (count req prev : Nat)       -- … about to Set prev → prev+req (PrevValue = prev)
  | sGet (c : Ctx) (maxSeq : Nat)     -- setMaxSequenceToEtcd: about to Get
  | sCreate (c : Ctx) (maxSeq : Nat)  -- … key not found: about to Create maxSeq
  | sSet (c : Ctx) (maxSeq prev : Nat)-- … about to Set prev → maxSeq (PrevValue = prev)
deriving Repr, DecidableEq

structure Inst where
  alive : Bool := false
  cur : Nat := 0      -- currentSeqId
  max : Nat := 0      -- maxSeqId
  pc : Pc := .idle
  slot : Nat := 0     -- which sequence file (metaFolder) the instance uses
deriving Repr, DecidableEq

/-- what an operation returned -/
inductive Ret where
  | key (k : Nat) (count : Nat)   -- NextFileId returned k for `count` keys
  | failKey (count : Nat)         -- NextFileId returned 0 because etcd failed
  | unit                          -- SetMax finished
  | newOk | newErr                -- constructor finished
deriving Repr, DecidableEq

structure ESt where
  kv : Option Nat := none             -- value of /master/sequence in etcd
  inst : Nat → Inst := fun _ => {}
  files : Nat → Option Nat := fun _ => none   -- persisted max per sequence file

def setInst (s : ESt) (i : Nat) (x : Inst) : ESt :=
  { s with inst := fun k => if k = i then x else s.inst k }
def setFile (s : ESt) (f : Nat) (v : Nat) : ESt :=
  { s with files := fun k => if k = f then some v else s.files k }

inductive Op where
  | next (count : Nat)
  | setMax (seen : Nat)
  | new (slot : Nat)
deriving Repr, DecidableEq

/-- outcome of one step: the operation continues (blocked at its next key/value call) or is done -/
inductive Out where
  | cont
  | done (r : Ret)
  | invalid
deriving Repr, DecidableEq

/-- `estart`: the local code up to the first key/value call -/
def start (s : ESt) (i : Nat) (op : Op) : ESt × Out :=
  let x := s.inst i
  if x.pc ≠ .idle then (s, .invalid) else
  match op with
  | .new slot =>
    -- openSequenceFile creates the file with "1:1" when it does not exist; readSequenceFile
    let s1 := match s.files slot with
      | some _ => s
      | none => setFile s slot 1
    let maxValue := (s1.files slot).getD 1
    (setInst s1 i { alive := false, cur := 0, max := 0, pc := .sGet .new maxValue, slot := slot }, .cont)
  | .next count =>
    if !x.alive then (s, .invalid) else
    if x.cur + count ≥ x.max then
      let req := if count > DefaultEtcdSteps then DefaultEtcdSteps + count else DefaultEtcdSteps
      (setInst s i { x with pc := .bGet count req }, .cont)
    else
      (setInst s i { x with cur := x.cur + count }, .done (.key x.cur count))
  | .setMax seen =>
    if !x.alive then (s, .invalid) else
    if seen > x.max then (setInst s i { x with pc := .sGet .setMax seen }, .cont)
    else (s, .done .unit)

/-- description of the key/value call an instance is blocked at, with its result (trace tokens) -/
inductive KvEv where
  | getErr | getNone | getVal (v : Nat)
  | set (prev new : Nat) (res : Nat)   -- res: 0 ok, 1 casfail, 2 err
  | create (v : Nat) (res : Nat)       -- res: 0 ok, 1 exists, 2 err
deriving Repr, DecidableEq

/-- the `setMaxSequenceToEtcd` loop returned: value or error -/
def finishSet (s : ESt) (i : Nat) (x : Inst) (c : Ctx) (r : Option Nat) : ESt × Out :=
  match c, r with
  | .setMax, some v =>
    -- es.currentSeqId, es.maxSeqId = maxId, maxId ; writeSequenceFile(maxId)
    (setFile (setInst s i { x with cur := v, max := v, pc := .idle }) x.slot v, .done .unit)
  | .setMax, none => (setInst s i { x with pc := .idle }, .done .unit)
  | .new, some v => (setInst s i { x with alive := true, cur := v, max := v, pc := .idle }, .done .newOk)
  | .new, none => (setInst s i { x with alive := false, pc := .idle }, .done .newErr)

/-- `kv i fault`: instance i performs the key/value call it is blocked at (atomically), then runs
    its local code up to the next call or the end of the operation -/
def kvStep (s : ESt) (i : Nat) (fault : Bool) : ESt × Option KvEv × Out :=
  let x := s.inst i
  match x.pc with
  | .idle => (s, none, .invalid)
  | .bGet count req =>
    if fault then (setInst s i { x with pc := .idle }, some .getErr, .done (.failKey count)) else
    match s.kv with
    | none => (setInst s i { x with pc := .idle }, some .getNone, .done (.failKey count))
    | some v => (setInst s i { x with pc := .bSet count req v }, some (.getVal v), .cont)
  | .bSet count req prev =>
    if fault then (setInst s i { x with pc := .bGet count req }, some (.set prev (prev + req) 2), .cont) else
    if s.kv = some prev then
      -- es.currentSeqId, es.maxSeqId = maxId-reqSteps, maxId ; write file ; ret := cur ; cur += count
      let s1 := { s with kv := some (prev + req) }
      let s2 := setInst s1 i { x with cur := prev + count, max := prev + req, pc := .idle }
      (setFile s2 x.slot (prev + req), some (.set prev (prev + req) 0), .done (.key prev count))
    else (setInst s i { x with pc := .bGet count req }, some (.set prev (prev + req) 1), .cont)
  | .sGet c m =>
    if fault then
      let (s', o) := finishSet s i x c none
      (s', some .getErr, o)
    else
    match s.kv with
    | none => (setInst s i { x with pc := .sCreate c m }, some .getNone, .cont)
    | some p =>
      if p ≥ m then
        let (s', o) := finishSet s i x c (some p)
        (s', some (.getVal p), o)
      else (setInst s i { x with pc := .sSet c m p }, some (.getVal p), .cont)
  | .sCreate c m =>
    if fault then
      let (s', o) := finishSet s i x c none
      (s', some (.create m 2), o)
    else
    match s.kv with
    | none => (setInst { s with kv := some m } i { x with pc := .sGet c m }, some (.create m 0), .cont)
    | some _ => (setInst s i { x with pc := .sGet c m }, some (.create m 1), .cont)
  | .sSet c m p =>
    if fault then
      let (s', o) := finishSet s i x c none
      (s', some (.set p m 2), o)
    else if s.kv = some p then
      (setInst { s with kv := some m } i { x with pc := .sGet c m }, some (.set p m 0), .cont)
    else
      let (s', o) := finishSet s i x c none
      (s', some (.set p m 1), o)

/-! ## volume ids -/

structure VSt where
  max : Nat := 0
  /-- per thread: the id carried by the MaxVolumeIdCommand it is about to have applied -/
  pend : Nat → Option Nat := fun _ => none

/-- `vid := t.GetMaxVolumeId(); next := vid.Next()` then blocked in `RaftServer.Do` -/
def vStart (s : VSt) (t : Nat) : VSt × Option Nat :=
  match s.pend t with
  | some _ => (s, none)
  | none => ({ s with pend := fun k => if k = t then some (s.max + 1) else s.pend k }, some (s.max + 1))

/-- raft applies the command (`UpAdjustMaxVolumeId`) or `Do` fails; result: returned id if any -/
def vApply (s : VSt) (t : Nat) (fault : Bool) : VSt × Option (Option Nat) :=
  match s.pend t with
  | none => (s, none)
  | some nx =>
    let clr : Nat → Option Nat := fun k => if k = t then none else s.pend k
    if fault then ({ s with pend := clr }, some none)
    else ({ max := if s.max < nx then nx else s.max, pend := clr }, some (some nx))

/-- a heartbeat registers a volume with id m (or the replicated max is restored) -/
def vHb (s : VSt) (m : Nat) : VSt := { s with max := if s.max < m then m else s.max }

/-! ## etcd sequencer with the uint64 arithmetic of the Go code

`start` / `kvStep` above compute with unbounded naturals.  The Go code computes in uint64 and CAN wrap:
`count` is client supplied (`/dir/assign?count=`), `seenValue` comes from a heartbeat.  `startW` / `kvStepW`
are the same machines with every uint64 addition/subtraction reduced mod 2^64 — these are the functions
the correspondence check runs against the real `EtcdSequencer`.  Where nothing wraps they coincide with
the unbounded ones (`startW_eq`, `kvStepW_eq` in Lemmas/C13W). -/

/-- `NextFileId`: `if (es.currentSeqId + count) >= es.maxSeqId { reqSteps := DefaultEtcdSteps; if count > DefaultEtcdSteps { reqSteps += count } … }`
    and `ret := es.currentSeqId; es.currentSeqId += count`, in uint64 -/
def startW (s : ESt) (i : Nat) (op : Op) : ESt × Out :=
  match op with
  | .next count =>
    let x := s.inst i
    if x.pc ≠ .idle then (s, .invalid) else
    if !x.alive then (s, .invalid) else
    if (x.cur + count) % W ≥ x.max then
      let req := if count > DefaultEtcdSteps then (DefaultEtcdSteps + count) % W else DefaultEtcdSteps
      (setInst s i { x with pc := .bGet count req }, .cont)
    else
      (setInst s i { x with cur := (x.cur + count) % W }, .done (.key x.cur count))
  | _ => start s i op

/-- `batchGetSequenceFromEtcd`: `endSeqValue = prevSeqValue + step`; then
    `es.currentSeqId, es.maxSeqId = maxId-reqSteps, maxId`, in uint64 -/
def kvStepW (s : ESt) (i : Nat) (fault : Bool) : ESt × Option KvEv × Out :=
  let x := s.inst i
  match x.pc with
  | .bSet count req prev =>
    let nw := (prev + req) % W
    if fault then (setInst s i { x with pc := .bGet count req }, some (.set prev nw 2), .cont) else
    if s.kv = some prev then
      let c0 := (nw + W - req) % W
      let s1 := { s with kv := some nw }
      let s2 := setInst s1 i { x with cur := (c0 + count) % W, max := nw, pc := .idle }
      (setFile s2 x.slot nw, some (.set prev nw 0), .done (.key c0 count))
    else (setInst s i { x with pc := .bGet count req }, some (.set prev nw 1), .cont)
  | _ => kvStep s i fault

/-! ## a heartbeat on a (new) leader, as two atomic steps

`MasterServer.SendHeartbeat` handles one received heartbeat by (a) `ms.Topo.Sequence.SetMax(heartbeat.MaxFileKey)`
and (b) registering the heartbeat's volumes in the topology (`SyncDataNodeRegistration` /
`IncrementalSyncDataNodeRegistration` → `RegisterVolumeLayout`), after which `Assign` can pick them.
Neither step runs under a lock shared with `Assign`, so an assign can run between the two. -/

structure MSt where
  seq : Mem                 -- the leader's sequencer (a new leader starts at 1)
  writable : List Nat := [] -- volume ids an assign can pick
deriving Repr, DecidableEq

structure Heartbeat where
  maxFileKey : Nat          -- largest needle key in any of the server's volumes
  vols : List Nat           -- its volumes
deriving Repr, DecidableEq

inductive HbStep where
  | setMax
  | register
deriving Repr, DecidableEq

def hbStep (hb : Heartbeat) (s : MSt) : HbStep → MSt
  | .setMax => { s with seq := s.seq.setMax hb.maxFileKey }
  | .register => { s with writable := s.writable ++ hb.vols }

/-- `Topology.PickForWrite`: a writable volume gets the next key; `none` = "no writable volumes" (the handler retries) -/
def assign (s : MSt) (vid count : Nat) : Option (Nat × MSt) :=
  if s.writable.contains vid then some ((s.seq.next count).1, { s with seq := (s.seq.next count).2 }) else none

/-- the order of the two steps in `SendHeartbeat` (bridged to the source by `bridge_hb_order`) -/
def hbOrder : List HbStep := [.setMax, .register]

/-- run the first `k` steps of the heartbeat, then one assign -/
def assignAfter (order : List HbStep) (hb : Heartbeat) (s : MSt) (k vid count : Nat) : Option (Nat × MSt) :=
  assign ((order.take k).foldl (hbStep hb) s) vid count

/-- every grant `(vid, key)` of a one-key assign on a volume of the heartbeat that can run before, between or
    after the steps of the heartbeat (k = 0 … number of steps), each from the same pre-state — what the client
    goroutines of the harness op `hbrace` sample from the real handler -/
def hbGrants (order : List HbStep) (hb : Heartbeat) (s : MSt) : List (Nat × Nat) :=
  (List.range (order.length + 1)).flatMap fun k =>
    hb.vols.filterMap fun vid => (assignAfter order hb s k vid 1).map fun r => (vid, r.1)

/-- how many of them carry a key that is not above the heartbeat's max key (the `below` output of `hbrace`) -/
def hbBelow (order : List HbStep) (hb : Heartbeat) (s : MSt) : Nat :=
  ((hbGrants order hb s).filter fun g => decide (g.2 ≤ hb.maxFileKey)).length

end SwV.Model.C13
