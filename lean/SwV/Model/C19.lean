/-
C19 — executable model of directory listing (seaweedfs 2.59):

  * an ordered byte-key store (`Db`, strictly sorted by `ltB` = bytewise order, what goleveldb's
    default comparer implements; trusted base) with `seek` = `NewIterator(Range{Start})`;
  * the key builders of weed/filer/leveldb (`dir 00 name`), leveldb2 and leveldb3
    (`md5(dir) name`; md5 is an oracle table supplied by the harness, leveldb3 keeps one
    database per bucket: `findDB`);
  * each store's `ListDirectoryPrefixedEntries` loop (`scan`): start key, stop at the first key
    without the directory+name prefix, empty-name skip, exclusive start, limit;
  * `FilerStoreWrapper.prefixFilterEntries` (generic path of stores that answer
    `ErrUnsupportedListDirectoryPrefixed`) — `prefixFilter`;
  * `Filer.doListDirectoryEntries` (expired entries are deleted and counted),
    `doListValidEntries` (expired refill loop), `doListPatternMatchedEntries` (missed count),
    `StreamListDirectoryEntries` (missed refill loop), `splitPattern`;
  * `filepath.Match` restricted to literals, `*`, `?` over single-byte characters (`glob`).

Every listing callback in this chain returns `true`, so a store listing is modelled as the list
of entries it hands to its callback.
-/
namespace SwV.Model.C19

abbrev Bytes := List Nat

/-- bytewise lexicographic `<` (bytes.Compare < 0) -/
def ltB : Bytes → Bytes → Bool
  | [], [] => false
  | [], _ :: _ => true
  | _ :: _, [] => false
  | a :: as, b :: bs => if a < b then true else if b < a then false else ltB as bs

/-- `isPrefix p k` = bytes.HasPrefix(k, p) -/
def isPrefix : Bytes → Bytes → Bool
  | [], _ => true
  | _ :: _, [] => false
  | a :: as, b :: bs => if a = b then isPrefix as bs else false

/-- one stored entry: its key and whether `TtlSec`/`Crtime` make it expired (the value is abstract) -/
structure Ent where
  key : Bytes
  expired : Bool
deriving Repr, DecidableEq

abbrev Db := List Ent

/-- Put: ordered insert, same key overwrites -/
def dbPut (e : Ent) : Db → Db
  | [] => [e]
  | x :: xs =>
    if ltB e.key x.key then e :: x :: xs
    else if e.key = x.key then e :: xs
    else x :: dbPut e xs

def dbDel (k : Bytes) (db : Db) : Db := db.filter fun x => decide (x.key ≠ k)

/-- iterator positioned at the first key ≥ start -/
def seek (start : Bytes) (db : Db) : Db := db.dropWhile fun e => ltB e.key start

/-! ### key builders -/

/-- leveldb: `getNameFromKey` = bytes after the last 0x00 -/
def nameAfterLastNul (k : Bytes) : Bytes :=
  (k.reverse.takeWhile fun b => decide (b ≠ 0)).reverse

/-- leveldb2/3: `key[md5.Size:]` -/
def nameAfterMd5 (k : Bytes) : Bytes := k.drop 16

inductive Kind | leveldb | leveldb2 | leveldb3 | mem
deriving Repr, DecidableEq

def Kind.nameOf : Kind → Bytes → Bytes
  | .leveldb | .mem => nameAfterLastNul
  | _ => nameAfterMd5

def Kind.native : Kind → Bool
  | .mem => false
  | _ => true

def lookupMd5 (tbl : List (Bytes × Bytes)) (s : Bytes) : Bytes :=
  match tbl.find? fun p => decide (p.1 = s) with
  | some p => p.2
  | none => List.replicate 16 0

def bucketsPrefix : Bytes := [47, 98, 117, 99, 107, 101, 116, 115, 47]   -- "/buckets/"

/-- leveldb3 `findDB(dir, isForChildren = true)`: (database name, path used for hashing) -/
def findDB (dir : Bytes) : Bytes × Bytes :=
  if isPrefix bucketsPrefix dir then
    let rest := dir.drop bucketsPrefix.length
    match rest.findIdx? (· = 47) with
    | none => (rest, [47])
    | some 0 => (rest, [47])
    | some t => (rest.take t, rest.drop t)
  else ([], dir)

/-- (database name, directory key prefix) — `genDirectoryKeyPrefix(dir, "")` -/
def dirKey (k : Kind) (md5s : List (Bytes × Bytes)) (dir : Bytes) : Bytes × Bytes :=
  match k with
  | .leveldb | .mem => ([], dir ++ [0])
  | .leveldb2 => ([], lookupMd5 md5s dir)
  | .leveldb3 => let (dbn, sp) := findDB dir; (dbn, lookupMd5 md5s sp)

/-! ### the store loop -/

/-- body of `for iter.Next()` of `ListDirectoryPrefixedEntries`; `dp` = directory key + name prefix.
    Result: the (name, expired) pairs handed to the callback. -/
def scan (nameOf : Bytes → Bytes) (dp start : Bytes) (incl : Bool) : Db → Nat → List (Bytes × Bool)
  | [], _ => []
  | e :: rest, limit =>
    if isPrefix dp e.key then
      if nameOf e.key = [] then scan nameOf dp start incl rest limit
      else if nameOf e.key = start ∧ incl = false then scan nameOf dp start incl rest limit
      else match limit with
        | 0 => []
        | l + 1 => (nameOf e.key, e.expired) :: scan nameOf dp start incl rest l
    else []

/-- `lastFileName` of a store listing: the last name handed out, "" if none -/
def lastName (l : List (Bytes × Bool)) : Bytes :=
  match l.getLast? with
  | some x => x.1
  | none => []

/-- a store's `ListDirectoryPrefixedEntries(dir, start, incl, limit, prefix)` on database `db`,
    `dk` = the directory's key prefix -/
def storeList (nameOf : Bytes → Bytes) (dk : Bytes) (db : Db) (start : Bytes) (incl : Bool) (limit : Nat)
    (pfx : Bytes) : List (Bytes × Bool) :=
  scan nameOf (dk ++ pfx) start incl (seek (if start = [] then dk ++ pfx else dk ++ start) db) limit

/-- delete the expired entries of a page (`f.Store.DeleteOneEntry` inside the callback) -/
def delExpired (dk : Bytes) (page : List (Bytes × Bool)) (db : Db) : Db :=
  page.foldl (fun d p => if p.2 then dbDel (dk ++ p.1) d else d) db

/-! ### generic path: `prefixFilterEntries` (after the `fix:` commits: `lastFileName` = the last
entry the filter loop examined) -/

/-- the `for count < limit && len(notPrefixed) > 0` loop; `page` = notPrefixed, `need` = limit - count.
    Returns the entries emitted, the final lastFileName and database. -/
def prefixFilterLoop (nameOf : Bytes → Bytes) (dk pfx : Bytes) (limit : Nat) :
    Nat → Db → List (Bytes × Bool) → Nat → Bytes → List (Bytes × Bool) × Bytes × Db
  | 0, db, _, _, last => ([], last, db)
  | fuel + 1, db, page, need, last =>
    if need = 0 ∨ page = [] then ([], last, db) else
    let hit := (page.filter fun p => isPrefix pfx p.1).take need
    let db' := delExpired dk hit db
    if hit.length < need then
      -- the whole page was examined; refill after its last name
      let last1 := lastName page
      let page' := storeList nameOf dk db' last1 false limit []
      let (r, last', db'') := prefixFilterLoop nameOf dk pfx limit fuel db' page' (need - hit.length) last1
      (hit ++ r, last', db'')
    else (hit, lastName hit, db')

/-- `doListDirectoryEntries` below the expiry filter: entries handed to the filer's callback -/
def dirList (k : Kind) (dk : Bytes) (db : Db) (start : Bytes) (incl : Bool) (limit : Nat) (pfx : Bytes) :
    List (Bytes × Bool) × Bytes × Db :=
  if k.native ∨ pfx = [] then
    let l := storeList k.nameOf dk db start incl limit pfx
    (l, lastName l, delExpired dk l db)
  else
    let page := storeList k.nameOf dk db start incl limit []
    prefixFilterLoop k.nameOf dk pfx limit (db.length + 2) db page limit (lastName page)

/-! ### the filer layers -/

/-- `doListValidEntries`: expired refill loop. Result (live names handed on, lastFileName, db). -/
def listValid (k : Kind) (dk pfx : Bytes) : Nat → Db → Bytes → Bool → Nat → List Bytes × Bytes × Db
  | 0, db, _, _, _ => ([], [], db)
  | fuel + 1, db, start, incl, limit =>
    let (l, last, db') := dirList k dk db start incl limit pfx
    let live := (l.filter fun p => !p.2).map (·.1)
    let expiredCount := l.countP (·.2)
    if expiredCount = 0 then (live, last, db')
    else
      let (r, last', db'') := listValid k dk pfx fuel db' last false expiredCount
      (live ++ r, last', db'')

/-- `filepath.Match` for patterns of literals, `*` (42) and `?` (63) over single-byte characters -/
def glob : Bytes → Bytes → Bool
  | [], n => n.isEmpty
  | c :: p, n =>
    if c = 42 then (List.range (n.length + 1)).any fun i => glob p (n.drop i)
    else match n with
      | [] => false
      | x :: n' => (c = 63 ∨ c = x) && glob p n'

/-- `splitPattern` -/
def splitPattern (pattern : Bytes) : Bytes × Bytes :=
  match pattern.findIdx? (· = 42) with
  | some i => (pattern.take i, pattern.drop i)
  | none =>
    match pattern.findIdx? (· = 63) with
    | some i => (pattern.take i, pattern.drop i)
    | none => ([], [])

/-- the per-entry test of `doListPatternMatchedEntries`: true = handed to the caller, false = missed -/
def passes (pfx rest excl : Bytes) (name : Bytes) : Bool :=
  if excl ≠ [] ∧ glob excl name then false
  else if rest ≠ [] ∧ !glob rest (name.drop pfx.length) then false
  else true

/-- `StreamListDirectoryEntries` after `splitPattern`: the missed-count refill loop -/
def streamLoop (k : Kind) (dk pfx rest excl : Bytes) : Nat → Db → Bytes → Bool → Nat → Option (List Bytes × Bytes × Db)
  | 0, _, _, _, _ => none
  | fuel + 1, db, start, incl, limit =>
    let (o, last, db') := listValid k dk pfx (db.length + 2) db start incl limit
    let out := o.filter (passes pfx rest excl)
    let missed := o.length - out.length
    if missed = 0 then some (out, last, db')
    else match streamLoop k dk pfx rest excl fuel db' last false missed with
      | some (r, last', db'') => some (out ++ r, last', db'')
      | none => none

structure Req where
  start : Bytes
  incl : Bool
  limit : Nat
  pfx : Bytes
  pattern : Bytes
  excl : Bytes
deriving Repr

/-- the name prefix the listing really uses -/
def effPrefix (r : Req) : Bytes :=
  if (splitPattern r.pattern).1 ≠ [] then (splitPattern r.pattern).1 else r.pfx

/-- `Filer.StreamListDirectoryEntries` on one database. `none` = the model ran out of fuel. -/
def stream (k : Kind) (dk : Bytes) (db : Db) (r : Req) : Option (List Bytes × Bytes × Db) :=
  streamLoop k dk (effPrefix r) (splitPattern r.pattern).2 r.excl ((db.length + 3) * (db.length + 3)) db r.start r.incl r.limit

end SwV.Model.C19
