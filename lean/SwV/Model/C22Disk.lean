/-
C22 — model of the PERSISTED-LOG path of the metadata subscription (weed/filer/filer_notify.go):

* `Filer.logFlushFunc` appends the bytes of a flushed buffer to the segment file
  `/topics/.system/log/<YYYY-MM-DD>/<HH-MM>.segment` named after the minute of the buffer's START
  time (`appendToFile`: the file is created or gets one more chunk).
* `Filer.ReadPersistedLogBuffer(startTime, fn)` lists the day directories from the start DATE on
  (at most 366), lists the segment files of each day, SKIPS the files of the start date whose name
  sorts before the start HOUR-MINUTE, and runs `ReadEachLogEntry` (entries with TsNs > start) over
  every other file; it returns the `lastTsNs` of the LAST file it read (0 if that file delivered
  nothing).

A segment file is (day number, minute of the day, timestamps of its entries).  Day and minute are
numbers: the names are fixed-width, zero-padded decimal, so the store's name order is the numeric
order (validated by the correspondence check: `dls` prints the real listing order).
Core Lean only.
-/
import SwV.Model.C22
namespace SwV.Model.C22

def nsPerMinute : Nat := 60000000000
def minutesPerDay : Nat := 1440

/-- `t.UTC().Year/Month/Day` as a day number since the epoch -/
def dayOf (ts : Nat) : Nat := ts / nsPerMinute / minutesPerDay
/-- `t.UTC().Hour()*60 + Minute()` -/
def hmOf (ts : Nat) : Nat := ts / nsPerMinute % minutesPerDay

structure Seg where
  day : Nat
  hm : Nat
  ents : List Nat
deriving Repr, DecidableEq

/-- name order of (day directory, segment file) -/
def keyLt (d h d' h' : Nat) : Bool := decide (d < d' ∨ (d = d' ∧ h < h'))

/-- `appendToFile(targetFile, buf)`: the file with that name gets the entries appended, a new file
    is created at its place in the name order -/
def appendSeg : List Seg → Nat → Nat → List Nat → List Seg
  | [], d, h, ents => [⟨d, h, ents⟩]
  | F :: rest, d, h, ents =>
    if F.day = d ∧ F.hm = h then { F with ents := F.ents ++ ents } :: rest
    else if keyLt d h F.day F.hm then ⟨d, h, ents⟩ :: F :: rest
    else F :: appendSeg rest d h ents

/-- `logFlushFunc(startTime, stopTime, buf)` -/
def logFlush (files : List Seg) (f : Flush) : List Seg :=
  if f.ents = [] then files else appendSeg files (dayOf f.start.toNat) (hmOf f.start.toNat) f.ents

/-- the day directories listed: names ≥ the start date, at most 366 -/
def listDays (files : List Seg) (d0 : Nat) : List Nat :=
  (((files.map (·.day)).filter (fun d => decide (d0 ≤ d))).eraseDups).take 366

/-- the segment files `ReadPersistedLogBuffer` reads, in order -/
def selected (files : List Seg) (T : Int) : List Seg :=
  let d0 := dayOf T.toNat
  let h0 := hmOf T.toNat
  let days := listDays files d0
  files.filter (fun F => days.contains F.day && !(decide (F.day = d0) && decide (F.hm < h0)))

/-- `ReadEachLogEntry` over one file -/
def readSeg (T : Int) (F : Seg) : List Nat := F.ents.filter (fun t => decide (T < (t : Int)))

/-- `ReadPersistedLogBuffer(time.Unix(0,T), fn)`: (entries handed to fn, lastTsNs) -/
def persistedRead (files : List Seg) (T : Int) : List Nat × Nat :=
  let sel := selected files T
  (sel.flatMap (readSeg T),
   match sel.getLast? with
   | some F => (match (readSeg T F).getLast? with | some x => x | none => 0)
   | none => 0)

/-- everything that is persisted, in listing order -/
def persisted (files : List Seg) : List Nat := files.flatMap (·.ents)

/-- the log buffer together with the segment files its production flush function has written -/
structure DLB where
  lb : LB
  files : List Seg := []
deriving Repr, DecidableEq

/-- `loopFlush` takes the next sealed buffer, `logFlushFunc` persists it and returns
    (`lastFlushTime = stopTime`) -/
def flushOne (d : DLB) : DLB :=
  match d.lb.inflight, d.lb.queue with
  | none, f :: _ => { lb := fack (fwrite d.lb), files := logFlush d.files f }
  | _, _ => d

def drain : Nat → DLB → DLB
  | 0, d => d
  | n + 1, d => drain n (flushOne d)

/-- the flush keeps up: after every append / interval seal all sealed buffers are persisted -/
def settle (d : DLB) : DLB := drain d.lb.queue.length d

/-- one step of a subscriber whose disk phase is `ReadPersistedLogBuffer`:
    `if processedTsNs != 0 { lastReadTime = processedTsNs } else if lastErr == ResumeFromDiskError { continue }` -/
def rstepD (d : DLB) (r : Rd) : Rd :=
  if r.onDisk then
    let (l, last) := persistedRead d.files r.T
    if last ≠ 0 then { r with T := last, onDisk := false, got := r.got ++ l }
    else if r.lastResume then { r with got := r.got ++ l }
    else { r with onDisk := false, got := r.got ++ l }
  else memLoop d.lb (memFuel d.lb) r

structure DSys where
  d : DLB
  rds : List Rd := []
deriving Repr, DecidableEq

inductive DOp where
  | add (ts dlen : Nat)
  | sealNow
  | newReader (T : Int)
  | rstep (i : Nat)
deriving Repr, DecidableEq

def dstep (s : DSys) : DOp → DSys
  | .add ts dlen => { s with d := settle { s.d with lb := add s.d.lb ts dlen } }
  | .sealNow => { s with d := settle { s.d with lb := sealNow s.d.lb } }
  | .newReader T => { s with rds := s.rds ++ [{ t0 := T, T := T }] }
  | .rstep i => { s with rds := modifyAt (rstepD s.d) s.rds i }

def drun (s : DSys) : List DOp → DSys
  | [] => s
  | o :: os => drun (dstep s o) os

def dstart (cfg : Cfg) : DSys := { d := { lb := init cfg } }

end SwV.Model.C22
