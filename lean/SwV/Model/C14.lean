/-
C14 model: ONE master vacuum round over one volume (weed/topology/topology_vacuum.go
`vacuumOneVolumeLayout` → `batchVacuumVolumeCheck/Compact/Commit/Cleanup`) as a function of the
layout state and the per-replica, per-phase outcomes. Outputs: the RPCs issued to every replica (in
order) and whether the volume is in the layout's `writables` afterwards
(`removeFromWritable` / `SetVolumeAvailable` of weed/topology/volume_layout.go).
Core Lean only.
-/
namespace SwV.Model.C14

inductive Chk where
  | ok        -- garbage ratio ≥ threshold
  | low       -- below threshold
  | err
  | timeout
deriving Repr, DecidableEq

inductive Cmp where
  | ok | err | timeout
deriving Repr, DecidableEq

inductive Cmt where
  | ok        -- committed
  | ro        -- committed, the volume server answers IsReadOnly
  | err
deriving Repr, DecidableEq

inductive Rpc where
  | check | compact | commit | cleanup
deriving Repr, DecidableEq

/-- one replica: what the master knows about it (from heartbeats) and how it will answer -/
structure Rep where
  ro : Bool        -- VolumeInfo.ReadOnly
  ov : Bool        -- size ≥ volumeSizeLimit (oversized)
  chk : Chk
  cmp : Cmp
  cmt : Cmt
  cleanupOk : Bool := true
deriving Repr, DecidableEq

structure Layout where
  copyCount : Nat          -- rp.GetCopyCount()
  reps : List Rep          -- vid2location[vid] (replicationAsMin = false)
deriving Repr

/-- `enoughCopies` -/
def Layout.enough (l : Layout) : Bool := l.reps.length == l.copyCount
/-- `readonlyVolumes.IsTrue(vid)`: some copy is read-only -/
def Layout.readOnly (l : Layout) : Bool := l.reps.any (·.ro)
def Layout.oversized (l : Layout) : Bool := l.reps.any (·.ov)

/-- in `writables` after the heartbeats registered every replica (`ensureCorrectWritables`) -/
def Layout.writableBefore (l : Layout) : Bool := l.enough && !l.readOnly && !l.oversized

/-- `batchVacuumVolumeCheck`: the replicas above the threshold, and whether to vacuum -/
def vacuumList (l : Layout) : List Rep := l.reps.filter (·.chk == .ok)
def needVacuum (l : Layout) : Bool :=
  l.reps.all (fun r => r.chk == .ok || r.chk == .low) && !(vacuumList l).isEmpty

/-- `batchVacuumVolumeCompact` result -/
def compactOk (l : Layout) : Bool := (vacuumList l).all (·.cmp == .ok)
/-- `batchVacuumVolumeCommit` result -/
def commitOk (l : Layout) : Bool := (vacuumList l).all (·.cmt != .err)
def commitSaysReadOnly (l : Layout) : Bool := (vacuumList l).any (·.cmt == .ro)

/-- does the round go past the read-only test and the check phase -/
def vacuums (l : Layout) : Bool := !l.readOnly && needVacuum l

/-- the RPCs replica `r` receives, in order -/
def rpcs (l : Layout) (r : Rep) : List Rpc :=
  if l.readOnly then [] else
  [.check] ++
  (if needVacuum l && r.chk == .ok then
     [.compact] ++ (if compactOk l then [.commit] else [.cleanup])
   else [])

/-- in `writables` after the round -/
def writableAfter (l : Layout) : Bool :=
  if !vacuums l then l.writableBefore
  else
    -- batchVacuumVolumeCompact: removeFromWritable(vid)
    if compactOk l && commitOk l then
      -- SetVolumeAvailable(dn, vid, isReadOnly) for every dn of the vacuum list:
      -- `vInfo.ReadOnly || isReadOnly` → no; `enoughCopies` → setVolumeWritable
      !commitSaysReadOnly l && l.enough
    else false

end SwV.Model.C14
