/-
C04 — compaction of a volume: executable model (core Lean only).  Extends the C01 volume model
(record log + needle index) and the C09 lifetime predicates (`readable`, `vacuumDrops`).

Mirrors, decision by decision:
  weed/storage/volume_vacuum.go   Compact  → copyDataAndGenerateIndexFile / VolumeFileScanner4Vacuum.VisitNeedle
                                    (TTL filter first; "the live map points at this offset, Size > 0")
                                  Compact2 → copyDataBasedOnIndexFile (MemDb.LoadFromIdx of the .idx FILE, ascending visit,
                                    ReadData, TTL filter)
                                  CommitCompact → makeupDiff (last .idx entry per key behind lastCompactIndexOffset;
                                    `!offset.IsZero() && size != 0 && size.IsValid()` ⇒ copy, else fake tombstone with idx
                                    offset 0; revision checks) → rename → Volume.load
  weed/storage/needle_map/memdb.go  MemDb.Set/Delete/LoadFromIdx/SaveToIdx (ordered map: `mset`, `mdel`)
  weed/storage/volume_checking.go   CheckAndFixVolumeDataIntegrity → verifyNeedleIntegrity on the LAST .idx entry:
                                    `fileSize > fileTailOffset` ⇒ the .dat is TRUNCATED behind that record
  weed/storage/needle_map_memory.go doLoading      (size 0 / offset 0 / tombstone ⇒ CompactMap.Delete: negates a live size)
  weed/storage/needle_map_leveldb.go generateLevelDbFile (… ⇒ the key is removed)
  weed/storage/volume_read.go       readNeedle, TTL tail (C09.readable)

State = C01.Vol (record log, in-memory needle map) + AppendAtNs per record + the .idx FILE as a list
of entries + the compaction revision + the files of a compaction in flight (.cpd/.cpx).  Offsets are
record positions (1-based; 0 = super block), as in C01.  Clocks (`nowSec` for the vacuum filter,
`nowNs` for appends and reads) are parameters.
-/
import SwV.Model.C01
import SwV.Model.C09
namespace SwV.Model.C04
open SwV.Model.C01
open SwV.Model.C08 (TTL ttlMinutes)

/-- one 16-byte entry of the .idx file -/
structure IEnt where
  key  : Nat
  off  : Nat
  size : Int
deriving DecidableEq, Repr

inductive Kind | mem | ldb
deriving DecidableEq, Repr

/-- .cpd / .cpx of a compaction in flight + `lastCompactIndexOffset` (in entries) + `lastCompactRevision` -/
structure Snap where
  log    : List Rec
  ats    : List Nat
  cpx    : List IEnt
  idxLen : Nat
  rev    : Nat

structure CVol where
  v    : Vol := {}
  ats  : List Nat := []          -- AppendAtNs of each record of `v.log`
  ilog : List IEnt := []         -- the .idx file
  rev  : Nat := 0                -- SuperBlock.CompactionRevision
  kind : Kind := .mem
  snap : Option Snap := none

def CVol.init (kind : Kind) (ttl : Nat × Nat) : CVol := { v := Vol.init ttl, kind := kind }

def atOf (ats : List Nat) (off : Nat) : Nat := ats.getD (off - 1) 0

def volTtlOf (v : Vol) : TTL := ⟨v.volTtl.1, v.volTtl.2⟩

/-- the lifetime fields of a stored record (C09's view of a needle) -/
def needleOf (c : Content) (at_ : Nat) : SwV.Model.C09.Needle :=
  ⟨c.fl.hasTtl, ⟨c.ttl.1, c.ttl.2⟩, c.fl.hasLm, c.lm, at_⟩

/-! ## ordinary operations (C01 steps + the .idx file + AppendAtNs + the TTL tail of reads) -/

/-- `readNeedle`: C01's read followed by the TTL tail (only reached when data was read) -/
def readT (s : CVol) (nowNs : Nat) (id ck : Nat) : ROut :=
  match readStep s.v id ck with
  | .ok n ck' sz c =>
    if 0 < sz then
      match s.v.idx id with
      | some e => if SwV.Model.C09.readable (needleOf c (atOf s.ats e.off)) nowNs then .ok n ck' sz c else .notfound
      | none => .ok n ck' sz c
    else .ok n ck' sz c
  | o => o

/-- what a reader gets: cookie and content of a readable blob -/
def view (s : CVol) (nowNs : Nat) (id : Nat) : Option (Nat × Content) :=
  match readT s nowNs id 0 with
  | .ok _ ck _ c => some (ck, c)
  | _ => none

/-- the .idx entry appended by an operation that appended a record at `off`:
    write ⇒ `nm.Put(id, off, size)` iff the map now points at `off`; delete ⇒ `nm.Delete(id, off)` = (id, off, -1) -/
def idxAppend (v' : Vol) (off : Nat) : Op → List IEnt
  | .write id _ _ =>
    match v'.idx id with
    | some e => if e.off = off then [⟨id, off, e.size⟩] else []
    | none => []
  | .delete id _ => [⟨id, off, -1⟩]
  | .hdelete id _ => [⟨id, off, -1⟩]
  | _ => []

def opStep (s : CVol) (nowNs : Nat) (op : Op) : CVol × MOut :=
  let r := step s.v op
  let o := match op with
    | .read id ck => .r (readT s nowNs id ck)
    | _ => r.2
  if r.1.log.length = s.v.log.length then ({ s with v := r.1 }, o)
  else ({ s with v := r.1, ats := s.ats ++ [nowNs], ilog := s.ilog ++ idxAppend r.1 (s.v.log.length + 1) op }, o)

def runOps (s : CVol) : List (Nat × Op) → CVol
  | [] => s
  | (t, op) :: ops => runOps (opStep s t op).1 ops

/-! ## MemDb: an ordered map key ↦ entry -/

def mset : List IEnt → IEnt → List IEnt
  | [], e => [e]
  | x :: xs, e => if e.key < x.key then e :: x :: xs else if e.key = x.key then e :: xs else x :: mset xs e

def mdel : List IEnt → Nat → List IEnt
  | [], _ => []
  | x :: xs, k => if x.key = k then mdel xs k else x :: mdel xs k

def mget : List IEnt → Nat → Option IEnt
  | [], _ => none
  | x :: xs, k => if x.key = k then some x else mget xs k

/-- `MemDb.LoadFromIdx`: offset 0 or a deleted size removes the key, anything else sets it -/
def loadFromIdx (ilog : List IEnt) : List IEnt :=
  ilog.foldl (fun m e => if e.off = 0 ∨ e.size < 0 then mdel m e.key else mset m e) []

/-- last entry of a key in an .idx file -/
def lastFor (l : List IEnt) (k : Nat) : Option IEnt :=
  l.foldl (fun acc e => if e.key = k then some e else acc) none

/-! ## the two copy phases -/

/-- the .dat file as the scanner sees it: (offset, record, AppendAtNs) -/
def olog (s : CVol) : List (Nat × Rec × Nat) :=
  (s.v.log.zipIdx 1).map fun p => (p.2, p.1, atOf s.ats p.2)

/-- the vacuum TTL filter (C09.vacuumDrops: LastModified + VOLUME ttl, uint32 product) -/
def dropsTtl (s : CVol) (nowSec : Nat) (r : Rec) (at_ : Nat) : Bool :=
  SwV.Model.C09.vacuumDrops (volTtlOf s.v) (needleOf r.c at_) nowSec

/-- `VisitNeedle`: records that survive `Compact` -/
def keepScan (s : CVol) (nowSec : Nat) : List (Nat × Rec × Nat) :=
  (olog s).filter fun p =>
    !dropsTtl s nowSec p.2.1 p.2.2 &&
    (match s.v.idx p.2.1.id with
     | some e => e.off == p.1 && decide (0 < e.size)
     | none => false)

/-- `copyDataBasedOnIndexFile`: records that survive `Compact2`, in ascending key order -/
def keepIdx (s : CVol) (nowSec : Nat) : List (Nat × Rec × Nat) :=
  (loadFromIdx s.ilog).filterMap fun (e : IEnt) =>
    if e.off = 0 ∨ e.size < 0 then none else
    match recAt s.v.log e.off with
    | none => none
    | some r =>
      if ¬ (r.size = e.size) then none                          -- ReadData: ErrorSizeMismatch
      else if dropsTtl s nowSec r (atOf s.ats e.off) then none
      else some (e.off, r, atOf s.ats e.off)

/-- the new MemDb (`nm.Set(n.Id, newOffset, n.Size)` per copied record) saved in ascending key order -/
def cpxOf (keep : List (Nat × Rec × Nat)) : List IEnt :=
  (keep.zipIdx 1).foldl (fun m p => mset m ⟨p.1.2.1.id, p.2, p.1.2.1.size⟩) []

def keepOf (s : CVol) (alg : Nat) (nowSec : Nat) : List (Nat × Rec × Nat) :=
  if alg = 1 then keepScan s nowSec else keepIdx s nowSec

/-- `Compact` (alg = 1) / `Compact2` (otherwise): writes .cpd/.cpx, remembers the .idx size and the revision -/
def compact (s : CVol) (alg : Nat) (nowSec : Nat) : CVol :=
  let keep := keepOf s alg nowSec
  { s with snap := some { log := keep.map (·.2.1), ats := keep.map (·.2.2), cpx := cpxOf keep,
                          idxLen := s.ilog.length, rev := s.rev } }

/-! ## commit -/

/-- `!offset.IsZero() && size != 0 && size.IsValid()` -/
def validEnt (e : IEnt) : Bool := e.off != 0 && decide (0 < e.size)

/-- the record `makeupDiff` appends for a deleted (or empty!) key -/
def fakeTomb (k : Nat) : Rec := { id := k, cookie := 0x12345678, size := 0, c := Content.empty }

abbrev Files := List Rec × List Nat × List IEnt

/-- one key of `incrementedHasUpdatedIndexEntry` -/
def makeupOne (old : CVol) (suffix : List IEnt) (nowNs : Nat) (acc : Files) (k : Nat) : Option Files :=
  match lastFor suffix k with
  | none => some acc
  | some e =>
    if validEnt e then
      match recAt old.v.log e.off with
      | none => none                                            -- ReadNeedleBlob fails ⇒ makeupDiff fails
      | some r => some (acc.1 ++ [r], acc.2.1 ++ [atOf old.ats e.off], acc.2.2 ++ [⟨k, acc.1.length + 1, e.size⟩])
    else some (acc.1 ++ [fakeTomb k], acc.2.1 ++ [nowNs], acc.2.2 ++ [⟨k, 0, e.size⟩])

def makeupFold (old : CVol) (suffix : List IEnt) (nowNs : Nat) (acc : Option Files) (order : List Nat) : Option Files :=
  order.foldl (fun a k => a.bind fun f => makeupOne old suffix nowNs f k) acc

/-- `makeupDiff`: `order` is the iteration order of the Go map (observed, any order) -/
def makeup (s : CVol) (sn : Snap) (order : List Nat) (nowNs : Nat) : Option Files :=
  if s.ilog.length = 0 ∨ s.ilog.length ≤ sn.idxLen then some (sn.log, sn.ats, sn.cpx)
  else if s.rev ≠ sn.rev then none
  else if sn.idxLen = 0 then none   -- the backward loop `uint64(idxOffset) >= lastCompactIndexOffset` never ends at 0:
                                    -- readIndexEntryAtOffset(-16) fails ⇒ makeupDiff fails ⇒ the compaction is discarded
  else makeupFold s (s.ilog.drop sn.idxLen) nowNs (some (sn.log, sn.ats, sn.cpx)) order

def delIdx (kind : Kind) (m : Nat → Option Ent) (k : Nat) : Nat → Option Ent :=
  match kind with
  | .ldb => fun j => if j = k then none else m j
  | .mem =>
    match m k with
    | some e => if 0 < e.size then setIdx m k ⟨e.off, -e.size⟩ else m
    | none => m

/-- `doLoading` / `generateLevelDbFile` over the .idx file -/
def reloadIdx (kind : Kind) (ilog : List IEnt) : Nat → Option Ent :=
  ilog.foldl (fun m e => if validEnt e then setIdx m e.key ⟨e.off, e.size⟩ else delIdx kind m e.key) (fun _ => none)

/-- `CheckAndFixVolumeDataIntegrity`, the part reachable after a commit: the record the LAST .idx
    entry points at must end the .dat; whatever follows it is cut off -/
def cutAt (ilog : List IEnt) (log : List Rec) : Option Nat :=
  match ilog.getLast? with
  | none => none
  | some e =>
    if e.off = 0 ∨ e.size < 0 then none else
    match recAt log e.off with
    | none => none
    | some r => if r.size ≠ e.size then none else if e.off < log.length then some e.off else none

/-- `Volume.load` of the current files -/
def reload (s : CVol) : CVol :=
  let (log, ats) := match cutAt s.ilog s.v.log with
    | some n => (s.v.log.take n, s.ats.take n)
    | none => (s.v.log, s.ats)
  { s with v := { s.v with log := log, idx := reloadIdx s.kind s.ilog }, ats := ats }

/-- `CommitCompact` -/
def commit (s : CVol) (order : List Nat) (nowNs : Nat) : CVol :=
  match s.snap with
  | none => s
  | some sn =>
    match makeup s sn order nowNs with
    | none => reload { s with snap := none }                    -- .cpd/.cpx removed, old files loaded again
    | some f => reload { s with v := { s.v with log := f.1 }, ats := f.2.1, ilog := f.2.2, rev := sn.rev + 1, snap := none }

/-- keys with an entry in the idx suffix, first occurrence order (a canonical `order`) -/
def suffixKeys (l : List IEnt) : List Nat := (l.map (·.key)).eraseDups

end SwV.Model.C04
