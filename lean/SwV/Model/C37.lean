/-
C37 — incremental volume backup: executable model (core Lean only).  Builds on the C04 volume model
(record log with AppendAtNs, the .idx file as a list, Compact2 / CommitCompact / Volume.load).

Mirrors, decision by decision:
  weed/storage/volume_backup.go   IncrementalBackup (findLastAppendAtNs → VolumeIncrementalCopy → append → ScanVolumeFileFrom
                                  with VolumeFileScanner4GenIdx: `n.Size > 0` ⇒ nm.Put, else nm.Delete),
                                  locateLastAppendEntry / readAppendAtNs, BinarySearchByAppendAtNs (the Go loop)
  weed/server/volume_grpc_copy_incremental.go   VolumeIncrementalCopy (isLast ⇒ nothing, else the .dat from the found
                                  entry's offset to the end), VolumeSyncStatus (TailOffset, CompactRevision)
  weed/command/backup.go runBackup   revision < source's ⇒ Compact2 + CommitCompact + set revision;
                                  datSize > TailOffset ⇒ Destroy + NewVolume; IncrementalBackup   (pinned: SwV.Gen.C37)
  weed/storage/needle/needle_read_write.go  GetActualSize / PaddingLength (`diskSize`)
-/
import SwV.Model.C04
namespace SwV.Model.C37
open SwV.Model.C01 SwV.Model.C04

/-- bytes of one record on disk (version 3): header 16 + Size + checksum 4 + timestamp 8, padded by 1..8 -/
def diskSize (size : Int) : Nat :=
  let x := 16 + size.toNat + 4 + 8
  x + (8 - x % 8)

/-- .dat size: super block + records -/
def datSize (log : List Rec) : Nat := 8 + (log.map fun r => diskSize r.size).sum

/-- `BinarySearchByAppendAtNs`, the loop: `ns m` = AppendAtNs of the record the m-th idx entry points at -/
def bsearch (ns : Nat → Nat) (since : Nat) : Nat → Nat → Nat → Nat
  | 0, l, _ => l
  | fuel + 1, l, h =>
    if l < h then
      let m := (l + h) / 2
      if ns m ≤ since then bsearch ns since fuel (m + 1) h else bsearch ns since fuel l m
    else l

def entOff (ilog : List IEnt) (m : Nat) : Nat := (ilog[m]?.map (·.off)).getD 0

/-- server side of `VolumeIncrementalCopy`: the record position the copy starts at (`none` = isLastOne) -/
def copyFrom (src : CVol) (since : Nat) : Option Nat :=
  let n := src.ilog.length
  let l := bsearch (fun m => atOf src.ats (entOff src.ilog m)) since (n + 1) 0 n
  if l = n then none else some (entOff src.ilog l)

/-- `findLastAppendAtNs`: AppendAtNs of the record the LAST idx entry points at (0 for none / offset 0) -/
def sinceOf (b : CVol) : Nat :=
  match b.ilog.getLast? with
  | none => 0
  | some e => if e.off = 0 then 0 else atOf b.ats e.off

/-- one received record: appended, then `VolumeFileScanner4GenIdx.VisitNeedle` -/
def scanStep (b : CVol) (p : Rec × Nat) : CVol :=
  let off := b.v.log.length + 1
  if 0 < p.1.size then
    { b with v := { b.v with log := b.v.log ++ [p.1], idx := setIdx b.v.idx p.1.id ⟨off, p.1.size⟩ },
             ats := b.ats ++ [p.2], ilog := b.ilog ++ [⟨p.1.id, off, p.1.size⟩] }
  else
    { b with v := { b.v with log := b.v.log ++ [p.1], idx := delIdx .mem b.v.idx p.1.id },
             ats := b.ats ++ [p.2], ilog := b.ilog ++ [⟨p.1.id, off, -1⟩] }

/-- `Volume.IncrementalBackup` against the source `src` -/
def incremental (b src : CVol) : CVol :=
  match copyFrom src (sinceOf b) with
  | none => b
  | some off => ((src.v.log.zip src.ats).drop (off - 1)).foldl scanStep b

/-- one run of `weed backup`: (new backup volume, compacted locally?, destroyed and recreated?) -/
def backupRun (b src : CVol) (nowSec nowNs : Nat) : CVol × Bool × Bool :=
  let b0 := reload b                                            -- storage.NewVolume
  let c := decide (b0.rev < src.rev)
  let b1 := if c then { commit (compact b0 2 nowSec) [] nowNs with rev := src.rev } else b0
  let r := decide (datSize src.v.log < datSize b1.v.log)
  let b2 := if r then CVol.init .mem src.v.volTtl else b1
  (incremental b2 src, c, r)

/-- source compaction as the harness issues it: Compact2 + CommitCompact with nothing in between -/
def srcCompact (s : CVol) (nowSec nowNs : Nat) : CVol := commit (compact s 2 nowSec) [] nowNs

/-- what serving the backup returns: a Store is opened on the directory (Volume.load) and read -/
def backupView (b : CVol) (nowNs : Nat) (id : Nat) : Option (Nat × Content) := view (reload b) nowNs id

end SwV.Model.C37
