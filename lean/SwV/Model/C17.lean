/-
C17 model: the chunk-list mechanism of weed/filer as the Go code implements it (core Lean only).

  mergeInto            = MergeIntoVisibles                 (filechunks.go)
  chunkLess/sortChunks = the comparator of the sort.Slice call in NonOverlappingVisibleIntervals
  resolveList          = ResolveChunkManifest              (filechunk_manifest.go; window filter + recursion)
  nonOverlapping       = NonOverlappingVisibleIntervals
  viewsOfVisibles      = ViewFromVisibleIntervals ; viewFromChunks = ViewFromChunks
  readLoop/readAt      = ChunkReadAt.doReadAt              (reader_at.go, after `fix:` df4164cc: gaps and tail are zeroed)
  readLoopF/readAtF    = the same with a fetch oracle (readOneWholeChunk/doFetchFullChunkData may fail ⇒ ReadAt returns the error)
  compact              = CompactFileChunks
  manifestize          = doMaybeManifestize + mergeIntoManifest
  streamLoop/streamContent = StreamContent                 (stream.go, after its `fix:` zero-fill commit: gaps and the tail of a bounded window are zeros)

Offsets and sizes are `Nat` (the code uses int64/uint64; assumption: offsets are non-negative
and every offset+size stays below 2^63).  A chunk's `fid` stands for its file id string, `key`
for the needle key parsed from it (assumption: every file id parses, so the comparator never
takes its `Fid == nil` branch).

Ties: `sort.Slice` is not stable.  The model sorts with the stable `List.mergeSort`; the
theorems in Props are stated for EVERY permutation that is sorted w.r.t. the comparator, so
they cover whatever order sort.Slice picks among chunks with equal (mtime, key).  (For ≤ 12
elements Go's pdqsort is an insertion sort, hence stable; the harness relies on that when it
generates full ties and only judges — does not recompute — longer lists with full ties.)
-/
namespace SwV.Model.C17

def maxInt64 : Nat := 9223372036854775807

structure Chunk where
  off   : Nat
  size  : Nat
  mtime : Int
  fid   : Nat
  key   : Nat
deriving Repr, DecidableEq, Inhabited

structure Vis where
  start : Nat
  stop  : Nat
  mtime : Int
  fid   : Nat
  coff  : Nat   -- offset inside the chunk of byte `start`
  csize : Nat   -- size of the whole chunk
deriving Repr, DecidableEq, Inhabited

def Chunk.stop (c : Chunk) : Nat := c.off + c.size

/-- pieces of one old interval that survive a new chunk [o, e): the three `if`s of the loop body -/
def pieces (o e : Nat) (v : Vis) : List Vis :=
  (if v.start < o ∧ o < v.stop then [{ v with stop := o }] else []) ++
  (if v.start < e ∧ e < v.stop then [{ v with start := e, coff := v.coff + (e - v.start) }] else []) ++
  (if e ≤ v.start ∨ v.stop ≤ o then [v] else [])

/-- the final loop of MergeIntoVisibles, seen from the tail of the slice -/
def bubbleRev : List Vis → Vis → List Vis
  | [], n => [n]
  | x :: xs, n => if n.start < x.start then x :: bubbleRev xs n else n :: x :: xs

def bubble (xs : List Vis) (n : Vis) : List Vis := (bubbleRev xs.reverse n).reverse

def newVis (c : Chunk) : Vis :=
  { start := c.off, stop := c.stop, mtime := c.mtime, fid := c.fid, coff := 0, csize := c.size }

def mergeInto (vs : List Vis) (c : Chunk) : List Vis :=
  match vs.getLast? with
  | none => [newVis c]
  | some last =>
    if last.stop ≤ c.off then vs ++ [newVis c]
    else bubble (vs.flatMap (pieces c.off c.stop)) (newVis c)

/-- MergeIntoVisibles folded over chunks in the given order -/
def visibles (cs : List Chunk) : List Vis := cs.foldl mergeInto []

/-- `less` of the sort.Slice call (file ids parse) -/
def chunkLess (a b : Chunk) : Bool :=
  if a.mtime = b.mtime then a.key < b.key else a.mtime < b.mtime

def chunkLe (a b : Chunk) : Bool := !chunkLess b a

def sortChunks (cs : List Chunk) : List Chunk := cs.mergeSort chunkLe

/-- a chunk of a file: data, or a manifest (a stored list of chunks) with its declared extent -/
inductive Node where
  | data (c : Chunk)
  | manifest (off size : Nat) (fid : Nat) (children : List Node)
deriving Repr, Inhabited

/-- the skip test of ResolveChunkManifest -/
def outside (off size lo hi : Nat) : Bool := max off lo ≥ min (off + size) hi

mutual
def resolveNode (lo hi : Nat) : Node → List Chunk
  | .data c => if outside c.off c.size lo hi then [] else [c]
  | .manifest off size _ ch => if outside off size lo hi then [] else resolveList lo hi ch
def resolveList (lo hi : Nat) : List Node → List Chunk
  | [] => []
  | n :: ns => resolveNode lo hi n ++ resolveList lo hi ns
end

def nonOverlapping (lo hi : Nat) (ns : List Node) : List Vis :=
  visibles (sortChunks (resolveList lo hi ns))

structure View where
  fid   : Nat
  off   : Nat   -- offset inside the chunk
  size  : Nat
  logic : Nat   -- offset in the file
  csize : Nat
deriving Repr, DecidableEq, Inhabited

def viewStop (offset size : Nat) : Nat := if size = maxInt64 then maxInt64 else offset + size

def viewOf (offset stop : Nat) (v : Vis) : Option View :=
  let cs := max offset v.start
  let ce := min stop v.stop
  if cs < ce then some { fid := v.fid, off := cs - v.start + v.coff, size := ce - cs, logic := cs, csize := v.csize } else none

def viewsOfVisibles (vs : List Vis) (offset size : Nat) : List View :=
  vs.filterMap (viewOf offset (viewStop offset size))

def viewFromChunks (ns : List Node) (offset size : Nat) : List View :=
  viewsOfVisibles (nonOverlapping offset (offset + size) ns) offset size

/-- reader state: startOffset, remaining (clamped at 0: the code only tests `<= 0`), bytes delivered so far -/
structure RS where
  pos : Nat
  rem : Nat
  acc : List Nat
deriving Repr

/-- the gap branch of the loop body (`startOffset < chunk.LogicOffset`): count and zero the gap -/
def gapStep (v : View) (s : RS) : RS :=
  if s.pos < v.logic then
    { pos := v.logic, rem := s.rem - (v.logic - s.pos), acc := s.acc ++ List.replicate (min (v.logic - s.pos) s.rem) 0 }
  else s

/-- the copy part of the loop body (`continue` when the view has nothing for the window); `data fid i` = byte i of blob fid -/
def copyStep (data : Nat → Nat → Nat) (v : View) (s : RS) : RS :=
  let cstart := max v.logic s.pos
  let cstop := min (v.logic + v.size) (s.pos + s.rem)
  if cstart ≥ cstop then s else
  { pos := s.pos + (cstop - cstart), rem := s.rem - (cstop - cstart),
    acc := s.acc ++ (List.range' (cstart - v.logic + v.off) (cstop - cstart)).map (data v.fid) }

/-- the loop of doReadAt.  The code writes into p at `startOffset-offset`, which is
    `acc.length` as long as the loop runs, so appending is the same. -/
def readLoop (data : Nat → Nat → Nat) : List View → RS → RS
  | [], s => s
  | v :: vs, s =>
    if s.rem = 0 then s else
    let s1 := gapStep v s
    if s1.rem = 0 then s1 else readLoop data vs (copyStep data v s1)

/-- the bytes doReadAt delivers for a window of `len` bytes at `offset`: the loop, then the zeroed tail below the file size -/
def readAcc (data : Nat → Nat → Nat) (views : List View) (fileSize len offset : Nat) : List Nat :=
  let s := readLoop data views { pos := offset, rem := len, acc := [] }
  if 0 < s.rem ∧ s.pos < fileSize then s.acc ++ List.replicate (min s.rem (fileSize - s.pos)) 0 else s.acc

/-- doReadAt: (n, err == io.EOF, the caller's buffer afterwards) -/
def readAt (data : Nat → Nat → Nat) (views : List View) (fileSize : Nat) (p : List Nat) (offset : Nat) : Nat × Bool × List Nat :=
  let acc := readAcc data views fileSize p.length offset
  (acc.length, decide (fileSize ≤ offset + p.length), acc ++ p.drop acc.length)

/-! ### reads with fetch faults (cache misses: every chunk the loop copies from is fetched; `ok fid` = the fetch succeeds) -/

/-- the loop body reaches `readChunkSlice` for this view: it has bytes for the rest of the window -/
def needs (v : View) (s : RS) : Bool :=
  decide (max v.logic s.pos < min (v.logic + v.size) (s.pos + s.rem))

/-- doReadAt's loop when fetches may fail: `readChunkSlice` returns an error ⇒ the loop returns at once (second component) -/
def readLoopF (ok : Nat → Bool) (data : Nat → Nat → Nat) : List View → RS → RS × Bool
  | [], s => (s, false)
  | v :: vs, s =>
    if s.rem = 0 then (s, false) else
    let s1 := gapStep v s
    if s1.rem = 0 then (s1, false) else
    if needs v s1 && !ok v.fid then (s1, true)
    else readLoopF ok data vs (copyStep data v s1)

/-- the file ids the fault-free loop fetches for this window -/
def usedFids (data : Nat → Nat → Nat) : List View → RS → List Nat
  | [], _ => []
  | v :: vs, s =>
    if s.rem = 0 then [] else
    let s1 := gapStep v s
    if s1.rem = 0 then [] else
    (if needs v s1 then [v.fid] else []) ++ usedFids data vs (copyStep data v s1)

/-- doReadAt with a fetch oracle: (n, 0 = nil | 1 = io.EOF | 2 = fetch error, the caller's buffer afterwards).
    On an error the code returns before the tail zeroing and the EOF test, with the bytes delivered so far. -/
def readAtF (ok : Nat → Bool) (data : Nat → Nat → Nat) (views : List View) (fileSize : Nat) (p : List Nat) (offset : Nat) : Nat × Nat × List Nat :=
  let r := readLoopF ok data views { pos := offset, rem := p.length, acc := [] }
  let s := r.1
  if r.2 then (s.acc.length, 2, s.acc ++ p.drop s.acc.length) else
  let acc := if 0 < s.rem ∧ s.pos < fileSize then s.acc ++ List.replicate (min s.rem (fileSize - s.pos)) 0 else s.acc
  (acc.length, if fileSize ≤ offset + p.length then 1 else 0, acc ++ p.drop acc.length)

/-- CompactFileChunks on data chunks: (compacted, garbage) -/
def compact (cs : List Chunk) : List Chunk × List Chunk :=
  let fids := (nonOverlapping 0 maxInt64 (cs.map Node.data)).map (·.fid)
  (cs.filter (fun c => fids.contains c.fid), cs.filter (fun c => !fids.contains c.fid))

def isManifest : Node → Bool
  | .manifest .. => true
  | .data _ => false

def nodeChunk : Node → Option Chunk
  | .data c => some c
  | .manifest .. => none

/-- mergeIntoManifest: extent = [min offset, max stop) of the batch -/
def mkManifest (fid : Nat) (batch : List Chunk) : Node :=
  let lo := batch.foldl (fun m c => min m c.off) maxInt64
  let hi := batch.foldl (fun m c => max m c.stop) 0
  .manifest lo (hi - lo) fid (batch.map Node.data)

/-- the batching loop of doMaybeManifestize (`fuel` ≥ number of batches) -/
def batchLoop (k : Nat) : Nat → Nat → List Chunk → List Node
  | 0, _, ds => ds.map Node.data
  | fuel + 1, fid, ds =>
    if k ≤ ds.length then mkManifest fid (ds.take k) :: batchLoop k fuel (fid + 1) (ds.drop k)
    else ds.map Node.data

/-- doMaybeManifestize with merge factor k ≥ 1; new manifests get file ids base, base+1, … -/
def manifestize (k base : Nat) (ns : List Node) : List Node :=
  let ds := ns.filterMap nodeChunk
  ns.filter isManifest ++ batchLoop k ds.length base ds

/-- the write loop of StreamContent after `fix:` (zero fill): before a view the gap `offset < LogicOffset` is written as
    zeros, then the view's bytes; after the last view the rest of a bounded window (`offset < stop`) is zeros -/
def streamLoop (data : Nat → Nat → Nat) (stop : Nat) : List View → Nat → List Nat
  | [], pos => List.replicate (stop - pos) 0
  | v :: vs, pos =>
    List.replicate (v.logic - pos) 0 ++ (List.range' v.off v.size).map (data v.fid) ++
      streamLoop data stop vs (max pos v.logic + v.size)

/-- the window end StreamContent fills up to: none (0 here, -1 in the code) for size = MaxInt64 = "to the end of the last chunk" -/
def streamStop (offset size : Nat) : Nat := if size = maxInt64 then 0 else offset + size

/-- StreamContent(offset, size): the bytes written -/
def streamContent (data : Nat → Nat → Nat) (ns : List Node) (offset size : Nat) : List Nat :=
  streamLoop data (streamStop offset size) (viewFromChunks ns offset size) offset

end SwV.Model.C17
