/-
C18 — a rename during which another client creates an entry (trace op `renamelate`).

The interleaving is made deterministic by the harness's store shim: when the rename's store-level DeleteEntry of the
path `trig` (one of the entries being moved) has been carried out, the shim inserts the entry `late` — exactly what a
second client's CreateEntry arriving at that moment does to the store. The model is `moveEntry` with that one hook:
after the successful final "delete old entry" of the move whose source is `trig`, `inj` is applied to the state.
With `inj = id` it IS `moveEntry` (`moveEntryL_id`, Lemmas/C18Final.lean).
-/
import SwV.Model.C18
namespace SwV.Model.C18

/-- `moveEntry` with a hook after the store delete of `trig` -/
def moveEntryL (trig : RPath) (inj : St → St) : Nat → St → RPath → Entry → RPath → Mv
  | 0, s, _, _, _ => (s, .diverge, [])
  | f + 1, s, old, e, new =>
    if old = new then (s, .ok, []) else
    match createEntry s new { e with hl := 0, cnt := 0 } false with
    | (s1, .ok, q1) =>
      match (if e.isDir then (children s1 old).foldl (moveStep (moveEntryL trig inj f) old new) (s1, .ok, []) else (s1, .ok, [])) with
      | (s2, .ok, q2) =>
        match deleteEntry s2 old false false with
        | (s3, .ok, _) => (if old = trig then inj s3 else s3, .ok, q1 ++ q2)
        | (s3, _, _) => (s3, .err, q1 ++ q2)
      | (s2, r2, q2) => (s2, r2, q1 ++ q2)
    | (s1, _, q1) => (s1, .err, q1)

/-- what the second client's insert does to the store: the entry is put under its path (no parent handling: the
    parent is the directory being renamed, which exists at that moment) -/
def injectLate (late : RPath) (e : Entry) (s : St) : St := { s with ents := put s.ents late e }

/-- AtomicRenameEntry src → dst while `late` is created right after the store delete of `trig`; the Boolean tells
    whether that delete happened, i.e. whether the second client's create was carried out at all (the hook leaves a
    mark under the KV key 0, which nothing else uses — link identities are 1, 2, … — and which is removed again) -/
def renameLateEntry (s : St) (src dst trig late : RPath) (le : Entry) : Mv × Bool :=
  match find s src with
  | none => ((s, .err, []), false)
  | some e =>
    match moveEntryL trig (fun t => kvPut (injectLate late le t) 0 le) renameFuel s src e dst with
    | (s', r, q) => ((kvDel s' 0, r, q), (kvGet s' 0).isSome)

end SwV.Model.C18
