/-
C09 — TTL data lives exactly as long as promised: executable model (core Lean only).

Mirrors, decision by decision:
  weed/storage/volume_read.go     readNeedle, the TTL tail (HasTtl / Minutes()==0 / HasLastModifiedDate / AppendAtNs window)
  weed/storage/volume_vacuum.go   the TTL filter of VisitNeedle (Compact) and copyDataBasedOnIndexFile (Compact2):
                                  `n.HasTtl() && now >= n.LastModified + uint64(v.Ttl.Minutes()*60)`   (uint32 product!)
  weed/storage/volume.go          Volume.expired / Volume.expiredLongEnough
  weed/storage/store.go           CollectHeartbeat: listed / expired / deleted decision (MAX_TTL_VOLUME_REMOVAL_DELAY = 10)
  weed/storage/volume_write.go    writeNeedle2 TTL inheritance, doWriteRequest lastModifiedTsSeconds update
  weed/storage/volume_loading.go  lastModifiedTsSeconds := mtime(.dat) on load (also after CommitCompact)
  weed/storage/needle/volume_ttl.go  SecondsToTTL (regenerated: SwV.Gen.C09), ReadTTL / Minutes (model of C08)

Times are absolute: seconds (`Nat`) for LastModified / volume lastModified / vacuum+expiry clock,
nanoseconds (`Nat`) for AppendAtNs and the read clock.
-/
import SwV.Model.C08
namespace SwV.Model.C09
open SwV.Model.C08

def nsPerSec : Nat := 1000000000

/-- the fields of a stored needle that decide its lifetime -/
structure Needle where
  hasTtl : Bool          -- FlagHasTtl
  ttl : TTL              -- stored TTL bytes (count, unit)
  hasLM : Bool           -- FlagHasLastModifiedDate
  lm : Nat               -- LastModified, seconds (0 when the flag is unset)
  appendNs : Nat         -- AppendAtNs
deriving Repr, DecidableEq

/-- `readNeedle`, TTL tail: is the needle still returned at `nowNs`? -/
def readable (n : Needle) (nowNs : Nat) : Bool :=
  if !n.hasTtl then true
  else if ttlMinutes n.ttl = 0 then true
  else if !n.hasLM then true
  else decide (nowNs < n.appendNs + ttlMinutes n.ttl * 60 * nsPerSec)

/-- `uint32` wrap -/
def u32 (x : Nat) : Nat := x % 2 ^ 32

/-- vacuum TTL filter (both compaction variants): is the needle dropped at `nowSec`?
    Uses the needle's LastModified and the VOLUME's TTL; `Minutes()*60` is a uint32 product. -/
def vacuumDrops (volTtl : TTL) (n : Needle) (nowSec : Nat) : Bool :=
  n.hasTtl && decide (n.lm + u32 (ttlMinutes volTtl * 60) ≤ nowSec)

/-- `Volume.expired(contentSize, volumeSizeLimit)` -/
def volExpired (sizeLimit contentSize : Nat) (volTtl : TTL) (volLm nowSec : Nat) : Bool :=
  if sizeLimit = 0 then false
  else if contentSize ≤ 8 then false
  else if ttlMinutes volTtl = 0 then false
  else decide ((ttlMinutes volTtl : Int) < Int.tdiv ((nowSec : Int) - (volLm : Int)) 60)

/-- `Volume.expiredLongEnough(maxDelayMinutes)` -/
def volExpiredLongEnough (maxDelay : Nat) (volTtl : TTL) (volLm nowSec : Nat) : Bool :=
  if ttlMinutes volTtl = 0 then false
  else
    let delay := if ttlMinutes volTtl / 10 > maxDelay then maxDelay else ttlMinutes volTtl / 10
    decide ((ttlMinutes volTtl + delay) * 60 + volLm < nowSec)

def maxRemovalDelay : Nat := 10

/-! ## One volume as a state machine -/

structure Vol where
  ttl : TTL
  lm : Nat                        -- lastModifiedTsSeconds
  needles : List (Nat × Needle)   -- records in the .dat file that the index points at (key unique)
  alive : Bool                    -- false once CollectHeartbeat deleted the volume
  sizeLimit : Nat
deriving Repr

def emptyTTL : TTL := ⟨0, 0⟩

/-- `writeNeedle2`: a needle without TTL inherits the volume's TTL (and the flag) -/
def effectiveTtl (volTtl : TTL) (t : TTL) : Bool × TTL :=
  if t = emptyTTL then (if volTtl = emptyTTL then (false, emptyTTL) else (true, volTtl)) else (true, t)

inductive Op where
  | put (key : Nat) (ttl : TTL) (hasLM : Bool) (lm : Nat)   -- executed at time `nowNs` (AppendAtNs := nowNs)
  | compact
  | heartbeat
  | reload (mtime : Nat)                                     -- close + open: lastModified := mtime of the .dat
deriving Repr

def lookup (v : Vol) (key : Nat) : Option Needle := (v.needles.find? (·.1 = key)).map (·.2)

inductive ReadResult where
  | ok | notfound | novol
deriving Repr, DecidableEq

def read (v : Vol) (key : Nat) (nowNs : Nat) : ReadResult :=
  if !v.alive then .novol else
  match lookup v key with
  | none => .notfound
  | some n => if readable n nowNs then .ok else .notfound

/-- size of the .dat as reported in the heartbeat: 8 (super block) iff there is no record -/
def contentSize (v : Vol) : Nat := if v.needles.isEmpty then 8 else 8 + 40 * v.needles.length

inductive HbResult where
  | listed | expired | deleted | novol
deriving Repr, DecidableEq

def hbDecision (v : Vol) (nowSec : Nat) : HbResult :=
  if !v.alive then .novol
  else if !volExpired v.sizeLimit (contentSize v) v.ttl v.lm nowSec then .listed
  else if volExpiredLongEnough maxRemovalDelay v.ttl v.lm nowSec then .deleted
  else .expired

/-- one operation at clock `nowNs` (seconds clock = `nowNs / nsPerSec`) -/
def step (v : Vol) (nowNs : Nat) : Op → Vol
  | .put key t hasLM lm =>
    if !v.alive then v else
    let (f, t') := effectiveTtl v.ttl t
    let n : Needle := ⟨f, t', hasLM, if hasLM then lm else 0, nowNs⟩
    { v with needles := (key, n) :: v.needles.filter (·.1 ≠ key), lm := if v.lm < n.lm then n.lm else v.lm }
  | .compact =>
    if !v.alive then v else
    -- survivors are copied verbatim (AppendAtNs and LastModified preserved); the new .dat is loaded: lastModified := now
    { v with needles := v.needles.filter (fun kn => !vacuumDrops v.ttl kn.2 (nowNs / nsPerSec)), lm := nowNs / nsPerSec }
  | .heartbeat =>
    match hbDecision v (nowNs / nsPerSec) with
    | .deleted => { v with alive := false, needles := [] }
    | _ => v
  | .reload mtime => if !v.alive then v else { v with lm := mtime }

/-- test/ageing hook used only by the driver: overwrite the AppendAtNs of a record -/
def setAppend (v : Vol) (key : Nat) (appendNs : Nat) : Vol :=
  { v with needles := v.needles.map fun kn => if kn.1 = key then (kn.1, { kn.2 with appendNs := appendNs }) else kn }

/-! ## Filer seconds → volume TTL -/

/-- minutes promised by the volume TTL that a TTL string denotes (`ReadTTL` then `Minutes`) -/
def minutesOfTtlString (s : List Char) : Nat := ttlMinutes (readTTL s).1

/-! ## Filer side: entry visibility (weed/filer/filer.go FindEntry / doListDirectoryEntries, CreateEntry / UpdateEntry)

`entry.Crtime.Add(TtlSec s).Before(time.Now())` ⇒ the entry is deleted from the store and reported not found.
Crtime is stored in whole seconds (entry_codec). `UpdateEntry` keeps the OLD entry's Crtime. The chunks of an
entry with `TtlSec = s` are assigned with ttl string `SecondsToTTL(s)` (detectStorageOption → AssignVolume), so a
chunk needle carries the TTL that string denotes and is readable per `readable` above. -/

structure Chunk where
  ttl : TTL            -- TTL of the chunk needle (= of the volume it was assigned to)
  appendNs : Nat       -- when the chunk was written
deriving Repr, DecidableEq

structure FEntry where
  ttlSec : Nat
  crtime : Nat         -- seconds
  mtime : Nat          -- seconds
  chunks : List Chunk
deriving Repr, DecidableEq

/-- not (Crtime + TtlSec).Before(now) -/
def entryVisible (e : FEntry) (nowNs : Nat) : Bool :=
  e.ttlSec = 0 || decide (nowNs ≤ (e.crtime + e.ttlSec) * nsPerSec)

/-- the needle a chunk is stored as (upload path: LastModified set, TTL flag iff the TTL is not empty) -/
def chunkNeedle (c : Chunk) : Needle := ⟨decide (c.ttl ≠ emptyTTL), c.ttl, true, c.appendNs / nsPerSec, c.appendNs⟩

def chunkReadable (c : Chunk) (nowNs : Nat) : Bool := readable (chunkNeedle c) nowNs

abbrev FStore := List (Nat × FEntry)

def flookup (st : FStore) (k : Nat) : Option FEntry := (st.find? (·.1 = k)).map (·.2)

/-- `Filer.FindEntry` at `nowNs`: result and store afterwards (an expired entry is deleted) -/
def ffind (st : FStore) (nowNs k : Nat) : Option FEntry × FStore :=
  match flookup st k with
  | none => (none, st)
  | some e => if entryVisible e nowNs then (some e, st) else (none, st.filter (·.1 ≠ k))

/-- `Filer.ListDirectoryEntries` at `nowNs`: visible entries; expired ones are deleted -/
def flist (st : FStore) (nowNs : Nat) : FStore := st.filter (fun ke => entryVisible ke.2 nowNs)

/-- `Filer.CreateEntry(entry)`: FindEntry first; insert when absent/expired, else UpdateEntry (keeps the old Crtime) -/
def fput (st : FStore) (nowNs k : Nat) (e : FEntry) : FStore :=
  let (old, st1) := ffind st nowNs k
  let e' := match old with
    | none => e
    | some o => { e with crtime := o.crtime }
  (k, e') :: st1.filter (·.1 ≠ k)

end SwV.Model.C09
