/-
C36 — model of the path decisions of `Replicator.Replicate` (weed/replication/replicator.go) and of
`genProcessFunction` / `buildKey` (weed/command/filer_sync.go), on strings (lists of characters):
`strings.HasPrefix`, slicing off `len(sourcePath)` bytes, `util.Join` (= filepath.Join + Clean, for
paths without `.`/`..` components) and `FullPath.Child`.

Core Lean only.
-/
namespace SwV.Model.C36

abbrev Str := List Char

/-- `strings.HasPrefix(s, p)` -/
def hasPrefix (s p : Str) : Bool := p.isPrefixOf s

/-- split at '/', dropping empty components; `cur` is the component being read -/
def compsAux : Str → Str → List Str
  | [], cur => if cur = [] then [] else [cur]
  | c :: cs, cur =>
    if c = '/' then (if cur = [] then compsAux cs [] else cur :: compsAux cs [])
    else compsAux cs (cur ++ [c])

def comps (s : Str) : List Str := compsAux s []

def rooted (s : Str) : Bool := s.head? == some '/'

/-- `filepath.Clean` for paths without dot components -/
def clean (s : Str) : Str :=
  let body := ['/'].intercalate (comps s)
  let r := if rooted s then '/' :: body else body
  if r = [] then ['.'] else r

/-- `util.Join(parts…)`: empty parts are ignored, the rest is joined by '/' and cleaned -/
def join (parts : List Str) : Str :=
  let ne := parts.filter (· ≠ [])
  if ne = [] then [] else clean (['/'].intercalate ne)

/-- `FullPath(dir).Child(name)` -/
def child (dir name : Str) : Str :=
  if dir.getLast? = some '/' then dir ++ name else dir ++ '/' :: name

def dateKey (incr : Bool) : Str := if incr then "1971-01-01".toList else []

inductive Call where
  | del (key : Str) (isDir delChunks : Bool)
  | create (key : Str)
  | update (key newParent : Str)
deriving DecidableEq, Repr

/-- `Replicator.Replicate(key, message)`; `old`/`new` = IsDirectory of OldEntry/NewEntry if present;
    `found` = what the sink's UpdateEntry answers -/
def replicate (srcDir sinkDir : Str) (sinkIsFiler incr found fromOther : Bool) (key : Str)
    (old new : Option Bool) (newParent : Str) : List Call :=
  if fromOther && sinkIsFiler then [] else
  if !hasPrefix key srcDir then [] else
  let newKey := join [sinkDir, dateKey incr, key.drop srcDir.length]
  match old, new with
  | some d, none => [.del newKey d true]
  | none, some _ => [.create newKey]
  | none, none => []
  | some d, some _ =>
    if found then [.update newKey newParent]
    else [.update newKey newParent, .del newKey d false, .create newKey]

/-- `buildKey` -/
def buildKey (src tgt : Str) (incr : Bool) (k : Str) : Str :=
  if !incr then join [tgt, k.drop src.length] else join [tgt, dateKey true, k.drop src.length]

/-- the process function of filer.sync / filer.backup; `none` = the Go code panics
    (`message.NewParentPath[len(sourcePath):]` with a shorter NewParentPath) -/
def syncEv (src tgt : Str) (incr found : Bool) (dir : Str) (old : Option (Bool × Str)) (new : Option (Bool × Str))
    (newParent : Str) : Option (List Call) :=
  let oldKey : Str := match old with | some o => child dir o.2 | none => []
  let newKey : Str := match new with | some n => child newParent n.2 | none => []
  if !hasPrefix dir src then some [] else
  match old, new with
  | some o, none => if !hasPrefix oldKey src then some [] else some [.del (buildKey src tgt incr oldKey) o.1 true]
  | none, some _ => if !hasPrefix newKey src then some [] else some [.create (buildKey src tgt incr newKey)]
  | none, none => some []
  | some o, some _ =>
    if hasPrefix oldKey src then
      if hasPrefix newKey src then
        if !incr then
          let oldT := join [tgt, oldKey.drop src.length]
          if newParent.length < src.length then none else
          let np := join [tgt, newParent.drop src.length]
          if found then some [.update oldT np]
          else some [.update oldT np, .del oldT o.1 false, .create (buildKey src tgt incr newKey)]
        else some [.create (buildKey src tgt incr newKey)]
      else if !incr then some [.del (buildKey src tgt incr oldKey) o.1 true] else some []
    else if hasPrefix newKey src then some [.create (buildKey src tgt incr newKey)] else some []

/-! ## `LocalSink` (weed/replication/sink/localsink/local_sink.go) behind the process function

The local file system below the sink directory is a pair of path sets (paths = component lists,
which is how the operating system resolves the cleaned keys that `util.Join` produces); the root
always exists.  Invariant kept by every operation: all ancestors of a member are in `dirs`, and
`files`/`dirs` are disjoint. -/

/-- `strings.HasSuffix` -/
def hasSuffix (s p : Str) : Bool := p.reverse.isPrefixOf s.reverse

/-- `strings.Contains` -/
def containsStr : Str → Str → Bool
  | [], p => p.isEmpty
  | c :: cs, p => p.isPrefixOf (c :: cs) || containsStr cs p

/-- `LocalSink.isMultiPartEntry` -/
def isMultiPart (key : Str) : Bool :=
  hasSuffix key ".part".toList && containsStr key "/.uploads/".toList

abbrev Path := List Str

structure Tree where
  files : List Path
  dirs : List Path
deriving Repr, DecidableEq

def Tree.empty : Tree := ⟨[], []⟩

/-- the proper ancestors of a path below the root, top first -/
def ancestors (p : Path) : List Path := ((List.range p.length).drop 1).map (p.take ·)

inductive Stat where
  | file | dir | noent | notdir
deriving DecidableEq, Repr

/-- `os.Stat`: ENOTDIR when a component on the way is a file, ENOENT when something is missing -/
def stat (t : Tree) (p : Path) : Stat :=
  if p = [] then .dir else
  match (ancestors p).find? (fun a => !t.dirs.contains a) with
  | some a => if t.files.contains a then .notdir else .noent
  | none => if t.files.contains p then .file else if t.dirs.contains p then .dir else .noent

/-- `util.FileExists`: everything but ENOENT counts as existing (directories and ENOTDIR too) -/
def fileExists (t : Tree) (p : Path) : Bool := stat t p != .noent

def hasChildren (t : Tree) (p : Path) : Bool :=
  t.files.any (fun f => p.isPrefixOf f && f != p) || t.dirs.any (fun d => p.isPrefixOf d && d != p)

/-- `os.Remove`: unlink a file, rmdir an EMPTY directory, otherwise fail (the error is only logged) -/
def osRemove (t : Tree) (p : Path) : Tree :=
  match stat t p with
  | .file => { t with files := t.files.filter (· != p) }
  | .dir => if p = [] || hasChildren t p then t else { t with dirs := t.dirs.filter (· != p) }
  | _ => t

/-- `os.MkdirAll(p)` (called only when `os.Stat(p)` said ENOENT) -/
def mkdirAll (t : Tree) (p : Path) : Tree :=
  { t with dirs := (ancestors p ++ [p]).foldl (fun ds a => if ds.contains a then ds else ds ++ [a]) t.dirs }

/-- `LocalSink.DeleteEntry(key, …)` — never reports an error -/
def lsDelete (t : Tree) (key : Str) : Tree :=
  if isMultiPart key then t else osRemove t (comps key)

/-- `LocalSink.CreateEntry(key, entry, …)`; the Bool is "no error".  Directories are not created. -/
def lsCreate (t : Tree) (key : Str) (isDir : Bool) : Tree × Bool :=
  if isDir || isMultiPart key then (t, true) else
  let p := comps key
  let d := p.dropLast
  let t1 := if stat t d = .noent then mkdirAll t d else t
  -- os.OpenFile(key, O_RDWR|O_CREATE|O_TRUNC)
  match stat t1 p with
  | .file => (t1, true)
  | .noent => ({ t1 with files := t1.files ++ [p] }, true)
  | _ => (t1, false)

/-- `LocalSink.UpdateEntry(key, _, newParentPath, newEntry, …)`: the new parent path is IGNORED, the
    entry is re-created at `key`; result = (tree, foundExistingEntry, no error) -/
def lsUpdate (t : Tree) (key : Str) (newIsDir : Bool) : Tree × Bool × Bool :=
  if isMultiPart key then (t, true, true) else
  let found := fileExists t (comps key)
  let r := lsCreate t key newIsDir
  (r.1, found, r.2)

/-- one change event as the subscription delivers it -/
structure LEv where
  dir : Str
  old : Option (Bool × Str)
  new : Option (Bool × Str)
  newParent : Str
deriving Repr, DecidableEq

/-- what `UpdateEntry` will answer for the first call of the event (only updates ask) -/
def lsFound (t : Tree) : List Call → Bool
  | .update k _ :: _ => (lsUpdate t k false).2.1
  | _ => true

/-- the sink calls of one event applied to the tree; the error the process function returns is the
    error of the LAST call (`UpdateEntry`'s error is dropped when it answered "not found") -/
def applyCalls (t : Tree) (newIsDir : Bool) (cs : List Call) : Tree × Bool :=
  cs.foldl (fun (st : Tree × Bool) c =>
    match c with
    | .del k _ _ => (lsDelete st.1 k, true)
    | .create k => lsCreate st.1 k newIsDir
    | .update k _ => let r := lsUpdate st.1 k newIsDir; (r.1, r.2.2)) (t, true)

inductive LStatus where
  | ok | err | panic
deriving DecidableEq, Repr

/-- one event through `genProcessFunction(src, tgt, localSink)` -/
def lsyncStep (src tgt : Str) (incr : Bool) (t : Tree) (e : LEv) : Tree × LStatus :=
  let probe := syncEv src tgt incr false e.dir e.old e.new e.newParent
  match probe with
  | none => (t, .panic)
  | some cs0 =>
    match syncEv src tgt incr (lsFound t cs0) e.dir e.old e.new e.newParent with
    | none => (t, .panic)
    | some cs =>
      let r := applyCalls t ((e.new.map (·.1)).getD false) cs
      (r.1, if r.2 then .ok else .err)

/-- the trees after every event; the run stops after the first error or panic -/
def lsyncRun (src tgt : Str) (incr : Bool) : Tree → List LEv → List (Tree × LStatus)
  | _, [] => []
  | t, e :: es =>
    let r := lsyncStep src tgt incr t e
    r :: (if r.2 = .ok then lsyncRun src tgt incr r.1 es else [])

/-- bytewise order of path tokens (Go's `sort.Strings` on ASCII) -/
def ltStr : Str → Str → Bool
  | [], [] => false
  | [], _ :: _ => true
  | _ :: _, [] => false
  | a :: as, b :: bs => if a.toNat < b.toNat then true else if b.toNat < a.toNat then false else ltStr as bs

def insertStr (x : Str) : List Str → List Str
  | [] => [x]
  | y :: ys => if ltStr y x then y :: insertStr x ys else x :: y :: ys

def sortStr (xs : List Str) : List Str := xs.foldr insertStr []

def relTok (p : Path) : Str := ['/'].intercalate p

/-- the listing of what is below `root`: files as relative paths, directories with a trailing '/' -/
def listing (root : Path) (t : Tree) : List Str :=
  let fs := (t.files.filter (root.isPrefixOf ·)).map fun f =>
    if f = root then ['.'] else relTok (f.drop root.length)
  let ds := (t.dirs.filter (fun d => root.isPrefixOf d && d != root)).map fun d => relTok (d.drop root.length) ++ ['/']
  sortStr (fs ++ ds)

end SwV.Model.C36
