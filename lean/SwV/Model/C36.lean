/-
C36 — model of the path decisions of `Replicator.Replicate` (weed/replication/replicator.go) and of
`genProcessFunction` / `buildKey` (weed/command/filer_sync.go), on strings (lists of characters):
`strings.HasPrefix`, slicing off `len(sourcePath)` bytes, `util.Join` (= filepath.Join + Clean, for
paths without `.`/`..` components) and `FullPath.Child`.

Core Lean only.
-/
namespace SwV.Model.C36

abbrev Str := List Char

/-- `strings.HasPrefix(s, p)` -/
def hasPrefix (s p : Str) : Bool := p.isPrefixOf s

/-- split at '/', dropping empty components; `cur` is the component being read -/
def compsAux : Str → Str → List Str
  | [], cur => if cur = [] then [] else [cur]
  | c :: cs, cur =>
    if c = '/' then (if cur = [] then compsAux cs [] else cur :: compsAux cs [])
    else compsAux cs (cur ++ [c])

def comps (s : Str) : List Str := compsAux s []

def rooted (s : Str) : Bool := s.head? == some '/'

/-- `filepath.Clean` for paths without dot components -/
def clean (s : Str) : Str :=
  let body := ['/'].intercalate (comps s)
  let r := if rooted s then '/' :: body else body
  if r = [] then ['.'] else r

/-- `util.Join(parts…)`: empty parts are ignored, the rest is joined by '/' and cleaned -/
def join (parts : List Str) : Str :=
  let ne := parts.filter (· ≠ [])
  if ne = [] then [] else clean (['/'].intercalate ne)

/-- `FullPath(dir).Child(name)` -/
def child (dir name : Str) : Str :=
  if dir.getLast? = some '/' then dir ++ name else dir ++ '/' :: name

def dateKey (incr : Bool) : Str := if incr then "1971-01-01".toList else []

inductive Call where
  | del (key : Str) (isDir delChunks : Bool)
  | create (key : Str)
  | update (key newParent : Str)
deriving DecidableEq, Repr

/-- `Replicator.Replicate(key, message)`; `old`/`new` = IsDirectory of OldEntry/NewEntry if present;
    `found` = what the sink's UpdateEntry answers -/
def replicate (srcDir sinkDir : Str) (sinkIsFiler incr found fromOther : Bool) (key : Str)
    (old new : Option Bool) (newParent : Str) : List Call :=
  if fromOther && sinkIsFiler then [] else
  if !hasPrefix key srcDir then [] else
  let newKey := join [sinkDir, dateKey incr, key.drop srcDir.length]
  match old, new with
  | some d, none => [.del newKey d true]
  | none, some _ => [.create newKey]
  | none, none => []
  | some d, some _ =>
    if found then [.update newKey newParent]
    else [.update newKey newParent, .del newKey d false, .create newKey]

/-- `buildKey` -/
def buildKey (src tgt : Str) (incr : Bool) (k : Str) : Str :=
  if !incr then join [tgt, k.drop src.length] else join [tgt, dateKey true, k.drop src.length]

/-- the process function of filer.sync / filer.backup; `none` = the Go code panics
    (`message.NewParentPath[len(sourcePath):]` with a shorter NewParentPath) -/
def syncEv (src tgt : Str) (incr found : Bool) (dir : Str) (old : Option (Bool × Str)) (new : Option (Bool × Str))
    (newParent : Str) : Option (List Call) :=
  let oldKey : Str := match old with | some o => child dir o.2 | none => []
  let newKey : Str := match new with | some n => child newParent n.2 | none => []
  if !hasPrefix dir src then some [] else
  match old, new with
  | some o, none => if !hasPrefix oldKey src then some [] else some [.del (buildKey src tgt incr oldKey) o.1 true]
  | none, some _ => if !hasPrefix newKey src then some [] else some [.create (buildKey src tgt incr newKey)]
  | none, none => some []
  | some o, some _ =>
    if hasPrefix oldKey src then
      if hasPrefix newKey src then
        if !incr then
          let oldT := join [tgt, oldKey.drop src.length]
          if newParent.length < src.length then none else
          let np := join [tgt, newParent.drop src.length]
          if found then some [.update oldT np]
          else some [.update oldT np, .del oldT o.1 false, .create (buildKey src tgt incr newKey)]
        else some [.create (buildKey src tgt incr newKey)]
      else if !incr then some [.del (buildKey src tgt incr oldKey) o.1 true] else some []
    else if hasPrefix newKey src then some [.create (buildKey src tgt incr newKey)] else some []

end SwV.Model.C36
