/-
C35 — model of weed/wdclient/vid_map.go: the client's cache volume id ↦ locations.

`vid2Locations` maps a volume id to a Go SLICE; `addLocation` appends (in place when the
backing array has room, into a fresh array of doubled capacity otherwise); `GetLocations`
hands the slice itself to the caller.  `deleteLocation` builds the shortened list in a FRESH
array of exactly len-1 cells (since the repair in /repo; before it did
`append(locations[0:i], locations[i+1:]...)`, which shifted the tail left inside the array
the readers still held — that in-place form is kept below as `Cell.delInPlace` for contrast
only).  To make the aliasing expressible, a map entry is modelled as its backing array (all
`cap` cells) plus the slice length; a reader that keeps a returned slice keeps (volume,
length) and sees whatever the cells hold later — unless the entry was re-allocated since
(by a growing add or by a delete), in which case its array is frozen (nobody writes to it
any more).

Core Lean only.
-/
namespace SwV.Model.C35

structure Loc where
  url : String
  dc : String
deriving DecidableEq, Repr

def zeroLoc : Loc := ⟨"", ""⟩

/-- one map entry: the backing array (length = capacity) and the slice length -/
structure Cell where
  arr : List Loc
  len : Nat
deriving Repr

/-- what the slice shows -/
def Cell.view (c : Cell) : List Loc := c.arr.take c.len

def hasUrl (l : List Loc) (u : String) : Bool := l.any (fun x => x.url == u)

/-- Go's `growslice` for one more element: double.  Exact for the capacities the check reaches
    (cap ≤ 5 before the step, at most 6 urls per volume: 96·cap bytes is an allocator size class for
    cap = 1..5, so no rounding; every reported capacity is compared).  Larger or odd capacities may be
    rounded up by the allocator; no theorem depends on the value. -/
def growCap (cap : Nat) : Nat := if cap = 0 then 1 else 2 * cap

/-- `addLocation` on an existing entry; the flag says "re-allocated" -/
def Cell.add (c : Cell) (loc : Loc) : Cell × Bool :=
  if hasUrl c.view loc.url then (c, false)
  else if c.len < c.arr.length then ({ arr := c.arr.set c.len loc, len := c.len + 1 }, false)
  else ({ arr := c.view ++ [loc] ++ List.replicate (growCap c.arr.length - c.len - 1) zeroLoc, len := c.len + 1 }, true)

/-- `deleteLocation` (repaired): first entry with that url; the remaining entries are copied into a
    fresh array of exactly len-1 cells (`make([]Location, 0, len(locations)-1)` + two appends); the old
    array is not written.  The flag says "re-allocated". -/
def Cell.del (c : Cell) (u : String) : Cell × Bool :=
  let i := c.view.findIdx (fun x => x.url == u)
  if i < c.len then ({ arr := c.view.eraseIdx i, len := c.len - 1 }, true)
  else (c, false)

/-- the PRE-REPAIR `deleteLocation` (`append(locations[0:i], locations[i+1:]...)`), for contrast only —
    it is NOT what the code does any more: the cells after the match move one to the left inside the
    same array, the cell that held the last element keeps its old content -/
def Cell.delInPlace (c : Cell) (u : String) : Cell :=
  let i := c.view.findIdx (fun x => x.url == u)
  if i < c.len then
    { arr := c.arr.take i ++ (c.arr.drop (i + 1)).take (c.len - 1 - i) ++ c.arr.drop (c.len - 1), len := c.len - 1 }
  else c

/-- a reader that kept the slice returned by `GetLocations` -/
structure Held where
  vid : Nat
  len : Nat
  frozen : Option (List Loc)
deriving Repr

structure St where
  vids : Nat → Option Cell := fun _ => none
  held : Option Held := none

/-- a re-allocation of volume `vid`'s entry leaves the old array `old` to the reader that holds it -/
def freezeHeld (held : Option Held) (realloc : Bool) (vid : Nat) (old : List Loc) : Option Held :=
  match held with
  | some h => if realloc ∧ h.vid = vid ∧ h.frozen.isNone then some { h with frozen := some old } else some h
  | none => none

def addLocation (st : St) (vid : Nat) (loc : Loc) : St :=
  match st.vids vid with
  | none => { st with vids := fun v => if v = vid then some { arr := [loc], len := 1 } else st.vids v }
  | some c =>
    let (c', realloc) := c.add loc
    { vids := fun v => if v = vid then some c' else st.vids v, held := freezeHeld st.held realloc vid c.arr }

def deleteLocation (st : St) (vid : Nat) (u : String) : St :=
  match st.vids vid with
  | none => st
  | some c =>
    let (c', realloc) := c.del u
    { vids := fun v => if v = vid then some c' else st.vids v, held := freezeHeld st.held realloc vid c.arr }

/-- PRE-REPAIR `deleteLocation` (in place; the reader's array is written), for contrast only -/
def deleteLocationInPlace (st : St) (vid : Nat) (u : String) : St :=
  match st.vids vid with
  | none => st
  | some c => { st with vids := fun v => if v = vid then some (c.delInPlace u) else st.vids v }

/-- `GetLocations` -/
def getLocations (st : St) (vid : Nat) : Option (List Loc) := (st.vids vid).map Cell.view

/-- the caller keeps the returned slice -/
def hold (st : St) (vid : Nat) : St :=
  match st.vids vid with
  | none => { st with held := none }
  | some c => { st with held := some { vid := vid, len := c.len, frozen := none } }

/-- what the kept slice shows now -/
def peek (st : St) : List Loc :=
  match st.held with
  | none => []
  | some h =>
    match h.frozen with
    | some a => a.take h.len
    | none =>
      match st.vids h.vid with
      | some c => c.arr.take h.len
      | none => []

/-- the loop of `LookupVolumeServerUrl`: other-DC (or unknown-DC) urls are appended, same-DC urls are put in front -/
def orderUrls (dc : String) (l : List Loc) : List String :=
  l.foldl (fun acc loc => if dc == "" || loc.dc == "" || dc != loc.dc then acc ++ [loc.url] else loc.url :: acc) []

def lookupUrls (st : St) (dc : String) (vid : Nat) : Option (List String) :=
  (getLocations st vid).map (orderUrls dc)

inductive Op where
  | add (vid : Nat) (loc : Loc)
  | del (vid : Nat) (url : String)
  | hold (vid : Nat)
deriving Repr

def applyOp (st : St) : Op → St
  | .add v l => addLocation st v l
  | .del v u => deleteLocation st v u
  | .hold v => hold st v

def run (ops : List Op) : St := ops.foldl applyOp {}

/-! ### atomicity of `addLocation`

`addLocation` takes the write lock FIRST and releases it on return: the presence check and the append
are one atomic step, which is what `addLocation` above models (a concurrent execution of several update
streams is some interleaving = some sequence of such steps).  For contrast, the SPLIT model below
performs the presence check and the append as two separately scheduled steps (what a check under
`RLock` followed by an append under a later `Lock` would be); it is NOT what the code does — the bridge
theorems in Props/C35.lean pin the source of `addLocation` so that such a change breaks an obligation. -/

inductive SStep where
  | check (tid : Nat) (loc : Loc)      -- thread `tid` looks whether loc.url is listed and remembers the answer
  | append (tid : Nat) (loc : Loc)     -- thread `tid` appends unless it remembered "listed"
deriving Repr

/-- one volume: the listed locations and, per thread, the remembered answer -/
structure SSt where
  view : List Loc := []
  seen : List (Nat × Bool) := []

def splitStep (st : SSt) : SStep → SSt
  | .check t loc => { st with seen := (t, hasUrl st.view loc.url) :: st.seen }
  | .append t loc =>
    match st.seen.lookup t with
    | some true => st
    | _ => { st with view := st.view ++ [loc] }

def splitRun (steps : List SStep) : SSt := steps.foldl splitStep {}

/-- the atomic step on one volume's list -/
def atomicAdd (l : List Loc) (loc : Loc) : List Loc := if hasUrl l loc.url then l else l ++ [loc]

end SwV.Model.C35
