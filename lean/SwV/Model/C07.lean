/-
C07 — executable model of the sorted index (.ecx / .sdx) at BYTE level.

Files are `List Nat` (bytes).  An index entry is `w = 8 + os + 4` bytes (`os` = OffsetSize,
4 or 5): 8-byte big-endian key, offset bytes, 4-byte big-endian size.  Mirrors
  weed/storage/erasure_coding/ec_volume.go       SearchNeedleFromSortedIndex, FindNeedleFromEcx
  weed/storage/erasure_coding/ec_volume_delete.go MarkNeedleDeleted, DeleteNeedleFromEcx, RebuildEcxFile
  weed/storage/erasure_coding/ec_decoder.go       WriteIdxFileFromEcIndex
  weed/storage/needle_map_sorted_file.go          SortedFileNeedleMap.Get/Delete
Core Lean only.
-/
namespace SwV.Model.C07

/-- big-endian value of a byte list -/
def beNat (bs : List Nat) : Nat := bs.foldl (fun a b => a * 256 + b) 0

/-- `n`-byte big-endian encoding -/
def beBytes : Nat → Nat → List Nat
  | 0, _ => []
  | n + 1, v => beBytes n (v / 256) ++ [v % 256]

/-- os.File.ReadAt of `n` bytes (short at end of file) -/
def readAt (bs : List Nat) (off n : Nat) : List Nat := (bs.drop off).take n

/-- os.File.WriteAt: overwrites in place; a write past the end extends the file (zero-filled gap) -/
def writeAt (bs : List Nat) (off : Nat) (d : List Nat) : List Nat :=
  let p := if bs.length < off then bs ++ List.replicate (off - bs.length) 0 else bs
  p.take off ++ d ++ p.drop (off + d.length)

/-- NeedleMapEntrySize -/
def entryWidth (os : Nat) : Nat := 8 + os + 4

def tombstone : List Nat := [255, 255, 255, 255]

/-- Go `int32(uint32)` -/
def toInt32 (v : Nat) : Int := if v < 2147483648 then (v : Int) else (v : Int) - 4294967296

def keyOf (e : List Nat) : Nat := beNat (e.take 8)

/-- offset in units of 8 bytes: bytes b3 b2 b1 b0 [b4] (the HIGH byte comes last in 5-byte builds) -/
def offOf (os : Nat) (e : List Nat) : Nat :=
  let ob := (e.drop 8).take os
  beNat (ob.take 4) + (if os > 4 then (ob.drop 4).headD 0 * 4294967296 else 0)

def sizeOf (os : Nat) (e : List Nat) : Int := toInt32 (beNat ((e.drop (8 + os)).take 4))

/-- `types.Size.IsDeleted` -/
def isDeleted (s : Int) : Bool := s < 0
/-- `types.Size.IsValid` -/
def isValid (s : Int) : Bool := s > 0 && s != -1

/-- the binary search loop of `SearchNeedleFromSortedIndex`: index `m` of the hit.
    `fuel` bounds the iterations (`h - l` halves every round). -/
def searchLoop (os : Nat) (bs : List Nat) (key : Nat) : Nat → Nat → Nat → Option Nat
  | 0, _, _ => none
  | fuel + 1, l, h =>
    if l < h then
      let m := (l + h) / 2
      let k := keyOf (readAt bs (m * entryWidth os) (entryWidth os))
      if k = key then some m
      else if k < key then searchLoop os bs key fuel (m + 1) h
      else searchLoop os bs key fuel l m
    else none

/-- `l, h := 0, ecxFileSize/NeedleMapEntrySize` -/
def search (os : Nat) (bs : List Nat) (key : Nat) : Option Nat :=
  searchLoop os bs key (bs.length / entryWidth os + 1) 0 (bs.length / entryWidth os)

/-- `FindNeedleFromEcx` / `SortedFileNeedleMap.Get`: (offset units, size) of the entry found -/
def find (os : Nat) (bs : List Nat) (key : Nat) : Option (Nat × Int) :=
  match search os bs key with
  | none => none
  | some m =>
    let e := readAt bs (m * entryWidth os) (entryWidth os)
    some (offOf os e, sizeOf os e)

/-- `MarkNeedleDeleted(file, offset)`: 4 tombstone bytes at `offset + NeedleIdSize + OffsetSize` -/
def markDeleted (os : Nat) (bs : List Nat) (cbOffset : Nat) : List Nat :=
  writeAt bs (cbOffset + 8 + os) tombstone

/-- the callback offset `m * mult`; the source has `mult = NeedleMapEntrySize`
    (bridge theorem `bridge_callback_multiplier`); before the fix it was `NeedleHeaderSize = 16`. -/
def searchAndMarkWith (mult : Nat) (os : Nat) (bs : List Nat) (key : Nat) : Option (List Nat) :=
  match search os bs key with
  | none => none
  | some m => some (markDeleted os bs (m * mult))

def searchAndMark (os : Nat) (bs : List Nat) (key : Nat) : Option (List Nat) :=
  searchAndMarkWith (entryWidth os) os bs key

/-- `DeleteNeedleFromEcx`: mark in the index, then append the key to the journal; not found = no-op -/
def deleteEcx (os : Nat) (ecx ecj : List Nat) (key : Nat) : List Nat × List Nat :=
  match searchAndMark os ecx key with
  | none => (ecx, ecj)
  | some ecx' => (ecx', ecj ++ beBytes 8 key)

/-! ### sessions: the journal is a file handle with a write position

`NewEcVolume` opens the .ecj with `O_RDWR|O_CREATE` (no `O_APPEND`): the handle of a new session
starts at position 0 of the existing journal.  `DeleteNeedleFromEcx` does
`Seek(0, io.SeekEnd)` and then `Write`, i.e. it writes at the current END of the file. -/

/-- an open EC volume: served index, journal contents, journal handle position -/
structure Vol where
  ecx : List Nat
  ecj : List Nat
  pos : Nat
deriving Repr

/-- `NewEcVolume` on existing files -/
def Vol.reopen (v : Vol) : Vol := { v with pos := 0 }

/-- `Seek(0, io.SeekEnd)`; `Write(b)` -/
def Vol.journalWrite (v : Vol) (b : List Nat) : Vol :=
  let p := v.ecj.length
  { v with ecj := writeAt v.ecj p b, pos := p + b.length }

/-- `DeleteNeedleFromEcx` on a session -/
def Vol.delete (os : Nat) (v : Vol) (key : Nat) : Vol :=
  match searchAndMark os v.ecx key with
  | none => v
  | some ecx' => Vol.journalWrite { v with ecx := ecx' } (beBytes 8 key)

inductive Ev where
  | del (key : Nat)
  | reopen
deriving Repr

def Vol.step (os : Nat) (v : Vol) : Ev → Vol
  | .del k => v.delete os k
  | .reopen => v.reopen

/-- any number of sessions on a fresh EC volume (empty journal) -/
def Vol.run (os : Nat) (ecx : List Nat) (evs : List Ev) : Vol :=
  evs.foldl (Vol.step os) ⟨ecx, [], 0⟩

/-- the keys of a journal file: consecutive full 8-byte records -/
def journalKeys : Nat → List Nat → List Nat
  | 0, _ => []
  | fuel + 1, bs =>
    let c := bs.take 8
    if c.length < 8 then [] else beNat c :: journalKeys fuel (bs.drop 8)

def ecjKeys (ecj : List Nat) : List Nat := journalKeys (ecj.length + 1) ecj

/-- `RebuildEcxFile`: re-apply every journalled deletion to the index -/
def rebuildWith (os : Nat) (ecx : List Nat) (keys : List Nat) : List Nat :=
  keys.foldl (fun bs k => (searchAndMark os bs k).getD bs) ecx

def rebuild (os : Nat) (ecx ecj : List Nat) : List Nat := rebuildWith os ecx (ecjKeys ecj)

/-- `ToBytes(key, Offset{}, TombstoneFileSize)` -/
def tombstoneEntry (os : Nat) (key : Nat) : List Nat :=
  beBytes 8 key ++ List.replicate os 0 ++ tombstone

/-- `WriteIdxFileFromEcIndex`: copy of the .ecx followed by one tombstone entry per journal key -/
def idxFromEc (os : Nat) (ecx ecj : List Nat) : List Nat :=
  ecx ++ (ecjKeys ecj).flatMap (tombstoneEntry os)

/-- offset bytes as `OffsetToBytes` lays them out -/
def offBytes (os : Nat) (off : Nat) : List Nat :=
  beBytes 4 (off % 4294967296) ++ (if os > 4 then [off / 4294967296 % 256] else [])

def entryBytes (os : Nat) (key off : Nat) (sizeU32 : Nat) : List Nat :=
  beBytes 8 key ++ offBytes os off ++ beBytes 4 sizeU32

/-- `SortedFileNeedleMap.Delete`.  Two quirks of the code are reproduced:
    * `NewSortedFileNeedleMap` never initialises `indexFileOffset` (the other needle maps set it to
      the .idx size), so `appendToIndexFile` writes the tombstone record at offset 0, 1·w, 2·w … of
      the .idx, OVER the existing records;
    * the .sdx handle is opened with `os.Open` (read-only), so the `WriteAt` of `MarkNeedleDeleted`
      fails: the sorted file is untouched and an error is returned.
    Result: (ok, sdx', idx', indexFileOffset'). -/
def sortedDelete (os : Nat) (sdx idx : List Nat) (idxOff : Nat) (key off : Nat) : Bool × List Nat × List Nat × Nat :=
  match find os sdx key with
  | none => (true, sdx, idx, idxOff)
  | some (_, size) =>
    if isDeleted size then (true, sdx, idx, idxOff)
    else (false, sdx, writeAt idx idxOff (entryBytes os key off 4294967295), idxOff + entryWidth os)

end SwV.Model.C07
