/-
C31 — byte-level view of one cache volume (`ChunkCacheVolume`): the data file as a byte list, the needle map
as KEY → (offset, size). `BVol.abs` is the abstraction to the `Vol` of SwV/Model/C31.lean (an entry carries
the bytes it points to); `SwV.Props.C31.bvol_write_refines` shows WriteNeedle commutes with it, i.e. appends
never disturb what earlier entries read.
-/
import SwV.Model.C31

namespace SwV.Model.C31

structure BVol where
  dat : Bytes
  /-- key, offset, size — newest first, one per key -/
  idx : List (Nat × Nat × Nat)
deriving Repr

/-- `WriteNeedle`: WriteAt(data, fileSize), zero padding up to a multiple of 8, `nm.Put(key, fileSize, len)` -/
def BVol.write (v : BVol) (key : Nat) (d : Bytes) : BVol :=
  { dat := v.dat ++ (d ++ List.replicate (padded d.length - d.length) 0),
    idx := (key, v.dat.length, d.length) :: v.idx.filter (fun e => e.1 != key) }

/-- `GetNeedle`: ReadAt(size bytes, offset) -/
def BVol.read (v : BVol) (e : Nat × Nat × Nat) : Bytes := (v.dat.drop e.2.1).take e.2.2

def BVol.abs (v : BVol) (fileIdx : Nat) : Vol :=
  ⟨fileIdx, v.dat.length, v.idx.map fun e => ⟨e.1, e.2.1, v.read e⟩⟩

/-- every index entry lies inside the data file -/
def BVol.Wf (v : BVol) : Prop := ∀ e ∈ v.idx, e.2.1 + e.2.2 ≤ v.dat.length

end SwV.Model.C31
