/-
C24 — executable model of "the filer metadata stores return what was stored" (seaweedfs 2.59):

  * `FilerStoreWrapper.InsertEntry/UpdateEntry`: `BeforeEntrySerialization` (file id strings that
    parse become `Fid` objects, the string is cleared; same for source ids) and the mime
    normalisation (`application/octet-stream` ↦ ""), then the store's `InsertEntry`:
    `EncodeAttributesAndChunks` (protobuf, abstract) and, for more than 50 chunks, `MaybeGzipData`;
  * the store's `FindEntry` / list loop: `MaybeDecompressData` ("looks like gzip" = 1f 8b) then
    `DecodeAttributesAndChunks`; the wrapper's `FindEntry`/`ListDirectoryEntries` add
    `AfterEntryDeserialization` (file id strings rebuilt from the `Fid` objects), the native
    `ListDirectoryPrefixedEntries` path used by `Filer.ListDirectoryEntries` does not;
  * protobuf and gzip are abstract codecs (`Codec`, trusted base): only round trip, the gzip magic
    and the first tag byte of a marshalled `filer_pb.Entry` are assumed.

File ids reuse the model of C08 (`parseFid` = needle.ParseFileIdFromString incl. the uint32
truncation of the volume id, `fidString` = FileId.String).
-/
import SwV.Model.C08
namespace SwV.Model.C24
open SwV.Model.C08

structure Chunk where
  fileId : List Char
  fid : Option Fid
  srcFileId : List Char
  srcFid : Option Fid
  /-- offset, size, mtime, etag, cipher key, flags: opaque to the canonicalisation -/
  payload : String
deriving Repr, DecidableEq

structure Entry where
  /-- mtime crtime mode uid gid | replication collection ttl diskType user groups symlink md5 size (opaque tokens) -/
  attrs : List String
  mode : Nat
  mime : List Char
  chunks : List Chunk
  /-- extended attributes, hard link id, hard link counter, inline content, remote info (opaque tokens) -/
  tail : List String
deriving Repr, DecidableEq

/-- `ToFileIdObject` + clearing of the string, for one (string, object) pair -/
def beforeId (s : List Char) (f : Option Fid) : List Char × Option Fid :=
  if s ≠ [] then
    match parseFid s with
    | some g => ([], some g)
    | none => (s, f)
  else (s, f)

/-- `AfterEntryDeserialization` for one pair -/
def afterId (s : List Char) (f : Option Fid) : List Char × Option Fid :=
  match f with
  | some g => if s = [] then (fidString g, f) else (s, f)
  | none => (s, f)

def beforeChunk (c : Chunk) : Chunk :=
  let a := beforeId c.fileId c.fid
  let b := beforeId c.srcFileId c.srcFid
  { c with fileId := a.1, fid := a.2, srcFileId := b.1, srcFid := b.2 }

def afterChunk (c : Chunk) : Chunk :=
  let a := afterId c.fileId c.fid
  let b := afterId c.srcFileId c.srcFid
  { c with fileId := a.1, fid := a.2, srcFileId := b.1, srcFid := b.2 }

def octetStream : List Char := "application/octet-stream".toList

/-- what `FilerStoreWrapper.InsertEntry` hands to the store -/
def beforeEntry (e : Entry) : Entry :=
  { e with chunks := e.chunks.map beforeChunk, mime := if e.mime = octetStream then [] else e.mime }

def afterEntry (e : Entry) : Entry := { e with chunks := e.chunks.map afterChunk }

/-- `GetFileIdString`: the file id a reader uses -/
def effId (s : List Char) (f : Option Fid) : List Char :=
  if s ≠ [] then s else match f with
    | some g => fidString g
    | none => []

/-! ### values: protobuf / gzip as abstract codecs -/

abbrev Bytes := List Nat

/-- `IsGzippedContent` -/
def looksGzip : Bytes → Bool
  | a :: b :: _ => a = 31 ∧ b = 139
  | _ => false

/-- os.ModeDir -/
def isDir (e : Entry) : Bool := e.mode / 2 ^ 31 % 2 = 1

/-- field numbers of filer_pb.Entry (filer.proto): is_directory = 2 (varint), chunks = 3, attributes = 4 (length-delimited) -/
def tagIsDirectory : Nat := 2 * 8 + 0
def tagChunks : Nat := 3 * 8 + 2
def tagAttributes : Nat := 4 * 8 + 2

/-- first byte of the marshalled entry: `name` is never set by `EncodeAttributesAndChunks`, fields are
    written in field-number order, `attributes` is always present -/
def firstTag (e : Entry) : Nat :=
  if isDir e then tagIsDirectory else if e.chunks ≠ [] then tagChunks else tagAttributes

/-- a protobuf tag byte: low three bits are a wire type (0 varint, 1 fixed64, 2 bytes, 3/4 group, 5 fixed32) -/
def validTagByte (t : Nat) : Bool := t % 8 ≤ 5

structure Codec where
  marshal : Entry → Bytes
  unmarshal : Bytes → Option Entry
  gzip : Bytes → Bytes
  gunzip : Bytes → Option Bytes

/-- the trusted base about protobuf and gzip -/
structure Codec.Sound (C : Codec) : Prop where
  proto_rt : ∀ e, C.unmarshal (C.marshal e) = some e
  first_byte : ∀ e, (C.marshal e).head? = some (firstTag e)
  gzip_rt : ∀ b, C.gunzip (C.gzip b) = some b
  gzip_magic : ∀ b, looksGzip (C.gzip b) = true

/-- `MaybeGzipData` -/
def maybeGzip (C : Codec) (v : Bytes) : Bytes :=
  if looksGzip v then v
  else if (C.gzip v).length * 10 > v.length * 9 then v else C.gzip v

/-- `MaybeDecompressData` -/
def maybeDecompress (C : Codec) (v : Bytes) : Bytes :=
  if looksGzip v then (match C.gunzip v with | some u => u | none => v) else v

/-- the store's `InsertEntry`: the value written under the entry's key -/
def storeValue (C : Codec) (e : Entry) : Bytes :=
  if e.chunks.length > 50 then maybeGzip C (C.marshal e) else C.marshal e

/-- the store's `FindEntry` / list loop: decode a stored value -/
def loadValue (C : Codec) (v : Bytes) : Option Entry := C.unmarshal (maybeDecompress C v)

/-! ### the key-value store behind a wrapper -/

/-- a store: key ↦ value, newest binding first -/
abbrev KV := List (Bytes × Bytes)

def kvPut (s : KV) (k v : Bytes) : KV := (k, v) :: s
def kvGet (s : KV) (k : Bytes) : Option Bytes := (s.find? fun p => p.1 = k).map (·.2)

/-- leveldb `genKey(dir, name)`: dir 00 name (the same formula as `Model.C19.dirKey`, which the C19
    correspondence check ties to the store through listing behaviour) -/
def keyLeveldb (dir name : Bytes) : Bytes := dir ++ [0] ++ name

/-- leveldb2 / leveldb3 `genKey`: md5(dir) name, with the hash function as a parameter -/
def keyMd5 (h : Bytes → Bytes) (dir name : Bytes) : Bytes := h dir ++ name

/-- wrapper InsertEntry / UpdateEntry -/
def insert (C : Codec) (key : Bytes) (s : KV) (e : Entry) : KV := kvPut s key (storeValue C (beforeEntry e))

/-- wrapper FindEntry and wrapper ListDirectoryEntries (both run AfterEntryDeserialization) -/
def find (C : Codec) (key : Bytes) (s : KV) : Option Entry :=
  match kvGet s key with
  | some v => (loadValue C v).map afterEntry
  | none => none

/-- native prefixed listing (Filer.ListDirectoryEntries): no AfterEntryDeserialization -/
def listRaw (C : Codec) (key : Bytes) (s : KV) : Option Entry :=
  match kvGet s key with
  | some v => loadValue C v
  | none => none

/-- a batch of inserts executed as atomic steps in the listed order (what any interleaving of concurrent
    writers amounts to when every store insert is atomic) -/
def insertAll (C : Codec) (s : KV) (l : List (Bytes × Entry)) : KV :=
  l.foldl (fun s p => insert C p.1 s p.2) s

/-! ### hard links -/

/-- the hard link id token of an entry ("-" = none) -/
def hardLinkId (e : Entry) : String := e.tail.getD 1 "-"

/-- `FindEntry` and the wrapper's `ListDirectoryEntries` run `maybeReadHardLink`: an entry with a hard
    link id is replaced by the blob kept under that id (`setHardLink` writes it on every insert/update
    of ANY link), then `AfterEntryDeserialization` -/
def readResolved (own : Entry) (shared : Option Entry) : Entry :=
  afterEntry (if hardLinkId own = "-" then own else match shared with
    | some s => s
    | none => own)

/-- the native prefixed listing (`Filer.ListDirectoryEntries` on leveldb*) hands out the entry's own
    blob: neither `maybeReadHardLink` nor `AfterEntryDeserialization` -/
def readRaw (own : Entry) (_shared : Option Entry) : Entry := own

end SwV.Model.C24
