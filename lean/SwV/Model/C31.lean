/-
C31 — the mount's chunk cache (`weed/util/chunk_cache`): executable model (core Lean only).

Mirrors, function by function:
  chunk_cache.go            NewTieredChunkCache / doGetChunk / doGetChunkSlice / doSetChunk
  on_disk_cache_layer.go    NewOnDiskCacheLayer / setChunk (rotation) / getChunk / getChunkSlice
  chunk_cache_on_disk.go    ChunkCacheVolume: WriteNeedle / GetNeedle / getNeedleSlice / Reset /
                            LoadOrCreateChunkCacheVolume (reopen)
  chunk_cache_in_memory.go  ChunkCacheInMemory (ccache keyed by the file id STRING)
  storage/needle_map_leveldb.go  NewLevelDbNeedleMap: isLevelDbFresh / generateLevelDbFile (on reopen)

What the code does, and the model keeps:
* three disk layers for chunk sizes ≤ unit, ≤ 4·unit, larger; 2/3/2 volumes of diskSize/segments bytes each;
* a volume is an append-only data file plus a needle map  KEY → (offset, size); the map is keyed by
  the NEEDLE KEY ONLY: `doSetChunk`/`doGetChunk` parse the file id and pass `fid.Key`; volume id and
  cookie are dropped, never stored, never compared;
* `setChunk` rotates when volume 0 would overflow: the LAST volume is reset and becomes volume 0;
  the write itself is unconditional (also for data larger than a whole volume);
* lookups walk the volumes of a layer front to back and take the first NON-EMPTY answer;
* the in-memory tier is a map keyed by the whole file id; its eviction (ccache's background worker)
  is not a function of the call sequence: the model has an explicit `evict` step (any subset);
* restart = Shutdown + NewTieredChunkCache on the same directory: memory is empty; every layer
  re-sorts its volumes by the data files' modification times; a volume whose leveldb is not "fresh"
  (LOG not newer than .idx) is regenerated from the .idx log, which DROPS entries at offset 0 and
  entries of size 0 (`if !offset.IsZero() && size.IsValid()` in generateLevelDbFile). Both decisions
  depend on file timestamps, so they are oracle inputs of the `restart` step.
The data file itself is abstracted: an entry carries the bytes that were appended for it (appends
never overlap: trusted base, validated by the correspondence check).
Bytes are `Nat`s (0..255 in the traces).
-/
namespace SwV.Model.C31

abbrev Bytes := List Nat

structure Fid where
  vid : Nat
  key : Nat
  cookie : Nat
deriving DecidableEq, Repr

/-- one needle-map entry together with the bytes it points to -/
structure Entry where
  key : Nat
  off : Nat
  data : Bytes
deriving DecidableEq, Repr

structure Vol where
  /-- the `_i` of the file name (volumes change position in the layer, files keep their names) -/
  fileIdx : Nat
  fileSize : Nat
  entries : List Entry
deriving DecidableEq, Repr

structure Layer where
  /-- `sizeLimit` of every volume of the layer -/
  limit : Nat
  /-- `diskCaches`, position 0 first -/
  vols : List Vol
deriving DecidableEq, Repr

structure Cache where
  lim0 : Nat
  lim1 : Nat
  lim2 : Nat
  mem : List (Fid × Bytes)
  l0 : Layer
  l1 : Layer
  l2 : Layer
deriving DecidableEq, Repr

/-! ## volumes -/

/-- `types.NeedlePaddingSize` -/
def padding : Nat := 8

/-- bytes a write of `n` data bytes adds to `fileSize` (WriteNeedle pads to 8) -/
def padded (n : Nat) : Nat := if n % padding = 0 then n else n + (padding - n % padding)

/-- `nm.Get(key)` -/
def Vol.get (v : Vol) (key : Nat) : Option Entry := v.entries.find? (fun e => e.key == key)

/-- `WriteNeedle`: append at `fileSize`, `nm.Put(key, offset, len)` replaces the key's entry -/
def Vol.write (v : Vol) (key : Nat) (d : Bytes) : Vol :=
  { v with fileSize := v.fileSize + padded d.length,
           entries := ⟨key, v.fileSize, d⟩ :: v.entries.filter (fun e => e.key != key) }

/-- what `generateLevelDbFile` keeps -/
def Entry.survivesRegen (e : Entry) : Bool := e.off != 0 && e.data.length != 0

/-- Shutdown + LoadOrCreateChunkCacheVolume on the same files -/
def Vol.reopen (v : Vol) (fresh : Bool) : Vol :=
  if fresh then v else { v with entries := v.entries.filter Entry.survivesRegen }

/-! ## layers -/

/-- `NewOnDiskCacheLayer` in an empty directory: volumes are created 0..n-1 and sorted newest first -/
def mkLayer (diskSize segments : Nat) : Layer :=
  let big := 30000 * 1024 * 1024
  let cnt := diskSize / big
  let n := if cnt < segments then segments else cnt
  let sz := if cnt < segments then diskSize / segments else big
  { limit := sz, vols := ((List.range n).map fun i => (⟨i, 0, []⟩ : Vol)).reverse }

/-- reset the last volume and move it to the front -/
def Layer.rotated (l : Layer) : List Vol :=
  match l.vols.getLast? with
  | none => []
  | some last => ⟨last.fileIdx, 0, []⟩ :: l.vols.dropLast

/-- `OnDiskCacheLayer.setChunk` -/
def Layer.set (l : Layer) (key : Nat) (d : Bytes) : Layer :=
  match l.vols with
  | [] => l
  | v0 :: _ =>
    let vols := if v0.fileSize + d.length > l.limit then l.rotated else l.vols
    match vols with
    | [] => l
    | w :: ws => { l with vols := w.write key d :: ws }

def Layer.willRotate (l : Layer) (d : Bytes) : Bool :=
  match l.vols with
  | [] => false
  | v0 :: _ => v0.fileSize + d.length > l.limit

/-- `OnDiskCacheLayer.getChunk`: the first volume with a non-empty needle for the key -/
def getVols : List Vol → Nat → Bytes
  | [], _ => []
  | v :: vs, key =>
    match v.get key with
    | some e => if e.data.length != 0 then e.data else getVols vs key
    | none => getVols vs key

/-- `OnDiskCacheLayer.getChunkSlice` over `getNeedleSlice`: an offset beyond the needle is an
    error (next volume), an empty slice is skipped (next volume) -/
def sliceVols : List Vol → Nat → Nat → Nat → Bytes
  | [], _, _, _ => []
  | v :: vs, key, off, len =>
    match v.get key with
    | some e =>
      if e.data.length < off then sliceVols vs key off len
      else if ((e.data.drop off).take len).length != 0 then (e.data.drop off).take len
      else sliceVols vs key off len
    | none => sliceVols vs key off len

structure LayerOracle where
  /-- file indices in the order the reopened layer holds them (newest data file first) -/
  order : List Nat
  /-- per file index: is the leveldb directory newer than the .idx file (no regeneration) -/
  fresh : List Bool
deriving Repr

def Layer.restart (l : Layer) (o : LayerOracle) : Layer :=
  { l with vols := o.order.filterMap fun i =>
      (l.vols.find? (fun v => v.fileIdx == i)).map fun v => v.reopen (o.fresh.getD i false) }

/-! ## the tiered cache -/

/-- `NewTieredChunkCache(_, dir, diskSizeInUnit, unitSize)` on an empty directory -/
def newCache (unit disk : Nat) : Cache :=
  { lim0 := unit, lim1 := 4 * unit, lim2 := 2 * (4 * unit), mem := [],
    l0 := mkLayer (disk * unit / 8) 2,
    l1 := mkLayer (disk * unit / 4 + disk * unit / 8) 3,
    l2 := mkLayer (disk * unit / 2) 2 }

def memGet (m : List (Fid × Bytes)) (f : Fid) : Option Bytes :=
  (m.find? (fun p => p.1 == f)).map (·.2)

/-- `ChunkCacheInMemory.getChunkSlice` (nil on a miss and on an out-of-bounds offset) -/
def memSlice (m : List (Fid × Bytes)) (f : Fid) (off len : Nat) : Bytes :=
  match memGet m f with
  | none => []
  | some d => if d.length < off then [] else (d.drop off).take len

/-- `doGetChunk` -/
def Cache.get (c : Cache) (f : Fid) (minSize : Nat) : Bytes :=
  let r0 := (memGet c.mem f).getD []
  if minSize ≤ c.lim0 ∧ minSize ≤ r0.length then r0 else
  let r1 := getVols c.l0.vols f.key
  if minSize ≤ c.lim0 ∧ minSize ≤ r1.length then r1 else
  let r2 := getVols c.l1.vols f.key
  if minSize ≤ c.lim1 ∧ minSize ≤ r2.length then r2 else
  let r3 := getVols c.l2.vols f.key
  if minSize ≤ r3.length then r3 else []

/-- `doGetChunkSlice`: every tier's answer is accepted only when it is at least
    `offset + length` long — but an answer is at most `length` long -/
def Cache.getSlice (c : Cache) (f : Fid) (off len : Nat) : Bytes :=
  let minSize := off + len
  let r0 := memSlice c.mem f off len
  if minSize ≤ c.lim0 ∧ minSize ≤ r0.length then r0 else
  let r1 := sliceVols c.l0.vols f.key off len
  if minSize ≤ c.lim0 ∧ minSize ≤ r1.length then r1 else
  let r2 := sliceVols c.l1.vols f.key off len
  if minSize ≤ c.lim1 ∧ minSize ≤ r2.length then r2 else
  let r3 := sliceVols c.l2.vols f.key off len
  if minSize ≤ r3.length then r3 else []

def memSet (m : List (Fid × Bytes)) (f : Fid) (d : Bytes) : List (Fid × Bytes) :=
  (f, d) :: m.filter (fun p => p.1 != f)

/-- `doSetChunk` -/
def Cache.set (c : Cache) (f : Fid) (d : Bytes) : Cache :=
  let c := if d.length ≤ c.lim0 then { c with mem := memSet c.mem f d } else c
  if d.length ≤ c.lim0 then { c with l0 := c.l0.set f.key d }
  else if d.length ≤ c.lim1 then { c with l1 := c.l1.set f.key d }
  else { c with l2 := c.l2.set f.key d }

/-- the in-memory tier forgets any set of ids at any time -/
def Cache.evict (c : Cache) (fs : List Fid) : Cache :=
  { c with mem := c.mem.filter (fun p => !fs.contains p.1) }

/-- Shutdown + NewTieredChunkCache with the same parameters on the same directory -/
def Cache.restart (c : Cache) (o0 o1 o2 : LayerOracle) : Cache :=
  { c with mem := [], l0 := c.l0.restart o0, l1 := c.l1.restart o1, l2 := c.l2.restart o2 }

/-! ## operation sequences -/

inductive Op where
  | store (f : Fid) (d : Bytes)
  | lookup (f : Fid) (minSize : Nat)
  | slice (f : Fid) (off len : Nat)
  | restart (o0 o1 o2 : LayerOracle)
  | evict (fs : List Fid)
deriving Repr

def Cache.step (c : Cache) : Op → Cache
  | .store f d => c.set f d
  | .lookup _ _ => c
  | .slice _ _ _ => c
  | .restart o0 o1 o2 => c.restart o0 o1 o2
  | .evict fs => c.evict fs

def Cache.run (c : Cache) (ops : List Op) : Cache := ops.foldl Cache.step c

/-- the stores of an operation sequence, oldest first -/
def stores : List Op → List (Fid × Bytes)
  | [] => []
  | .store f d :: ops => (f, d) :: stores ops
  | _ :: ops => stores ops

end SwV.Model.C31
