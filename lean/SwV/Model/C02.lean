/-
C02 — needle on-disk encoding: executable byte-level model (core Lean only).
Shared with C03 (crash recovery works on the same bytes).

Mirrors, function by function:
  weed/storage/needle/needle_read_write.go   prepareWriteBuffer / Append (versions 2 and 3), ReadNeedleBlob,
                                             ReadBytes / ReadData, readNeedleDataVersion2, ReadNeedleHeader,
                                             ReadNeedleBody / ReadNeedleBodyBytes,
                                             PaddingLength / NeedleBodyLength / GetActualSize
  weed/storage/needle/crc.go                 NewCRC (CRC-32C, Castagnoli) / CRC.Value
  weed/storage/volume_read.go                ScanVolumeFileFrom
Bytes are `List UInt8`; numbers are `Nat`/`Int` kept in range by the well-formedness predicate.
The CRC function is a PARAMETER (`crc : Bytes → UInt32`) of everything the theorems talk about;
`crc32c` below is the concrete one used by the driver and checked against the real code (T2).
-/
namespace SwV.Model.C02

abbrev Bytes := List UInt8

/-! ## big-endian fields (`util.UintNNtoBytes`, `util.BytesToUintNN`) -/

/-- the low `k` bytes of `n`, big-endian -/
def be : Nat → Nat → Bytes
  | 0, _ => []
  | k + 1, n => UInt8.ofNat (n / 256 ^ k % 256) :: be k n

def beNat (bs : Bytes) : Nat := bs.foldl (fun a b => a * 256 + b.toNat) 0

/-- `Size(uint32)` : reinterpret as int32 -/
def toInt32 (n : Nat) : Int := if n < 2 ^ 31 then (n : Int) else (n : Int) - 2 ^ 32

/-! ## flags -/

def hasFlag (f : UInt8) (bit : UInt8) : Bool := f &&& bit != 0
def isCompressed (f : UInt8) : Bool := hasFlag f 0x01
def hasName (f : UInt8) : Bool := hasFlag f 0x02
def hasMime (f : UInt8) : Bool := hasFlag f 0x04
def hasLastModified (f : UInt8) : Bool := hasFlag f 0x08
def hasTtl (f : UInt8) : Bool := hasFlag f 0x10
def hasPairs (f : UInt8) : Bool := hasFlag f 0x20
def isChunkManifest (f : UInt8) : Bool := hasFlag f 0x80

/-! ## sizes: `PaddingLength`, `NeedleBodyLength`, `GetActualSize` -/

def tsLen (v : Nat) : Nat := if v = 3 then 8 else 0

/-- `PaddingLength` for a non-negative size: `8 - ((16 + size + 4 [+ 8]) % 8)` — never 0 -/
def paddingLength (size v : Nat) : Nat := 8 - (16 + size + 4 + tsLen v) % 8

def bodyLength (size v : Nat) : Nat := size + 4 + tsLen v + paddingLength size v

def actualSize (size v : Nat) : Nat := 16 + bodyLength size v

/-- int32 wrap-around -/
def wrap32 (x : Int) : Int := (x + 2 ^ 31) % 2 ^ 32 - 2 ^ 31

/-- `PaddingLength` on an arbitrary int32 size as Go computes it (int32 arithmetic, `%` truncates toward
    zero): used where sizes come from disk (scan, sizes op) -/
def paddingLengthI (size : Int) (v : Nat) : Int :=
  wrap32 (8 - Int.tmod (wrap32 (16 + size + 4 + tsLen v)) 8)

def bodyLengthI (size : Int) (v : Nat) : Int := size + 4 + tsLen v + paddingLengthI size v

def actualSizeI (size : Int) (v : Nat) : Int := 16 + bodyLengthI size v

/-! ## CRC -/

/-- `CRC.Value()`: `uint32(c>>15 | c<<17) + 0xa282ead8` on a 32-bit value -/
def crcValue (c : Nat) : Nat := ((c >>> 15 ||| (c <<< 17) % 2 ^ 32) + 0xa282ead8) % 2 ^ 32

def crcBit (c : UInt32) : UInt32 :=
  if c &&& 1 = 1 then (c >>> 1) ^^^ 0x82F63B78 else c >>> 1

def crcByte (c : UInt32) (b : UInt8) : UInt32 :=
  let c := c ^^^ b.toUInt32
  crcBit (crcBit (crcBit (crcBit (crcBit (crcBit (crcBit (crcBit c)))))))

/-- CRC-32C (Castagnoli, reflected polynomial 0x82F63B78), table-less: `NewCRC(b)` -/
def crc32c (bs : Bytes) : UInt32 := (bs.foldl crcByte 0xFFFFFFFF) ^^^ 0xFFFFFFFF

/-! ## the needle as `prepareWriteBuffer` sees it -/

structure Needle where
  cookie : Nat
  id : Nat
  flags : UInt8
  data : Bytes
  name : Bytes := []
  mime : Bytes := []
  lastModified : Nat := 0
  /-- `n.Ttl` (a pointer): `none` = nil -/
  ttl : Option (UInt8 × UInt8) := none
  pairs : Bytes := []
  /-- `n.PairsSize` is set by the caller, not derived -/
  pairsSize : Nat := 0
  /-- `n.Checksum` (raw CRC) is set by the caller, not derived -/
  checksum : Nat := 0
  appendAtNs : Nat := 0
deriving Repr, DecidableEq

def nameSize (n : Needle) : Nat := if n.name.length ≥ 255 then 255 else n.name.length
def mimeSize (n : Needle) : Nat := n.mime.length % 256

/-- `n.Size` as computed by `prepareWriteBuffer`: 0 when there is no data (metadata is then NOT stored) -/
def recSize (n : Needle) : Nat :=
  if n.data.length > 0 then
    4 + n.data.length + 1
      + (if hasName n.flags then 1 + nameSize n else 0)
      + (if hasMime n.flags then 1 + mimeSize n else 0)
      + (if hasLastModified n.flags then 5 else 0)
      + (if hasTtl n.flags then 2 else 0)
      + (if hasPairs n.flags then 2 + n.pairsSize else 0)
  else 0

def nameSec (n : Needle) : Bytes :=
  if hasName n.flags then UInt8.ofNat (nameSize n) :: n.name.take (nameSize n) else []
def mimeSec (n : Needle) : Bytes :=
  if hasMime n.flags then UInt8.ofNat (mimeSize n) :: n.mime else []
def lmSec (n : Needle) : Bytes :=
  if hasLastModified n.flags then be 5 n.lastModified else []
/-- TTL bytes are written only when the pointer is non-nil although `Size` counts them whenever the flag is set -/
def ttlSec (n : Needle) : Bytes :=
  if hasTtl n.flags then (match n.ttl with | some (c, u) => [c, u] | none => []) else []
def pairsSec (n : Needle) : Bytes :=
  if hasPairs n.flags then be 2 n.pairsSize ++ n.pairs else []

/-- everything after the flags byte -/
def metaBytes (n : Needle) : Bytes :=
  nameSec n ++ (mimeSec n ++ (lmSec n ++ (ttlSec n ++ pairsSec n)))

/-- the `Size` bytes between header and checksum -/
def bodyBytes (n : Needle) : Bytes :=
  if n.data.length > 0 then
    be 4 n.data.length ++ (n.data ++ (n.flags :: metaBytes n))
  else []

def headerBytes (n : Needle) : Bytes := be 4 n.cookie ++ (be 8 n.id ++ be 4 (recSize n))

/-- The padding is NOT zero filled: it is whatever the 24-byte scratch `header` buffer holds after the
    checksum [and timestamp]: v2 → header[4:12] = (low half of LastModified if written, else high half of
    the id) ++ low half of the id; v3 → header[12:24] = the size bytes ++ zeros. -/
def padSource (v : Nat) (n : Needle) : Bytes :=
  if v = 3 then be 4 (recSize n) ++ [0, 0, 0, 0, 0, 0, 0, 0]
  else (if n.data.length > 0 ∧ hasLastModified n.flags then be 4 n.lastModified else be 4 (n.id / 2 ^ 32)) ++ be 4 n.id

def tailBytes (v : Nat) (n : Needle) : Bytes :=
  be 4 (crcValue n.checksum) ++
    ((if v = 3 then be 8 n.appendAtNs else []) ++ (padSource v n).take (paddingLength (recSize n) v))

/-- `prepareWriteBuffer` for versions 2 and 3: the bytes `Append` writes at the end of the file -/
def encode (v : Nat) (n : Needle) : Bytes :=
  headerBytes n ++ (bodyBytes n ++ tailBytes v n)

/-! ## decoding: `readNeedleDataVersion2`, `ReadBytes`, `ReadData` -/

structure Body where
  dataSize : Nat := 0
  data : Bytes := []
  flags : UInt8 := 0
  nameSize : Nat := 0
  name : Bytes := []
  mimeSize : Nat := 0
  mime : Bytes := []
  lastModified : Nat := 0
  ttl : Option (UInt8 × UInt8) := none
  pairsSize : Nat := 0
  pairs : Bytes := []
deriving Repr, DecidableEq

inductive Fail where
  | sizeMismatch
  | parse (k : Nat)   -- "index out of range k"
  | crc
  | eof
  | panic
deriving Repr, DecidableEq

/-- parser cursor: the bytes from `index` up to the CAPACITY of the slice, and `lenBytes - index` -/
structure Cur where
  rest : Bytes
  rem : Nat

abbrev Stage := Cur → Body → Except (Fail × Body) (Cur × Body)

def stData : Stage := fun c b =>
  if c.rem = 0 then .ok (c, b) else
  if c.rest.length < 4 then .error (.panic, b) else
  let ds := beNat (c.rest.take 4)
  if ds + 4 > c.rem then .error (.parse 1, { b with dataSize := ds }) else
  let b := { b with dataSize := ds, data := (c.rest.drop 4).take ds }
  if ds + 4 ≥ c.rem then .error (.panic, b) else   -- `bytes[index]` with index = len
  match (c.rest.drop 4).drop ds with
  | [] => .error (.panic, b)
  | f :: r => .ok (⟨r, c.rem - (ds + 5)⟩, { b with flags := f })

def stName : Stage := fun c b =>
  if c.rem = 0 ∨ hasName b.flags = false then .ok (c, b) else
  match c.rest with
  | [] => .error (.panic, b)
  | s :: r =>
    if s.toNat + 1 > c.rem then .error (.parse 2, { b with nameSize := s.toNat }) else
    .ok (⟨r.drop s.toNat, c.rem - 1 - s.toNat⟩, { b with nameSize := s.toNat, name := r.take s.toNat })

def stMime : Stage := fun c b =>
  if c.rem = 0 ∨ hasMime b.flags = false then .ok (c, b) else
  match c.rest with
  | [] => .error (.panic, b)
  | s :: r =>
    if s.toNat + 1 > c.rem then .error (.parse 3, { b with mimeSize := s.toNat }) else
    .ok (⟨r.drop s.toNat, c.rem - 1 - s.toNat⟩, { b with mimeSize := s.toNat, mime := r.take s.toNat })

def stLm : Stage := fun c b =>
  if c.rem = 0 ∨ hasLastModified b.flags = false then .ok (c, b) else
  if 5 > c.rem then .error (.parse 4, b) else
  .ok (⟨c.rest.drop 5, c.rem - 5⟩, { b with lastModified := beNat (c.rest.take 5) })

def stTtl : Stage := fun c b =>
  if c.rem = 0 ∨ hasTtl b.flags = false then .ok (c, b) else
  if 2 > c.rem then .error (.parse 5, b) else
  match c.rest with
  | x :: y :: r => .ok (⟨r, c.rem - 2⟩, { b with ttl := some (x, y) })
  | _ => .error (.panic, b)

def stPairs : Stage := fun c b =>
  if c.rem = 0 ∨ hasPairs b.flags = false then .ok (c, b) else
  if 2 > c.rem then .error (.parse 6, b) else
  let ps := beNat (c.rest.take 2)
  if ps + 2 > c.rem then .error (.parse 7, { b with pairsSize := ps }) else
  .ok (⟨(c.rest.drop 2).drop ps, c.rem - 2 - ps⟩, { b with pairsSize := ps, pairs := (c.rest.drop 2).take ps })

/-- `readNeedleDataVersion2(bytes[0:len])` where `rest` are the bytes up to the capacity of the slice.
    On failure the partially filled body is returned too (the volume scanner ignores the error). -/
def parseBody (rest : Bytes) (len : Nat) : Except (Fail × Body) Body :=
  match stData ⟨rest, len⟩ {} with
  | .error e => .error e
  | .ok (c, b) =>
  match stName c b with
  | .error e => .error e
  | .ok (c, b) =>
  match stMime c b with
  | .error e => .error e
  | .ok (c, b) =>
  match stLm c b with
  | .error e => .error e
  | .ok (c, b) =>
  match stTtl c b with
  | .error e => .error e
  | .ok (c, b) =>
  match stPairs c b with
  | .error e => .error e
  | .ok (_, b) => .ok b

structure Decoded where
  cookie : Nat
  id : Nat
  size : Nat
  body : Body
  appendAtNs : Nat
deriving Repr, DecidableEq

/-- `ParseNeedleHeader` on at least 16 bytes: (cookie, id, size) -/
def parseHeader (blob : Bytes) : Nat × Nat × Int :=
  (beNat (blob.take 4), beNat ((blob.drop 4).take 8), toInt32 (beNat ((blob.drop 12).take 4)))

/-- `Needle.ReadBytes(blob, offset, size, version)` for versions 2 and 3 -/
def readBytes (crc : Bytes → UInt32) (v : Nat) (blob : Bytes) (size : Int) : Except Fail Decoded :=
  if blob.length < 16 then .error .panic else
  let (cookie, id, hsize) := parseHeader blob
  if hsize ≠ size then .error .sizeMismatch else
  if size < 0 then .error .panic else
  let sz := size.toNat
  if blob.length < 16 + sz then .error .panic else
  match parseBody (blob.drop 16) sz with
  | .error (f, _) => .error f
  | .ok body =>
    let after := (blob.drop 16).drop sz
    if sz > 0 ∧ after.length < 4 then .error .panic else
    if sz > 0 ∧ beNat (after.take 4) ≠ crcValue (crc body.data).toNat then .error .crc else
    if v = 3 then
      if (after.drop 4).length < 8 then .error .panic else
      .ok ⟨cookie, id, sz, body, beNat ((after.drop 4).take 8)⟩
    else .ok ⟨cookie, id, sz, body, 0⟩

/-- `Needle.ReadData(file, offset, size, version)`: `ReadNeedleBlob` then `ReadBytes` -/
def readData (crc : Bytes → UInt32) (v : Nat) (file : Bytes) (offset : Nat) (size : Int) : Except Fail Decoded :=
  let actual := actualSizeI size v
  if actual < 0 then .error .panic else
  let blob := (file.drop offset).take actual.toNat
  if blob.length < actual.toNat then .error .eof else
  readBytes crc v blob size

/-! ## scanning: `ScanVolumeFileFrom` -/

structure Visit where
  offset : Nat
  cookie : Nat
  id : Nat
  size : Int
  /-- `len(needleBody)` handed to the visitor -/
  bodyLen : Nat
  /-- "ok", "short" (body could not be read completely: header-only needle), "nobody", "errK" -/
  status : String
  body : Body
  appendAtNs : Nat
deriving Repr, DecidableEq

inductive ScanEnd where
  | eof | panic | err | stuck
deriving Repr, DecidableEq

/-- one `ReadNeedleHeader` + `ReadNeedleBody` + visitor call; `none` = clean end of file -/
def scanStep (v : Nat) (file : Bytes) (offset : Nat) (readBody : Bool) : Option (Except Unit Visit × Int) :=
  let hdr := (file.drop offset).take 16
  if hdr.length < 16 then none else
  let (cookie, id, size) := parseHeader hdr
  let rest := bodyLengthI size v
  let mk (bl : Nat) (st : String) (b : Body) (ts : Nat) : Visit := ⟨offset, cookie, id, size, bl, st, b, ts⟩
  if !readBody then some (.ok (mk 0 "skip" {} 0), rest) else
  if rest ≤ 0 then some (.ok (mk 0 "nobody" {} 0), rest) else
  let body := (file.drop (offset + 16)).take rest.toNat
  if body.length < rest.toNat then some (.ok (mk rest.toNat "short" {} 0), rest) else
  if size < 0 then some (.error (), rest) else
  let sz := size.toNat
  let ts := if v = 3 then beNat ((body.drop (sz + 4)).take 8) else 0
  match parseBody body sz with
  | .ok b => some (.ok (mk rest.toNat "ok" b ts), rest)
  | .error (.parse k, b) => some (.ok (mk rest.toNat s!"err{k}" b ts), rest)
  | .error _ => some (.error (), rest)

def scanFrom (v : Nat) (file : Bytes) (readBody : Bool) : Nat → Nat → List Visit × ScanEnd
  | 0, _ => ([], .stuck)
  | fuel + 1, offset =>
    match scanStep v file offset readBody with
    | none => ([], .eof)
    | some (.error (), _) => ([], .panic)
    | some (.ok vis, rest) =>
      -- `offset += NeedleHeaderSize + rest`; a negative position makes the next `ReadAt` fail
      let next : Int := (offset : Int) + 16 + rest
      if next < 0 then ([vis], .err) else
      let (more, e) := scanFrom v file readBody fuel next.toNat
      (vis :: more, e)

/-- scan with enough fuel for any file whose records have non-negative sizes (every step then advances by
    at least 24 bytes); a garbage header with a negative size can send the real scanner backwards -/
def scan (v : Nat) (file : Bytes) (offset : Nat) (readBody : Bool) : List Visit × ScanEnd :=
  scanFrom v file readBody (file.length + 2) offset

/-! ## well-formed needles (the domain of the round-trip theorems) -/

/-- what a caller of `Append` must guarantee (`CreateNeedleFromRequest` does): field widths, the TTL flag
    implies a TTL value, `PairsSize`/`Checksum` are consistent with `Pairs`/`Data`. -/
def WF (crc : Bytes → UInt32) (n : Needle) : Prop :=
  n.cookie < 2 ^ 32 ∧ n.id < 2 ^ 64 ∧
  n.name.length < 256 ∧ n.mime.length < 256 ∧
  n.lastModified < 2 ^ 40 ∧
  (hasTtl n.flags = true → n.ttl.isSome = true) ∧
  n.pairsSize = n.pairs.length ∧ n.pairs.length < 65536 ∧
  n.checksum = (crc n.data).toNat ∧
  n.appendAtNs < 2 ^ 64 ∧
  n.data.length < 2 ^ 30

instance (crc : Bytes → UInt32) (n : Needle) : Decidable (WF crc n) := by unfold WF; infer_instance

/-- the fields that are stored for a needle with data -/
def storedBody (n : Needle) : Body :=
  { dataSize := n.data.length, data := n.data, flags := n.flags,
    nameSize := if hasName n.flags then n.name.length else 0,
    name := if hasName n.flags then n.name else [],
    mimeSize := if hasMime n.flags then n.mime.length else 0,
    mime := if hasMime n.flags then n.mime else [],
    lastModified := if hasLastModified n.flags then n.lastModified else 0,
    ttl := if hasTtl n.flags then n.ttl else none,
    pairsSize := if hasPairs n.flags then n.pairs.length else 0,
    pairs := if hasPairs n.flags then n.pairs else [] }

end SwV.Model.C02
