/-
C03 — crash recovery of a volume: executable model on bytes (core Lean only).
Reuses the byte-level needle encoder/decoder of C02.

Mirrors, function by function (needle version 3, 4-byte offsets — what `NewVolume` creates):
  weed/storage/backend/disk_file.go      NewDiskFile (cached size rounded up to 8), Truncate, WriteAt
  weed/storage/volume_checking.go        CheckAndFixVolumeDataIntegrity, doCheckAndFixVolumeData,
                                         verifyIndexFileIntegrity, verifyNeedleIntegrity, verifyDeletedNeedleIntegrity
  weed/storage/volume_loading.go         Volume.load (the part after the super block)
  weed/storage/needle_map_memory.go      doLoading, Put, Delete          (+ CompactSection.Set/Delete for in-order keys)
  weed/storage/needle_map_sorted_file.go NewSortedFileNeedleMap/Get      (+ erasure_coding.readNeedleMap)
  weed/storage/idx/walk.go               WalkIndexFile / IdxFileEntry
  weed/storage/volume_read.go            readNeedle
  weed/storage/volume_write.go           doWriteRequest / isFileUnchanged / doDeleteRequest
  weed/storage/store.go                  WriteVolumeNeedle / DeleteVolumeNeedle (read-only checks)
-/
import SwV.Model.C02
namespace SwV.Model.C03
open SwV.Model.C02

/-! ## index entries -/

structure Entry where
  key : Nat
  /-- offset in units of 8 bytes -/
  off : Nat
  size : Int
deriving Repr, DecidableEq

def parseEntry (bs : Bytes) : Entry :=
  ⟨beNat (bs.take 8), beNat ((bs.drop 8).take 4), toInt32 (beNat ((bs.drop 12).take 4))⟩

def entryBytes (e : Entry) : Bytes :=
  be 8 e.key ++ (be 4 e.off ++ be 4 (e.size % 2 ^ 32).toNat)

/-- `WalkIndexFile`: complete 16-byte entries only; a torn tail is silently skipped -/
def idxEntries (idx : Bytes) : List Entry :=
  (List.range (idx.length / 16)).map fun i => parseEntry ((idx.drop (16 * i)).take 16)

/-! ## `idx.WalkIndexFile`: the index is read in batches of `rows` entries -/

/-- `ReadAt(buf[0:n], off)` on a file: the bytes read and whether `io.EOF` came with them (fewer than `n`) -/
def readAt (f : Bytes) (off n : Nat) : Bytes × Bool :=
  let b := (f.drop off).take n
  (b, decide (b.length < n))

/-- the `for count > 0 && e == nil || e == io.EOF { … }` loop with the variables of the Go code:
    `off` = readerOffset, `chunk` = bytes[0:count], `eof` = (e == io.EOF), `acc` = entries handed to `fn` so far.
    Result: (entries, error returned) — the loop exits through `return nil` inside the body, or falls out to `return e`. -/
def walkFrom (rows : Nat) (f : Bytes) : Nat → Nat → Bytes → Bool → List Entry → List Entry × Bool
  | 0, _, _, _, acc => (acc, true)
  | fuel + 1, off, chunk, eof, acc =>
    if (chunk.length > 0 ∧ eof = false) ∨ eof = true then
      let acc' := acc ++ idxEntries chunk        -- for i := 0; i+16 <= count; i += 16
      if eof then (acc', false) else
      let (c2, e2) := readAt f off (16 * rows)
      walkFrom rows f fuel (off + c2.length) c2 e2 acc'
    else (acc, eof)                              -- `return e`

/-- `WalkIndexFile(file, fn)`: (entries visited, error?) -/
def walkIndex (rows : Nat) (f : Bytes) : List Entry × Bool :=
  let (c, e) := readAt f 0 (16 * rows)
  if c.length = 0 ∧ e = true then ([], false) else
  walkFrom rows f (f.length + 2) c.length c e []

/-! ## the data file as `backend.DiskFile` sees it -/

structure Dat where
  bytes : Bytes
  /-- `DiskFile.fileSize`: the size cached at open time ROUNDED UP to a multiple of 8, then maintained by
      `Truncate`/`WriteAt`; `GetStat` returns this, not the real size -/
  size : Nat
deriving Repr, DecidableEq

def openDat (bytes : Bytes) : Dat := ⟨bytes, (bytes.length + 7) / 8 * 8⟩

/-! ## needle map: association list (keys first used in ascending order, see the harness) -/

abbrev NMap := List (Nat × Nat × Int)

def mget (m : NMap) (k : Nat) : Option (Nat × Int) := (m.find? fun e => e.1 == k).map (·.2)

def mset (m : NMap) (k off : Nat) (size : Int) : NMap :=
  if (m.any fun e => e.1 == k) then m.map fun e => if e.1 == k then (k, off, size) else e
  else m ++ [(k, off, size)]

/-- `CompactSection.Delete`: the entry stays, a positive size is negated -/
def mflip (m : NMap) (k : Nat) : NMap :=
  m.map fun e => if e.1 == k ∧ e.2.2 > 0 then (e.1, e.2.1, -e.2.2) else e

def mremove (m : NMap) (k : Nat) : NMap := m.filter fun e => e.1 != k

/-- `doLoading` -/
def loadCompact (es : List Entry) : NMap :=
  es.foldl (fun m e => if e.off ≠ 0 ∧ e.size > 0 then mset m e.key e.off e.size else mflip m e.key) []

/-- `erasure_coding.readNeedleMap` (what the sorted read-only map is generated from) -/
def loadSorted (es : List Entry) : NMap :=
  es.foldl (fun m e => if e.off ≠ 0 ∧ e.size ≠ -1 then mset (mremove m e.key) e.key e.off e.size else mremove m e.key) []

/-! ## integrity check -/

inductive Chk where
  | ok | eof | sizeMismatch | other
deriving Repr, DecidableEq

/-- `verifyNeedleIntegrity` (version 3): may truncate the data file behind the verified record -/
def verifyNeedle (d : Dat) (e : Entry) : Chk × Dat :=
  let offset := e.off * 8
  let hdr := (d.bytes.drop offset).take 16
  if hdr.length < 16 then (.eof, d) else
  let (_, _, hsize) := parseHeader hdr
  if hsize ≠ e.size then (.sizeMismatch, d) else
  let sz := e.size.toNat
  let ts := (d.bytes.drop (offset + 16 + sz + 4)).take 8
  if ts.length < 8 then (.eof, d) else
  let tail := offset + actualSize sz 3
  if d.size = tail then (.ok, d)
  else if d.size > tail then (.ok, ⟨d.bytes.take tail, tail⟩)
  else (.other, d)   -- falls through to ReadData, which hits the end of the file; the error is wrapped

/-- `verifyDeletedNeedleIntegrity`: reads the LAST tombstone-sized bytes of the file (by the cached size) and
    expects an empty needle with the entry's key there -/
def verifyDeleted (crc : Bytes → UInt32) (d : Dat) (key : Nat) : Chk :=
  let size := actualSize 0 3
  if d.size < size then .other else
  match readData crc 3 d.bytes (d.size - size) 0 with
  | .error _ => .other
  | .ok dec => if dec.id ≠ key then .other else .ok

/-- `doCheckAndFixVolumeData` -/
def checkEntry (crc : Bytes → UInt32) (d : Dat) (e : Entry) : Chk × Dat :=
  if e.off = 0 then (.ok, d)
  else if e.size < 0 then (verifyDeleted crc d e.key, d)
  else verifyNeedle d e

/-- the `for i := 1; i <= 10 …` loop over the last entries (newest first); `before` = number of entries
    older than the head of the list. Returns (data file, number of healthy entries, last check result). -/
def checkLoop (crc : Bytes → UInt32) : List Entry → Nat → Dat → Nat → Chk → Dat × Nat × Chk
  | [], _, d, h, c => (d, h, c)
  | e :: rest, before, d, h, _ =>
    match checkEntry crc d e with
    | (.eof, d') => checkLoop crc rest (before - 1) d' before .eof
    | (.sizeMismatch, d') => checkLoop crc rest (before - 1) d' h .sizeMismatch
    | (c, d') => (d', h, c)

/-- `CheckAndFixVolumeDataIntegrity` for an index whose size is a multiple of 16:
    (data file, index bytes, error?) -/
def checkAndFix (crc : Bytes → UInt32) (d : Dat) (idx : Bytes) : Dat × Bytes × Bool :=
  let es := idxEntries idx
  let n := es.length
  if n = 0 then (d, idx, false) else
  let (d', h, c) := checkLoop crc (es.reverse.take 10) (n - 1) d n .ok
  if h < n then (d', idx.take (16 * h), false)   -- `err = indexFile.Truncate(…)` overwrites any earlier error
  else (d', idx, c != .ok)

/-! ## a loaded volume -/

structure Vol where
  /-- the loader panicked (nil `*SortedFileNeedleMap` dereferenced in the deferred cleanup) -/
  panicked : Bool := false
  /-- `NewVolume` returned an error (loading the needle map failed): the volume is not mounted -/
  failed : Bool := false
  readOnly : Bool := false
  dat : Dat
  idx : Bytes
  map : NMap := []
deriving Repr, DecidableEq

def superBlock : Bytes := [3, 0, 0, 0, 0, 0, 0, 0]

def freshVol : Vol := { dat := openDat superBlock, idx := [] }

/-- the part of `Volume.load` after the integrity check: an error ⇒ read-only with the sorted-file map; otherwise
    `LoadCompactNeedleMap` walks the index in batches of `rows` entries, and a walker error fails the load -/
def loadChecked (rows : Nat) (r : Dat × Bytes × Bool) : Vol :=
  if r.2.2 then { readOnly := true, dat := r.1, idx := r.2.1, map := loadSorted (idxEntries r.2.1) }
  else
    let w := walkIndex rows r.2.1
    { failed := w.2, dat := r.1, idx := r.2.1, map := loadCompact w.1 }

/-- `Volume.load` on existing files (after the super block was read); `rows` = `idx.RowsToRead` -/
def load (rows : Nat) (crc : Bytes → UInt32) (dat idx : Bytes) : Vol :=
  if idx.length % 16 ≠ 0 then
    -- verifyIndexFileIntegrity fails ⇒ read-only ⇒ NewSortedFileNeedleMap fails on the same size check and returns
    -- a typed nil that the deferred cleanup calls Close() on
    { panicked := true, readOnly := true, dat := openDat dat, idx := idx }
  else loadChecked rows (checkAndFix crc (openDat dat) idx)

/-! ## reads and writes -/

inductive ReadRes where
  | data (bs : Bytes)
  | notFound | deleted | novol
  | fail (f : Fail)
deriving Repr, DecidableEq

/-- `Volume.readNeedle` (no TTL) through `Store.ReadVolumeNeedle` -/
def readNeedle (crc : Bytes → UInt32) (v : Vol) (id : Nat) : ReadRes :=
  if v.panicked ∨ v.failed then .novol else
  match mget v.map id with
  | none => .notFound
  | some (off, size) =>
    if off = 0 then .notFound
    else if size < 0 then .deleted
    else if size = 0 then .data []
    else match readData crc 3 v.dat.bytes (off * 8) size with
      | .ok d => .data d.body.data
      -- OffsetSize == 4: a size mismatch is retried 32 GiB further, which is beyond the end of the file
      | .error .sizeMismatch => .fail .eof
      | .error f => .fail f

inductive WriteRes where
  | ok | unchanged | err | readOnly | novol
deriving Repr, DecidableEq

/-- `Needle.Append` on the cached end of file; a gap (unaligned real size) reads back as zeros -/
def appendRec (d : Dat) (bytes : Bytes) : Dat :=
  ⟨d.bytes ++ (List.replicate (d.size - d.bytes.length) 0 ++ bytes), d.size + bytes.length⟩

/-- `Store.WriteVolumeNeedle` → `doWriteRequest` -/
def writeNeedle (crc : Bytes → UInt32) (v : Vol) (n : Needle) : Vol × WriteRes :=
  if v.panicked ∨ v.failed then (v, .novol) else
  if v.readOnly then (v, .readOnly) else
  let old := mget v.map n.id
  let unchanged := match old with
    | some (off, size) =>
      if off ≠ 0 ∧ size > 0 then
        match readData crc 3 v.dat.bytes (off * 8) size with
        | .ok d => d.cookie == n.cookie && (crc d.body.data).toNat == n.checksum && d.body.data == n.data
        | .error _ => false
      else false
    | none => false
  if unchanged then (v, .unchanged) else
  let cookieOk := match old with
    | some (off, _) =>
      let hdr := (v.dat.bytes.drop (off * 8)).take 16
      if hdr.length < 16 then false else (parseHeader hdr).1 == n.cookie
    | none => true
  if !cookieOk then (v, .err) else
  let offset := v.dat.size
  let d' := appendRec v.dat (encode 3 n)
  let put : Bool := match old with
    | some (off, _) => decide (off * 8 < offset)
    | none => true
  if put then
    let e : Entry := ⟨n.id, offset / 8, recSize n⟩
    ({ v with dat := d', map := mset v.map n.id e.off e.size, idx := v.idx ++ entryBytes e }, .ok)
  else ({ v with dat := d' }, .ok)

/-- `Store.DeleteVolumeNeedle` → `doDeleteRequest`: returns the freed size (0 = nothing done) -/
def deleteNeedle (v : Vol) (n : Needle) : Vol × Option Int :=
  if v.panicked ∨ v.failed ∨ v.readOnly then (v, none) else
  match mget v.map n.id with
  | some (_, size) =>
    if size > 0 then
      let offset := v.dat.size
      let d' := appendRec v.dat (encode 3 { n with data := [] })
      let e : Entry := ⟨n.id, offset / 8, -1⟩
      ({ v with dat := d', map := mflip v.map n.id, idx := v.idx ++ entryBytes e }, some size)
    else (v, some 0)
  | none => (v, some 0)

end SwV.Model.C03
