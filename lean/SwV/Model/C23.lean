/-
C23 — model of weed/filer/filer_conf.go: the per-path storage rules of the filer.

The Go code keeps the rules in a prefix trie (github.com/viant/ptrie) keyed by
`LocationPrefix`; `MatchStorageRule(path)` lets the trie call back, on the way DOWN from
the root, for every stored key that is a prefix of `path` (shortest first) and folds
`mergePathConf` over them.  The model keeps the rules as an association list with
distinct keys and walks the prefixes `path[:1], path[:2], …, path` in that order — the
trie's visiting order is the assumption validated by the correspondence check.

Core Lean only.
-/
namespace SwV.Model.C23

/-- `filer_pb.FilerConf_PathConf` without `LocationPrefix` (the result of a match never
    carries one). Strings are lists of bytes-as-chars. -/
structure Conf where
  collection : List Char := []
  replication : List Char := []
  ttl : List Char := []
  diskType : List Char := []
  fsync : Bool := false
  growth : Nat := 0
  readOnly : Bool := false
deriving DecidableEq, Repr

/-- `util.Nvl(b, a)`: the first non-empty string -/
def nvl (b a : List Char) : List Char := if b ≠ [] then b else a

/-- `mergePathConf(a, b)`: "merge if values in b is not empty, merge them into a" -/
def mergePathConf (a b : Conf) : Conf :=
  { collection := nvl b.collection a.collection
    replication := nvl b.replication a.replication
    ttl := nvl b.ttl a.ttl
    diskType := if b.diskType ≠ [] then b.diskType else a.diskType
    fsync := b.fsync || a.fsync
    growth := if b.growth > 0 then b.growth else a.growth
    readOnly := if b.readOnly then b.readOnly else a.readOnly }

abbrev Key := List Char
abbrev Rules := List (Key × Conf)

/-- `trie.Put` on an existing key overrides the value, otherwise inserts. -/
def putRule : Rules → Key → Conf → Rules
  | [], k, c => [(k, c)]
  | (k', c') :: rest, k, c => if k' = k then (k, c) :: rest else (k', c') :: putRule rest k c

/-- `AddLocationConf`: `ptrie` indexes `key[0]`, so an empty prefix panics (`none`) and
    leaves the rules untouched. -/
def addRule (rs : Rules) (k : Key) (c : Conf) : Option Rules :=
  if k = [] then none else some (putRule rs k c)

/-- `DeleteLocationConf`: rebuild the trie from every rule whose key differs. -/
def delRule (rs : Rules) (k : Key) : Rules := rs.filter fun r => r.1 ≠ k

/-- one step of the descent: the trie reports the value stored at `path[:i+1]`, if any -/
def matchStep (rs : Rules) (path : Key) (acc : Conf) (i : Nat) : Conf :=
  match rs.lookup (path.take (i + 1)) with
  | some c => mergePathConf acc c
  | none => acc

/-- the fold over the first `n` proper descents -/
def matchUpTo (rs : Rules) (path : Key) (n : Nat) : Conf :=
  (List.range n).foldl (matchStep rs path) {}

/-- `MatchStorageRule(path)` -/
def matchRule (rs : Rules) (path : Key) : Conf := matchUpTo rs path path.length

/-- operations of the exported API -/
inductive Op where
  | add (k : Key) (c : Conf)
  | del (k : Key)
deriving Repr

def applyOp (rs : Rules) : Op → Rules
  | .add k c => (addRule rs k c).getD rs
  | .del k => delRule rs k

def run (ops : List Op) : Rules := ops.foldl applyOp []

end SwV.Model.C23
