/-
C01 — volume blob store: executable model (core Lean only).

Mirrors, decision by decision:
  weed/storage/store.go            Store.WriteVolumeNeedle (read-only guard) / DeleteVolumeNeedle / ReadVolumeNeedle / MarkVolumeReadonly
  weed/storage/volume_write.go     writeNeedle2 (TTL inheritance), isFileUnchanged, doWriteRequest, doDeleteRequest
  weed/storage/volume_read.go      readNeedle
  weed/storage/needle/needle_read_write.go   prepareWriteBuffer (which fields reach the disk, Size), ReadBytes (size check)
  weed/server/volume_server_handlers_read.go   GetOrHeadHandler (cookie comparison)
  weed/server/volume_server_handlers_write.go  DeleteHandler   (read, cookie comparison, delete)

State = the append-only record log (.dat; offset = position, the super block occupies
offset 0 so no record has offset 0) + the needle index id ↦ (offset, size) — the abstract
map that CompactMap / LevelDB / sorted file implement (C05) — + the read-only flag + the
volume TTL.  Byte strings are carried as their hex tokens; the model only uses equality,
emptiness and length of them.
-/
namespace SwV.Model.C01

structure Flags where
  compressed : Bool := false   -- 0x01
  hasName    : Bool := false   -- 0x02
  hasMime    : Bool := false   -- 0x04
  hasLm      : Bool := false   -- 0x08
  hasTtl     : Bool := false   -- 0x10
  hasPairs   : Bool := false   -- 0x20
deriving DecidableEq, Repr, Inhabited

/-- what a write supplies and a read returns -/
structure Content where
  data  : String := ""          -- hex token of the bytes ("" = empty blob)
  fl    : Flags := {}
  name  : String := ""
  mime  : String := ""
  pairs : String := ""
  lm    : Nat := 0
  ttl   : Nat × Nat := (0, 0)    -- (count, unit)
deriving DecidableEq, Repr, Inhabited

def Content.empty : Content := {}

def byteLen (hex : String) : Nat := hex.length / 2

/-- the fields that reach the disk and come back on a read (`prepareWriteBuffer` /
    `readNeedleDataVersion2`): nothing at all for an empty blob; otherwise data, flags and
    each optional field iff its flag is set; LastModified keeps 5 bytes. -/
def stored (c : Content) : Content :=
  if c.data = "" then Content.empty else
  { data := c.data, fl := c.fl,
    name := if c.fl.hasName then c.name else "",
    mime := if c.fl.hasMime then c.mime else "",
    pairs := if c.fl.hasPairs then c.pairs else "",
    lm := if c.fl.hasLm then c.lm % 2 ^ 40 else 0,
    ttl := if c.fl.hasTtl then c.ttl else (0, 0) }

/-- `n.Size` as computed by `prepareWriteBuffer` (version 2/3) -/
def needleSize (c : Content) : Nat :=
  if c.data = "" then 0 else
  4 + byteLen c.data + 1
    + (if c.fl.hasName then 1 + min (byteLen c.name) 255 else 0)
    + (if c.fl.hasMime then 1 + byteLen c.mime % 256 else 0)
    + (if c.fl.hasLm then 5 else 0)
    + (if c.fl.hasTtl then 2 else 0)
    + (if c.fl.hasPairs then 2 + byteLen c.pairs else 0)

/-- one record of the .dat file -/
structure Rec where
  id     : Nat
  cookie : Nat
  size   : Int
  c      : Content
deriving DecidableEq, Repr

/-- needle-map value -/
structure Ent where
  off  : Nat
  size : Int
deriving DecidableEq, Repr

structure Vol where
  log    : List Rec := []
  idx    : Nat → Option Ent := fun _ => none
  ro     : Bool := false
  volTtl : Nat × Nat := (0, 0)

def Vol.init (ttl : Nat × Nat) : Vol := { volTtl := ttl }

/-- the record that starts at `off` (offset 0 is the super block) -/
def recAt (log : List Rec) (off : Nat) : Option Rec :=
  if off = 0 then none else log[off - 1]?

def setIdx (idx : Nat → Option Ent) (id : Nat) (e : Ent) : Nat → Option Ent :=
  fun k => if k = id then some e else idx k

/-- `v.Ttl.String() != ""` -/
def ttlNonEmpty (t : Nat × Nat) : Bool := t.1 != 0 && t.2 != 0

/-- writeNeedle2: a needle without TTL inherits the volume's -/
def inheritTtl (volTtl : Nat × Nat) (c : Content) : Content :=
  if c.ttl = (0, 0) ∧ volTtl ≠ (0, 0) then { c with fl := { c.fl with hasTtl := true }, ttl := volTtl } else c

inductive WOut | ok (unchanged : Bool) | ro | cookie | ioerr
deriving DecidableEq, Repr
inductive DOut | ok (size : Int) | ro
deriving DecidableEq, Repr
inductive ROut | notfound | deleted | ioerr | ok (count : Nat) (cookie : Nat) (size : Int) (c : Content)
deriving DecidableEq, Repr

/-- `Volume.isFileUnchanged` -/
def isFileUnchanged (st : Vol) (id ck : Nat) (c : Content) : Bool :=
  if ttlNonEmpty st.volTtl then false else
  match st.idx id with
  | none => false
  | some e =>
    if e.off ≠ 0 ∧ 0 < e.size then
      match recAt st.log e.off with
      | none => false
      | some r => r.size == e.size && r.cookie == ck && r.c.data == c.data
    else false

/-- `Store.WriteVolumeNeedle` → `writeNeedle2` → `doWriteRequest` -/
def writeStep (st : Vol) (id ck : Nat) (c0 : Content) : Vol × WOut :=
  if st.ro then (st, .ro) else
  let c := inheritTtl st.volTtl c0
  if isFileUnchanged st id ck c then (st, .ok true) else
  let old := st.idx id
  let cookieCheck : Option WOut :=
    match old with
    | none => none
    | some e =>
      match recAt st.log e.off with
      | none => some .ioerr
      | some r => if r.cookie ≠ ck then some .cookie else none
  match cookieCheck with
  | some o => (st, o)
  | none =>
    let off := st.log.length + 1
    let sz : Int := needleSize c
    let log' := st.log ++ [{ id := id, cookie := ck, size := sz, c := stored c }]
    let put := match old with
      | none => true
      | some e => e.off < off
    ({ st with log := log', idx := if put then setIdx st.idx id ⟨off, sz⟩ else st.idx }, .ok false)

/-- `Store.DeleteVolumeNeedle` → `doDeleteRequest` (no cookie comparison at this level) -/
def deleteStep (st : Vol) (id ck : Nat) : Vol × DOut :=
  if st.ro then (st, .ro) else
  match st.idx id with
  | none => (st, .ok 0)
  | some e =>
    if 0 < e.size then
      ({ st with log := st.log ++ [{ id := id, cookie := ck, size := 0, c := Content.empty }],
                 idx := setIdx st.idx id ⟨e.off, -e.size⟩ }, .ok e.size)
    else (st, .ok 0)

/-- `Store.ReadVolumeNeedle` → `readNeedle`; `ck` is the cookie preset in the request needle -/
def readStep (st : Vol) (id ck : Nat) : ROut :=
  match st.idx id with
  | none => .notfound
  | some e =>
    if e.off = 0 then .notfound
    else if e.size < 0 then .deleted
    else if e.size = 0 then .ok 0 ck 0 Content.empty
    else match recAt st.log e.off with
      | none => .ioerr
      | some r => if r.size ≠ e.size then .ioerr else .ok (byteLen r.c.data) r.cookie r.size r.c

/-- GET through `GetOrHeadHandler`: status and body -/
def httpRead (st : Vol) (id ck : Nat) : Nat × String :=
  match readStep st id ck with
  | .ok _ ck' _ c => if ck' ≠ ck then (404, "") else (200, c.data)
  | _ => (404, "")

/-- DELETE through `DeleteHandler` (`type=replicate`): status and reported size -/
def httpDelete (st : Vol) (id ck : Nat) : Vol × Nat × Option Int :=
  match readStep st id ck with
  | .ok _ ck' sz _ =>
    if ck' ≠ ck then (st, 400, none) else
    match deleteStep st id ck with
    | (st', .ok _) => (st', 202, some sz)
    | (st', .ro) => (st', 500, none)
  | _ => (st, 404, some 0)

/-- Reload of a volume whose .dat file is not writable: `Volume.load` sets `noWriteOrDelete`
    and serves the index from the sorted file that `WriteSortedFileFromIdx` derives from the
    .idx log (`readNeedleMap`: a tombstone entry removes the key, any other entry sets it). -/
def reopenSorted (st : Vol) : Vol :=
  { st with ro := true,
            idx := fun id => match st.idx id with
              | some e => if e.size < 0 then none else some e
              | none => none }

/-- `CompactMap.Delete` / `doLoading`'s delete branch: negate the size of a live entry, no-op otherwise -/
def c01IdxDelete (idx : Nat → Option Ent) (id : Nat) : Nat → Option Ent :=
  match idx id with
  | some e => if 0 < e.size then setIdx idx id ⟨e.off, -e.size⟩ else idx
  | none => idx

/-- `doLoading`: replay of the .idx log, which has one row per .dat record (`off` = the offset of
    the next record): a row with a valid size (> 0) sets the key, every other row — a tombstone,
    or the size-0 row of an empty blob — goes through the delete branch. -/
def c01ReplayIdx : List Rec → Nat → (Nat → Option Ent) → (Nat → Option Ent)
  | [], _, idx => idx
  | r :: rs, off, idx =>
    c01ReplayIdx rs (off + 1) (if 0 < r.size then setIdx idx r.id ⟨off, r.size⟩ else c01IdxDelete idx r.id)

/-- Restart of a writable volume (Store close + reopen). The read-only mark is in memory only.
    In-memory needle map (`LoadCompactNeedleMap`): the index is rebuilt from the .idx log.
    LevelDB needle map with a fresh database (`isLevelDbFresh`): the database is kept as it is. -/
def c01Reload (kind : String) (st : Vol) : Vol :=
  if kind == "mem" then { st with ro := false, idx := c01ReplayIdx st.log 1 (fun _ => none) }
  else { st with ro := false }

/-! ## operations and runs -/

inductive Op
  | write (id ck : Nat) (c : Content)
  | delete (id ck : Nat)
  | read (id ck : Nat)
  | setRO (b : Bool)
  | hread (id ck : Nat)
  | hdelete (id ck : Nat)
deriving Repr

inductive MOut
  | w (o : WOut) | d (o : DOut) | r (o : ROut) | unit | hr (status : Nat) (body : String) | hd (status : Nat) (size : Option Int)
deriving DecidableEq, Repr

def step (st : Vol) : Op → Vol × MOut
  | .write id ck c => let (s, o) := writeStep st id ck c; (s, .w o)
  | .delete id ck => let (s, o) := deleteStep st id ck; (s, .d o)
  | .read id ck => (st, .r (readStep st id ck))
  | .setRO b => ({ st with ro := b }, .unit)
  | .hread id ck => let (s, b) := httpRead st id ck; (st, .hr s b)
  | .hdelete id ck => let (s, code, sz) := httpDelete st id ck; (s, .hd code sz)

def run (st : Vol) : List Op → Vol × List MOut
  | [] => (st, [])
  | op :: ops =>
    let (st1, o) := step st op
    let (st2, os) := run st1 ops
    (st2, o :: os)

end SwV.Model.C01
