/-
C25 model: the filer's HTTP write path as the Go code implements it (core Lean only).

  uploadLoop / uploadReaderToChunks = FilerServer.uploadReaderToChunks   (filer_server_handlers_write_upload.go)
  saveMetaData                      = FilerServer.saveMetaData           (filer_server_handlers_write_autochunk.go)
  handle                            = autoChunk → doPutAutoChunk / doPostAutoChunk → the two above + status mapping
  grpcCreate                        = FilerServer.CreateEntry (gRPC) for entries made by other clients
  dumpChunks, readBack              = how an entry is observed: chunks sorted by (offset, gen); the bytes the
                                      filer's reader (C17 model: viewFromChunks + readAt) resolves for the whole file

A request body is `avail` (the bytes the reader delivers) followed by EOF, or — `fails` — by a read error.
A read error that the upload loop meets is remembered (`readErr`), reported as "read input: …" after the
in-flight uploads finished, answered 499 by autoChunk, and the chunks uploaded so far are handed to
`Filer.DeleteChunks` (third component of `handle`); saveMetaData is not reached (repair c68165d2 of the defect
uploadReaderToChunks/read-error-treated-as-eof: before it the loop just ended, as at EOF).
Bytes, offsets and sizes are `Nat`.  A chunk's `gen` is the number of the request that uploaded it; it
stands for the chunk's mtime (`time.Now()` at upload: requests are sequential, so later request ⇒ later
mtime; chunks of one request never overlap, so their relative order is irrelevant).  Uploads to the volume
server do not fail in `handle` (the stand-in does not refuse unless told to), so there `uploadErr` is only ever set
from `readErr`; `handleUploadFail` is the request during which every attempt to store one chunk is refused.
-/
import SwV.Model.C17
namespace SwV.Model.C25

structure MChunk where
  off  : Nat
  gen  : Nat
  data : List Nat
deriving Repr, DecidableEq, Inhabited

def MChunk.size (c : MChunk) : Nat := c.data.length
def MChunk.stop (c : MChunk) : Nat := c.off + c.data.length

/-- a stored entry: the FileSize attribute, the inline content, the chunk list -/
structure Entry where
  fileSize : Nat
  content  : List Nat
  chunks   : List MChunk
deriving Repr, DecidableEq, Inhabited

/-- result of the upload loop: fileChunks, chunkOffset, smallContent, and whether the loop ended on a read
    error of the request body (`readErr != nil`) -/
structure Upload where
  chunks      : List MChunk
  chunkOffset : Nat
  small       : List Nat
  readErr     : Bool
deriving Repr, DecidableEq

/-- the `for` loop of uploadReaderToChunks.  `rest` = bytes the reader still delivers, `fails` = a read
    error follows them, `off` = chunkOffset, `acc` = fileChunks.  One iteration reads up to `cs` bytes:
    * a read error inside this read (fewer than cs bytes were left before the error) ⇒ `readErr = err; break`;
      nothing read ⇒ `break` (`if err != nil || dataSize == 0 { … readErr = err; break }`, ReadFrom turns EOF into nil);
    * first read of a non-append request that is shorter than the inline limit, or any path below /etc ⇒
      the bytes of THIS read become the inline content and the loop ends (`break`), whatever follows in the reader;
    * otherwise the bytes are uploaded as a chunk at `off`; a short read ends the loop. -/
def uploadLoop (cs limit : Nat) (inlineOK etc : Bool) (gen : Nat) (fails : Bool) :
    Nat → List Nat → Nat → List MChunk → Upload
  | 0, _, off, acc => ⟨acc, off, [], false⟩
  | fuel + 1, rest, off, acc =>
    let piece := rest.take cs
    if fails ∧ rest.length < cs then ⟨acc, off, [], true⟩
    else if piece.length = 0 then ⟨acc, off, [], false⟩
    else if off = 0 ∧ inlineOK ∧ (piece.length < limit ∨ etc) then ⟨acc, off + piece.length, piece, false⟩
    else
      let acc' := acc ++ [{ off := off, gen := gen, data := piece }]
      if piece.length < cs then ⟨acc', off + piece.length, [], false⟩
      else uploadLoop cs limit inlineOK etc gen fails fuel (rest.drop cs) (off + piece.length) acc'

def uploadReaderToChunks (cs limit : Nat) (isAppend etc : Bool) (gen : Nat) (avail : List Nat) (fails : Bool) : Upload :=
  uploadLoop cs limit (!isAppend) etc gen fails (avail.length + 1) avail 0 []

inductive SaveResult where
  | ok (e : Entry)
  | refused            -- "append to small file is not supported yet"
deriving Repr, DecidableEq

def shift (by_ : Nat) (c : MChunk) : MChunk := { c with off := c.off + by_ }

/-- saveMetaData: on `op=append` to an existing entry the new chunks are moved by the entry's FileSize
    ATTRIBUTE (`chunk.Offset += int64(entry.FileSize)`), appended to its chunk list, and the attribute
    grows by chunkOffset; otherwise a fresh entry replaces whatever was there. -/
def saveMetaData (existing : Option Entry) (isAppend : Bool) (u : Upload) : SaveResult :=
  match (if isAppend then existing else none) with
  | some e =>
    if e.content ≠ [] then .refused
    else .ok { fileSize := e.fileSize + u.chunkOffset, content := e.content, chunks := e.chunks ++ u.chunks.map (shift e.fileSize) }
  | none => .ok { fileSize := u.chunkOffset, content := u.small, chunks := u.chunks }

inductive Method where
  | put | postMultipart | postRaw
deriving Repr, DecidableEq

/-- one write request against the entry stored at its path: (HTTP status, entry stored afterwards, chunks
    uploaded by this request that were handed to Filer.DeleteChunks) -/
def handle (existing : Option Entry) (m : Method) (isAppend : Bool) (cs limit : Nat) (etc : Bool) (gen : Nat)
    (avail : List Nat) (fails : Bool) : Nat × Option Entry × List MChunk :=
  match m with
  | .postRaw => (500, existing, [])  -- doPostAutoChunk: r.MultipartReader() refuses a body that is not multipart
  | _ =>
    let u := uploadReaderToChunks cs limit isAppend etc gen avail fails
    -- uploadReaderToChunks: `uploadErr = "read input: …"`, DeleteChunks(fileChunks), return the error;
    -- doPut/doPostAutoChunk return it before saveMetaData; autoChunk answers "read input:" with 499
    if u.readErr then (499, existing, u.chunks)
    else
      match saveMetaData existing isAppend u with
      | .ok e => (201, some e, [])
      | .refused => (500, existing, [])

/-! ### a chunk upload that fails for good

`dataToChunk` tries three times (assign a file id at the master, upload to the volume server; 251/502/753 ms
apart) and then returns its error.  The goroutine of that chunk sets the function's `uploadErr`
(`if toChunkErr != nil { uploadErr = toChunkErr }` — only ever SET: the chunks that finish later do not touch it),
appends nothing to `fileChunks`; the reading loop does not look at `uploadErr`, it reads the body to its end and
uploads every other chunk.  After `wg.Wait()`: `if uploadErr != nil { fs.filer.DeleteChunks(fileChunks); return nil, …, uploadErr, nil }`
— ALL chunks that were uploaded (every chunk of the request except the failed one) go to deletion, doPut/doPostAutoChunk
return the error before saveMetaData, autoChunk answers 500 (the error is not a "read input:" one). -/

/-- attempts `dataToChunk` makes for one chunk before it gives up (`for i := 0; i < 3; i++`) -/
def uploadAttempts : Nat := 3

/-- how many assign requests of this request the master refuses when it is told to refuse every attempt of the
    chunk read `k`-th (0-based): all three attempts if the request uploads such a chunk, else none -/
def refusedAttempts (m : Method) (isAppend : Bool) (cs limit : Nat) (etc : Bool) (gen : Nat) (body : List Nat) (k : Nat) : Nat :=
  match m with
  | .postRaw => 0
  | _ => if k < (uploadReaderToChunks cs limit isAppend etc gen body false).chunks.length then uploadAttempts else 0

/-- one write request with an error-free body during which every attempt to store the chunk read `k`-th fails
    (status, entry stored afterwards, chunks of this request handed to Filer.DeleteChunks).  When the request
    uploads no such chunk (short body, inline branch, raw POST) nothing fails: `handle`. -/
def handleUploadFail (existing : Option Entry) (m : Method) (isAppend : Bool) (cs limit : Nat) (etc : Bool) (gen : Nat)
    (body : List Nat) (k : Nat) : Nat × Option Entry × List MChunk :=
  match m with
  | .postRaw => (500, existing, [])
  | _ =>
    let u := uploadReaderToChunks cs limit isAppend etc gen body false
    if k < u.chunks.length then (500, existing, u.chunks.eraseIdx k)
    else handle existing m isAppend cs limit etc gen body false

/-- chunks of `body` of size `cs` each (the last one shorter), as a gRPC client stores them -/
def splitChunks (cs gen : Nat) : Nat → List Nat → Nat → List MChunk
  | 0, _, _ => []
  | fuel + 1, rest, off =>
    if rest.isEmpty then [] else
    let n := if cs = 0 ∨ rest.length < cs then rest.length else cs
    { off := off, gen := gen, data := rest.take n } :: splitChunks cs gen fuel (rest.drop n) (off + n)

/-- entries created over gRPC by other clients (kind: 0 inline, 1 chunks + FileSize, 2 chunks and FileSize
    attribute left 0, 3 chunks and FileSize 3 bytes beyond them) -/
def grpcCreate (kind cs gen : Nat) (body : List Nat) : Entry :=
  let ch := splitChunks cs gen (body.length + 1) body 0
  match kind with
  | 0 => { fileSize := body.length, content := body, chunks := [] }
  | 1 => { fileSize := body.length, content := [], chunks := ch }
  | 2 => { fileSize := 0, content := [], chunks := ch }
  | _ => { fileSize := body.length + 3, content := [], chunks := ch }

/-! ### observation -/

def chunkLe (a b : MChunk) : Bool := a.off < b.off ∨ (a.off = b.off ∧ a.gen ≤ b.gen)

def dumpChunks (e : Entry) : List MChunk := e.chunks.mergeSort chunkLe

def extent (cs : List MChunk) : Nat := cs.foldl (fun m c => max m c.stop) 0

/-- Entry.Size(): max(TotalSize(chunks), FileSize attribute, len(Content)) -/
def Entry.size (e : Entry) : Nat := max (max (extent e.chunks) e.fileSize) e.content.length

/-- the chunk list as C17 sees it: mtime = gen, file id and key = position in the list -/
def toC17 (cs : List MChunk) : List SwV.Model.C17.Chunk :=
  cs.zipIdx.map fun (c, i) => { off := c.off, size := c.data.length, mtime := (c.gen : Int), fid := i, key := i }

/-- byte i of blob fid -/
def dataOf (cs : List MChunk) (fid i : Nat) : Nat := ((cs.getD fid default).data).getD i 0

/-- what the filer's read path delivers for the whole file: the inline content when it covers the size,
    else ChunkReadAt over ViewFromChunks (C17 model).  The chunks are taken in stored order (position = file
    key: the master hands out increasing keys); the reader sorts them by (mtime, key) itself. -/
def readBack (e : Entry) : List Nat :=
  if e.size ≤ e.content.length then e.content.take e.size
  else
    let cs := e.chunks
    let views := SwV.Model.C17.viewFromChunks ((toC17 cs).map SwV.Model.C17.Node.data) 0 SwV.Model.C17.maxInt64
    SwV.Model.C17.readAcc (dataOf cs) views e.size e.size 0

end SwV.Model.C25
