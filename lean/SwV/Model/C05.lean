/-
C05 — executable model of the volume index.

  weed/storage/needle_map/compact_map.go   CompactSection / CompactMap
  weed/storage/needle_map_memory.go        NeedleMap (Put/Delete/Get, doLoading)
  weed/storage/needle_map_metric.go        mapMetric, newNeedleMapMetricFromIndexFile
  weed/storage/needle_map_leveldb.go       LevelDbNeedleMap   (the store is an abstract ordered KV)
  weed/storage/needle_map_sorted_file.go   SortedFileNeedleMap (lookups; MemDb replay of the .idx)

Representation (stated in the report): a section's `values[0..counter)` is kept as a list in
REVERSE order (`rvals`, head = `values[counter-1]`) together with `cnt = counter`.  The common
case of the real code — appending an increasing key — is then O(1), the look-back window is the
first 128 elements, and the compiled driver replays the 130 000-key run that crosses `batch`
in well under a second.  `sort.Search` over a sorted slice is modelled by an ordered scan that
stops at the first element past the key (`findDesc`/`findAsc`); the bubble loop of the in-window
insertion is `insertDesc`.  `batch` is a parameter (bridged to the extracted constant).
Core Lean only.
-/
namespace SwV.Model.C05

/-- SectionalNeedleValue + SectionalNeedleValueExtra -/
structure Ent where
  key : Nat          -- SectionalNeedleId (uint32)
  off : Nat          -- OffsetLower, as a number < 2^32
  hi : Nat           -- OffsetHigher (b4); always 0 in 4-byte builds
  size : Int
deriving DecidableEq, Repr, Inhabited

structure Sec where
  start : Nat
  stop : Nat          -- `end`
  cnt : Nat           -- `counter`
  rvals : List Ent    -- values[0..counter) reversed
  ovf : List Ent      -- overflow, ascending by key; `hi` is the parallel overflowExtra slot
deriving Repr, Inhabited

/-- SectionalNeedleIdLimit -/
def limit : Nat := 4294967295
def lookBack : Nat := 128

/-- `SectionalNeedleId(key - cs.start)`: truncation to uint32 -/
def skeyOf (s : Sec) (key : Nat) : Nat := (key - s.start) % 4294967296

/-- `binarySearchValues` on the reversed, strictly descending list -/
def findDesc (k : Nat) : List Ent → Option Ent
  | [] => none
  | e :: rest => if e.key = k then some e else if e.key < k then none else findDesc k rest

def updDesc (k : Nat) (f : Ent → Ent) : List Ent → List Ent
  | [] => []
  | e :: rest => if e.key = k then f e :: rest else if e.key < k then e :: rest else e :: updDesc k f rest

/-- the bubble loop of the in-window insertion (`cs.values[x].Key > cs.values[x+1].Key` ⇒ swap) -/
def insertDesc (n : Ent) : List Ent → List Ent
  | [] => [n]
  | e :: rest => if e.key > n.key then e :: insertDesc n rest else n :: e :: rest

/-- `findOverflowEntry` -/
def findAsc (k : Nat) : List Ent → Option Ent
  | [] => none
  | e :: rest => if e.key = k then some e else if e.key > k then none else findAsc k rest

/-- `setOverflowEntry`: an existing entry gets the new lower offset and size but KEEPS its
    `overflowExtra` slot (the code assigns `cs.overflow[i]` only); a new one is inserted in order -/
def setAsc (n : Ent) : List Ent → List Ent
  | [] => [n]
  | e :: rest =>
    if e.key = n.key then { e with off := n.off, size := n.size } :: rest
    else if e.key > n.key then n :: e :: rest
    else e :: setAsc n rest

/-- `deleteOverflowEntry` -/
def delAsc (k : Nat) : List Ent → List Ent
  | [] => []
  | e :: rest =>
    if e.key = k then (if e.size > 0 then { e with size := -e.size } else e) :: rest
    else if e.key > k then e :: rest
    else e :: delAsc k rest

def Sec.fresh (start : Nat) : Sec := ⟨start, 0, 0, [], []⟩

/-- old value returned by Set: (OffsetLower, OffsetHigher, Size) -/
abbrev Old := Nat × Nat × Int

/-- `CompactSection.Set` -/
def Sec.set (batch : Nat) (s0 : Sec) (key off hi : Nat) (size : Int) : Sec × Old :=
  let s := if key > s0.stop then { s0 with stop := key } else s0
  let skey := skeyOf s key
  let n : Ent := ⟨skey, off, hi, size⟩
  match findDesc skey s.rvals with
  | some e => ({ s with rvals := updDesc skey (fun e => { e with off := off, hi := hi, size := size }) s.rvals }, (e.off, e.hi, e.size))
  | none =>
    let needOverflow := decide (s.cnt ≥ batch) || (decide (s.cnt > 0) && decide ((s.rvals.headD default).key > skey))
    if needOverflow then
      -- values[lookBackIndex], lookBackIndex = max 0 (counter - 128)
      let lb := s.rvals.getD (min lookBack s.cnt - 1) default
      if s.cnt < batch ∧ lb.key < skey then
        ({ s with rvals := insertDesc n s.rvals, cnt := s.cnt + 1 }, (0, 0, 0))
      else
        let old : Old := match findAsc skey s.ovf with
          | some e => (e.off, e.hi, e.size)
          | none => (0, 0, 0)
        ({ s with ovf := setAsc n s.ovf }, old)
    else ({ s with rvals := n :: s.rvals, cnt := s.cnt + 1 }, (0, 0, 0))

/-- `CompactSection.Delete` -/
def Sec.delete (s : Sec) (key : Nat) : Sec × Int :=
  let skey := skeyOf s key
  let (rv, ret) : List Ent × Int := match findDesc skey s.rvals with
    | some e => if e.size > 0 then (updDesc skey (fun e => { e with size := -e.size }) s.rvals, e.size) else (s.rvals, 0)
    | none => (s.rvals, 0)
  match findAsc skey s.ovf with
  | some v => ({ s with rvals := rv, ovf := delAsc skey s.ovf }, v.size)
  | none => ({ s with rvals := rv }, ret)

/-- NeedleValue as returned by Get: key, OffsetLower, OffsetHigher, Size -/
structure NV where
  key : Nat
  off : Nat
  hi : Nat
  size : Int
deriving DecidableEq, Repr

def toNV (s : Sec) (e : Ent) : NV := ⟨e.key + s.start, e.off, e.hi, e.size⟩

/-- `CompactSection.Get`: overflow first -/
def Sec.get (s : Sec) (key : Nat) : Option NV :=
  let skey := skeyOf s key
  match findAsc skey s.ovf with
  | some e => some (toNV s e)
  | none => (findDesc skey s.rvals).map (toNV s)

/-- the first `Set` into a new section -/
def Sec.first (batch : Nat) (key off hi : Nat) (size : Int) : Sec :=
  (Sec.set batch (Sec.fresh key) key off hi size).1

/-- `CompactMap.Set`: sections ascending by start.  `binarySearchCompactSection` returns the last
    section whose start is ≤ key (−3 when the key is below the first start, −4 when the last
    section is full and the key is beyond its end, −5 when there is none); a new section is also
    opened when `key - start > SectionalNeedleIdLimit`. -/
def setL (batch : Nat) (key off hi : Nat) (size : Int) : List Sec → List Sec × Old
  | [] => ([Sec.first batch key off hi size], (0, 0, 0))
  | s :: rest =>
    if key < s.start then (Sec.first batch key off hi size :: s :: rest, (0, 0, 0))
    else match rest with
      | [] =>
        if (s.cnt < batch ∨ key ≤ s.stop) ∧ key - s.start ≤ limit then
          let (s', o) := Sec.set batch s key off hi size; ([s'], o)
        else ([s, Sec.first batch key off hi size], (0, 0, 0))
      | t :: _ =>
        if t.start ≤ key then
          let (r, o) := setL batch key off hi size rest; (s :: r, o)
        else if key - s.start ≤ limit then
          let (s', o) := Sec.set batch s key off hi size; (s' :: rest, o)
        else (s :: Sec.first batch key off hi size :: rest, (0, 0, 0))

/-- `CompactMap.Delete` -/
def delL (batch : Nat) (key : Nat) : List Sec → List Sec × Int
  | [] => ([], 0)
  | s :: rest =>
    if key < s.start then (s :: rest, 0)
    else match rest with
      | [] =>
        if s.cnt < batch ∨ key ≤ s.stop then
          let (s', o) := Sec.delete s key; ([s'], o)
        else ([s], 0)
      | t :: _ =>
        if t.start ≤ key then
          let (r, o) := delL batch key rest; (s :: r, o)
        else
          let (s', o) := Sec.delete s key; (s' :: rest, o)

/-- `CompactMap.Get` -/
def getL (batch : Nat) (key : Nat) : List Sec → Option NV
  | [] => none
  | s :: rest =>
    if key < s.start then none
    else match rest with
      | [] => if s.cnt < batch ∨ key ≤ s.stop then Sec.get s key else none
      | t :: _ => if t.start ≤ key then getL batch key rest else Sec.get s key

/-- the merge loop of `AscendingVisit` for one section (`vs` = values ascending) -/
def visitMerge (s : Sec) : Nat → List Ent → List Ent → List NV
  | 0, _, _ => []
  | _ + 1, [], vs => vs.map (toNV s)
  | _ + 1, os, [] => os.map (toNV s)
  | fuel + 1, o :: os, v :: vs =>
    if o.key < v.key then toNV s o :: visitMerge s fuel os (v :: vs)
    else if o.key = v.key then visitMerge s fuel (o :: os) vs
    else toNV s v :: visitMerge s fuel (o :: os) vs

def visitL (cm : List Sec) : List NV :=
  cm.flatMap fun s => visitMerge s (s.ovf.length + s.cnt + 1) s.ovf s.rvals.reverse

/-! ### mapMetric -/

structure Metric where
  fc : Nat := 0     -- FileCounter
  dc : Nat := 0     -- DeletionCounter
  fb : Nat := 0     -- FileByteCounter
  db : Nat := 0     -- DeletionByteCounter
  maxKey : Nat := 0
deriving DecidableEq, Repr

/-- Go `uint64(Size)` (sign extension of an int32) -/
def u64 (x : Int) : Nat := (x % 18446744073709551616).toNat
def add64 (a b : Nat) : Nat := (a + b) % 18446744073709551616

def Metric.maybeMax (m : Metric) (key : Nat) : Metric := if key > m.maxKey then { m with maxKey := key } else m
/-- `LogDeletionCounter` -/
def Metric.logDel (m : Metric) (old : Int) : Metric :=
  if old > 0 then { m with dc := m.dc + 1, db := add64 m.db (u64 old) } else m
/-- `logPut` -/
def Metric.logPut (m : Metric) (key : Nat) (old new : Int) : Metric :=
  let m := m.maybeMax key
  let m := { m with fc := m.fc + 1, fb := add64 m.fb (u64 new) }
  if old > 0 then m.logDel old else m

/-- one record of the .idx file: key, full offset (8-byte units), size -/
structure Rec where
  key : Nat
  off : Nat
  size : Int
deriving DecidableEq, Repr

def offLo (o : Nat) : Nat := o % 4294967296
def offHi (o : Nat) : Nat := o / 4294967296

/-! ### in-memory NeedleMap -/

structure MemMap where
  cm : List Sec := []
  met : Metric := {}
  idx : List Rec := []     -- the .idx file, newest LAST is `idx.reverse`; kept reversed (newest first)
deriving Repr

def MemMap.put (batch : Nat) (m : MemMap) (key off : Nat) (size : Int) : MemMap :=
  let (cm', old) := setL batch key (offLo off) (offHi off) size m.cm
  { cm := cm', met := m.met.logPut key old.2.2 size, idx := ⟨key, off, size⟩ :: m.idx }

def MemMap.delete (batch : Nat) (m : MemMap) (key off : Nat) : MemMap :=
  let (cm', d) := delL batch key m.cm
  { cm := cm', met := m.met.logDel d, idx := ⟨key, off, -1⟩ :: m.idx }

/-- one step of `doLoading` -/
def loadStep (batch : Nat) (st : List Sec × Metric) (r : Rec) : List Sec × Metric :=
  let (cm, m) := st
  let m := m.maybeMax r.key
  if r.off ≠ 0 ∧ r.size > 0 then
    let m := { m with fc := m.fc + 1, fb := add64 m.fb (u64 r.size) }
    let (cm', old) := setL batch r.key (offLo r.off) (offHi r.off) r.size cm
    if (old.1 ≠ 0 ∨ old.2.1 ≠ 0) ∧ old.2.2 > 0 then (cm', { m with dc := m.dc + 1, db := add64 m.db (u64 old.2.2) })
    else (cm', m)
  else
    let (cm', d) := delL batch r.key cm
    (cm', { m with dc := m.dc + 1, db := add64 m.db (u64 d) })

/-- `LoadCompactNeedleMap`: replay of the .idx records (oldest first) -/
def loadMem (batch : Nat) (recs : List Rec) : List Sec × Metric :=
  recs.foldl (loadStep batch) ([], {})

/-! ### ordered KV (LevelDB, MemDb) and the metric recomputed from the index file -/

abbrev KV := List (Nat × Nat × Int)     -- key ↦ (offset, size)

def kvGet (kv : KV) (k : Nat) : Option (Nat × Int) := (kv.find? (·.1 == k)).map (·.2)
def kvDel (kv : KV) (k : Nat) : KV := kv.filter (·.1 != k)
def kvPut (kv : KV) (k o : Nat) (s : Int) : KV := (k, o, s) :: kvDel kv k

/-- `generateLevelDbFile` -/
def kvFromIdxLdb (recs : List Rec) : KV :=
  recs.foldl (fun kv r => if r.off ≠ 0 ∧ r.size > 0 then kvPut kv r.key r.off r.size else kvDel kv r.key) []

/-- `MemDb.LoadFromReaderAt` (sorted-file map): size 0 is kept -/
def kvFromIdxMemDb (recs : List Rec) : KV :=
  recs.foldl (fun kv r => if r.off = 0 ∨ r.size < 0 then kvDel kv r.key else kvPut kv r.key r.off r.size) []

/-- `newNeedleMapMetricFromIndexFile`: reverse walk (newest first); the bloom filter is an exact set -/
def metricFromIdx (newestFirst : List Rec) : Metric :=
  (newestFirst.foldl (fun (st : Metric × List Nat) (r : Rec) =>
    let (m, seen) := st
    let m := m.maybeMax r.key
    let m := if r.size > 0 then { m with fb := add64 m.fb (u64 r.size) } else m
    if seen.contains r.key then
      (if r.size > 0 then { m with dc := m.dc + 1, db := add64 m.db (u64 r.size) } else { m with dc := m.dc + 1 }, seen)
    else ({ m with fc := m.fc + 1 }, r.key :: seen)) ({}, [])).1

structure LdbMap where
  kv : KV := []
  met : Metric := {}
  idx : List Rec := []    -- newest first
deriving Repr

def LdbMap.put (m : LdbMap) (key off : Nat) (size : Int) : LdbMap :=
  let old : Int := match kvGet m.kv key with | some (_, s) => s | none => 0
  { kv := kvPut m.kv key off size, met := m.met.logPut key old size, idx := ⟨key, off, size⟩ :: m.idx }

def LdbMap.delete (m : LdbMap) (key off : Nat) : LdbMap :=
  match kvGet m.kv key with
  | none => m
  | some (o, s) =>
    if s < 0 then m
    else { kv := kvPut m.kv key o (-s), met := m.met.logDel s, idx := ⟨key, off, -1⟩ :: m.idx }

end SwV.Model.C05
