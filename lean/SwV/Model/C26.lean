/-
C26 — executable model of the S3 gateway's request authentication/authorisation
(weed/s3api/s3api_server.go `registerRouter`, s3api_auth.go `getRequestAuthType`,
auth_credentials.go `Auth`/`authRequest`/`authUser`/`canDo`, the secondary verification
inside PutObjectHandler / PutObjectPartHandler / PostPolicyBucketHandler /
ListBucketsHandler) and of weed/iamapi `GetActions`.

Signature arithmetic (HMAC-SHA1/SHA256, canonical requests) is NOT modelled: a carried
credential is (kind, access key, secret it was made with, intact?) and `sigOK` says that a
signature verifies under a stored secret iff it was made with that secret over the request
as received and has not expired (trusted base: the HMAC functions and the canonicalisation
code; the harness' own signers are checked against the real verifiers on every run).
Core Lean only.
-/
namespace SwV.Model.C26

abbrev Str := List Char

/-! ### identities and `canDo` -/

structure Identity where
  name    : String
  actions : List Str
  creds   : List (String × String)   -- (access key, secret key)
deriving Repr, DecidableEq

abbrev Config := List Identity

def adminA : Str := "Admin".toList
def writeA : Str := "Write".toList

/-- `(*Identity).isAdmin` -/
def isAdmin (acts : List Str) : Bool := acts.contains adminA

/-- `(*Identity).canDo(action, bucket)` -/
def canDo (acts : List Str) (action bucket : Str) : Bool :=
  if isAdmin acts then true
  else if acts.contains action then true
  else if bucket = [] then false
  else
    let lim := action ++ ':' :: bucket
    let adm := adminA ++ ':' :: bucket
    acts.any fun act =>
      if act.getLast? = some '*' then
        act.dropLast.isPrefixOf lim || act.dropLast.isPrefixOf adm
      else act == lim || act == adm

/-- `iam.isEnabled()` -/
def enabled (cfg : Config) : Bool := !cfg.isEmpty

/-- `iam.lookupByAccessKey`: first identity (in order) that has a credential with this access key; with that credential's secret -/
def lookupByAccessKey : Config → String → Option (Identity × String)
  | [], _ => none
  | i :: rest, ak =>
    match i.creds.find? (fun c => c.1 == ak) with
    | some c => some (i, c.2)
    | none => lookupByAccessKey rest ak

/-- `iam.lookupAnonymous` -/
def lookupAnonymous (cfg : Config) : Option Identity := cfg.find? (fun i => i.name == "anonymous")

/-! ### requests -/

inductive CredKind | v4h | v4p | v2h | v2p | pol4 | pol2
deriving DecidableEq, Repr

/-- a credential carried by a request (abstract signature) -/
structure Cred where
  kind   : CredKind
  ak     : String
  sk     : String      -- the secret the signature was made with
  intact : Bool        -- nothing the signature covers was changed afterwards, and it has not expired
deriving DecidableEq, Repr

structure Req where
  method    : String
  bucket    : Str                      -- mux variable {bucket}: first path segment ("" for "/")
  hasObject : Bool                     -- a non-empty {object} follows "/bucket/"
  query     : List (String × String)   -- URL query pairs in order (including credential parameters)
  auth      : Option String            -- the Authorization header, if present
  sha       : String                   -- x-amz-content-sha256 ("" if absent)
  ctype     : String                   -- Content-Type ("" if absent)
  copysrc   : String                   -- X-Amz-Copy-Source ("" if absent)
  transport : Option Cred              -- credential in header / query string
  form      : Option Cred              -- credential in the fields of a multipart form body
  formBody  : Bool                     -- the body is a well-formed multipart form with a file part and a valid policy document
deriving Repr

def hasQuery (rq : Req) (k : String) : Bool := rq.query.any (fun p => p.1 == k)

def isInfix (p : Str) : Str → Bool
  | [] => p.isEmpty
  | c :: s => p.isPrefixOf (c :: s) || isInfix p s

def strContains (s p : String) : Bool := isInfix p.toList s.toList
def strHasPrefix (s p : String) : Bool := p.toList.isPrefixOf s.toList

def streamingContentSHA256 : String := "STREAMING-AWS4-HMAC-SHA256-PAYLOAD"
def signV4Algorithm : String := "AWS4-HMAC-SHA256"
def signV2Algorithm : String := "AWS"

inductive AuthType
  | unknown | anonymous | presigned | presignedV2 | postPolicy | streamingSigned | signed | signedV2 | jwt
deriving DecidableEq, Repr

def authHdr (rq : Req) : String := rq.auth.getD ""

def isRequestSignatureV2 (rq : Req) : Bool :=
  !strHasPrefix (authHdr rq) signV4Algorithm && strHasPrefix (authHdr rq) signV2Algorithm
def isRequestPresignedSignatureV2 (rq : Req) : Bool := hasQuery rq "AWSAccessKeyId"
def isRequestSignStreamingV4 (rq : Req) : Bool := rq.sha == streamingContentSHA256 && rq.method == "PUT"
def isRequestSignatureV4 (rq : Req) : Bool := strHasPrefix (authHdr rq) signV4Algorithm
def isRequestPresignedSignatureV4 (rq : Req) : Bool := hasQuery rq "X-Amz-Credential"
def isRequestJWT (rq : Req) : Bool := strHasPrefix (authHdr rq) "Bearer"
def isRequestPostPolicySignatureV4 (rq : Req) : Bool :=
  strContains rq.ctype "multipart/form-data" && rq.method == "POST"

/-- `getRequestAuthType`: the decision ORDER matters -/
def authTypeOf (rq : Req) : AuthType :=
  if isRequestSignatureV2 rq then .signedV2
  else if isRequestPresignedSignatureV2 rq then .presignedV2
  else if isRequestSignStreamingV4 rq then .streamingSigned
  else if isRequestSignatureV4 rq then .signed
  else if isRequestPresignedSignatureV4 rq then .presigned
  else if isRequestJWT rq then .jwt
  else if isRequestPostPolicySignatureV4 rq then .postPolicy
  else if rq.auth.isNone then .anonymous
  else .unknown

/-! ### verification of carried credentials -/

/-- HMAC abstraction: verifies under the stored secret iff made with it and intact -/
def sigOK (c : Cred) (secret : String) : Bool := c.intact && c.sk == secret

/-- run the verifier for credential kind `k` on a carried credential -/
def verifyCred (cfg : Config) (c : Option Cred) (k : CredKind) : Option Identity :=
  match c with
  | none => none
  | some c =>
    if c.kind = k then
      match lookupByAccessKey cfg c.ak with
      | some (i, secret) => if sigOK c secret then some i else none
      | none => none
    else none

/-- `isReqAuthenticatedV2` -/
def verifyV2 (cfg : Config) (rq : Req) : Option Identity :=
  if isRequestSignatureV2 rq then verifyCred cfg rq.transport .v2h else verifyCred cfg rq.transport .v2p

/-- `reqSignatureV4Verify` -/
def verifyV4 (cfg : Config) (rq : Req) : Option Identity :=
  if isRequestSignatureV4 rq then verifyCred cfg rq.transport .v4h
  else if isRequestPresignedSignatureV4 rq then verifyCred cfg rq.transport .v4p
  else none

/-- `calculateSeedSignature`: V4 header signature over the streaming payload marker, and the signer may write to the bucket -/
def verifySeed (cfg : Config) (rq : Req) : Bool :=
  match verifyCred cfg rq.transport .v4h with
  | some i => canDo i.actions writeA rq.bucket
  | none => false

/-- `doesPolicySignatureMatch`: signature of the form's policy under the form's access key — NO `canDo` -/
def verifyForm (cfg : Config) (rq : Req) : Option Identity :=
  match rq.form with
  | none => none
  | some c => if c.kind = .pol2 then verifyCred cfg rq.form .pol2 else verifyCred cfg rq.form .pol4

/-- what the arm of the `switch getRequestAuthType(r)` in `authRequest`/`authUser` does -/
inductive Arm | pass | denied | notimpl | v2 | v4 | anon
deriving DecidableEq, Repr

def armOf : AuthType → Arm
  | .streamingSigned => .pass
  | .unknown => .denied
  | .presignedV2 => .v2
  | .signedV2 => .v2
  | .signed => .v4
  | .presigned => .v4
  | .postPolicy => .pass
  | .jwt => .notimpl
  | .anonymous => .anon

/-- `authRequest(r, action)`: `none` = rejected, `some none` = passes WITHOUT an identity, `some (some i)` = passes as `i` -/
def authRequest (cfg : Config) (action : Str) (rq : Req) : Option (Option Identity) :=
  let check (oi : Option Identity) : Option (Option Identity) :=
    match oi with
    | none => none
    | some i => if canDo i.actions action rq.bucket then some (some i) else none
  match armOf (authTypeOf rq) with
  | .pass => some none
  | .denied => none
  | .notimpl => none
  | .v2 => check (verifyV2 cfg rq)
  | .v4 => check (verifyV4 cfg rq)
  | .anon => check (lookupAnonymous cfg)

/-- `authUser(r)`: the same switch without the `canDo` step (ListBucketsHandler) -/
def authUser (cfg : Config) (rq : Req) : Bool :=
  match armOf (authTypeOf rq) with
  | .pass => true
  | .denied => false
  | .notimpl => false
  | .v2 => (verifyV2 cfg rq).isSome
  | .v4 => (verifyV4 cfg rq).isSome
  | .anon => (lookupAnonymous cfg).isSome

/-! ### the route table -/

inductive QPat | any | eq (v : String) | digits
deriving DecidableEq, Repr

inductive HdrReq | none | copySource | multipartCT
deriving DecidableEq, Repr

/-- what the handler does itself about authentication -/
inductive HKind
  | plain        -- nothing: relies on the `Auth` wrapper
  | putObject    -- PutObjectHandler: re-verifies by auth type (streaming seed, V2, V4) before touching the filer
  | putPart      -- PutObjectPartHandler: looks the upload id up at the filer FIRST, then re-verifies like putObject
  | postPolicy   -- PostPolicyBucketHandler: verifies the policy signature in the form (no canDo)
  | listBuckets  -- ListBucketsHandler: not wrapped; calls `authUser`
deriving DecidableEq, Repr

structure Route where
  handler    : String
  action     : String          -- source text of the action argument of `iam.Auth` ("-" = not wrapped)
  method     : String
  needObject : Bool            -- `.Path("/{object:.+}")`
  root       : Bool            -- `.Path("/")` on the api router (outside `/{bucket}`)
  queries    : List (String × QPat)
  hdr        : HdrReq
deriving DecidableEq, Repr

def kindOf (handler : String) : HKind :=
  if handler == "PutObjectHandler" then .putObject
  else if handler == "PutObjectPartHandler" then .putPart
  else if handler == "PostPolicyBucketHandler" then .postPolicy
  else if handler == "ListBucketsHandler" then .listBuckets
  else .plain

/-- the value of the ACTION_* constant named in the source ("" for an unwrapped route) -/
def actionValue (src : String) : Str :=
  if src == "ACTION_READ" then "Read".toList
  else if src == "ACTION_WRITE" then "Write".toList
  else if src == "ACTION_ADMIN" then "Admin".toList
  else if src == "ACTION_TAGGING" then "Tagging".toList
  else if src == "ACTION_LIST" then "List".toList
  else []

def obj : String × QPat → String × QPat := id

/-- `registerRouter`, in registration order (mux tries routes in this order; first full match wins) -/
def routes : List Route := [
  ⟨"HeadObjectHandler", "ACTION_READ", "HEAD", true, false, [], .none⟩,
  ⟨"HeadBucketHandler", "ACTION_ADMIN", "HEAD", false, false, [], .none⟩,
  ⟨"CopyObjectPartHandler", "ACTION_WRITE", "PUT", true, false, [("partNumber", .digits), ("uploadId", .any)], .copySource⟩,
  ⟨"PutObjectPartHandler", "ACTION_WRITE", "PUT", true, false, [("partNumber", .digits), ("uploadId", .any)], .none⟩,
  ⟨"CompleteMultipartUploadHandler", "ACTION_WRITE", "POST", true, false, [("uploadId", .any)], .none⟩,
  ⟨"NewMultipartUploadHandler", "ACTION_WRITE", "POST", true, false, [("uploads", .any)], .none⟩,
  ⟨"AbortMultipartUploadHandler", "ACTION_WRITE", "DELETE", true, false, [("uploadId", .any)], .none⟩,
  ⟨"ListObjectPartsHandler", "ACTION_READ", "GET", true, false, [("uploadId", .any)], .none⟩,
  ⟨"ListMultipartUploadsHandler", "ACTION_READ", "GET", false, false, [("uploads", .any)], .none⟩,
  ⟨"GetObjectTaggingHandler", "ACTION_READ", "GET", true, false, [("tagging", .any)], .none⟩,
  ⟨"PutObjectTaggingHandler", "ACTION_TAGGING", "PUT", true, false, [("tagging", .any)], .none⟩,
  ⟨"DeleteObjectTaggingHandler", "ACTION_TAGGING", "DELETE", true, false, [("tagging", .any)], .none⟩,
  ⟨"CopyObjectHandler", "ACTION_WRITE", "PUT", true, false, [], .copySource⟩,
  ⟨"PutObjectHandler", "ACTION_WRITE", "PUT", true, false, [], .none⟩,
  ⟨"PutBucketHandler", "ACTION_ADMIN", "PUT", false, false, [], .none⟩,
  ⟨"DeleteObjectHandler", "ACTION_WRITE", "DELETE", true, false, [], .none⟩,
  ⟨"DeleteBucketHandler", "ACTION_WRITE", "DELETE", false, false, [], .none⟩,
  ⟨"ListObjectsV2Handler", "ACTION_LIST", "GET", false, false, [("list-type", .eq "2")], .none⟩,
  ⟨"GetObjectHandler", "ACTION_READ", "GET", true, false, [], .none⟩,
  ⟨"ListObjectsV1Handler", "ACTION_LIST", "GET", false, false, [], .none⟩,
  ⟨"PostPolicyBucketHandler", "ACTION_WRITE", "POST", false, false, [], .multipartCT⟩,
  ⟨"DeleteMultipleObjectsHandler", "ACTION_WRITE", "POST", false, false, [("delete", .any)], .none⟩,
  ⟨"ListBucketsHandler", "-", "GET", false, true, [], .none⟩
]

def isDigits (s : String) : Bool := !s.isEmpty && s.toList.all (fun c => '0' ≤ c && c ≤ '9')

/-- gorilla/mux query matcher: the FIRST value of the key must match the anchored pattern; an absent key never matches -/
def queryMatches (rq : Req) (q : String × QPat) : Bool :=
  match rq.query.find? (fun p => p.1 == q.1) with
  | none => false
  | some (_, v) =>
    match q.2 with
    | .any => true
    | .eq w => v == w
    | .digits => isDigits v

/-- `HeadersRegexp` (unanchored): X-Amz-Copy-Source `.*?(\/|%2F).*?`, Content-Type `multipart/form-data*` -/
def hdrMatches (rq : Req) : HdrReq → Bool
  | .none => true
  | .copySource => strContains rq.copysrc "/" || strContains rq.copysrc "%2F"
  | .multipartCT => strContains rq.ctype "multipart/form-dat"

def routeMatches (rq : Req) (rt : Route) : Bool :=
  rq.method == rt.method
  && (if rt.root then rq.bucket.isEmpty else !rq.bucket.isEmpty && (!rt.needObject || rq.hasObject))
  && rt.queries.all (queryMatches rq)
  && hdrMatches rq rt.hdr

def matchIdx (rq : Req) : List Route → Nat → Option (Nat × Route)
  | [], _ => none
  | rt :: rest, i => if routeMatches rq rt then some (i, rt) else matchIdx rq rest (i + 1)

def matchRoute (table : List Route) (rq : Req) : Option (Nat × Route) := matchIdx rq table 0

/-! ### what reaches the filer -/

/-- What a handler that runs to the end sends to the (harness') filer: 1 = only entry lookups, 2 = more.
    (An observation about the handlers in front of the recording filer; only `≥ 1` matters to the property.) -/
def completedEffect (handler : String) : Nat :=
  if handler == "HeadBucketHandler" || handler == "GetObjectTaggingHandler" || handler == "DeleteObjectTaggingHandler" then 1 else 2

/-- the re-verification switch inside PutObjectHandler / PutObjectPartHandler (no case for the other auth types) -/
def putVerify (cfg : Config) (rq : Req) : Bool :=
  match authTypeOf rq with
  | .streamingSigned => verifySeed cfg rq
  | .signedV2 | .presignedV2 => (verifyV2 cfg rq).isSome
  | .presigned | .signed => (verifyV4 cfg rq).isSome
  | _ => true

/-- effect at the filer once the handler body runs: 0 nothing, 1 lookups only, 2 more -/
def handlerEffect (cfg : Config) (rt : Route) (rq : Req) : Nat :=
  match kindOf rt.handler with
  | .plain => completedEffect rt.handler
  | .putObject =>
    if enabled cfg then (if putVerify cfg rq then 2 else 0)
    else if authTypeOf rq = .streamingSigned then 0 else 2
  | .putPart =>
    if enabled cfg then (if putVerify cfg rq then 2 else 1) else 2
  | .postPolicy =>
    if rq.formBody && (verifyForm cfg rq).isSome then 2 else 0
  | .listBuckets =>
    if enabled cfg then (if authUser cfg rq then 2 else 0) else 2

/-- `iam.Auth(f, action)` around the handler (decided at registration: not enabled ⇒ the bare handler) -/
def effect (cfg : Config) (rt : Route) (rq : Req) : Nat :=
  if rt.action == "-" then handlerEffect cfg rt rq
  else if !enabled cfg then handlerEffect cfg rt rq
  else match authRequest cfg (actionValue rt.action) rq with
    | some _ => handlerEffect cfg rt rq
    | none => 0

/-- the whole gateway: route, then wrapper, then handler -/
def serve (cfg : Config) (rq : Req) : Int × Nat :=
  match matchRoute routes rq with
  | none => (-1, 0)
  | some (i, rt) => (i, effect cfg rt rq)

/-! ### the source text the tables above transcribe (compared with the regenerated facts) -/

def expectedAuthOrder : List (String × String) := [
  ("isRequestSignatureV2(r)", "authTypeSignedV2"),
  ("isRequestPresignedSignatureV2(r)", "authTypePresignedV2"),
  ("isRequestSignStreamingV4(r)", "authTypeStreamingSigned"),
  ("isRequestSignatureV4(r)", "authTypeSigned"),
  ("isRequestPresignedSignatureV4(r)", "authTypePresigned"),
  ("isRequestJWT(r)", "authTypeJWT"),
  ("isRequestPostPolicySignatureV4(r)", "authTypePostPolicy"),
  ("_, ok := r.Header[\"Authorization\"];!ok", "authTypeAnonymous"),
  ("", "authTypeUnknown")]

def expectedPred : List (String × String) := [
  ("isRequestJWT", "return strings.HasPrefix(r.Header.Get(\"Authorization\"), \"Bearer\")"),
  ("isRequestSignatureV4", "return strings.HasPrefix(r.Header.Get(\"Authorization\"), signV4Algorithm)"),
  ("isRequestSignatureV2", "return !strings.HasPrefix(r.Header.Get(\"Authorization\"), signV4Algorithm) && strings.HasPrefix(r.Header.Get(\"Authorization\"), signV2Algorithm)"),
  ("isRequestPresignedSignatureV4", "_, ok := r.URL.Query()[\"X-Amz-Credential\"] ; return ok"),
  ("isRequestPresignedSignatureV2", "_, ok := r.URL.Query()[\"AWSAccessKeyId\"] ; return ok"),
  ("isRequestPostPolicySignatureV4", "return strings.Contains(r.Header.Get(\"Content-Type\"), \"multipart/form-data\") && r.Method == http.MethodPost"),
  ("isRequestSignStreamingV4", "return r.Header.Get(\"x-amz-content-sha256\") == streamingContentSHA256 && r.Method == http.MethodPut")]

def expectedTail : String :=
  "if s3Err != s3err.ErrNone { return identity, s3Err } ; bucket, _ := getBucketAndObject(r) ; if !identity.canDo(action, bucket) { return identity, s3err.ErrAccessDenied } ; return identity, s3err.ErrNone"

def authTypeOfName : String → Option AuthType
  | "authTypeUnknown" => some .unknown | "authTypeAnonymous" => some .anonymous | "authTypePresigned" => some .presigned
  | "authTypePresignedV2" => some .presignedV2 | "authTypePostPolicy" => some .postPolicy | "authTypeStreamingSigned" => some .streamingSigned
  | "authTypeSigned" => some .signed | "authTypeSignedV2" => some .signedV2 | "authTypeJWT" => some .jwt | _ => none

def armName : Arm → String
  | .pass => "pass" | .denied => "denied" | .notimpl => "notimpl" | .v2 => "v2" | .v4 => "v4" | .anon => "anon"

/-- the verifier functions a handler of each kind calls itself -/
def expectedVerifiers (h : String) : String :=
  match kindOf h with
  | .plain => "-" | .putObject => "seed,v2,v4" | .putPart => "seed,v2,v4" | .postPolicy => "policy" | .listBuckets => "authuser"

/-! ### IAM policy documents: `GetActions` -/

structure Stmt where
  effect    : Str
  actions   : List Str
  resources : List Str
deriving Repr, DecidableEq

/-- `strings.Split(s, string c)` -/
def splitOn (c : Char) : Str → List Str
  | [] => [[]]
  | x :: xs =>
    if x = c then [] :: splitOn c xs
    else match splitOn c xs with
      | [] => [[x]]
      | h :: t => (x :: h) :: t

/-- `MapToStatementAction` -/
def mapToStatementAction (a : Str) : Str :=
  if a = "*".toList then "Admin".toList
  else if a = "Put*".toList then "Write".toList
  else if a = "Get*".toList then "Read".toList
  else if a = "List*".toList then "List".toList
  else if a = "Tagging*".toList then "Tagging".toList
  else []

def actionsOfPair (res action : Str) : List Str :=
  match splitOn ':' res with
  | [a, b, c, _, _, r5] =>
    if a = "arn".toList ∧ b = "aws".toList ∧ c = "s3".toList then
      match splitOn ':' action with
      | [s, x] =>
        if s = "s3".toList then
          let sa := mapToStatementAction x
          if r5 = "*".toList then [sa]
          else match splitOn '/' r5 with
            | [bk, star] => if star = "*".toList then [sa ++ ':' :: bk] else []
            | _ => []
        else []
      | _ => []
    else []
  | _ => []

/-- `GetActions(policy)` -/
def getActions (p : List Stmt) : List Str :=
  p.flatMap fun st =>
    if st.effect = "Allow".toList then
      st.resources.flatMap fun res => st.actions.flatMap fun action => actionsOfPair res action
    else []

end SwV.Model.C26
