/-
C08 — persistent identifiers and headers: executable model (core Lean only).

Mirrors, function by function:
  weed/storage/super_block/replica_placement.go   NewReplicaPlacementFromString / FromByte / Byte / String
  weed/storage/needle/volume_ttl.go               ReadTTL / LoadTTLFromBytes / LoadTTLFromUint32 / ToBytes / ToUint32 / String
  weed/storage/needle/file_id.go, needle.go       FileId.String / ParseFileIdFromString / ParseNeedleIdCookie
  weed/storage/types/*.go                         ParseNeedleId / ParseCookie / ToOffset / ToActualOffset / OffsetToBytes
  weed/storage/needle_map/needle_value.go         ToBytes        weed/storage/idx/walk.go  IdxFileEntry
  weed/storage/super_block/super_block*.go        SuperBlock.Bytes / ReadSuperBlock
Strings are `List Char` restricted to ASCII by the harness generators (Go iterates
runes in the replica-placement parser; for ASCII, runes = bytes).
-/
namespace SwV.Model.C08

/-! ## strconv models -/

def digitVal (c : Char) : Option Nat :=
  if '0' ≤ c ∧ c ≤ '9' then some (c.toNat - 48) else none

def hexVal (c : Char) : Option Nat :=
  if '0' ≤ c ∧ c ≤ '9' then some (c.toNat - 48)
  else if 'a' ≤ c ∧ c ≤ 'f' then some (c.toNat - 87)
  else if 'A' ≤ c ∧ c ≤ 'F' then some (c.toNat - 55)
  else none

/-- digits in `base` (10 or 16) to a number; `none` on a non-digit or on the empty string -/
def parseDigits (base : Nat) (cs : List Char) : Option Nat :=
  if cs.isEmpty then none else
  cs.foldl (fun acc c =>
    match acc, (if base = 16 then hexVal c else digitVal c) with
    | some a, some d => some (a * base + d)
    | _, _ => none) (some 0)

/-- `strconv.ParseUint(s, base, bits)`: (value, ok). On a range error Go returns the
    maximum value and an error; on a syntax error 0 and an error. No sign, no underscores. -/
def parseUint (base bits : Nat) (cs : List Char) : Nat × Bool :=
  match parseDigits base cs with
  | none => (0, false)
  | some v => if v < 2 ^ bits then (v, true) else (2 ^ bits - 1, false)

/-- `strconv.Atoi`: optional sign then decimal digits; (value, ok). Range errors clamp. -/
def atoi (cs : List Char) : Int × Bool :=
  let (neg, ds) := match cs with
    | '+' :: r => (false, r)
    | '-' :: r => (true, r)
    | r => (false, r)
  match parseDigits 10 ds with
  | none => (0, false)
  | some v =>
    if neg then
      if v ≤ 2 ^ 63 then (-(v : Int), true) else (-(2 ^ 63 : Int), false)
    else
      if v < 2 ^ 63 then ((v : Int), true) else ((2 ^ 63 - 1 : Int), false)

def natToDec (n : Nat) : List Char := (Nat.toDigits 10 n)

def hexDigit (n : Nat) : Char :=
  if n < 10 then Char.ofNat (48 + n) else Char.ofNat (87 + n)

def hexOfBytes (bs : List Nat) : List Char :=
  bs.flatMap fun b => [hexDigit (b / 16), hexDigit (b % 16)]

/-- big-endian bytes of `n`, `k` of them -/
def beBytes : Nat → Nat → List Nat
  | 0, _ => []
  | k + 1, n => (n / 256 ^ k) % 256 :: beBytes k n

def beValue (bs : List Nat) : Nat := bs.foldl (fun a b => a * 256 + b) 0

/-! ## Replica placement -/

structure RP where
  dc : Nat
  rack : Nat
  same : Nat
deriving Repr, DecidableEq

/-- `NewReplicaPlacementFromString`: returns the partially filled value and whether it
    succeeded; characters at index ≥ 3 are range-checked but otherwise ignored. -/
def rpFromStringAux : List Char → Nat → RP → RP × Bool
  | [], _, rp => (rp, true)
  | c :: rest, i, rp =>
    let count : Int := (c.toNat : Int) - 48
    if 0 ≤ count ∧ count ≤ 2 then
      let n := count.toNat
      let rp' := match i with
        | 0 => { rp with dc := n }
        | 1 => { rp with rack := n }
        | 2 => { rp with same := n }
        | _ => rp
      rpFromStringAux rest (i + 1) rp'
    else (rp, false)

def rpFromString (s : List Char) : RP × Bool := rpFromStringAux s 0 ⟨0, 0, 0⟩

/-- `fmt.Sprintf("%03d", b)` for a byte -/
def pad3 (b : Nat) : List Char :=
  [Char.ofNat (48 + b / 100), Char.ofNat (48 + b / 10 % 10), Char.ofNat (48 + b % 10)]

def rpFromByte (b : Nat) : RP × Bool := rpFromString (pad3 b)

/-- `Byte()`: `byte(dc*100 + rack*10 + same)` -/
def rpByte (rp : RP) : Nat := (rp.dc * 100 + rp.rack * 10 + rp.same) % 256

def rpString (rp : RP) : List Char :=
  [Char.ofNat ((rp.dc + 48) % 256), Char.ofNat ((rp.rack + 48) % 256), Char.ofNat ((rp.same + 48) % 256)]

def rpValid (rp : RP) : Prop := rp.dc ≤ 2 ∧ rp.rack ≤ 2 ∧ rp.same ≤ 2
instance (rp : RP) : Decidable (rpValid rp) := by unfold rpValid; infer_instance

/-! ## TTL -/

structure TTL where
  count : Nat
  unit : Nat
deriving Repr, DecidableEq

def toStoredByte (c : Char) : Nat :=
  if c = 'm' then 1 else if c = 'h' then 2 else if c = 'd' then 3
  else if c = 'w' then 4 else if c = 'M' then 5 else if c = 'y' then 6 else 0

def unitChar (u : Nat) : Option Char :=
  match u with
  | 1 => some 'm' | 2 => some 'h' | 3 => some 'd' | 4 => some 'w' | 5 => some 'M' | 6 => some 'y'
  | _ => none

/-- `ReadTTL`: (ttl, ok). `byte(count)` truncates; an unknown unit letter is stored as 0. -/
def readTTL (s : List Char) : TTL × Bool :=
  match s.getLast? with
  | none => (⟨0, 0⟩, true)
  | some last =>
    let (countChars, unitByte) :=
      if '0' ≤ last ∧ last ≤ '9' then (s, 'm') else (s.dropLast, last)
    let (count, ok) := atoi countChars
    (⟨(count % 256).toNat, toStoredByte unitByte⟩, ok)

def loadTTLFromBytes (b0 b1 : Nat) : TTL := if b0 = 0 ∧ b1 = 0 then ⟨0, 0⟩ else ⟨b0, b1⟩

def loadTTLFromUint32 (v : Nat) : TTL := loadTTLFromBytes ((v / 256) % 256) (v % 256)

def ttlToUint32 (t : TTL) : Nat := if t.count = 0 then 0 else t.count * 256 + t.unit

def ttlString (t : TTL) : List Char :=
  if t.count = 0 then [] else
  match unitChar t.unit with
  | none => []
  | some c => natToDec t.count ++ [c]

/-- minutes as computed by `TTL.Minutes` (uint32 arithmetic cannot overflow for count ≤ 255) -/
def ttlMinutes (t : TTL) : Nat :=
  match t.unit with
  | 1 => t.count | 2 => t.count * 60 | 3 => t.count * 60 * 24 | 4 => t.count * 60 * 24 * 7
  | 5 => t.count * 60 * 24 * 30 | 6 => t.count * 60 * 24 * 365 | _ => 0

/-! ## File ids -/

structure Fid where
  vid : Nat
  key : Nat
  cookie : Nat
deriving Repr, DecidableEq

def dropLeadingZeroBytes (bs : List Nat) : List Nat := bs.dropWhile (· = 0)

/-- `formatNeedleIdCookie`: 8 key bytes with leading zero BYTES trimmed, then 4 cookie bytes, hex -/
def formatNeedleIdCookie (key cookie : Nat) : List Char :=
  hexOfBytes (dropLeadingZeroBytes (beBytes 8 key) ++ beBytes 4 cookie)

def fidString (f : Fid) : List Char := natToDec f.vid ++ [','] ++ formatNeedleIdCookie f.key f.cookie

/-- `ParseNeedleIdCookie` -/
def parseNeedleIdCookie (s : List Char) : Option (Nat × Nat) :=
  if s.length ≤ 8 then none
  else if s.length > 24 then none
  else
    let split := s.length - 8
    match parseUint 16 64 (s.take split), parseUint 16 32 (s.drop split) with
    | (k, true), (c, true) => some (k, c)
    | _, _ => none

def splitAtComma (s : List Char) : Option (List Char × List Char) :=
  match s.span (· ≠ ',') with
  | (_, []) => none
  | ([], _) => none
  | (a, _ :: b) => some (a, b)

/-- `ParseFileIdFromString`; the volume id is parsed as a 64-bit number and then
    truncated to `uint32` (as `VolumeId(volumeId)` does). -/
def parseFid (s : List Char) : Option Fid :=
  match splitAtComma s with
  | none => none
  | some (v, kc) =>
    match parseUint 10 64 v with
    | (_, false) => none
    | (vid, true) =>
      match parseNeedleIdCookie kc with
      | none => none
      | some (k, c) => some ⟨vid % 2 ^ 32, k, c⟩

/-! ## Index entries (parametric in the offset width: 4 or 5 bytes) -/

/-- `ToOffset`: actual byte offset → stored units (`/ NeedlePaddingSize`), truncated to the width -/
def toOffsetUnits (padding offsetSize actual : Nat) : Nat := (actual / padding) % 256 ^ offsetSize

/-- `OffsetToBytes`: b3 b2 b1 b0 [b4] — the fifth (highest) byte is stored LAST -/
def offsetBytes (offsetSize units : Nat) : List Nat :=
  let lower := beBytes 4 (units % 256 ^ 4)
  if offsetSize = 5 then lower ++ [(units / 256 ^ 4) % 256] else lower

def offsetOfBytes (bs : List Nat) : Nat :=
  beValue (bs.take 4) + (match bs.drop 4 with | [b4] => b4 * 256 ^ 4 | _ => 0)

def sizeToU32 (size : Int) : Nat := (size % (2 ^ 32 : Int)).toNat
def u32ToSize (v : Nat) : Int := if v < 2 ^ 31 then (v : Int) else (v : Int) - (2 ^ 32 : Int)

def idxEntryBytes (padding offsetSize key actual : Nat) (size : Int) : List Nat :=
  beBytes 8 key ++ offsetBytes offsetSize (toOffsetUnits padding offsetSize actual) ++ beBytes 4 (sizeToU32 size)

/-- `IdxFileEntry` followed by `ToActualOffset` -/
def idxEntryParse (padding offsetSize : Nat) (bs : List Nat) : Nat × Nat × Int :=
  (beValue (bs.take 8), offsetOfBytes ((bs.drop 8).take offsetSize) * padding,
   u32ToSize (beValue ((bs.drop (8 + offsetSize)).take 4)))

/-! ## Super block -/

structure SuperBlock where
  version : Nat
  rp : RP
  ttl : TTL
  rev : Nat
  extra : List Nat      -- marshalled SuperBlockExtra, opaque
deriving Repr, DecidableEq

/-- `SuperBlock.Bytes` (extra present iff non-empty in this model) -/
def sbBytes (s : SuperBlock) : List Nat :=
  [s.version % 256, rpByte s.rp, s.ttl.count % 256, s.ttl.unit % 256] ++ beBytes 2 s.rev ++
  (if s.extra.isEmpty then [0, 0] else beBytes 2 s.extra.length ++ s.extra)

/-- `ReadSuperBlock` over the bytes of the file (after the `fix:` commit that reads the
    extra bytes from the file; before it an all-zero buffer was unmarshalled and every
    super block with extra metadata failed to load). protobuf (un)marshalling of the
    extra is abstracted as the identity on the marshalled bytes. -/
def sbRead (bs : List Nat) : Option SuperBlock :=
  if bs.length < 8 then none else
  match rpFromByte (bs.getD 1 0) with
  | (_, false) => none
  | (rp, true) =>
    let ttl := loadTTLFromBytes (bs.getD 2 0) (bs.getD 3 0)
    let rev := beValue ((bs.drop 4).take 2)
    let extraSize := beValue ((bs.drop 6).take 2)
    if extraSize = 0 then some ⟨bs.getD 0 0, rp, ttl, rev, []⟩
    else if bs.length < 8 + extraSize then none
    else some ⟨bs.getD 0 0, rp, ttl, rev, (bs.drop 8).take extraSize⟩

/-- `BlockSize()`: the extra only counts for versions 2 and 3 -/
def sbBlockSize (version extraSize : Nat) : Nat :=
  if version = 2 ∨ version = 3 then 8 + extraSize else 8

end SwV.Model.C08
