/-
C34 — volume server access control with signed tokens: executable model (core Lean only).

Mirrors
  weed/security/jwt.go                      GetJwt (query parameter first, then `Authorization: BEARER x`), DecodeJwt's method check
  weed/server/volume_server_handlers.go     maybeCheckJwtAuthorization
  weed/server/common.go                     parseURLPath (the three path forms /v,f  /v/f  /v/f/name)
  weed/server/volume_server_handlers_{read,write}.go   the check comes before the Store is touched
The cryptographic and time checks of github.com/golang-jwt/jwt are ABSTRACT: a token is its string
plus how it was made (well-formed? algorithm, signing key, signature untampered, exp/nbf/iat valid now,
fid claim).  Strings are `List Char` (ASCII).
-/
namespace SwV.Model.C34

structure Tok where
  str : List Char
  wellFormed : Bool
  alg : String
  signKey : List Char
  sigOk : Bool
  expOk : Bool
  nbfOk : Bool
  iatOk : Bool
  fid : List Char
deriving Repr

def upper (c : Char) : Char := if 'a' ≤ c ∧ c ≤ 'z' then Char.ofNat (c.toNat - 32) else c

/-- `security.GetJwt`: the 7th character of the header is never examined -/
def getJwt (qjwt auth : List Char) : List Char :=
  if qjwt ≠ [] then qjwt
  else if auth.length > 7 ∧ (auth.take 6).map upper = "BEARER".toList then auth.drop 7
  else []

/-- index of the last occurrence -/
def lastIndexOf (c : Char) : List Char → Option Nat
  | [] => none
  | x :: xs =>
    match lastIndexOf c xs with
    | some i => some (i + 1)
    | none => if x = c then some 0 else none

def splitOn (sep : Char) : List Char → List (List Char)
  | [] => [[]]
  | c :: cs =>
    match splitOn sep cs with
    | [] => [[]]
    | p :: ps => if c = sep then [] :: p :: ps else (c :: p) :: ps

/-- cut `s` at the last `c` when that is not the first character: (`s[:i]`, `s[i:]`) -/
def cutLastPositive (c : Char) (s : List Char) : List Char × List Char :=
  match lastIndexOf c s with
  | some i => if i > 0 then (s.take i, s.drop i) else (s, [])
  | none => (s, [])

/-- `parseURLPath` for paths with one, two or three '/' (vid, fid); other shapes are not used by clients -/
def parseURLPath (path : List Char) : List Char × List Char :=
  match splitOn '/' path with
  | [_, v, f, _] => (v, f)
  | [_, v, f] => (v, (cutLastPositive '.' f).1)
  | [_, rest] =>
    -- sepIndex = 0: indices into path[sepIndex:] are indices into path
    match lastIndexOf ',' path with
    | none => (rest, [])
    | some ci =>
      if ci = 0 then (rest, []) else
      let v := (path.take ci).drop 1
      match lastIndexOf '.' path with
      | some di => if di > 0 then (v, (path.take di).drop (ci + 1)) else (v, path.drop (ci + 1))
      | none => (v, path.drop (ci + 1))
  | _ => ([], [])

/-- `if sepIndex := strings.LastIndex(fid, "_"); sepIndex > 0 { fid = fid[:sepIndex] }` -/
def stripDelta (fid : List Char) : List Char := (cutLastPositive '_' fid).1

structure Cfg where
  wkey : List Char
  rkey : List Char
deriving Repr

def isWrite (method : String) : Bool := method == "POST" || method == "PUT" || method == "DELETE"

def isHmac (alg : String) : Bool := alg == "HS256" || alg == "HS384" || alg == "HS512"

inductive Verdict where
  | noKey | missing | malformed | wrongMethod | badSignature | timeInvalid | fidMismatch | ok
deriving DecidableEq, Repr

/-- `maybeCheckJwtAuthorization` (with DecodeJwt inlined). `t` describes the string `t.str`; any other
    non-empty string does not parse. -/
def check (cfg : Cfg) (method : String) (vid fid tokenStr : List Char) (t : Tok) : Verdict :=
  let key := if isWrite method then cfg.wkey else cfg.rkey
  if key = [] then .noKey else
  if tokenStr = [] then .missing else
  if tokenStr ≠ t.str ∨ t.wellFormed = false then .malformed else
  if isHmac t.alg = false then .wrongMethod else
  if t.sigOk = false ∨ t.signKey ≠ key then .badSignature else
  if (t.expOk && t.nbfOk && t.iatOk) = false then .timeInvalid else
  if t.fid = vid ++ ',' :: stripDelta fid then .ok else .fidMismatch

def authorized (v : Verdict) : Bool := v == .noKey || v == .ok

/-- one request against a store (abstract content per needle): the handler checks first, touches after -/
structure Outcome (σ : Type) where
  status401 : Bool
  store : σ

/-- an authorized upload lands only for the comma form of the path: `CreateNeedleFromRequest` takes the fid from the last
    ',' of the URL path (the '/' forms answer 400 after the check); DELETE goes through `parseURLPath` -/
def writeLands (method : String) (path : List Char) : Bool :=
  if method == "DELETE" then true else path.contains ','

def handle {σ : Type} (cfg : Cfg) (method : String) (path qjwt auth : List Char) (t : Tok) (effect : σ → σ) (s : σ) : Outcome σ :=
  let (vid, fid) := parseURLPath path
  if authorized (check cfg method vid fid (getJwt qjwt auth) t) then ⟨false, if isWrite method && writeLands method path then effect s else s⟩
  else ⟨true, s⟩

end SwV.Model.C34
