/-
C40 — replicated writes: executable model (core Lean only).

Mirrors
  weed/server/volume_server_handlers_write.go   PostHandler / DeleteHandler (status of the answer)
  weed/storage/needle/needle.go + needle_parse_upload.go   CreateNeedleFromRequest (which request fields become needle fields)
  weed/topology/store_replicate.go              ReplicatedWrite / ReplicatedDelete / distributedOperation
                                                (local write first, then every other location; which fields travel:
                                                name, mime, pairs, ts, ttl, cm, compressed flag; outcome aggregation)
  weed/operation/upload_content.go              doUploadData on the forwarding path (re-sniffs the mime type, may gzip) — the
                                                decision functions are those of the C33 model
  weed/storage/volume_write.go                  isFileUnchanged (same bytes ⇒ the old needle with its old metadata stays)
gzip is abstract (C33 `Codec`); the stdlib sniffers are oracle inputs.  Replica failure = the connection is dropped
before (mode 1) or after (mode 2) the replica's handler ran.
-/
import SwV.Model.C33
namespace SwV.Model.C40
open SwV.Model.C33

/-- last-modified: a client-supplied `ts`, or the primary's clock at operation `op` -/
inductive LM where
  | given (n : Nat)
  | now (op : Nat)
deriving DecidableEq, Repr

structure Rec where
  data : Bytes
  compressed : Bool
  name : List Char
  mime : List Char
  pairs : String          -- canonical JSON object of the Seaweed-* headers (opaque: it travels unchanged)
  lm : LM
  ttl : List Char
  cm : Bool
deriving DecidableEq, Repr

/-- one multipart POST as a volume server receives it -/
structure Req where
  name : List Char
  ctype : List Char
  lm : LM                 -- `ts` query parameter (absent on the client's request = the receiver's clock)
  ttl : List Char
  pairs : String
  gz : Bool               -- Content-Encoding: gzip
  cm : Bool
  body : Bytes
  extMime : List Char     -- oracle: mime.TypeByExtension(lower(ext(name)))

/-- `CreateNeedleFromRequest` -/
def createNeedle (q : Req) : Rec :=
  let srvExtMime := if dotIndexPositive q.name then q.extMime else []
  let mimeType := if !q.cm ∧ q.ctype ≠ [] ∧ q.ctype ≠ octet ∧ srvExtMime ≠ q.ctype then q.ctype else []
  { data := q.body, compressed := q.gz,
    name := if q.name.length < 256 then q.name else [],
    mime := if mimeType.length < 256 then mimeType else [],
    pairs := q.pairs, lm := q.lm, ttl := q.ttl, cm := q.cm }

/-- what is on disk: 5 bytes of last-modified -/
def onDisk (r : Rec) : Rec :=
  { r with lm := match r.lm with | .given n => .given (n % 2 ^ 40) | l => l }

abbrev Node := List (Nat × Rec)

def Node.get (nd : Node) (k : Nat) : Option Rec := (nd.find? (·.1 == k)).map (·.2)
def Node.erase (nd : Node) (k : Nat) : Node := nd.filter (·.1 != k)
def Node.put (nd : Node) (k : Nat) (r : Rec) : Node := (k, r) :: nd.erase k

/-- `Store.WriteVolumeNeedle`: (node', isUnchanged) -/
def writeLocal (nd : Node) (k : Nat) (r : Rec) : Node × Bool :=
  match nd.get k with
  | some old => if old.data = r.data ∧ r.data ≠ [] then (nd, true) else (nd.put k (onDisk r), false)
  | none => (nd.put k (onDisk r), false)

/-- oracles of the forwarding step -/
structure Sniff where
  detected : List Char
  extMime : List Char
  gz128 : Bool

/-- the request `ReplicatedWrite` sends to the other locations for the primary's needle `n` -/
def forward (c : Codec) (s : Sniff) (n : Rec) : Req :=
  -- the sniffers run on the NEEDLE's name: a name of 256+ characters was dropped by CreateNeedleFromRequest
  let s : Sniff := { s with extMime := if n.name = [] then [] else s.extMime }
  let i : UpIn := { name := n.name, mime := n.mime, cipher := false, inputCompressed := n.compressed, data := n.data,
                    detected := s.detected, extMime := s.extMime, gz128 := s.gz128 }
  let (mtype, gzNow) := decide1 i
  { name := n.name, ctype := if mtype = [] then s.extMime else mtype, lm := n.lm, ttl := n.ttl, pairs := n.pairs,
    gz := n.compressed || gzNow, cm := n.cm, body := if gzNow then c.gzip n.data else n.data, extMime := s.extMime }

structure World where
  nodes : List Node         -- node 0 = the server the client talks to
  faults : List Nat         -- per node: 0 healthy, 1 drop before the handler, 2 drop after the handler
deriving Repr

inductive Status where
  | created | unchanged | deleted | notfound | err
deriving DecidableEq, Repr

/-- replicas 1.. receive `q`; returns the new replica states and whether every one answered -/
def fanOut (q : Req) (k : Nat) : List Node → List Nat → List Node × Bool
  | [], _ => ([], true)
  | nd :: rest, fs =>
    let f := fs.headD 0
    let (rest', ok) := fanOut q k rest fs.tail
    if f = 1 then (nd :: rest', false)
    else ((writeLocal nd k (createNeedle q)).1 :: rest', ok && f = 0)

def upload (c : Codec) (s : Sniff) (w : World) (k : Nat) (q : Req) : World × Status :=
  match w.nodes with
  | [] => (w, .err)
  | p :: rs =>
    let n := createNeedle q
    let (p', unch) := writeLocal p k n
    let (rs', ok) := fanOut (forward c s n) k rs w.faults.tail
    ({ w with nodes := p' :: rs' }, if !ok then .err else if unch then .unchanged else .created)

def fanOutDelete (k : Nat) : List Node → List Nat → List Node × Bool
  | [], _ => ([], true)
  | nd :: rest, fs =>
    let f := fs.headD 0
    let (rest', ok) := fanOutDelete k rest fs.tail
    if f = 1 then (nd :: rest', false) else (nd.erase k :: rest', ok && f = 0)

def delete (w : World) (k : Nat) : World × Status :=
  match w.nodes with
  | [] => (w, .err)
  | p :: rs =>
    match p.get k with
    | none => (w, .notfound)
    | some _ =>
      let (rs', ok) := fanOutDelete k rs w.faults.tail
      ({ w with nodes := p.erase k :: rs' }, if ok then .deleted else .err)

/-- what the property compares: the decoded content and the metadata -/
structure View where
  content : Bytes
  name : List Char
  mime : List Char
  pairs : String
  lm : LM
  ttl : List Char
  cm : Bool
deriving DecidableEq, Repr

def decoded (c : Codec) (r : Rec) : Bytes := if r.compressed then (decompress c r.data).1 else r.data

def view (c : Codec) (r : Rec) : View := ⟨decoded c r, r.name, r.mime, r.pairs, r.lm, r.ttl, r.cm⟩

end SwV.Model.C40
