/-
C23 — property theorems (only theorems here; helper lemmas live in SwV/Lemmas/C23.lean).
All statements are about the executable model in SwV/Model/C23.lean, which the
correspondence check ties to the exported FilerConf API of /repo on every run.
-/
import SwV.Model.C23
import SwV.Spec.C23
import SwV.Lemmas.C23
import SwV.Gen.C23

namespace SwV.Props.C23
open SwV.Model.C23 SwV.Spec.C23 SwV.Lemmas.C23

/-! ### the rule set behaves as a finite map -/

/-- every rule set the API can build has distinct, non-empty keys -/
theorem wf_run (ops : List Op) : WF (run ops) := by
  suffices h : ∀ rs, WF rs → WF (ops.foldl applyOp rs) from h [] ⟨by simp, by simp⟩
  induction ops with
  | nil => intro rs h; exact h
  | cons op rest ih =>
    intro rs h
    apply ih
    cases op with
    | add k c =>
      simp only [applyOp, addRule]
      by_cases hk : k = []
      · simpa [hk] using h
      · simp only [hk, if_false, Option.getD_some]
        -- putRule keeps keys distinct and non-empty
        clear ih
        induction rs with
        | nil => exact ⟨by simp [putRule], by simp [putRule, hk]⟩
        | cons r rs' ihr =>
          rcases r with ⟨k', c'⟩
          have hrest : WF rs' := ⟨(List.nodup_cons.mp h.1).2, fun r hr => h.2 r (List.mem_cons_of_mem _ hr)⟩
          simp only [putRule]
          by_cases e : k' = k
          · subst e
            simp only [if_true]
            exact ⟨by simpa using h.1, by
              intro r hr
              rcases List.mem_cons.mp hr with e | hr
              · subst e; exact hk
              · exact h.2 r (List.mem_cons_of_mem _ hr)⟩
          · simp only [e, if_false]
            have ih' := ihr hrest
            refine ⟨?_, ?_⟩
            · simp only [List.map_cons, List.nodup_cons]
              refine ⟨?_, ih'.1⟩
              intro hin
              rcases List.mem_map.mp hin with ⟨⟨k2, c2⟩, hm2, hk2⟩
              simp only at hk2
              subst hk2
              -- (k', c2) ∈ putRule rs' k c, so k' is looked up there; but k' ≠ k and k' ∉ keys rs'
              have hl := mem_lookup_of_nodup _ ih'.1 _ _ hm2
              rw [lookup_putRule] at hl
              simp only [e, if_false] at hl
              have := lookup_some_mem _ _ _ hl
              have hnot := (List.nodup_cons.mp h.1).1
              exact hnot (List.mem_map.mpr ⟨(k2, c2), this, rfl⟩)
            · intro r hr
              rcases List.mem_cons.mp hr with e2 | hr
              · subst e2; exact h.2 (k', c') (List.mem_cons_self ..)
              · exact ih'.2 r hr
    | del k =>
      simp only [applyOp, delRule]
      refine ⟨?_, fun r hr => h.2 r (List.mem_filter.mp hr).1⟩
      exact (List.filter_sublist.map _).nodup h.1

/-- refinement: looking a prefix up in the rule set built by ANY history of API calls gives
    what the finite-map reading of that history gives -/
theorem lookup_run (ops : List Op) (q : Key) : List.lookup q (run ops) = denote ops q := by
  suffices h : ∀ rs m, (∀ q, List.lookup q rs = m q) →
      ∀ q, List.lookup q (ops.foldl applyOp rs) = ops.foldl denoteStep m q from
    h [] (fun _ => none) (by simp) q
  induction ops with
  | nil => intro rs m h; exact h
  | cons op rest ih =>
    intro rs m h
    apply ih
    intro q
    cases op with
    | add k c =>
      simp only [applyOp, addRule, denoteStep]
      by_cases hk : k = []
      · simp [hk, h]
      · simp [hk, lookup_putRule, h]
    | del k => simp [applyOp, denoteStep, lookup_delRule, h]

/-- the result of a match depends only on the map the rules denote -/
theorem match_ext (r1 r2 : Rules) (h : ∀ q, List.lookup q r1 = List.lookup q r2) (p : Key) :
    matchRule r1 p = matchRule r2 p := by
  have : matchStep r1 p = matchStep r2 p := by
    funext acc i; simp [matchStep, h]
  simp [matchRule, matchUpTo, this]

/-! ### field-wise longest prefix -/

/-- MAIN: for every well-formed rule set and every path, every field of the match result is the
    value of that field in the LONGEST rule that prefixes the path and sets the field
    (default when no matching rule sets it). -/
theorem match_eq_fieldwise_longest (rs : Rules) (hwf : WF rs) (p : Key) :
    FieldwiseLongest rs p (matchRule rs p) := by
  have go : ∀ {α : Type} (get : Conf → α) (isSet : α → Bool) (dflt : α),
      (∀ a b, get (mergePathConf a b) = if isSet (get b) = true then get b else get a) → get {} = dflt →
      IsLongestSetting rs p get isSet dflt (get (matchRule rs p)) :=
    fun get isSet dflt hm h0 =>
      longest_of_upTo rs p get isSet dflt _ (upTo_longest get isSet dflt hm h0 rs hwf p p.length (Nat.le_refl _))
  constructor
  · exact go _ _ _ (by intro a b; simp [mergePathConf, nvl, strSet]) rfl
  · exact go _ _ _ (by intro a b; simp [mergePathConf, nvl, strSet]) rfl
  · exact go _ _ _ (by intro a b; simp [mergePathConf, nvl, strSet]) rfl
  · exact go _ _ _ (by intro a b; simp [mergePathConf, strSet]) rfl
  · exact go _ _ _ (by intro a b; cases hb : b.fsync <;> simp [mergePathConf, boolSet, hb]) rfl
  · exact go _ _ _ (by intro a b; simp [mergePathConf, natSet]) rfl
  · exact go _ _ _ (by intro a b; cases hb : b.readOnly <;> simp [mergePathConf, boolSet, hb]) rfl

/-- … in particular after any history of AddLocationConf / DeleteLocationConf calls -/
theorem match_run_fieldwise_longest (ops : List Op) (p : Key) :
    FieldwiseLongest (run ops) p (matchRule (run ops) p) :=
  match_eq_fieldwise_longest _ (wf_run ops) p

/-- the specification is determinate: with distinct keys there is exactly one longest setting -/
theorem longest_unique {α : Type} (rs : Rules) (hwf : WF rs) (p : Key) (get : Conf → α) (isSet : α → Bool)
    (dflt v w : α) (hv : IsLongestSetting rs p get isSet dflt v) (hw : IsLongestSetting rs p get isSet dflt w) : v = w := by
  rcases hv with ⟨k, c, hm, hk, hs, hv, hmax⟩ | ⟨hnone, hv⟩ <;> rcases hw with ⟨k', c', hm', hk', hs', hw, hmax'⟩ | ⟨hnone', hw⟩
  · have hlen : k.length = k'.length := Nat.le_antisymm (hmax' k c hm hk hs) (hmax k' c' hm' hk' hs')
    have hkk : k = k' := by
      rw [prefix_eq_take hk, prefix_eq_take hk', hlen]
    subst hkk
    have h1 := mem_lookup_of_nodup rs hwf.1 k c hm
    have h2 := mem_lookup_of_nodup rs hwf.1 k c' hm'
    rw [h1] at h2
    rw [hv, hw, Option.some.inj h2]
  · have := hnone' k c hm hk; simp [hs] at this
  · have := hnone k' c' hm' hk'; simp [hs'] at this
  · rw [hv, hw]

/-! ### removing a rule restores the settings computed without it -/

/-- adding a rule at an unused prefix and deleting it again gives, for every path, exactly the
    settings of the original rules -/
theorem delete_restores (rs : Rules) (k : Key) (c : Conf) (hfree : List.lookup k rs = none) (p : Key) :
    matchRule (delRule (putRule rs k c) k) p = matchRule rs p := by
  apply match_ext
  intro q
  rw [lookup_delRule, lookup_putRule]
  by_cases hq : q = k
  · subst hq; simp [hfree]
  · simp [hq]

/-- general form: after `DeleteLocationConf k` the settings are those of ANY rule set that agrees
    with the current one on all other prefixes and has no rule at `k` — the deleted rule's
    contents and the order of earlier calls leave no trace -/
theorem delete_eq_without (rs rs' : Rules) (k : Key)
    (hagree : ∀ q, q ≠ k → List.lookup q rs = List.lookup q rs') (hnone : List.lookup k rs' = none) (p : Key) :
    matchRule (delRule rs k) p = matchRule rs' p := by
  apply match_ext
  intro q
  rw [lookup_delRule]
  by_cases hq : q = k
  · subst hq; simp [hnone]
  · simp [hq, hagree q hq]

/-- history form: a history that adds a rule at `k` (unused so far) and later deletes it is
    indistinguishable, for every path, from the same history without the two calls -/
theorem delete_restores_history (pre mid : List Op) (k : Key) (c : Conf)
    (hmid : ∀ op ∈ mid, match op with | .add k' _ => k' ≠ k | .del _ => True) (p : Key) :
    matchRule (run (pre ++ [.add k c] ++ mid ++ [.del k])) p = matchRule (run (pre ++ mid ++ [.del k])) p := by
  apply match_ext
  intro q
  rw [lookup_run, lookup_run]
  simp only [denote, List.foldl_append, List.foldl_cons, List.foldl_nil]
  -- both sides end with `del k`; away from k the middle part acts identically on both maps
  generalize List.foldl denoteStep (fun _ => none) pre = m0
  by_cases hq : q = k
  · simp [denoteStep, hq]
  · simp only [denoteStep, hq, if_false]
    have key : ∀ (m1 m2 : Key → Option Conf), (∀ q, q ≠ k → m1 q = m2 q) →
        ∀ q, q ≠ k → mid.foldl denoteStep m1 q = mid.foldl denoteStep m2 q := by
      induction mid with
      | nil => intro m1 m2 h; exact h
      | cons op rest ih =>
        intro m1 m2 h
        apply ih (fun op ho => hmid op (List.mem_cons_of_mem _ ho))
        intro q hq
        cases op with
        | add k' c' =>
          simp only [denoteStep]
          by_cases e : k' = [] <;> simp [e, h q hq]
        | del k' => simp [denoteStep, h q hq]
    apply key _ _ _ q hq
    intro q hq
    by_cases e : k = [] <;> simp [e, hq]

/-! ### hypotheses are satisfiable / concrete instances -/

example : WF [(['/'], {}), (['/', 'a'], { collection := ['c'] })] := by
  refine ⟨by decide, ?_⟩
  intro r hr
  simp at hr
  rcases hr with rfl | rfl <;> simp

/-- the scenario of the fixed finding: rules /b/, /b/a, /b/a/x/ ; deleting /b/a keeps /b/a/x/ in force -/
theorem delete_keeps_longer_sibling_witness :
    let rs : Rules := [(['/', 'b', '/'], { collection := ['1'] }), (['/', 'b', '/', 'a'], { collection := ['2'] }),
                       (['/', 'b', '/', 'a', '/'], { collection := ['3'] })]
    (matchRule (delRule rs ['/', 'b', '/', 'a']) ['/', 'b', '/', 'a', '/', 'y']).collection = ['3'] ∧
    (matchRule (delRule rs ['/', 'b', '/', 'a']) ['/', 'b', '/', 'a', 'y']).collection = ['1'] := by decide

/-- `fsync` and `readOnly` cannot be switched off by a longer rule (a rule "sets" a boolean only by `true`) -/
theorem bool_fields_monotone_witness :
    (matchRule [(['/'], { fsync := true, readOnly := true }), (['/', 'a'], { fsync := false })] ['/', 'a', 'b']).fsync = true := by decide

/-! ## T1 bridges: facts regenerated from the source by `extract` (props/C23/extract.json → `SwV.Gen.C23`)

Each theorem states the text of the decisive Go statements as they stand in the working tree together with the
model expression that mirrors them; an edit to the Go code changes the generated string and breaks the theorem
of that name. -/

/-- `util.Nvl(b, a)`: the first argument that is not the empty string (`nvl`) -/
theorem bridge_nvl :
    SwV.Gen.C23.nvl_cond = "s != \"\"" ∧
    (∀ b a : List Char, nvl b a = if b ≠ [] then b else a) ∧
    (∀ a : List Char, nvl [] a = a) ∧ (∀ (c : Char) (b a : List Char), nvl (c :: b) a = c :: b) :=
  ⟨by decide, fun _ _ => rfl, fun _ => rfl, fun _ _ _ => rfl⟩

/-- `mergePathConf(a, b)` field by field, in source order -/
theorem bridge_merge_strings :
    SwV.Gen.C23.merge_collection = "a.Collection = util.Nvl(b.Collection, a.Collection)" ∧
    SwV.Gen.C23.merge_replication = "a.Replication = util.Nvl(b.Replication, a.Replication)" ∧
    SwV.Gen.C23.merge_ttl = "a.Ttl = util.Nvl(b.Ttl, a.Ttl)" ∧
    SwV.Gen.C23.merge_disk_cond = "b.DiskType != \"\"" ∧ SwV.Gen.C23.merge_disk = "a.DiskType = b.DiskType" ∧
    ∀ a b : Conf,
      (mergePathConf a b).collection = nvl b.collection a.collection ∧
      (mergePathConf a b).replication = nvl b.replication a.replication ∧
      (mergePathConf a b).ttl = nvl b.ttl a.ttl ∧
      (mergePathConf a b).diskType = (if b.diskType ≠ [] then b.diskType else a.diskType) :=
  ⟨by decide, by decide, by decide, by decide, by decide, fun _ _ => ⟨rfl, rfl, rfl, rfl⟩⟩

theorem bridge_merge_flags :
    SwV.Gen.C23.merge_fsync = "a.Fsync = b.Fsync || a.Fsync" ∧
    SwV.Gen.C23.merge_growth_cond = "b.VolumeGrowthCount > 0" ∧
    SwV.Gen.C23.merge_growth = "a.VolumeGrowthCount = b.VolumeGrowthCount" ∧
    SwV.Gen.C23.merge_readonly_cond = "b.ReadOnly" ∧ SwV.Gen.C23.merge_readonly = "a.ReadOnly = b.ReadOnly" ∧
    ∀ a b : Conf,
      (mergePathConf a b).fsync = (b.fsync || a.fsync) ∧
      (mergePathConf a b).growth = (if b.growth > 0 then b.growth else a.growth) ∧
      (mergePathConf a b).readOnly = (if b.readOnly then b.readOnly else a.readOnly) :=
  ⟨by decide, by decide, by decide, by decide, by decide, fun _ _ => ⟨rfl, rfl, rfl⟩⟩

/-- `MatchStorageRule` starts from the empty conf and merges every reported rule INTO it (`matchStep`,
    `matchUpTo`); `AddLocationConf` keys the trie by `LocationPrefix`; `DeleteLocationConf` rebuilds the
    trie from every rule whose key differs (`delRule`). -/
theorem bridge_match_add_delete :
    SwV.Gen.C23.match_start = "pathConf = &filer_pb.FilerConf_PathConf{}" ∧
    SwV.Gen.C23.match_key = "[]byte(path)" ∧
    SwV.Gen.C23.match_merge_into = "pathConf" ∧ SwV.Gen.C23.match_merge_from = "t" ∧
    SwV.Gen.C23.add_key = "[]byte(locConf.LocationPrefix)" ∧ SwV.Gen.C23.add_value = "locConf" ∧
    SwV.Gen.C23.del_skip = "string(key) == locationPrefix" ∧
    SwV.Gen.C23.del_keep_key = "append([]byte{}, key...)" ∧ SwV.Gen.C23.del_keep_value = "value" ∧
    SwV.Gen.C23.del_install = "fc.rules = rules" ∧
    (∀ (rs : Rules) (path : Key) (acc c : Conf) (i : Nat), rs.lookup (path.take (i + 1)) = some c →
      matchStep rs path acc i = mergePathConf acc c) ∧
    (∀ (rs : Rules) (path : Key), matchUpTo rs path 0 = {}) ∧
    (∀ (rs : Rules) (k : Key), delRule rs k = rs.filter fun r => !decide (r.1 = k)) := by
  refine ⟨by decide, by decide, by decide, by decide, by decide, by decide, by decide, by decide, by decide, by decide,
    ?_, fun _ _ => rfl, ?_⟩
  · intro rs path acc c i h; simp [matchStep, h]
  · intro rs k; simp [delRule]

/-- weakest supplement: hashes of the whole mirrored functions (`MatchStorageRule`'s callback returning
    `true`, i.e. never stopping the descent, is only visible here) -/
theorem bridge_pins :
    SwV.Gen.C23.src_mergePathConf = "a3cfd1da571c2b43" ∧ SwV.Gen.C23.src_Nvl = "4f1b613a066b7610" ∧
    SwV.Gen.C23.src_MatchStorageRule = "8e872fce421dd56d" ∧
    SwV.Gen.C23.src_AddLocationConf = "f43f379e52890807" ∧
    SwV.Gen.C23.src_DeleteLocationConf = "582b58d75707e648" := by decide

end SwV.Props.C23
