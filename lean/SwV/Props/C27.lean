/-
C27 — S3 object listings are complete and paginate correctly.

FULL STATEMENT (property text), for the model `walk` of `listFilerEntries`/`doListFilerEntries`:

    ∀ bucket contents ks, prefix, delimiter ∈ {"", "/"}, max-keys ≥ 1, continuation style:
      the pages have ≤ max-keys items, only items under the prefix, never `.uploads` internals, the
      walk ends within #keys+2 requests and has then enumerated every matching key exactly once,
      and the bucket is unchanged.                                            (pages_partition_matches)

It is FALSE of the code; each conjunct that fails is refuted below on a concrete bucket by `decide`
(the same buckets are replayed against the real handlers, corpus/C27/witnesses.ops):

  * `.uploads` (or any skipped entry) inside the `maxKeys+1` request window ⇒ `IsTruncated=false`
    with keys left                                   `not_complete_with_uploads_dir`
  * prefix with a directory part: markers are read relative to that directory, so continuing from the
    last key repeats keys forever                    `last_key_marker_under_dir_prefix_loops`
  * prefix "/" lists the whole bucket                `leading_slash_prefix_lists_everything`
  * prefix ".uploads/" lists upload internals        `prefix_into_uploads_lists_internals`
  * marker "dir/…" lists below dir without prefix and delimiter   `marker_subdir_ignores_prefix`
  * marker with two "/" : sub-count dropped ⇒ page larger than max-keys and a key lost
                                                     `nested_marker_overfills_and_loses`
  * marker "/" with delimiter "/" DELETES every top-level directory of the bucket
                                                     `listing_deletes_directories`

What IS proved for all inputs (`pages_partition_matches_partial`): for delimiter "/" and a prefix
without directory part, on every bucket whose top directory holds no `.uploads` directory under the
prefix, following NextMarker / NextContinuationToken from the start yields pages of ≤ max-keys
items whose Contents and CommonPrefixes, concatenated, are exactly the files and directories of
the top directory under the prefix, in order, each once; the last page is untruncated; nothing is deleted.
The hypotheses `Flat` name exactly the excluded inputs (= the classes of the findings above).
The recursive case (delimiter "") is covered by the correspondence check only.
-/
import SwV.Model.C27
import SwV.Spec.C27
import SwV.Lemmas.C27
namespace SwV.Props.C27
open SwV.Model.C19 (Bytes ltB isPrefix)
open SwV.Model.C27 SwV.Spec.C27 SwV.Lemmas.C27 SwV.Lemmas.C19

/-- what a complete, exact pagination looks like -/
structure Exact (maxKeys : Nat) (want : List Ent) (pages : List Page) : Prop where
  keys : pages.flatMap (·.keys) = emitK want
  pfxs : pages.flatMap (·.pfxs) = emitP want
  small : ∀ p ∈ pages, p.keys.length + p.pfxs.length ≤ maxKeys
  ends : pages.getLast?.map (·.trunc) = some false

theorem walk_flat (ks : List (List Bytes)) (pfx : Bytes) (h : Flat ks pfx) (maxKeys : Nat) (hmk : 0 < maxKeys) :
    ∀ (fuel : Nat) (m : Bytes), MarkerOk pfx m → (G ks pfx m).length < fuel →
      ∃ pages, walk pfx maxKeys true true fuel ks m = (pages, ks) ∧ Exact maxKeys (G ks pfx m) pages := by
  intro fuel
  induction fuel with
  | zero => intro m _ hl; omega
  | succ f ih =>
    intro m hm hlen
    unfold walk
    simp only [page_flat ks pfx h maxKeys hmk m hm, pageOf, removeDirs_nil]
    by_cases hbig : (G ks pfx m).length > maxKeys
    · -- truncated page, continue from the last entry's name
      have hne : (G ks pfx m).take maxKeys ≠ [] := by
        intro h0
        have := congrArg List.length h0
        rw [List.length_take, List.length_nil] at this; omega
      obtain ⟨l, hl⟩ := getLast?_of_ne_nil _ hne
      have hmem := mem_G (List.mem_of_mem_take (List.mem_of_getLast? hl))
      have hm' : MarkerOk pfx l.key := Or.inr ⟨hmem.2.1, h.noslash l hmem.1⟩
      have hnext := G_next ks pfx m h maxKeys l hl
      have hlt : (G ks pfx l.key).length < f := by rw [hnext, List.length_drop]; omega
      obtain ⟨ps, hw, hex⟩ := ih l.key hm' hlt
      simp only [hbig, decide_true, Bool.not_true, Bool.false_eq_true, if_false, if_true, hl, Option.map_some, Option.getD_some, hw]
      refine ⟨_, rfl, ?_, ?_, ?_, ?_⟩
      · simp only [List.flatMap_cons, hex.keys, hnext, ← emitK_append, List.take_append_drop]
      · simp only [List.flatMap_cons, hex.pfxs, hnext, ← emitP_append, List.take_append_drop]
      · intro p hp
        cases List.mem_cons.1 hp with
        | inl h0 => subst h0; simp only [emit_length, List.length_take]; omega
        | inr h1 => exact hex.small p h1
      · have hps : ps ≠ [] := by
          intro h0; have := hex.ends; rw [h0] at this; simp at this
        rw [List.getLast?_cons_of_ne_nil hps]
        exact hex.ends
    · have htake : (G ks pfx m).take maxKeys = G ks pfx m := List.take_of_length_le (by omega)
      simp only [hbig, decide_false, Bool.not_false, if_true, htake]
      refine ⟨_, rfl, ?_, ?_, ?_, ?_⟩ <;> simp [emit_length] <;> omega

/-- MAIN THEOREM (partial): delimiter "/", prefix without directory part, no skipped entry in range. -/
theorem pages_partition_matches_partial (ks : List (List Bytes)) (pfx : Bytes) (h : Flat ks pfx)
    (maxKeys : Nat) (hmk : 0 < maxKeys) (fuel : Nat) (hfuel : (F ks pfx).length < fuel) :
    ∃ pages, walk pfx maxKeys true true fuel ks [] = (pages, ks) ∧ Exact maxKeys (F ks pfx) pages := by
  have hG : G ks pfx [] = F ks pfx := by
    unfold G
    rw [List.filter_eq_self]
    intro e he
    have := (List.mem_filter.1 he).1
    exact (ltB_nil e.key).2 (h.nonempty e this)
  have := walk_flat ks pfx h maxKeys hmk fuel [] (Or.inl rfl) (by rw [hG]; exact hfuel)
  rw [hG] at this
  exact this

/-- "exactly once": the enumerated names are pairwise distinct (strictly increasing) -/
theorem enumerated_once (ks : List (List Bytes)) (pfx : Bytes) (h : Flat ks pfx) :
    ((F ks pfx).map (·.key)).Pairwise (fun a b => ltB a b = true) := by
  rw [List.pairwise_map]
  exact List.Pairwise.sublist List.filter_sublist h.sorted

/-- every page item is under the prefix -/
theorem items_under_prefix (ks : List (List Bytes)) (pfx : Bytes) :
    (∀ k ∈ emitK (F ks pfx), isPrefix pfx k = true) ∧ (∀ q ∈ emitP (F ks pfx), isPrefix pfx q = true) := by
  constructor
  · intro k hk
    unfold emitK at hk
    obtain ⟨e, he, rfl⟩ := List.mem_map.1 hk
    have := (List.mem_filter.1 (List.mem_filter.1 he).1).2
    simpa using this
  · intro q hq
    unfold emitP at hq
    obtain ⟨e, he, rfl⟩ := List.mem_map.1 hq
    have hp : isPrefix pfx e.key = true := by simpa using (List.mem_filter.1 (List.mem_filter.1 he).1).2
    obtain ⟨r, hr⟩ := (isPrefix_iff _ _).1 hp
    exact (isPrefix_iff _ _).2 ⟨r ++ [slash], by rw [hr]; simp⟩

/-! ### the hypotheses are satisfiable; the model runs the DESIGN name set -/

def s (x : String) : Bytes := x.toList.map Char.toNat
def bucket (keys : List String) : List (List Bytes) := keys.map fun k => splitSlash (s k)

def ksClean : List (List Bytes) := bucket ["a.b", "a/b", "a/c", "ab/c", "b"]

example : Flat ksClean (s "a") :=
  { split := by decide, sorted := by unfold SwV.Lemmas.C19.SortedDb; decide, good := by unfold Good; decide,
    noslash := by decide, nonempty := by decide }

example : (walk (s "a") 1 true true 7 ksClean []).1.map (fun p => (p.keys, p.pfxs)) =
    [([], [s "a/"]), ([s "a.b"], []), ([], [s "ab/"])] := by decide

/-! ### refutations of the full statement (the known findings) -/

def ksUploads : List (List Bytes) := bucket [".uploads/x", "a", "b"]

/-- `.uploads` in the request window: one page, not truncated, key `b` never listed -/
theorem not_complete_with_uploads_dir :
    (walk [] 1 false true 5 ksUploads []).1 = [⟨false, [], [s "a"], []⟩] := by decide

def ksDir : List (List Bytes) := bucket ["a/b", "a/c"]

/-- prefix "a/", max-keys 1, continuing from the last key: the same page for ever -/
theorem last_key_marker_under_dir_prefix_loops :
    (walk (s "a/") 1 false false 4 ksDir []).1 = List.replicate 4 ⟨true, s "b", [s "a/b"], []⟩ := by decide

theorem leading_slash_prefix_lists_everything :
    (walk (s "/") 1000 false true 3 ksClean []).1.flatMap (·.keys) = [s "a/b", s "a/c", s "a.b", s "ab/c", s "b"] := by decide

theorem prefix_into_uploads_lists_internals :
    (walk (s ".uploads/") 1000 false true 3 ksUploads []).1.flatMap (·.keys) = [s ".uploads/x"] := by decide

theorem marker_subdir_ignores_prefix :
    (walk (s "b") 1 false true 1 ksClean (s "a/")).1.flatMap (·.keys) = [s "a/b"] := by decide

def ksDeep : List (List Bytes) := bucket ["d/e/f", "d/e/g", "d/e/h", "d/f", "z"]

/-- marker "d/e/f", max-keys 2: three keys on the page, `d/f` skipped, next marker `z` -/
theorem nested_marker_overfills_and_loses :
    (walk [] 2 false true 1 ksDeep (s "d/e/f")).1 = [⟨true, s "z", [s "d/e/g", s "d/e/h", s "z"], []⟩] := by decide

/-- GET ?delimiter=/&marker=/ : the listing deletes the non-empty directories `a` and `ab` -/
theorem listing_deletes_directories :
    (walk [] 1000 true true 1 ksClean (s "/")).2 = bucket ["a.b", "b"] := by decide

end SwV.Props.C27
