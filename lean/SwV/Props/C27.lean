/-
C27 — S3 object listings are complete and paginate correctly.

FULL STATEMENT (property text), for the model `walk` of `listFilerEntries`/`doListFilerEntries`:

    ∀ bucket contents ks, prefix, delimiter ∈ {"", "/"}, max-keys ≥ 1, continuation style:
      the pages have ≤ max-keys items, only items under the prefix, never `.uploads` internals, the
      walk ends within #keys+2 requests and has then enumerated every matching key exactly once,
      and the bucket is unchanged.                                            (pages_partition_matches)

It is FALSE of the code; each conjunct that fails is refuted below on a concrete bucket by `decide`
(the same buckets are replayed against the real handlers, corpus/C27/witnesses.ops):

  * `.uploads` (or any skipped entry) inside the `maxKeys+1` request window ⇒ `IsTruncated=false`
    with keys left                                   `not_complete_with_uploads_dir`
  * prefix with a directory part: markers are read relative to that directory, so continuing from the
    last key repeats keys forever                    `last_key_marker_under_dir_prefix_loops`
  * prefix "/" lists the whole bucket                `leading_slash_prefix_lists_everything`
  * prefix ".uploads/" lists upload internals        `prefix_into_uploads_lists_internals`
  * marker "dir/…" lists below dir without prefix and delimiter   `marker_subdir_ignores_prefix`
  * marker with two "/" : sub-count dropped ⇒ page larger than max-keys and a key lost
                                                     `nested_marker_overfills_and_loses`
  * marker "/" with delimiter "/" DELETES every top-level directory of the bucket
                                                     `listing_deletes_directories`

What IS proved for all inputs (`pages_partition_matches_partial`): for delimiter "/" and a prefix
without directory part, on every bucket whose top directory holds no `.uploads` directory under the
prefix, following NextMarker / NextContinuationToken from the start yields pages of ≤ max-keys
items whose Contents and CommonPrefixes, concatenated, are exactly the files and directories of
the top directory under the prefix, in order, each once; the last page is untruncated; nothing is deleted.
The hypotheses `Flat` name exactly the excluded inputs (= the classes of the findings above).

The recursive case (delimiter "", prefix "") is proved for directory trees of depth ≤ 2
(`pages_partition_matches_recursive_partial`, section at the end of this file): hypothesis `Tree2` = no `.uploads`
directory in the top directory (class skipped-entry-counted-in-limit-window) and no key with three or more
segments (class nested-marker-drops-sub-count: only markers with two "/" lose the sub-count).  Deeper trees and
prefixes with a directory part stay covered by the correspondence check only.
-/
import SwV.Model.C27
import SwV.Spec.C27
import SwV.Lemmas.C27
import SwV.Lemmas.C27b
import SwV.Lemmas.C27c
import SwV.Lemmas.C27d
import SwV.Gen.C27
namespace SwV.Props.C27
open SwV.Model.C19 (Bytes ltB isPrefix)
open SwV.Model.C27 SwV.Spec.C27 SwV.Lemmas.C27 SwV.Lemmas.C19

/-- what a complete, exact pagination looks like -/
structure Exact (maxKeys : Nat) (want : List Ent) (pages : List Page) : Prop where
  keys : pages.flatMap (·.keys) = emitK want
  pfxs : pages.flatMap (·.pfxs) = emitP want
  small : ∀ p ∈ pages, p.keys.length + p.pfxs.length ≤ maxKeys
  ends : pages.getLast?.map (·.trunc) = some false

theorem walk_flat (ks : List (List Bytes)) (pfx : Bytes) (h : Flat ks pfx) (maxKeys : Nat) (hmk : 0 < maxKeys) :
    ∀ (fuel : Nat) (m : Bytes), MarkerOk pfx m → (G ks pfx m).length < fuel →
      ∃ pages, walk pfx maxKeys true true fuel ks m = (pages, ks) ∧ Exact maxKeys (G ks pfx m) pages := by
  intro fuel
  induction fuel with
  | zero => intro m _ hl; omega
  | succ f ih =>
    intro m hm hlen
    unfold walk
    simp only [page_flat ks pfx h maxKeys hmk m hm, pageOf, removeDirs_nil]
    by_cases hbig : (G ks pfx m).length > maxKeys
    · -- truncated page, continue from the last entry's name
      have hne : (G ks pfx m).take maxKeys ≠ [] := by
        intro h0
        have := congrArg List.length h0
        rw [List.length_take, List.length_nil] at this; omega
      obtain ⟨l, hl⟩ := getLast?_of_ne_nil _ hne
      have hmem := mem_G (List.mem_of_mem_take (List.mem_of_getLast? hl))
      have hm' : MarkerOk pfx l.key := Or.inr ⟨hmem.2.1, h.noslash l hmem.1⟩
      have hnext := G_next ks pfx m h maxKeys l hl
      have hlt : (G ks pfx l.key).length < f := by rw [hnext, List.length_drop]; omega
      obtain ⟨ps, hw, hex⟩ := ih l.key hm' hlt
      simp only [hbig, decide_true, Bool.not_true, Bool.false_eq_true, if_false, if_true, hl, Option.map_some, Option.getD_some, hw]
      refine ⟨_, rfl, ?_, ?_, ?_, ?_⟩
      · simp only [List.flatMap_cons, hex.keys, hnext, ← emitK_append, List.take_append_drop]
      · simp only [List.flatMap_cons, hex.pfxs, hnext, ← emitP_append, List.take_append_drop]
      · intro p hp
        cases List.mem_cons.1 hp with
        | inl h0 => subst h0; simp only [emit_length, List.length_take]; omega
        | inr h1 => exact hex.small p h1
      · have hps : ps ≠ [] := by
          intro h0; have := hex.ends; rw [h0] at this; simp at this
        rw [List.getLast?_cons_of_ne_nil hps]
        exact hex.ends
    · have htake : (G ks pfx m).take maxKeys = G ks pfx m := List.take_of_length_le (by omega)
      simp only [hbig, decide_false, Bool.not_false, if_true, htake]
      refine ⟨_, rfl, ?_, ?_, ?_, ?_⟩ <;> simp [emit_length] <;> omega

/-- MAIN THEOREM (partial): delimiter "/", prefix without directory part, no skipped entry in range. -/
theorem pages_partition_matches_partial (ks : List (List Bytes)) (pfx : Bytes) (h : Flat ks pfx)
    (maxKeys : Nat) (hmk : 0 < maxKeys) (fuel : Nat) (hfuel : (F ks pfx).length < fuel) :
    ∃ pages, walk pfx maxKeys true true fuel ks [] = (pages, ks) ∧ Exact maxKeys (F ks pfx) pages := by
  have hG : G ks pfx [] = F ks pfx := by
    unfold G
    rw [List.filter_eq_self]
    intro e he
    have := (List.mem_filter.1 he).1
    exact (ltB_nil e.key).2 (h.nonempty e this)
  have := walk_flat ks pfx h maxKeys hmk fuel [] (Or.inl rfl) (by rw [hG]; exact hfuel)
  rw [hG] at this
  exact this

/-- "exactly once": the enumerated names are pairwise distinct (strictly increasing) -/
theorem enumerated_once (ks : List (List Bytes)) (pfx : Bytes) (h : Flat ks pfx) :
    ((F ks pfx).map (·.key)).Pairwise (fun a b => ltB a b = true) := by
  rw [List.pairwise_map]
  exact List.Pairwise.sublist List.filter_sublist h.sorted

/-- every page item is under the prefix -/
theorem items_under_prefix (ks : List (List Bytes)) (pfx : Bytes) :
    (∀ k ∈ emitK (F ks pfx), isPrefix pfx k = true) ∧ (∀ q ∈ emitP (F ks pfx), isPrefix pfx q = true) := by
  constructor
  · intro k hk
    unfold emitK at hk
    obtain ⟨e, he, rfl⟩ := List.mem_map.1 hk
    have := (List.mem_filter.1 (List.mem_filter.1 he).1).2
    simpa using this
  · intro q hq
    unfold emitP at hq
    obtain ⟨e, he, rfl⟩ := List.mem_map.1 hq
    have hp : isPrefix pfx e.key = true := by simpa using (List.mem_filter.1 (List.mem_filter.1 he).1).2
    obtain ⟨r, hr⟩ := (isPrefix_iff _ _).1 hp
    exact (isPrefix_iff _ _).2 ⟨r ++ [slash], by rw [hr]; simp⟩

/-! ### the hypotheses are satisfiable; the model runs the DESIGN name set -/

def s (x : String) : Bytes := x.toList.map Char.toNat
def bucket (keys : List String) : List (List Bytes) := keys.map fun k => splitSlash (s k)

def ksClean : List (List Bytes) := bucket ["a.b", "a/b", "a/c", "ab/c", "b"]

example : Flat ksClean (s "a") :=
  { split := by decide, sorted := by unfold SwV.Lemmas.C19.SortedDb; decide, good := by unfold Good; decide,
    noslash := by decide, nonempty := by decide }

example : (walk (s "a") 1 true true 7 ksClean []).1.map (fun p => (p.keys, p.pfxs)) =
    [([], [s "a/"]), ([s "a.b"], []), ([], [s "ab/"])] := by decide

/-! ### refutations of the full statement (the known findings) -/

def ksUploads : List (List Bytes) := bucket [".uploads/x", "a", "b"]

/-- `.uploads` in the request window: one page, not truncated, key `b` never listed -/
theorem not_complete_with_uploads_dir :
    (walk [] 1 false true 5 ksUploads []).1 = [⟨false, [], [s "a"], []⟩] := by decide

def ksDir : List (List Bytes) := bucket ["a/b", "a/c"]

/-- prefix "a/", max-keys 1, continuing from the last key: the same page for ever -/
theorem last_key_marker_under_dir_prefix_loops :
    (walk (s "a/") 1 false false 4 ksDir []).1 = List.replicate 4 ⟨true, s "b", [s "a/b"], []⟩ := by decide

theorem leading_slash_prefix_lists_everything :
    (walk (s "/") 1000 false true 3 ksClean []).1.flatMap (·.keys) = [s "a/b", s "a/c", s "a.b", s "ab/c", s "b"] := by decide

theorem prefix_into_uploads_lists_internals :
    (walk (s ".uploads/") 1000 false true 3 ksUploads []).1.flatMap (·.keys) = [s ".uploads/x"] := by decide

theorem marker_subdir_ignores_prefix :
    (walk (s "b") 1 false true 1 ksClean (s "a/")).1.flatMap (·.keys) = [s "a/b"] := by decide

def ksDeep : List (List Bytes) := bucket ["d/e/f", "d/e/g", "d/e/h", "d/f", "z"]

/-- marker "d/e/f", max-keys 2: three keys on the page, `d/f` skipped, next marker `z` -/
theorem nested_marker_overfills_and_loses :
    (walk [] 2 false true 1 ksDeep (s "d/e/f")).1 = [⟨true, s "z", [s "d/e/g", s "d/e/h", s "z"], []⟩] := by decide

/-- GET ?delimiter=/&marker=/ : the listing deletes the non-empty directories `a` and `ab` -/
theorem listing_deletes_directories :
    (walk [] 1000 true true 1 ksClean (s "/")).2 = bucket ["a.b", "b"] := by decide

/-! ## T1 bridges: facts regenerated from the source by `extract` (props/C27/extract.json → `SwV.Gen.C27`)

Each theorem states the text of the decisive Go conditions / call arguments as they stand in the working tree
together with the model equation that mirrors them; an edit to the Go code changes the generated string and
breaks the theorem of that name. -/

/-- the V1 / V2 handlers: admitted delimiters and the marker handed to `listFilerEntries`
    (V2: the continuation token, or `start-after` when there is no token) -/
theorem bridge_handlers :
    SwV.Gen.C27.v2_bad_maxkeys = "maxKeys < 0" ∧
    SwV.Gen.C27.v2_bad_delimiter = "delimiter != \"\" && delimiter != \"/\"" ∧
    SwV.Gen.C27.v2_marker_token = "marker := continuationToken" ∧
    SwV.Gen.C27.v2_no_token = "continuationToken == \"\"" ∧
    SwV.Gen.C27.v2_marker_start_after = "marker = startAfter" ∧
    SwV.Gen.C27.v2_list_marker = "marker" ∧
    SwV.Gen.C27.v1_bad_maxkeys = "maxKeys < 0" ∧
    SwV.Gen.C27.v1_bad_delimiter = "delimiter != \"\" && delimiter != \"/\"" ∧
    SwV.Gen.C27.v1_list_marker = "marker" := by decide

/-- `listFilerEntries`: split of the prefix, the directory string, the call, key / prefix formatting and the
    clearing of NextMarker on the last page -/
theorem bridge_list_filer :
    SwV.Gen.C27.lf_split = "reqDir, prefix := filepath.Split(originalPrefix)" ∧
    SwV.Gen.C27.lf_lead_slash = "strings.HasPrefix(reqDir, \"/\")" ∧ SwV.Gen.C27.lf_drop_lead = "reqDir = reqDir[1:]" ∧
    SwV.Gen.C27.lf_bucket_prefix_fmt = "\"%s/%s/\"" ∧ SwV.Gen.C27.lf_reqdir_fmt = "\"%s%s\"" ∧
    SwV.Gen.C27.lf_trail_slash = "strings.HasSuffix(reqDir, \"/\")" ∧
    SwV.Gen.C27.lf_drop_trail = "reqDir = reqDir[:len(reqDir)-1]" ∧
    SwV.Gen.C27.lf_call_dir = "reqDir" ∧ SwV.Gen.C27.lf_call_prefix = "prefix" ∧
    SwV.Gen.C27.lf_call_maxkeys = "maxKeys" ∧ SwV.Gen.C27.lf_call_marker = "marker" ∧
    SwV.Gen.C27.lf_call_delimiter = "delimiter" ∧
    SwV.Gen.C27.lf_is_dir = "entry.IsDirectory" ∧ SwV.Gen.C27.lf_dir_as_prefix = "delimiter == \"/\"" ∧
    SwV.Gen.C27.lf_prefix_fmt = "\"%s/%s/\"" ∧ SwV.Gen.C27.lf_key_fmt = "\"%s/%s\"" ∧
    SwV.Gen.C27.lf_not_truncated = "!isTruncated" ∧ SwV.Gen.C27.lf_clear_next = "nextMarker = \"\"" ∧
    (∀ r name : Bytes, keyOf r name = (r ++ [slash] ++ name).drop 1) ∧
    (∀ (ks : List (List Bytes)) (op : Bytes) (mk : Nat) (marker : Bytes) (d : Bool),
      (listFiler ks op mk marker d).trunc = false → (listFiler ks op mk marker d).next = []) := by
  refine ⟨by decide, by decide, by decide, by decide, by decide, by decide, by decide, by decide, by decide,
    by decide, by decide, by decide, by decide, by decide, by decide, by decide, by decide, by decide,
    fun _ _ => rfl, ?_⟩
  intro ks op mk marker d
  have key : ∀ res : Res, (if res.trunc then res else { res with next := [] }).trunc = false →
      (if res.trunc then res else { res with next := [] }).next = [] := by
    intro res; cases h : res.trunc <;> simp [h]
  exact key _

/-- `doListFilerEntries`, entry guards and the marker split -/
theorem bridge_do_list_guards :
    SwV.Gen.C27.dl_slash_prefix = "prefix == \"/\" && delimiter == \"/\"" ∧
    SwV.Gen.C27.dl_no_budget = "maxKeys <= 0" ∧
    SwV.Gen.C27.dl_marker_has_slash = "strings.Contains(marker, \"/\")" ∧
    SwV.Gen.C27.dl_sep = "sepIndex := strings.Index(marker, \"/\")" ∧
    SwV.Gen.C27.dl_marker_split = "subDir, subMarker := marker[0:sepIndex], marker[sepIndex+1:]" ∧
    SwV.Gen.C27.dl_sub1_dir = "dir + \"/\" + subDir" ∧ SwV.Gen.C27.dl_sub1_prefix = "\"\"" ∧
    SwV.Gen.C27.dl_sub1_maxkeys = "maxKeys" ∧ SwV.Gen.C27.dl_sub1_marker = "subMarker" ∧
    SwV.Gen.C27.dl_sub1_trunc = "isTruncated = isTruncated || subIsTruncated" ∧
    SwV.Gen.C27.dl_sub1_budget = "maxKeys -= subCounter" ∧
    SwV.Gen.C27.dl_sub1_next = "nextMarker = subDir + \"/\" + subNextMarker" ∧
    SwV.Gen.C27.dl_sub1_marker_after = "marker = subDir" ∧
    SwV.Gen.C27.dl_limit = "maxKeys + 1" ∧
    (∀ (ks : List (List Bytes)) (fuel : Nat) (r : Bytes) (mk : Nat) (marker : Bytes),
      doList ks true (fuel + 1) r [slash] mk marker = {}) ∧
    (∀ (ks : List (List Bytes)) (d : Bool) (fuel : Nat) (r pfx marker : Bytes),
      doList ks d (fuel + 1) r pfx 0 marker = {}) ∧
    -- a marker without "/" : one store listing of maxKeys+1 entries after the marker
    (∀ (ks : List (List Bytes)) (d : Bool) (fuel : Nat) (r pfx : Bytes) (mk : Nat) (marker : Bytes),
      ¬ (pfx = [slash] ∧ d = true) → mk ≠ 0 → cutFirstSlash marker = none →
      doList ks d (fuel + 1) r pfx mk marker =
        recvLoop ks (fun r' budget => doList ks d fuel r' [] budget []) d r mk
          (listPrim (dirEntries ks r) pfx marker (mk + 1)) {}) ∧
    -- a marker "sub/rest": first the sub-directory with the rest as marker and the WHOLE budget, then this
    -- level after `sub` with the budget that is left
    (∀ (ks : List (List Bytes)) (d : Bool) (fuel : Nat) (r pfx : Bytes) (mk : Nat) (marker subDir subMarker : Bytes),
      ¬ (pfx = [slash] ∧ d = true) → mk ≠ 0 → cutFirstSlash marker = some (subDir, subMarker) →
      doList ks d (fuel + 1) r pfx mk marker =
        (let s := doList ks d fuel (r ++ [slash] ++ subDir) [] mk subMarker
         let ks2 := removeDirs ks s.deleted
         recvLoop ks2 (fun r' budget => doList ks d fuel r' [] budget []) d r (mk - s.counter)
           (listPrim (dirEntries ks2 r) pfx subDir (mk - s.counter + 1))
           { counter := 0, trunc := s.trunc, next := subDir ++ [slash] ++ s.next, keys := s.keys, pfxs := s.pfxs,
             deleted := s.deleted })) := by
  refine ⟨by decide, by decide, by decide, by decide, by decide, by decide, by decide, by decide, by decide,
    by decide, by decide, by decide, by decide, by decide, ?_, ?_, ?_, ?_⟩
  · intro ks fuel r mk marker; simp [doList]
  · intro ks d fuel r pfx marker; simp [doList]
  · intro ks d fuel r pfx mk marker h1 h2 h3
    simp only [doList, h1, h2, h3, if_false]
  · intro ks d fuel r pfx mk marker subDir subMarker h1 h2 h3
    simp only [doList, h1, h2, h3, if_false]

/-- the bytes the model skips are the name in the source condition -/
theorem bridge_uploads_name :
    SwV.Gen.C27.dl_skip_uploads = "entry.Name != \".uploads\"" ∧
    String.ofList (uploadsName.map Char.ofNat) = ".uploads" := by decide

/-- the receive loop of `doListFilerEntries` (`recvLoop`) -/
theorem bridge_do_list_loop :
    SwV.Gen.C27.dl_budget_used = "counter >= maxKeys" ∧ SwV.Gen.C27.dl_set_truncated = "isTruncated = true" ∧
    SwV.Gen.C27.dl_next_is_name = "nextMarker = entry.Name" ∧ SwV.Gen.C27.dl_is_dir = "entry.IsDirectory" ∧
    SwV.Gen.C27.dl_recursive = "delimiter != \"/\"" ∧
    SwV.Gen.C27.dl_sub2_dir = "dir + \"/\" + entry.Name" ∧ SwV.Gen.C27.dl_sub2_prefix = "\"\"" ∧
    SwV.Gen.C27.dl_sub2_maxkeys = "maxKeys - counter" ∧ SwV.Gen.C27.dl_sub2_marker = "\"\"" ∧
    SwV.Gen.C27.dl_sub2_count = "counter += subCounter" ∧
    SwV.Gen.C27.dl_sub2_next = "nextMarker = entry.Name + \"/\" + subNextMarker" ∧
    SwV.Gen.C27.dl_sub2_trunc = "subIsTruncated" ∧
    SwV.Gen.C27.dl_check_empty = "!s3a.option.AllowEmptyFolder" ∧
    SwV.Gen.C27.dl_empty_dir = "dir" ∧ SwV.Gen.C27.dl_empty_name = "entry.Name" ∧
    SwV.Gen.C27.dl_not_empty = "!isEmpty" ∧
    SwV.Gen.C27.empty_dir_string = "currentDir := parentDir + \"/\" + name" ∧
    -- budget used up and one more entry arrives: truncated, nothing else changes
    (∀ ks sub d r mk (e : Ent) rest (st : Res), st.counter ≥ mk →
      recvLoop ks sub d r mk (e :: rest) st = { st with trunc := true }) ∧
    -- a file: emitted, counted, remembered as next marker
    (∀ ks sub d r mk (e : Ent) rest (st : Res), st.counter < mk → e.expired = false →
      recvLoop ks sub d r mk (e :: rest) st =
        recvLoop ks sub d r mk rest { st with next := e.key, counter := st.counter + 1, keys := st.keys ++ [keyOf r e.key] }) ∧
    -- the `.uploads` directory: skipped, not counted, but it becomes the next marker
    (∀ ks sub d r mk (e : Ent) rest (st : Res), st.counter < mk → e.expired = true → e.key = uploadsName →
      recvLoop ks sub d r mk (e :: rest) st = recvLoop ks sub d r mk rest { st with next := e.key }) := by
  refine ⟨by decide, by decide, by decide, by decide, by decide, by decide, by decide, by decide, by decide,
    by decide, by decide, by decide, by decide, by decide, by decide, by decide, by decide, ?_, ?_, ?_⟩
  · intro ks sub d r mk e rest st h
    simp [recvLoop, h]
  · intro ks sub d r mk e rest st h he
    have : ¬ st.counter ≥ mk := by omega
    simp [recvLoop, this, he]
  · intro ks sub d r mk e rest st h he hk
    have : ¬ st.counter ≥ mk := by omega
    simp [recvLoop, this, he, hk]

/-- the filer's gRPC `ListEntries` behind every `client.ListEntries` of the gateway: pages of
    `filer.PaginationSize`, each continuing (exclusively) after the last name of the one before, until the
    request limit is used up or a page comes back empty.  The model's `listPrim` is the page-size independent
    reading of that loop: the first `limit` matching entries after the start name — asking for more only
    appends. -/
theorem bridge_filer_list_entries :
    SwV.Gen.C27.PaginationSize = 1024 ∧
    SwV.Gen.C27.le_limit = "limit := int(req.Limit)" ∧ SwV.Gen.C27.le_default_limit = "limit == 0" ∧
    SwV.Gen.C27.le_page = "paginationLimit := filer.PaginationSize" ∧
    SwV.Gen.C27.le_small_page = "limit < paginationLimit" ∧
    SwV.Gen.C27.le_start = "lastFileName := req.StartFromFileName" ∧
    SwV.Gen.C27.le_inclusive = "includeLastFile := req.InclusiveStartFrom" ∧
    SwV.Gen.C27.le_loop = "limit > 0" ∧
    SwV.Gen.C27.le_page_dir = "util.FullPath(req.Directory)" ∧ SwV.Gen.C27.le_page_start = "lastFileName" ∧
    SwV.Gen.C27.le_page_inclusive = "includeLastFile" ∧ SwV.Gen.C27.le_page_limit = "int64(paginationLimit)" ∧
    SwV.Gen.C27.le_page_prefix = "req.Prefix" ∧
    SwV.Gen.C27.le_budget_used = "limit == 0" ∧ SwV.Gen.C27.le_no_more = "!hasEntries" ∧
    SwV.Gen.C27.le_next_exclusive = "includeLastFile = false" ∧
    SwV.Gen.C27.src_ListEntries = "a529ac5cf6e00a23" ∧
    (∀ (es : List Ent) (pfx start : Bytes) (limit : Nat), (listPrim es pfx start limit).length ≤ limit) ∧
    (∀ (es : List Ent) (pfx start : Bytes) (limit k : Nat),
      (listPrim es pfx start (limit + k)).take limit = listPrim es pfx start limit) := by
  refine ⟨by decide, by decide, by decide, by decide, by decide, by decide, by decide, by decide, by decide,
    by decide, by decide, by decide, by decide, by decide, by decide, by decide, by decide, ?_, ?_⟩
  · intro es pfx start limit
    simp only [listPrim, List.length_take]; omega
  · intro es pfx start limit k
    simp only [listPrim, List.take_take]
    congr 1; omega

/-- weakest supplement: hashes of the whole mirrored functions -/
theorem bridge_pins :
    SwV.Gen.C27.src_doListFilerEntries = "4147ac9cc9bf10fd" ∧ SwV.Gen.C27.src_listFilerEntries = "5dbe6000e5cbfaa1" ∧
    SwV.Gen.C27.src_ListObjectsV2Handler = "2efe800a81b9f715" ∧ SwV.Gen.C27.src_ListObjectsV1Handler = "4e193cccafe68007" ∧
    SwV.Gen.C27.src_isDirectoryAllEmpty = "fda41e94bab77240" := by decide

/-! ## the recursive listing (delimiter "", prefix "") on trees of depth ≤ 2

`doList` descends into every directory of the listed directory with the budget that is left, skips `.uploads`,
counts what the sub-listing emitted and builds the next marker `dir/name`; a continuation from `dir/name` first
lists the rest of `dir` and then the top directory after `dir` with the budget reduced by the sub-count.
Lemmas/C27b.lean gives the closed form of the receive loop with descents (`recv_pairs`), of a sub-listing
(`sub_listing`), of a page from a marker without "/" (`page_top`) and from a marker `dir/name` (`page_dir`), and
follows the markers with a cursor (`Cursor`, `cursor_drop`).

FULL STATEMENT for arbitrary trees is FALSE: `nested_marker_overfills_and_loses` (three segments: the marker branch
drops the sub-count, page too large, key lost) and `not_complete_with_uploads_dir` above.  The hypothesis `Tree2 ks`
(decidable) excludes exactly these two classes; its remaining clauses are structural facts of the model's directory
view (`children` sorted, names non-empty and free of "/", directories non-empty). -/

/-- MAIN THEOREM (partial), delimiter "" and prefix "": on every bucket whose tree has depth ≤ 2 and whose top directory
    holds no `.uploads` directory, for every max-keys ≥ 1, following NextMarker / NextContinuationToken from the start
    yields pages of ≤ max-keys keys whose concatenation is the depth-first key stream of the tree (`allKeys`: every
    top-level file, and below every directory its files, in name order) — each key once, in order —, no CommonPrefixes,
    the last page untruncated, nothing deleted. -/
theorem pages_partition_matches_recursive_partial (ks : List (List Bytes)) (h : Tree2 ks)
    (maxKeys : Nat) (hmk : 0 < maxKeys) (fuel : Nat) (hfuel : (allKeys ks).length < fuel) :
    ∃ pages, walk [] maxKeys false true fuel ks [] = (pages, ks) ∧ RecExact maxKeys (allKeys ks) pages :=
  walk_rec ks h maxKeys hmk fuel [] (allKeys ks) Cursor.start hfuel

/-- the same from any continuation point: a marker that is the name of a top-level file or `dir/name` of a listed
    key resumes exactly after that key -/
theorem resume_after_marker_recursive_partial (ks : List (List Bytes)) (h : Tree2 ks) (maxKeys : Nat) (hmk : 0 < maxKeys)
    (m : Bytes) (Z : List Bytes) (hc : Cursor ks m Z) (fuel : Nat) (hfuel : Z.length < fuel) :
    ∃ pages, walk [] maxKeys false true fuel ks m = (pages, ks) ∧ RecExact maxKeys Z pages :=
  walk_rec ks h maxKeys hmk fuel m Z hc hfuel

/-- one page from a marker `dir/name` (closed form): the rest of `dir` after `name`, then the top directory after `dir` -/
theorem page_from_dir_marker_partial (ks : List (List Bytes)) (h : Tree2 ks) (maxKeys : Nat) (hmk : 0 < maxKeys) (d : Ent)
    (hd : d ∈ children ks []) (hexp : d.expired = true) (x : Bytes) (hx : cutFirstSlash x = none) :
    pageOf (listFiler ks [] maxKeys (d.key ++ [slash] ++ x) false) =
      pageOfStream maxKeys ((((children ks [d.key]).filter fun c => ltB x c.key).map fun c => d.key ++ [slash] ++ c.key) ++
        streamOf ks ((children ks []).filter fun e => ltB d.key e.key)) :=
  (page_dir ks h maxKeys hmk d hd hexp x hx).1

/-- … and that stream covers the bucket: in a bucket that never holds a key and a key below it (the filer cannot
    represent that), every one- or two-segment key is returned on some page of the walk -/
theorem every_key_listed_recursive_partial (ks : List (List Bytes)) (h : Tree2 ks)
    (hvalid0 : ∀ k ∈ ks, ∀ k' ∈ ks, k.length = 1 → k.head? = k'.head? → k'.length = 1)
    (maxKeys : Nat) (hmk : 0 < maxKeys) (fuel : Nat) (hfuel : (allKeys ks).length < fuel) :
    ∀ k ∈ ks, (∃ s, k = [s]) ∨ (∃ d n, k = [d, n]) →
      joinSlash k ∈ (walk [] maxKeys false true fuel ks []).1.flatMap (·.keys) := by
  have hvalid : ∀ s : Bytes, [s] ∈ ks → ∀ rest, (s :: rest) ∈ ks → rest = [] := by
    intro s hs rest hr
    have := hvalid0 [s] hs (s :: rest) hr rfl rfl
    simpa using this
  obtain ⟨pages, hw, hex⟩ := pages_partition_matches_recursive_partial ks h maxKeys hmk fuel hfuel
  intro k hk hshape
  rw [hw]
  simp only [hex.keys]
  rcases hshape with ⟨s, rfl⟩ | ⟨d, n, rfl⟩
  · exact (allKeys_complete ks hvalid).1 s hk
  · exact (allKeys_complete ks hvalid).2 d n hk

example : ∀ k ∈ ksClean, ∀ k' ∈ ksClean, k.length = 1 → k.head? = k'.head? → k'.length = 1 := by decide

/-- the hypotheses are satisfiable: the DESIGN name set (a directory `a` next to `a.b` and `ab`) -/
example : Tree2 ksClean := by decide

example : allKeys ksClean = [s "a/b", s "a/c", s "a.b", s "ab/c", s "b"] := by decide

/-- the model run on that bucket: max-keys 2, three pages, markers `a/c` (inside a directory) and `ab/c` -/
example : (walk [] 2 false true 7 ksClean []).1 =
    [⟨true, s "a/c", [s "a/b", s "a/c"], []⟩, ⟨true, s "ab/c", [s "a.b", s "ab/c"], []⟩, ⟨false, [], [s "b"], []⟩] := by
  decide

/-- `Tree2` excludes the two refuting buckets (and only by the clauses named after the findings) -/
example : ¬ Tree2 ksUploads ∧ ¬ Tree2 ksDeep := by decide

/-! ## a client that starts after a key (marker / start-after, also re-sent beside every continuation token)

`resumeJudge` (Spec) is the order-free part of "continuing from the returned token enumerates every key exactly once"
for a pagination that does not start at the beginning: no item is served twice and the last, untruncated page arrives
within `#keys + 2` requests. The V2 handler hands the continuation token to `listFilerEntries` whenever there is one
(`bridge_handlers`: `marker := continuationToken`, replaced by `start-after` only if `continuationToken == ""`), so a
start-after that is sent again with the token changes nothing and the client's walk is the model's `walk` from the
start-after key. The depth-first stream lists no key twice (`allKeys_nodup`), every continuation point stands for a
suffix of it (`cursor_suffix`); hence: -/

/-- the depth-first key stream of a depth-≤2 tree holds no key twice -/
theorem stream_has_no_key_twice_partial (ks : List (List Bytes)) (h : Tree2 ks) : (allKeys ks).Nodup :=
  allKeys_nodup ks h

/-- THE MODEL PASSES THE START-AFTER JUDGE (partial: depth ≤ 2, no `.uploads` directory, prefix "", delimiter ""):
    from every start-after key that is a listed key — the name of a top-level file or `dir/name` — following the
    returned tokens serves no key twice and ends with an untruncated page, for every max-keys ≥ 1 -/
theorem resume_judge_passes_recursive_partial (ks : List (List Bytes)) (h : Tree2 ks) (maxKeys : Nat) (hmk : 0 < maxKeys)
    (m : Bytes) (Z : List Bytes) (hc : Cursor ks m Z) (fuel : Nat) (hfuel : Z.length < fuel) :
    resumeJudge ks [] false true maxKeys (walk [] maxKeys false true fuel ks m).1 = none := by
  obtain ⟨pages, hw, hex⟩ := resume_after_marker_recursive_partial ks h maxKeys hmk m Z hc fuel hfuel
  rw [hw]
  have hfin : finishedWalk pages = true := by
    have := hex.ends
    unfold finishedWalk
    cases hl : pages.getLast? with
    | none => rw [hl] at this; simp at this
    | some p => rw [hl] at this; simp at this; simp [this]
  have hnr : noRepeat (pages.flatMap (·.keys) ++ pages.flatMap (·.pfxs)) = true := by
    rw [hex.keys, hex.pfxs, List.append_nil]
    exact noRepeat_of_nodup Z (cursor_nodup ks h m Z hc)
  have h0 : ¬ (maxKeys = 0 ∨ ((!true) = true ∧ false = true)) := by
    intro hh
    rcases hh with hh | hh
    · omega
    · simp at hh
  unfold resumeJudge
  rw [if_neg h0]
  simp only [hfin, hnr, Bool.not_true, Bool.and_false, Bool.false_eq_true, Bool.not_false, and_self, if_true]

/-- … and the walk needs no more requests than keys are left, plus one (fuel `#left + 1` suffices, which is at most
    `#allKeys + 1`) -/
theorem resume_within_bound_recursive_partial (ks : List (List Bytes)) (h : Tree2 ks) (maxKeys : Nat) (hmk : 0 < maxKeys)
    (m : Bytes) (Z : List Bytes) (hc : Cursor ks m Z) :
    Z.length ≤ (allKeys ks).length ∧
    ∃ pages, walk [] maxKeys false true ((allKeys ks).length + 1) ks m = (pages, ks) ∧ RecExact maxKeys Z pages :=
  ⟨cursor_length_le ks m Z hc,
   resume_after_marker_recursive_partial ks h maxKeys hmk m Z hc _ (by have := cursor_length_le ks m Z hc; omega)⟩

/-- non-vacuity: `a/b` is a continuation point of the DESIGN bucket, with `a/c a.b ab/c b` still to come -/
example : Cursor ksClean (s "a/b") [s "a/c", s "a.b", s "ab/c", s "b"] :=
  Cursor.dir (ks := ksClean) [] ⟨s "a", true⟩ [⟨s "a.b", false⟩, ⟨s "ab", true⟩, ⟨s "b", false⟩] [] ⟨s "b", false⟩ [⟨s "c", false⟩]
    (by decide) rfl (by decide)

/-- the bucket of the directed generator family (a directory `a/` next to `a-b` and `a.txt`, which sort below `a/`):
    start-after `a/1`, max-keys 1 — the tokens `a-b` and `a.txt` are string-smaller than the start-after, the model
    continues from the token all the same, five pages, every key after `a/1` once, judge silent -/
def ksResent : List (List Bytes) := bucket ["a/1", "a/2", "a/3", "a-b", "a.txt", "b"]

example : Tree2 ksResent := by decide

theorem resent_start_after_walk_witness :
    (walk [] 1 false true 8 ksResent (s "a/1")).1.map (fun p => (p.trunc, p.next, p.keys)) =
      [(true, s "a/2", [s "a/2"]), (true, s "a/3", [s "a/3"]), (true, s "a-b", [s "a-b"]), (true, s "a.txt", [s "a.txt"]),
       (false, [], [s "b"])] ∧
    ltB (s "a-b") (s "a/1") = true ∧ ltB (s "a.txt") (s "a/1") = true ∧
    resumeJudge ksResent [] false true 1 (walk [] 1 false true 8 ksResent (s "a/1")).1 = none := by decide

/-- the judge is not vacuous: a server that resumes from max(token, start-after) serves page 1 again after the page that
    ended on `a-b` — eight truncated pages on a six-key bucket — and is judged `pagination/does-not-terminate`;
    a finished walk that served a key twice is judged `pagination/key-repeated` -/
theorem resume_judge_rejects_witness :
    resumeJudge ksResent [] false true 1
      ((List.replicate 2 [⟨true, s "a/2", [s "a/2"], []⟩, ⟨true, s "a/3", [s "a/3"], []⟩, ⟨true, s "a-b", [s "a-b"], []⟩]).flatten
        ++ [⟨true, s "a/2", [s "a/2"], []⟩, ⟨true, s "a/3", [s "a/3"], []⟩]) = some "pagination/does-not-terminate" ∧
    resumeJudge ksResent [] false true 2
      [⟨true, s "a/3", [s "a/2", s "a/3"], []⟩, ⟨false, [], [s "a/3", s "b"], []⟩] = some "pagination/key-repeated" := by decide

end SwV.Props.C27
