/-
C32 — theorems.

Full statement (FALSE of the code, kept visible): for every Range header in the grammar and every representation R,
the answer is the expected one (`Spec.expected`): 206 with exactly the bytes of the single satisfiable range,
multipart with one exact part per satisfiable range, 416 when none is satisfiable, 200 with everything otherwise.
It fails for headers containing an unsatisfiable element (findings unsatisfiable-range-served-as-empty-206 and
416-although-a-range-is-satisfiable) — witnesses below — and, outside the grammar, for signed suffix lengths
(negative-length-206).  What is proved, for ALL inputs:
  * `parseOne_exact`: the numeric core — a grammatical, satisfiable element is parsed to exactly the (start, length)
    it denotes (int64 wrap-around included);
  * `parsePieces_exact` / `parseRange_exact` (the `_partial` form of range_response_exact: hypothesis = every element
    satisfiable, i.e. exactly the inputs of the open findings excluded): a grammatical header whose elements are all
    satisfiable is parsed to exactly the list of denoted ranges, in order;
  * `range_response_conforms_partial` (the FINAL step): for every grammatical header, size < 2^62 and content, the model's
    answer — through `processRange`'s choice ignored-range/single/multipart/416 and `respond`'s bytes — satisfies the spec
    judge `conforms (expected …)`, under the decidable hypothesis `outsideOpenFindings` = every element satisfiable, or
    no element satisfiable and one of them beyond the size (⇒ 416); excluded are exactly the inputs of the open findings
    (an element with first-byte-pos = size or suffix 0 / empty content without a rejected one: empty 206; a rejected
    element next to a satisfiable one: 416 for the whole header; `bytes=--5` is outside the grammar);
    `range_judge_passes_partial`: under the same hypothesis the complete judge `rangeJudge` passes on the model's answer;
  * `answer_bytes_exact`: whatever the header, a 206 part with a positive length carries exactly the bytes its
    Content-Range names when that range lies inside the content, and a 200 carries everything.
-/
import SwV.Model.C32
import SwV.Spec.C32
import SwV.Gen.C32
import SwV.Lemmas.C32
namespace SwV.Props.C32
open SwV.Model.C32 SwV.Spec.C32

theorem wrap64_id (x : Int) (h0 : -(2 ^ 63) ≤ x) (h1 : x < 2 ^ 63) : wrap64 x = x :=
  SwV.Lemmas.C32.wrap64_id x h0 h1

theorem isDigit_not_sign (c : Char) (h : isDigit c = true) : c ≠ '+' ∧ c ≠ '-' :=
  SwV.Lemmas.C32.isDigit_not_sign c h

/-- plain digits are read as themselves by the ParseInt model -/
theorem parseInt64_number (s : List Char) (v : Nat) (h : number s = some v) : parseInt64 s = some (v : Int) ∧ v < 2 ^ 63 :=
  SwV.Lemmas.C32.parseInt64_number s v h

/-- MAIN numeric core: a grammatical element that is satisfiable for a representation of N bytes is parsed to exactly
    the start and length it denotes -/
theorem parseOne_exact (ra : List Char) (N : Nat) (sp : RSpec) (r : Nat × Nat) (hN : N < 2 ^ 62)
    (hd : denoteOne ra = some sp) (hs : satisfy N sp = some r) :
    parseOne ra (N : Int) = some ⟨(r.1 : Int), (r.2 : Int)⟩ := by
  unfold denoteOne at hd
  unfold parseOne
  cases hcut : cut '-' ra with
  | none => simp [hcut] at hd
  | some se =>
    obtain ⟨s0, e0⟩ := se
    simp only [hcut] at hd ⊢
    by_cases hs0 : trimSpace s0 = []
    · -- suffix form
      simp only [hs0, if_true] at hd ⊢
      cases hn : number (trimSpace e0) with
      | none => simp [hn] at hd
      | some n =>
        simp only [hn, Option.some.injEq] at hd
        subst hd
        obtain ⟨hp, hlt⟩ := parseInt64_number _ _ hn
        simp only [hp]
        simp only [satisfy] at hs
        by_cases hz : n = 0 ∨ N = 0
        · simp [hz] at hs
        · simp only [hz, if_false, Option.some.injEq] at hs
          subst hs
          have hn0 : n ≠ 0 := fun e => hz (Or.inl e)
          have hN0 : N ≠ 0 := fun e => hz (Or.inr e)
          by_cases hgt : (n : Int) > (N : Int)
          · have hmin : min n N = N := by omega
            simp only [hgt, if_true, hmin]
            have e1 : wrap64 ((N : Int) - (N : Int)) = 0 := by rw [wrap64_id] <;> omega
            rw [e1]
            have e2 : wrap64 ((N : Int) - 0) = (N : Int) := by rw [wrap64_id] <;> omega
            rw [e2]
            simp
          · have hmin : min n N = n := by omega
            simp only [hgt, if_false, hmin]
            have e1 : wrap64 ((N : Int) - (n : Int)) = ((N - n : Nat) : Int) := by rw [wrap64_id] <;> omega
            rw [e1]
            have e2 : wrap64 ((N : Int) - ((N - n : Nat) : Int)) = (n : Int) := by rw [wrap64_id] <;> omega
            rw [e2]
    · -- first-byte-pos form
      simp only [hs0, if_false] at hd ⊢
      cases hn : number (trimSpace s0) with
      | none => simp [hn] at hd
      | some a =>
        simp only [hn] at hd
        obtain ⟨hp, hlt⟩ := parseInt64_number _ _ hn
        simp only [hp]
        by_cases he0 : trimSpace e0 = []
        · simp only [he0, if_true, Option.some.injEq] at hd ⊢
          subst hd
          simp only [satisfy] at hs
          by_cases haN : a < N
          · simp only [haN, if_true, Option.some.injEq] at hs
            subst hs
            have : ¬ ((a : Int) > (N : Int) ∨ (a : Int) < 0) := by omega
            simp only [this, if_false]
            congr 2
            omega
          · simp [haN] at hs
        · simp only [he0, if_false] at hd ⊢
          cases hm : number (trimSpace e0) with
          | none => simp [hm] at hd
          | some b =>
            simp only [hm] at hd
            obtain ⟨hq, hlt2⟩ := parseInt64_number _ _ hm
            simp only [hq]
            by_cases hab : a ≤ b
            · simp only [hab, if_true, Option.some.injEq] at hd
              subst hd
              simp only [satisfy] at hs
              by_cases haN : a < N
              · simp only [haN, if_true, Option.some.injEq] at hs
                subst hs
                have h1 : ¬ ((a : Int) > (N : Int) ∨ (a : Int) < 0) := by omega
                have h2 : ¬ ((a : Int) > (b : Int)) := by omega
                simp only [h1, h2, if_false]
                by_cases hbN : (b : Int) ≥ (N : Int)
                · simp only [hbN, if_true]
                  have : min b (N - 1) = N - 1 := by omega
                  rw [this]
                  congr 2
                  omega
                · simp only [hbN, if_false]
                  have : min b (N - 1) = b := by omega
                  rw [this]
                  congr 2
                  omega
              · simp [haN] at hs
            · simp [hab] at hd

example : denoteOne "2-5".toList = some (.fromTo 2 5) ∧ satisfy 4 (.fromTo 2 5) = some (2, 2) := by decide

/-- the list level: every element grammatical and satisfiable ⇒ parsed to exactly the denoted ranges, in order -/
theorem parsePieces_exact (N : Nat) (hN : N < 2 ^ 62) :
    ∀ (ps : List (List Char)) (specs : List RSpec), denotePieces ps = some specs →
      (∀ sp ∈ specs, (satisfy N sp).isSome) →
      parsePieces ps (N : Int) = some ((specs.filterMap (satisfy N)).map toRg) := by
  intro ps
  induction ps with
  | nil => intro specs h _; simp [denotePieces] at h; subst h; rfl
  | cons p rest ih =>
    intro specs h hsat
    simp only [denotePieces] at h
    simp only [parsePieces]
    by_cases hb : trimSpace p = []
    · simp only [hb, if_true] at h ⊢
      exact ih specs h hsat
    · simp only [hb, if_false] at h ⊢
      cases hd : denoteOne (trimSpace p) with
      | none => simp [hd] at h
      | some sp =>
        simp only [hd] at h
        cases hr : denotePieces rest with
        | none => simp [hr] at h
        | some sps =>
          simp only [hr, Option.some.injEq] at h
          subst h
          have hsp := hsat sp (by simp)
          cases hs : satisfy N sp with
          | none => simp [hs] at hsp
          | some r =>
            have := parseOne_exact (trimSpace p) N sp r hN hd hs
            simp only [this]
            have ih' := ih sps hr (fun x hx => hsat x (by simp [hx]))
            simp only [ih', List.filterMap_cons, hs, List.map_cons, toRg]

/-- header level (`range_response_exact`, partial: all elements satisfiable): the ranges the answer is built from are
    exactly the denoted ones; with `answer_bytes_exact` below every part then carries exactly the requested bytes.
    (The last step through `processRange` — single vs multipart vs oversized sum — is covered by the correspondence
    check and the judge `conforms`, not by a theorem.) -/
theorem range_response_exact_partial (h : List Char) (N : Nat) (hN : N < 2 ^ 62) (specs : List RSpec)
    (hd : denote h = some specs) (hsat : ∀ sp ∈ specs, (satisfy N sp).isSome) :
    parseRange h (N : Int) = some ((specs.filterMap (satisfy N)).map toRg) := by
  unfold denote at hd
  unfold parseRange
  by_cases he : h = []
  · simp only [he, if_true, Option.some.injEq] at hd ⊢
    subst hd; rfl
  · simp only [he, if_false] at hd ⊢
    cases hp : stripBytesPrefix h with
    | none => simp [hp] at hd
    | some rest =>
      simp only [hp] at hd ⊢
      exact parsePieces_exact N hN _ specs hd hsat

/-- the inputs outside the open findings: every element satisfiable, or nothing satisfiable and an element that
    `parseRange` rejects (first-byte-pos beyond the size) -/
def outsideOpenFindings (specs : List RSpec) (N : Nat) : Bool :=
  specs.all (fun sp => (satisfy N sp).isSome) ||
    (specs.any (SwV.Lemmas.C32.beyond N) && specs.all (fun sp => (satisfy N sp).isNone))

/-- FINAL STEP (`range_response_exact` down to the spec's judgement, partial: hypothesis = outside the open findings):
    for every grammatical header, every content below 2^62 bytes, the answer of the model — `processRange`'s choice between
    ignoring the header (no element / oversized sum ⇒ everything), a single 206, multipart, 416, and `respond`'s bytes —
    conforms to what the specification expects.
    FALSE without the hypothesis: `start_eq_size_witness`, `one_unsatisfiable_witness`, `not_conforming_witnesses`. -/
theorem range_response_conforms_partial (h : List Char) (R : List Nat) (specs : List RSpec) (hN : R.length < 2 ^ 62)
    (hd : denote h = some specs) (hx : outsideOpenFindings specs R.length = true) :
    conforms (expected specs R.length) R (respond h R) = true := by
  simp only [outsideOpenFindings, Bool.or_eq_true, Bool.and_eq_true, List.all_eq_true] at hx
  rcases hx with hsat | ⟨hb, hnone⟩
  · exact SwV.Lemmas.C32.respond_conforms_of_parse h R specs hN (SwV.Lemmas.C32.denote_nil_iff h specs hd) hsat
      (range_response_exact_partial h R.length hN specs hd hsat)
  · exact SwV.Lemmas.C32.respond_conforms_unsat h R specs hd hb
      (fun sp hsp => by simpa using hnone sp hsp)

/-- … and therefore the COMPLETE judge the driver runs over the implementation's answers (`rangeJudge`: a 200 carries
    everything, no empty/negative range, bytes = what Content-Range names, answer = expectation) passes on the model's
    answer: with zero DIFF in the correspondence check, judge verdicts on such inputs are verdicts on real differences -/
theorem range_judge_passes_partial (h : List Char) (R : List Nat) (specs : List RSpec) (hN : R.length < 2 ^ 62)
    (hd : denote h = some specs) (hx : outsideOpenFindings specs R.length = true) :
    rangeJudge h R (respond h R) = none :=
  SwV.Lemmas.C32.rangeJudge_none_of_conforms h R specs _ hd (range_response_conforms_partial h R specs hN hd hx)

example : rangeJudge "bytes=0-0, -1".toList [7, 8, 9] (respond "bytes=0-0, -1".toList [7, 8, 9]) = none := by decide

-- non-vacuity: a single range, a multipart answer, an oversized sum, a 416, the absent header
example : denote "bytes=1-2".toList = some [.fromTo 1 2] ∧ outsideOpenFindings [.fromTo 1 2] 3 = true ∧
    respond "bytes=1-2".toList [7, 8, 9] = .single ⟨1, 2⟩ [8, 9] := by decide
example : denote "bytes=0-0, -1".toList = some [.fromTo 0 0, .suffix 1] ∧ outsideOpenFindings [.fromTo 0 0, .suffix 1] 3 = true ∧
    respond "bytes=0-0, -1".toList [7, 8, 9] = .multi [(⟨0, 1⟩, [7]), (⟨2, 1⟩, [9])] := by decide
example : outsideOpenFindings [.from 0, .from 1] 3 = true ∧ respond "bytes=0-,1-".toList [7, 8, 9] = .full [7, 8, 9] := by decide
example : denote "bytes=5-6,4-".toList = some [.fromTo 5 6, .from 4] ∧ outsideOpenFindings [.fromTo 5 6, .from 4] 3 = true ∧
    respond "bytes=5-6,4-".toList [7, 8, 9] = .unsat := by decide
example : denote [] = some [] ∧ outsideOpenFindings [] 3 = true := by decide

/-- the hypothesis is needed: on the inputs of the open findings the model's (= the code's) answer does not conform -/
theorem not_conforming_witnesses :
    (outsideOpenFindings [.from 3] 3 = false ∧
      conforms (expected [.from 3] 3) [1, 2, 3] (respond "bytes=3-".toList [1, 2, 3]) = false) ∧
    (outsideOpenFindings [.suffix 0] 3 = false ∧
      conforms (expected [.suffix 0] 3) [1, 2, 3] (respond "bytes=-0".toList [1, 2, 3]) = false) ∧
    (outsideOpenFindings [.fromTo 0 1, .fromTo 5 6] 3 = false ∧
      conforms (expected [.fromTo 0 1, .fromTo 5 6] 3) [1, 2, 3] (respond "bytes=0-1,5-6".toList [1, 2, 3]) = false) ∧
    denote "bytes=--5".toList = none := by decide

/-- whatever the header: the bytes of an answer are exactly what its status line and Content-Range announce -/
theorem answer_bytes_exact (h : List Char) (R : List Nat) :
    (∀ b, respond h R = .full b → b = R) ∧
    (∀ g b, respond h R = .single g b → 0 ≤ g.start → 0 < g.length →
        b = (R.drop g.start.toNat).take g.length.toNat) ∧
    (∀ ps, respond h R = .multi ps → ∀ p ∈ ps, 0 ≤ p.1.start → 0 < p.1.length →
        p.2 = (R.drop p.1.start.toNat).take p.1.length.toNat) := by
  unfold respond
  refine ⟨?_, ?_, ?_⟩
  · intro b hb
    split at hb <;> simp_all
  · intro g b hb h0 h1
    have hh : ¬ (g.length ≤ 0 ∨ g.start < 0) := by omega
    split at hb <;> try (simp at hb)
    obtain ⟨e1, e2⟩ := hb
    subst e1
    subst e2
    simp [slice, hh]
  · intro ps hb p hp h0 h1
    split at hb <;> try (simp at hb)
    subst hb
    simp only [List.mem_map] at hp
    obtain ⟨r, _, rfl⟩ := hp
    dsimp only at h0 h1 ⊢
    have : ¬ (r.length ≤ 0 ∨ r.start < 0) := by omega
    simp [slice, this]

/-! ## witnesses: the full statement is false (the three open findings), the repaired defect stays repaired -/

/-- first-byte-pos = size: an empty 206 instead of 416 -/
theorem start_eq_size_witness :
    respond "bytes=3-".toList [1, 2, 3] = .single ⟨3, 0⟩ [] ∧
    expected [.from 3] 3 = .unsat := by decide

/-- a signed suffix length: start beyond the end, negative length -/
theorem negative_suffix_witness : respond "bytes=--5".toList [1, 2, 3] = .single ⟨8, -5⟩ [] := by decide

/-- one unsatisfiable element fails the whole header -/
theorem one_unsatisfiable_witness :
    respond "bytes=0-1,5-6".toList [1, 2, 3] = .unsat ∧
    expected [.fromTo 0 1, .fromTo 5 6] 3 = .single (0, 2) := by decide

/-- repaired (fix: 843c0161): an ignored range request (oversized sum, empty list) serves the whole content -/
theorem ignored_range_serves_everything :
    respond "bytes=0-,0-".toList [1, 2, 3] = .full [1, 2, 3] ∧ respond "bytes=".toList [1, 2, 3] = .full [1, 2, 3] := by decide

/-- gzip is announced only if the header mentions it … -/
theorem gzip_only_if_mentioned (b : Blob) (ae : List Char) (h : (represent b ae).2 = true) :
    containsSub gzipWord ae = true ∧ b.compressed = true ∧ (represent b ae).1 = b.stored := by
  unfold represent at h ⊢
  by_cases hc : b.compressed = true
  · by_cases hg : (containsSub gzipWord ae && isGzMagic b.stored) = true
    · simp only [hc, hg, if_true]
      simp only [Bool.and_eq_true] at hg
      exact ⟨hg.1, trivial, trivial⟩
    · simp [hc, hg] at h
  · simp [hc] at h

/-- … and a client that sends no Accept-Encoding gets the decompressed bytes -/
theorem no_accept_encoding_gets_plain (b : Blob) : represent b [] = (if b.compressed then b.plain else b.stored, false) := by
  unfold represent
  cases b.compressed <;> simp [containsSub, gzipWord]

/-- … but substring matching is not acceptance (open finding gzip-for-client-not-accepting-it) -/
theorem gzip_q0_witness :
    (represent ⟨true, [1], [31, 139, 8]⟩ "gzip;q=0".toList).2 = true ∧ clientAcceptsGzip "gzip;q=0".toList = false := by decide

/-- bridges: an edit of the range code breaks this obligation (the model has to be re-read against the new text) -/
theorem bridge_source_pins :
    SwV.Gen.C32.src_parseRange = "ecf779ad501a5491" ∧ SwV.Gen.C32.src_sumRangesSize = "e3fc3a256a1357bb" ∧
    SwV.Gen.C32.src_processRangeRequest = "f6f3c151ec6730bf" ∧ SwV.Gen.C32.src_writeResponseContent = "803357dac01be84b" := by
  decide

end SwV.Props.C32
