/-
C32 — theorems.

Full statement, now PROVED of the (repaired) code for every Range header in the grammar, every representation R below
2^62 bytes: the answer is the expected one (`Spec.expected`): 206 with exactly the bytes of the single satisfiable range,
multipart with one exact part per satisfiable range, 416 when none is satisfiable, 200 with everything otherwise
(`range_response_conforms`, `range_judge_passes`).  It was false before the `fix:` commits of parseRange (an element that
selects no byte served as an empty 206; one unsatisfiable element ⇒ 416 for the whole header; a signed suffix length
⇒ negative length); the former witnesses are kept as `_repaired` theorems.  Steps:
  * `parseOne_denote` / `parseOne_exact`: the numeric core — a grammatical element is parsed to exactly the
    (start, length) it denotes when satisfiable (int64 wrap-around included), and skipped when not;
  * `parsePieces_denote`, `range_response_exact`: a grammatical header is parsed to exactly the list of denoted
    satisfiable ranges, in order (error when elements exist and none is satisfiable);
  * `range_response_conforms` (the FINAL step): through `processRange`'s choice ignored-range/single/multipart/416 and
    `respond`'s bytes the model's answer satisfies the spec judge `conforms (expected …)` — no hypothesis besides the
    grammar and the size bound;
  * `range_judge_passes`: the complete judge `rangeJudge` passes on the model's answer; `range_judge_passes_all`: also
    for headers OUTSIDE the grammar (every answer is self-consistent: `answer_self_consistent`);
  * `answer_bytes_exact`: whatever the header, a 206 part with a positive length carries exactly the bytes its
    Content-Range names when that range lies inside the content, and a 200 carries everything;
  * `gzip_only_if_accepted`: Content-Encoding: gzip only for a client whose Accept-Encoding accepts gzip (spec predicate
    `clientAcceptsGzip`) — the substring test is repaired.
-/
import SwV.Model.C32
import SwV.Spec.C32
import SwV.Gen.C32
import SwV.Lemmas.C32
namespace SwV.Props.C32
open SwV.Model.C32 SwV.Spec.C32

theorem wrap64_id (x : Int) (h0 : -(2 ^ 63) ≤ x) (h1 : x < 2 ^ 63) : wrap64 x = x :=
  SwV.Lemmas.C32.wrap64_id x h0 h1

theorem isDigit_not_sign (c : Char) (h : isDigit c = true) : c ≠ '+' ∧ c ≠ '-' :=
  SwV.Lemmas.C32.isDigit_not_sign c h

/-- plain digits are read as themselves by the ParseInt model -/
theorem parseInt64_number (s : List Char) (v : Nat) (h : number s = some v) : parseInt64 s = some (v : Int) ∧ v < 2 ^ 63 :=
  SwV.Lemmas.C32.parseInt64_number s v h

/-- MAIN numeric core: a grammatical element is parsed to exactly the start and length it denotes when it is satisfiable
    for a representation of N bytes, and skipped (not an error) when it is not -/
theorem parseOne_denote (ra : List Char) (N : Nat) (sp : RSpec) (hN : N < 2 ^ 62) (hd : denoteOne ra = some sp) :
    parseOne ra (N : Int) = SwV.Lemmas.C32.elemOf (satisfy N sp) :=
  SwV.Lemmas.C32.parseOne_denote ra N sp hN hd

theorem parseOne_exact (ra : List Char) (N : Nat) (sp : RSpec) (r : Nat × Nat) (hN : N < 2 ^ 62)
    (hd : denoteOne ra = some sp) (hs : satisfy N sp = some r) :
    parseOne ra (N : Int) = .range ⟨(r.1 : Int), (r.2 : Int)⟩ := by
  rw [parseOne_denote ra N sp hN hd, hs]; rfl

theorem parseOne_skips (ra : List Char) (N : Nat) (sp : RSpec) (hN : N < 2 ^ 62)
    (hd : denoteOne ra = some sp) (hs : satisfy N sp = none) : parseOne ra (N : Int) = .noOverlap := by
  rw [parseOne_denote ra N sp hN hd, hs]; rfl

example : denoteOne "2-5".toList = some (.fromTo 2 5) ∧ satisfy 4 (.fromTo 2 5) = some (2, 2) ∧
    parseOne "2-5".toList 4 = .range ⟨2, 2⟩ := by decide
example : denoteOne "4-5".toList = some (.fromTo 4 5) ∧ satisfy 4 (.fromTo 4 5) = none ∧
    parseOne "4-5".toList 4 = .noOverlap := by decide

/-- the list level: the satisfiable elements, in order; the flag records a skipped element -/
theorem parsePieces_denote (N : Nat) (hN : N < 2 ^ 62) (ps : List (List Char)) (specs : List RSpec)
    (hd : denotePieces ps = some specs) :
    parsePieces ps (N : Int) = some ((specs.filterMap (satisfy N)).map toRg, SwV.Lemmas.C32.anyUnsat N specs) :=
  SwV.Lemmas.C32.parsePieces_denote N hN ps specs hd

/-- header level (`range_response_exact`): the ranges the answer is built from are exactly the denoted satisfiable ones,
    in order — when there is one (or the header has no element at all); with `answer_bytes_exact` below every part then
    carries exactly the requested bytes -/
theorem range_response_exact (h : List Char) (N : Nat) (hN : N < 2 ^ 62) (specs : List RSpec)
    (hd : denote h = some specs) (hne : specs.filterMap (satisfy N) = [] → specs = []) :
    parseRange h (N : Int) = some ((specs.filterMap (satisfy N)).map toRg) :=
  SwV.Lemmas.C32.parseRange_some h N hN specs hd hne

/-- … and an error (416) when there are elements and none is satisfiable -/
theorem range_unsatisfiable_exact (h : List Char) (N : Nat) (hN : N < 2 ^ 62) (specs : List RSpec)
    (hd : denote h = some specs) (hs0 : specs ≠ []) (hnone : specs.filterMap (satisfy N) = []) :
    parseRange h (N : Int) = none :=
  SwV.Lemmas.C32.parseRange_none_of_unsat h N hN specs hd hs0 hnone

/-- the former partial form (every element satisfiable) is a special case -/
theorem range_response_exact_partial (h : List Char) (N : Nat) (hN : N < 2 ^ 62) (specs : List RSpec)
    (hd : denote h = some specs) (hsat : ∀ sp ∈ specs, (satisfy N sp).isSome) :
    parseRange h (N : Int) = some ((specs.filterMap (satisfy N)).map toRg) :=
  range_response_exact h N hN specs hd (SwV.Lemmas.C32.filterMap_eq_nil_of_all_some N specs hsat)

/-- FINAL STEP (`range_response_exact` down to the spec's judgement), FULL for grammatical headers: for every grammatical
    header, every content below 2^62 bytes, the answer of the model — `processRange`'s choice between ignoring the header
    (no element / oversized sum ⇒ everything), a single 206, multipart, 416, and `respond`'s bytes — conforms to what the
    specification expects.  (Before the parseRange `fix:` commits this needed the hypothesis `outsideOpenFindings`.) -/
theorem range_response_conforms (h : List Char) (R : List Nat) (specs : List RSpec) (hN : R.length < 2 ^ 62)
    (hd : denote h = some specs) :
    conforms (expected specs R.length) R (respond h R) = true := by
  by_cases hne : specs.filterMap (satisfy R.length) = [] → specs = []
  · exact SwV.Lemmas.C32.respond_conforms_of_parse h R specs hN (SwV.Lemmas.C32.denote_nil_iff h specs hd) hne
      (range_response_exact h R.length hN specs hd hne)
  · have hnone : specs.filterMap (satisfy R.length) = [] := Classical.byContradiction fun c => hne (fun e => absurd e c)
    have hs0 : specs ≠ [] := fun e => hne (fun _ => e)
    exact SwV.Lemmas.C32.respond_conforms_unsat h R specs hN hd hs0 hnone

/-- … and therefore the COMPLETE judge the driver runs over the implementation's answers (`rangeJudge`: a 200 carries
    everything, no empty/negative range, bytes = what Content-Range names, answer = expectation) passes on the model's
    answer: with zero DIFF in the correspondence check, judge verdicts are verdicts on real differences -/
theorem range_judge_passes (h : List Char) (R : List Nat) (specs : List RSpec) (hN : R.length < 2 ^ 62)
    (hd : denote h = some specs) :
    rangeJudge h R (respond h R) = none :=
  SwV.Lemmas.C32.rangeJudge_none_of_conforms h R specs _ hd (range_response_conforms h R specs hN hd)

example : rangeJudge "bytes=0-0, -1".toList [7, 8, 9] (respond "bytes=0-0, -1".toList [7, 8, 9]) = none := by decide

-- non-vacuity: a single range, a multipart answer, an oversized sum, a 416, the absent header, and the inputs of the
-- former findings (skipped elements)
example : denote "bytes=1-2".toList = some [.fromTo 1 2] ∧
    respond "bytes=1-2".toList [7, 8, 9] = .single ⟨1, 2⟩ [8, 9] := by decide
example : denote "bytes=0-0, -1".toList = some [.fromTo 0 0, .suffix 1] ∧
    respond "bytes=0-0, -1".toList [7, 8, 9] = .multi [(⟨0, 1⟩, [7]), (⟨2, 1⟩, [9])] := by decide
example : respond "bytes=0-,1-".toList [7, 8, 9] = .full [7, 8, 9] := by decide
example : denote "bytes=5-6,4-".toList = some [.fromTo 5 6, .from 4] ∧
    respond "bytes=5-6,4-".toList [7, 8, 9] = .unsat := by decide
example : denote "bytes=3-, 0-0,-0, 1-".toList = some [.from 3, .fromTo 0 0, .suffix 0, .from 1] ∧
    respond "bytes=3-, 0-0,-0, 1-".toList [7, 8, 9] = .multi [(⟨0, 1⟩, [7]), (⟨1, 2⟩, [8, 9])] := by decide
example : denote [] = some [] ∧ respond [] [7, 8, 9] = .full [7, 8, 9] := by decide

/-- whatever the header (grammatical or not): every range `parseRange` returns is non-empty and inside the content … -/
theorem parsed_ranges_inside (h : List Char) (N : Nat) (hN : N < 2 ^ 63) (rs : List Rg)
    (hp : parseRange h (N : Int) = some rs) : ∀ r ∈ rs, 0 ≤ r.start ∧ 0 < r.length ∧ r.start + r.length ≤ (N : Int) :=
  SwV.Lemmas.C32.parseRange_inside h N (by omega) (by omega) rs hp

/-- … so every answer is self-consistent: no empty or negative range, every 206 part carries exactly the bytes its
    Content-Range names, a 200 carries everything -/
theorem answer_self_consistent (h : List Char) (R : List Nat) (hN : R.length < 2 ^ 63) :
    rgNonPositive (respond h R) = none ∧ consistent R (respond h R) = true :=
  SwV.Lemmas.C32.respond_self_consistent h R hN

/-- the complete judge passes on the model's answer for EVERY header: the expectation for a header of the grammar,
    self-consistency for any other -/
theorem range_judge_passes_all (h : List Char) (R : List Nat) (hN : R.length < 2 ^ 62) :
    rangeJudge h R (respond h R) = none := by
  cases hd : denote h with
  | some specs => exact range_judge_passes h R specs hN hd
  | none =>
    have hc := answer_self_consistent h R (by omega)
    exact SwV.Lemmas.C32.rangeJudge_none_outside_grammar h R _ hd hc.1 hc.2

example : denote "bytes=0-1-2, +1-,x".toList = none ∧ denote "bytes=-+2".toList = none ∧
    respond "bytes=-+2".toList [7, 8, 9] = .single ⟨1, 2⟩ [8, 9] ∧ respond "bytes=0-1-2".toList [7, 8, 9] = .unsat := by decide

/-- whatever the header: the bytes of an answer are exactly what its status line and Content-Range announce -/
theorem answer_bytes_exact (h : List Char) (R : List Nat) :
    (∀ b, respond h R = .full b → b = R) ∧
    (∀ g b, respond h R = .single g b → 0 ≤ g.start → 0 < g.length →
        b = (R.drop g.start.toNat).take g.length.toNat) ∧
    (∀ ps, respond h R = .multi ps → ∀ p ∈ ps, 0 ≤ p.1.start → 0 < p.1.length →
        p.2 = (R.drop p.1.start.toNat).take p.1.length.toNat) := by
  unfold respond
  refine ⟨?_, ?_, ?_⟩
  · intro b hb
    split at hb <;> simp_all
  · intro g b hb h0 h1
    have hh : ¬ (g.length ≤ 0 ∨ g.start < 0) := by omega
    split at hb <;> try (simp at hb)
    obtain ⟨e1, e2⟩ := hb
    subst e1
    subst e2
    simp [slice, hh]
  · intro ps hb p hp h0 h1
    split at hb <;> try (simp at hb)
    subst hb
    simp only [List.mem_map] at hp
    obtain ⟨r, _, rfl⟩ := hp
    dsimp only at h0 h1 ⊢
    have : ¬ (r.length ≤ 0 ∨ r.start < 0) := by omega
    simp [slice, this]

/-! ## the repaired defects stay repaired (former witnesses of the open findings) -/

/-- repaired (fix: parseRange, range that selects no byte): first-byte-pos = size and suffix 0 are unsatisfiable — 416 when
    alone, skipped next to a satisfiable range; nothing for an empty content -/
theorem start_eq_size_repaired :
    respond "bytes=3-".toList [1, 2, 3] = .unsat ∧ expected [.from 3] 3 = .unsat ∧
    respond "bytes=3-3".toList [1, 2, 3] = .unsat ∧ respond "bytes=-0".toList [1, 2, 3] = .unsat ∧
    respond "bytes=0-0,3-".toList [1, 2, 3] = .single ⟨0, 1⟩ [1] ∧
    respond "bytes=-5".toList [] = .unsat ∧ respond "bytes=0-".toList [] = .unsat := by decide

/-- repaired (fix: parseRange, signed suffix length): `bytes=--5` is an invalid range -/
theorem negative_suffix_repaired :
    respond "bytes=--5".toList [1, 2, 3] = .unsat ∧ parseRange "bytes=0-1,--2".toList 3 = none ∧
    denote "bytes=--5".toList = none := by decide

/-- repaired (fix: parseRange, noOverlap): one unsatisfiable element no longer fails the whole header -/
theorem one_unsatisfiable_repaired :
    respond "bytes=0-1,5-6".toList [1, 2, 3] = .single ⟨0, 2⟩ [1, 2] ∧
    expected [.fromTo 0 1, .fromTo 5 6] 3 = .single (0, 2) ∧
    respond "bytes=5-6,7-".toList [1, 2, 3] = .unsat := by decide

/-- repaired (fix: 843c0161): an ignored range request (oversized sum, empty list) serves the whole content -/
theorem ignored_range_serves_everything :
    respond "bytes=0-,0-".toList [1, 2, 3] = .full [1, 2, 3] ∧ respond "bytes=".toList [1, 2, 3] = .full [1, 2, 3] := by decide

/-- gzip is announced only to a client that accepts it (spec predicate: coding gzip / x-gzip / * with q ≠ 0), only for a
    needle flagged compressed, and then the stored bytes are served -/
theorem gzip_only_if_accepted (b : Blob) (ae : List Char) (h : (represent b ae).2 = true) :
    clientAcceptsGzip ae = true ∧ b.compressed = true ∧ (represent b ae).1 = b.stored := by
  unfold represent at h ⊢
  by_cases hc : b.compressed = true
  · by_cases hg : (acceptsGzip ae && isGzMagic b.stored) = true
    · simp only [hc, hg, if_true]
      simp only [Bool.and_eq_true] at hg
      exact ⟨SwV.Lemmas.C32.clientAccepts_of_acceptsGzip ae hg.1, trivial, trivial⟩
    · simp [hc, hg] at h
  · simp [hc] at h

/-- the encoding judge passes on the model's choice -/
theorem encoding_judge_passes (b : Blob) (ae : List Char) : encodingJudge ae (represent b ae).2 = none := by
  unfold encodingJudge
  by_cases h : (represent b ae).2 = true
  · simp [h, (gzip_only_if_accepted b ae h).1]
  · simp [h]

/-- … and a client that sends no Accept-Encoding gets the decompressed bytes -/
theorem no_accept_encoding_gets_plain (b : Blob) : represent b [] = (if b.compressed then b.plain else b.stored, false) := by
  unfold represent
  cases b.compressed <;> simp [acceptsGzip, splitOn, elemListsGzip, trimSpace, gzipWord]

/-- repaired (fix: GetOrHeadHandler, Accept-Encoding read element by element): no gzip for `gzip;q=0` or `notgzipped`;
    still gzip for the clients that accept it -/
theorem gzip_q0_repaired :
    (represent ⟨true, [1], [31, 139, 8]⟩ "gzip;q=0".toList).2 = false ∧ clientAcceptsGzip "gzip;q=0".toList = false ∧
    (represent ⟨true, [1], [31, 139, 8]⟩ "notgzipped".toList).2 = false ∧
    (represent ⟨true, [1], [31, 139, 8]⟩ "br, GZip;q=0.5".toList) = ([31, 139, 8], true) ∧
    (represent ⟨true, [1], [31, 139, 8]⟩ "deflate;q=0, x-gzip".toList).2 = true := by decide

/-- bridges: an edit of the range code or of the handler's choice of representation breaks this obligation (the model has
    to be re-read against the new text) -/
theorem bridge_source_pins :
    SwV.Gen.C32.src_parseRange = "684a0421bcfe612c" ∧ SwV.Gen.C32.src_sumRangesSize = "e3fc3a256a1357bb" ∧
    SwV.Gen.C32.src_processRangeRequest = "f6f3c151ec6730bf" ∧ SwV.Gen.C32.src_writeResponseContent = "803357dac01be84b" ∧
    SwV.Gen.C32.src_acceptsGzip = "a9f1497fbecd8a17" ∧ SwV.Gen.C32.src_GetOrHeadHandler = "6663ce426a867015" := by
  decide

end SwV.Props.C32
