/-
C31 — property theorems: the mount's chunk cache is transparent.

Full statement (`cache_transparent`, FALSE of the code, kept visible):

    ∀ u disk ops f m,  Admissible (stores ops) f 0 (((newCache u disk).run ops).get f m)

"after ANY sequence of stores / lookups / restarts / evictions, a lookup for a file id returns nothing
or leading bytes that were stored for that same file id".  It fails because the disk tiers index by
needle key only (`cache_transparent_fails_on_shared_key`, confirmed on the real code: findings
GetChunk/other-file-id-bytes, GetChunkSlice/other-file-id-bytes).  What holds, for ALL operation
sequences, restart oracles (volume order, index regeneration) and evictions, is the statement under
the exact hypothesis that excludes the aliasing: `KeyOwned` — no OTHER file id with the same needle
key was stored (`cache_transparent_partial`, `slice_transparent_partial`).

"Bytes LAST stored" instead of "bytes stored" (`AdmissibleLast`) additionally needs `WriteOnce`
(an id is always stored with the same content, which is how SeaweedFS uses file ids): a re-store
with different content in another tier leaves the old bytes findable (`last_stored_fails_on_restore`);
the property text asks for "bytes that were stored for that same file id", so that is not a finding.
-/
import SwV.Model.C31
import SwV.Spec.C31
import SwV.Gen.C31
import SwV.Lemmas.C31

namespace SwV.Props.C31
open SwV.Model.C31 SwV.Spec.C31 SwV.Lemmas.C31

/-! ### the judges are the spec -/

/-- the executable judge decides `Admissible` -/
theorem admissibleB_iff (h : History) (f : Fid) (off : Nat) (r : Bytes) :
    admissibleB h f off r = true ↔ Admissible h f off r := by
  simp only [admissibleB, Admissible, Bool.or_eq_true, List.isEmpty_iff, List.any_eq_true, Bool.and_eq_true,
    beq_iff_eq, List.isPrefixOf_iff_prefix]
  constructor
  · rintro (h0 | ⟨⟨g, d⟩, hm, hg, hp⟩)
    · exact Or.inl h0
    · simp only at hg hp; subst hg; exact Or.inr ⟨d, hm, hp⟩
  · rintro (h0 | ⟨d, hm, hp⟩)
    · exact Or.inl h0
    · exact Or.inr ⟨(f, d), hm, rfl, hp⟩

/-- the executable judge decides `AdmissibleLast` -/
theorem admissibleLastB_iff (h : History) (f : Fid) (off : Nat) (r : Bytes) :
    admissibleLastB h f off r = true ↔ AdmissibleLast h f off r := by
  simp only [admissibleLastB, AdmissibleLast, Bool.or_eq_true, List.isEmpty_iff]
  cases lastStored h f with
  | none => simp
  | some d => simp [List.isPrefixOf_iff_prefix]

/-- the driver reports a SPECFAIL exactly when the answer is not admissible -/
theorem judge_none_iff (h : History) (f : Fid) (off : Nat) (r : Bytes) :
    judge h f off r = none ↔ Admissible h f off r := by
  rw [← admissibleB_iff]
  unfold judge
  split
  · simp [*]
  · split
    · simp [*]
    · split <;> simp [*]

/-! ### the main theorems -/

/-- **GetChunk is transparent for ids that own their needle key.**  For every unit/disk size, every
    sequence of stores, lookups, slice lookups, restarts (any volume order, any set of regenerated
    indexes) and evictions (any subsets), and every minimum size: the answer is nothing, or a prefix
    of bytes stored for the same file id. -/
theorem cache_transparent_partial (u disk : Nat) (ops : List Op) (f : Fid) (m : Nat)
    (hown : KeyOwned (stores ops) f) :
    Admissible (stores ops) f 0 (((newCache u disk).run ops).get f m) := by
  have hok : Ok (stores ops) ((newCache u disk).run ops) := by
    simpa using (newCache_ok [] u disk).run (ops := ops)
  rcases get_cases ((newCache u disk).run ops) f m with h0 | hf
  · exact Or.inl h0
  · exact Or.inr ⟨_, hok.fromCache hown hf, by simp⟩

/-- the hypothesis is satisfiable (and the conclusion non-trivial): one stored id, looked up again -/
example : KeyOwned (stores [.store ⟨1, 17, 5⟩ [1, 2, 3]]) ⟨1, 17, 5⟩ := by
  intro g d hm _
  simp only [stores, List.mem_singleton, Prod.mk.injEq] at hm
  exact hm.1

example : ((newCache 64 16).run [.store ⟨1, 17, 5⟩ [1, 2, 3]]).get ⟨1, 17, 5⟩ 2 = [1, 2, 3] := by decide

/-- **GetChunkSlice is transparent for ids that own their needle key**: the answer is nothing or exactly
    the bytes [off, off+|answer|) of bytes stored for the same file id. -/
theorem slice_transparent_partial (u disk : Nat) (ops : List Op) (f : Fid) (off len : Nat)
    (hown : KeyOwned (stores ops) f) :
    Admissible (stores ops) f off (((newCache u disk).run ops).getSlice f off len) := by
  have hok : Ok (stores ops) ((newCache u disk).run ops) := by
    simpa using (newCache_ok [] u disk).run (ops := ops)
  rcases getSlice_cases ((newCache u disk).run ops) f off len with h0 | ⟨d, hf, hr⟩
  · exact Or.inl h0
  · exact Or.inr ⟨d, hok.fromCache hown hf, by rw [hr]; exact List.take_prefix ..⟩

/-- with write-once content (a file id names one blob), "stored" is "last stored" -/
theorem lastStored_of_writeOnce {h : History} {f : Fid} {d : Bytes} (hm : (f, d) ∈ h) (hw : WriteOnce h f) :
    lastStored h f = some d := by
  unfold lastStored
  cases hfind : h.reverse.find? (fun p => p.1 == f) with
  | none =>
    have := List.find?_eq_none.mp hfind (f, d) (List.mem_reverse.mpr hm)
    simp at this
  | some p =>
    have h1 : p.1 = f := by simpa using List.find?_some hfind
    have h2 : p ∈ h := List.mem_reverse.mp (List.mem_of_find?_eq_some hfind)
    have h3 : (f, p.2) ∈ h := by rw [← h1]; exact h2
    simp [hw p.2 d h3 hm]

/-- **the strong reading** (prefix of the bytes LAST stored for the id) holds for ids that own their key
    and are stored with one content only -/
theorem cache_transparent_last_partial (u disk : Nat) (ops : List Op) (f : Fid) (m : Nat)
    (hown : KeyOwned (stores ops) f) (honce : WriteOnce (stores ops) f) :
    AdmissibleLast (stores ops) f 0 (((newCache u disk).run ops).get f m) := by
  rcases cache_transparent_partial u disk ops f m hown with h0 | ⟨d, hm, hp⟩
  · exact Or.inl h0
  · exact Or.inr ⟨d, lastStored_of_writeOnce hm honce, hp⟩

theorem slice_transparent_last_partial (u disk : Nat) (ops : List Op) (f : Fid) (off len : Nat)
    (hown : KeyOwned (stores ops) f) (honce : WriteOnce (stores ops) f) :
    AdmissibleLast (stores ops) f off (((newCache u disk).run ops).getSlice f off len) := by
  rcases slice_transparent_partial u disk ops f off len hown with h0 | ⟨d, hm, hp⟩
  · exact Or.inl h0
  · exact Or.inr ⟨d, lastStored_of_writeOnce hm honce, hp⟩

example : WriteOnce (stores [.store ⟨1, 17, 5⟩ [1, 2, 3], .lookup ⟨1, 17, 5⟩ 1, .store ⟨1, 17, 5⟩ [1, 2, 3]]) ⟨1, 17, 5⟩ := by
  intro d d' h1 h2
  simp only [stores, List.mem_cons, Prod.mk.injEq, true_and, List.not_mem_nil, or_false, or_self] at h1 h2
  rw [h1, h2]

/-! ### the excluded cases are real (witnesses) -/

/-- a chunk of volume 1 … -/
def aliasOps : List Op := [.store ⟨1, 17, 168496141⟩ [65, 65, 65, 65, 65, 65, 65, 65]]

/-- … is returned for a NEVER-STORED id of volume 2 with the same needle key (other cookie too):
    the unrestricted `cache_transparent` is false (corpus/C31/alias_witness.ops shows the real code doing it) -/
theorem cache_transparent_fails_on_shared_key :
    ((newCache 64 16).run aliasOps).get ⟨2, 17, 4276993775⟩ 1 = [65, 65, 65, 65, 65, 65, 65, 65] ∧
    ¬ Admissible (stores aliasOps) ⟨2, 17, 4276993775⟩ 0 (((newCache 64 16).run aliasOps).get ⟨2, 17, 4276993775⟩ 1) ∧
    ¬ Admissible (stores aliasOps) ⟨2, 17, 4276993775⟩ 0 (((newCache 64 16).run aliasOps).getSlice ⟨2, 17, 4276993775⟩ 0 4) ∧
    ¬ KeyOwned (stores aliasOps) ⟨2, 17, 4276993775⟩ := by
  refine ⟨by decide, ?_, ?_, ?_⟩
  · rw [← admissibleB_iff]; decide
  · rw [← admissibleB_iff]; decide
  · intro h
    have := h ⟨1, 17, 168496141⟩ _ (List.mem_singleton.mpr rfl) rfl
    exact absurd this (by decide)

/-- the same id stored twice with different content, in different tiers (5 bytes → layer 1, 1 byte → layer 0
    and memory; unit 2): a lookup that needs 3 bytes finds the OLD chunk — admissible (bytes stored for this
    id), but not a prefix of the bytes last stored -/
def restoreOps : List Op := [.store ⟨1, 17, 5⟩ [1, 2, 3, 4, 5], .store ⟨1, 17, 5⟩ [9]]

theorem last_stored_fails_on_restore :
    ((newCache 2 64).run restoreOps).get ⟨1, 17, 5⟩ 3 = [1, 2, 3, 4, 5] ∧
    KeyOwned (stores restoreOps) ⟨1, 17, 5⟩ ∧
    Admissible (stores restoreOps) ⟨1, 17, 5⟩ 0 (((newCache 2 64).run restoreOps).get ⟨1, 17, 5⟩ 3) ∧
    ¬ AdmissibleLast (stores restoreOps) ⟨1, 17, 5⟩ 0 (((newCache 2 64).run restoreOps).get ⟨1, 17, 5⟩ 3) := by
  refine ⟨by decide, ?_, ?_, ?_⟩
  · intro g d hm _
    simp only [restoreOps, stores, List.mem_cons, Prod.mk.injEq, List.not_mem_nil, or_false] at hm
    rcases hm with h | h <;> exact h.1
  · rw [← admissibleB_iff]; decide
  · rw [← admissibleLastB_iff]; decide

/-! ### what lookups return (all states, not only reachable ones) -/

/-- a non-empty `GetChunk` answer is at least `minSize` long -/
theorem get_length (c : Cache) (f : Fid) (m : Nat) : c.get f m = [] ∨ m ≤ (c.get f m).length := by
  unfold Cache.get
  simp only []
  split
  · rename_i h; exact Or.inr h.2
  · split
    · rename_i h; exact Or.inr h.2
    · split
      · rename_i h; exact Or.inr h.2
      · split
        · rename_i h; exact Or.inr h
        · exact Or.inl rfl

/-- `doGetChunkSlice` accepts a tier's answer only if it is `offset+length` long, but answers are at most
    `length` long: a slice lookup with a positive offset NEVER returns anything (a lost cache hit, not a
    transparency defect; the correspondence check observes the same on the real code) -/
theorem slice_offset_positive_returns_nothing (c : Cache) (f : Fid) (off len : Nat) (hoff : 0 < off) :
    c.getSlice f off len = [] := by
  have h0 := memSlice_length_le c.mem f off len
  have h1 := sliceVols_length_le c.l0.vols f.key off len
  have h2 := sliceVols_length_le c.l1.vols f.key off len
  have h3 := sliceVols_length_le c.l2.vols f.key off len
  unfold Cache.getSlice
  simp only []
  split
  · rename_i h; omega
  · split
    · rename_i h; omega
    · split
      · rename_i h; omega
      · split
        · rename_i h; omega
        · rfl

/-- a cache whose layers have volumes (the constructor's result; kept by stores) -/
def WellFormed (c : Cache) : Prop :=
  c.lim0 ≤ c.lim1 ∧ c.l0.vols ≠ [] ∧ c.l1.vols ≠ [] ∧ c.l2.vols ≠ []

theorem getVols_after_set (l : Layer) (hne : l.vols ≠ []) (key : Nat) (d : Bytes) (hd : d ≠ []) :
    getVols (l.set key d).vols key = d := by
  have hw (w : Vol) (ws : List Vol) : getVols (w.write key d :: ws) key = d := by
    have hlen : d.length ≠ 0 := by
      intro h; exact hd (List.eq_nil_of_length_eq_zero h)
    simp [getVols, Vol.get, Vol.write, hlen]
  have hrot : l.rotated ≠ [] := by
    unfold Layer.rotated
    cases hl : l.vols.getLast? with
    | none => exact absurd (List.getLast?_eq_none_iff.mp hl) hne
    | some last => simp
  unfold Layer.set
  cases hvols : l.vols with
  | nil => exact absurd hvols hne
  | cons v0 rest =>
    simp only []
    generalize hvs : (if v0.fileSize + d.length > l.limit then l.rotated else v0 :: rest) = vols
    have hne' : vols ≠ [] := by
      rw [← hvs]; split
      · exact hrot
      · simp
    cases vols with
    | nil => exact absurd rfl hne'
    | cons w ws => exact hw w ws

/-- **the cache does cache**: right after a store of a non-empty chunk, a lookup that asks for the whole
    chunk returns exactly it — whatever else the cache holds (so "nothing" is not how transparency is won) -/
theorem store_then_lookup_hits (c : Cache) (hc : WellFormed c) (f : Fid) (d : Bytes) (hd : d ≠ []) :
    (c.set f d).get f d.length = d := by
  rcases hc with ⟨hlim, hn0, hn1, hn2⟩
  unfold Cache.set
  by_cases h0 : d.length ≤ c.lim0
  · have hmem : memGet (memSet c.mem f d) f = some d := by simp [memGet, memSet]
    simp [h0, Cache.get, hmem]
  · by_cases h1 : d.length ≤ c.lim1
    · simp [h0, h1, Cache.get, getVols_after_set c.l1 hn1 f.key d hd]
    · have := getVols_after_set c.l2 hn2 f.key d hd
      simp [h0, h1, Cache.get, this]

example : WellFormed (newCache 64 16) := by
  refine ⟨by decide, ?_, ?_, ?_⟩ <;> decide

/-! ### the data file behind a volume -/

/-- **WriteNeedle on the byte-level volume refines the model's write**: appending the data (and padding) at
    `fileSize` and pointing the key at it leaves every other entry reading the same bytes, the new entry reads
    exactly the written bytes, and all entries stay inside the file — for every well-formed volume -/
theorem bvol_write_refines (v : BVol) (hw : v.Wf) (i key : Nat) (d : Bytes) :
    (v.write key d).abs i = (v.abs i).write key d ∧ (v.write key d).Wf := by
  constructor
  · simp only [BVol.abs, BVol.write, Vol.write, Vol.mk.injEq, true_and]
    refine ⟨?_, ?_⟩
    · have := padded_ge d.length
      simp only [List.length_append, List.length_replicate]; omega
    · simp only [List.map_cons, List.filter_map, List.cons.injEq, Entry.mk.injEq, true_and]
      refine ⟨?_, ?_⟩
      · simp [BVol.read]
      · apply List.map_congr_left
        intro e he
        have hin := hw e (List.mem_filter.mp he).1
        simp only [Entry.mk.injEq, true_and]
        exact read_append v _ e hin
  · intro e he
    simp only [BVol.write, List.mem_cons, List.mem_filter] at he
    simp only [BVol.write, List.length_append, List.length_replicate]
    rcases he with rfl | ⟨he, _⟩
    · simp only; omega
    · have := hw e he; omega

/-- a freshly reset volume is well-formed, and reads back what is written -/
example : (BVol.mk [] []).Wf ∧ ((BVol.mk [] []).write 17 [1, 2, 3]).abs 0 = ⟨0, 8, [⟨17, 0, [1, 2, 3]⟩]⟩ :=
  ⟨fun _ h => (by cases h), by decide⟩

/-! ### bridges to the regenerated source facts -/

theorem bridge_consts : (padding : Int) = SwV.Gen.C31.NeedlePaddingSize := by decide

/-- the comparisons / arguments the model mirrors are the ones in the source: rotation test, "first non-empty
    answer", tier selection, the key-only index (`fid.Key` is ALL that reaches the disk layers), and what an
    index regeneration keeps -/
theorem bridge_conditions :
    SwV.Gen.C31.rotateCond = "c.diskCaches[0].fileSize+int64(len(data)) > c.diskCaches[0].sizeLimit" ∧
    SwV.Gen.C31.layerHitCond = "len(data) != 0" ∧
    SwV.Gen.C31.setTier0Cond = "len(data) <= int(c.onDiskCacheSizeLimit0)" ∧
    SwV.Gen.C31.setTier1Cond = "len(data) <= int(c.onDiskCacheSizeLimit1)" ∧
    SwV.Gen.C31.setKeyArg = "fid.Key" ∧
    SwV.Gen.C31.getKeyArg = "fid.Key" ∧
    SwV.Gen.C31.regenKeepCond = "!offset.IsZero() && size.IsValid()" := by decide

/-- the modelled functions are the ones the model was written against (any edit breaks this obligation) -/
theorem bridge_pins :
    SwV.Gen.C31.src_NewTieredChunkCache = "5748341016958b2c" ∧ SwV.Gen.C31.src_doGetChunk = "20fa71b70677a603" ∧
    SwV.Gen.C31.src_doGetChunkSlice = "d3a9f3227f120ed6" ∧ SwV.Gen.C31.src_doSetChunk = "e646a1b8612944c0" ∧
    SwV.Gen.C31.src_NewOnDiskCacheLayer = "3978989af6031265" ∧ SwV.Gen.C31.src_setChunk = "ab34095a1df12321" ∧
    SwV.Gen.C31.src_getChunk = "262199b605892c84" ∧ SwV.Gen.C31.src_getChunkSlice = "238578e95f42cd89" ∧
    SwV.Gen.C31.src_WriteNeedle = "3a1c6f837de9851a" ∧ SwV.Gen.C31.src_GetNeedle = "714f23c15d9e9467" ∧
    SwV.Gen.C31.src_getNeedleSlice = "03b58580ab1d3f7d" ∧ SwV.Gen.C31.src_memGetChunkSlice = "1b4f3773bff774a8" := by decide

end SwV.Props.C31
