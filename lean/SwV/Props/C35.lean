/-
C35 — property theorems about the backing-array model of vidMap (SwV/Model/C35.lean), which the
correspondence check ties to the real weed/wdclient/vid_map.go (lengths, CAPACITIES, contents of
every slice, and what a kept slice shows later).
-/
import SwV.Model.C35
import SwV.Spec.C35
import SwV.Lemmas.C35
import SwV.Gen.C35

namespace SwV.Props.C35
open SwV.Model.C35 SwV.Spec.C35 SwV.Lemmas.C35

/-- invariant of the map: every slice fits its array and shows each url once -/
def Inv (st : St) : Prop := ∀ v c, st.vids v = some c → WF c ∧ UrlsNodup c.view

theorem addLocation_vids (st : St) (vid : Nat) (loc : Loc) (v : Nat) :
    (addLocation st vid loc).vids v =
      if v = vid then some (match st.vids vid with | none => { arr := [loc], len := 1 } | some c => (c.add loc).1)
      else st.vids v := by
  unfold addLocation
  cases h : st.vids vid <;> simp

theorem deleteLocation_vids (st : St) (vid : Nat) (u : String) (v : Nat) :
    (deleteLocation st vid u).vids v = if v = vid then (st.vids vid).map (fun c => (c.del u).1) else st.vids v := by
  unfold deleteLocation
  cases h : st.vids vid with
  | none => by_cases hv : v = vid <;> simp [hv, h]
  | some c => simp

theorem hold_vids (st : St) (vid : Nat) : (hold st vid).vids = st.vids := by
  unfold hold; cases st.vids vid <;> rfl

/-- one notification: the invariant is kept and every volume's slice shows what the reference set holds -/
theorem step_refines (st : St) (m : Ref) (op : Op) (hinv : Inv st) (href : ∀ v, getLocations st v = m v) :
    Inv (applyOp st op) ∧ ∀ v, getLocations (applyOp st op) v = refApply m op v := by
  cases op with
  | add vid loc =>
    have hm := href vid
    simp only [getLocations] at hm
    constructor
    · intro v c hc
      simp only [applyOp, addLocation_vids] at hc
      by_cases hv : v = vid
      · subst hv
        simp only [if_true, Option.some.injEq] at hc
        subst hc
        cases hs : st.vids v with
        | none => exact ⟨by simp [WF], by simp [UrlsNodup, Cell.view]⟩
        | some c0 =>
          have ⟨hw, hn⟩ := hinv v c0 hs
          refine ⟨wf_add c0 loc hw, ?_⟩
          simp only [view_add c0 loc hw]
          by_cases hu : hasUrl c0.view loc.url = true
          · simpa [hu] using hn
          · simp only [hu, Bool.false_eq_true, if_false]
            exact nodup_append_new _ _ hn (by simpa using hu)
      · simp only [hv, if_false] at hc
        exact hinv v c hc
    · intro v
      simp only [applyOp, getLocations, addLocation_vids, refApply, refAdd]
      by_cases hv : v = vid
      · subst hv
        simp only [if_true, Option.map_some]
        cases hs : st.vids v with
        | none =>
          rw [hs] at hm; simp only [Option.map_none] at hm
          simp [← hm, Cell.view]
        | some c0 =>
          rw [hs] at hm; simp only [Option.map_some] at hm
          have ⟨hw, _⟩ := hinv v c0 hs
          rw [← hm]
          simp only [view_add c0 loc hw]
          by_cases hu : hasUrl c0.view loc.url = true <;> simp [hu]
      · simp only [hv, if_false]
        exact href v
  | del vid u =>
    have hm := href vid
    simp only [getLocations] at hm
    constructor
    · intro v c hc
      simp only [applyOp, deleteLocation_vids] at hc
      by_cases hv : v = vid
      · subst hv
        simp only [if_true] at hc
        cases hs : st.vids v with
        | none => simp [hs] at hc
        | some c0 =>
          simp only [hs, Option.map_some, Option.some.injEq] at hc
          subst hc
          have ⟨hw, hn⟩ := hinv v c0 hs
          refine ⟨wf_del c0 u hw, ?_⟩
          rw [view_del c0 u hw, eraseIdx_findIdx_eq_filter _ _ hn]
          exact nodup_filter _ _ hn
      · simp only [hv, if_false] at hc
        exact hinv v c hc
    · intro v
      simp only [applyOp, getLocations, deleteLocation_vids, refApply, refDel]
      by_cases hv : v = vid
      · subst hv
        simp only [if_true]
        cases hs : st.vids v with
        | none => rw [hs] at hm; simp only [Option.map_none] at hm; simp [← hm]
        | some c0 =>
          rw [hs] at hm; simp only [Option.map_some] at hm
          have ⟨hw, hn⟩ := hinv v c0 hs
          simp only [Option.map_some, ← hm]
          rw [view_del c0 u hw, eraseIdx_findIdx_eq_filter _ _ hn]
      · simp only [hv, if_false]
        exact href v
  | hold vid =>
    constructor
    · intro v c hc
      simp only [applyOp, hold_vids] at hc
      exact hinv v c hc
    · intro v
      simp only [applyOp, getLocations, hold_vids, refApply]
      exact href v

theorem run_refines (ops : List Op) : Inv (run ops) ∧ ∀ v, getLocations (run ops) v = denote ops v := by
  suffices h : ∀ st m, Inv st → (∀ v, getLocations st v = m v) →
      Inv (ops.foldl applyOp st) ∧ ∀ v, getLocations (ops.foldl applyOp st) v = ops.foldl refApply m v from
    h {} (fun _ => none) (by intro v c hc; simp at hc) (by intro v; simp [getLocations])
  induction ops with
  | nil => intro st m hi hr; exact ⟨hi, hr⟩
  | cons op rest ih =>
    intro st m hi hr
    have ⟨hi', hr'⟩ := step_refines st m op hi hr
    exact ih _ _ hi' hr'

/-- MAIN (sequential histories): after ANY sequence of add / remove notifications (and readers keeping
    slices), `GetLocations` returns for every volume exactly the reference: not-found if the volume was
    never announced, else the locations currently added, in order of first announcement -/
theorem lookup_eq_reference (ops : List Op) (vid : Nat) : getLocations (run ops) vid = denote ops vid :=
  (run_refines ops).2 vid

/-- … each location once -/
theorem each_location_once (ops : List Op) (vid : Nat) (l : List Loc) (h : getLocations (run ops) vid = some l) :
    (l.map (·.url)).Nodup := by
  simp only [getLocations] at h
  cases hs : (run ops).vids vid with
  | none => simp [hs] at h
  | some c =>
    simp only [hs, Option.map_some, Option.some.injEq] at h
    subst h
    exact ((run_refines ops).1 vid c hs).2

/-- `LookupVolumeServerUrl` orders the urls: the same-data-center locations (latest first), then all others -/
theorem lookup_same_dc_first (dc : String) (l : List Loc) :
    orderUrls dc l = ((l.filter (sameDc dc)).reverse ++ l.filter (fun x => !sameDc dc x)).map (·.url) := by
  unfold orderUrls
  rw [orderUrls_acc]
  simp

/-- … and returns exactly the urls of the locations (nothing lost, nothing invented) -/
theorem lookup_urls_exact (dc : String) (l : List Loc) (u : String) :
    u ∈ orderUrls dc l ↔ u ∈ l.map (·.url) := by
  rw [lookup_same_dc_first]
  simp only [List.map_append, List.mem_append, List.mem_map, List.mem_reverse, List.mem_filter]
  constructor
  · rintro (⟨x, ⟨hx, _⟩, e⟩ | ⟨x, ⟨hx, _⟩, e⟩) <;> exact ⟨x, hx, e⟩
  · rintro ⟨x, hx, e⟩
    by_cases hs : sameDc dc x = true
    · exact Or.inl ⟨x, ⟨hx, hs⟩, e⟩
    · exact Or.inr ⟨x, ⟨hx, by simpa using hs⟩, e⟩

/-! ### readers that keep a returned slice

"A slice returned by GetLocations keeps showing what it showed when it was returned (no duplicated /
lost / torn entries), whatever is added or removed later."  This was FALSE before the repair of
`deleteLocation` in /repo (finding GetLocations/returned-slice-shows-duplicate-after-delete, fixed): the
in-place delete shifted the tail inside the backing array the reader held.  The pre-repair operator is
kept in the model as `Cell.delInPlace` / `deleteLocationInPlace`; the witness below is about THAT
operator, the theorem `readers_never_torn` about the code as it is now. -/

/-- the pre-repair step function (in-place delete), for contrast only -/
def applyOpInPlace (st : St) : Op → St
  | .add v l => addLocation st v l
  | .del v u => deleteLocationInPlace st v u
  | .hold v => hold st v

/-- what the pre-repair code did: the kept slice [u1 u2 u3] shows [u2 u3 u3] after u1 is removed (and a
    following add overwrites the cell the reader still covers); the repaired step leaves it alone -/
theorem inplace_delete_tears_witness :
    let a : Loc := ⟨"u1", "dc1"⟩; let b : Loc := ⟨"u2", "dc2"⟩; let c : Loc := ⟨"u3", "dc1"⟩; let d : Loc := ⟨"u4", ""⟩
    peek (run [.add 1 a, .add 1 b, .add 1 c, .hold 1]) = [a, b, c] ∧
    peek ([Op.add 1 a, .add 1 b, .add 1 c, .hold 1, .del 1 "u1"].foldl applyOpInPlace {}) = [b, c, c] ∧
    peek ([Op.add 1 a, .add 1 b, .add 1 c, .hold 1, .del 1 "u1", .add 1 d].foldl applyOpInPlace {}) = [b, c, d] ∧
    peek (run [.add 1 a, .add 1 b, .add 1 c, .hold 1, .del 1 "u1"]) = [a, b, c] ∧
    peek (run [.add 1 a, .add 1 b, .add 1 c, .hold 1, .del 1 "u1", .add 1 d]) = [a, b, c] := by decide

/-- the repair does not change what lookups return: both deletes leave the same slice (they differ only in
    WHERE the remaining entries live) -/
theorem repair_keeps_lookup_results (c : Cell) (u : String) (h : WF c) :
    (c.del u).1.view = (c.delInPlace u).view := by
  rw [view_del c u h, view_delInPlace c u h]

/-- the reader's slot is not re-used: no later `hold` (a later hold is ANOTHER returned slice; the theorem
    then applies to that one).  This is the only condition on the later operations. -/
def notHold : Op → Prop
  | .hold _ => False
  | _ => True

/-- what the reader is entitled to: the slice still shows `snap` -/
def HeldShows (st : St) (vid : Nat) (snap : List Loc) : Prop :=
  ∃ h, st.held = some h ∧ h.vid = vid ∧
    match h.frozen with
    | some a => a.take h.len = snap
    | none => ∃ c, st.vids vid = some c ∧ c.arr.take h.len = snap ∧ h.len ≤ c.len ∧ WF c

theorem freezeHeld_other (h : Held) (realloc : Bool) (v : Nat) (old : List Loc) (hne : ¬ h.vid = v) :
    freezeHeld (some h) realloc v old = some h := by
  simp [freezeHeld, hne]

theorem freezeHeld_frozen (h : Held) (realloc : Bool) (v : Nat) (old a : List Loc) (hf : h.frozen = some a) :
    freezeHeld (some h) realloc v old = some h := by
  simp [freezeHeld, hf]

theorem freezeHeld_false (h : Held) (v : Nat) (old : List Loc) :
    freezeHeld (some h) false v old = some h := by
  simp [freezeHeld]

theorem freezeHeld_true (h : Held) (old : List Loc) (hf : h.frozen = none) :
    freezeHeld (some h) true h.vid old = some { h with frozen := some old } := by
  simp [freezeHeld, hf]

theorem addLocation_held (st : St) (v : Nat) (loc : Loc) :
    (addLocation st v loc).held =
      match st.vids v with
      | none => st.held
      | some c => freezeHeld st.held (c.add loc).2 v c.arr := by
  unfold addLocation; cases st.vids v <;> rfl

theorem deleteLocation_held (st : St) (v : Nat) (u : String) :
    (deleteLocation st v u).held =
      match st.vids v with
      | none => st.held
      | some c => freezeHeld st.held (c.del u).2 v c.arr := by
  unfold deleteLocation; cases st.vids v <;> rfl

/-- a step on ANOTHER volume, or on the reader's volume after its array was left behind, changes nothing
    the reader sees; a step on the reader's live array either leaves the covered cells alone (in-place
    add, no-op) or re-allocates and leaves the old array to the reader (growing add, delete) -/
theorem heldShows_update (st : St) (vid : Nat) (snap : List Loc) (v : Nat) (st' : St) (c0 : Cell)
    (upd : Cell → Cell × Bool) (hc0 : st.vids v = some c0)
    (hvids : ∀ w, st'.vids w = if w = v then some (upd c0).1 else st.vids w)
    (hheld : st'.held = freezeHeld st.held (upd c0).2 v c0.arr)
    (hupd : ∀ c n, WF c → n ≤ c.len → (upd c).2 = false →
      WF (upd c).1 ∧ n ≤ (upd c).1.len ∧ (upd c).1.arr.take n = c.arr.take n)
    (hs : HeldShows st vid snap) : HeldShows st' vid snap := by
  obtain ⟨h, hh, hv, hm⟩ := hs
  rw [hh] at hheld
  by_cases hvv : v = vid
  · subst hvv
    cases hf : h.frozen with
    | some a =>
      rw [freezeHeld_frozen h _ _ _ a hf] at hheld
      exact ⟨h, hheld, hv, by simpa [hf] using hm⟩
    | none =>
      simp only [hf] at hm
      obtain ⟨c, hc, htake, hlen, hw⟩ := hm
      rw [hc0] at hc; cases hc
      cases hr : (upd c0).2 with
      | true =>
        rw [hr, ← hv, freezeHeld_true h c0.arr hf] at hheld
        exact ⟨{ h with frozen := some c0.arr }, hheld, hv, htake⟩
      | false =>
        rw [hr, freezeHeld_false] at hheld
        obtain ⟨hw', hlen', htake'⟩ := hupd c0 h.len hw hlen hr
        refine ⟨h, hheld, hv, ?_⟩
        simp only [hf]
        exact ⟨(upd c0).1, by simp [hvids], by rw [htake', htake], hlen', hw'⟩
  · have hne : ¬ h.vid = v := by rw [hv]; exact fun e => hvv e.symm
    rw [freezeHeld_other h _ _ _ hne] at hheld
    refine ⟨h, hheld, hv, ?_⟩
    cases hf : h.frozen with
    | some a => simpa [hf] using hm
    | none =>
      simp only [hf] at hm ⊢
      obtain ⟨c, hc, rest⟩ := hm
      refine ⟨c, ?_, rest⟩
      have : ¬ vid = v := fun e => hvv e.symm
      simp [hvids, this, hc]

/-- the first announcement of a volume creates a new entry: no returned slice lives there -/
theorem heldShows_newvol (st : St) (vid : Nat) (snap : List Loc) (v : Nat) (st' : St) (x : Cell)
    (hc0 : st.vids v = none)
    (hvids : ∀ w, st'.vids w = if w = v then some x else st.vids w) (hheld : st'.held = st.held)
    (hs : HeldShows st vid snap) : HeldShows st' vid snap := by
  obtain ⟨h, hh, hv, hm⟩ := hs
  refine ⟨h, by rw [hheld, hh], hv, ?_⟩
  cases hf : h.frozen with
  | some a => simpa [hf] using hm
  | none =>
    simp only [hf] at hm ⊢
    obtain ⟨c, hc, rest⟩ := hm
    refine ⟨c, ?_, rest⟩
    have : ¬ vid = v := by intro e; subst e; simp [hc0] at hc
    simp [hvids, this, hc]

theorem add_inplace_keeps (c : Cell) (loc : Loc) (n : Nat) (hw : WF c) (hn : n ≤ c.len) (hr : (c.add loc).2 = false) :
    WF (c.add loc).1 ∧ n ≤ (c.add loc).1.len ∧ (c.add loc).1.arr.take n = c.arr.take n := by
  refine ⟨wf_add c loc hw, ?_⟩
  unfold Cell.add at *
  by_cases hu : hasUrl c.view loc.url = true
  · simp [hu, hn]
  · simp only [hu, Bool.false_eq_true, if_false] at hr ⊢
    by_cases hl : c.len < c.arr.length
    · simp only [hl, if_true]
      exact ⟨by omega, take_set_of_le _ _ _ _ hn⟩
    · simp [hl] at hr

theorem del_noop_keeps (c : Cell) (u : String) (n : Nat) (hw : WF c) (hn : n ≤ c.len) (hr : (c.del u).2 = false) :
    WF (c.del u).1 ∧ n ≤ (c.del u).1.len ∧ (c.del u).1.arr.take n = c.arr.take n := by
  rw [del_noop c u hr]; exact ⟨hw, hn, rfl⟩

theorem heldShows_step (st : St) (vid : Nat) (snap : List Loc) (op : Op) (hop : notHold op)
    (hs : HeldShows st vid snap) : HeldShows (applyOp st op) vid snap := by
  cases op with
  | hold v => exact absurd hop (by simp [notHold])
  | del v u =>
    cases hc : st.vids v with
    | none =>
      have : applyOp st (.del v u) = st := by simp [applyOp, deleteLocation, hc]
      rw [this]; exact hs
    | some c0 =>
      refine heldShows_update st vid snap v _ c0 (fun c => c.del u) hc (fun w => ?_) ?_
        (fun c n hw hn hr => del_noop_keeps c u n hw hn hr) hs
      · simp only [applyOp, deleteLocation_vids, hc, Option.map_some]
      · simp only [applyOp, deleteLocation_held, hc]
  | add v loc =>
    cases hc : st.vids v with
    | none =>
      refine heldShows_newvol st vid snap v _ { arr := [loc], len := 1 } hc (fun w => ?_) ?_ hs
      · simp only [applyOp, addLocation_vids, hc]
      · simp only [applyOp, addLocation_held, hc]
    | some c0 =>
      refine heldShows_update st vid snap v _ c0 (fun c => c.add loc) hc (fun w => ?_) ?_
        (fun c n hw hn hr => add_inplace_keeps c loc n hw hn hr) hs
      · simp only [applyOp, addLocation_vids, hc]
      · simp only [applyOp, addLocation_held, hc]

theorem peek_of_heldShows (st : St) (vid : Nat) (snap : List Loc) (hs : HeldShows st vid snap) : peek st = snap := by
  obtain ⟨h, hh, hv, hm⟩ := hs
  simp only [peek, hh]
  cases hf : h.frozen with
  | some a => simpa [hf] using hm
  | none =>
    simp only [hf] at hm
    obtain ⟨c, hc, htake, _⟩ := hm
    simp [hv, hc, htake]

/-- MAIN (readers keeping a returned slice; FULL since the repair): whatever is added or removed later —
    on that volume or any other, in place or with re-allocation — a kept slice keeps showing exactly what
    `GetLocations` returned: later updates never write a cell it covers -/
theorem readers_never_torn (pre post : List Op) (vid : Nat) (snap : List Loc)
    (hfound : getLocations (run pre) vid = some snap) (hpost : ∀ op ∈ post, notHold op) :
    peek (run (pre ++ [.hold vid] ++ post)) = snap := by
  apply peek_of_heldShows _ vid
  simp only [run, List.foldl_append, List.foldl_cons, List.foldl_nil]
  have hinv := (run_refines pre).1
  simp only [run] at hinv hfound
  generalize List.foldl applyOp {} pre = st0 at hinv hfound
  have h0 : HeldShows (applyOp st0 (.hold vid)) vid snap := by
    simp only [getLocations] at hfound
    cases hc : st0.vids vid with
    | none => simp [hc] at hfound
    | some c =>
      simp only [hc, Option.map_some, Option.some.injEq] at hfound
      refine ⟨{ vid := vid, len := c.len, frozen := none }, by simp [applyOp, hold, hc], rfl, ?_⟩
      simp only
      exact ⟨c, by simp [applyOp, hold_vids, hc], hfound, Nat.le_refl _, (hinv vid c hc).1⟩
  generalize applyOp st0 (.hold vid) = st1 at h0
  induction post generalizing st1 with
  | nil => exact h0
  | cons op rest ih =>
    simp only [List.foldl_cons]
    exact ih (fun o ho => hpost o (List.mem_cons_of_mem _ ho)) _ (heldShows_step st1 vid snap op (hpost op (List.mem_cons_self ..)) h0)

/-- non-vacuity: removals on the reader's own volume are allowed -/
example : ∀ op ∈ [Op.add 1 ⟨"u4", ""⟩, Op.del 1 "u1", Op.del 2 "u1"], notHold op := by
  intro op h; simp at h; rcases h with rfl | rfl | rfl <;> simp [notHold]

/-- … in particular a kept slice never shows a url twice and never loses an entry (what the judge
    `heldJudge` checks on the implementation's answers) -/
theorem readers_never_see_duplicate (pre post : List Op) (vid : Nat) (snap : List Loc)
    (hfound : getLocations (run pre) vid = some snap) (hpost : ∀ op ∈ post, notHold op) :
    ((peek (run (pre ++ [.hold vid] ++ post))).map (·.url)).Nodup := by
  rw [readers_never_torn pre post vid snap hfound hpost]
  exact each_location_once pre vid snap hfound

/-! ### concurrent writers: atomic steps versus split steps

Several update streams run concurrently; because `addLocation` / `deleteLocation` hold the write lock
from their first statement to their return, an execution is some ordering of whole steps.  Every
interleaving of the threads' steps is in particular a permutation of all their steps, so the theorems
below quantify over ALL orderings `s` of the steps of ALL thread lists. -/

/-- adds only -/
def isAdd : Op → Prop
  | .add _ _ => True
  | _ => False

theorem mem_denote_adds (s : List Op) (hs : ∀ op ∈ s, isAdd op) (m : Ref) (vid : Nat) (u : String) :
    (∃ l, s.foldl refApply m vid = some l ∧ u ∈ l.map (·.url)) ↔
      ((∃ l, m vid = some l ∧ u ∈ l.map (·.url)) ∨ ∃ loc, Op.add vid loc ∈ s ∧ loc.url = u) := by
  induction s generalizing m with
  | nil => simp
  | cons op rest ih =>
    rw [List.foldl_cons, ih (fun o ho => hs o (List.mem_cons_of_mem _ ho))]
    have hop := hs op (List.mem_cons_self ..)
    cases op with
    | del v x => exact absurd hop (by simp [isAdd])
    | hold v => exact absurd hop (by simp [isAdd])
    | add v loc =>
      simp only [refApply, refAdd, List.mem_cons, Op.add.injEq]
      by_cases hv : vid = v
      · subst hv
        simp only [if_true]
        cases hm : m vid with
        | none =>
          simp only [Option.some.injEq, exists_eq_left', List.map_cons, List.map_nil, List.mem_singleton]
          constructor
          · rintro (h | ⟨l2, h, e⟩)
            · exact Or.inr ⟨loc, Or.inl ⟨trivial, rfl⟩, h.symm⟩
            · exact Or.inr ⟨l2, Or.inr h, e⟩
          · rintro (⟨l, h, _⟩ | ⟨l2, (⟨_, rfl⟩ | h), e⟩)
            · simp at h
            · exact Or.inl e.symm
            · exact Or.inr ⟨l2, h, e⟩
        | some l0 =>
          by_cases hu : hasUrl l0 loc.url = true
          · simp only [hu, if_true, Option.some.injEq, exists_eq_left']
            constructor
            · rintro (h | ⟨l2, h, e⟩)
              · exact Or.inl h
              · exact Or.inr ⟨l2, Or.inr h, e⟩
            · rintro (h | ⟨l2, (⟨_, rfl⟩ | h), e⟩)
              · exact Or.inl h
              · exact Or.inl (by rw [← e]; exact (hasUrl_iff l0 _).mp hu)
              · exact Or.inr ⟨l2, h, e⟩
          · simp only [hu, Bool.false_eq_true, if_false, Option.some.injEq, exists_eq_left', List.map_append,
              List.map_cons, List.map_nil, List.mem_append, List.mem_singleton]
            constructor
            · rintro ((h | h) | ⟨l2, h, e⟩)
              · exact Or.inl h
              · exact Or.inr ⟨loc, Or.inl ⟨trivial, rfl⟩, h.symm⟩
              · exact Or.inr ⟨l2, Or.inr h, e⟩
            · rintro (h | ⟨l2, (⟨_, rfl⟩ | h), e⟩)
              · exact Or.inl (Or.inl h)
              · exact Or.inl (Or.inr e.symm)
              · exact Or.inr ⟨l2, h, e⟩
      · have hv' : ¬ v = vid := fun e => hv e.symm
        simp only [hv, if_false]
        constructor
        · rintro (h | ⟨l2, h, e⟩)
          · exact Or.inl h
          · exact Or.inr ⟨l2, Or.inr h, e⟩
        · rintro (h | ⟨l2, (⟨e1, _⟩ | h), e⟩)
          · exact Or.inl h
          · exact e1.elim
          · exact Or.inr ⟨l2, h, e⟩

/-- MAIN (concurrent adders, atomic steps): whatever the interleaving `s` of the writers' `addLocation`
    steps, afterwards a volume lists each url once, and lists exactly the urls some writer announced for it -/
theorem concurrent_adds_each_once (threads : List (List Op)) (s : List Op) (hperm : s.Perm threads.flatten)
    (hadds : ∀ t ∈ threads, ∀ op ∈ t, isAdd op) (vid : Nat) (l : List Loc)
    (h : getLocations (run s) vid = some l) :
    (l.map (·.url)).Nodup ∧
    ∀ u, u ∈ l.map (·.url) ↔ ∃ t ∈ threads, ∃ loc, Op.add vid loc ∈ t ∧ loc.url = u := by
  refine ⟨each_location_once s vid l h, ?_⟩
  intro u
  have hs : ∀ op ∈ s, isAdd op := by
    intro op ho
    have := (hperm.mem_iff).mp ho
    obtain ⟨t, ht, hot⟩ := List.mem_flatten.mp this
    exact hadds t ht op hot
  rw [lookup_eq_reference] at h
  have key := mem_denote_adds s hs (fun _ => none) vid u
  simp only [reduceCtorEq, false_and, exists_false, false_or] at key
  constructor
  · intro hu
    obtain ⟨loc, hmem, e⟩ := key.mp ⟨l, h, hu⟩
    obtain ⟨t, ht, hot⟩ := List.mem_flatten.mp ((hperm.mem_iff).mp hmem)
    exact ⟨t, ht, loc, hot, e⟩
  · rintro ⟨t, ht, loc, hot, e⟩
    have hmem : Op.add vid loc ∈ s := (hperm.mem_iff).mpr (List.mem_flatten.mpr ⟨t, ht, hot⟩)
    obtain ⟨l', hl', hu⟩ := key.mpr ⟨loc, hmem, e⟩
    simp only [denote] at h
    rw [h] at hl'
    cases hl'
    exact hu

/-- … and with removals mixed in, still each url once under every interleaving -/
theorem concurrent_steps_each_once (threads : List (List Op)) (s : List Op) (_hperm : s.Perm threads.flatten)
    (vid : Nat) (l : List Loc) (h : getLocations (run s) vid = some l) : (l.map (·.url)).Nodup :=
  each_location_once s vid l h

/-- the SPLIT model (check and append scheduled separately) does NOT have the property: two writers
    announcing the same location can both see "not listed" and both append -/
theorem split_add_not_each_once_witness :
    let a : Loc := ⟨"u1", "dc1"⟩
    (splitRun [.check 1 a, .check 2 a, .append 1 a, .append 2 a]).view = [a, a] ∧
    (splitRun [.check 1 a, .append 1 a, .check 2 a, .append 2 a]).view = [a] := by decide

/-- run back to back (no other step in between) the split steps ARE the atomic step -/
theorem split_sequential_eq_atomic (ws : List (Nat × Loc)) (st : SSt) :
    ((ws.flatMap fun w => [SStep.check w.1 w.2, SStep.append w.1 w.2]).foldl splitStep st).view
      = ws.foldl (fun l w => atomicAdd l w.2) st.view := by
  induction ws generalizing st with
  | nil => rfl
  | cons w rest ih =>
    simp only [List.flatMap_cons, List.cons_append, List.nil_append, List.foldl_cons]
    rw [ih]
    congr 1
    simp only [splitStep, List.lookup_cons, beq_self_eq_true, atomicAdd]
    cases hasUrl st.view w.2.url <;> simp

/-! ### T1: the atomic-step reading is tied to the source

`src_addLocation` is the hash of the source of `vidMap.addLocation` as extracted on every run.  The
pinned version was read as: first statement `vc.Lock()`, `defer vc.Unlock()`, then the map lookup, the
`loc.Url == location.Url` loop and the append — all inside the one critical section.  Any edit of the
function (e.g. moving the presence check under a separate read lock) breaks these obligations. -/

theorem bridge_addLocation_atomic_pinned : SwV.Gen.C35.src_addLocation = "ad5c9200c5cd0453" := by decide

/-- the duplicate check is still inside `addLocation` itself -/
theorem bridge_addLocation_dupcheck_inside : SwV.Gen.C35.addLocation_dupCheck = "loc.Url == location.Url" := by decide

/-- `deleteLocation` as repaired (fresh array, see `Cell.del`) and `GetLocations` (hands out the map's
    slice itself) are the versions the model was written from -/
theorem bridge_delete_get_pinned :
    SwV.Gen.C35.src_deleteLocation = "070a69660e6a7a55" ∧ SwV.Gen.C35.src_GetLocations = "c5b85c4768527a6c" ∧
    SwV.Gen.C35.deleteLocation_match = "loc.Url == location.Url" := by decide

/-- the shortened list is built in a new array of exactly len-1 cells (`Cell.del`: arr = the erased view, no
    spare cell); an in-place `append(locations[0:i], …)` no longer has this statement and breaks the obligation -/
theorem bridge_deleteLocation_fresh_array :
    SwV.Gen.C35.deleteLocation_freshArray = "remaining := make([]Location, 0, len(locations)-1)" := by decide

example : ([Op.add 1 ⟨"u1", ""⟩, Op.add 1 ⟨"u1", ""⟩] : List Op).Perm [[Op.add 1 ⟨"u1", ""⟩], [Op.add 1 ⟨"u1", ""⟩]].flatten := by
  simp

end SwV.Props.C35
